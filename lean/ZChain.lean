-- This module serves as the root of the `ZChain` library.
-- Import modules here that should be built as part of the library.
import ZChain.Basic
