import ZChain.Proofs.LedgerStep
/-!
# C02 — A failing contract call only pays its fee and consumes its nonce
-/
namespace ZChain.Ledger

/-- the fee actually charged. -/
def feeOf (feeOn : Bool) (t : Txn) : Nat := if feeOn then t.fee else 0

theorem feeQueue_nil (feeOn : Bool) (t : Txn) (i : Id) :
    outflow (feeQueue feeOn t [] []) i = (if i = t.sender then feeOf feeOn t else 0) ∧
    inflow (feeQueue feeOn t [] []) i = (if i = minerSC then feeOf feeOn t else 0) := by
  unfold feeQueue feeOf
  cases feeOn
  · simp [outflow, inflow]
  · simp only [if_true, List.nil_append, List.append_nil]
    constructor
    · rw [outflow_cons]; simp only [outflow, List.filter_nil, List.map_nil, List.sum_nil, Nat.add_zero]
      by_cases h : i = t.sender
      · simp [h]
      · have : ¬ t.sender = i := fun e => h e.symm
        simp [h, this]
    · rw [inflow_cons]; simp only [inflow, List.filter_nil, List.map_nil, List.sum_nil, Nat.add_zero]
      by_cases h : i = minerSC
      · simp [h]
      · have : ¬ minerSC = i := fun e => h e.symm
        simp [h, this]

/-- **chargeable_only_fee_nonce**: when the contract call fails with a chargeable error — no matter
which writes, transfers, signed transfers it had attempted — and the transaction is applied, then
* contract storage is exactly as before (none of the attempted writes survive),
* the status is `failed`,
* the sender's nonce went up by exactly one and no other nonce moved,
* the sender paid exactly the fee, the miner contract received exactly the fee, and every other
  balance is unchanged (with fees disabled: no balance changes at all). -/
theorem chargeable_only_fee_nonce (feeOn : Bool) (s : St) (t : Txn) (w : List Write) (tr sg : List Transfer)
    (htyp : t.typ = .sc) (h : (step feeOn s t (.chargeable w tr sg)).2 ≠ .rejected) :
    let s' := (step feeOn s t (.chargeable w tr sg)).1
    (step feeOn s t (.chargeable w tr sg)).2 = .failed ∧
    s'.store = s.store ∧
    (∀ i, (get s'.accts i).nonce = (get s.accts i).nonce + (if i = t.sender then 1 else 0)) ∧
    (∀ i, (get s'.accts i).balance + (if i = t.sender then feeOf feeOn t else 0) =
          (get s.accts i).balance + (if i = minerSC then feeOf feeOn t else 0)) := by
  obtain ⟨p, a, hp, hs, he⟩ := step_applied feeOn s t _ h
  have hp' : p = ⟨[], [], [], .failed⟩ := by
    unfold plan at hp
    by_cases h1 : t.value > maxTokenSupply
    · simp [h1] at hp
    · by_cases h2 : (get s.accts t.sender).nonce + 1 ≠ t.nonce
      · simp [h1, h2] at hp
      · simp only [h1, h2, if_false, htyp] at hp
        injection hp with hp; exact hp.symm
  subst hp'
  simp only at hs he
  intro s'
  have hs' : s' = { accts := a, store := applyWrites s.store [] } := by simp only [s', he]
  rw [he, hs']
  refine ⟨rfl, rfl, fun i => (settle_get feeOn s.accts a t [] [] hs i).2, fun i => ?_⟩
  have := (settle_get feeOn s.accts a t [] [] hs i).1
  rw [(feeQueue_nil feeOn t i).1, (feeQueue_nil feeOn t i).2] at this
  exact this

/-- **chargeable_fee_unpayable**: if the fee cannot be paid the failing call is not applied at all —
nothing changes, not even the nonce. -/
theorem chargeable_rejected_unchanged (feeOn : Bool) (s : St) (t : Txn) (w : List Write) (tr sg : List Transfer)
    (h : (step feeOn s t (.chargeable w tr sg)).2 = .rejected) :
    (step feeOn s t (.chargeable w tr sg)).1 = s :=
  step_rejected feeOn s t _ h (fun p hp => plan_status_ne_rejected s t _ p hp)

/-- the outcome of a failing call does not depend on what the contract had attempted before failing. -/
theorem chargeable_attempts_irrelevant (feeOn : Bool) (s : St) (t : Txn) (w w' : List Write) (tr tr' sg sg' : List Transfer) :
    step feeOn s t (.chargeable w tr sg) = step feeOn s t (.chargeable w' tr' sg') := by
  rw [step_eq, step_eq]
  have : plan s t (.chargeable w tr sg) = plan s t (.chargeable w' tr' sg') := by
    unfold plan; cases t.typ <;> rfl
  rw [this]

-- non-vacuity: a failing call that had attempted a write and a transfer is applied with status `failed`
def exS2 : St := { accts := [(3, ⟨1000, 4⟩), (7, ⟨5000, 0⟩)], store := [(1, 11)] }
def exT2 : Txn := { sender := 3, to := 7, toValid := true, value := 100, fee := 10, nonce := 5, typ := .sc }
example : (step true exS2 exT2 (.chargeable [.put 2 22] [⟨7, 9, 40, true, false⟩] [])).2 = .failed := by decide
example : (step true exS2 exT2 (.chargeable [.put 2 22] [⟨7, 9, 40, true, false⟩] [])).1.accts =
    [(3, ⟨990, 5⟩), (7, ⟨5000, 0⟩), (minerSC, ⟨10, 0⟩)] := by decide

end ZChain.Ledger
