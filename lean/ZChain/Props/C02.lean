import ZChain.Proofs.LedgerStep
/-!
# C02 — A failing contract call only pays its fee and consumes its nonce
-/
namespace ZChain.Ledger

/-- the fee actually charged. -/
def feeOf (feeOn : Bool) (t : Txn) : Nat := if feeOn then t.fee else 0

theorem feeQueue_nil (feeOn : Bool) (t : Txn) (i : Id) :
    outflow (feeQueue feeOn t [] []) i = (if i = t.sender then feeOf feeOn t else 0) ∧
    inflow (feeQueue feeOn t [] []) i = (if i = minerSC then feeOf feeOn t else 0) := by
  unfold feeQueue feeOf
  cases feeOn
  · simp [outflow, inflow]
  · simp only [if_true, List.nil_append, List.append_nil]
    constructor
    · rw [outflow_cons]; simp only [outflow, List.filter_nil, List.map_nil, List.sum_nil, Nat.add_zero]
      by_cases h : i = t.sender
      · simp [h]
      · have : ¬ t.sender = i := fun e => h e.symm
        simp [h, this]
    · rw [inflow_cons]; simp only [inflow, List.filter_nil, List.map_nil, List.sum_nil, Nat.add_zero]
      by_cases h : i = minerSC
      · simp [h]
      · have : ¬ minerSC = i := fun e => h e.symm
        simp [h, this]

/-- **chargeable_only_fee_nonce**: when the contract call fails with a chargeable error — no matter
which writes, transfers, signed transfers it had attempted — and the transaction is applied, then
* contract storage is exactly as before (none of the attempted writes survive),
* the status is `failed`,
* the sender's nonce went up by exactly one and no other nonce moved,
* the sender paid exactly the fee, the miner contract received exactly the fee, and every other
  balance is unchanged (with fees disabled: no balance changes at all). -/
theorem chargeable_only_fee_nonce (feeOn : Bool) (s : St) (t : Txn) (w : List Write) (tr sg : List Transfer)
    (htyp : t.typ = .sc) (h : (step feeOn s t (.chargeable w tr sg)).2 ≠ .rejected) :
    let s' := (step feeOn s t (.chargeable w tr sg)).1
    (step feeOn s t (.chargeable w tr sg)).2 = .failed ∧
    s'.store = s.store ∧
    (∀ i, (get s'.accts i).nonce = (get s.accts i).nonce + (if i = t.sender then 1 else 0)) ∧
    (∀ i, (get s'.accts i).balance + (if i = t.sender then feeOf feeOn t else 0) =
          (get s.accts i).balance + (if i = minerSC then feeOf feeOn t else 0)) := by
  obtain ⟨p, a, hp, hs, he⟩ := step_applied feeOn s t _ h
  have hp' : p = ⟨[], [], [], .failed⟩ := by
    unfold plan at hp
    by_cases h1 : t.value > maxTokenSupply
    · simp [h1] at hp
    · by_cases h2 : (get s.accts t.sender).nonce + 1 ≠ t.nonce
      · simp [h1, h2] at hp
      · simp only [h1, h2, if_false, htyp] at hp
        injection hp with hp; exact hp.symm
  subst hp'
  simp only at hs he
  intro s'
  have hs' : s' = { accts := a, store := applyWrites s.store [] } := by simp only [s', he]
  rw [he, hs']
  refine ⟨rfl, rfl, fun i => (settle_get feeOn s.accts a t [] [] hs i).2, fun i => ?_⟩
  have := (settle_get feeOn s.accts a t [] [] hs i).1
  rw [(feeQueue_nil feeOn t i).1, (feeQueue_nil feeOn t i).2] at this
  exact this

/-- **chargeable_fee_unpayable**: if the fee cannot be paid the failing call is not applied at all —
nothing changes, not even the nonce. -/
theorem chargeable_rejected_unchanged (feeOn : Bool) (s : St) (t : Txn) (w : List Write) (tr sg : List Transfer)
    (h : (step feeOn s t (.chargeable w tr sg)).2 = .rejected) :
    (step feeOn s t (.chargeable w tr sg)).1 = s :=
  step_rejected feeOn s t _ h (fun p hp => plan_status_ne_rejected s t _ p hp)

/-- the outcome of a failing call does not depend on what the contract had attempted before failing. -/
theorem chargeable_attempts_irrelevant (feeOn : Bool) (s : St) (t : Txn) (w w' : List Write) (tr tr' sg sg' : List Transfer) :
    step feeOn s t (.chargeable w tr sg) = step feeOn s t (.chargeable w' tr' sg') := by
  rw [step_eq, step_eq]
  have : plan s t (.chargeable w tr sg) = plan s t (.chargeable w' tr' sg') := by
    unfold plan; cases t.typ <;> rfl
  rw [this]

/-! ### histories: only the writes of successful calls ever reach contract storage
`keptWrites` is the specification: the writes of a contract call that returned without error AND whose transaction
was applied with status `success`; everything else (chargeable failure, internal failure, rejected transaction,
send, data) contributes nothing. -/

def okWrites : CResult → List Write
  | .ok ws _ _ => ws
  | _ => []

def keptWrites (feeOn : Bool) (s : St) (t : Txn) (r : CResult) : List Write :=
  if (step feeOn s t r).2 = .success ∧ t.typ = .sc then okWrites r else []

/-- **step_store**: one transaction changes contract storage by exactly `keptWrites`. -/
theorem step_store (feeOn : Bool) (s : St) (t : Txn) (r : CResult) :
    (step feeOn s t r).1.store = applyWrites s.store (keptWrites feeOn s t r) := by
  unfold keptWrites
  rw [step_eq]
  unfold plan
  by_cases h1 : t.value > maxTokenSupply
  · simp [h1, finish, applyWrites]
  · by_cases h2 : (get s.accts t.sender).nonce + 1 ≠ t.nonce
    · simp [h1, h2, finish, applyWrites]
    · simp only [h1, h2, if_false]
      cases ht : t.typ with
      | invalid => simp [finish, applyWrites]
      | data =>
        simp only [finish]
        rcases opt_cases (settle feeOn s.accts t [] []) with hs | ⟨a, hs⟩ <;> simp [hs, applyWrites]
      | send =>
        simp only
        split
        · simp [finish, applyWrites]
        · split
          · simp [finish, applyWrites]
          · split
            · simp [finish, applyWrites]
            · simp only [finish]
              rcases opt_cases (settle feeOn s.accts t [⟨t.sender, t.to, t.value, t.toCanon, t.toSameLeaf⟩] []) with hs | ⟨a, hs⟩ <;> simp [hs, applyWrites]
      | sc =>
        cases r with
        | internal => simp [finish, applyWrites]
        | chargeable w tr sg =>
          simp only [finish]
          rcases opt_cases (settle feeOn s.accts t [] []) with hs | ⟨a, hs⟩ <;> simp [hs, applyWrites]
        | ok ws tr sg =>
          simp only [finish]
          rcases opt_cases (settle feeOn s.accts t tr sg) with hs | ⟨a, hs⟩ <;> simp [hs, applyWrites, okWrites]


def keptHistory (feeOn : Bool) (s : St) : List (Txn × CResult) → List Write
  | [] => []
  | (t, r) :: rest => keptWrites feeOn s t r ++ keptHistory feeOn (step feeOn s t r).1 rest

theorem run_store (feeOn : Bool) (h : List (Txn × CResult)) : ∀ s : St,
    (run feeOn s h).store = applyWrites s.store (keptHistory feeOn s h) := by
  induction h with
  | nil => intro s; rfl
  | cons x rest ih =>
    intro s
    obtain ⟨t, r⟩ := x
    show (run feeOn (step feeOn s t r).1 rest).store = _
    rw [ih, step_store]
    show _ = applyWrites s.store (keptWrites feeOn s t r ++ keptHistory feeOn (step feeOn s t r).1 rest)
    rw [applyWrites_append]

theorem keptHistory_nil_of_no_ok (feeOn : Bool) (h : List (Txn × CResult)) (hno : ∀ x ∈ h, okWrites x.2 = []) :
    ∀ s : St, keptHistory feeOn s h = [] := by
  induction h with
  | nil => intro s; rfl
  | cons x rest ih =>
    intro s
    obtain ⟨t, r⟩ := x
    have h1 : okWrites r = [] := hno (t, r) List.mem_cons_self
    have h2 := ih (fun y hy => hno y (List.mem_cons_of_mem _ hy)) (step feeOn s t r).1
    show keptWrites feeOn s t r ++ keptHistory feeOn (step feeOn s t r).1 rest = []
    rw [h2, List.append_nil]
    unfold keptWrites
    split
    · exact h1
    · rfl

theorem failing_history_store_unchanged (feeOn : Bool) (s : St) (h : List (Txn × CResult))
    (hno : ∀ x ∈ h, okWrites x.2 = []) : (run feeOn s h).store = s.store := by
  rw [run_store, keptHistory_nil_of_no_ok feeOn h hno]; rfl

def exS2' : St := { accts := [(3, ⟨1000, 4⟩), (7, ⟨5000, 0⟩)], store := [(1, 11)] }
def exT2a : Txn := { sender := 3, to := 7, toValid := true, value := 0, fee := 10, nonce := 5, typ := .sc }
def exT2b : Txn := { exT2a with nonce := 6 }
def exT2c : Txn := { exT2a with nonce := 7 }
-- non-vacuity: a failing call between two successful ones leaves no trace; the two successful writes are kept in order
example : (run true exS2' [(exT2a, .ok [.put 2 22] [] []), (exT2b, .chargeable [.put 2 99, .del 1] [] []),
    (exT2c, .ok [.put 5 55] [] [])]).store = [(1, 11), (2, 22), (5, 55)] := by decide

/-- forget what a failing call had attempted. -/
def scrub : CResult → CResult
  | .chargeable _ _ _ => .chargeable [] [] []
  | r => r

theorem step_scrub (feeOn : Bool) (s : St) (t : Txn) (r : CResult) :
    step feeOn s t (scrub r) = step feeOn s t r := by
  cases r with
  | chargeable w tr sg => exact chargeable_attempts_irrelevant feeOn s t [] w [] tr [] sg
  | internal => rfl
  | ok ws tr sg => rfl

/-- **attempts_irrelevant_history**: two histories that differ only in what their failing calls had attempted
(writes, transfers, signed transfers, in any amount) end in the same state. -/
theorem attempts_irrelevant_history (feeOn : Bool) (hist : List (Txn × CResult)) : ∀ s : St,
    run feeOn s (hist.map (fun x => (x.1, scrub x.2))) = run feeOn s hist := by
  induction hist with
  | nil => intro s; rfl
  | cons x rest ih =>
    intro s
    obtain ⟨t, r⟩ := x
    show run feeOn (step feeOn s t (scrub r)).1 (rest.map _) = run feeOn (step feeOn s t r).1 rest
    rw [step_scrub]; exact ih _

-- non-vacuity: a failing call that had attempted a write and a transfer is applied with status `failed`
def exS2 : St := { accts := [(3, ⟨1000, 4⟩), (7, ⟨5000, 0⟩)], store := [(1, 11)] }
def exT2 : Txn := { sender := 3, to := 7, toValid := true, value := 100, fee := 10, nonce := 5, typ := .sc }
example : (step true exS2 exT2 (.chargeable [.put 2 22] [⟨7, 9, 40, true, false⟩] [])).2 = .failed := by decide
example : (step true exS2 exT2 (.chargeable [.put 2 22] [⟨7, 9, 40, true, false⟩] [])).1.accts =
    [(3, ⟨990, 5⟩), (7, ⟨5000, 0⟩), (minerSC, ⟨10, 0⟩)] := by decide

end ZChain.Ledger
