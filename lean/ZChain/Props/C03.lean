import ZChain.Proofs.LedgerStep
/-!
# C03 — Each account's transactions apply once, in strict nonce order
-/
namespace ZChain.Ledger

/-- **applied_iff_next_nonce**: a transaction that is applied (successfully or as a chargeable
failure) carried exactly `state nonce + 1`, afterwards the sender's nonce equals the transaction's
nonce, and no other account's nonce moved. -/
theorem applied_next_nonce (feeOn : Bool) (s : St) (t : Txn) (r : CResult)
    (h : (step feeOn s t r).2 ≠ .rejected) :
    t.nonce = (get s.accts t.sender).nonce + 1 ∧
    (get (step feeOn s t r).1.accts t.sender).nonce = t.nonce ∧
    ∀ i, i ≠ t.sender → (get (step feeOn s t r).1.accts i).nonce = (get s.accts i).nonce := by
  obtain ⟨p, a, hp, hs, he⟩ := step_applied feeOn s t r h
  have hn := (plan_nonce s t r p hp).1
  rw [he]
  refine ⟨hn.symm, ?_, fun i hi => ?_⟩
  · have := (settle_get feeOn s.accts a t p.transfers p.signed hs t.sender).2
    simp only [if_true] at this
    simp only; omega
  · have := (settle_get feeOn s.accts a t p.transfers p.signed hs i).2
    simp only [hi, if_false] at this
    simp only; omega

/-- a transaction whose nonce is not the next one is rejected and changes nothing. -/
theorem wrong_nonce_rejected (feeOn : Bool) (s : St) (t : Txn) (r : CResult)
    (h : t.nonce ≠ (get s.accts t.sender).nonce + 1) :
    step feeOn s t r = (s, .rejected) := by
  unfold step
  by_cases h1 : t.value > maxTokenSupply
  · simp [h1]
  · have : (get s.accts t.sender).nonce + 1 ≠ t.nonce := fun e => h e.symm
    simp [h1, this]

/-- every step changes a nonce by 0 or (for the sender of an applied transaction) +1. -/
theorem step_nonce (feeOn : Bool) (s : St) (t : Txn) (r : CResult) (i : Id) :
    (get (step feeOn s t r).1.accts i).nonce =
      (get s.accts i).nonce + (if (step feeOn s t r).2 ≠ .rejected ∧ i = t.sender then 1 else 0) := by
  by_cases h : (step feeOn s t r).2 ≠ .rejected
  · obtain ⟨h1, h2, h3⟩ := applied_next_nonce feeOn s t r h
    by_cases hi : i = t.sender
    · have hc : (step feeOn s t r).2 ≠ .rejected ∧ i = t.sender := ⟨h, hi⟩
      rw [if_pos hc, hi]; omega
    · have hc : ¬ ((step feeOn s t r).2 ≠ .rejected ∧ i = t.sender) := fun c => hi c.2
      rw [if_neg hc, h3 i hi]; omega
  · have hc : ¬ ((step feeOn s t r).2 ≠ .rejected ∧ i = t.sender) := fun c => h c.1
    have h' : (step feeOn s t r).2 = .rejected := Classical.not_not.mp h
    rw [if_neg hc, step_rejected feeOn s t r h' (fun p hp => plan_status_ne_rejected s t r p hp)]; omega

/-- nonces never decrease along any history. -/
theorem run_nonce_mono (feeOn : Bool) (hist : List (Txn × CResult)) :
    ∀ (s : St) (i : Id), (get s.accts i).nonce ≤ (get (run feeOn s hist).accts i).nonce := by
  induction hist with
  | nil => intro s i; exact Int.le_refl _
  | cons x rest ih =>
    intro s i
    obtain ⟨t, r⟩ := x
    show _ ≤ (get (run feeOn (step feeOn s t r).1 rest).accts i).nonce
    have h1 := step_nonce feeOn s t r i
    have h2 := ih (step feeOn s t r).1 i
    split at h1 <;> omega

/-- **no_replay**: once a transaction has been applied, the same signed transaction (same sender,
same nonce) — or any with an older nonce — is rejected at every later point of every history. -/
theorem no_replay (feeOn : Bool) (s : St) (t : Txn) (r : CResult)
    (h : (step feeOn s t r).2 ≠ .rejected) (hist : List (Txn × CResult))
    (t' : Txn) (r' : CResult) (hs : t'.sender = t.sender) (hn : t'.nonce ≤ t.nonce) :
    step feeOn (run feeOn (step feeOn s t r).1 hist) t' r' = (run feeOn (step feeOn s t r).1 hist, .rejected) := by
  apply wrong_nonce_rejected
  have h1 := (applied_next_nonce feeOn s t r h).2.1
  have h2 := run_nonce_mono feeOn hist (step feeOn s t r).1 t.sender
  rw [hs]; omega

/-- the nonces of the applied transactions of sender `i`, in application order. -/
def appliedNonces (feeOn : Bool) : St → List (Txn × CResult) → Id → List Int
  | _, [], _ => []
  | s, (t, r) :: rest, i =>
    (if (step feeOn s t r).2 ≠ .rejected ∧ i = t.sender then [t.nonce] else []) ++
      appliedNonces feeOn (step feeOn s t r).1 rest i

def seqFrom (n : Int) : Nat → List Int
  | 0 => []
  | k + 1 => (n + 1) :: seqFrom (n + 1) k

/-- **nonce_history**: for ANY list of submissions (duplicates, gaps, reorderings, many senders,
any contract behaviour) the applied transactions of each sender carry the nonces
`n₀+1, n₀+2, …` with no repeat and no gap, and the sender's final nonce is `n₀ + #applied`. -/
theorem nonce_history (feeOn : Bool) (hist : List (Txn × CResult)) : ∀ (s : St) (i : Id),
    appliedNonces feeOn s hist i = seqFrom (get s.accts i).nonce (appliedNonces feeOn s hist i).length ∧
    (get (run feeOn s hist).accts i).nonce = (get s.accts i).nonce + (appliedNonces feeOn s hist i).length := by
  induction hist with
  | nil => intro s i; simp [appliedNonces, seqFrom, run]
  | cons x rest ih =>
    intro s i
    obtain ⟨t, r⟩ := x
    have hstep := step_nonce feeOn s t r i
    obtain ⟨ih1, ih2⟩ := ih (step feeOn s t r).1 i
    have hrun : run feeOn s ((t, r) :: rest) = run feeOn (step feeOn s t r).1 rest := rfl
    rw [hrun]
    unfold appliedNonces
    by_cases hc : (step feeOn s t r).2 ≠ .rejected ∧ i = t.sender
    · rw [if_pos hc] at hstep ⊢
      have hn := (applied_next_nonce feeOn s t r hc.1).1
      have hi : i = t.sender := hc.2
      rw [← hi] at hn
      rw [hstep] at ih1 ih2
      constructor
      · simp only [List.singleton_append, List.length_cons, seqFrom]
        rw [hn, ← ih1]
      · rw [ih2]; simp only [List.singleton_append, List.length_cons]; omega
    · rw [if_neg hc] at hstep ⊢
      simp only [List.nil_append]
      rw [hstep] at ih1 ih2
      simp only [Int.add_zero] at ih1 ih2
      exact ⟨ih1, ih2⟩

-- non-vacuity: out-of-order and duplicate submissions; only 5 then 6 are applied
def exS3 : St := { accts := [(3, ⟨1000, 4⟩)], store := [] }
def exTx (n : Int) : Txn × CResult := ({ sender := 3, to := 7, toValid := true, value := 1, fee := 1, nonce := n, typ := .send }, .internal)
example : appliedNonces true exS3 [exTx 6, exTx 5, exTx 5, exTx 7, exTx 6, exTx 4] 3 = [5, 6] := by decide

end ZChain.Ledger
