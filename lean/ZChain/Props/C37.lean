import ZChain.Proofs.Round
import ZChain.Proofs.RoundConc
/-!
# C37 — Round state transitions are monotone and never deadlock

"A round's phase only moves forward except through an explicit reset or a restart before sharing, its
timeout count never decreases, and it holds at most threshold-many VRF shares with at most one per miner.
Every round operation returns, including a rejected restart, and a finalized round never becomes
un-finalized through the conditional reset."  — over any sequence and any concurrent interleaving.

All statements are about `Model/Round.lean`, tied to `chaincore/round/entity.go` by `harness/cmd/c37`.
`Cfg.code` is the code as it exists; `Cfg.repaired` differs in one step (the rejected branch of `Restart`
unlocks before it returns).

Three parts of the full statement are FALSE of the code (each confirmed on the real code by the harness):
* `ops_return` — a rejected `Restart` returns with `r.mutex` locked (`ops_return_false`);
* `timeout_monotone` — `checkCap` lowers a count that `SetTimeoutCount` put above `timeout_cap`
  (`timeout_monotone_false`);
* `phase_monotone_conc` — the exported `SetPhase` is an unlocked load-then-store (`phase_monotone_conc_false`).
For each: the negation witness, the `_partial` theorem that does hold, and (for the first) the theorem for the
repaired control flow.
-/
namespace ZChain.Round

/-! ## every operation returns -/

/-- an operation returns from `s` (it does not block for ever) -/
def Returns (cfg : Cfg) (s : R) (op : Op) : Prop := (step cfg s op).2 ≠ none

/-- states reachable from a fresh round by complete (returned or blocked-for-ever) operations -/
def Reachable (cfg : Cfg) (s : R) : Prop := ∃ n c self ops, s = run cfg (newRound n c self) ops

theorem free_returns (cfg : Cfg) (s : R) (h : Free s) (op : Op) : Returns cfg s op := by
  obtain ⟨h1, h2⟩ := h
  unfold Returns step
  cases op <;>
    simp [opM, locked_eq, rlocked_eq, restart, setSeed, setSeedNB, act, M.bind, M.pure, lock, unlock, h1, h2] <;>
    (repeat' split) <;> simp_all

/-- An operation leaves the mutex free unless it is a `Restart` of the unrepaired code in a phase ≥ Share. -/
theorem free_preserved (cfg : Cfg) (s : R) (h : Free s) (op : Op)
    (hr : op = .restart → cfg.restartUnlocksOnReject = true ∨ s.phase < Share) : Free (step cfg s op).1 := by
  obtain ⟨h1, h2⟩ := h
  unfold step Free
  cases op <;>
    simp [opM, locked_eq, rlocked_eq, restart, setSeed, setSeedNB, act, M.bind, M.pure, lock, unlock, h1, h2,
      setPhaseF_mutexHeld, setPhaseF_readers, addNotarizedF_mutexHeld, addNotarizedF_readers,
      addProposedF_mutexHeld, addProposedF_readers, updateNotarizedF, incTimeoutF, setTimeoutF, addVRFShareF,
      restartBodyF] at hr ⊢ <;>
    (repeat' split) <;> simp_all [setPhaseF_mutexHeld, setPhaseF_readers] <;> omega

/-- FULL STATEMENT (false of the code, see `ops_return_false`):
`∀ s, Reachable Cfg.code s → ∀ op, Returns Cfg.code s op`.

**ops_return_partial**: along a history without a rejected restart (every `Restart` is issued in a phase
before `Share`) the mutex is free after every operation and every operation returns. -/
theorem ops_return_partial (n c : Int) (self : Nat) (ops : List Op)
    (hok : ∀ (pre : List Op) (post : List Op), ops = pre ++ Op.restart :: post →
      (run Cfg.code (newRound n c self) pre).phase < Share) :
    Free (run Cfg.code (newRound n c self) ops) ∧ ∀ op, Returns Cfg.code (run Cfg.code (newRound n c self) ops) op := by
  suffices h : Free (run Cfg.code (newRound n c self) ops) from ⟨h, free_returns _ _ h⟩
  induction ops using List.reverseRecOn with
  | nil => exact ⟨rfl, rfl⟩
  | append_singleton pre op ih =>
    have hpre : Free (run Cfg.code (newRound n c self) pre) := by
      apply ih
      intro p q hpq
      exact hok p (q ++ [op]) (by rw [hpq]; simp)
    have : run Cfg.code (newRound n c self) (pre ++ [op]) = (step Cfg.code (run Cfg.code (newRound n c self) pre) op).1 := by
      simp [run, List.foldl_append]
    rw [this]
    apply free_preserved _ _ hpre
    intro hop
    right
    exact hok pre [] (by rw [hop])

/-- **ops_return_repaired**: with the one-step repair (unlock in the rejected branch of `Restart`) every
operation returns from every reachable state — this is the full statement, for the repaired control flow. -/
theorem ops_return_repaired (s : R) (hs : Reachable Cfg.repaired s) (op : Op) : Returns Cfg.repaired s op := by
  obtain ⟨n, c, self, ops, rfl⟩ := hs
  apply free_returns
  induction ops using List.reverseRecOn with
  | nil => exact ⟨rfl, rfl⟩
  | append_singleton pre op ih =>
    have : run Cfg.repaired (newRound n c self) (pre ++ [op]) = (step Cfg.repaired (run Cfg.repaired (newRound n c self) pre) op).1 := by
      simp [run, List.foldl_append]
    rw [this]
    exact free_preserved _ _ ih _ (fun _ => Or.inl rfl)

/-- The rejected restart of the code: it answers the error and leaves the write lock held. -/
theorem rejected_restart_leaks (s : R) (h : Free s) (hp : Share ≤ s.phase) :
    step Cfg.code s .restart = ({ s with mutexHeld := true }, some .errComplete) := by
  obtain ⟨h1, h2⟩ := h
  have hp' : s.phase ≥ Share := hp
  simp [step, opM, restart, M.bind, M.pure, lock, h1, h2, Cfg.code, hp']

/-- Once leaked, the lock stays held for ever: no operation of the code releases a lock it did not take. -/
theorem leak_permanent (s : R) (h : s.mutexHeld = true) (ops : List Op) : (run Cfg.code s ops).mutexHeld = true := by
  induction ops generalizing s with
  | nil => exact h
  | cons op ops ih =>
    apply ih
    unfold step
    cases op <;>
      simp [opM, locked_eq, rlocked_eq, restart, setSeed, setSeedNB, act, M.bind, M.pure, lock, h, setPhaseF_mutexHeld,
        incTimeoutF, setTimeoutF] <;>
      (repeat' split) <;> simp_all

/-- … and every operation that takes `r.mutex` blocks for ever (shown for the ones the protocol needs next). -/
theorem leak_blocks (s : R) (h : s.mutexHeld = true) :
    (step Cfg.code s .getShares).2 = none ∧ (∀ k t, (step Cfg.code s (.addShare k t)).2 = none) ∧
    (∀ b, (step Cfg.code s (.addNotarized b)).2 = none) ∧ (step Cfg.code s .restart).2 = none ∧
    (step Cfg.code s .isFinalized).2 = none ∧ (∀ b, (step Cfg.code s (.finalize b)).2 = none) := by
  simp [step, opM, locked_eq, rlocked_eq, restart, M.bind, lock, h]

/-- **ops_return_false** — negation witness of the full statement: after `AddNotarizedBlock; Restart` (the
restart is rejected: the round is in phase Share) `GetVRFShares` never returns. -/
theorem ops_return_false :
    ∃ s, Reachable Cfg.code s ∧ ∃ op, ¬ Returns Cfg.code s op :=
  ⟨run Cfg.code (newRound 5 1 0) [.addNotarized ⟨7, 2⟩, .restart], ⟨5, 1, 0, _, rfl⟩, .getShares, by
    unfold Returns; decide⟩

/-! ## phase, sequentially -/

/-- **phase_monotone_seq**: no operation lowers the phase, except `ResetPhase` (the explicit reset) and a
`Restart` issued before sharing (phase < Share). Holds from every state, blocked or not. -/
theorem phase_monotone_seq (cfg : Cfg) (s : R) (op : Op)
    (h1 : ∀ p, op ≠ .resetPhase p) (h2 : op = .restart → Share ≤ s.phase) :
    s.phase ≤ (step cfg s op).1.phase := by
  unfold step
  cases op <;>
    simp [opM, locked_eq, rlocked_eq, restart, setSeed, setSeedNB, act, M.bind, M.pure, lock, unlock,
      updateNotarizedF, incTimeoutF, setTimeoutF, addVRFShareF] at h1 h2 ⊢ <;>
    (repeat' split) <;>
    simp_all [setPhaseF_ge] <;>
    first
      | exact setPhaseF_ge _ _
      | (have := addNotarizedF_phase_ge ‹Blk› { s with mutexHeld := true }; simpa using this)
      | (rw [addProposedF_phase])
      | omega

/-- a restart changes the phase only when it is issued before sharing, and then to `ShareVRF` -/
theorem restart_phase (cfg : Cfg) (s : R) :
    (step cfg s .restart).1.phase = s.phase ∨ (s.phase < Share ∧ (step cfg s .restart).1.phase = ShareVRF) := by
  simp only [step, opM, restart, M.bind, lock]
  split
  · left; rfl
  · by_cases hp : s.phase ≥ Share
    · left; simp only [hp, if_true]; cases cfg.restartUnlocksOnReject <;> rfl
    · right; simp only [hp, if_false]; exact ⟨by omega, rfl⟩

/-! ## timeout count -/

/-- FULL STATEMENT (false of the code, see `timeout_monotone_false`): `∀ s op, s.tcount ≤ (step cfg s op).1.tcount`.

**timeout_monotone_partial**: no operation lowers the timeout count as long as the count is not above a
configured cap (`cap = 0` means no cap) and is below the largest Go `int`. -/
theorem timeout_monotone_partial (cfg : Cfg) (s : R) (op : Op)
    (hcap : s.cap ≤ 0 ∨ s.tcount ≤ s.cap) (hmax : s.tcount < 9223372036854775807)
    (hmin : -9223372036854775808 ≤ s.tcount) :
    s.tcount ≤ (step cfg s op).1.tcount := by
  unfold step
  cases op <;>
    simp [opM, locked_eq, rlocked_eq, restart, setSeed, setSeedNB, act, M.bind, M.pure, lock, unlock,
      updateNotarizedF, setTimeoutF, addVRFShareF, restartBodyF] <;>
    (repeat' split) <;>
    simp_all [setPhaseF_tcount, addNotarizedF_tcount, addProposedF_tcount] <;>
    try omega
  -- IncrementTimeoutCount
  rename_i prrs ranked
  unfold incTimeoutF
  split
  · exact Int.le_refl _
  · simp only
    have hperm : ∀ (t : R), t.tcount = s.tcount → t.cap = s.cap →
        s.tcount ≤ checkCapF t.cap (if scanVotes t.self t.votes t.tcount t.perm = t.tcount
          then wrap64 (scanVotes t.self t.votes t.tcount t.perm + 1) else scanVotes t.self t.votes t.tcount t.perm) := by
      intro t ht hc
      have hge := scanVotes_ge t.self t.votes t.tcount t.perm
      unfold checkCapF
      split
      · rename_i heq
        rw [heq, ht, wrap64_succ hmin hmax, hc]
        split <;> omega
      · rw [hc]; split <;> omega
    split
    · exact hperm _ rfl rfl
    · exact hperm _ rfl rfl

/-- with no cap configured the count is monotone along every history (as long as it stays in range) -/
theorem timeout_monotone_uncapped (cfg : Cfg) (s : R) (op : Op) (hcap : s.cap = 0)
    (hmax : s.tcount < 9223372036854775807) (hmin : -9223372036854775808 ≤ s.tcount) :
    s.tcount ≤ (step cfg s op).1.tcount :=
  timeout_monotone_partial cfg s op (Or.inl (by omega)) hmax hmin

/-- **timeout_monotone_false** — negation witness: with `timeout_cap = 1` (the value in
`docker.local/config/0chain.yaml`), `SetTimeoutCount(5)` then `IncrementTimeoutCount` leaves the count at 1. -/
theorem timeout_monotone_false :
    ∃ s op, Reachable Cfg.code s ∧ (step Cfg.code s op).1.tcount < s.tcount :=
  ⟨run Cfg.code (newRound 5 1 0) [.setTimeout 5], .incTimeout 77 [0], ⟨5, 1, 0, _, rfl⟩, by decide⟩

/-! ## VRF shares -/

/-- **one_per_miner**: the share map never holds two shares of one miner (keys without duplicates),
along every history. -/
theorem shares_nodup_step (cfg : Cfg) (s : R) (op : Op) (h : s.shares.Nodup) : (step cfg s op).1.shares.Nodup := by
  unfold step
  cases op <;>
    simp [opM, locked_eq, rlocked_eq, restart, setSeed, setSeedNB, act, M.bind, M.pure, lock, unlock,
      updateNotarizedF, incTimeoutF, setTimeoutF, addVRFShareF, restartBodyF] <;>
    (repeat' split) <;>
    simp_all [setPhaseF_shares, addNotarizedF_shares, addProposedF_shares, List.nodup_append]

theorem one_per_miner (cfg : Cfg) (s : R) (hs : Reachable cfg s) : s.shares.Nodup := by
  obtain ⟨n, c, self, ops, rfl⟩ := hs
  induction ops using List.reverseRecOn with
  | nil => exact List.nodup_nil
  | append_singleton pre op ih =>
    have : run cfg (newRound n c self) (pre ++ [op]) = (step cfg (run cfg (newRound n c self) pre) op).1 := by
      simp [run, List.foldl_append]
    rw [this]; exact shares_nodup_step _ _ _ ih

/-- the largest threshold any `AddVRFShare` of the history was called with -/
def maxThreshold : List Op → Int
  | [] => 0
  | .addShare _ t :: ops => max t (maxThreshold ops)
  | _ :: ops => maxThreshold ops

theorem shares_le_step (cfg : Cfg) (s : R) (op : Op) (T : Int) (h : (s.shares.length : Int) ≤ T)
    (hT : 0 ≤ T) (hop : ∀ k t, op = .addShare k t → t ≤ T) : ((step cfg s op).1.shares.length : Int) ≤ T := by
  unfold step
  cases op <;>
    simp [opM, locked_eq, rlocked_eq, restart, setSeed, setSeedNB, act, M.bind, M.pure, lock, unlock,
      updateNotarizedF, incTimeoutF, setTimeoutF, addVRFShareF, restartBodyF] at hop ⊢ <;>
    (repeat' split) <;>
    simp_all [setPhaseF_shares, addNotarizedF_shares, addProposedF_shares] <;>
    omega

/-- **shares_le_threshold**: a round never holds more shares than the (largest) threshold `AddVRFShare` was
called with; with one threshold `t` for the whole history: `|shares| ≤ t`. -/
theorem shares_le_threshold (cfg : Cfg) (n c : Int) (self : Nat) (ops : List Op) (T : Int) (hT : 0 ≤ T)
    (hops : ∀ k t, Op.addShare k t ∈ ops → t ≤ T) :
    ((run cfg (newRound n c self) ops).shares.length : Int) ≤ T := by
  induction ops using List.reverseRecOn with
  | nil => simpa [run, newRound] using hT
  | append_singleton pre op ih =>
    have : run cfg (newRound n c self) (pre ++ [op]) = (step cfg (run cfg (newRound n c self) pre) op).1 := by
      simp [run, List.foldl_append]
    rw [this]
    apply shares_le_step _ _ _ _ (ih (fun k t hm => hops k t (by simp [hm]))) hT
    intro k t hop
    exact hops k t (by simp [hop])

/-- an accepted share was below the threshold of that very call, and is new -/
theorem addShare_accepts (cfg : Cfg) (s : R) (k : Nat) (t : Int)
    (h : (step cfg s (.addShare k t)).2 = some (.bool true)) :
    (s.shares.length : Int) < t ∧ k ∉ s.shares ∧ (step cfg s (.addShare k t)).1.shares = s.shares ++ [k] := by
  unfold step at h ⊢
  simp only [opM, locked_eq] at h ⊢
  split at h
  · simp at h
  · simp only [addVRFShareF] at h ⊢
    split at h
    · simp at h
    · split at h
      · simp at h
      · rename_i h1 h2
        simp only [setPhaseF_shares] at h1 h2 ⊢
        simp only [h1, h2, if_false]
        refine ⟨by omega, by simpa using h2, ?_⟩
        simp [setPhaseF_shares]

/-! ## finalization state -/

/-- **finalized_stays**: a finalized round (state `Finalized`, or round 0 which always counts as finalized)
stays so under every operation except the unconditional `ResetFinalizingState`; in particular under
`ResetFinalizingStateIfNotFinalized`. -/
theorem finalized_stays (cfg : Cfg) (s : R) (op : Op) (h : isFinalizedF s = true) (hop : op ≠ .resetFin) :
    isFinalizedF (step cfg s op).1 = true ∧ (step cfg s op).1.fin = s.fin ∨ (step cfg s op).1.fin = Finalized := by
  unfold step
  unfold isFinalizedF at h ⊢
  cases op <;>
    simp [opM, locked_eq, rlocked_eq, restart, setSeed, setSeedNB, act, M.bind, M.pure, lock, unlock,
      updateNotarizedF, incTimeoutF, setTimeoutF, addVRFShareF, restartBodyF, isFinalizedF, isFinalizingF] at hop h ⊢ <;>
    (repeat' split) <;>
    simp_all [setPhaseF_fin, setPhaseF_number, addNotarizedF_fin, addNotarizedF_number, addProposedF_fin,
      addProposedF_number, Finalized]

/-- the conditional reset, exactly: it never changes the state of a finalized round, and resets any other. -/
theorem conditional_reset (cfg : Cfg) (s : R) (h : Free s) :
    (step cfg s .resetFinIfNot).1.fin = if isFinalizedF s then s.fin else NotFinalized := by
  obtain ⟨h1, h2⟩ := h
  simp only [step, opM, locked_eq, h1, h2]
  unfold isFinalizedF
  simp only [Bool.false_or, bne_self_eq_false, Bool.false_eq_true, if_false]
  split <;> rfl

/-! ## phase under concurrency (all interleavings of atomic steps) -/

open Conc in
/-- **phase_monotone_conc_partial**: if every writer of the phase runs `setPhase` under `r.mutex` (as
`AddNotarizedBlock` and `AddVRFShare` do), then along EVERY schedule of atomic steps, for any number of
threads each making any number of such calls, no step lowers the phase. -/
theorem phase_monotone_conc_partial (p0 : Int) (progs : List (List Int)) (sched : List Nat) :
    (Conc.trace (Conc.initCS p0 (progs.map fun vs => (vs.map Conc.lockedSetPhaseI).flatten)) sched).Pairwise (· ≤ ·) :=
  Conc.locked_trace_monotone p0 progs sched

/-- FULL STATEMENT (false of the code): the same for the programs the code really runs, where the exported
`SetPhase` (called by the miner at miner/round.go:225, miner/protocol_round.go:830 and :1158) does NOT take the mutex.

**phase_monotone_conc_false** — negation witness: thread 0 = `SetPhase(Verify)` (unlocked), thread 1 =
`AddNotarizedBlock` (`setPhase(Share)` under the mutex). Schedule: 0 loads 0; 1 locks, loads, stores 3,
unlocks; 0 stores 1. The phase goes 0 → 3 → 1. -/
theorem phase_monotone_conc_false :
    Conc.trace (Conc.initCS 0 [Conc.setPhaseI Verify, Conc.lockedSetPhaseI Share]) [0, 1, 1, 1, 1, 0] = [0, 0, 0, 0, 3, 3, 1] := by
  decide

/-- the same lost update with two unlocked `SetPhase` calls -/
theorem phase_monotone_conc_false_two_unlocked :
    Conc.trace (Conc.initCS 0 [Conc.setPhaseI Verify, Conc.setPhaseI Complete]) [0, 1, 1, 0] = [0, 0, 0, 4, 1] := by
  decide

/-! ## non-vacuity -/

example : Free (run Cfg.code (newRound 5 1 0) [.addShare 1 2, .addNotarized ⟨7, 2⟩, .setFinalizing]) := by decide
example : (run Cfg.code (newRound 5 1 0) [.addShare 1 2, .addNotarized ⟨7, 2⟩]).phase = Share := by decide
example : (run Cfg.code (newRound 5 0 0) [.addShare 1 2, .addShare 1 2, .addShare 2 2, .addShare 3 2]).shares = [1, 2] := by decide
example : isFinalizedF (run Cfg.code (newRound 5 0 0) [.setFinalizing, .finalize ⟨3, 0⟩]) = true := by decide
example : (step Cfg.code (run Cfg.code (newRound 5 1 0) [.addNotarized ⟨7, 2⟩, .restart]) .getShares).2 = none := by decide
example : (step Cfg.repaired (run Cfg.repaired (newRound 5 1 0) [.addNotarized ⟨7, 2⟩, .restart]) .getShares).2 = some (.keys []) := by decide
example : (run Cfg.code (newRound 5 0 2) [.addVote 4 1, .incTimeout 9 [2, 1, 0]]).tcount = 4 := by decide

end ZChain.Round
