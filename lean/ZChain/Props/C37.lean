import ZChain.Proofs.Round
import ZChain.Proofs.RoundConc
import ZChain.Proofs.RoundFinConc
/-!
# C37 — Round state transitions are monotone and never deadlock

"A round's phase only moves forward except through an explicit reset or a restart before sharing, its
timeout count never decreases, and it holds at most threshold-many VRF shares with at most one per miner.
Every round operation returns, including a rejected restart, and a finalized round never becomes
un-finalized through the conditional reset."  — over any sequence and any concurrent interleaving.

All statements are about `Model/Round.lean`, tied to `chaincore/round/entity.go` by `harness/cmd/c37`.
`Cfg.code` is the code as it exists (since repo commit 4a40ef6 the rejected branch of `Restart` unlocks before it
returns); `Cfg.before4a40ef6` is the control flow before that commit, used only by the theorems labelled HISTORICAL.

`ops_return` and `phase_monotone_conc` are FULL statements and hold of the code (`setPhase` is a compare-and-swap
loop since repo commit 8870ba0; the old load-then-store and its lost update are kept only as HISTORICAL statements).
One part of the full statement is FALSE of the code (confirmed on the real code by the harness):
* `timeout_monotone` — `checkCap` lowers a count that `SetTimeoutCount` put above `timeout_cap`
  (`timeout_monotone_false`), with the `_partial` theorem that does hold.
-/
namespace ZChain.Round

/-! ## every operation returns -/

/-- an operation returns from `s` (it does not block for ever) -/
def Returns (cfg : Cfg) (s : R) (op : Op) : Prop := (step cfg s op).2 ≠ none

/-- states reachable from a fresh round by complete (returned or blocked-for-ever) operations -/
def Reachable (cfg : Cfg) (s : R) : Prop := ∃ n c self ops, s = run cfg (newRound n c self) ops

theorem free_returns (cfg : Cfg) (s : R) (h : Free s) (op : Op) : Returns cfg s op := by
  obtain ⟨h1, h2⟩ := h
  have hb : blocks s op = false := by
    cases op <;> simp [blocks, Op.lk, h1, h2]
  unfold Returns
  rw [step_spec, hb]
  simp

/-- An operation leaves the mutex free (for the historical control flow: unless it is a `Restart` in a phase ≥ Share). -/
theorem free_preserved (cfg : Cfg) (s : R) (h : Free s) (op : Op)
    (hr : op = .restart → cfg.restartUnlocksOnReject = true ∨ s.d.phase < Share) : Free (step cfg s op).1 := by
  obtain ⟨h1, h2⟩ := h
  rw [step_spec]
  split
  · exact ⟨h1, h2⟩
  · refine ⟨?_, h2⟩
    simp only
    cases op <;> simp only [Op.isRestart, Bool.false_eq_true, if_false, h1]
    rcases hr rfl with hc | hp
    · simp [hc]
    · have : ¬ (s.d.phase ≥ Share) := by omega
      simp [this]

theorem run_snoc (cfg : Cfg) (s : R) (pre : List Op) (op : Op) :
    run cfg s (pre ++ [op]) = (step cfg (run cfg s pre) op).1 := by
  simp [run, List.foldl_append]

/-- induction over histories, last operation first -/
theorem run_induction (cfg : Cfg) (s0 : R) (P : R → Prop) (h0 : P s0)
    (hstep : ∀ s op, P s → P (step cfg s op).1) (ops : List Op) : P (run cfg s0 ops) := by
  induction ops generalizing s0 with
  | nil => exact h0
  | cons op ops ih => exact ih _ (hstep _ _ h0)

/-- the mutex is free in every reachable state of the code -/
theorem reachable_free (s : R) (hs : Reachable Cfg.code s) : Free s := by
  obtain ⟨n, c, self, ops, rfl⟩ := hs
  exact run_induction _ _ Free ⟨rfl, rfl⟩ (fun s op h => free_preserved _ _ h _ (fun _ => Or.inl rfl)) ops

/-- **ops_return** (FULL STATEMENT): from every state reachable by any sequence of round operations, every round
operation returns — including a rejected restart, and every operation after one. -/
theorem ops_return (s : R) (hs : Reachable Cfg.code s) (op : Op) : Returns Cfg.code s op :=
  free_returns _ _ (reachable_free s hs) op

/-- the rejected restart of the code: it answers the error, changes nothing, and leaves the mutex free -/
theorem rejected_restart_returns (s : R) (h : Free s) (hp : Share ≤ s.d.phase) :
    step Cfg.code s .restart = (s, some .errComplete) := by
  obtain ⟨h1, h2⟩ := h
  have hp' : s.d.phase ≥ Share := hp
  rw [step_spec]
  simp [blocks, Op.lk, h1, h2, Op.body, Op.isRestart, hp', Cfg.code]
  cases s; simp_all

/-! ### HISTORICAL — the control flow before repo commit 4a40ef6 (`Cfg.before4a40ef6`)

Kept as statements about the old control flow only: they say what the defect recorded as
`C37:rejected-restart-leaves-mutex-locked` (now "fixed") was. Nothing below is about the code as it exists. -/

/-- HISTORICAL: along a history without a rejected restart the old control flow kept the mutex free. -/
theorem historical_ops_return_partial (n c : Int) (self : Nat) (ops : List Op)
    (hok : ∀ (pre : List Op) (post : List Op), ops = pre ++ Op.restart :: post →
      (run Cfg.before4a40ef6 (newRound n c self) pre).d.phase < Share) :
    Free (run Cfg.before4a40ef6 (newRound n c self) ops) ∧
      ∀ op, Returns Cfg.before4a40ef6 (run Cfg.before4a40ef6 (newRound n c self) ops) op := by
  suffices h : ∀ (k : Nat) (pre post : List Op), pre.length = k → ops = pre ++ post →
      Free (run Cfg.before4a40ef6 (newRound n c self) pre) by
    have := h ops.length ops [] rfl (by simp)
    exact ⟨this, free_returns _ _ this⟩
  intro k
  induction k with
  | zero =>
    intro pre post hl _
    have : pre = [] := List.eq_nil_of_length_eq_zero hl
    subst this; exact ⟨rfl, rfl⟩
  | succ k ih =>
    intro pre post hl hops
    have hne : pre ≠ [] := by intro h; rw [h] at hl; simp at hl
    obtain ⟨pre', op, rfl⟩ : ∃ pre' op, pre = pre' ++ [op] := ⟨pre.dropLast, pre.getLast hne, (List.dropLast_concat_getLast hne).symm⟩
    have hpre : Free (run Cfg.before4a40ef6 (newRound n c self) pre') :=
      ih pre' (op :: post) (by simp at hl; omega) (by rw [hops]; simp)
    rw [run_snoc]
    apply free_preserved _ _ hpre
    intro hop
    right
    exact hok pre' post (by rw [hops, hop]; simp)

/-- HISTORICAL: the rejected restart answered the error and left the write lock held. -/
theorem historical_rejected_restart_leaks (s : R) (h : Free s) (hp : Share ≤ s.d.phase) :
    step Cfg.before4a40ef6 s .restart = ({ s with mutexHeld := true }, some .errComplete) := by
  obtain ⟨h1, h2⟩ := h
  have hp' : s.d.phase ≥ Share := hp
  rw [step_spec]
  simp [blocks, Op.lk, h1, h2, Op.body, Op.isRestart, hp', Cfg.before4a40ef6]

/-- A held write lock is never released by an operation that did not take it (any control flow): this is why a
leaked lock is permanent, and why a regression of the fix deadlocks the round. -/
theorem leak_permanent (cfg : Cfg) (s : R) (h : s.mutexHeld = true) (ops : List Op) : (run cfg s ops).mutexHeld = true := by
  refine run_induction _ _ (fun s => s.mutexHeld = true) h ?_ ops
  intro s op h
  rw [step_spec]
  split
  · exact h
  · rename_i hb
    cases op <;> simp_all [Op.isRestart, blocks, Op.lk]

/-- … and while it is held every operation that takes `r.mutex` blocks for ever. -/
theorem leak_blocks (cfg : Cfg) (s : R) (h : s.mutexHeld = true) (op : Op) (hop : op.lk ≠ .none)
    (hs : ∀ seed n, op = .setSeed seed n → s.d.seed = 0) : (step cfg s op).2 = none := by
  rw [step_spec]
  have : blocks s op = true := by
    cases op <;> simp_all [blocks, Op.lk]
  simp [this]

/-- HISTORICAL negation witness: with the old control flow, after `AddNotarizedBlock; Restart` (rejected: the round is
in phase Share) `GetVRFShares` never returned. -/
theorem historical_ops_return_false :
    ∃ s, Reachable Cfg.before4a40ef6 s ∧ ∃ op, ¬ Returns Cfg.before4a40ef6 s op :=
  ⟨run Cfg.before4a40ef6 (newRound 5 1 0) [.addNotarized ⟨7, 2⟩, .restart], ⟨5, 1, 0, _, rfl⟩, .getShares, by
    unfold Returns; decide⟩

/-- a blocked call has no effect on the round at all -/
theorem blocked_no_effect (cfg : Cfg) (s : R) (op : Op) (h : (step cfg s op).2 = none) : (step cfg s op).1 = s := by
  rw [step_spec] at h ⊢
  split at h
  · rename_i hb; simp [hb]
  · simp at h

/-! ## phase, sequentially -/

theorem body_phase (op : Op) (d : D) (h1 : ∀ p, op ≠ .resetPhase p) (h2 : op = .restart → Share ≤ d.phase) :
    d.phase ≤ (op.body d).2.phase := by
  cases op <;> simp only [Op.body, Int.le_refl]
  case setPhase p => exact setPhaseF_ge p d
  case resetPhase p => exact absurd rfl (h1 p)
  case addShare k t =>
    unfold addVRFShareF
    split
    · exact Int.le_refl _
    · split
      · exact Int.le_refl _
      · exact setPhaseF_ge _ _
  case addNotarized b => exact addNotarizedF_phase_ge b d
  case addProposed b => rw [addProposedF_phase]; exact Int.le_refl _
  case updateNotarized b => exact Int.le_refl _
  case bestNotarized => split <;> exact Int.le_refl _
  case bestProposed => split <;> exact Int.le_refl _
  case restart =>
    have : d.phase ≥ Share := h2 rfl
    simp [this]
  case setFinalizing => split <;> exact Int.le_refl _
  case resetFinIfNot => split <;> exact Int.le_refl _
  case setTimeout n => unfold setTimeoutF; split <;> exact Int.le_refl _
  case incTimeout prrs ranked =>
    unfold incTimeoutF
    split
    · exact Int.le_refl _
    · simp only; split <;> exact Int.le_refl _
  case setSeed seed n => split <;> exact Int.le_refl _

/-- **phase_monotone_seq**: no operation lowers the phase, except `ResetPhase` (the explicit reset) and a
`Restart` issued before sharing (phase < Share). Holds from every state, blocked or not. -/
theorem phase_monotone_seq (cfg : Cfg) (s : R) (op : Op)
    (h1 : ∀ p, op ≠ .resetPhase p) (h2 : op = .restart → Share ≤ s.d.phase) :
    s.d.phase ≤ (step cfg s op).1.d.phase := by
  rw [step_spec]
  split
  · exact Int.le_refl _
  · exact body_phase op s.d h1 h2

/-- a restart changes the phase only when it is issued before sharing, and then to `ShareVRF` -/
theorem restart_phase (cfg : Cfg) (s : R) :
    (step cfg s .restart).1.d.phase = s.d.phase ∨
      (s.d.phase < Share ∧ (step cfg s .restart).1.d.phase = ShareVRF) := by
  rw [step_spec]
  split
  · left; rfl
  · simp only [Op.body]
    by_cases hp : s.d.phase ≥ Share
    · left; simp [hp]
    · right; simp only [hp, if_false]; exact ⟨by omega, rfl⟩

/-! ## timeout count -/

theorem body_tcount (op : Op) (d : D)
    (hcap : d.cap ≤ 0 ∨ d.tcount ≤ d.cap) (hmax : d.tcount < 9223372036854775807)
    (hmin : -9223372036854775808 ≤ d.tcount) : d.tcount ≤ (op.body d).2.tcount := by
  cases op <;> simp only [Op.body, Int.le_refl]
  case setPhase p => rw [setPhaseF_tcount]; exact Int.le_refl _
  case addShare k t =>
    unfold addVRFShareF
    split
    · exact Int.le_refl _
    · split
      · exact Int.le_refl _
      · simp only [setPhaseF_tcount]; exact Int.le_refl _
  case addNotarized b => rw [addNotarizedF_tcount]; exact Int.le_refl _
  case addProposed b => rw [addProposedF_tcount]; exact Int.le_refl _
  case updateNotarized b => exact Int.le_refl _
  case bestNotarized => split <;> exact Int.le_refl _
  case bestProposed => split <;> exact Int.le_refl _
  case restart => split <;> exact Int.le_refl _
  case setFinalizing => split <;> exact Int.le_refl _
  case resetFinIfNot => split <;> exact Int.le_refl _
  case setTimeout n => unfold setTimeoutF; split <;> simp only <;> omega
  case setSeed seed n => split <;> exact Int.le_refl _
  case incTimeout prrs ranked =>
    unfold incTimeoutF
    split
    · exact Int.le_refl _
    · simp only
      have hperm : ∀ (t : D), t.tcount = d.tcount → t.cap = d.cap →
          d.tcount ≤ checkCapF t.cap (if scanVotes t.self t.votes t.tcount t.perm = t.tcount
            then wrap64 (scanVotes t.self t.votes t.tcount t.perm + 1) else scanVotes t.self t.votes t.tcount t.perm) := by
        intro t ht hc
        have hge := scanVotes_ge t.self t.votes t.tcount t.perm
        unfold checkCapF
        split
        · rename_i heq
          rw [heq, ht, wrap64_succ hmin hmax, hc]
          split <;> omega
        · rw [hc]; split <;> omega
      split
      · exact hperm _ rfl rfl
      · exact hperm _ rfl rfl

/-- FULL STATEMENT (false of the code, see `timeout_monotone_false`): `∀ s op, s.d.tcount ≤ (step cfg s op).1.d.tcount`.

**timeout_monotone_partial**: no operation lowers the timeout count as long as the count is not above a
configured cap (`cap ≤ 0` means no cap) and is below the largest Go `int`. -/
theorem timeout_monotone_partial (cfg : Cfg) (s : R) (op : Op)
    (hcap : s.d.cap ≤ 0 ∨ s.d.tcount ≤ s.d.cap) (hmax : s.d.tcount < 9223372036854775807)
    (hmin : -9223372036854775808 ≤ s.d.tcount) :
    s.d.tcount ≤ (step cfg s op).1.d.tcount := by
  rw [step_spec]
  split
  · exact Int.le_refl _
  · exact body_tcount op s.d hcap hmax hmin

/-- with no cap configured the count is monotone under every operation (as long as it stays in range) -/
theorem timeout_monotone_uncapped (cfg : Cfg) (s : R) (op : Op) (hcap : s.d.cap = 0)
    (hmax : s.d.tcount < 9223372036854775807) (hmin : -9223372036854775808 ≤ s.d.tcount) :
    s.d.tcount ≤ (step cfg s op).1.d.tcount :=
  timeout_monotone_partial cfg s op (Or.inl (by omega)) hmax hmin

/-- **timeout_monotone_false** — negation witness: with `timeout_cap = 1` (the value in
`docker.local/config/0chain.yaml`), `SetTimeoutCount(5)` then `IncrementTimeoutCount` leaves the count at 1. -/
theorem timeout_monotone_false :
    ∃ s op, Reachable Cfg.code s ∧ (step Cfg.code s op).1.d.tcount < s.d.tcount :=
  ⟨run Cfg.code (newRound 5 1 0) [.setTimeout 5], .incTimeout 77 [0], ⟨5, 1, 0, _, rfl⟩, by decide⟩

/-- the other exception the hypotheses of `timeout_monotone_partial` name — negation witness: a count put at the
largest Go `int` by `SetTimeoutCount` (it comes from a block's `RoundTimeoutCount`) wraps to the smallest one at the
next `IncrementTimeoutCount` (`tc.count++`). -/
theorem timeout_wraps_at_max_int :
    (run Cfg.code (newRound 5 0 0) [.setTimeout 9223372036854775807, .incTimeout 77 [0]]).d.tcount = -9223372036854775808 := by
  decide

/-! ## VRF shares -/

theorem body_shares (op : Op) (d : D) :
    (op.body d).2.shares = d.shares ∨ (op.body d).2.shares = [] ∨
    ∃ k t, op = .addShare k t ∧ (d.shares.length : Int) < t ∧ k ∉ d.shares ∧ (op.body d).2.shares = d.shares ++ [k] ∧
      (op.body d).1 = .bool true := by
  cases op <;> simp only [Op.body, true_or]
  case setPhase p => left; exact setPhaseF_shares p d
  case addShare k t =>
    unfold addVRFShareF
    split
    · left; rfl
    · split
      · left; rfl
      · rename_i h1 h2
        right; right
        exact ⟨k, t, rfl, by omega, by simpa using h2, by simp, rfl⟩
  case addNotarized b => left; exact addNotarizedF_shares b d
  case addProposed b => left; exact addProposedF_shares b d
  case updateNotarized b => left; rfl
  case bestNotarized => left; split <;> rfl
  case bestProposed => left; split <;> rfl
  case restart => split; · left; rfl
                  · right; left; rfl
  case setFinalizing => left; split <;> rfl
  case resetFinIfNot => left; split <;> rfl
  case setTimeout n => left; unfold setTimeoutF; split <;> rfl
  case incTimeout prrs ranked =>
    left; unfold incTimeoutF
    split
    · rfl
    · simp only; split <;> rfl
  case setSeed seed n => left; split <;> rfl

/-- **one_per_miner**: the share map never holds two shares of one miner (keys without duplicates),
along every history. -/
theorem shares_nodup_step (cfg : Cfg) (s : R) (op : Op) (h : s.d.shares.Nodup) : (step cfg s op).1.d.shares.Nodup := by
  rw [step_spec]
  split
  · exact h
  · simp only
    rcases body_shares op s.d with h1 | h1 | ⟨k, t, _, _, hk, h1, _⟩
    · rw [h1]; exact h
    · rw [h1]; exact List.nodup_nil
    · rw [h1]
      rw [List.nodup_append]
      refine ⟨h, by simp, ?_⟩
      intro a ha b hb
      simp at hb
      subst hb
      intro hab; subst hab; exact hk ha

theorem one_per_miner (cfg : Cfg) (s : R) (hs : Reachable cfg s) : s.d.shares.Nodup := by
  obtain ⟨n, c, self, ops, rfl⟩ := hs
  exact run_induction _ _ (fun s => s.d.shares.Nodup) List.nodup_nil (fun s op h => shares_nodup_step _ _ _ h) ops

theorem shares_le_step (cfg : Cfg) (s : R) (op : Op) (T : Int) (h : (s.d.shares.length : Int) ≤ T)
    (hT : 0 ≤ T) (hop : ∀ k t, op = .addShare k t → t ≤ T) : ((step cfg s op).1.d.shares.length : Int) ≤ T := by
  rw [step_spec]
  split
  · exact h
  · simp only
    rcases body_shares op s.d with h1 | h1 | ⟨k, t, hk, hlt, _, h1, _⟩
    · rw [h1]; exact h
    · rw [h1]; simpa using hT
    · rw [h1]
      have := hop k t hk
      simp only [List.length_append, List.length_cons, List.length_nil]
      omega

/-- **shares_le_threshold**: a round never holds more shares than the (largest) threshold `AddVRFShare` was
called with; with one threshold `t` for the whole history: `|shares| ≤ t`. -/
theorem shares_le_threshold (cfg : Cfg) (n c : Int) (self : Nat) (ops : List Op) (T : Int) (hT : 0 ≤ T)
    (hops : ∀ k t, Op.addShare k t ∈ ops → t ≤ T) :
    ((run cfg (newRound n c self) ops).d.shares.length : Int) ≤ T := by
  suffices h : ∀ (s0 : R), (s0.d.shares.length : Int) ≤ T → ((run cfg s0 ops).d.shares.length : Int) ≤ T from
    h _ (by simpa [newRound] using hT)
  induction ops with
  | nil => intro s0 h; exact h
  | cons op ops ih =>
    intro s0 h0
    apply ih (fun k t hm => hops k t (by simp [hm]))
    exact shares_le_step _ _ _ _ h0 hT (fun k t hop => hops k t (by simp [hop]))

/-- an accepted share was below the threshold of that very call, and is new -/
theorem addShare_accepts (cfg : Cfg) (s : R) (k : Nat) (t : Int)
    (h : (step cfg s (.addShare k t)).2 = some (.bool true)) :
    (s.d.shares.length : Int) < t ∧ k ∉ s.d.shares ∧ (step cfg s (.addShare k t)).1.d.shares = s.d.shares ++ [k] := by
  rw [step_spec] at h ⊢
  split at h
  · simp at h
  · rename_i hb
    simp only [hb, Bool.false_eq_true, if_false] at h ⊢
    simp only [Op.body, addVRFShareF] at h ⊢
    split at h
    · simp at h
    · split at h
      · simp at h
      · rename_i h1 h2
        simp only [h1, h2, if_false, Bool.false_eq_true]
        exact ⟨by omega, by simpa using h2, by simp⟩

/-! ## finalization state -/

theorem body_fin (op : Op) (d : D) (h : isFinalizedF d = true) (hop : op ≠ .resetFin) :
    (op.body d).2.number = d.number ∧ ((op.body d).2.fin = d.fin ∨ (op.body d).2.fin = Finalized) := by
  cases op <;> simp only [Op.body, true_or, and_self]
  case setPhase p => exact ⟨setPhaseF_number p d, Or.inl (setPhaseF_fin p d)⟩
  case addShare k t =>
    unfold addVRFShareF
    split
    · exact ⟨rfl, Or.inl rfl⟩
    · split
      · exact ⟨rfl, Or.inl rfl⟩
      · exact ⟨by simp [setPhaseF_number], Or.inl (by simp [setPhaseF_fin])⟩
  case addNotarized b => exact ⟨addNotarizedF_number b d, Or.inl (addNotarizedF_fin b d)⟩
  case addProposed b => exact ⟨addProposedF_number b d, Or.inl (addProposedF_fin b d)⟩
  case updateNotarized b => exact ⟨rfl, Or.inl rfl⟩
  case bestNotarized => split <;> exact ⟨rfl, Or.inl rfl⟩
  case bestProposed => split <;> exact ⟨rfl, Or.inl rfl⟩
  case restart => split <;> exact ⟨rfl, Or.inl rfl⟩
  case finalize b => exact ⟨trivial, Or.inr trivial⟩
  case setFinalizing => simp [h]
  case setFinalized => exact ⟨trivial, Or.inr trivial⟩
  case resetFinIfNot => simp [h]
  case resetFin => exact absurd rfl hop
  case setTimeout n => unfold setTimeoutF; split <;> exact ⟨rfl, Or.inl rfl⟩
  case incTimeout prrs ranked =>
    unfold incTimeoutF
    split
    · exact ⟨rfl, Or.inl rfl⟩
    · simp only; split <;> exact ⟨rfl, Or.inl rfl⟩
  case setSeed seed n => split <;> exact ⟨rfl, Or.inl rfl⟩

/-- **finalized_stays**: a finalized round (state `Finalized`, or round 0 which always counts as finalized)
stays finalized under every operation except the unconditional `ResetFinalizingState`; in particular under
`ResetFinalizingStateIfNotFinalized`. -/
theorem finalized_stays (cfg : Cfg) (s : R) (op : Op) (h : isFinalizedF s.d = true) (hop : op ≠ .resetFin) :
    isFinalizedF (step cfg s op).1.d = true := by
  rw [step_spec]
  split
  · exact h
  · simp only
    obtain ⟨hn, hf | hf⟩ := body_fin op s.d h hop
    · unfold isFinalizedF at h ⊢; rw [hn, hf]; exact h
    · unfold isFinalizedF; rw [hf]; simp

/-- the conditional reset, exactly: it never changes the state of a finalized round, and resets any other. -/
theorem conditional_reset (cfg : Cfg) (s : R) (h : Free s) :
    (step cfg s .resetFinIfNot).1.d.fin = if isFinalizedF s.d then s.d.fin else NotFinalized := by
  obtain ⟨h1, h2⟩ := h
  rw [step_spec]
  simp only [blocks, Op.lk, h1, h2, Op.body]
  simp only [Bool.false_or, bne_self_eq_false, Bool.false_eq_true, if_false]
  split <;> rfl

/-! ## phase under concurrency (all interleavings of atomic steps) -/

/-- **phase_monotone_conc** (FULL STATEMENT): any number of threads, each making any sequence of `SetPhase(v)` calls
(unlocked, as the miner calls it at miner/round.go:225, miner/protocol_round.go:830 and :1158) and of `setPhase(v)`
calls under `r.mutex` (`AddNotarizedBlock`, `AddVRFShare`), any initial phase, EVERY schedule of atomic steps
(loads, compare-and-swaps with their retries, lock acquisitions): the phase never goes down. -/
theorem phase_monotone_conc (p0 : Int) (progs : List (List Conc.Call)) (sched : List Nat) :
    (Conc.trace (Conc.initCS p0 (progs.map Conc.prog)) sched).Pairwise (· ≤ ·) := by
  apply Conc.trace_pairwise
  apply Conc.init_safe
  intro p hp
  obtain ⟨cs, _, rfl⟩ := List.mem_map.mp hp
  exact Conc.prog_safe cs

/-- the same for arbitrary instruction lists of lock / unlock / load / cas (threads need not even pair their locks):
without an explicit `ResetPhase`, no atomic step lowers the phase. -/
theorem phase_monotone_conc_any_program (p0 : Int) (progs : List (List Conc.Instr))
    (h : ∀ p ∈ progs, ∀ ins ∈ p, ins.safe = true) (sched : List Nat) :
    (Conc.trace (Conc.initCS p0 progs) sched).Pairwise (· ≤ ·) :=
  Conc.trace_pairwise sched _ (Conc.init_safe p0 progs h)

/-- the schedule that used to lose an update, with the code as it is: thread 0 = `SetPhase(Verify)`, thread 1 =
`AddNotarizedBlock`. 0 loads 0; 1 locks, loads, swaps 0→3, unlocks; 0's compare-and-swap fails (the word is 3, not
0), it reloads 3 and returns. The phase goes 0 → 3 and stays. -/
example : Conc.trace (Conc.initCS 0 [Conc.setPhaseI Verify, Conc.lockedSetPhaseI Share]) [0, 1, 1, 1, 1, 0, 0, 0]
    = [0, 0, 0, 0, 3, 3, 3, 3, 3] := by decide

/-! ### HISTORICAL — `setPhase` before repo commit 8870ba0 (load, then store if greater)

What the defect recorded as `C37:setphase-lost-update` (now "fixed") was. Not about the code as it exists. -/

/-- HISTORICAL: thread 0 = old `SetPhase(Verify)` (unlocked), thread 1 = old `setPhase(Share)` under the mutex.
0 loads 0; 1 locks, loads, stores 3, unlocks; 0 stores 1. The phase went 0 → 3 → 1. -/
theorem historical_phase_lost_update :
    Conc.trace (Conc.initCS 0 [Conc.setPhaseOldI Verify, Conc.lockedSetPhaseOldI Share]) [0, 1, 1, 1, 1, 0] = [0, 0, 0, 0, 3, 3, 1] := by
  decide

/-- HISTORICAL: the same lost update with two unlocked old `SetPhase` calls -/
theorem historical_phase_lost_update_two_unlocked :
    Conc.trace (Conc.initCS 0 [Conc.setPhaseOldI Verify, Conc.setPhaseOldI Complete]) [0, 1, 1, 0] = [0, 0, 0, 4, 1] := by
  decide

/-! ## finalizing state under concurrency (all interleavings of atomic steps) -/

/-- **finalized_stays_conc**: any number of threads, each making any sequence of calls of
`ResetFinalizingStateIfNotFinalized`, `SetFinalizing` and `Finalize`/`SetFinalized` (as the atomic-step lists they are
in the code: test and store inside ONE critical section of `r.mutex`), from any initial state, under EVERY schedule:
once the round is finalized at some point of the schedule, it is finalized at every later point. -/
theorem finalized_stays_conc (fin : Nat) (number : Int) (progs : List (List FinConc.Call)) (before after : List Nat)
    (h : (FinConc.crun (FinConc.initCS fin number (progs.map FinConc.prog)) before).isFinalized = true) :
    (FinConc.crun (FinConc.initCS fin number (progs.map FinConc.prog)) (before ++ after)).isFinalized = true := by
  rw [FinConc.crun_append]
  exact (FinConc.crun_inv after _ (FinConc.crun_inv' before _ (FinConc.init_inv fin number progs)) h).2

/-- one step form: no atomic step of any thread un-finalizes the round -/
theorem finalized_stays_conc_step (fin : Nat) (number : Int) (progs : List (List FinConc.Call)) (sched : List Nat) (i : Nat)
    (h : (FinConc.crun (FinConc.initCS fin number (progs.map FinConc.prog)) sched).isFinalized = true) :
    (FinConc.cstep (FinConc.crun (FinConc.initCS fin number (progs.map FinConc.prog)) sched) i).isFinalized = true :=
  (FinConc.cstep_inv _ i (FinConc.crun_inv' sched _ (FinConc.init_inv fin number progs))).2 h

/-- **the single critical section is needed** — NOT the code: a conditional reset that tests under the read lock,
releases it, and stores under the write lock (`resetIfNotSplitI`) loses a finalization. Round 5 is Finalizing;
thread 0 runs the split reset, thread 1 runs `Finalize`. Schedule: 0 tests (sees Finalizing) and releases the read
lock; 1 locks, stores Finalized, unlocks; 0 locks and stores NotFinalized. The state goes 1 → 2 → 0.
(This is the regression the stress search `C37:finalized-lost-under-concurrent-reset` looks for on the real code.) -/
theorem finalized_lost_without_single_critical_section :
    FinConc.trace (FinConc.initCS Finalizing 5 [FinConc.resetIfNotSplitI, FinConc.Call.finalize.instrs])
      [0, 0, 0, 1, 1, 1, 0, 0, 0] = [1, 1, 1, 1, 1, 2, 2, 2, 0, 0] := by decide

/-- the same schedule of thread steps with the code's own reset: thread 0 cannot be in the middle when thread 1
stores (it holds the mutex from its test to its store, thread 1's `lock` does not move), and the round ends finalized -/
example : (FinConc.crun (FinConc.initCS Finalizing 5 [FinConc.Call.resetIfNot.instrs, FinConc.Call.finalize.instrs])
    [0, 0, 1, 1, 0, 0, 1, 1, 1]).fin = Finalized := by decide
example : (FinConc.crun (FinConc.initCS Finalizing 5 [FinConc.Call.resetIfNot.instrs, FinConc.Call.finalize.instrs])
    [1, 1, 0, 1, 0, 0, 0, 0]).fin = Finalized := by decide

/-! ## non-vacuity -/

example : Free (run Cfg.code (newRound 5 1 0) [.addShare 1 2, .addNotarized ⟨7, 2⟩, .setFinalizing]) := ⟨by decide, by decide⟩
example : (run Cfg.code (newRound 5 1 0) [.addShare 1 2, .addNotarized ⟨7, 2⟩]).d.phase = Share := by decide
example : (run Cfg.code (newRound 5 0 0) [.addShare 1 2, .addShare 1 2, .addShare 2 2, .addShare 3 2]).d.shares = [1, 2] := by decide
example : isFinalizedF (run Cfg.code (newRound 5 0 0) [.setFinalizing, .finalize ⟨3, 0⟩]).d = true := by decide
example : (step Cfg.before4a40ef6 (run Cfg.before4a40ef6 (newRound 5 1 0) [.addNotarized ⟨7, 2⟩, .restart]) .getShares).2 = none := by decide
example : (step Cfg.code (run Cfg.code (newRound 5 1 0) [.addNotarized ⟨7, 2⟩, .restart]) .getShares).2 = some (.keys []) := by decide
example : (step Cfg.code (run Cfg.code (newRound 5 1 0) [.addNotarized ⟨7, 2⟩]) .restart).2 = some .errComplete := by decide
example : (run Cfg.code (newRound 5 0 2) [.addVote 4 1, .incTimeout 9 [2, 1, 0]]).d.tcount = 4 := by decide

end ZChain.Round
