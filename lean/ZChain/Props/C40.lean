import ZChain.Proofs.MagicBlocks
/-!
# C40 — Magic-block lookup returns the block in force for a round

"For any set of stored magic blocks and any round, the magic block used for that round is the one with the
greatest starting round not after it, allowing for the view-change offset, or the latest one when none starts
earlier. Pruning older entries never changes the answer for rounds at or after the pruned point."

All statements are about `Model/MagicBlocks.lean`, tied to `chaincore/round/round_storage.go` and
`chaincore/chain/entity.go` by the correspondence run of `harness/cmd/c40` on every check.

Reading of "the pruned point" (DESIGN §3.5): `Prune(p)` removes the entry AT `p` too (the repository's own test
asserts it and `PruneRoundStorage` relies on it), so the pruned point is the smallest retained start. The stricter
reading is `prune_preserves_strict_fails` (information only).

The full statement — for every history `ops` of puts (starts ≥ 0) and prunes and every `r`, `get (run new ops) r` is the
entity of the greatest stored start `≤ r` — is `reachable_good` + `get_is_floor`. It was false of the code before repo commit
582e5a1 (`Prune` did not reset `max`; finding C40:stale-max-after-prune, now fixed): `get_after_prune_all_repaired` is the
former failing history, answered correctly. What remains necessary: starts `≥ 0` (`-1` is the code's "not found" value,
`negative_start_quirk`). A stored start of `0` with `max = 0` is fine: the `max > 0` guard sends the lookup through the
scanning loop, which finds it (`start_zero_ok`).
-/
namespace ZChain.MagicBlocks

/-- structural invariant of every reachable storage: `rounds` strictly ascending (sorted, no duplicates), the keys of
`items` are exactly `rounds`, and `items` holds one pair per key. -/
def Inv (s : Store) : Prop :=
  Asc s.rounds ∧ (∀ k, k ∈ s.rounds ↔ (mapGet k s.items).isSome) ∧ (s.items.map Prod.fst).Nodup

/-- starting rounds are non-negative (the code uses `-1` as "not found"). -/
def NonNeg (s : Store) : Prop := ∀ x ∈ s.rounds, 0 ≤ x

/-- the `max` field names the newest stored start (and is 0 for an empty storage). -/
def MaxOK (s : Store) : Prop :=
  (∀ x ∈ s.rounds, x ≤ s.max) ∧ (s.rounds ≠ [] → s.max ∈ s.rounds) ∧ (s.rounds = [] → s.max = 0)

def Good (s : Store) : Prop := Inv s ∧ NonNeg s ∧ MaxOK s

/-! ## the structural invariant holds for EVERY history -/

theorem keys_none {s : Store} (hkeys : ∀ k, k ∈ s.rounds ↔ (mapGet k s.items).isSome) {k : Int}
    (hk : k ∉ s.rounds) : mapGet k s.items = none := by
  cases h : mapGet k s.items with
  | none => rfl
  | some v => exact absurd ((hkeys k).mpr (by rw [h]; rfl)) hk

theorem mem_keys_iff (m : List (Int × Ent)) (k : Int) : k ∈ m.map Prod.fst ↔ (mapGet k m).isSome := by
  induction m with
  | nil => simp [mapGet]
  | cons y m ih =>
    obtain ⟨k', v⟩ := y
    simp only [List.map_cons, List.mem_cons, mapGet]
    by_cases hk' : k' = k
    · simp [hk']
    · have : ¬ k = k' := fun e => hk' e.symm
      simp only [hk', this, if_false, false_or]; exact ih

theorem keys_mapDel (k : Int) (m : List (Int × Ent)) (h : (m.map Prod.fst).Nodup) :
    ((mapDel k m).map Prod.fst).Nodup ∧ k ∉ (mapDel k m).map Prod.fst := by
  unfold mapDel
  refine ⟨List.Nodup.sublist (List.Sublist.map _ (List.filter_sublist ..)) h, ?_⟩
  intro hk
  obtain ⟨x, hx, hxk⟩ := List.mem_map.mp hk
  have := (List.mem_filter.mp hx).2
  simp at this
  exact this hxk

theorem put_inv (s : Store) (e : Ent) (r : Int) (h : Inv s) : Inv (put s e r) := by
  obtain ⟨hasc, hkeys, hnd⟩ := h
  have hd := keys_mapDel r s.items hnd
  refine ⟨?_, ?_, ?_⟩
  · unfold put; simp only
    split
    · exact hasc
    · rename_i hf
      apply putToSlice_asc hasc
      intro hm; exact hf ((hkeys r).mp hm)
  · intro k
    unfold put; simp only
    rw [mapGet_put]
    split
    · rename_i hf
      by_cases hk : k = r
      · subst hk; simp only [if_true, Option.isSome_some, iff_true]; exact (hkeys k).mpr hf
      · simp only [hk, if_false]; exact hkeys k
    · rw [mem_putToSlice]
      by_cases hk : k = r
      · simp [hk]
      · simp only [hk, if_false, false_or]; exact hkeys k
  · unfold put mapPut; simp only [List.map_cons]
    exact List.nodup_cons.mpr ⟨hd.2, hd.1⟩

theorem keys_delAll (ks : List Int) (m : List (Int × Ent)) (h : (m.map Prod.fst).Nodup) :
    ((delAll ks m).map Prod.fst).Nodup := by
  unfold delAll
  induction ks generalizing m with
  | nil => exact h
  | cons a ks ih => exact ih _ (keys_mapDel a m h).1

/-- what `Prune` does, in one statement (**prune_keeps_newest**): it succeeds exactly when `p` is a stored start, and
then exactly the starts `≤ p` (including `p`) leave; every retained start keeps its entity; `max` becomes the last
retained start (0 when nothing is left). -/
theorem prune_spec (s : Store) (p : Int) (h : Inv s) :
    (p ∉ s.rounds → prune s p = none) ∧
    (p ∈ s.rounds → ∃ s', prune s p = some s' ∧ s'.max = lastOr 0 s'.rounds ∧
      (∀ x, x ∈ s'.rounds ↔ x ∈ s.rounds ∧ p < x) ∧
      (∀ k, mapGet k s'.items = if p < k then mapGet k s.items else none) ∧ Inv s') := by
  obtain ⟨hasc, hkeys, hnd⟩ := h
  constructor
  · intro hp
    have : mapGet p s.items = none := keys_none hkeys hp
    unfold prune; rw [this]
  · intro hp
    obtain ⟨v, hv⟩ := Option.isSome_iff_exists.mp ((hkeys p).mp hp)
    obtain ⟨a, b, hab⟩ := splitAt_some_of_mem hp
    obtain ⟨hl, hpa, ha, hb⟩ := splitAt_spec hasc hab
    have hmem : ∀ x, x ∈ b ↔ x ∈ s.rounds ∧ p < x := by
      intro x
      constructor
      · intro hx; exact ⟨by rw [hl]; exact List.mem_append_right _ hx, hb x hx⟩
      · rintro ⟨hx, hpx⟩
        rw [hl] at hx
        rcases List.mem_append.mp hx with hx | hx
        · have := ha x hx; omega
        · exact hx
    have hget : ∀ k, mapGet k (delAll a s.items) = if p < k then mapGet k s.items else none := by
      intro k
      rw [mapGet_delAll]
      by_cases hka : k ∈ a
      · have := ha k hka
        have h2 : ¬ p < k := by omega
        simp [hka, h2]
      · simp only [hka, if_false]
        by_cases hpk : p < k
        · simp [hpk]
        · simp only [hpk, if_false]
          -- k ≤ p and not collected: k is not stored at all
          have hk : k ∉ s.rounds := by
            intro hk
            rw [hl] at hk
            rcases List.mem_append.mp hk with hk | hk
            · exact hka hk
            · have := hb k hk; omega
          exact keys_none hkeys hk
    refine ⟨{ max := lastOr 0 b, items := delAll a s.items, rounds := b }, ?_, rfl, hmem, hget, ?_, ?_, ?_⟩
    · unfold prune; rw [hv]; simp only; rw [hab]
    · show Asc b
      have : Asc (a ++ b) := hl ▸ hasc
      exact (List.pairwise_append.mp this).2.1
    · intro k
      show k ∈ b ↔ (mapGet k (delAll a s.items)).isSome
      rw [hmem, hget]
      by_cases hpk : p < k
      · simp only [hpk, if_true, and_true]; exact hkeys k
      · simp [hpk]
    · exact keys_delAll a s.items hnd

theorem step_inv (s : Store) (op : Op) (h : Inv s) : Inv (step s op) := by
  cases op with
  | put r e => exact put_inv s e r h
  | prune p =>
    show Inv ((prune s p).getD s)
    by_cases hp : p ∈ s.rounds
    · obtain ⟨s', hs', _, _, _, hi⟩ := (prune_spec s p h).2 hp
      rw [hs']; exact hi
    · rw [(prune_spec s p h).1 hp]; exact h

theorem new_inv : Inv new := ⟨List.Pairwise.nil, by intro k; simp [new, mapGet], by simp [new]⟩

/-- **rounds_sorted_unique**: for ANY sequence of puts (any insertion order, any `Int` start, repeated starts) and
prunes, the slice is strictly ascending, the map keys are exactly the slice, one pair per key. -/
theorem reachable_inv (ops : List Op) : Inv (run new ops) := by
  have : ∀ s, Inv s → Inv (run s ops) := by
    induction ops with
    | nil => intro s h; exact h
    | cons op ops ih => intro s h; exact ih _ (step_inv s op h)
  exact this new new_inv

/-- `Count()` (size of the map) is the number of stored starts. -/
theorem count_eq_rounds (s : Store) (h : Inv s) : count s = s.rounds.length := by
  obtain ⟨hasc, hkeys, hnd⟩ := h
  have hnd2 : s.rounds.Nodup := by
    unfold Asc at hasc
    exact List.Pairwise.imp (fun h => Int.ne_of_lt h) hasc
  have hperm : (s.items.map Prod.fst).Perm s.rounds := by
    apply (List.perm_ext_iff_of_nodup hnd hnd2).mpr
    intro k
    rw [hkeys k]
    exact mem_keys_iff s.items k
  have := hperm.length_eq
  simpa [count] using this

/-! ## lookups on a good storage -/

/-- **get_is_floor**: `Get r` is the entity of the greatest stored start `≤ r`; `nil` exactly when no start is `≤ r`. -/
theorem get_is_floor (s : Store) (hg : Good s) (r : Int) :
    ((∀ x ∈ s.rounds, r < x) → get s r = none) ∧
    (∀ x ∈ s.rounds, x ≤ r → (∀ y ∈ s.rounds, y ≤ r → y ≤ x) →
      get s r = mapGet x s.items ∧ (mapGet x s.items).isSome) := by
  obtain ⟨⟨hasc, hkeys, _⟩, hnn, hmax1, hmax2, hmax3⟩ := hg
  have hnone : ∀ k, k ∉ s.rounds → mapGet k s.items = none := by
    intro k hk
    exact keys_none hkeys hk
  constructor
  · intro hall
    unfold get calcNearest
    by_cases hc : r > s.max ∧ s.max > 0
    · simp only [hc, and_self, if_true]
      have : s.max ∉ s.rounds := fun hm => by have := hall _ hm; omega
      rw [hnone _ this]; simp
    · simp only [hc, if_false]
      rw [scan_none hall hasc]; simp
  · intro x hx hxr hgr
    have hsome := (hkeys x).mp hx
    refine ⟨?_, hsome⟩
    unfold get calcNearest
    by_cases hc : r > s.max ∧ s.max > 0
    · simp only [hc, and_self, if_true]
      have hne : s.rounds ≠ [] := fun e => by rw [e] at hx; cases hx
      have hm := hmax2 hne
      have h1 := hmax1 x hx
      have h2 := hgr s.max hm (by omega)
      have : s.max = x := by omega
      rw [this]
      have : x ≠ -1 := by have := hnn x hx; omega
      simp [this]
    · simp only [hc, if_false]
      rw [scan_floor hasc hx hxr hgr]
      have : x ≠ -1 := by have := hnn x hx; omega
      simp [this]

/-- **latest**: on a non-empty good storage `GetLatest` is the entity of the greatest stored start. -/
theorem getLatest_is_greatest (s : Store) (hg : Good s) (hne : s.rounds ≠ []) :
    s.max ∈ s.rounds ∧ (∀ x ∈ s.rounds, x ≤ s.max) ∧
    getLatest s = mapGet s.max s.items ∧ (mapGet s.max s.items).isSome := by
  obtain ⟨hi, hnn, hmax1, hmax2, hmax3⟩ := hg
  have hm := hmax2 hne
  have hsome := (hi.2.1 s.max).mp hm
  refine ⟨hm, hmax1, ?_, hsome⟩
  unfold getLatest
  have : s.items.length ≠ 0 := by
    have := count_eq_rounds s hi
    unfold count at this
    rw [this]
    intro h0; exact hne (List.length_eq_zero_iff.mp h0)
  simp [this]

theorem getLatest_empty (s : Store) (hi : Inv s) (he : s.rounds = []) : getLatest s = none := by
  have := count_eq_rounds s hi
  unfold count at this
  unfold getLatest
  rw [this, he]; simp

/-- **magic block in force** (`GetMagicBlock`, the statement of the property): with `q = mbRoundOffset rn`
(`rn` itself below round 5, `rn − 4` from round 5 on), the chain uses the entity of the greatest stored start `≤ q`,
or — when no start is `≤ q` — the entity of the greatest stored start (the latest one). It never panics on a
non-empty good storage. -/
theorem getMagicBlock_spec (s : Store) (hg : Good s) (hne : s.rounds ≠ []) (rn : Int) :
    (∀ x ∈ s.rounds, x ≤ mbRoundOffset rn → (∀ y ∈ s.rounds, y ≤ mbRoundOffset rn → y ≤ x) →
      getMagicBlock s rn = mapGet x s.items ∧ (mapGet x s.items).isSome) ∧
    ((∀ x ∈ s.rounds, mbRoundOffset rn < x) →
      getMagicBlock s rn = mapGet s.max s.items ∧ (mapGet s.max s.items).isSome ∧
      s.max ∈ s.rounds ∧ ∀ x ∈ s.rounds, x ≤ s.max) := by
  have hf := get_is_floor s hg (mbRoundOffset rn)
  constructor
  · intro x hx hxr hgr
    obtain ⟨h1, h2⟩ := hf.2 x hx hxr hgr
    refine ⟨?_, h2⟩
    unfold getMagicBlock getMagicBlockNoOffset
    rw [h1]
    obtain ⟨v, hv⟩ := Option.isSome_iff_exists.mp h2
    rw [hv]
  · intro hall
    obtain ⟨h1, h2, h3, h4⟩ := getLatest_is_greatest s hg hne
    refine ⟨?_, h4, h1, h2⟩
    unfold getMagicBlock getMagicBlockNoOffset
    rw [hf.1 hall]; exact h3

/-- the offset is the identity below round 5 and `− 4` from round 5 on; it is monotone and never negative for `rn ≥ 0`. -/
theorem mbRoundOffset_spec (rn : Int) :
    (rn < 5 → mbRoundOffset rn = rn) ∧ (5 ≤ rn → mbRoundOffset rn = rn - 4) := by
  constructor
  · intro h
    have : rn < viewChangeOffset + 1 := by show rn < 4 + 1; omega
    unfold mbRoundOffset; rw [if_pos this]
  · intro h
    have : ¬ rn < viewChangeOffset + 1 := by show ¬ rn < 4 + 1; omega
    unfold mbRoundOffset; rw [if_neg this]; rfl

/-- `FindRoundIndex r` is the position of the greatest stored start `≤ r` (−1 when none). -/
theorem findRoundIndex_spec (s : Store) (hg : Good s) (r : Int) :
    ((∀ x ∈ s.rounds, r < x) → findRoundIndex s r = -1) ∧
    (∀ x ∈ s.rounds, x ≤ r → (∀ y ∈ s.rounds, y ≤ r → y ≤ x) →
      ∃ n : Nat, s.rounds[n]? = some x ∧ findRoundIndex s r = n) := by
  obtain ⟨⟨hasc, hkeys, _⟩, hnn, hmax1, hmax2, hmax3⟩ := hg
  constructor
  · intro hall
    unfold findRoundIndex
    by_cases hc : r > s.max ∧ s.max > 0
    · -- then the storage is empty (otherwise max is a stored start below r)
      have he : s.rounds = [] := by
        by_cases he : s.rounds = []
        · exact he
        · have := hall _ (hmax2 he); omega
      simp [hc, he]
    · simp only [hc, if_false]
      exact scanIdx_none hall
  · intro x hx hxr hgr
    unfold findRoundIndex
    by_cases hc : r > s.max ∧ s.max > 0
    · simp only [hc, and_self, if_true]
      have hne : s.rounds ≠ [] := fun e => by rw [e] at hx; cases hx
      have hm := hmax2 hne
      have h1 := hmax1 x hx
      have h2 := hgr s.max hm (by omega)
      have hxm : x = s.max := by omega
      -- the greatest element of an ascending slice is its last element
      have hlen : 0 < s.rounds.length := List.length_pos_iff.mpr hne
      refine ⟨s.rounds.length - 1, ?_, by omega⟩
      have hlast : s.rounds[s.rounds.length - 1]? = some (s.rounds[s.rounds.length - 1]'(by omega)) :=
        List.getElem?_eq_getElem _
      rw [hlast]
      congr 1
      have hmem : s.rounds[s.rounds.length - 1]'(by omega) ∈ s.rounds := List.getElem_mem _
      have hle := hmax1 _ hmem
      -- x is at some position i ≤ last; if i < last then x < last element ≤ max = x
      obtain ⟨i, hi, hix⟩ := List.mem_iff_getElem.mp hx
      by_cases hil : i = s.rounds.length - 1
      · subst hil; exact hix
      · have := (List.pairwise_iff_getElem.mp hasc) i (s.rounds.length - 1) hi (by omega) (by omega)
        rw [hix] at this; omega
    · simp only [hc, if_false]
      obtain ⟨n, hn, he⟩ := scanIdx_floor hasc hx hxr hgr 0 (-1)
      exact ⟨n, hn, by rw [he]; omega⟩

/-- `GetPrevMagicBlock`: with `x` the start in force for `rn` (greatest start `≤ mbRoundOffset rn`) at position `n` of the
ascending slice, the answer is the entity of the start just before it (position `n − 1`), and the chain's
`PreviousMagicBlock` field (`some none`) when `x` is the oldest stored start or no start is in force. It never
indexes out of range (`none`). -/
theorem getPrevMagicBlock_spec (s : Store) (hg : Good s) (rn : Int) :
    ((∀ x ∈ s.rounds, mbRoundOffset rn < x) → getPrevMagicBlock s rn = some none) ∧
    (∀ x ∈ s.rounds, x ≤ mbRoundOffset rn → (∀ y ∈ s.rounds, y ≤ mbRoundOffset rn → y ≤ x) →
      ∃ n : Nat, s.rounds[n]? = some x ∧ (n = 0 → getPrevMagicBlock s rn = some none) ∧
        (∀ y, 0 < n → s.rounds[n - 1]? = some y →
          getPrevMagicBlock s rn = some (mapGet y s.items) ∧ (mapGet y s.items).isSome)) := by
  have hf := findRoundIndex_spec s hg (mbRoundOffset rn)
  constructor
  · intro hall
    unfold getPrevMagicBlock
    simp only [hf.1 hall]
    simp
  · intro x hx hxr hgr
    obtain ⟨n, hn, hidx⟩ := hf.2 x hx hxr hgr
    refine ⟨n, hn, ?_, ?_⟩
    · intro h0
      unfold getPrevMagicBlock
      simp only [hidx, h0]
      simp
    · intro y hpos hy
      have hym : y ∈ s.rounds := List.mem_of_getElem? hy
      have hgy := (get_is_floor s hg y).2 y hym (Int.le_refl _) (fun z _ hz => hz)
      refine ⟨?_, hgy.2⟩
      unfold getPrevMagicBlock
      simp only [hidx]
      have h1 : ¬ ((n : Int) ≤ 0) := by omega
      simp only [h1, if_false]
      unfold getRound
      have h2 : ¬ ((n : Int) - 1 < 0) := by omega
      simp only [h2, if_false]
      have h3 : ((n : Int) - 1).toNat = n - 1 := by omega
      rw [h3, hy]
      simp only
      rw [hgy.1]

/-! ## which histories keep the storage good -/

theorem put_good (s : Store) (e : Ent) (r : Int) (hg : Good s) (hr : 0 ≤ r) : Good (put s e r) := by
  obtain ⟨hi, hnn, hmax1, hmax2, hmax3⟩ := hg
  have hi' := put_inv s e r hi
  have hmem : ∀ y, y ∈ (put s e r).rounds ↔ y = r ∨ y ∈ s.rounds := by
    intro y
    unfold put; simp only
    split
    · rename_i hf
      have := (hi.2.1 r).mpr hf
      constructor
      · intro h; exact Or.inr h
      · rintro (h | h)
        · rw [h]; exact this
        · exact h
    · exact mem_putToSlice _ _ _
  have hmaxv : (put s e r).max = if r > s.max then r else s.max := rfl
  refine ⟨hi', ?_, ?_, ?_, ?_⟩
  · intro y hy
    rcases (hmem y).mp hy with rfl | hy
    · exact hr
    · exact hnn y hy
  · intro y hy
    rw [hmaxv]
    rcases (hmem y).mp hy with rfl | hy
    · split <;> omega
    · have := hmax1 y hy; split <;> omega
  · intro _
    rw [hmaxv, hmem]
    by_cases hgt : r > s.max
    · simp [hgt]
    · simp only [hgt, if_false]
      by_cases he : s.rounds = []
      · have := hmax3 he
        left; omega
      · exact Or.inr (hmax2 he)
  · intro he
    have : r ∈ (put s e r).rounds := (hmem r).mpr (Or.inl rfl)
    rw [he] at this; cases this

/-- every prune keeps the storage good (also a prune at the newest start, which empties it). -/
theorem prune_good (s s' : Store) (p : Int) (hg : Good s) (h : prune s p = some s') : Good s' := by
  obtain ⟨hi, hnn, hmax1, hmax2, hmax3⟩ := hg
  have hpm : p ∈ s.rounds := by
    by_cases hpm : p ∈ s.rounds
    · exact hpm
    · rw [(prune_spec s p hi).1 hpm] at h; cases h
  obtain ⟨s'', hs'', hmx, hmem, hget, hi'⟩ := (prune_spec s p hi).2 hpm
  rw [h] at hs''; cases hs''
  refine ⟨hi', ?_, ?_, ?_, ?_⟩
  · intro y hy; exact hnn y ((hmem y).mp hy).1
  · intro y hy; rw [hmx]; exact le_lastOr hi'.1 0 y hy
  · intro hne
    rw [hmx]
    rcases lastOr_mem 0 s'.rounds with ⟨he, _⟩ | hm
    · exact absurd he hne
    · exact hm
  · intro he; rw [hmx, he]; rfl

/-- the domain: every stored start is non-negative (prunes are unrestricted). -/
def NonNegOps (ops : List Op) : Prop := ∀ r e, Op.put r e ∈ ops → 0 ≤ r

/-- **reachable_good**: EVERY history of puts with non-negative starts and prunes at any point leaves a good storage —
so `get_is_floor`, `getMagicBlock_spec`, `getLatest_is_greatest`, `findRoundIndex_spec`, `getPrevMagicBlock_spec` apply
to it. -/
theorem reachable_good (ops : List Op) (h : NonNegOps ops) : Good (run new ops) := by
  have : ∀ (ops : List Op) s, Good s → NonNegOps ops → Good (run s ops) := by
    intro ops
    induction ops with
    | nil => intro s hg _; exact hg
    | cons op ops ih =>
      intro s hg ha
      have ha' : NonNegOps ops := fun r e hm => ha r e (List.mem_cons_of_mem _ hm)
      cases op with
      | put r e =>
        exact ih _ (put_good s e r hg (ha r e (List.mem_cons_self ..))) ha'
      | prune p =>
        show Good (run (step s (.prune p)) ops)
        cases hpr : prune s p with
        | none =>
          have : step s (.prune p) = s := by show (prune s p).getD s = s; rw [hpr]; rfl
          rw [this]; exact ih s hg ha'
        | some s' =>
          have : step s (.prune p) = s' := by show (prune s p).getD s = s'; rw [hpr]; rfl
          rw [this]; exact ih s' (prune_good s s' p hg hpr) ha'
  have hnew : Good new := by
    refine ⟨new_inv, ?_, ?_, ?_, ?_⟩
    · intro x hx; cases hx
    · intro x hx; cases hx
    · intro h; exact absurd rfl h
    · intro _; rfl
  exact this ops new hnew h

/-! ## pruning -/

/-- **prune_preserves** (`Get`): after a prune, every round at or after the smallest
retained start (`∃ x` retained, `x ≤ r`) gets the same answer as before. -/
theorem prune_preserves_get (s s' : Store) (p : Int) (hg : Good s) (h : prune s p = some s')
    (r : Int) (hr : ∃ x ∈ s'.rounds, x ≤ r) : get s' r = get s r := by
  have hg' := prune_good s s' p hg h
  have hpm : p ∈ s.rounds := by
    by_cases hpm : p ∈ s.rounds
    · exact hpm
    · rw [(prune_spec s p hg.1).1 hpm] at h; cases h
  obtain ⟨s'', hs'', _, hmem, hget, _⟩ := (prune_spec s p hg.1).2 hpm
  rw [h] at hs''; cases hs''
  obtain ⟨x, hx, hxr, hgr⟩ := exists_floor s'.rounds r hr
  have hx' := (hmem x).mp hx
  have h1 := ((get_is_floor s' hg' r).2 x hx hxr hgr).1
  have h2 := ((get_is_floor s hg r).2 x hx'.1 hxr (by
    intro y hy hyr
    by_cases hpy : p < y
    · exact hgr y ((hmem y).mpr ⟨hy, hpy⟩) hyr
    · omega)).1
  rw [h1, h2, hget]; simp [hx'.2]

/-- **prune_preserves** (`GetMagicBlock`): the magic block in force for every round whose offset round is at or
after the smallest retained start is unchanged by the prune. -/
theorem prune_preserves_mb (s s' : Store) (p : Int) (hg : Good s) (h : prune s p = some s')
    (rn : Int) (hr : ∃ x ∈ s'.rounds, x ≤ mbRoundOffset rn) : getMagicBlock s' rn = getMagicBlock s rn := by
  unfold getMagicBlock getMagicBlockNoOffset
  rw [prune_preserves_get s s' p hg h _ hr]
  -- the answer is `some`, so the fallback is not consulted on either side
  have hg' := prune_good s s' p hg h
  obtain ⟨x, hx, hxr, hgr⟩ := exists_floor s'.rounds _ hr
  have h1 := (get_is_floor s' hg' _).2 x hx hxr hgr
  rw [← prune_preserves_get s s' p hg h _ hr, h1.1]
  obtain ⟨v, hv⟩ := Option.isSome_iff_exists.mp h1.2
  rw [hv]

/-- also for rounds BEFORE every retained start the chain still answers (with the latest magic block), and the latest
one is unchanged by a prune that retains something. -/
theorem prune_preserves_latest (s s' : Store) (p : Int) (hg : Good s) (h : prune s p = some s')
    (hne' : s'.rounds ≠ []) : getLatest s' = getLatest s ∧ (getLatest s').isSome ∧ s'.max = s.max := by
  have hg' := prune_good s s' p hg h
  have hpm : p ∈ s.rounds := by
    by_cases hpm : p ∈ s.rounds
    · exact hpm
    · rw [(prune_spec s p hg.1).1 hpm] at h; cases h
  have hne : s.rounds ≠ [] := fun e => by rw [e] at hpm; cases hpm
  obtain ⟨s'', hs'', _, hmem, hget, _⟩ := (prune_spec s p hg.1).2 hpm
  rw [h] at hs''; cases hs''
  obtain ⟨hm, hle, h3, h4⟩ := getLatest_is_greatest s hg hne
  obtain ⟨hm', hle', h3', h4'⟩ := getLatest_is_greatest s' hg' hne'
  -- the newest start is retained, so `max` names the same start before and after
  have h1 := (hmem s'.max).mp hm'
  have h2 := hle s'.max h1.1
  have h5 : s.max ∈ s'.rounds := (hmem s.max).mpr ⟨hm, by omega⟩
  have h6 := hle' s.max h5
  have hmx : s'.max = s.max := by omega
  refine ⟨?_, by rw [h3']; exact h4', hmx⟩
  rw [h3', h3, hget, hmx]
  have : p < s.max := by omega
  simp [this]

/-! ## the repaired history, boundary cases, information-only witnesses -/

/-- the history on which the code failed before commit 582e5a1 (finding `C40:stale-max-after-prune`, fixed):
`Put 10; Prune 10; Put 3`. The storage holds start 3 and answers with it: `Get 12`, `GetLatest`, `GetMagicBlock 16`. -/
theorem get_after_prune_all_repaired :
    let s := run new [.put 10 2, .prune 10, .put 3 3]
    s.rounds = [3] ∧ s.max = 3 ∧ get s 12 = some 3 ∧ getLatest s = some 3 ∧
    getMagicBlock s 16 = some 3 ∧ get s 7 = some 3 ∧ get s 2 = none ∧
    (run new [.put 10 2, .prune 10]).max = 0 := by
  decide

/-- a start of 0 (`max` stays 0, the `max > 0` guard is false) is found through the scanning loop. -/
theorem start_zero_ok :
    let s := run new [.put 0 1]
    s.max = 0 ∧ get s 0 = some 1 ∧ get s 5 = some 1 ∧ getLatest s = some 1 ∧ findRoundIndex s 5 = 0 ∧
    getMagicBlock s 9 = some 1 := by
  decide

/-- the stricter reading of "pruned point" (`∀ r ≥ p`) is false of the code, as the repository's test pins:
`Put 5; Put 10; Prune 5` — round 7 (≥ 5) was served by the entry at 5 and is served by nothing afterwards
(`GetMagicBlock` falls back to the latest). Information only. -/
theorem prune_preserves_strict_fails :
    let s := run new [.put 5 1, .put 10 2]
    let s' := run s [.prune 5]
    get s 7 = some 1 ∧ get s' 7 = none ∧ getMagicBlock s 11 = some 1 ∧ getMagicBlock s' 11 = some 2 := by
  decide

/-- outside the domain (`NonNeg`): a start of `-1` collides with the "not found" value. Information only. -/
theorem negative_start_quirk : get (run new [.put (-1) 1]) (-1) = none ∧ getLatest (run new [.put (-1) 1]) = none := by
  decide

/-! ## non-vacuity -/
example : NonNegOps [.put 151 4, .put 0 1, .put 5 2, .put 251 5, .put 51 3, .prune 251, .put 51 6] := by
  intro r e h; simp at h; omega
example : (run new [.put 151 4, .put 0 1, .put 5 2, .put 251 5, .put 51 3, .prune 5, .put 51 6]).rounds = [51, 151, 251] := by
  decide
example : Good (run new [.put 151 4, .put 0 1, .put 5 2, .put 251 5, .put 51 3, .prune 251, .put 51 6]) :=
  reachable_good _ (by intro r e h; simp at h; omega)
example : (run new [.put 151 4, .put 0 1, .put 5 2, .put 251 5, .put 51 3, .prune 251, .put 51 6]).rounds = [51] := by decide
example : get (run new [.put 151 4, .put 0 1, .put 5 2, .put 251 5, .put 51 3]) 150 = some 3 := by decide
example : getMagicBlock (run new [.put 501 1, .put 1001 2]) 505 = some 1 ∧
    getMagicBlock (run new [.put 501 1, .put 1001 2]) 504 = some 2 ∧
    getMagicBlock (run new [.put 501 1, .put 1001 2]) 1004 = some 1 ∧
    getMagicBlock (run new [.put 501 1, .put 1001 2]) 1005 = some 2 := by decide

end ZChain.MagicBlocks
