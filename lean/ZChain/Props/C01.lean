import ZChain.Proofs.LedgerStep
import ZChain.Proofs.Genesis
/-!
# C01 — Total token supply is conserved by every transaction

Theorems about `Model/Ledger.lean` (the engine `updateState`); the contract's behaviour is the
universally quantified parameter `r : CResult`, so "every registered contract function" is covered
under the premise, checked by the correspondence run, that contracts change balances only through
the transfer queue (they have no other handle on client states: `SetClientState` is called by the
engine only — see the generated table in C04).
-/
namespace ZChain.Ledger

/-- one balance transfer — any amount, any pair of accounts (absent ones included), amount 0,
from = to, insufficient balance, overflow — never changes the sum of all balances. -/
theorem transfer_conserves (a : Accts) (t : Transfer) :
    match transfer a t with
    | .ok a' => total a' = total a
    | .error _ => True := by
  cases h : transfer a t with
  | ok a' => exact transfer_total a a' t h
  | error e => trivial

/-- **txn_conserves**: whatever the transaction is and whatever the called contract did (success,
chargeable failure, internal error, any writes, any queued or signed transfers), the sum of all
balances after the transaction equals the sum before. -/
theorem txn_conserves (feeOn : Bool) (s : St) (t : Txn) (r : CResult) :
    total (step feeOn s t r).1.accts = total s.accts := by
  rw [step_eq]
  cases plan s t r with
  | none => rfl
  | some p =>
    simp only [finish]
    cases hs : settle feeOn s.accts t p.transfers p.signed with
    | none => rfl
    | some a => exact settle_total feeOn s.accts a t p.transfers p.signed hs

/-- **history_conserves**: no sequence of transactions (a block, a chain of blocks) changes the sum. -/
theorem history_conserves (feeOn : Bool) (hist : List (Txn × CResult)) :
    ∀ s : St, total (run feeOn s hist).accts = total s.accts := by
  induction hist with
  | nil => intro s; rfl
  | cons x rest ih =>
    intro s
    obtain ⟨t, r⟩ := x
    show total (run feeOn (step feeOn s t r).1 rest).accts = total s.accts
    rw [ih, txn_conserves]

/-- **supply_const**: if genesis distributes exactly the maximum supply, every later state holds
exactly the maximum supply. -/
theorem supply_const (feeOn : Bool) (s0 : St) (hist : List (Txn × CResult))
    (hg : total s0.accts = maxTokenSupply) : total (run feeOn s0 hist).accts = maxTokenSupply := by
  rw [history_conserves, hg]

/-- per-account accounting of an applied transaction: what left an account plus what it holds now
equals what it held plus what it received — for every account (so nothing is created or destroyed
per account either). -/
theorem txn_flow (feeOn : Bool) (s : St) (t : Txn) (r : CResult) (h : (step feeOn s t r).2 ≠ .rejected) :
    ∃ p, plan s t r = some p ∧ ∀ i,
      (get (step feeOn s t r).1.accts i).balance + outflow (feeQueue feeOn t p.transfers p.signed) i =
      (get s.accts i).balance + inflow (feeQueue feeOn t p.transfers p.signed) i := by
  obtain ⟨p, a, hp, hs, he⟩ := step_applied feeOn s t r h
  refine ⟨p, hp, fun i => ?_⟩
  rw [he]
  exact (settle_get feeOn s.accts a t p.transfers p.signed hs i).1

/-- **genesis_total**: if the node starts at all (`mustInitGBState` does not panic) and no id is written
twice by the initial-state file, the genesis balances sum to exactly the maximum supply. -/
theorem genesis_total (cfg : List GenSC) (a : Accts) (h : genesis cfg = some a) (hnd : (genIds cfg).Nodup) :
    total a = maxTokenSupply := by
  unfold genesis at h
  cases hg : genesisGo [] 0 cfg with
  | none => simp [hg] at h
  | some r =>
    obtain ⟨a', tot⟩ := r
    simp only [hg] at h
    split at h
    · simp at h
    · rename_i hne
      injection h with h
      subst h
      have := genesisGo_total cfg [] 0 a' tot hg hnd (fun i _ => rfl)
      have htot : tot = maxTokenSupply := Classical.not_not.mp hne
      simp only [total, List.map_nil, List.sum_nil] at this
      simp only [total]; omega

/-- the distinctness hypothesis is needed: `SetClientState` overwrites, so an id listed twice keeps only
the last amount and the genesis total falls short although every start-up check passes
(an operator-supplied file, not a transaction: recorded as information, see DESIGN.md C01). -/
theorem genesis_duplicate_id_loses_tokens :
    ∃ cfg a, genesis cfg = some a ∧ total a < maxTokenSupply :=
  ⟨[⟨1, maxTokenSupply, [(5, 100), (5, 7)]⟩], _, rfl, by decide⟩

/-- a contract entry whose clients receive more than the contract declares stops the node (no wrap). -/
theorem genesis_over_allocation_panics (id t : Nat) (cl : List (Id × Nat)) (rest : List GenSC)
    (h : t < (cl.map (·.2)).sum) : genesis (⟨id, t, cl⟩ :: rest) = none := by
  have hw : genWrites ⟨id, t, cl⟩ = none := by
    unfold genWrites; simp only; split
    · rfl
    · simp [h]
  have hg : genesisGo [] 0 (⟨id, t, cl⟩ :: rest) = none := by
    unfold genesisGo; split
    · rfl
    · simp [hw]
  unfold genesis; rw [hg]

example : genesis [⟨1, 3999999999999999000, [(5, 100), (6, 7)]⟩, ⟨2, 1000, []⟩] =
    some [(5, ⟨100, 1⟩), (6, ⟨7, 1⟩), (1, ⟨3999999999999998893, 1⟩), (2, ⟨1000, 1⟩)] := by decide

-- non-vacuity: a "minting" contract call (pays from the contract's own wallet 7), a failing call,
-- and a plain send all go through `step` un-rejected on a concrete state.
def exS : St := { accts := [(3, ⟨1000, 4⟩), (7, ⟨5000, 0⟩), (minerSC, ⟨0, 0⟩)], store := [(1, 11)] }
def exT (typ : TxnType) : Txn := { sender := 3, to := 7, toValid := true, value := 100, fee := 10, nonce := 5, typ := typ }
example : (step true exS (exT .sc) (.ok [.put 2 22] [⟨3, 7, 100, true, false⟩, ⟨7, 9, 40, true, false⟩] [])).2 = .success := by decide
example : (step true exS (exT .sc) (.chargeable [.put 2 22] [⟨7, 9, 40, true, false⟩] [])).2 = .failed := by decide
example : (step true exS (exT .send) .internal).2 = .success := by decide
example : total (step true exS (exT .sc) (.ok [] [⟨3, 7, 100, true, false⟩, ⟨7, 9, 40, true, false⟩] [])).1.accts = 6000 := by decide

end ZChain.Ledger
