import ZChain.Proofs.PartitionsImpl
import Mathlib.Data.Finset.Image
import Mathlib.Data.Finset.Card
/-!
# C25 — Partitions behave as a set under any operation sequence

Property theorems only. They are about `Model/Partitions.lean` (a complete model of
`smartcontract/partitions`: persisted header / partition / location nodes in a key-value store, the in-memory
object with lazily loaded partitions, `Changed` flags and the location cache), which the correspondence check
`harness/cmd/c25` ties to the Go package on every run (every method answer and, through a hook, the whole
in-memory object and all persisted nodes after the operations).

The proof has two layers (helper lemmas in `Proofs/Partitions*.lean`):
* implementation → table (`Proofs/PartitionsImpl`): under the coherence invariant `CI` (loaded partitions not
  marked `Changed` equal their node, every partition below `Last` has a node, the location cache only repeats
  location nodes) every method acts on the *view* `tbl s` (partition contents, location index) as a table operation;
* table → set (`Proofs/PartitionsTable`): the table operations keep `WFA` (ids unique across partitions, all
  partitions but the last full, last one non-empty unless the set is empty, location index exact) and act on the
  member set as insert / erase / replace.

`WF s := CI s ∧ WFA (tbl s)`; `absSet s : Finset Item` is the set the object stands for.

Main statements: `step_refines`, `run_refines` (all histories), `reachable`, `save_reload_id`,
`random_items_distinct`, `all_but_last_full`, `size_exact`, `foreach_each_once`, `repair_noop`.
What is outside the statements is listed at the end (negation witnesses).
-/
namespace ZChain.Partitions

/-- the invariant of every reachable state -/
def WF (s : S) : Prop := CI s ∧ WFA (tbl s)

/-- the items held, in `ForEach` order -/
def abs (s : S) : List Item := (tbl s).items

/-- the set the partitions object stands for -/
def absSet (s : S) : Finset Item := (abs s).toFinset

theorem mem_absSet (s : S) (x : Item) : x ∈ absSet s ↔ (tbl s).Mem x := by
  simp [absSet, abs, T.mem_items]

theorem has_iff (s : S) (id : Nat) : (∃ x ∈ absSet s, x.id = id) ↔ (tbl s).Has id := by
  simp only [mem_absSet, T.Has]

theorem wf_of_rel {s : S} {t : T} (hci : CI s) (hrel : Rel s t) (hw : WFA t) :
    WF s ∧ ∀ x, x ∈ absSet s ↔ t.Mem x := by
  have hP : ∀ i, i ≤ t.L → (tbl s).P i = t.P i := fun i hi => (hrel.P i hi).symm
  have hL : (tbl s).L = t.L := hrel.L.symm
  refine ⟨⟨hci, ?_⟩, ?_⟩
  · constructor
    · show 1 ≤ s.m.size; rw [← hrel.size]; exact hw.size_pos
    · intro i hi; rw [hL] at hi; rw [hP i (by omega)]; show _ = s.m.size; rw [← hrel.size]; exact hw.full i hi
    · rw [hL, hP _ (Nat.le_refl _)]; show _ ≤ s.m.size; rw [← hrel.size]; exact hw.last_le
    · intro h0; rw [hL] at h0 ⊢; rw [hP _ (Nat.le_refl _)]; exact hw.last_ne h0
    · intro i hi; rw [hL] at hi; rw [hP i hi]; exact hw.nodup i hi
    · intro i j hi hj; rw [hL] at hi hj; rw [hP i hi, hP j hj]; exact hw.disj i j hi hj
    · intro id i hl
      have : t.loc id = some i := by rw [hrel.loc]; exact hl
      obtain ⟨h1, h2⟩ := hw.loc_sound id i this
      rw [hL, hP i (by omega)]; exact ⟨h1, h2⟩
    · intro i hi x hx
      rw [hL] at hi; rw [hP i (by omega)] at hx
      show s.st.locs.get x.id = some i
      rw [← hrel.loc]; exact hw.loc_complete i hi x hx
  · intro x
    rw [mem_absSet]
    simp only [T.Mem, hL]
    constructor
    · rintro ⟨i, hi, hx⟩; exact ⟨i, hi, by rw [← hP i hi]; exact hx⟩
    · rintro ⟨i, hi, hx⟩; exact ⟨i, hi, by rw [hP i hi]; exact hx⟩

/-- the view of a state whose view is `t`: same items -/
theorem items_of_rel {s : S} {t : T} (hrel : Rel s t) : abs s = t.items := by
  unfold abs T.items
  have hL : (tbl s).L = t.L := hrel.L.symm
  rw [hL]
  apply List.flatMap_congr
  intro i hi
  simp at hi
  exact (hrel.P i (by omega)).symm

/-! ## the set specification -/

/-- what each operation does to the SET of items (keyed by id) -/
def specStep (A : Finset Item) : Op → Finset Item
  | .add id d => if ∃ x ∈ A, x.id = id then A else insert ⟨id, d⟩ A
  | .updateItem id d => A.image fun x => if x.id = id then ⟨id, d⟩ else x
  | .updateAdd id k => A.image fun x => if x.id = id then ⟨id, x.data + k⟩ else x
  | .remove id => A.filter fun x => x.id ≠ id
  | _ => A

/-- what each operation must answer, given the set before it (`sz` = partition size) -/
def OutOK (sz : Nat) (A : Finset Item) : Op → Out → Prop
  | .add id _, .loc r => if ∃ x ∈ A, x.id = id then r = .error .exists_ else ∃ l, r = .ok l
  | .get id, .item r =>
      (∀ x ∈ A, x.id = id → ∃ l, r = .ok (l, x.data)) ∧ ((∀ x ∈ A, x.id ≠ id) → r = .error .notFound)
  | .updateItem id _, .unit r => if ∃ x ∈ A, x.id = id then r = .ok () else r = .error .notFound
  | .updateAdd id _, .loc r => if ∃ x ∈ A, x.id = id then ∃ l, r = .ok l else r = .error .notFound
  | .updateFail id, .loc r => if ∃ x ∈ A, x.id = id then r = .error .ferr else r = .error .notFound
  | .remove id, .unit r => if ∃ x ∈ A, x.id = id then r = .ok () else r = .error .notFound
  | .exist id, .bool b => (b = true ↔ ∃ x ∈ A, x.id = id)
  | .size, .nat n => n = A.card
  | .forEach, .visits r => ∃ vs, r = .ok vs ∧ (vs.map (·.2)).Nodup ∧ (vs.map (·.2)).toFinset = A
  | .random _, .items r =>
      if A = ∅ then r = .error .empty
      else ∃ xs, r = .ok xs ∧ xs.Nodup ∧ (∀ x ∈ xs, x ∈ A) ∧ xs.length = min sz A.card
  | .save, .unit r => r = .ok ()
  | .saveReload, .unit r => r = .ok ()
  | _, _ => False


/-! ## one step -/

theorem abs_keyed {s : S} (hs : WF s) {x y : Item} (hx : x ∈ absSet s) (hy : y ∈ absSet s)
    (hid : x.id = y.id) : x = y :=
  hs.2.mem_unique ((mem_absSet s x).mp hx) ((mem_absSet s y).mp hy) hid

theorem abs_nodup {s : S} (hs : WF s) : (abs s).Nodup :=
  List.Nodup.of_map _ hs.2.nodup_items

theorem card_absSet {s : S} (hs : WF s) : (absSet s).card = (abs s).length :=
  List.toFinset_card_of_nodup (abs_nodup hs)

/-- packaging: a successor state with view `t'` -/
theorem next {s' : S} {t' : T} {A' : Finset Item} (hci : CI s') (hrel : Rel s' t') (hw : WFA t')
    (hmem : ∀ x, t'.Mem x ↔ x ∈ A') : WF s' ∧ absSet s' = A' := by
  obtain ⟨h1, h2⟩ := wf_of_rel hci hrel hw
  exact ⟨h1, by ext x; rw [h2, hmem]⟩

theorem add_refines {s : S} (hs : WF s) (id d : Nat) :
    WF (addX s ⟨id, d⟩).1 ∧ absSet (addX s ⟨id, d⟩).1 = specStep (absSet s) (.add id d) ∧
      OutOK s.m.size (absSet s) (.add id d) (.loc (addX s ⟨id, d⟩).2) := by
  obtain ⟨hci, hw⟩ := hs
  obtain ⟨hci', hrel', hres⟩ := addX_ok hci (rel_tbl s) ⟨id, d⟩
  simp only [specStep, OutOK]
  by_cases hh' : ∃ x ∈ absSet s, x.id = id
  · have hh := (has_iff s id).mp hh'
    have := hw.addX_exists ⟨id, d⟩ hh
    rw [this] at hrel' hres
    simp only [if_pos hh']
    obtain ⟨h1, h2⟩ := next hci' hrel' hw (A' := absSet s) (fun x => (mem_absSet s x).symm)
    exact ⟨h1, h2, hres⟩
  · have hh : ¬ (tbl s).Has id := fun h => hh' ((has_iff s id).mpr h)
    obtain ⟨l, hl, hw', hm⟩ := hw.addX_new ⟨id, d⟩ hh
    simp only [if_neg hh']
    obtain ⟨h1, h2⟩ := next hci' hrel' hw' (A' := insert ⟨id, d⟩ (absSet s))
      (fun x => by rw [hm, Finset.mem_insert, mem_absSet]; exact or_comm)
    exact ⟨h1, h2, l, by rw [hres, hl]⟩

theorem get_refines {s : S} (hs : WF s) (id : Nat) :
    WF (get s id).1 ∧ absSet (get s id).1 = absSet s ∧ OutOK s.m.size (absSet s) (.get id) (.item (get s id).2) := by
  obtain ⟨hci, hw⟩ := hs
  obtain ⟨hci', hrel', hres⟩ := get_ok hci (rel_tbl s) hw id
  obtain ⟨h1, h2⟩ := next hci' hrel' hw (A' := absSet s) (fun x => (mem_absSet s x).symm)
  refine ⟨h1, h2, ?_, ?_⟩
  · intro x hx hid
    obtain ⟨l, hl⟩ := hw.get_of_mem ((mem_absSet s x).mp hx)
    exact ⟨l, by rw [hres, ← hid, hl]⟩
  · intro hn
    rw [hres]
    apply hw.get_of_not_has
    rintro ⟨x, hx, hid⟩
    exact hn x ((mem_absSet s x).mpr hx) hid

theorem image_update {A : Finset Item} {id : Nat} (g : Item → Nat) {x : Item} (hx : x ∈ A) (hid : x.id = id)
    (hk : ∀ y ∈ A, y.id = id → y = x) (y : Item) :
    y ∈ A.image (fun z => if z.id = id then ⟨id, g z⟩ else z) ↔ (y ∈ A ∧ y.id ≠ id) ∨ y = ⟨id, g x⟩ := by
  simp only [Finset.mem_image]
  constructor
  · rintro ⟨z, hz, rfl⟩
    by_cases hzid : z.id = id
    · simp only [hzid, if_true]; rw [hk z hz hzid]; exact Or.inr rfl
    · simp only [hzid, if_false]; exact Or.inl ⟨hz, hzid⟩
  · rintro (⟨hy, hne⟩ | rfl)
    · exact ⟨y, hy, by simp [hne]⟩
    · exact ⟨x, hx, by simp [hid]⟩

theorem image_noop {A : Finset Item} {id : Nat} (f : Item → Item) (hn : ∀ y ∈ A, y.id ≠ id) :
    A.image (fun z => if z.id = id then f z else z) = A := by
  ext y
  simp only [Finset.mem_image]
  constructor
  · rintro ⟨z, hz, rfl⟩; simp [hn z hz]; exact hz
  · intro hy; exact ⟨y, hy, by simp [hn y hy]⟩

theorem updateItem_refines {s : S} (hs : WF s) (id d : Nat) :
    WF (updateItem s ⟨id, d⟩).1 ∧ absSet (updateItem s ⟨id, d⟩).1 = specStep (absSet s) (.updateItem id d) ∧
      OutOK s.m.size (absSet s) (.updateItem id d) (.unit (updateItem s ⟨id, d⟩).2) := by
  have hk := fun x hx y hy hid => abs_keyed hs (x := x) (y := y) hx hy hid
  obtain ⟨hci, hw⟩ := hs
  obtain ⟨hci', hrel', hres⟩ := updateItem_ok hci (rel_tbl s) hw ⟨id, d⟩
  simp only [specStep, OutOK]
  by_cases hh' : ∃ x ∈ absSet s, x.id = id
  · simp only [if_pos hh']
    obtain ⟨x, hx, hid⟩ := (has_iff s id).mp hh'
    subst hid
    obtain ⟨hr, hw', hm⟩ := hw.updateItem_of_mem hx d
    obtain ⟨h1, h2⟩ := next hci' hrel' hw'
      (A' := (absSet s).image fun z => if z.id = x.id then ⟨x.id, d⟩ else z)
      (fun y => by
        rw [hm, image_update (fun _ => d) ((mem_absSet s x).mpr hx) rfl
          (fun y hy hid => hk y hy x ((mem_absSet s x).mpr hx) hid), mem_absSet])
    exact ⟨h1, h2, by rw [hres, hr]⟩
  · have hh : ¬ (tbl s).Has id := fun h => hh' ((has_iff s id).mpr h)
    have := hw.updateItem_of_not_has (it := ⟨id, d⟩) hh
    rw [this] at hrel' hres
    simp only [if_neg hh']
    have hn : ∀ y ∈ absSet s, y.id ≠ id := fun y hy hid => hh ⟨y, (mem_absSet s y).mp hy, hid⟩
    obtain ⟨h1, h2⟩ := next hci' hrel' hw (A' := absSet s) (fun x => (mem_absSet s x).symm)
    exact ⟨h1, by rw [h2, image_noop _ hn], hres⟩

theorem update_refines {s : S} (hs : WF s) (id : Nat) (f : Nat → Option Nat) :
    WF (update s id f).1 ∧
    (∀ x ∈ absSet s, x.id = id →
      (f x.data = none → absSet (update s id f).1 = absSet s ∧ (update s id f).2 = .error .ferr) ∧
      (∀ d, f x.data = some d →
        absSet (update s id f).1 = (absSet s).image (fun z => if z.id = id then ⟨id, d⟩ else z) ∧
        ∃ l, (update s id f).2 = .ok l)) ∧
    ((∀ x ∈ absSet s, x.id ≠ id) → absSet (update s id f).1 = absSet s ∧ (update s id f).2 = .error .notFound) := by
  have hk := fun x hx y hy hid => abs_keyed hs (x := x) (y := y) hx hy hid
  obtain ⟨hci, hw⟩ := hs
  obtain ⟨hci', hrel', hres⟩ := update_ok hci (rel_tbl s) hw id f
  by_cases hh : (tbl s).Has id
  · obtain ⟨x, hx, hid⟩ := hh
    subst hid
    obtain ⟨hnone, hsome⟩ := hw.update_of_mem hx f
    have hxA := (mem_absSet s x).mpr hx
    have huniq : ∀ y ∈ absSet s, y.id = x.id → y = x := fun y hy hid => hk y hy x hxA hid
    cases hf : f x.data with
    | none =>
      have := hnone hf
      rw [this] at hrel' hres
      obtain ⟨h1, h2⟩ := next hci' hrel' hw (A' := absSet s) (fun x => (mem_absSet s x).symm)
      refine ⟨h1, ?_, ?_⟩
      · intro y hy hyid
        rw [huniq y hy hyid, hf]
        exact ⟨fun _ => ⟨h2, hres⟩, fun d hd => by simp at hd⟩
      · intro hn; exact absurd rfl (hn x hxA)
    | some d =>
      obtain ⟨l, hl, hw', hm⟩ := hsome d hf
      obtain ⟨h1, h2⟩ := next hci' hrel' hw'
        (A' := (absSet s).image fun z => if z.id = x.id then ⟨x.id, d⟩ else z)
        (fun y => by rw [hm, image_update (fun _ => d) hxA rfl huniq, mem_absSet])
      refine ⟨h1, ?_, ?_⟩
      · intro y hy hyid
        rw [huniq y hy hyid, hf]
        exact ⟨fun h => by simp at h, fun d' hd' => by
          simp only [Option.some.injEq] at hd'; subst hd'; exact ⟨h2, l, by rw [hres, hl]⟩⟩
      · intro hn; exact absurd rfl (hn x hxA)
  · have := hw.update_of_not_has hh f
    rw [this] at hrel' hres
    obtain ⟨h1, h2⟩ := next hci' hrel' hw (A' := absSet s) (fun x => (mem_absSet s x).symm)
    refine ⟨h1, ?_, fun _ => ⟨h2, hres⟩⟩
    intro x hx hid
    exact absurd ⟨x, (mem_absSet s x).mp hx, hid⟩ hh

theorem remove_refines {s : S} (hs : WF s) (id : Nat) :
    WF (remove s id).1 ∧ absSet (remove s id).1 = specStep (absSet s) (.remove id) ∧
      OutOK s.m.size (absSet s) (.remove id) (.unit (remove s id).2) := by
  obtain ⟨hci, hw⟩ := hs
  obtain ⟨hci', hrel', hres⟩ := remove_ok hci (rel_tbl s) hw id
  simp only [specStep, OutOK]
  by_cases hh' : ∃ x ∈ absSet s, x.id = id
  · simp only [if_pos hh']
    obtain ⟨x, hx, hid⟩ := (has_iff s id).mp hh'
    subst hid
    obtain ⟨hr, hw', hm⟩ := hw.remove_of_mem hx
    obtain ⟨h1, h2⟩ := next hci' hrel' hw' (A' := (absSet s).filter fun z => z.id ≠ x.id)
      (fun y => by rw [hm, Finset.mem_filter, mem_absSet])
    exact ⟨h1, h2, by rw [hres, hr]⟩
  · have hh : ¬ (tbl s).Has id := fun h => hh' ((has_iff s id).mpr h)
    have := hw.remove_of_not_has hh
    rw [this] at hrel' hres
    simp only [if_neg hh']
    have hn : ∀ y ∈ absSet s, y.id ≠ id := fun y hy hid => hh ⟨y, (mem_absSet s y).mp hy, hid⟩
    obtain ⟨h1, h2⟩ := next hci' hrel' hw (A' := absSet s) (fun x => (mem_absSet s x).symm)
    refine ⟨h1, ?_, hres⟩
    rw [h2]
    ext y
    simp only [Finset.mem_filter]
    exact ⟨fun hy => ⟨hy, hn y hy⟩, fun hy => hy.1⟩


theorem exist_refines {s : S} (hs : WF s) (id : Nat) : exist s id = true ↔ ∃ x ∈ absSet s, x.id = id := by
  rw [exist_ok hs.1 (rel_tbl s), hs.2.exist_iff, has_iff]

theorem size_refines {s : S} (hs : WF s) : size s = (absSet s).card := by
  rw [size_ok (rel_tbl s), hs.2.sizeOf_eq, card_absSet hs]; rfl

theorem forEach_refines {s : S} (hs : WF s) :
    WF (forEach s none).1 ∧ absSet (forEach s none).1 = absSet s ∧
      OutOK s.m.size (absSet s) .forEach (.visits (forEach s none).2) := by
  obtain ⟨hci, hw⟩ := hs
  obtain ⟨s', hs', hci', hrel'⟩ := forEach_ok hci (rel_tbl s)
  rw [hs']
  obtain ⟨h1, h2⟩ := next hci' hrel' hw (A' := absSet s) (fun x => (mem_absSet s x).symm)
  refine ⟨h1, h2, (tbl s).visits, rfl, ?_, ?_⟩
  · rw [WFA.visits_eq]; exact abs_nodup ⟨hci, hw⟩
  · rw [WFA.visits_eq]; rfl

theorem random_refines {s : S} (hs : WF s) (e : Nat) :
    WF (getRandomItems s (e % totalElements s)).1 ∧ absSet (getRandomItems s (e % totalElements s)).1 = absSet s ∧
      OutOK s.m.size (absSet s) (.random e) (.items (getRandomItems s (e % totalElements s)).2) := by
  have hcard := card_absSet hs
  have hnd := abs_nodup hs
  obtain ⟨hci, hw⟩ := hs
  obtain ⟨s', hs', hci', hrel'⟩ := getRandomItems_ok hci (rel_tbl s) (e % totalElements s)
  rw [hs']
  obtain ⟨h1, h2⟩ := next hci' hrel' hw (A' := absSet s) (fun x => (mem_absSet s x).symm)
  refine ⟨h1, h2, ?_⟩
  simp only [OutOK]
  have hitems : (tbl s).items = abs s := rfl
  by_cases he : absSet s = ∅
  · rw [if_pos he]
    apply hw.getRandomItems_empty
    rw [hitems]
    have : (abs s).toFinset = ∅ := he
    cases hl : abs s with
    | nil => rfl
    | cons a r => rw [hl] at this; simp at this
  · rw [if_neg he]
    have hne : (tbl s).items ≠ [] := by
      rw [hitems]; intro h; apply he; unfold absSet; rw [h]; rfl
    have htot := totalElements_ok (rel_tbl s) hw
    have hpos : 0 < (tbl s).items.length := List.length_pos_iff.mpr hne
    obtain ⟨xs, hxs, hnd', hmem, hlen⟩ := hw.getRandomItems_props (e % totalElements s) hne
      (by rw [htot]; exact Nat.mod_lt _ hpos)
    refine ⟨xs, hxs, List.Nodup.of_map _ hnd', fun x hx => (mem_absSet s x).mpr (hmem x hx), ?_⟩
    rw [hlen, hcard]; rfl

theorem save_refines {s : S} (hs : WF s) : WF (save s) ∧ absSet (save s) = absSet s ∧ Saved (save s) := by
  obtain ⟨hci, hw⟩ := hs
  obtain ⟨hci', hrel', hsv⟩ := save_ok hci (rel_tbl s)
  obtain ⟨h1, h2⟩ := next hci' hrel' hw (A' := absSet s) (fun x => (mem_absSet s x).symm)
  exact ⟨h1, h2, hsv⟩

theorem reload_refines {s : S} (hs : WF s) (hsv : Saved s) :
    WF (reload s) ∧ absSet (reload s) = absSet s ∧ Saved (reload s) := by
  obtain ⟨hci, hw⟩ := hs
  obtain ⟨hci', hrel', hsv'⟩ := reload_ok hci (rel_tbl s) hsv
  obtain ⟨h1, h2⟩ := next hci' hrel' hw (A' := absSet s) (fun x => (mem_absSet s x).symm)
  exact ⟨h1, h2, hsv'⟩

/-! ## every operation, and histories -/

/-- the partition size never changes -/
theorem size_const {s : S} (hs : WF s) (op : Op) : (step s op).1.m.size = s.m.size := by
  obtain ⟨hci, hw⟩ := hs
  have hrel := rel_tbl s
  cases op with
  | add id d =>
    have := (addX_ok hci hrel ⟨id, d⟩).2.1.size
    rw [T.size_addX] at this; exact this.symm
  | get id => exact ((get_ok hci hrel hw id).2.1.size).symm
  | updateItem id d =>
    have := (updateItem_ok hci hrel hw ⟨id, d⟩).2.1.size
    rw [T.size_updateItem] at this; exact this.symm
  | updateAdd id k =>
    have := (update_ok hci hrel hw id (fun d => some (d + k))).2.1.size
    rw [T.size_update] at this; exact this.symm
  | updateFail id =>
    have := (update_ok hci hrel hw id (fun _ => none)).2.1.size
    rw [T.size_update] at this; exact this.symm
  | remove id =>
    have := (remove_ok hci hrel hw id).2.1.size
    rw [T.size_remove] at this; exact this.symm
  | exist id => rfl
  | size => rfl
  | forEach =>
    obtain ⟨s', hs', _, hrel'⟩ := forEach_ok hci hrel
    show (forEach s none).1.m.size = _
    rw [hs']; exact hrel'.size.symm
  | random e =>
    obtain ⟨s', hs', _, hrel'⟩ := getRandomItems_ok hci hrel (e % totalElements s)
    show (getRandomItems s (e % totalElements s)).1.m.size = _
    rw [hs']; exact hrel'.size.symm
  | save => rfl
  | saveReload =>
    show (reload (save s)).m.size = _
    simp [reload, save, memOfHdr]

/-- **step_refines**: every operation keeps the invariant, acts on the item set as the set specification says,
and answers what the specification demands. -/
theorem step_refines {s : S} (hs : WF s) (op : Op) :
    WF (step s op).1 ∧ absSet (step s op).1 = specStep (absSet s) op ∧
      OutOK s.m.size (absSet s) op (step s op).2 := by
  cases op with
  | add id d => exact add_refines hs id d
  | get id => exact get_refines hs id
  | updateItem id d => exact updateItem_refines hs id d
  | updateAdd id k =>
    obtain ⟨h1, h2, h3⟩ := update_refines hs id (fun d => some (d + k))
    show WF (update s id (fun d => some (d + k))).1 ∧
      absSet (update s id (fun d => some (d + k))).1 = specStep (absSet s) (.updateAdd id k) ∧
      OutOK s.m.size (absSet s) (.updateAdd id k) (.loc (update s id (fun d => some (d + k))).2)
    simp only [specStep, OutOK]
    by_cases hh : ∃ x ∈ absSet s, x.id = id
    · obtain ⟨x, hx, hid⟩ := hh
      obtain ⟨_, hsome⟩ := h2 x hx hid
      obtain ⟨ha, l, hl⟩ := hsome (x.data + k) rfl
      rw [if_pos ⟨x, hx, hid⟩]
      refine ⟨h1, ?_, l, hl⟩
      rw [ha]
      apply Finset.image_congr
      intro z hz
      simp only
      split
      · rename_i hzid
        rw [abs_keyed hs (Finset.mem_coe.mp hz) hx (by rw [hzid, hid])]
      · rfl
    · rw [if_neg hh]
      have hn : ∀ x ∈ absSet s, x.id ≠ id := fun x hx hid => hh ⟨x, hx, hid⟩
      obtain ⟨ha, hr⟩ := h3 hn
      exact ⟨h1, by rw [ha, image_noop _ hn], hr⟩
  | updateFail id =>
    obtain ⟨h1, h2, h3⟩ := update_refines hs id (fun _ => none)
    show WF (update s id (fun _ => none)).1 ∧ absSet (update s id (fun _ => none)).1 = absSet s ∧
      OutOK s.m.size (absSet s) (.updateFail id) (.loc (update s id (fun _ => none)).2)
    simp only [OutOK]
    by_cases hh : ∃ x ∈ absSet s, x.id = id
    · obtain ⟨x, hx, hid⟩ := hh
      obtain ⟨hnone, _⟩ := h2 x hx hid
      rw [if_pos ⟨x, hx, hid⟩]
      exact ⟨h1, (hnone rfl).1, (hnone rfl).2⟩
    · rw [if_neg hh]
      have hn : ∀ x ∈ absSet s, x.id ≠ id := fun x hx hid => hh ⟨x, hx, hid⟩
      exact ⟨h1, (h3 hn).1, (h3 hn).2⟩
  | remove id => exact remove_refines hs id
  | exist id => exact ⟨hs, rfl, exist_refines hs id⟩
  | size => exact ⟨hs, rfl, size_refines hs⟩
  | forEach => exact forEach_refines hs
  | random e => exact random_refines hs e
  | save => exact ⟨(save_refines hs).1, (save_refines hs).2.1, rfl⟩
  | saveReload =>
    obtain ⟨h1, h2, h3⟩ := save_refines hs
    obtain ⟨h4, h5, _⟩ := reload_refines h1 h3
    exact ⟨h4, by show absSet (reload (save s)) = absSet s; rw [h5, h2], rfl⟩

/-- the set specification run over a history -/
def specRun (A : Finset Item) : List Op → Finset Item
  | [] => A
  | op :: ops => specRun (specStep A op) ops

/-- the answers of a history -/
def outs (s : S) : List Op → List Out
  | [] => []
  | op :: ops => (step s op).2 :: outs (step s op).1 ops

/-- the answers the specification accepts for a history -/
def OutsOK (sz : Nat) (A : Finset Item) : List Op → List Out → Prop
  | [], [] => True
  | op :: ops, o :: os => OutOK sz A op o ∧ OutsOK sz (specStep A op) ops os
  | _, _ => False

/-- **run_refines**: for every history of operations from a well-formed state the invariant holds at the end,
the item set is what the set specification computes, and every answer on the way is what it demands. -/
theorem run_refines (ops : List Op) : ∀ {s : S}, WF s →
    WF (run s ops) ∧ absSet (run s ops) = specRun (absSet s) ops ∧ OutsOK s.m.size (absSet s) ops (outs s ops) ∧
      (run s ops).m.size = s.m.size := by
  induction ops with
  | nil => intro s hs; exact ⟨hs, rfl, trivial, rfl⟩
  | cons op ops ih =>
    intro s hs
    obtain ⟨h1, h2, h3⟩ := step_refines hs op
    obtain ⟨i1, i2, i3, i4⟩ := ih h1
    have hsz := size_const hs op
    refine ⟨i1, ?_, ⟨h3, ?_⟩, ?_⟩
    · show absSet (run (step s op).1 ops) = specRun (specStep (absSet s) op) ops
      rw [i2, h2]
    · rw [← h2, ← hsz]; exact i3
    · show (run (step s op).1 ops).m.size = _
      rw [i4, hsz]

/-- a fresh partitions object (created on an empty store with size ≥ 1) is well formed and empty -/
theorem init_wf (n : Nat) (hn : 1 ≤ n) : WF (init n) ∧ absSet (init n) = ∅ ∧ (init n).m.size = n := by
  refine ⟨⟨?_, ?_⟩, ?_, rfl⟩
  · refine ⟨rfl, ?_, ?_, ?_⟩
    · intro i p h; simp [init, createIfNotExists, save, newMem] at h
    · intro i hi; simp [init, createIfNotExists, save, newMem] at hi
    · intro a j h; simp [init, createIfNotExists, save, newMem] at h
  · refine ⟨hn, ?_, ?_, ?_, ?_, ?_, ?_, ?_⟩
    · intro i hi; simp [tbl, init, createIfNotExists, save, newMem] at hi
    · simp [tbl, Pv, init, createIfNotExists, save, newMem]
    · intro h; simp [tbl, init, createIfNotExists, save, newMem] at h
    · intro i hi
      have : i = 0 := by simpa [tbl, init, createIfNotExists, save, newMem] using hi
      subst this; simp [tbl, Pv, init, createIfNotExists, save, newMem]
    · intro i j hi hj x hx
      have : i = 0 := by simpa [tbl, init, createIfNotExists, save, newMem] using hi
      subst this; simp [tbl, Pv, init, createIfNotExists, save, newMem] at hx
    · intro id i h; simp [tbl, init, createIfNotExists, save, newMem, saveParts, KV.keys] at h
    · intro i hi; simp [tbl, init, createIfNotExists, save, newMem] at hi
  · rfl


/-! ## the statements of the property, one by one -/

/-- **reachable**: every history on a fresh object of size `n ≥ 1`: invariant, set, answers. -/
theorem reachable (n : Nat) (hn : 1 ≤ n) (ops : List Op) :
    WF (run (init n) ops) ∧ absSet (run (init n) ops) = specRun ∅ ops ∧
      OutsOK n ∅ ops (outs (init n) ops) := by
  obtain ⟨h1, h2, h3⟩ := init_wf n hn
  obtain ⟨r1, r2, r3, _⟩ := run_refines ops h1
  rw [h2] at r2 r3
  rw [h3] at r3
  exact ⟨r1, r2, r3⟩

/-- **no duplicates**: two held items with the same id are the same item. -/
theorem no_duplicates {s : S} (hs : WF s) {x y : Item} (hx : x ∈ absSet s) (hy : y ∈ absSet s)
    (hid : x.id = y.id) : x = y := abs_keyed hs hx hy hid

/-- **all partitions except the last are full**, the last one holds between 1 and `size` items unless the set is
empty (then it is partition 0 and empty). -/
theorem all_but_last_full {s : S} (hs : WF s) :
    (∀ i, i < s.m.last.loc → (Pv s i).length = s.m.size) ∧
    s.m.last.items.length ≤ s.m.size ∧ (0 < s.m.last.loc → s.m.last.items ≠ []) := by
  have hl : Pv s s.m.last.loc = s.m.last.items := by simp [Pv]
  refine ⟨hs.2.full, ?_, ?_⟩
  · have := hs.2.last_le; rw [show (tbl s).P (tbl s).L = Pv s s.m.last.loc from rfl, hl] at this; exact this
  · intro h0; have := hs.2.last_ne h0
    rw [show (tbl s).P (tbl s).L = Pv s s.m.last.loc from rfl, hl] at this; exact this

/-- **the reported size is exact**. -/
theorem size_exact {s : S} (hs : WF s) : size s = (absSet s).card := size_refines hs

/-- **full iteration**: `ForEach` visits every member exactly once (and nothing else). -/
theorem foreach_each_once {s : S} (hs : WF s) :
    ∃ vs, (forEach s none).2 = .ok vs ∧ (vs.map (·.2)).Nodup ∧ (vs.map (·.2)).toFinset = absSet s :=
  (forEach_refines hs).2.2

/-- **random sampling returns distinct members**, `min(size, card)` of them, whatever index the PRNG produced. -/
theorem random_items_distinct {s : S} (hs : WF s) (hne : absSet s ≠ ∅) (e : Nat) :
    ∃ xs, (getRandomItems s (e % totalElements s)).2 = .ok xs ∧ xs.Nodup ∧ (∀ x ∈ xs, x ∈ absSet s) ∧
      xs.length = min s.m.size (absSet s).card := by
  have := (random_refines hs e).2.2
  simp only [OutOK, if_neg hne] at this
  exact this

/-- **save / reload**: after `Save`, a fresh object read from the state (`GetPartitions`) is well formed and holds
the same items in the same order — no in-memory change is lost by `Save`. -/
theorem save_reload_id {s : S} (hs : WF s) :
    WF (reload (save s)) ∧ absSet (reload (save s)) = absSet s ∧ abs (reload (save s)) = abs s := by
  obtain ⟨h1, h2, h3⟩ := save_refines hs
  obtain ⟨hci', hrel', _⟩ := reload_ok h1.1 (save_ok hs.1 (rel_tbl s)).2.1 h3
  obtain ⟨h4, h5, _⟩ := reload_refines h1 h3
  exact ⟨h4, by rw [h5, h2], by rw [items_of_rel hrel']; rfl⟩

/-- reloading is also sound later, as long as everything is saved (`Saved`), e.g. after read-only calls. -/
theorem reload_of_saved {s : S} (hs : WF s) (hsv : Saved s) :
    WF (reload s) ∧ absSet (reload s) = absSet s := ⟨(reload_refines hs hsv).1, (reload_refines hs hsv).2.1⟩

/-- `RepairPartitionLoc` on a well-formed state writes nothing: it succeeds, the store is unchanged, the set is
unchanged (a well-formed state has every location node the repair would add). -/
theorem repair_noop {s : S} (hs : WF s) :
    (repairPartitionLoc s).2 = .ok () ∧ (repairPartitionLoc s).1.st = s.st ∧
      WF (repairPartitionLoc s).1 ∧ absSet (repairPartitionLoc s).1 = absSet s := by
  obtain ⟨s', h1, hci', hrel', hst⟩ := repair_ok hs.1 (rel_tbl s) hs.2
  rw [h1]
  obtain ⟨h2, h3⟩ := next hci' hrel' hs.2 (A' := absSet s) (fun x => (mem_absSet s x).symm)
  exact ⟨rfl, hst, h2, h3⟩

/-! ## what the statements do not cover (witnesses) -/

/-- `GetPartitions` WITHOUT a preceding `Save` drops the unsaved part of a removal: the location nodes were
already rewritten, the partition nodes were not. Such a history is outside the property (the chain discards
the whole state when a transaction does not save). -/
theorem reload_without_save_loses :
    abs (reload (run (init 2) [.add 1 10, .add 2 20, .add 3 30, .save, .remove 1])) ≠
      abs (run (init 2) [.add 1 10, .add 2 20, .add 3 30, .save, .remove 1]) := by decide

/-- partition size 0 (accepted by `CreateIfNotExists`) is outside `WF`: `GetRandomItems` divides by zero. -/
theorem size_zero_random_panics :
    (getRandomItems (run (init 0) [.add 1 10, .add 2 20]) 0).2 = .error .panic := by decide

/-! ## non-vacuity -/

example : WF (run (init 2) [.add 1 10, .add 2 20, .add 3 30, .add 4 40, .add 5 50, .remove 1, .save, .remove 3]) :=
  (reachable 2 (by omega) _).1

example : abs (run (init 2) [.add 1 10, .add 2 20, .add 3 30, .add 4 40, .add 5 50, .remove 1]) =
    [⟨2, 20⟩, ⟨5, 50⟩, ⟨3, 30⟩, ⟨4, 40⟩] := by decide

example : (run (init 1) [.add 1 10, .add 2 20, .add 3 30, .remove 1]).m.last.loc = 1 := by decide

example : absSet (run (init 2) [.add 1 10, .add 2 20, .add 3 30]) ≠ ∅ := by
  rw [(reachable 2 (by omega) _).2.1]; decide

end ZChain.Partitions
