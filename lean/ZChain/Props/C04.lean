import ZChain.Proofs.LedgerStep
import ZChain.Generated.C04
import ZChain.Proofs.FreeMarkers
/-!
# C04 — Transactions debit only what their sender authorised

"A transaction never lowers its sender's balance by more than its value plus its fee. It lowers another
account's balance only if that account is the called contract's own wallet, or the transfer carries that
account's valid signature, or it is a free-storage grant paid from the storage owner's wallet under a valid
assigner marker."

What is proved, and on what it rests.

* ENGINE (theorems over `Model/Ledger.lean`, the contract's behaviour being the universally quantified
  `r : CResult`): an applied transaction lowers account `i` by at most `outflow queue i`, where `queue` is
  the settlement queue (the contract's transfers, the fee transfer, the contract's signed transfers) —
  `only_sources_debited`; an account that is the source of no queued transfer is never lowered —
  `non_source_never_lowered`; the sender loses at most value + fee as soon as the contract queued at most
  `value` out of the sender's wallet — `sender_debit_bounded` — which is unconditional for send / data
  transactions and for chargeable-failed contract calls — `sender_debit_bounded_plain`,
  `sender_debit_bounded_failed`.

* THE ENGINE DOES NOT ENFORCE THE REST. `StateContext.Validate()` (cap "transfers out of the sender ≤
  value + fee", signature check of every signed transfer) is called by `chain.updateState` BEFORE the
  contract runs — on an empty transfer queue, where it cannot fail — and never after (`Generated.C04.validateCalls`).
  So the bare engine applies whatever the contract queued: `engine_does_not_enforce` (a third party is
  debited by an unsigned transfer), `engine_does_not_cap_sender`, `engine_does_not_check_signed` are proved
  negation witnesses of the unconditional statement. The property therefore holds only BECAUSE of what the
  contracts queue.

* COMPOSITION. `contracts_debit_only_authorised`: IF every transfer of the contract result has its source in
  an allowed class — the sender (the sender-sourced ones summing to ≤ value), the called contract's own
  address or an approved-minter contract address, the free-storage grant source under a valid marker — and
  every signed transfer's signature verifies for its source (`Authorised`, a HYPOTHESIS, signature and marker
  validity being abstract predicates), THEN the property's statement holds for that transaction.
  `sites_ok` (decided over the table regenerated from the Go sources on every run) says every `AddTransfer`
  / `AddSignedTransfer` site of every non-test package has its source in such a class, and
  `contracts_debit_only_authorised_table` composes the two: under the tie "every queued transfer was built
  by a site of the table, its source being a value of the class extracted for that site", no further
  hypothesis on sources is needed. What stays a hypothesis there: the sender-sourced transfers of ONE call
  sum to ≤ value (every sender site moves exactly `txn.Value`, outside any loop — `sites_ok` — but "one such
  site per call" is watched dynamically by `harness/cmd/c04`), signature validity of signed transfers
  (multisig: the contract checks each vote, never the recovered group signature), and marker validity
  (`freeStorageAssigner.validate`, whose call is verified to dominate the grant).
-/
namespace ZChain.Ledger

/-! ### flows -/

theorem outflow_eq_zero (q : List Transfer) (i : Id) (h : ∀ x ∈ q, x.src ≠ i) : outflow q i = 0 := by
  induction q with
  | nil => rfl
  | cons x xs ih =>
    rw [outflow_cons]
    have h1 : ¬ x.src = i := h x List.mem_cons_self
    simp only [h1, if_false]
    rw [ih (fun y hy => h y (List.mem_cons_of_mem _ hy))]

theorem outflow_pos_mem (q : List Transfer) (i : Id) (h : 0 < outflow q i) : ∃ x ∈ q, x.src = i ∧ 0 < x.amount := by
  induction q with
  | nil => simp [outflow] at h
  | cons x xs ih =>
    rw [outflow_cons] at h
    by_cases hx : x.src = i
    · by_cases ha : 0 < x.amount
      · exact ⟨x, List.mem_cons_self, hx, ha⟩
      · simp only [hx, if_true] at h
        have : 0 < outflow xs i := by omega
        obtain ⟨y, hy, h1, h2⟩ := ih this
        exact ⟨y, List.mem_cons_of_mem _ hy, h1, h2⟩
    · simp only [hx, if_false] at h
      have : 0 < outflow xs i := by omega
      obtain ⟨y, hy, h1, h2⟩ := ih this
      exact ⟨y, List.mem_cons_of_mem _ hy, h1, h2⟩

/-- the fee actually charged. -/
def feeOf (feeOn : Bool) (t : Txn) : Nat := if feeOn then t.fee else 0

theorem outflow_feeQueue (feeOn : Bool) (t : Txn) (tr sg : List Transfer) (i : Id) :
    outflow (feeQueue feeOn t tr sg) i = outflow (tr ++ sg) i + (if i = t.sender then feeOf feeOn t else 0) := by
  unfold feeQueue feeOf
  cases feeOn with
  | false => simp [outflow_append]
  | true =>
    simp only [if_true, outflow_append, outflow_cons]
    by_cases h : i = t.sender
    · subst h; simp [outflow]; omega
    · have : ¬ t.sender = i := fun h' => h h'.symm
      simp [h, this, outflow]

theorem mem_feeQueue (feeOn : Bool) (t : Txn) (tr sg : List Transfer) (x : Transfer)
    (h : x ∈ feeQueue feeOn t tr sg) : x ∈ tr ∨ x ∈ sg ∨ x = ⟨t.sender, minerSC, t.fee, true, false⟩ := by
  unfold feeQueue at h
  cases feeOn with
  | false => simp at h; rcases h with h | h; exact Or.inl h; exact Or.inr (Or.inl h)
  | true =>
    simp at h
    rcases h with h | h | h
    · exact Or.inl h
    · exact Or.inr (Or.inr h)
    · exact Or.inr (Or.inl h)

/-- what the settlement queue of this transaction takes out of account `i` (0 when the transaction is
rejected before settlement). -/
def queuedOut (feeOn : Bool) (s : St) (t : Txn) (r : CResult) (i : Id) : Nat :=
  match plan s t r with
  | none => 0
  | some p => outflow (feeQueue feeOn t p.transfers p.signed) i

/-- shape of what a transaction hands to settlement. -/
theorem plan_cases (s : St) (t : Txn) (r : CResult) (p : Plan) (h : plan s t r = some p) :
    (p.transfers = [] ∧ p.signed = []) ∨
    (t.typ = .send ∧ p.transfers = [⟨t.sender, t.to, t.value, t.toCanon, t.toSameLeaf⟩] ∧ p.signed = []) ∨
    (t.typ = .sc ∧ ∃ ws, r = .ok ws p.transfers p.signed) := by
  unfold plan at h
  split at h
  · simp at h
  · split at h
    · simp at h
    · split at h
      · simp at h
      · injection h with h; rw [← h]; exact Or.inl ⟨rfl, rfl⟩
      · rename_i hty
        split at h
        · simp at h
        · split at h
          · simp at h
          · split at h
            · simp at h
            · injection h with h; rw [← h]; exact Or.inr (Or.inl ⟨hty, rfl, rfl⟩)
      · rename_i hty
        split at h
        · simp at h
        · injection h with h; rw [← h]; exact Or.inl ⟨rfl, rfl⟩
        · injection h with h; rw [← h]; exact Or.inr (Or.inr ⟨hty, _, rfl⟩)

/-! ### the engine-level guarantees -/

/-- **only_sources_debited**: whatever the transaction and whatever the contract did, account `i` is lowered
by at most what the settlement queue takes out of `i` (nothing at all when the transaction is rejected). -/
theorem only_sources_debited (feeOn : Bool) (s : St) (t : Txn) (r : CResult) (i : Id) :
    (get s.accts i).balance ≤ (get (step feeOn s t r).1.accts i).balance + queuedOut feeOn s t r i := by
  rw [step_eq]
  unfold queuedOut
  cases hp : plan s t r with
  | none => simp [finish]
  | some p =>
    simp only [finish]
    cases hs : settle feeOn s.accts t p.transfers p.signed with
    | none => simp
    | some a =>
      have := (settle_get feeOn s.accts a t p.transfers p.signed hs i).1
      simp only
      omega

/-- **non_source_never_lowered**: an account that is not the source of any queued, signed or fee transfer of
the transaction keeps at least its balance. -/
theorem non_source_never_lowered (feeOn : Bool) (s : St) (t : Txn) (r : CResult) (i : Id)
    (h : ∀ p, plan s t r = some p → ∀ x ∈ feeQueue feeOn t p.transfers p.signed, x.src ≠ i) :
    (get s.accts i).balance ≤ (get (step feeOn s t r).1.accts i).balance := by
  have h1 := only_sources_debited feeOn s t r i
  unfold queuedOut at h1
  cases hp : plan s t r with
  | none => simp only [hp] at h1; omega
  | some p =>
    simp only [hp] at h1
    rw [outflow_eq_zero _ _ (h p hp)] at h1
    omega

/-- **sender_debit_bounded**: if what the contract queued out of the SENDER's wallet (plain and signed
transfers together) sums to at most `value`, the sender loses at most `value + fee`. -/
theorem sender_debit_bounded (feeOn : Bool) (s : St) (t : Txn) (r : CResult)
    (h : ∀ p, plan s t r = some p → outflow (p.transfers ++ p.signed) t.sender ≤ t.value) :
    (get s.accts t.sender).balance ≤ (get (step feeOn s t r).1.accts t.sender).balance + t.value + feeOf feeOn t := by
  have h1 := only_sources_debited feeOn s t r t.sender
  unfold queuedOut at h1
  cases hp : plan s t r with
  | none => simp only [hp] at h1; omega
  | some p =>
    simp only [hp] at h1
    rw [outflow_feeQueue] at h1
    simp only [if_true] at h1
    have := h p hp
    omega

/-- unconditional for send and data transactions (and invalid types, which are rejected). -/
theorem sender_debit_bounded_plain (feeOn : Bool) (s : St) (t : Txn) (r : CResult) (hty : t.typ ≠ .sc) :
    (get s.accts t.sender).balance ≤ (get (step feeOn s t r).1.accts t.sender).balance + t.value + feeOf feeOn t := by
  apply sender_debit_bounded
  intro p hp
  rcases plan_cases s t r p hp with ⟨h1, h2⟩ | ⟨_, h1, h2⟩ | ⟨h1, _⟩
  · rw [h1, h2]; simp [outflow]
  · rw [h1, h2]; simp [outflow]
  · exact absurd h1 hty

/-- unconditional for a chargeable-failed contract call: the sender pays the fee and nothing else, whatever
the failed contract had queued. -/
theorem sender_debit_bounded_failed (feeOn : Bool) (s : St) (t : Txn) (ws : List Write) (tr sg : List Transfer)
    (hty : t.typ = .sc) :
    (get s.accts t.sender).balance ≤
      (get (step feeOn s t (.chargeable ws tr sg)).1.accts t.sender).balance + feeOf feeOn t := by
  have h1 := only_sources_debited feeOn s t (.chargeable ws tr sg) t.sender
  unfold queuedOut at h1
  cases hp : plan s t (.chargeable ws tr sg) with
  | none => simp only [hp] at h1; omega
  | some p =>
    simp only [hp] at h1
    rw [outflow_feeQueue] at h1
    simp only [if_true] at h1
    rcases plan_cases s t _ p hp with ⟨h2, h3⟩ | ⟨h2, _, _⟩ | ⟨_, ws', h2⟩
    · rw [h2, h3] at h1; simp [outflow] at h1; omega
    · rw [hty] at h2; cases h2
    · cases h2

/-! ### the engine does not enforce the cap, the source restriction or the signature -/

-- a sender 3 (nonce 4, 1000 tokens), the called contract 7, a bystander 5, the miner contract
def c04S : St := { accts := [(3, ⟨1000, 4⟩), (7, ⟨5000, 0⟩), (5, ⟨800, 0⟩), (minerSC, ⟨0, 0⟩)], store := [] }
def c04T : Txn := { sender := 3, to := 7, toValid := true, value := 100, fee := 10, nonce := 5, typ := .sc }

/-- **engine_does_not_enforce** (negation witness of the unconditional property on the bare engine): a
contract result that queues an UNSIGNED transfer out of a third party's wallet — the bystander is neither
the sender nor the called contract — is applied, and the bystander is debited. `Validate()` ran before the
contract, on an empty queue; nothing re-checks the queue afterwards. -/
theorem engine_does_not_enforce :
    ∃ (feeOn : Bool) (s : St) (t : Txn) (r : CResult) (i : Id),
      (step feeOn s t r).2 = .success ∧ i ≠ t.sender ∧ i ≠ t.to ∧ i ≠ minerSC ∧
      (∃ ws tr, r = .ok ws tr []) ∧
      (get (step feeOn s t r).1.accts i).balance < (get s.accts i).balance :=
  ⟨true, c04S, c04T, .ok [] [⟨5, 3, 500, true, false⟩] [], 5, by decide, by decide, by decide, by decide, ⟨_, _, rfl⟩, by decide⟩

/-- the cap "transfers out of the sender ≤ value (+ fee)" is not enforced after execution either: the sender
of a value-100, fee-10 call is debited 910. -/
theorem engine_does_not_cap_sender :
    ∃ (feeOn : Bool) (s : St) (t : Txn) (r : CResult),
      (step feeOn s t r).2 = .success ∧
      (get (step feeOn s t r).1.accts t.sender).balance + t.value + feeOf feeOn t < (get s.accts t.sender).balance :=
  ⟨true, c04S, c04T, .ok [] [⟨3, 7, 900, true, false⟩] [], by decide, by decide⟩

/-- a signed transfer is applied like any other: the model (like the engine) has no signature to look at
after execution. -/
theorem engine_does_not_check_signed :
    ∃ (feeOn : Bool) (s : St) (t : Txn) (r : CResult) (i : Id),
      (step feeOn s t r).2 = .success ∧ i ≠ t.sender ∧ i ≠ t.to ∧
      (∃ ws sg, r = .ok ws [] sg) ∧
      (get (step feeOn s t r).1.accts i).balance < (get s.accts i).balance :=
  ⟨true, c04S, c04T, .ok [] [] [⟨5, 3, 500, true, false⟩], 5, by decide, by decide, by decide, ⟨_, _, rfl⟩, by decide⟩

/-! ### composition: allowed source classes ⇒ the property -/

/-- the authorisations the property speaks of; signature and marker validity are abstract. -/
structure Authority where
  /-- an approved-minter contract address (table `minters`: each is the ADDRESS of a contract). -/
  minter : Id → Prop
  /-- the signed transfer's signature verifies for its source (`SignedTransfer.VerifySignature(true)`). -/
  sigValid : Transfer → Prop
  /-- the storage contract owner's wallet. -/
  grantSource : Id
  /-- the transaction carries a valid free-storage marker (assigner signature, limits, fresh nonce). -/
  grantValid : Prop

/-- a plain (unsigned) queued transfer comes out of an allowed wallet. -/
def Authority.srcOk (A : Authority) (t : Txn) (x : Transfer) : Prop :=
  x.src = t.sender ∨ x.src = t.to ∨ A.minter x.src ∨ (x.src = A.grantSource ∧ A.grantValid)

/-- what the contract call sites have to guarantee for one contract result. -/
structure Authorised (A : Authority) (t : Txn) (tr sg : List Transfer) : Prop where
  sources : ∀ x ∈ tr, A.srcOk t x
  signed : ∀ x ∈ sg, A.sigValid x
  senderCap : outflow (tr ++ sg) t.sender ≤ t.value

/-- **contracts_debit_only_authorised**: if the contract's result is `Authorised` (a hypothesis — the engine
does not check it, see `engine_does_not_enforce`), then for every account `i`:
the sender loses at most value + fee, and `i` is lowered only if it is the sender, or — for a contract call —
the called contract's own wallet, an approved-minter contract wallet, the source of a signed transfer whose
signature verifies, or the free-grant source under a valid marker. Send / data transactions and failed calls
lower nobody but the sender. -/
theorem contracts_debit_only_authorised (A : Authority) (feeOn : Bool) (s : St) (t : Txn) (r : CResult)
    (hauth : ∀ ws tr sg, r = .ok ws tr sg → Authorised A t tr sg) (i : Id) :
    (i = t.sender →
      (get s.accts i).balance ≤ (get (step feeOn s t r).1.accts i).balance + t.value + feeOf feeOn t) ∧
    ((get (step feeOn s t r).1.accts i).balance < (get s.accts i).balance →
      i = t.sender ∨
      (t.typ = .sc ∧ (i = t.to ∨ A.minter i ∨ (i = A.grantSource ∧ A.grantValid) ∨
        ∃ ws tr sg x, r = .ok ws tr sg ∧ x ∈ sg ∧ x.src = i ∧ A.sigValid x))) := by
  constructor
  · intro hi
    subst hi
    apply sender_debit_bounded
    intro p hp
    rcases plan_cases s t r p hp with ⟨h1, h2⟩ | ⟨_, h1, h2⟩ | ⟨_, ws, h1⟩
    · rw [h1, h2]; simp [outflow]
    · rw [h1, h2]; simp [outflow]
    · exact (hauth ws _ _ h1).senderCap
  · intro hlt
    have h1 := only_sources_debited feeOn s t r i
    unfold queuedOut at h1
    cases hp : plan s t r with
    | none => simp only [hp] at h1; omega
    | some p =>
      simp only [hp] at h1
      have hpos : 0 < outflow (feeQueue feeOn t p.transfers p.signed) i := by omega
      obtain ⟨x, hx, hsrc, _⟩ := outflow_pos_mem _ _ hpos
      rcases mem_feeQueue feeOn t _ _ x hx with hx | hx | hx
      · rcases plan_cases s t r p hp with ⟨h2, _⟩ | ⟨_, h2, _⟩ | ⟨hty, ws, h2⟩
        · rw [h2] at hx; cases hx
        · rw [h2] at hx
          simp at hx
          rw [hx] at hsrc
          exact Or.inl hsrc.symm
        · have := (hauth ws _ _ h2).sources x hx
          unfold Authority.srcOk at this
          rw [hsrc] at this
          rcases this with h | h | h | h
          · exact Or.inl h
          · exact Or.inr ⟨hty, Or.inl h⟩
          · exact Or.inr ⟨hty, Or.inr (Or.inl h)⟩
          · exact Or.inr ⟨hty, Or.inr (Or.inr (Or.inl h))⟩
      · rcases plan_cases s t r p hp with ⟨_, h2⟩ | ⟨_, _, h2⟩ | ⟨hty, ws, h2⟩
        · rw [h2] at hx; cases hx
        · rw [h2] at hx; cases hx
        · exact Or.inr ⟨hty, Or.inr (Or.inr (Or.inr ⟨ws, _, _, x, h2, hx, hsrc, (hauth ws _ _ h2).signed x hx⟩))⟩
      · rw [hx] at hsrc
        exact Or.inl hsrc.symm

end ZChain.Ledger

/-! ### the call-site table (regenerated from the Go sources on every run) -/
namespace ZChain.TransferSites
open ZChain.Ledger ZChain.Generated.C04

/-- **sites_ok**: every `AddTransfer` / `AddSignedTransfer` / `AddMint` call and every construction of a
transfer, in every non-test package under code/go/0chain.net, has its source in an allowed class (sender —
then the amount is exactly `txn.Value`, outside any loop, or the engine's fee —, the executing contract's
address, an approved minter, a signed transfer, the guarded free-storage grant) or is code no transaction
reaches (benchmark tooling, functions nobody calls). A new or changed site in the Go source changes the
generated table; a source the translator cannot reduce to one of the classes makes this false (and the
translator exit 1). -/
theorem sites_ok : sites.all Site.ok = true := by decide

/-- the table is not empty and contains the sites the property is about (non-vacuity of `sites_ok`). -/
theorem sites_cover :
    30 ≤ sites.length ∧
    sites.any (fun s => s.pkg == "smartcontract/storagesc" && s.fn == "StorageSmartContract.writePoolLock" && s.kind == .add && s.src == .txnSender) = true ∧
    sites.any (fun s => s.pkg == "smartcontract/stakepool" && s.fn == "StakePool.LockPool" && s.kind == .add && s.src == .txnSender) = true ∧
    sites.any (fun s => s.pkg == "smartcontract/stakepool" && s.fn == "StakePool.MintRewards" && s.kind == .add && s.src == .approvedMinter) = true ∧
    sites.any (fun s => s.pkg == "smartcontract/faucetsc" && s.fn == "FaucetSmartContract.pour" && s.kind == .add && s.src == .contractAddress) = true ∧
    sites.any (fun s => s.pkg == "smartcontract/multisigsc" && s.fn == "MultiSigSmartContract.vote" && s.kind == .addSigned && s.src == .signed) = true ∧
    sites.any (fun s => s.pkg == "smartcontract/storagesc" && s.fn == "Transfer.transfer" && s.kind == .add && s.src == .freeGrant) = true ∧
    sites.any (fun s => s.pkg == "chaincore/chain" && s.fn == "Chain.updateState" && s.kind == .add && s.amt == .txnFee) = true := by
  decide

/-- **only_engine_writes_client_state**: `SetClientState` and direct trie writes occur only in the engine
(`chaincore/chain`), in the state context's own definition (`chaincore/chain/state`: `SetClientState`, and
`InsertTrieNode` / `DeleteTrieNode`, which hash the key and so cannot address a client path), and in benchmark
tooling. No contract package writes a client state: contracts move balances only through the transfer queue
(the premise of C01 and of `only_sources_debited`). -/
theorem only_engine_writes_client_state :
    clientWrites.all (fun w => w.2.2.2 == "engine" || w.2.2.2 == "definition" || w.2.2.2 == "tool") = true ∧
    clientWrites.any (fun w => w.1 == "chaincore/chain" && w.2.1 == "Chain.transferAmount") = true := by
  decide

/-- every approved minter is the `ADDRESS` constant of a contract package (a "contract address"). -/
theorem minters_are_contracts : minters.all (fun m => m.2 != "") = true ∧ minters.length = 4 := by decide

/-- `sc.ID` is the package's own `ADDRESS`: every `smartcontractinterface.NewSC(..)` is given it. -/
theorem sc_ids_are_own_addresses : scIds.all (fun x => x.2.2.2 == "true") = true ∧ 6 ≤ scIds.length := by decide

/-- contracts never construct a transaction object and never assign `ClientID` / `ToClientID` of one, so
"`X.ClientID` of a `*transaction.Transaction`" in a contract is the sender of the executing transaction. -/
theorem txn_identity_untouched :
    txnMakes = [] ∧ txnWrites.all (fun x => x.2.2 != "ClientID" && x.2.2 != "ToClientID") = true := by decide

/-- a transfer object is never modified after it was built (no assignment to a field of a `state.Transfer` /
`state.SignedTransfer` outside its own package and tooling), so the class of the expression it was BUILT from is
the class of what is queued. -/
theorem transfers_not_rewritten : transferWrites = [] := by decide

/-- what a source class says about the wallet a site debits, in one contract call. `other`, `foreignContract`
and `mint` constrain nothing; `tool` / `unreachable` sites never run. -/
def Src.denotes (A : Authority) (t : Txn) : Src → Id → Prop
  | .txnSender, i => i = t.sender
  | .contractAddress, i => i = t.to
  | .approvedMinter, i => A.minter i
  | .freeGrant, i => i = A.grantSource ∧ A.grantValid
  | .signed, _ => False          -- signed transfers are not in the plain queue
  | .tool, _ => False
  | .unreachable, _ => False
  | .foreignContract, _ => True
  | .mint, _ => True
  | .other, _ => True

/-- the tie to the table: every plain transfer of the contract result was queued by a site of the table, and
its source is a value of the class extracted for that site. -/
def EmittedByTable (A : Authority) (t : Txn) (tr : List Transfer) : Prop :=
  ∀ x ∈ tr, ∃ σ ∈ sites, σ.src.denotes A t x.src

theorem allowed_denotes (A : Authority) (t : Txn) (c : Src) (i : Id) (ha : c.allowed = true) (hd : c.denotes A t i) :
    i = t.sender ∨ i = t.to ∨ A.minter i ∨ (i = A.grantSource ∧ A.grantValid) := by
  cases c <;> simp [Src.allowed] at ha <;> simp [Src.denotes] at hd
  · exact Or.inl hd
  · exact Or.inr (Or.inl hd)
  · exact Or.inr (Or.inr (Or.inl hd))
  · exact Or.inr (Or.inr (Or.inr hd))

/-- **contracts_debit_only_authorised_table**: with the generated table, the source part of `Authorised` is
discharged by `sites_ok`; what remains assumed is the per-call sender cap, the validity of signed transfers'
signatures and (inside `Authority`) the validity of the free-storage marker. -/
theorem contracts_debit_only_authorised_table (A : Authority) (feeOn : Bool) (s : St) (t : Txn) (r : CResult)
    (hemit : ∀ ws tr sg, r = .ok ws tr sg → EmittedByTable A t tr)
    (hsig : ∀ ws tr sg, r = .ok ws tr sg → ∀ x ∈ sg, A.sigValid x)
    (hcap : ∀ ws tr sg, r = .ok ws tr sg → outflow (tr ++ sg) t.sender ≤ t.value) (i : Id) :
    (i = t.sender →
      (get s.accts i).balance ≤ (get (step feeOn s t r).1.accts i).balance + t.value + feeOf feeOn t) ∧
    ((get (step feeOn s t r).1.accts i).balance < (get s.accts i).balance →
      i = t.sender ∨
      (t.typ = .sc ∧ (i = t.to ∨ A.minter i ∨ (i = A.grantSource ∧ A.grantValid) ∨
        ∃ ws tr sg x, r = .ok ws tr sg ∧ x ∈ sg ∧ x.src = i ∧ A.sigValid x))) := by
  apply contracts_debit_only_authorised A feeOn s t r
  intro ws tr sg hr
  refine ⟨?_, hsig ws tr sg hr, hcap ws tr sg hr⟩
  intro x hx
  obtain ⟨σ, hσ, hd⟩ := hemit ws tr sg hr x hx
  have hok : σ.ok = true := List.all_eq_true.mp sites_ok σ hσ
  have ha : σ.src.allowed = true := by
    unfold Site.ok at hok
    simp only [Bool.and_eq_true] at hok
    exact hok.1.1
  exact allowed_denotes A t σ.src x.src ha hd

-- non-vacuity of the composition: an authorised contract result (sender pays its value to the contract, the
-- contract pays a third party) goes through, debits the sender by exactly value + fee and the contract's wallet.
def exA : Authority := { minter := fun _ => False, sigValid := fun _ => False, grantSource := 99, grantValid := False }
example : Authorised exA c04T [⟨3, 7, 100, true, false⟩, ⟨7, 5, 40, true, false⟩] [] :=
  ⟨(by intro x hx; simp at hx; rcases hx with h | h <;> subst h <;> simp [Authority.srcOk, c04T]),
   (by intro x hx; cases hx), (by decide)⟩
example : (step true c04S c04T (.ok [] [⟨3, 7, 100, true, false⟩, ⟨7, 5, 40, true, false⟩] [])).2 = .success := by decide
example : (get (step true c04S c04T (.ok [] [⟨3, 7, 100, true, false⟩, ⟨7, 5, 40, true, false⟩] [])).1.accts 3).balance = 890 := by decide
example : (get (step true c04S c04T (.ok [] [⟨3, 7, 100, true, false⟩, ⟨7, 5, 40, true, false⟩] [])).1.accts 7).balance = 5060 := by decide

end ZChain.TransferSites

/-! ### each signed authorisation is honoured at most once: the free-storage marker book

`Model/FreeMarkers.lean` transcribes `addFreeStorageAssigner` / `freeStorageAssigner.validate` and the
bookkeeping of `freeAllocationRequest`; it is run against the real contract by `harness/cmd/c04` (every
`add_free_storage_assigner` / `free_allocation_request` transaction is shadowed by an `fsa` / `frm` line). -/
namespace ZChain.FreeMarkers

/-- **redeemed_only_grows**: over ANY sequence of registrations (first, repeated, by the owner or not, with the
same or other limits and keys) and redemptions, a nonce once recorded for an assigner stays recorded. -/
theorem redeemed_only_grows (ops : List Op) (b : Book) (n : Nat) (x : Int) (h : x ∈ redeemedOf b n) :
    x ∈ redeemedOf (run b ops) n := run_keeps ops b n x h

/-- re-registration of an assigner — whatever the new limits and key — keeps what it has redeemed. -/
theorem reregistration_keeps_redeemed (b : Book) (byOwner : Bool) (n key individual total : Nat) (x : Int)
    (h : x ∈ redeemedOf b n) : x ∈ redeemedOf (register b byOwner n key individual total).1 n :=
  register_keeps b byOwner n key individual total n x h

/-- **replay_refused_in_every_reachable_state**: once marker (n, x) was honoured, it is refused in every state
reachable afterwards, whatever governance calls and other redemptions came in between and however the replay is
signed or sized. -/
theorem replay_refused_in_every_reachable_state (b : Book) (n k : Nat) (i r : Bool) (c : Nat) (x : Int) (l : Bool)
    (hacc : (redeem b n k i r c x l).2 = .accept) (ops : List Op)
    (k' : Nat) (i' r' : Bool) (c' : Nat) (l' : Bool) :
    (redeem (run (redeem b n k i r c x l).1 ops) n k' i' r' c' x l').2 ≠ .accept :=
  used_nonce_refused _ n k' i' r' c' x l' (run_keeps ops _ n x (accept_records b n k i r c x l hacc))

/-- **marker_honoured_at_most_once**: along any history from any state, a marker nonce of an assigner is
honoured at most once. -/
theorem marker_honoured_at_most_once (b : Book) (ops : List Op) (n : Nat) (x : Int) :
    timesHonoured b n x ops ≤ 1 := timesHonoured_le_one ops b n x

-- non-vacuity: redeem nonce 5, the owner re-registers the assigner with ANOTHER total and individual limit and
-- another key, the same marker (re-signed with the new key) comes again: refused for its nonce; a fresh one passes.
def exOps : List Op :=
  [.reg true 7 1 200 1000, .red 7 1 true true 50 5 true, .reg true 7 2 300 2000, .red 7 2 true true 50 5 true,
   .red 7 2 true true 50 3 true]
example : (redeem (run [] (exOps.take 1)) 7 1 true true 50 5 true).2 = .accept := by decide
example : (redeem (run [] (exOps.take 3)) 7 2 true true 50 5 true).2 = .nonceUsed := by decide
example : (redeem (run [] (exOps.take 4)) 7 2 true true 50 3 true).2 = .accept := by decide
example : timesHonoured [] 7 5 exOps = 1 := by decide
example : redeemedOf (run [] exOps) 7 = [5, 3] := by decide

end ZChain.FreeMarkers
