import ZChain.Proofs.BlockDB
import ZChain.Model.BlockStore
/-!
# C26 — Stored blocks and block databases read back exactly

Property theorems only (helper lemmas: `Proofs/BlockDB.lean`). All statements are about
`Model/BlockDB.lean` / `Model/BlockStore.lean`, which `harness/cmd/c26` ties to `sharder/blockdb` and
`sharder/blockstore` on every run (differential run, hanging lookups observed through a child process).

The part of the property "a lookup of a key that was never written returns not-found instead of hanging" is
FALSE of the pinned code (`fixedKeyArrayIndex.GetOffset`, index.go:147-185: `break` inside `switch`):
`absent_key_diverges`, `absent_beyond_last_diverges` and `lookup_total_fails_pinned` are the negation
witnesses, `lookup_present_partial` / `read_after_reopen` / `lookup_never_wrong_record` are what does hold,
and `lookup_total_fixed` is the full statement for the repaired control flow (`searchAux true`).
-/
namespace ZChain.BlockDB

/-! ## the saved index -/

/-- **index_sorted_after_save**: for every content of the Go map (distinct keys of the database's key length),
the index file `Save` writes decodes (`Open`) to the entry array sorted strictly by key, holding exactly the
map's entries. -/
theorem index_sorted_after_save (klen : Nat) (hk : klen ≤ 118) (m : MapIdx)
    (hnd : (m.map (·.1)).Nodup) (hu : Uniform klen m) (hn : m.length < 2 ^ 31) :
    decodeFixed klen (encodeIndex m) = .ok (encodeEntries (sortEntries m)) ∧
    (sortEntries m).Pairwise KeyLt ∧ (sortEntries m).Perm m :=
  ⟨decodeFixed_encodeIndex klen hk m hu hn, sortEntries_sorted m hnd, sortEntries_perm m⟩

/-- The index file does not depend on the order in which Go enumerates the map (`for k, o := range mi.index`):
any two enumerations of the same map give the same bytes. -/
theorem index_file_order_independent (m₁ m₂ : MapIdx) (hnd : (m₁.map (·.1)).Nodup) (hp : m₁.Perm m₂) :
    encodeIndex m₁ = encodeIndex m₂ := by
  have hnd2 : (m₂.map (·.1)).Nodup := (hp.map _).nodup_iff.mp hnd
  have hs : sortEntries m₁ = sortEntries m₂ := by
    apply List.Perm.eq_of_pairwise (le := KeyLt) _ (sortEntries_sorted m₁ hnd) (sortEntries_sorted m₂ hnd2)
      ((sortEntries_perm m₁).trans (hp.trans (sortEntries_perm m₂).symm))
    intro a b _ _ h1 h2
    have := (cmpBytes_lt_gt _ _).1 h1
    unfold KeyLt at h2
    rw [h2] at this; cases this
  unfold encodeIndex
  rw [hs, hp.length_eq]

/-! ## lookup -/

/-- **lookup_never_wrong_record**: whatever the buffer, the key, the fuel and the control flow, `GetOffset`
only ever returns the offset stored in an entry whose key equals the key asked for. -/
theorem lookup_never_wrong_record (fixed : Bool) (buf : Bytes) (klen : Nat) (key : Bytes) (fuel : Nat) (off : Int)
    (h : getOffsetFuel fixed buf klen key fuel = .found off) :
    ∃ i : Nat, entryKey buf (keySize klen).toNat klen i = key ∧ entryOff buf (keySize klen).toNat klen i = off := by
  obtain ⟨i, h1, h2, _, _⟩ := searchAux_found_sound _ _ key fixed fuel 0 _ off (by omega) h
  exact ⟨i, h1, h2⟩

/-- **lookup_total, `_partial` (present keys)** — the code that exists (`getOffset`, i.e. `codeIsFixed`):
every key of the saved map is found with its offset. -/
theorem lookup_present_partial (klen : Nat) (hk : klen ≤ 118) (m : MapIdx)
    (hnd : (m.map (·.1)).Nodup) (hu : Uniform klen m) (hoff : ∀ e ∈ m, e.2 < 2 ^ 63)
    (k : Bytes) (o : Nat) (hmem : (k, o) ∈ m) :
    getOffset (encodeEntries (sortEntries m)) klen k = .found (o : Int) := by
  unfold getOffset
  apply getOffsetFuel_present codeIsFixed klen hk m hnd hu hoff k o hmem
  unfold enoughFuel
  rw [numKeysOf_encode klen hk _ (sortEntries_uniform klen m hu), sortEntries_length]
  simp only [Int.toNat_natCast]; omega

/-- The index of the one-record database `{05 ↦ offset 0}` (key length 1). -/
def witnessBuf : Bytes := encodeEntries (sortEntries [([5], 0)])

/-- **absent_key_diverges** (negation witness, replayed on the real code by the fixed case
`new 1 0; write 05; save; open; read 07` → `hang`): the fuel-bounded transcription of the pinned loop never
terminates on an absent key of a one-key database. -/
theorem absent_key_diverges : ∀ fuel, getOffsetFuel false witnessBuf 1 [7] fuel = .timeout := by
  intro fuel
  unfold getOffsetFuel
  have h1 : numKeysOf witnessBuf 1 - 1 = 0 := by decide
  rw [h1]
  exact searchAux_stuck _ _ _ 0 (by omega) (by decide) fuel

/-- the same for the present key: found at once (non-vacuity of the witness database) -/
example : getOffset witnessBuf 1 [5] = .found 0 := by decide

/-- **absent_beyond_last_diverges**: in EVERY non-empty saved index, the lookup of ANY key greater than all
stored keys never terminates (pinned control flow). -/
theorem absent_beyond_last_diverges (klen : Nat) (hk : klen ≤ 118) (m : MapIdx) (hu : Uniform klen m)
    (hne : m ≠ []) (key : Bytes) (hgt : ∀ e ∈ m, cmpBytes e.1 key = .lt) :
    ∀ fuel, getOffsetFuel false (encodeEntries (sortEntries m)) klen key fuel = .timeout := by
  intro fuel
  have hus := sortEntries_uniform klen m hu
  have hlen := sortEntries_length m
  have hpos : 0 < m.length := List.length_pos_iff.mpr hne
  unfold getOffsetFuel
  rw [numKeysOf_encode klen hk _ hus, keySize_eq klen hk]
  simp only [Int.toNat_natCast]
  apply searchAux_beyond_last _ _ _ fuel 0 _ (by omega) (by omega)
  intro i _ hi
  have hi' : i < (sortEntries m).length := by omega
  rw [entryKey_encode klen _ hus i hi']
  exact hgt _ ((sortEntries_perm m).mem_iff.mp (List.getElem_mem hi'))

/-- **lookup_total is false of the pinned code**: it is not the case that every lookup ends. -/
theorem lookup_total_fails_pinned :
    ¬ (∀ (buf : Bytes) (klen : Nat) (key : Bytes), ∃ fuel, getOffsetFuel false buf klen key fuel ≠ .timeout) := by
  intro h
  obtain ⟨fuel, hf⟩ := h witnessBuf 1 [7]
  exact hf (absent_key_diverges fuel)

/-- **hang_is_divergence**: when the model driver answers `hang` (the pinned loop still running after
`numKeys + 2` turns) the loop runs forever — for every buffer and key. -/
theorem hang_is_divergence (buf : Bytes) (klen : Nat) (key : Bytes)
    (h : getOffsetFuel false buf klen key (enoughFuel buf klen) = .timeout) :
    ∀ fuel, getOffsetFuel false buf klen key fuel = .timeout := by
  unfold getOffsetFuel at h ⊢
  exact searchAux_timeout_forever _ _ key (enoughFuel buf klen) 0 _ (by omega)
    (by unfold enoughFuel; omega) h

/-- **lookup_total** for the REPAIRED control flow (`if lo == hi { break }` leaving the loop): with `numKeys + 2`
turns of fuel every lookup ends; a written key is found with its offset, any other key is `notFound`. -/
theorem lookup_total_fixed (klen : Nat) (hk : klen ≤ 118) (m : MapIdx)
    (hnd : (m.map (·.1)).Nodup) (hu : Uniform klen m) (hoff : ∀ e ∈ m, e.2 < 2 ^ 63) (key : Bytes) :
    let buf := encodeEntries (sortEntries m)
    (∀ o, (key, o) ∈ m → getOffsetFuel true buf klen key (enoughFuel buf klen) = .found (o : Int)) ∧
    ((∀ e ∈ m, e.1 ≠ key) → getOffsetFuel true buf klen key (enoughFuel buf klen) = .notFound) := by
  intro buf
  have hus := sortEntries_uniform klen m hu
  have hfuel : enoughFuel buf klen = m.length + 2 := by
    unfold enoughFuel
    rw [numKeysOf_encode klen hk _ hus, sortEntries_length]; simp
  constructor
  · intro o hmem
    exact getOffsetFuel_present true klen hk m hnd hu hoff key o hmem _ (by omega)
  · intro habs
    cases hres : getOffsetFuel true buf klen key (enoughFuel buf klen) with
    | notFound => rfl
    | timeout =>
      exfalso
      unfold getOffsetFuel at hres
      refine searchAux_fixed_terminates _ _ key (enoughFuel buf klen) 0 _ (by omega) ?_ hres
      rw [hfuel, numKeysOf_encode klen hk _ hus, sortEntries_length]; omega
    | found off =>
      exfalso
      obtain ⟨i, h1, _, h3, h4⟩ := searchAux_found_sound _ _ key true _ 0 _ off (by omega) hres
      rw [numKeysOf_encode klen hk _ hus] at h4
      rw [keySize_eq klen hk] at h1
      simp only [Int.toNat_natCast] at h1
      have hi : i < (sortEntries m).length := by omega
      rw [entryKey_encode klen _ hus i hi] at h1
      exact habs _ ((sortEntries_perm m).mem_iff.mp (List.getElem_mem hi)) h1

/-- the map index (what `WriteData` fills, and what `SetIndex(mapIndex); Open()` decodes) answers not-found
for exactly the keys it does not hold -/
theorem mapGet_notFound_iff (m : List (Bytes × Int)) (k : Bytes) :
    mapGet m k = .notFound ↔ ∀ e ∈ m, e.1 ≠ k := by
  induction m with
  | nil => simp [mapGet]
  | cons x xs ih =>
    obtain ⟨k', o'⟩ := x
    simp only [mapGet]
    split
    · rename_i h; subst h; simp
    · rename_i h; rw [ih]; simp [h]

/-! ## read after reopen, crash points -/

/-- hypotheses on a history of writes (most recent first) into a database of key length `klen` -/
structure WellFormedOver (left : Bytes) (oldIdx : Option Bytes) (klen : Nat) (c : Bool) (hist : List W) : Prop where
  klen_le : klen ≤ 118
  keys : ∀ w ∈ hist, w.key.length = klen
  sizes : ∀ w ∈ hist, w.stored.length < 2 ^ 31
  count : hist.length < 2 ^ 31
  total : (afterWritesOver left oldIdx klen c hist).dat.length < 2 ^ 63
  /-- the codec: without compression the stored bytes are the content; with it, decompression is a function -/
  codec : if c then (∀ w ∈ hist, ∀ w' ∈ hist, w.stored = w'.stored → w.content = w'.content)
          else ∀ w ∈ hist, w.stored = w.content

/-- a store into fresh files -/
abbrev WellFormed (klen : Nat) (c : Bool) (hist : List W) : Prop := WellFormedOver [] none klen c hist

/-- **read_after_reopen + crash_prefix_safe_partial, over ANY leftover files** (`left`: whatever bytes an earlier,
crashed attempt left in the data file — shorter or longer than what is stored now; `oldIdx`: an old index file).
`Create` neither truncates nor appends: the records are written from offset 0 over the leftover, at the offsets the
index records. After any history of writes, `Save`, a crash that left
only the first `n` bytes of the data file (`n` ≥ its length: no crash) and `Open` (index file complete):
`Open` succeeds, and for every written key `k` — whose last record `w` lies at offset `o` —
* if all bytes of that record are on disk, `Read k` returns exactly the content last written under `k`
  (compressed or not);
* otherwise `Read k` is an error. It never returns other data.
Not modelled (hence `_partial`): the OS reordering writes, `fsync`. -/
theorem store_over_leftover_crash (left : Bytes) (oldIdx : Option Bytes) (klen : Nat) (c : Bool) (hist : List W)
    (wf : WellFormedOver left oldIdx klen c hist)
    (n : Nat) (k : Bytes) (w : W) (hw : lastWrite hist k = some w) :
    let d0 := (afterWritesOver left oldIdx klen c hist).save
    let d1 : DB := { d0 with dat := d0.dat.take n }
    d1.openFixed.2 = .ok ∧
    ∃ o : Nat, (k, o) ∈ d0.midx ∧
      (o + 4 + w.stored.length ≤ n → d1.openFixed.1.read k = .data w.content) ∧
      (n < o + 4 + w.stored.length → d1.openFixed.1.read k = .err) := by
  intro d0 d1
  have inv := afterWritesOver_inv left oldIdx klen c hist
  have hk := wf.klen_le
  have hmidx : d0.midx = (afterWritesOver left oldIdx klen c hist).midx := rfl
  have hu : Uniform klen (afterWritesOver left oldIdx klen c hist).midx := by
    intro e he
    obtain ⟨w', _, _, hl, _, _⟩ := inv.entry e he
    have := lastWrite_mem hl
    rw [← this.2]; exact wf.keys _ this.1
  have hoff : ∀ e ∈ (afterWritesOver left oldIdx klen c hist).midx, e.2 < 2 ^ 63 := by
    intro e he
    obtain ⟨w', pre, post, _, hd, hp⟩ := inv.entry e he
    have : pre.length ≤ (afterWritesOver left oldIdx klen c hist).dat.length := by rw [hd]; simp
    have := wf.total
    omega
  have hn : (afterWritesOver left oldIdx klen c hist).midx.length < 2 ^ 31 := by have := inv.len_le; have := wf.count; omega
  have hdec := decodeFixed_encodeIndex_tail klen hk _ hu hn
  have hopen : d1.openFixed = ({ d1 with oidx := .fixed (encodeEntries (sortEntries (afterWritesOver left oldIdx klen c hist).midx)),
                                           phase := .opened, atStart := true }, OpenRes.ok) :=
    DB.openFixed_ok d1 _ _ rfl (by
      rw [show d1.klen = klen from inv.klen_eq]
      show decodeFixed klen (overwriteAt _ 0 (encodeIndex _)) = _
      rw [show ∀ (o e : Bytes), overwriteAt o 0 e = e ++ o.drop e.length from by intro o e; simp [overwriteAt]]
      exact hdec _)
  obtain ⟨o, ho⟩ := inv.cover k w hw
  refine ⟨by rw [hopen], o, ho, ?_⟩
  obtain ⟨w', pre, post, hl, hd, hp⟩ := inv.entry (k, o) ho
  simp only at hl hp
  rw [hw] at hl; injection hl with hl; subst hl
  have hwm := (lastWrite_mem hw).1
  -- the lookup
  have hlook : getOffset (encodeEntries (sortEntries (afterWritesOver left oldIdx klen c hist).midx)) klen k = .found (o : Int) :=
    lookup_present_partial klen hk _ inv.nodup hu hoff k o ho
  -- what is read at that offset from the truncated file
  have hsrc : ((afterWritesOver left oldIdx klen c hist).dat.take n).drop o = (encodeRecord w.stored ++ post).take (n - o) := by
    rw [List.drop_take, hd, ← hp, List.drop_left]
  have hpre := readRecord_prefix w.stored post (wf.sizes w hwm) (n - o)
  have hro : readAt ((afterWritesOver left oldIdx klen c hist).dat.take n) (o : Int) =
      readRecord ((encodeRecord w.stored ++ post).take (n - o)) := by
    unfold readAt
    rw [if_neg (by omega), Int.toNat_natCast, hsrc]
  have hrd := DB.read_found d1.openFixed.1 _ k (o : Int) (by rw [hopen])
    (by rw [hopen]; show getOffset _ d1.klen k = _; rw [show d1.klen = klen from inv.klen_eq]; exact hlook)
  have hdat : d1.openFixed.1.dat = (afterWritesOver left oldIdx klen c hist).dat.take n := by rw [hopen]; rfl
  rw [hdat, hro] at hrd
  have hdp : ∀ p, d1.openFixed.1.decodePayload p =
      if c then Codec.decompress (hist.map (fun w => (w.stored, w.content))) p else some p := by
    intro p
    rw [hopen]
    unfold DB.decodePayload
    simp only [show d1.compress = c from inv.comp_eq, show d1.codec = _ from inv.codec_eq]
  constructor
  · intro hfull
    rw [hrd, hpre.1 (by omega)]
    simp only [hdp]
    cases c with
    | false =>
      have := wf.codec
      simp only [Bool.false_eq_true, if_false] at this ⊢
      rw [this w hwm]
    | true =>
      have hc := wf.codec
      simp only [if_true] at hc ⊢
      rw [Codec.decompress_of_functional _ w.stored w.content
        (List.mem_map.mpr ⟨w, hwm, rfl⟩)
        (by
          intro a b b' h1 h2
          obtain ⟨x, hx, hxe⟩ := List.mem_map.mp h1
          obtain ⟨y, hy, hye⟩ := List.mem_map.mp h2
          simp only [Prod.mk.injEq] at hxe hye
          rw [← hxe.2, ← hye.2]
          exact hc x hx y hy (by rw [hxe.1, hye.1]))]
  · intro hshort
    rw [hrd]
    rcases hpre.2 (by omega) with h | h <;> rw [h]

/-- **round trip of a store over ANY leftover content** (no crash afterwards): whatever was in the data file and
the index file before `Create`, every record written last under a key reads back exactly after `Save` and `Open`.
(This is what opening the data file with `O_APPEND` breaks: the records would land behind the leftover while the
index says offset 0.) -/
theorem store_over_leftover_round_trip (left : Bytes) (oldIdx : Option Bytes) (klen : Nat) (c : Bool) (hist : List W)
    (wf : WellFormedOver left oldIdx klen c hist)
    (k : Bytes) (w : W) (hw : lastWrite hist k = some w) :
    let d0 := (afterWritesOver left oldIdx klen c hist).save
    d0.openFixed.2 = .ok ∧ d0.openFixed.1.read k = .data w.content := by
  intro d0
  have h := store_over_leftover_crash left oldIdx klen c hist wf d0.dat.length k w hw
  simp only at h
  have hd : ({ d0 with dat := d0.dat.take d0.dat.length } : DB) = d0 := by
    rw [List.take_length]
  rw [hd] at h
  obtain ⟨h1, o, ho, h2, _⟩ := h
  refine ⟨h1, h2 ?_⟩
  -- the record lies inside the file
  obtain ⟨w', pre, post, hl, hdat, hp⟩ := (afterWritesOver_inv left oldIdx klen c hist).entry (k, o) ho
  simp only at hl hp
  rw [hw] at hl; injection hl with hl; subst hl
  show o + 4 + w.stored.length ≤ (afterWritesOver left oldIdx klen c hist).dat.length
  rw [hdat]; simp [encodeRecord_length]; omega

/-- **read_after_reopen + crash_prefix_safe_partial** for fresh files -/
theorem read_after_reopen_crash (klen : Nat) (c : Bool) (hist : List W) (wf : WellFormed klen c hist)
    (n : Nat) (k : Bytes) (w : W) (hw : lastWrite hist k = some w) :
    let d0 := (afterWrites klen c hist).save
    let d1 : DB := { d0 with dat := d0.dat.take n }
    d1.openFixed.2 = .ok ∧
    ∃ o : Nat, (k, o) ∈ d0.midx ∧
      (o + 4 + w.stored.length ≤ n → d1.openFixed.1.read k = .data w.content) ∧
      (n < o + 4 + w.stored.length → d1.openFixed.1.read k = .err) :=
  store_over_leftover_crash [] none klen c hist wf n k w hw

/-- **read_after_reopen** (fresh files, no crash): the record written last under each key reads back exactly. -/
theorem read_after_reopen (klen : Nat) (c : Bool) (hist : List W) (wf : WellFormed klen c hist)
    (k : Bytes) (w : W) (hw : lastWrite hist k = some w) :
    let d0 := (afterWrites klen c hist).save
    d0.openFixed.2 = .ok ∧ d0.openFixed.1.read k = .data w.content :=
  store_over_leftover_round_trip [] none klen c hist wf k w hw

/-- **torn_index_detected**: a crash while `Save` writes the index file leaves a proper prefix of it (or no
file); `Open` then fails — no record is served from a torn index. -/
theorem torn_index_detected (klen : Nat) (c : Bool) (hist : List W) (wf : WellFormed klen c hist)
    (j : Nat) :
    let d0 := (afterWrites klen c hist).save
    let full := encodeIndex (afterWrites klen c hist).midx
    j < full.length →
    ({ d0 with idx := some (full.take j) } : DB).openFixed.2 = .err ∧
    ({ d0 with idx := none } : DB).openFixed.2 = .err := by
  intro d0 full hj
  have inv := afterWrites_inv klen c hist
  have hu : Uniform klen (afterWrites klen c hist).midx := by
    intro e he
    obtain ⟨w', _, _, hl, _, _⟩ := inv.entry e he
    have := lastWrite_mem hl
    rw [← this.2]; exact wf.keys _ this.1
  have hn : (afterWrites klen c hist).midx.length < 2 ^ 31 := by have := inv.len_le; have := wf.count; omega
  have := decodeFixed_torn klen wf.klen_le _ hu hn j hj
  constructor
  · rw [DB.openFixed_err _ (full.take j) rfl (by show decodeFixed d0.klen _ = _; rw [show d0.klen = klen from inv.klen_eq]; exact this)]
  · rfl

/-! ## non-vacuity: a concrete history meets `WellFormed`, and the theorems compute on it -/

def exHist : List W := [⟨[3, 4], [0xdd], [0xdd]⟩, ⟨[1, 2], [0xaa, 0xbb], [0xaa, 0xbb]⟩, ⟨[3, 4], [0xcc], [0xcc]⟩]

example : WellFormed 2 false exHist :=
  { klen_le := by decide, keys := by decide, sizes := by decide, count := by decide, total := by decide,
    codec := by decide }
example : lastWrite exHist [3, 4] = some ⟨[3, 4], [0xdd], [0xdd]⟩ := by decide
example : ((afterWrites 2 false exHist).save.openFixed.1.read [3, 4]) = .data [0xdd] := by decide
example : ((afterWrites 2 false exHist).save.openFixed.1.read [1, 2]) = .data [0xaa, 0xbb] := by decide
/-- between the two stored keys: the pinned lookup spins, the repaired one answers not-found; below the first
key both answer not-found -/
example : getOffsetFuel false (encodeEntries (sortEntries (afterWrites 2 false exHist).midx)) 2 [2, 0] 4 = .timeout := by decide
example : getOffsetFuel true (encodeEntries (sortEntries (afterWrites 2 false exHist).midx)) 2 [2, 0] 4 = .notFound := by decide
example : ((afterWrites 2 false exHist).save.openFixed.1.read [0, 0]) = .notFound := by decide
example : (afterWrites 2 false exHist).save.idx =
    some [2, 0, 0, 0, 2, 1, 2, 5, 0, 0, 0, 0, 0, 0, 0, 2, 3, 4, 11, 0, 0, 0, 0, 0, 0, 0] := by decide

/-! ## crash, then store again under the same name -/

/-- a leftover that is a torn record (3 of its 5 bytes), and one that is LONGER than everything stored now -/
def tornLeft : Bytes := [1, 0, 0]
def longLeft : Bytes := [9, 9, 9, 9, 9, 9, 9, 9, 9, 9, 9, 9, 9, 9, 9, 9, 9, 9, 9, 9, 9, 9, 9, 9, 9, 9, 9, 9, 9, 9]

example : WellFormedOver longLeft (some [7, 7, 7]) 2 false exHist :=
  { klen_le := by decide, keys := by decide, sizes := by decide, count := by decide, total := by decide,
    codec := by decide }
example : ((afterWritesOver tornLeft none 2 false exHist).save.openFixed.1.read [3, 4]) = .data [0xdd] := by decide
example : ((afterWritesOver longLeft (some [7, 7, 7]) 2 false exHist).save.openFixed.1.read [1, 2]) = .data [0xaa, 0xbb] := by decide
/-- `ReadAll` after a store over a LONGER leftover: exactly the stored records in order (it reads as many records
as the index has keys, so what lies behind them is never interpreted — with distinct keys) -/
example : (afterWritesOver longLeft none 2 false [⟨[3, 4], [0xdd], [0xdd]⟩, ⟨[1, 2], [0xaa], [0xaa]⟩]).save.openFixed.1.readAll
    = .ok [[0xaa], [0xdd]] := by decide

/-- the counterfactual `WriteData` on a data file opened with `O_APPEND`: the offset recorded is still the file
position (`Seek(0,1)`: 0 before the first write), but the bytes land at the END of the file -/
def DB.writeAppendMode (d : DB) (key content stored : Bytes) : DB :=
  { d with midx := d.midx.set key d.pos,
           dat := d.dat ++ encodeRecord stored,
           pos := (d.dat ++ encodeRecord stored).length,
           codec := (stored, content) :: d.codec }

/-- **why `Create` must not append**: over a torn leftover the real write semantics read the record back, the
append-mode semantics index offset 0 while the record lies behind the leftover — `Read` does not return it -/
theorem append_mode_breaks_retry :
    let start : DB := { DB.create 1 false with dat := tornLeft }
    ((start.write [5] [0xaa] [0xaa]).save.openFixed.1.read [5]) = .data [0xaa] ∧
    ((start.writeAppendMode [5] [0xaa] [0xaa]).save.openFixed.1.read [5]) ≠ .data [0xaa] := by
  refine ⟨by decide, by decide⟩

end ZChain.BlockDB

/-! ## the block store -/
namespace ZChain.BlockStore

theorem Files.get_set_same {β : Type} (s : Files β) (p : Path) (b : β) : (s.set p b).get p = some b := by
  induction s with
  | nil => simp [Files.set, Files.get]
  | cons x xs ih =>
    obtain ⟨p', b'⟩ := x
    simp only [Files.set]
    split
    · simp [Files.get]
    · rename_i h; simp [Files.get, h, ih]

theorem Files.get_set_other {β : Type} (s : Files β) (p q : Path) (b : β) (h : p ≠ q) :
    (s.set p b).get q = s.get q := by
  induction s with
  | nil => simp [Files.set, Files.get, h]
  | cons x xs ih =>
    obtain ⟨p', b'⟩ := x
    simp only [Files.set]
    split
    · rename_i hp; subst hp; simp [Files.get, h]
    · simp only [Files.get]; split
      · rfl
      · exact ih

/-- the file path determines the hash (no two block hashes share a file) -/
theorem path_injective (h h' : List Char) (p : Path) (h1 : path h = some p) (h2 : path h' = some p) : h = h' := by
  unfold path at h1 h2
  split at h1
  · cases h1
  · split at h2
    · cases h2
    · injection h1 with h1; injection h2 with h2
      rw [← h2] at h1
      injection h1 with ha hb
      rw [← List.take_append_drop 5 h, ← List.take_append_drop 5 h', ha, hb]

/-- **block_roundtrip**: a block written under a hash of at least five characters reads back as written
(the content stands for hash, header, transactions, outputs and magic block). -/
theorem block_roundtrip {β : Type} (s : Files β) (h : List Char) (b : β) (hl : 5 ≤ h.length) :
    (write s h b none).2 = true ∧ read (write s h b none).1 h = some b := by
  have hp : path h = some (h.take 5, h.drop 5) := by unfold path; rw [if_neg (by omega)]
  simp [write, writeFile, read, hp, Files.get_set_same]

/-- a block that starts a magic block also reads back under the magic block's hash -/
theorem block_roundtrip_magic {β : Type} (s : Files β) (h mh : List Char) (b : β) (hl : 5 ≤ h.length)
    (hm : 5 ≤ mh.length) :
    (write s h b (some mh)).2 = true ∧ read (write s h b (some mh)).1 mh = some b ∧
    (h ≠ mh → read (write s h b (some mh)).1 h = some b) := by
  have hp : path h = some (h.take 5, h.drop 5) := by unfold path; rw [if_neg (by omega)]
  have hq : path mh = some (mh.take 5, mh.drop 5) := by unfold path; rw [if_neg (by omega)]
  refine ⟨by simp [write, writeFile, hp, hq], by simp [write, writeFile, read, hp, hq, Files.get_set_same], ?_⟩
  intro hne
  have hpq : (mh.take 5, mh.drop 5) ≠ (h.take 5, h.drop 5) := by
    intro e
    exact hne (path_injective h mh _ hp (by rw [hq, e]))
  simp [write, writeFile, read, hp, hq, Files.get_set_other _ _ _ _ hpq, Files.get_set_same]

/-- writing one block leaves every other stored block readable and unchanged -/
theorem write_preserves_others {β : Type} (s : Files β) (h h' : List Char) (b : β) (hne : h ≠ h')
    (hl : 5 ≤ h.length) : read (write s h b none).1 h' = read s h' := by
  have hp : path h = some (h.take 5, h.drop 5) := by unfold path; rw [if_neg (by omega)]
  unfold read
  cases hq : path h' with
  | none => rfl
  | some q =>
    have : (h.take 5, h.drop 5) ≠ q := fun e => hne (path_injective h h' q (by rw [hp, e]) hq)
    simp [write, writeFile, hp, Files.get_set_other _ _ _ _ this]

/-- a hash that was never written (and is no alias) is an error, not some other block -/
theorem read_unwritten {β : Type} (h : List Char) : read ([] : Files β) h = none := by
  unfold read; split <;> simp [Files.get]

example : read (write ([] : Files Nat) "abcdef0".toList 7 none).1 "abcdef0".toList = some 7 := by decide
example : read (write ([] : Files Nat) "abcdef0".toList 7 none).1 "abcdef1".toList = none := by decide
example : (write ([] : Files Nat) "abc".toList 7 none).2 = false := by decide

end ZChain.BlockStore
