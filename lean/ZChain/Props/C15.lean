import ZChain.Proofs.ReadMarker
import ZChain.Proofs.ReadPrice
import Mathlib.Algebra.Field.Basic
/-!
# C15 — Read markers charge each read exactly once

Property theorems about `Model/ReadMarker.lean` (helper lemmas in `Proofs/ReadMarker.lean`, `Proofs/ReadPrice.lean`).
The model is tied to `storagesc.commitBlobberRead` on every run by `harness/cmd/c15` (real transactions through the
real `Chain.UpdateState`, real BLS keys) and its signed field list / key field list / `CHUNK_SIZE` / `GB` are
regenerated from the Go source by `harness/cmd/xc15` (`Generated/C15.lean`).

Reading of the property where the code leaves a choice (no finding): a marker with the *same* counter as the stored
one is accepted and charges 0 (it still bumps the `NumReads` statistics); the key, hence the stored counter, is per
(blobber, client, allocation), so the same counter on another allocation is a fresh read of that allocation and is
charged in full from the (per-client) read pool; the transaction's sender is not checked (anyone may submit a
client-signed marker); the time window is the allocation's `[StartTime, Expiration]` against the marker's own
timestamp. "Exactly the read price times the newly read size" is the code's float formula, which `chargeOf_exact`
shows to be the exact floor `⌊price·Δ·CHUNK/GB⌋` whenever `price·Δ·CHUNK < 2^53`.

**Finding `C15:counter-delta-overflow` — REPAIRED in /repo commit 83c108b.** `numReads * CHUNK_SIZE` is an `int64`
product; before the repair a counter increment `Δ ≥ 2^47` wrapped it (`Δ = 2^48` was charged 0, `2^48+1` as one chunk,
while the stored counter jumped by `Δ`). The contract now refuses every increment outside `[0, MaxInt64/CHUNK_SIZE]`
(`accepted_increment_in_range`, `overflow_increment_refused`); the wrap of the bare formula is kept below as a
historical note (`historical_unguarded_formula_wraps`), and the harness oracle keeps the signature active.
What remains between the model's charge and the rational `price·Δ·CHUNK/GB` is float rounding only: exact floor
when `price·Δ·CHUNK < 2^53` (`read_charge_floor_partial`), correctly rounded — monotone, one part in 2^53 — above
(`charge_monotone_in_range`, `float_rounding_witness`).
-/
namespace ZChain.ReadMarker
open ZChain ZChain.Generated.C15

section
variable {F : Type} [Mul F] [Zero F] [DecidableEq F]

/-! ## what an accepted marker went through -/

/-- **read_charge_exact**: a successful redemption debits the client's read pool by exactly the price of the
counter increment since the last redeemed marker of that (blobber, client, allocation) — `chargeOf` at the read
price of that blobber in that allocation —, stores the marker's counter under the key, and leaves every other read
pool and every other key alone. -/
theorem read_charge_exact {cr : Crypto F} {s s' : St F} {m : Marker F} {v : Nat}
    (h : commit cr s m = .ok (s', v)) :
    ∃ al d, aGet s.allocs m.alloc = some al ∧ al.bas.find? (fun d => d.blobber = m.blobber) = some d ∧
      chargeOf d.price (m.ctr - s.lastCtr (keyM m)) = some v ∧
      v ≤ s.pool m.client ∧ aGet s'.pools m.client = some (s.pool m.client - v) ∧
      s'.lastCtr (keyM m) = m.ctr ∧
      (∀ c, c ≠ m.client → aGet s'.pools c = aGet s.pools c) ∧
      (∀ k, k ≠ keyM m → aGet s'.last k = aGet s.last k) := by
  obtain ⟨_, _, al, d, sp, sp', rr, hal, _, _, hd, _, _, hval, hbal, _, _, hs⟩ := commit_inv h
  subst hs
  refine ⟨al, d, hal, hd, hval, hbal, ?_, ?_, ?_, ?_⟩
  · exact aGet_aSet_same _ _ _
  · simp [St.lastCtr, aGet_aSet_same]
  · intro c hc; exact aGet_aSet_other _ _ _ _ hc
  · intro k hk; exact aGet_aSet_other _ _ _ _ hk

/-- every accepted marker moves its counter by an increment whose byte count fits an `int64` (the guard of /repo
83c108b): `0 ≤ Δ ≤ MaxInt64/CHUNK_SIZE`, hence the byte count the price is computed from is the true `Δ·CHUNK`. -/
theorem accepted_increment_in_range {cr : Crypto F} {s s' : St F} {m : Marker F} {v : Nat}
    (h : commit cr s m = .ok (s', v)) :
    0 ≤ m.ctr - s.lastCtr (keyM m) ∧ m.ctr - s.lastCtr (keyM m) ≤ maxDelta ∧
      wrapI64 ((m.ctr - s.lastCtr (keyM m)) * (chunkSize : Int)) = (m.ctr - s.lastCtr (keyM m)) * (chunkSize : Int) := by
  obtain ⟨_, _, _, _, _, _, _, _, _, _, _, _, hr, _⟩ := commit_inv h
  exact ⟨hr.1, hr.2, (wrap_in_range _ hr.1 hr.2).1⟩

/-- a marker whose increment is beyond the guard is refused — the repaired overflow. -/
theorem overflow_increment_refused (cr : Crypto F) (s : St F) (m : Marker F)
    (h : maxDelta < m.ctr - s.lastCtr (keyM m)) : ∃ e, commit cr s m = .error e := by
  cases hc : commit cr s m with
  | error e => exact ⟨e, rfl⟩
  | ok r =>
    obtain ⟨s', v⟩ := r
    have := (accepted_increment_in_range hc).2.1
    omega

/-- … and the debit is the exact floor `⌊price · Δ · CHUNK / GB⌋` whenever `price · Δ · CHUNK < 2^53` — the only
hypothesis left: no rounding anywhere in the float pipeline (the `int64` wrap is excluded by the contract's guard).
FULL statement (false of the code for float reasons only, see `float_rounding_witness`): the same for every accepted
increment. Above `2^53` the float product is the correctly rounded one (relative error ≤ 2^-53, then truncated), and the
charge stays monotone in the increment (`charge_monotone_in_range`). -/
theorem read_charge_floor_partial {cr : Crypto F} {s s' : St F} {m : Marker F} {v : Nat}
    (h : commit cr s m = .ok (s', v)) :
    ∃ al d, aGet s.allocs m.alloc = some al ∧ al.bas.find? (fun d => d.blobber = m.blobber) = some d ∧
      ∀ n : Nat, m.ctr - s.lastCtr (keyM m) = (n : Int) →
        d.price * (n * chunkSize) < 2 ^ 53 → v = d.price * (n * chunkSize) / gb := by
  obtain ⟨al, d, hal, hd, hval, _⟩ := read_charge_exact h
  refine ⟨al, d, hal, hd, ?_⟩
  intro n hn hps
  rw [hn] at hval
  have hcs : chunkSize = 65536 := rfl
  rcases Nat.eq_zero_or_pos n with h0 | h0
  · subst h0
    have := chargeOf_zero _ _ hval
    subst this
    simp
  · rcases Nat.eq_zero_or_pos d.price with hp0 | hp0
    · rw [hp0] at hval ⊢
      have := chargeOf_price_zero _ _ hval
      subst this
      simp
    · have h1 : 1 ≤ n * chunkSize := by rw [hcs]; omega
      have hp : d.price < 2 ^ 53 := by
        have : d.price * 1 ≤ d.price * (n * chunkSize) := Nat.mul_le_mul_left _ h1
        omega
      have hs : n * chunkSize < 2 ^ 53 := by
        have : 1 * (n * chunkSize) ≤ d.price * (n * chunkSize) := Nat.mul_le_mul_right _ hp0
        omega
      rw [chargeOf_exact d.price n hp hs hps] at hval
      exact (Option.some.inj hval).symm

/-! ## counters only move forward -/

/-- **counters_monotone** (one redemption): no stored counter decreases. -/
theorem commit_counters_monotone {cr : Crypto F} {s s' : St F} {m : Marker F} {v : Nat}
    (h : commit cr s m = .ok (s', v)) (k : Key) : s.lastCtr k ≤ s'.lastCtr k := by
  obtain ⟨_, _, _, _, _, _, _, hnew, _, hoth⟩ := read_charge_exact h
  by_cases hk : k = keyM m
  · subst hk; rw [hnew]; exact (commit_ctr_le h).1
  · unfold St.lastCtr; rw [hoth k hk]

theorem step_counters_monotone (cr : Crypto F) (s : St F) (op : Op F) (k : Key) :
    s.lastCtr k ≤ (step cr s op).1.lastCtr k := by
  cases op with
  | commit m =>
    cases hc : commit cr s m with
    | error e => rw [step_commit_err hc]
    | ok r => obtain ⟨s', v⟩ := r; rw [step_commit_ok hc]; exact commit_counters_monotone hc k
  | lock a t v =>
    cases hc : lock s a t v with
    | error e => rw [step_lock_err hc]
    | ok s' => rw [step_lock_ok hc]; simp only [St.lastCtr, lock_last hc]; exact Int.le_refl _
  | unlock a =>
    cases hc : unlock s a with
    | error e => rw [step_unlock_err hc]
    | ok r => obtain ⟨s', b⟩ := r; rw [step_unlock_ok hc]; simp only [St.lastCtr, unlock_last hc]; exact Int.le_refl _

/-- **counters_monotone**: over any history of redemptions (accepted or refused, any order, any repetition),
pool locks and unlocks, no stored counter ever decreases. -/
theorem counters_monotone (cr : Crypto F) (ops : List (Op F)) (s : St F) (k : Key) :
    s.lastCtr k ≤ (run cr s ops).1.lastCtr k := by
  induction ops generalizing s with
  | nil => exact Int.le_refl _
  | cons op ops ih =>
    unfold run
    have h1 := step_counters_monotone cr s op k
    have h2 := ih (step cr s op).1
    exact Int.le_trans h1 h2

/-! ## replays and older markers -/

/-- **replay_charges_nothing** (equal counter): redeeming the stored counter again moves no tokens: the read pool
balance is what it was. -/
theorem replay_charges_nothing {cr : Crypto F} {s s' : St F} {m : Marker F} {v : Nat}
    (h : commit cr s m = .ok (s', v)) (heq : m.ctr = s.lastCtr (keyM m)) :
    v = 0 ∧ aGet s'.pools m.client = some (s.pool m.client) ∧ s'.lastCtr (keyM m) = s.lastCtr (keyM m) := by
  obtain ⟨_, _, _, _, hval, _, hp, hl, _⟩ := read_charge_exact h
  have hz : m.ctr - s.lastCtr (keyM m) = 0 := by omega
  rw [hz] at hval
  have hv := chargeOf_zero _ _ hval
  subst hv
  exact ⟨rfl, by simpa using hp, by rw [hl, heq]⟩

/-- **replay_charges_nothing** (older counter): a marker whose counter is below the stored one is refused
(and a refused redemption changes nothing: `step`). -/
theorem older_rejected (cr : Crypto F) (s : St F) (m : Marker F) (p : Marker F)
    (hp : aGet s.last (keyM m) = some p) (hlt : m.ctr < p.ctr) : ∃ e, commit cr s m = .error e := by
  cases hc : commit cr s m with
  | error e => exact ⟨e, rfl⟩
  | ok r =>
    obtain ⟨s', v⟩ := r
    have := (commit_ctr_le hc).1
    unfold St.lastCtr at this
    rw [hp] at this
    simp at this
    omega

/-! ## the total charged for a key telescopes -/

theorem step_entry (cr : Crypto F) (s : St F) (op : Op F) (k : Key) :
    match (step cr s op).2 with
    | none => (step cr s op).1.lastCtr k = s.lastCtr k
    | some e =>
      if e.key = k then e.fromCtr = s.lastCtr k ∧ e.fromCtr ≤ e.toCtr ∧
          chargeOf e.price (e.toCtr - e.fromCtr) = some e.value ∧ (step cr s op).1.lastCtr k = e.toCtr
      else (step cr s op).1.lastCtr k = s.lastCtr k := by
  cases op with
  | commit m =>
    cases hc : commit cr s m with
    | error e => rw [step_commit_err hc]
    | ok r =>
      obtain ⟨s', v⟩ := r
      obtain ⟨al, d, hal, hd, hval, _, _, hl, _, hoth⟩ := read_charge_exact hc
      rw [step_commit_ok hc]
      simp only
      split
      · rename_i hk
        subst hk
        refine ⟨rfl, (commit_ctr_le hc).1, ?_, hl⟩
        simp only [priceFor, hal, hd]
        exact hval
      · rename_i hk
        simp only [St.lastCtr]
        rw [hoth k (fun e => hk e.symm)]
  | lock a t v =>
    cases hc : lock s a t v with
    | error e => rw [step_lock_err hc]
    | ok s' => rw [step_lock_ok hc]; simp only [St.lastCtr, lock_last hc]
  | unlock a =>
    cases hc : unlock s a with
    | error e => rw [step_unlock_err hc]
    | ok r => obtain ⟨s', b⟩ := r; rw [step_unlock_ok hc]; simp only [St.lastCtr, unlock_last hc]

/-- **total_charge_telescopes** (general form): over any history, the accepted redemptions of a key form a chain
`c₀ ≤ c₁ ≤ … ≤ cₙ` from the initially stored counter to the finally stored one, and each is charged the price of
its own increment `cᵢ − cᵢ₋₁` — whatever the order of submission, however often markers are repeated, whatever
else happens in between. -/
theorem total_charge_telescopes (cr : Crypto F) (ops : List (Op F)) (s : St F) (k : Key) :
    Chain (s.lastCtr k) ((run cr s ops).2.filter (fun e => e.key = k)) ((run cr s ops).1.lastCtr k) := by
  induction ops generalizing s with
  | nil => simp [run, Chain]
  | cons op ops ih =>
    unfold run
    have hs := step_entry cr s op k
    have ih' := ih (step cr s op).1
    cases he : (step cr s op).2 with
    | none =>
      rw [he] at hs
      simp only at hs ⊢
      rw [hs] at ih'
      simpa [he] using ih'
    | some e =>
      rw [he] at hs
      simp only at hs
      by_cases hk : e.key = k
      · rw [if_pos hk] at hs
        obtain ⟨h1, h2, h3, h4⟩ := hs
        rw [h4] at ih'
        simp only [he, List.filter_cons, hk, decide_true, if_true]
        exact ⟨h1, h2, h3, ih'⟩
      · rw [if_neg hk] at hs
        rw [hs] at ih'
        simpa [he, List.filter_cons, hk] using ih'

/-- **total_charge_telescopes** (constant price): if every accepted redemption of the key was priced at the same
read price `p` and `p · (cₙ − c₀) · CHUNK < 2^53`, the total charged is the price of the whole increment up to the
truncation of each step: `⌊p·(cₙ−c₀)·CHUNK/GB⌋ − (n − 1) ≤ total ≤ ⌊p·(cₙ−c₀)·CHUNK/GB⌋` — in particular
`price(max counter)` when `c₀ = 0`. -/
theorem chain_total_bounds (p : Nat) (hp : p < 2 ^ 53) :
    ∀ (es : List Entry) (c0 c : Int), 0 ≤ c0 → Chain c0 es c → (∀ e ∈ es, e.price = p) →
      p * ((c - c0).toNat * chunkSize) < 2 ^ 53 → (c - c0).toNat * chunkSize < 2 ^ 53 →
      total es ≤ p * ((c - c0).toNat * chunkSize) / gb ∧
      p * ((c - c0).toNat * chunkSize) / gb ≤ total es + (es.length - 1) := by
  intro es
  induction es with
  | nil =>
    intro c0 c _ h _ _ _
    simp [Chain] at h
    subst h
    simp [total]
  | cons e es ih =>
    intro c0 c hc0 h hpr hb1 hb2
    obtain ⟨h1, h2, h3, h4⟩ := h
    have hle := Chain.le h4
    have hpe : e.price = p := hpr e (List.mem_cons_self)
    rw [hpe] at h3
    -- split the increment
    obtain ⟨a, ha⟩ : ∃ a : Nat, e.toCtr - e.fromCtr = (a : Int) := ⟨(e.toCtr - e.fromCtr).toNat, by omega⟩
    obtain ⟨b, hb⟩ : ∃ b : Nat, c - e.toCtr = (b : Int) := ⟨(c - e.toCtr).toNat, by omega⟩
    have hab : (c - c0).toNat = a + b := by omega
    have hbb : (c - e.toCtr).toNat = b := by omega
    rw [hab] at hb1 hb2 ⊢
    have hcs : chunkSize = 65536 := rfl
    have hgb : gb = 1073741824 := rfl
    have ha1 : a * chunkSize < 2 ^ 53 :=
      Nat.lt_of_le_of_lt (Nat.mul_le_mul_right _ (Nat.le_add_right a b)) hb2
    have ha2 : p * (a * chunkSize) < 2 ^ 53 := by
      have : p * (a * chunkSize) ≤ p * ((a + b) * chunkSize) := Nat.mul_le_mul_left _ (Nat.mul_le_mul_right _ (Nat.le_add_right _ _))
      omega
    have hb1' : p * (b * chunkSize) < 2 ^ 53 := by
      have : p * (b * chunkSize) ≤ p * ((a + b) * chunkSize) := Nat.mul_le_mul_left _ (Nat.mul_le_mul_right _ (Nat.le_add_left _ _))
      omega
    have hb2' : b * chunkSize < 2 ^ 53 :=
      Nat.lt_of_le_of_lt (Nat.mul_le_mul_right _ (Nat.le_add_left b a)) hb2
    rw [ha, chargeOf_exact p a hp ha1 ha2] at h3
    have hv : e.value = p * (a * chunkSize) / gb := (Option.some.inj h3).symm
    have hrec := ih e.toCtr c (by omega) h4 (fun x hx => hpr x (List.mem_cons_of_mem _ hx)) (by rw [hbb]; exact hb1') (by rw [hbb]; exact hb2')
    rw [hbb] at hrec
    have hsum : p * ((a + b) * chunkSize) = p * (a * chunkSize) + p * (b * chunkSize) := by
      rw [Nat.add_mul, Nat.mul_add]
    have hnil : es = [] → p * (b * chunkSize) = 0 := by
      intro hes
      subst hes
      simp only [Chain] at h4
      have : b = 0 := by omega
      subst this
      simp
    simp only [total, List.map_cons, List.sum_cons, List.length_cons] at hrec ⊢
    rw [hv, hsum, hgb]
    rw [hgb] at hrec
    generalize p * (a * chunkSize) = X at *
    generalize p * (b * chunkSize) = Y at *
    obtain ⟨r1, r2⟩ := hrec
    have d1 : X / 1073741824 + Y / 1073741824 ≤ (X + Y) / 1073741824 := by omega
    have d2 : (X + Y) / 1073741824 ≤ X / 1073741824 + Y / 1073741824 + 1 := by omega
    constructor
    · omega
    · cases es with
      | nil =>
        have := hnil rfl
        subst this
        simp
      | cons e2 es2 => simp only [List.length_cons] at r2 ⊢; omega

/-- … and exactly `price(cₙ − c₀)` when the price per chunk is a whole number of token units (`GB/CHUNK ∣ p`). -/
theorem chain_total_exact (p q : Nat) (hpq : p = 16384 * q) (hp : p < 2 ^ 53) :
    ∀ (es : List Entry) (c0 c : Int), 0 ≤ c0 → Chain c0 es c → (∀ e ∈ es, e.price = p) →
      p * ((c - c0).toNat * chunkSize) < 2 ^ 53 → (c - c0).toNat * chunkSize < 2 ^ 53 →
      total es = q * (c - c0).toNat := by
  intro es
  induction es with
  | nil =>
    intro c0 c _ h _ _ _
    simp [Chain] at h
    subst h
    simp [total]
  | cons e es ih =>
    intro c0 c hc0 h hpr hb1 hb2
    obtain ⟨h1, h2, h3, h4⟩ := h
    have hle := Chain.le h4
    have hpe : e.price = p := hpr e (List.mem_cons_self)
    rw [hpe] at h3
    obtain ⟨a, ha⟩ : ∃ a : Nat, e.toCtr - e.fromCtr = (a : Int) := ⟨(e.toCtr - e.fromCtr).toNat, by omega⟩
    obtain ⟨b, hb⟩ : ∃ b : Nat, c - e.toCtr = (b : Int) := ⟨(c - e.toCtr).toNat, by omega⟩
    have hab : (c - c0).toNat = a + b := by omega
    have hbb : (c - e.toCtr).toNat = b := by omega
    rw [hab] at hb1 hb2 ⊢
    have hcs : chunkSize = 65536 := rfl
    have hgb : gb = 1073741824 := rfl
    have ha1 : a * chunkSize < 2 ^ 53 :=
      Nat.lt_of_le_of_lt (Nat.mul_le_mul_right _ (Nat.le_add_right a b)) hb2
    have ha2 : p * (a * chunkSize) < 2 ^ 53 := by
      have : p * (a * chunkSize) ≤ p * ((a + b) * chunkSize) := Nat.mul_le_mul_left _ (Nat.mul_le_mul_right _ (Nat.le_add_right _ _))
      omega
    have hb1' : p * (b * chunkSize) < 2 ^ 53 := by
      have : p * (b * chunkSize) ≤ p * ((a + b) * chunkSize) := Nat.mul_le_mul_left _ (Nat.mul_le_mul_right _ (Nat.le_add_left _ _))
      omega
    have hb2' : b * chunkSize < 2 ^ 53 :=
      Nat.lt_of_le_of_lt (Nat.mul_le_mul_right _ (Nat.le_add_left b a)) hb2
    rw [ha, chargeOf_exact p a hp ha1 ha2] at h3
    have hv : e.value = p * (a * chunkSize) / gb := (Option.some.inj h3).symm
    have hrec := ih e.toCtr c (by omega) h4 (fun x hx => hpr x (List.mem_cons_of_mem _ hx)) (by rw [hbb]; exact hb1') (by rw [hbb]; exact hb2')
    rw [hbb] at hrec
    simp only [total, List.map_cons, List.sum_cons] at hrec ⊢
    rw [hrec, hv, hpq, hcs, hgb]
    have : 16384 * q * (a * 65536) = (q * a) * 1073741824 := by
      rw [Nat.mul_comm 16384 q, Nat.mul_assoc, Nat.mul_assoc]
      congr 1
      omega
    rw [this, Nat.mul_div_cancel _ (by decide), Nat.mul_add]

/-! ## signatures -/

/-- **signature_required**: an accepted marker carries a decodable public key whose hash is its client id and a
signature that verifies, under that key, for the message made of the marker's signed fields. -/
theorem signature_required {cr : Crypto F} {s s' : St F} {m : Marker F} {v : Nat}
    (h : commit cr s m = .ok (s', v)) :
    ∃ pk σ, cr.pkOf m.pk = some pk ∧ cr.idOf m.pk = m.client ∧ m.sig = some σ ∧
      hashData m = some [(m.alloc : Int), m.blobber, m.client, m.pk, m.owner, m.ctr, m.ts] ∧
      Alg.verify pk (cr.Hm [(m.alloc : Int), m.blobber, m.client, m.pk, m.owner, m.ctr, m.ts]) σ = true := by
  obtain ⟨hcid, hver, _⟩ := commit_inv h
  obtain ⟨_, _, _, _, _, hsig⟩ := verify_ok hver
  unfold verifyClientID at hcid
  unfold verifySig at hsig
  rw [hashData_eq] at hsig
  cases hpk : cr.pkOf m.pk with
  | none => rw [hpk] at hcid; cases hcid
  | some pk =>
    rw [hpk] at hcid hsig
    cases hsg : m.sig with
    | none => rw [hsg] at hsig; cases hsig
    | some σ =>
      rw [hsg] at hsig
      simp only [decide_eq_true_eq] at hcid
      refine ⟨pk, σ, rfl, hcid, rfl, hashData_eq m, ?_⟩
      simp only [Alg.verifyLib, Bool.and_eq_true, decide_eq_true_eq] at hsig
      simp only [Alg.verify, decide_eq_true_eq]
      exact hsig.2

/-- a marker whose signature does not verify (wrong signer, any signed field altered, undecodable or missing
signature, undecodable key) is refused. -/
theorem unsigned_rejected (cr : Crypto F) (s : St F) (m : Marker F) (h : verifySig cr m = false) :
    ∃ e, commit cr s m = .error e := by
  cases hc : commit cr s m with
  | error e => exact ⟨e, rfl⟩
  | ok r =>
    obtain ⟨s', v⟩ := r
    obtain ⟨_, hver, _⟩ := commit_inv hc
    have := (verify_ok hver).2.2.2.2.2
    rw [h] at this
    cases this

/-- … and so is a marker whose public key does not hash to its client id. -/
theorem foreign_key_rejected (cr : Crypto F) (s : St F) (m : Marker F) (h : cr.idOf m.pk ≠ m.client) :
    ∃ e, commit cr s m = .error e := by
  cases hc : commit cr s m with
  | error e => exact ⟨e, rfl⟩
  | ok r =>
    obtain ⟨s', v⟩ := r
    obtain ⟨_, _, _, hid, _⟩ := signature_required hc
    exact absurd hid h

/-- every marker field the redemption acts on (key, counter, time window, the key itself) is among the signed
fields extracted from `GetHashData`, and the storage key separates blobber, client and allocation. -/
theorem signed_fields_cover :
    (∀ f ∈ [Field.AllocationID, .BlobberID, .ClientID, .ClientPublicKey, .OwnerID, .ReadCounter, .Timestamp], f ∈ signedFields) ∧
    (∀ f ∈ keyFields, f ∈ signedFields) ∧
    (∀ f ∈ [Field.BlobberID, .ClientID, .AllocationID], f ∈ keyFields) ∧ separator = ":" := by decide

end

/-- the signature binds the signed fields: over a field, with an injective message map, a signature
made by `sk` on the fields of `m₀` verifies under the same key for `m` only if `m` agrees with `m₀` on every signed
field — allocation, blobber, client, key, owner, counter, timestamp. -/
theorem signed_fields_bind {K : Type} [Field K] [DecidableEq K] (Hm : List Int → K)
    (hinj : Function.Injective Hm) (sk : K) (m0 m : Marker K)
    (hs : m.sig = some (Alg.sign sk (Hm [(m0.alloc : Int), m0.blobber, m0.client, m0.pk, m0.owner, m0.ctr, m0.ts])))
    (cr : Crypto K) (hHm : cr.Hm = Hm) (hpk : cr.pkOf m.pk = some (Alg.pubKey sk))
    (hv : verifySig cr m = true) :
    m.alloc = m0.alloc ∧ m.blobber = m0.blobber ∧ m.client = m0.client ∧ m.pk = m0.pk ∧ m.owner = m0.owner ∧
      m.ctr = m0.ctr ∧ m.ts = m0.ts := by
  unfold verifySig at hv
  rw [hpk, hs, hashData_eq, hHm] at hv
  simp only [Alg.verifyLib, Alg.sign, Alg.pubKey, Bool.and_eq_true] at hv
  obtain ⟨⟨hsk, _⟩, he⟩ := hv
  have := mul_left_cancel₀ (of_decide_eq_true hsk) (of_decide_eq_true he)
  have := hinj this
  simp only [List.cons.injEq, Nat.cast_inj, and_true] at this
  obtain ⟨a, b, c, d, e, f, g⟩ := this
  exact ⟨a.symm, b.symm, c.symm, d.symm, e.symm, f.symm, g.symm⟩

/-- a signature by another key does not verify for the same message. -/
theorem other_signer_rejected {K : Type} [Field K] [DecidableEq K] (cr : Crypto K) (sk pk : K) (m : Marker K) (msg : List Int)
    (hmsg : hashData m = some msg) (hnz : cr.Hm msg ≠ 0) (hpk : cr.pkOf m.pk = some pk) (hne : sk ≠ pk)
    (hs : m.sig = some (Alg.sign sk (cr.Hm msg))) : verifySig cr m = false := by
  unfold verifySig
  rw [hpk, hs, hmsg]
  simp only [Alg.verifyLib, Alg.sign, Bool.and_eq_false_iff, decide_eq_false_iff_not]
  right
  apply decide_eq_false
  intro he
  exact hne (mul_right_cancel₀ hnz he)

/-! ## what is left of the full statement: float rounding; and the repaired overflow, for the record -/

/-- **the charge is monotone in the increment** over the whole range the contract admits, for read prices below 2^53
(the configured maximum is 7·10^10): rounding never reorders charges. -/
theorem charge_monotone_in_range (price n1 n2 v1 v2 : Nat) (hp : price < 2 ^ 53) (hle : n1 ≤ n2)
    (hr : (n2 : Int) ≤ maxDelta) (h1 : chargeOf price (n1 : Int) = some v1) (h2 : chargeOf price (n2 : Int) = some v2) :
    v1 ≤ v2 := by
  have hw := (wrap_in_range (n2 : Int) (by omega) hr).2
  have hcs : (chunkSize : Int) = 65536 := by decide
  have hcs' : chunkSize = 65536 := rfl
  rw [hcs] at hw
  have : n2 * chunkSize < 2 ^ 63 := by rw [hcs']; omega
  exact chargeOf_mono price n1 n2 v1 v2 hp hle this h1 h2

/-- **negation witness of the full statement (float rounding only)**: inside the admitted range, at the maximal
read price 7·10^10 an increment of 1104042983 chunks is charged 4716980518188477, one unit more than the rational
floor 4716980518188476 (`price·Δ·CHUNK ≈ 2^82`, the double product rounds up across an integer). -/
theorem float_rounding_witness :
    chargeOf 70000000000 1104042983 = some 4716980518188477 ∧
    70000000000 * (1104042983 * chunkSize) / gb = 4716980518188476 ∧ (1104042983 : Int) ≤ maxDelta := by decide +kernel

/-- **historical** (the finding repaired by /repo 83c108b): the bare pricing formula wraps its `int64` byte count — at
read price 1 an increment of `2^48` chunks evaluates to 0 (the rational price is 17179869184) and `2^48+1` chunks to one
chunk's price. Such increments no longer reach the formula (`overflow_increment_refused`): both exceed `maxDelta`. -/
theorem historical_unguarded_formula_wraps :
    chargeOf 1 (2 ^ 48) = some 0 ∧ 1 * (2 ^ 48 * chunkSize) / gb = 17179869184 ∧
    chargeOf 16384 (2 ^ 48 + 1) = some 1 ∧ chargeOf 16384 1 = some 1 ∧ maxDelta < 2 ^ 48 := by decide +kernel

/-! ## non-vacuity: a concrete world in which markers are accepted, replayed, refused -/

namespace Example
def cr : Crypto Int := { pkOf := fun k => if k < 10 then some ((k : Int) + 2) else none, idOf := fun k => k + 1, Hm := fun l => l.sum + 1000003 }
def al0 : Alloc := { owner := 1, start := 100, expiration := 200, numReads := 0, bas := [⟨101, 100000000, 0, 0⟩, ⟨102, 16384, 0, 0⟩] }
def sp0 : SP := { killed := false, stake := 1000, minStake := 10, nPools := 1, charge := F64.zero, reward := 0, delegates := 0 }
def s0 : St Int := { allocs := [(201, al0)], sps := [(101, sp0), (102, sp0)], pools := [(1, 5000000000)], last := [], wallets := [], scWallet := 0, minLock := 0 }
def mk (b : Nat) (ctr : Int) : Marker Int :=
  let m : Marker Int := { client := 1, pk := 0, blobber := b, alloc := 201, owner := 1, ts := 150, ctr := ctr, sig := none }
  { m with sig := (hashData m).map (fun l => Alg.sign (2 : Int) (cr.Hm l)) }
def vals (ops : List (Op Int)) : List (Int × Int × Nat) := (run cr s0 ops).2.map (fun e => (e.fromCtr, e.toCtr, e.value))

-- increments 0→1→5 at 6103.5 per chunk, a replay of 5 (charged 0), an older marker (refused), another blobber
example : vals [.commit (mk 101 1), .commit (mk 101 5), .commit (mk 101 5), .commit (mk 101 4), .commit (mk 102 7)]
    = [(0, 1, 6103), (1, 5, 24414), (5, 5, 0), (0, 7, 7)] := by decide +kernel
example : ((run cr s0 [.commit (mk 101 1), .commit (mk 101 5), .commit (mk 101 5), .commit (mk 101 4)]).1.pool 1) = 5000000000 - 6103 - 24414 := by decide +kernel
-- a marker signed by another key is refused
example : (match commit cr s0 { mk 101 1 with sig := some (Alg.sign (3 : Int) (cr.Hm [201, 101, 1, 0, 1, 1, 150])) } with | .error .sig => true | _ => false) = true := by decide +kernel
-- a counter altered after signing is refused
example : (match commit cr s0 { mk 101 1 with ctr := 2 } with | .error .sig => true | _ => false) = true := by decide +kernel
end Example

end ZChain.ReadMarker
