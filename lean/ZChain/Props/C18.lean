import ZChain.Proofs.ZcnMint
/-!
# C18 — Bridge mints need a quorum of authorizers and each nonce mints once

Statements are about `Model/Zcn.lean` (`mint` and its stages, `mintStep` = `mint` run through the engine model),
which `harness/cmd/c18` ties to `smartcontract/zcnsc/mint.go`, `models.go`, `nonce_partitions.go`, `authorizer.go`
and the real `Chain.UpdateState` on every run (real BLS authorizer keys).

The message point of a payload is `Hm p.eth p.amount p.nonce p.receiver` for an ARBITRARY function `Hm`
(`GetStringToSign` = `H(ethTxn:amount:nonce:receiver)` followed by hash-to-curve); "valid signature over exactly
(burn reference, amount, nonce, receiver)" is `ValidSig … (Hm p.eth p.amount p.nonce p.receiver)`.

## mint_requires_quorum
Full statement: *a successful mint carries valid signatures over exactly its (burn reference, amount, nonce,
receiver) from at least `threshold` distinct registered authorizers, and the submitter is the receiving client.*
* `mint_requires_quorum`                     the full statement, for the code as it is (`strict := true`, since `fix:` 3c528ec).
* `forged_mint_refused`                      the forged payload below is refused by the code as it is.
Historical (the code before 3c528ec, `strict := false`; kept so that a regression is recognised for what it is):
* `mint_requires_quorum_failed_before_fix`   kernel-evaluated witness: with 3 registered authorizers and threshold 2, a payload
                                             whose three signatures are all forged (well-formed points that do not verify) minted.
                                             Cause: `errors.Wrap(nil, …) = nil` in `verifySignatures`.
* `mint_requires_quorum_before_fix`          what did hold of that code: receiver = submitter, ≥ threshold DISTINCT ids submitted,
                                             the counted signatures were a run of valid ones followed by nothing or by a well-formed
                                             signature under a registered id that does not verify.
## threshold_close, nonce_once, mint_amounts
* `threshold_close`                 the threshold is within ½ of the float product `percent·n` (round-half-even);
                                    `threshold_below_fraction_witness`: 2 of 3 authorizers suffice at 70 % (reading rule of DESIGN §3.5).
* `nonce_once`                      over any history the successfully minted nonces are pairwise distinct and none of
                                    them was minted before the history.
* `mint_amounts_partial`            client +(amount − share), bridge wallet −(amount − share), share = MaxFee / #signatures ≤ MaxFee,
                                    exactly one authorizer's stake pool (one whose id is in the payload) is updated, by
                                    `DistributeRewards(share)`; every other pool is unchanged.
* `mint_fee_not_credited_witness`   negation witness for "… which is credited to an authorizer": when the chosen authorizer's
                                    pool holds less than its minimum stake (e.g. a freshly registered authorizer), the share is taken
                                    from the client and credited to nobody.
-/
namespace ZChain.Zcn
open ZChain ZChain.Ledger ZChain.Alg

/-- the quorum the property asks for: `S` = distinct registered authorizers, each with a valid signature in the
payload over the message point `h`, at least `thr` of them. -/
structure Quorum (s : ZSt) (h : Fr) (p : MintIn) (thr : Int) (S : List Sig) : Prop where
  distinct : (S.map (·.id)).Nodup
  submitted : ∀ sg ∈ S, sg ∈ p.sigs
  valid : ∀ sg ∈ S, ValidSig s.auths h sg
  enough : thr ≤ S.length

/-- common part of both variants. -/
theorem mint_ok_common (strict : Bool) (s : ZSt) (sender : Id) (p : MintIn) (h : Fr) (pick : Nat → Nat) (o : MintOut)
    (hm : mint strict s sender (some p) h pick = .ok o) :
    p.receiver = sender ∧ p.nonce ∉ s.minted ∧ s.cfg.minMint ≤ p.amount ∧ s.cfg.maxFee ≤ p.amount ∧
    threshold s.cfg.percent s.count = some o.threshold ∧
    (o.counted.map (·.id)).Nodup ∧ (∀ sg ∈ o.counted, sg ∈ p.sigs) ∧ o.threshold ≤ o.counted.length ∧
    o.counted ≠ [] ∧ verifySigs strict s.auths h o.counted = true := by
  obtain ⟨thr, sigs, uniq, po, h1, h2, h3, h4, ho⟩ := mint_ok_stages strict s sender p h pick o hm
  obtain ⟨hrecv, hmin, hfee, hfresh⟩ := mintChecks_ok s sender p h2
  obtain ⟨_, _, hthr, _, _⟩ := mintSigs_ok s p thr sigs h1
  obtain ⟨hu, hver, hlen⟩ := mintVerify_ok strict s h thr sigs uniq h3
  obtain ⟨hne, hvs⟩ := verifySignatures_true strict s.auths h uniq hver
  subst ho
  refine ⟨hrecv, hfresh, hmin, hfee, hthr, ?_, ?_, hlen, hne, hvs⟩
  · show (uniq.map (·.id)).Nodup
    rw [hu]; exact uniqueSigs_nodup sigs
  · intro sg hsg
    have : sg ∈ uniq := hsg
    rw [hu] at this
    exact mintSigs_sub s p thr sigs h1 sg (uniqueSigs_sub sigs sg this)

/-- **mint_requires_quorum** (the code as it is, `strict := true`). -/
theorem mint_requires_quorum (Hm : Nat → Nat → Int → Id → Fr) (s : ZSt) (sender : Id) (p : MintIn)
    (pick : Nat → Nat) (o : MintOut)
    (hm : mint true s sender (some p) (Hm p.eth p.amount p.nonce p.receiver) pick = .ok o) :
    p.receiver = sender ∧ threshold s.cfg.percent s.count = some o.threshold ∧
    Quorum s (Hm p.eth p.amount p.nonce p.receiver) p o.threshold o.counted := by
  obtain ⟨hrecv, _, _, _, hthr, hnd, hsub, hlen, _, hvs⟩ := mint_ok_common true s sender p _ pick o hm
  exact ⟨hrecv, hthr, ⟨hnd, hsub, verifySigs_strict s.auths _ o.counted hvs, hlen⟩⟩

/-- historical: the code before `fix:` 3c528ec (`strict := false`). -/
theorem mint_requires_quorum_before_fix (Hm : Nat → Nat → Int → Id → Fr) (s : ZSt) (sender : Id) (p : MintIn)
    (pick : Nat → Nat) (o : MintOut)
    (hm : mint false s sender (some p) (Hm p.eth p.amount p.nonce p.receiver) pick = .ok o) :
    p.receiver = sender ∧ threshold s.cfg.percent s.count = some o.threshold ∧
    (o.counted.map (·.id)).Nodup ∧ (∀ sg ∈ o.counted, sg ∈ p.sigs) ∧ o.threshold ≤ o.counted.length ∧
    ((∀ sg ∈ o.counted, ValidSig s.auths (Hm p.eth p.amount p.nonce p.receiver) sg) ∨
      ∃ pre sg post, o.counted = pre ++ sg :: post ∧
        (∀ x ∈ pre, ValidSig s.auths (Hm p.eth p.amount p.nonce p.receiver) x) ∧
        SilentInvalid s.auths (Hm p.eth p.amount p.nonce p.receiver) sg) ∧
    ((∀ sg ∈ o.counted, ¬ SilentInvalid s.auths (Hm p.eth p.amount p.nonce p.receiver) sg) →
      Quorum s (Hm p.eth p.amount p.nonce p.receiver) p o.threshold o.counted) := by
  obtain ⟨hrecv, _, _, _, hthr, hnd, hsub, hlen, _, hvs⟩ := mint_ok_common false s sender p _ pick o hm
  refine ⟨hrecv, hthr, hnd, hsub, hlen, verifySigs_coded s.auths _ o.counted hvs, ?_⟩
  intro hns
  exact ⟨hnd, hsub, verifySigs_coded_of_no_silent s.auths _ o.counted hvs hns, hlen⟩

/-! ### the forged payload -/

/-- 70 % -/
def pct70 : F64 := F64.ofBits 0x3fe6666666666666

def wCfg : Cfg := { minBurn := 10, minMint := 100, maxFee := 100, percent := pct70, owner := 2, minStakePerDelegate := 50, maxDelegates := 5 }
def wPool (stake : Nat) : APool :=
  { sp := { pools := [⟨stake, 0⟩], reward := 0, minStake := 50, ratio := F64.zero, killed := false }, wallet := 4, maxDel := 3 }
/-- three registered authorizers with public keys 11, 12, 13 (exponents), each with 100 staked. -/
def wS : ZSt :=
  { accts := [(1, ⟨100000, 0⟩), (3, ⟨1000, 0⟩)], cfg := wCfg, users := [], auths := [(0, 11), (1, 12), (2, 13)], count := 3,
    pools := [(0, wPool 100), (1, wPool 100), (2, wPool 100)], minted := [] }
/-- the message point of the payload. -/
def wH : Fr := 1000003
/-- three well-formed signatures, none of which verifies (made with the unrelated scalars 5, 6, 7). -/
def wForged : MintIn :=
  { eth := 1, amount := 5000, nonce := 1, receiver := 3,
    sigs := [⟨some 0, some (sign 5 wH)⟩, ⟨some 1, some (sign 6 wH)⟩, ⟨some 2, some (sign 7 wH)⟩] }

/-- historical witness: before `fix:` 3c528ec the forged payload minted (4967 of the requested 5000 were paid out),
although not a single submitted signature is valid. -/
theorem mint_requires_quorum_failed_before_fix :
    (∃ o, mint false wS 3 (some wForged) wH (fun _ => 0) = .ok o ∧ o.paid = 4967 ∧ o.threshold = 2) ∧
    (∀ sg ∈ wForged.sigs, ¬ ValidSig wS.auths wH sg) ∧
    (mintStep false true wS ⟨3, 0, 5, 1⟩ (some wForged) wH (fun _ => 0)).2 = .success := by
  refine ⟨?_, ?_, ?_⟩
  · have h : (match mint false wS 3 (some wForged) wH (fun _ => 0) with
        | .ok o => o.paid == 4967 && o.threshold == 2 | .error _ => false) = true := by decide +kernel
    cases hm : mint false wS 3 (some wForged) wH (fun _ => 0) with
    | error e => simp [hm] at h
    | ok o =>
      simp only [hm, Bool.and_eq_true, beq_iff_eq] at h
      exact ⟨o, rfl, h.1, h.2⟩
  · intro sg hsg ⟨k, pk, σ, hid, hk, hs, hv⟩
    simp only [wForged, List.mem_cons, List.not_mem_nil, or_false] at hsg
    rcases hsg with e | e | e <;> subst e <;> simp only [Option.some.injEq] at hid hs <;> subst hid hs
    · have : aGet wS.auths 0 = some (11 : Fr) := by decide +kernel
      rw [this] at hk; injection hk with hk; subst hk
      exact absurd hv (by decide +kernel)
    · have : aGet wS.auths 1 = some (12 : Fr) := by decide +kernel
      rw [this] at hk; injection hk with hk; subst hk
      exact absurd hv (by decide +kernel)
    · have : aGet wS.auths 2 = some (13 : Fr) := by decide +kernel
      rw [this] at hk; injection hk with hk; subst hk
      exact absurd hv (by decide +kernel)
  · decide +kernel

/-- the same payload is refused by the code as it is. -/
theorem forged_mint_refused :
    (match mint true wS 3 (some wForged) wH (fun _ => 0) with | .error e => e == .verify | .ok _ => false) = true := by
  decide +kernel

/-- non-vacuity of `mint_requires_quorum` (and of the historical variant): an honest 2-of-3 mint succeeds. -/
def wHonest : MintIn :=
  { eth := 1, amount := 5000, nonce := 1, receiver := 3, sigs := [⟨some 2, some (sign 13 wH)⟩, ⟨some 0, some (sign 11 wH)⟩] }
example : (match mint true wS 3 (some wHonest) wH (fun _ => 1) with | .ok o => o.paid == 4950 && o.rewarded == 2 | _ => false) = true := by
  decide +kernel
example : (match mint false wS 3 (some wHonest) wH (fun _ => 1) with | .ok o => o.paid == 4950 && o.rewarded == 2 | _ => false) = true := by
  decide +kernel
-- one valid signature is not enough, a duplicated one does not count twice, a foreign (unregistered) signer is refused
def errIs (r : Except MintErr MintOut) (e : MintErr) : Bool := match r with | .error x => x == e | .ok _ => false
example : errIs (mint true wS 3 (some { wHonest with sigs := [⟨some 0, some (sign 11 wH)⟩] }) wH (fun _ => 0)) .fewSigs = true := by
  decide +kernel
example : errIs (mint true wS 3 (some { wHonest with sigs := [⟨some 0, some (sign 11 wH)⟩, ⟨some 0, some (sign 11 wH)⟩] }) wH (fun _ => 0))
    .notEnough = true := by decide +kernel
example : errIs (mint true wS 3 (some { wHonest with sigs := [⟨some 0, some (sign 11 wH)⟩, ⟨some 5, some (sign 15 wH)⟩] }) wH (fun _ => 0))
    .verify = true := by decide +kernel

/-! ## threshold_close -/

/-- **threshold_close.** Let `x` be the float product `percent · float64(n)`, finite, non-negative and below `2^52`.
Then the threshold is a natural number `t` with `|t − x| ≤ ½` (exact arithmetic, in units of `2^-1074`). -/
theorem threshold_close (percent : F64) (n : Int) (m E : Nat)
    (hx : F64.mul percent (F64.ofInt n) = .fin false m E) (hE : E < 1074) (hsmall : m * 2 ^ E < 2 ^ 52 * 2 ^ 1074) :
    ∃ t : Nat, threshold percent n = some (t : Int) ∧
      2 * (t * 2 ^ 1074 - m * 2 ^ E) ≤ 2 ^ 1074 ∧ 2 * (m * 2 ^ E - t * 2 ^ 1074) ≤ 2 ^ 1074 := by
  have hp : 0 < 2 ^ 1074 := F64.p2 1074
  refine ⟨F64.rne (m * 2 ^ E) (2 ^ 1074), ?_, (rne_close _ _ hp).1, (rne_close _ _ hp).2⟩
  have hq : F64.rne (m * 2 ^ E) (2 ^ 1074) < 2 ^ 53 := by
    have h1 := F64.rne_le_succ (m * 2 ^ E) (2 ^ 1074)
    have h2 : m * 2 ^ E / 2 ^ 1074 < 2 ^ 52 := (Nat.div_lt_iff_lt_mul hp).mpr hsmall
    have : (2 : Nat) ^ 52 + 1 ≤ 2 ^ 53 := by decide
    omega
  unfold threshold
  rw [hx]
  have hE' : ¬ 1074 ≤ E := by omega
  have hr : F64.roundToEven (.fin false m E) = F64.ofNat (F64.rne (m * 2 ^ E) (2 ^ 1074)) := by
    simp only [F64.roundToEven, hE', if_false]
    rfl
  rw [hr]
  obtain ⟨m', E', he, hmag, _⟩ := F64.ofNat_exact _ hq
  rw [he]
  unfold F64.toIntTrunc
  simp only [hmag, Nat.mul_div_cancel _ hp, Bool.false_eq_true, if_false]
  have : F64.rne (m * 2 ^ E) (2 ^ 1074) < 2 ^ 63 := Nat.lt_of_lt_of_le hq (Nat.pow_le_pow_right (by decide) (by decide))
  rw [if_pos this]
  rfl

/-- the shipped configuration (`percent_authorizers: 0.7`) with 3 authorizers: threshold 2, i.e. 66.7 % < 70 % of the
authorizers suffice — the rounding rule (not a ceiling) is part of the specification as read (DESIGN §3.5). -/
theorem threshold_below_fraction_witness : threshold pct70 3 = some 2 ∧ threshold pct70 10 = some 7 ∧ threshold pct70 5 = some 4 := by
  decide +kernel

-- non-vacuity of `threshold_close`: 0.7 · 3 is such a product
example : ∃ m E, F64.mul pct70 (F64.ofInt 3) = .fin false m E ∧ E < 1074 ∧ m * 2 ^ E < 2 ^ 52 * 2 ^ 1074 := by
  refine ⟨4728779608739020, 1023, by decide +kernel, by decide, by decide +kernel⟩

/-! ## nonce_once -/

/-- the nonce a mint operation mints, if its transaction succeeds. -/
def mintedBy (strict feeOn : Bool) (s : ZSt) (op : Op) : List Int :=
  match op with
  | .mint _ (some p) _ _ => if (stepOp strict feeOn s op).2 = .success then [p.nonce] else []
  | _ => []

/-- all nonces minted along a history, in order. -/
def mintLog (strict feeOn : Bool) : ZSt → List Op → List Int
  | _, [] => []
  | s, op :: rest => mintedBy strict feeOn s op ++ mintLog strict feeOn (stepOp strict feeOn s op).1 rest

/-- transaction-level success of a mint is contract-level success plus settlement. -/
theorem mintStep_success (strict feeOn : Bool) (s : ZSt) (c : Call) (p : Option MintIn) (h : Fr) (pick : Nat → Nat)
    (hs : (mintStep strict feeOn s c p h pick).2 = .success) :
    ∃ o a', mint strict s c.sender p h pick = .ok o ∧ Admissible s c ∧
      settle feeOn s.accts c.txn [o.transfer] [] = some a' ∧
      (mintStep strict feeOn s c p h pick).1 = { o.st with accts := a' } := by
  unfold mintStep at hs ⊢
  obtain ⟨s', q, a', hr, hadm, hset, hst⟩ := settleCall_success feeOn s c _ hs
  cases hm : mint strict s c.sender p h pick with
  | error e => simp [hm] at hr
  | ok o =>
    simp only [hm, Option.some.injEq, Prod.mk.injEq] at hr
    obtain ⟨h1, h2⟩ := hr
    subst h1 h2
    simp only [hm] at hst
    exact ⟨o, a', rfl, hadm, hset, hst⟩

theorem mint_ok_minted (strict : Bool) (s : ZSt) (sender : Id) (p : Option MintIn) (h : Fr) (pick : Nat → Nat) (o : MintOut)
    (hm : mint strict s sender p h pick = .ok o) :
    ∃ q, p = some q ∧ q.nonce ∉ s.minted ∧ o.st.minted = q.nonce :: s.minted ∧
      o.st.users = s.users ∧ o.st.auths = s.auths ∧ o.st.count = s.count ∧ o.st.cfg = s.cfg := by
  cases p with
  | none => simp [mint_none] at hm
  | some q =>
    obtain ⟨thr, sigs, uniq, po, _, h2, _, _, ho⟩ := mint_ok_stages strict s sender q h pick o hm
    obtain ⟨_, _, _, hfresh⟩ := mintChecks_ok s sender q h2
    subst ho
    exact ⟨q, rfl, hfresh, rfl, rfl, rfl, rfl, rfl⟩

theorem addAuth_minted (s : ZSt) (sender : Id) (a : Option AddIn) (s' : ZSt) (h : addAuth s sender a = .ok s') :
    s'.minted = s.minted := by
  unfold addAuth at h
  repeat' split at h
  all_goals first
    | (simp only [Except.ok.injEq] at h; subst h; rfl)
    | (exact absurd h (by simp))

theorem updCfg_minted (s : ZSt) (sender : Id) (u : Option (List Upd)) (s' : ZSt) (h : updCfg s sender u = .ok s') :
    s'.minted = s.minted := by
  unfold updCfg at h
  repeat' split at h
  all_goals first
    | (simp only [Except.ok.injEq] at h; subst h; rfl)
    | (exact absurd h (by simp))

theorem delAuth_minted (s : ZSt) (sender : Id) (k : Option Nat) (s' : ZSt) (h : delAuth s sender k = .ok s') :
    s'.minted = s.minted := by
  unfold delAuth at h
  repeat' split at h
  all_goals first
    | (simp only [Except.ok.injEq] at h; subst h; rfl)
    | (exact absurd h (by simp))

/-- one step: either nothing is minted and the set is unchanged, or one fresh nonce is minted and added. -/
theorem step_minted (strict feeOn : Bool) (s : ZSt) (op : Op) :
    (mintedBy strict feeOn s op = [] ∧ (stepOp strict feeOn s op).1.minted = s.minted) ∨
    (∃ n, mintedBy strict feeOn s op = [n] ∧ n ∉ s.minted ∧ (stepOp strict feeOn s op).1.minted = n :: s.minted) := by
  cases op with
  | burn c inp =>
    left
    refine ⟨rfl, ?_⟩
    show (burnStep feeOn s c inp).1.minted = _
    unfold burnStep
    apply settleCall_field (·.minted) (fun _ _ => rfl)
    intro s' q hr
    cases hb : burnRes s c inp with
    | error e => simp [hb] at hr
    | ok o => simp only [hb, Option.some.injEq, Prod.mk.injEq] at hr; rw [← hr.1]
  | addAuth c x =>
    left
    refine ⟨rfl, ?_⟩
    show (addAuthStep feeOn s c x).1.minted = _
    unfold addAuthStep
    apply settleCall_field (·.minted) (fun _ _ => rfl)
    intro s' q hr
    cases hm : addAuth s c.sender x with
    | error e => simp [hm] at hr
    | ok o => simp only [hm, Option.some.injEq, Prod.mk.injEq] at hr; rw [← hr.1]; exact addAuth_minted s c.sender x o hm
  | delAuth c x =>
    left
    refine ⟨rfl, ?_⟩
    show (delAuthStep feeOn s c x).1.minted = _
    unfold delAuthStep
    apply settleCall_field (·.minted) (fun _ _ => rfl)
    intro s' q hr
    cases hm : delAuth s c.sender x with
    | error e => simp [hm] at hr
    | ok o => simp only [hm, Option.some.injEq, Prod.mk.injEq] at hr; rw [← hr.1]; exact delAuth_minted s c.sender x o hm
  | updCfg c x =>
    left
    refine ⟨rfl, ?_⟩
    show (updCfgStep feeOn s c x).1.minted = _
    unfold updCfgStep
    apply settleCall_field (·.minted) (fun _ _ => rfl)
    intro s' q hr
    cases hm : updCfg s c.sender x with
    | error e => simp [hm] at hr
    | ok o => simp only [hm, Option.some.injEq, Prod.mk.injEq] at hr; rw [← hr.1]; exact updCfg_minted s c.sender x o hm
  | mint c p h pick =>
    by_cases hs : (mintStep strict feeOn s c p h pick).2 = .success
    · right
      obtain ⟨o, a', hm, _, _, hst⟩ := mintStep_success strict feeOn s c p h pick hs
      obtain ⟨q, hp, hfresh, hmint, _⟩ := mint_ok_minted strict s c.sender p h pick o hm
      subst hp
      refine ⟨q.nonce, ?_, hfresh, ?_⟩
      · have hs' : (stepOp strict feeOn s (.mint c (some q) h pick)).2 = .success := hs
        simp [mintedBy, hs']
      · show (mintStep strict feeOn s c (some q) h pick).1.minted = _
        rw [hst]; exact hmint
    · left
      constructor
      · cases p with
        | none => rfl
        | some q =>
          have hs' : ¬ (stepOp strict feeOn s (.mint c (some q) h pick)).2 = .success := hs
          simp [mintedBy, hs']
      · show (mintStep strict feeOn s c p h pick).1.minted = _
        unfold mintStep at hs ⊢
        obtain ⟨a', h'⟩ := settleCall_not_success feeOn s c _ hs
        rw [h']

/-- **nonce_once.** Over any history of bridge operations from any state: the nonces of the successful mints
are pairwise distinct, none of them had been minted before, and the stored set is exactly old ∪ minted. -/
theorem nonce_once (strict feeOn : Bool) (ops : List Op) : ∀ (s : ZSt),
    (mintLog strict feeOn s ops).Nodup ∧
    (∀ n ∈ mintLog strict feeOn s ops, n ∉ s.minted) ∧
    (∀ n, n ∈ (runOps strict feeOn s ops).minted ↔ n ∈ s.minted ∨ n ∈ mintLog strict feeOn s ops) := by
  induction ops with
  | nil => intro s; exact ⟨List.nodup_nil, by intro n hn; simp [mintLog] at hn, by intro n; simp [mintLog, runOps]⟩
  | cons op rest ih =>
    intro s
    obtain ⟨ih1, ih2, ih3⟩ := ih (stepOp strict feeOn s op).1
    rcases step_minted strict feeOn s op with ⟨h1, h2⟩ | ⟨n, h1, hfresh, h2⟩
    · simp only [mintLog, runOps, h1, List.nil_append]
      rw [h2] at ih2 ih3
      exact ⟨ih1, ih2, ih3⟩
    · simp only [mintLog, runOps, h1, List.singleton_append]
      rw [h2] at ih2 ih3
      refine ⟨List.nodup_cons.mpr ⟨?_, ih1⟩, ?_, ?_⟩
      · intro hn; exact ih2 n hn List.mem_cons_self
      · intro x hx
        rcases List.mem_cons.mp hx with e | e
        · rw [e]; exact hfresh
        · intro hxs; exact ih2 x e (List.mem_cons_of_mem _ hxs)
      · intro x
        rw [ih3 x]
        simp only [List.mem_cons]
        constructor
        · rintro ((h | h) | h)
          · exact Or.inr (Or.inl h)
          · exact Or.inl h
          · exact Or.inr (Or.inr h)
        · rintro (h | h | h)
          · exact Or.inl (Or.inr h)
          · exact Or.inl (Or.inl h)
          · exact Or.inr h

/-- a nonce that is in the set never mints again (single-step form). -/
theorem minted_nonce_refused (strict : Bool) (s : ZSt) (sender : Id) (p : MintIn) (h : Fr) (pick : Nat → Nat)
    (hin : p.nonce ∈ s.minted) : ∀ o, mint strict s sender (some p) h pick ≠ .ok o := by
  intro o hm
  obtain ⟨_, hfresh, _⟩ := mint_ok_common strict s sender p h pick o hm
  exact hfresh hin

/-! ## mint_amounts -/

/-- **mint_amounts_partial.** A successful mint transaction: the fee share is `MaxFee / #signatures` (≤ `MaxFee`,
≤ amount); the client receives `amount − share`, the bridge wallet pays exactly that; the stake pool of exactly one
authorizer — one whose id occurs in the payload — becomes `DistributeRewards(share)` of itself and no other pool
changes. (Missing for the full statement: that `DistributeRewards` credits the share — see the witness below.) -/
theorem mint_amounts_partial (strict feeOn : Bool) (s : ZSt) (c : Call) (p : MintIn) (h : Fr) (pick : Nat → Nat)
    (hs : (mintStep strict feeOn s c (some p) h pick).2 = .success) :
    ∃ o, mint strict s c.sender (some p) h pick = .ok o ∧
      o.sigs ≠ [] ∧ o.share = s.cfg.maxFee / o.sigs.length ∧ o.share ≤ s.cfg.maxFee ∧ o.paid + o.share = p.amount ∧
      (∀ i, (get (mintStep strict feeOn s c (some p) h pick).1.accts i).balance +
              ((if zcnSC = i then o.paid else 0) + (if i = c.sender then feeOf feeOn c.txn else 0)) =
            (get s.accts i).balance +
              ((if c.sender = i then o.paid else 0) + (if i = minerSC then feeOf feeOn c.txn else 0))) ∧
      (∃ sg ∈ p.sigs, sg.id = some o.rewarded) ∧
      (∃ ap sp' u, aGet s.pools o.rewarded = some ap ∧ StakePool.distributeRewards ap.sp o.share = .ok (sp', u) ∧
        aGet (mintStep strict feeOn s c (some p) h pick).1.pools o.rewarded = some { ap with sp := sp' }) ∧
      (∀ k, k ≠ o.rewarded → aGet (mintStep strict feeOn s c (some p) h pick).1.pools k = aGet s.pools k) := by
  obtain ⟨o, a', hm, _, hset, hst⟩ := mintStep_success strict feeOn s c (some p) h pick hs
  obtain ⟨thr, sigs, uniq, po, h1, _, _, h4, ho⟩ := mint_ok_stages strict s c.sender p h pick o hm
  obtain ⟨hne, hshare, hpaid, ⟨sg, hsg, hid⟩, ap, sp', u, hap, hdist, hpools⟩ := mintPay_ok s p.amount sigs pick po h4
  subst ho
  rw [hst]
  refine ⟨_, hm, hne, hshare, ?_, hpaid, ?_, ⟨sg, mintSigs_sub s p thr sigs h1 sg hsg, hid⟩, ⟨ap, sp', u, hap, hdist, ?_⟩, ?_⟩
  · show po.share ≤ s.cfg.maxFee
    rw [hshare]; exact Nat.div_le_self _ _
  · intro i
    exact (settle_single_get feeOn s.accts a' c.txn _ hset i).1
  · show aGet po.pools po.rewarded = _
    rw [hpools]; exact aGet_aSet_eq _ _ _
  · intro k hk
    show aGet po.pools k = _
    rw [hpools]; exact aGet_aSet_ne _ _ _ _ (Ne.symm hk)

/-- a freshly registered authorizer (no delegate has staked yet): stake 0 < minimum stake 50. -/
def wSfresh : ZSt := { wS with pools := [(0, wPool 0), (1, wPool 100), (2, wPool 100)] }

/-- **negation witness for "… minus the authorizer fee, which is credited to an authorizer".** An honest 2-of-3
mint whose seeded choice falls on authorizer 0, whose pool is below its minimum stake: the client is paid
5000 − 50, the share of 50 stays in the bridge wallet, and NO stake pool changes — the fee is credited to nobody
(`DistributeRewards` returns early: stakepool.go:569). -/
theorem mint_fee_not_credited_witness :
    (match mint true wSfresh 3 (some wHonest) wH (fun _ => 0) with
      | .ok o => o.paid == 4950 && o.share == 50 && o.rewarded == 0 &&
                 (o.st.pools.map fun q => (q.1, q.2.sp.reward, q.2.sp.pools)) == (wSfresh.pools.map fun q => (q.1, q.2.sp.reward, q.2.sp.pools))
      | .error _ => false) = true := by
  decide +kernel

/-- … whereas with a sufficiently staked pool the share is credited (here: to the single delegate). -/
example :
    (match mint true wS 3 (some wHonest) wH (fun _ => 0) with
      | .ok o => o.share == 50 && o.rewarded == 0 &&
                 ((o.st.pools.map fun q => (q.1, q.2.sp.reward, q.2.sp.pools)) == [(0, 0, [⟨100, 50⟩]), (1, 0, [⟨100, 0⟩]), (2, 0, [⟨100, 0⟩])])
      | .error _ => false) = true := by
  decide +kernel

-- non-vacuity of `mint_amounts_partial` and `nonce_once`: a successful mint transaction, then the same nonce again
example : (mintStep true true wS ⟨3, 0, 5, 1⟩ (some wHonest) wH (fun _ => 1)).2 = .success := by decide +kernel
example : mintLog true true wS [.mint ⟨3, 0, 5, 1⟩ (some wHonest) wH (fun _ => 1), .mint ⟨3, 0, 5, 2⟩ (some wHonest) wH (fun _ => 1),
    .mint ⟨3, 0, 5, 3⟩ (some { wHonest with nonce := 2 }) wH (fun _ => 1)] = [1, 2] := by decide +kernel

end ZChain.Zcn
