import ZChain.Proofs.ProviderLock
/-!
# C11 — Staking and unstaking return exactly what was locked

Property theorems about the stake-pool part of `Model/Provider.lean` (`lock`, `unlock`, `collect`, `payReward`, composed
with the engine step `exec`), tied to `smartcontract/stakepool` and its `storagesc` / `minersc` / `zcnsc` wrappers on
every run by `harness/cmd/c11`.

* `lock_moves_value` — a successful lock moves exactly `v` from the staker to the contract wallet and into the staker's
  delegate pool, with `MinStake ≤ v`, new pool balance `≤ MaxStake`, `#pools ≤ MaxNumDelegates` preserved;
* `unlock_returns_all` — a successful unlock pays the staker exactly pool balance + pool reward (+ the provider's service
  charge when the staker is the delegate wallet) from the contract wallet and removes the pool;
* `only_owner_unlocks` — no lock / unlock / collect by one client changes another client's delegate pool or balance, and
  a client without a pool cannot unlock;
* `others_preserve_stake`, `lock_unlock_roundtrip` — over ANY interleaving of other clients' lock / unlock / collect and
  of reward payments, a staker's pool balance stays what it locked, and unlocking returns it with the accrued rewards;
* `unlock_refunds_stake_any_status` — the refund does not depend on the delegate pool's status: a pool marked Deleted by
  zcnsc `DeleteAuthorizer` (which pays nothing back) is refunded in full by the staker's later unlock;
  `deleteAuthorizer_preserves_stake`; `delete-authorizer` is one of the interleaved operations of the round trip.
All five provider kinds are covered. (Until repo commit fc9e9de the property was false for authorizers: `zcnsc.StakePool`
inherited `stakepool.StakePool.Save`, the first lock rewrote the record in a layout `zcnsc` read back as empty, the stake
could never be unlocked; `zcnsc.StakePool.Save` now stores the layout `getStakePool` reads. The oracle of `harness/cmd/c11`
keeps the three signatures of that defect, so a regression is reported.)
`StakePoolUnlock` reads the wall clock (`time.Now()`, min lock period): the model takes it as the input `wall`; the clock
read itself is C06's subject.
-/
namespace ZChain.Provider
open ZChain ZChain.Coin

theorem flow_single {a a' : Ledger.Accts} {trs : List Ledger.Transfer} {sc client n : Nat}
    (h : Ledger.applyTransfers a trs = .ok a') (hp : PaysOnly trs sc client n) (hne : client ≠ sc) :
    (Ledger.get a' client).balance = (Ledger.get a client).balance + n ∧
    (Ledger.get a' sc).balance + n = (Ledger.get a sc).balance ∧
    ∀ j, j ≠ client → j ≠ sc → (Ledger.get a' j).balance = (Ledger.get a j).balance := by
  have hf := Ledger.applyTransfers_flow trs a a' h
  obtain ⟨h1, h2, h3, h4⟩ := hp
  refine ⟨?_, ?_, ?_⟩
  · have := hf client
    rw [h2, h3 client hne] at this
    omega
  · have := hf sc
    rw [h1, h4 sc (Ne.symm hne)] at this
    omega
  · intro j hj1 hj2
    have := hf j
    rw [h3 j hj2, h4 j hj1] at this
    omega

/-! ## lock_moves_value -/

/-- **lock_moves_value.** A successful `StakePoolLock` of `v` by `c` on provider `(k, pid)`:
the staker's balance drops by exactly `v`, the kind's contract wallet grows by exactly `v`, nobody else's balance moves;
the staker's delegate pool in the stored record holds its previous balance `+ v` (a new pool holds `v`), every other
delegate pool and the provider's reward are untouched; `0 < v`, `MinStake ≤ v`, the new pool balance is `≤ MaxStake`, and
the number of delegate pools stays within `MaxNumDelegates`. -/
theorem lock_moves_value (cfg : Cfg) (s : State) (k : Kind) (pid : Id) (t : Txn) (hc : t.client ≠ k.sc)
    (hok : (lockTxn cfg s k pid t).2 = .ok) :
    ∃ sp sp', loadSP s k pid = .ok sp ∧ kvGet (lockTxn cfg s k pid t).1.sps (k, pid) = some sp' ∧
      (Ledger.get (lockTxn cfg s k pid t).1.accts t.client).balance + t.value = (Ledger.get s.accts t.client).balance ∧
      (Ledger.get (lockTxn cfg s k pid t).1.accts k.sc).balance = (Ledger.get s.accts k.sc).balance + t.value ∧
      (∀ j, j ≠ t.client → j ≠ k.sc →
        (Ledger.get (lockTxn cfg s k pid t).1.accts j).balance = (Ledger.get s.accts j).balance) ∧
      (kvGet sp'.pools t.client).map (·.balance) = some (balanceOf (kvGet sp.pools t.client) + t.value) ∧
      (∀ j, j ≠ t.client → kvGet sp'.pools j = kvGet sp.pools j) ∧ sp'.reward = sp.reward ∧
      0 < t.value ∧ cfg.minStake k ≤ t.value ∧ balanceOf (kvGet sp.pools t.client) + t.value ≤ cfg.maxStake k ∧
      sp'.maxDelegates = sp.maxDelegates ∧ (sp.pools.length ≤ sp.maxDelegates → sp'.pools.length ≤ sp'.maxDelegates) := by
  unfold lockTxn at hok ⊢
  obtain ⟨s', trs, a, hr, ha, hst⟩ := exec_ok_inv hok
  obtain ⟨sp, f⟩ := lock_inv hr
  rw [hst]
  have hpay : PaysOnly trs t.client k.sc t.value := by rw [f.transfer]; exact paysOnly_single _ _ _
  -- `PaysOnly` is stated from the payer's side: here the staker pays the contract wallet
  have hflow := Ledger.applyTransfers_flow trs s.accts a ha
  obtain ⟨p1, p2, p3, p4⟩ := hpay
  refine ⟨sp, { sp with pools := kvSet sp.pools t.client (lockedDP (kvGet sp.pools t.client) t.value t.now) },
    f.load, ?_, ?_, ?_, ?_, ?_, ?_, rfl,
    f.pos, f.minOK, f.maxOK, rfl, ?_⟩
  · show kvGet s'.sps (k, pid) = _
    rw [f.state]; unfold putSP; simp only; exact kvGet_kvSet_eq _ _ _
  · show (Ledger.get (bumpNonce a t.client) t.client).balance + t.value = _
    rw [bumpNonce_bal]
    have := hflow t.client
    rw [p1, p4 t.client hc] at this
    omega
  · show (Ledger.get (bumpNonce a t.client) k.sc).balance = _
    rw [bumpNonce_bal]
    have := hflow k.sc
    rw [p2, p3 k.sc (Ne.symm hc)] at this
    omega
  · intro j hj1 hj2
    show (Ledger.get (bumpNonce a t.client) j).balance = _
    rw [bumpNonce_bal]
    have := hflow j
    rw [p3 j hj1, p4 j hj2] at this
    omega
  · simp only
    rw [kvGet_kvSet_eq]
    unfold lockedDP balanceOf
    cases kvGet sp.pools t.client <;> simp
  · intro j hj
    simp only
    exact kvGet_kvSet_ne _ _ _ _ hj
  · intro hle
    simp only
    rcases f.room with hlt | hsome
    · cases hq : kvGet sp.pools t.client with
      | none => rw [kvSet_length_of_none _ _ _ hq]; omega
      | some d => rw [kvSet_length_of_some _ _ _ d hq]; exact hle
    · cases hq : kvGet sp.pools t.client with
      | none => rw [hq] at hsome; cases hsome
      | some d => rw [kvSet_length_of_some _ _ _ d hq]; exact hle

/-! ## unlock_returns_all -/

/-- **unlock_returns_all.** A successful `StakePoolUnlock` by `c`: `c` owned a delegate pool `dp` in the record; it
receives exactly `dp.balance + dp.reward` plus the provider's accumulated service charge when it is the pool's delegate
wallet — all from the kind's contract wallet, nobody else's balance moves; its delegate pool is removed, every other
delegate pool is untouched, the provider's reward drops by the paid charge. -/
theorem unlock_returns_all (cfg : Cfg) (s : State) (k : Kind) (pid : Id) (t : Txn) (wall : Nat) (hc : t.client ≠ k.sc)
    (hok : (unlockTxn cfg s k pid t wall).2 = .ok) :
    ∃ sp dp sp', loadSP s k pid = .ok sp ∧ kvGet sp.pools t.client = some dp ∧
      kvGet (unlockTxn cfg s k pid t wall).1.sps (k, pid) = some sp' ∧
      (Ledger.get (unlockTxn cfg s k pid t wall).1.accts t.client).balance =
        (Ledger.get s.accts t.client).balance + (chargeOf sp t.client + dp.reward + dp.balance) ∧
      (Ledger.get (unlockTxn cfg s k pid t wall).1.accts k.sc).balance + (chargeOf sp t.client + dp.reward + dp.balance) =
        (Ledger.get s.accts k.sc).balance ∧
      (∀ j, j ≠ t.client → j ≠ k.sc →
        (Ledger.get (unlockTxn cfg s k pid t wall).1.accts j).balance = (Ledger.get s.accts j).balance) ∧
      kvGet sp'.pools t.client = none ∧ (∀ j, j ≠ t.client → kvGet sp'.pools j = kvGet sp.pools j) ∧
      sp'.reward = sp.reward - chargeOf sp t.client ∧
      (dp.stakedAt = 0 ∨ dp.stakedAt + cfg.minLock < wall) := by
  unfold unlockTxn at hok ⊢
  obtain ⟨s', trs, a, hr, ha, hst⟩ := exec_ok_inv hok
  obtain ⟨sp, dp, f⟩ := unlock_inv hr
  obtain ⟨sp2, hs2, g1, g2, g3, _⟩ := f.result
  rw [hst]
  obtain ⟨b1, b2, b3⟩ := flow_single ha f.pays hc
  refine ⟨sp, dp, sp2, f.load, f.pool, ?_, ?_, ?_, ?_,
    g1, g2, g3, f.time⟩
  · show kvGet s'.sps (k, pid) = _
    rw [hs2]; unfold putSP; simp only; exact kvGet_kvSet_eq _ _ _
  · show (Ledger.get (bumpNonce a t.client) t.client).balance = _
    rw [bumpNonce_bal]; exact b1
  · show (Ledger.get (bumpNonce a t.client) k.sc).balance + _ = _
    rw [bumpNonce_bal]; exact b2
  · intro j hj1 hj2
    show (Ledger.get (bumpNonce a t.client) j).balance = _
    rw [bumpNonce_bal]; exact b3 j hj1 hj2

/-- **unlock_refunds_stake_any_status**: in EVERY state — whatever the status of the delegate pool (Active, or marked
Deleted by a `delete-authorizer` in between) and whatever happened to the provider record — a successful unlock of a pool
holding balance `b` transfers exactly `b` (plus the minted reward, plus the service charge for the delegate wallet) to its
delegate, and the pool is gone afterwards. (`unlock_returns_all` quantifies over all states; this is its refund clause
with the status made explicit.) -/
theorem unlock_refunds_stake_any_status (cfg : Cfg) (s : State) (k : Kind) (pid : Id) (t : Txn) (wall : Nat)
    (hc : t.client ≠ k.sc) (sp : SP) (dp : DP) (hl : loadSP s k pid = .ok sp) (hd : kvGet sp.pools t.client = some dp)
    (hok : (unlockTxn cfg s k pid t wall).2 = .ok) :
    (Ledger.get (unlockTxn cfg s k pid t wall).1.accts t.client).balance =
      (Ledger.get s.accts t.client).balance + (chargeOf sp t.client + dp.reward + dp.balance) ∧
    ((kvGet (unlockTxn cfg s k pid t wall).1.sps (k, pid)).bind fun sp' => kvGet sp'.pools t.client) = none := by
  obtain ⟨sp0, dp0, sp', hl0, hd0, hs', hpay, _, _, hgone, _⟩ := unlock_returns_all cfg s k pid t wall hc hok
  rw [hl] at hl0
  injection hl0 with hl0
  subst hl0
  rw [hd] at hd0
  injection hd0 with hd0
  subst hd0
  exact ⟨hpay, by rw [hs']; exact hgone⟩

/-! ## only_owner_unlocks -/

theorem stakeOfClient_accts (s : State) (a : Ledger.Accts) (kk : Kind × Id) (c : Id) :
    stakeOfClient { s with accts := a } kk c = stakeOfClient s kk c := rfl

/-- the stake `(balance, stakedAt)` of client `c` in EVERY stored record is untouched by a lock of another client. -/
theorem lock_other_preserves (cfg : Cfg) (s : State) (k : Kind) (pid : Id) (t : Txn) (c : Id) (hc : t.client ≠ c)
    (kk : Kind × Id) :
    stakeOfClient (lockTxn cfg s k pid t).1 kk c = stakeOfClient s kk c := by
  unfold lockTxn
  by_cases hok : (exec s t.client (lock cfg s k pid t)).2 = .ok
  · obtain ⟨s', trs, a, hr, _, hst⟩ := exec_ok_inv hok
    obtain ⟨sp, f⟩ := lock_inv hr
    rw [hst, stakeOfClient_accts, f.state]
    refine (stakeOfClient_put s k pid sp _ kk c (loadSP_stored f.load) ?_).1
    simp only
    rw [kvGet_kvSet_ne _ _ _ _ (Ne.symm hc)]
  · rcases exec_not_ok hok with h | h <;> rw [h]
    rfl

theorem unlock_other_preserves (cfg : Cfg) (s : State) (k : Kind) (pid : Id) (t : Txn) (wall : Nat) (c : Id)
    (hc : t.client ≠ c) (kk : Kind × Id) :
    stakeOfClient (unlockTxn cfg s k pid t wall).1 kk c = stakeOfClient s kk c := by
  unfold unlockTxn
  by_cases hok : (exec s t.client (unlock cfg s k pid t wall)).2 = .ok
  · obtain ⟨s', trs, a, hr, _, hst⟩ := exec_ok_inv hok
    obtain ⟨sp, dp, f⟩ := unlock_inv hr
    obtain ⟨sp2, hs2, _, g2, _, _⟩ := f.result
    rw [hst, stakeOfClient_accts, hs2]
    refine (stakeOfClient_put s k pid sp _ kk c (loadSP_stored f.load) ?_).1
    rw [g2 c (Ne.symm hc)]
  · rcases exec_not_ok hok with h | h <;> rw [h]
    rfl

theorem collect_other_preserves (s : State) (k : Kind) (pid client : Id) (c : Id)
    (kk : Kind × Id) :
    stakeOfClient (collectTxn s k pid client).1 kk c = stakeOfClient s kk c := by
  unfold collectTxn
  by_cases hok : (exec s client (collect s k pid client)).2 = .ok
  · obtain ⟨s', trs, a, hr, _, hst⟩ := exec_ok_inv hok
    obtain ⟨sp, sp1, hl, hs1, g1, g2, _⟩ := collect_inv hr
    rw [hst, stakeOfClient_accts, hs1]
    refine (stakeOfClient_put s k pid sp _ kk c (loadSP_stored hl) ?_).2
    by_cases hcc : c = client
    · subst hcc; exact g2
    · rw [g1 c hcc]
  · rcases exec_not_ok hok with h | h <;> rw [h]
    rfl

/-- a reward payment never touches anybody's stake (only `reward` fields move). -/
theorem reward_preserves (s s' : State) (k : Kind) (pid : Id) (v : Nat) (c : Id)
    (kk : Kind × Id) (h : payReward s k pid v = .ok s') : stakeOfClient s' kk c = stakeOfClient s kk c := by
  unfold payReward at h
  cases hl : loadSP s k pid with
  | error e => rw [hl] at h; cases h
  | ok sp =>
    rw [hl] at h
    simp only at h
    have hst := loadSP_stored hl
    split at h
    · cases h
    · injection h with h; rw [← h]
      exact (stakeOfClient_put s k pid sp sp kk c hst rfl).2
    · injection h with h; rw [← h]
      refine (stakeOfClient_put s k pid sp _ kk c hst ?_).2
      simp only
      exact kvGet_writeRewards _ _ _

theorem kvGet_map_deleted (pools : List (Id × DP)) (c : Id) :
    (kvGet (pools.map fun q => (q.1, ({ q.2 with deleted := true } : DP))) c).map (fun d => (d.balance, d.stakedAt)) =
      (kvGet pools c).map (fun d => (d.balance, d.stakedAt)) := by
  rw [kvGet_map_val pools (fun _ d => ({ d with deleted := true } : DP)) c]
  cases kvGet pools c <;> rfl

/-- zcnsc `DeleteAuthorizer` (by anybody, successful or not) leaves every client's stake — balance and staking time — in
every stake-pool record as it was (it only sets the Deleted status), and moves no balance. -/
theorem deleteAuthorizer_preserves_stake (cfg : Cfg) (s : State) (r : Req) (c : Id) (kk : Kind × Id) :
    stakeOfClient (deleteAuthorizerTxn cfg s r).1 kk c = stakeOfClient s kk c ∧
    ∀ j, (Ledger.get (deleteAuthorizerTxn cfg s r).1.accts j).balance = (Ledger.get s.accts j).balance := by
  unfold deleteAuthorizerTxn
  cases hd : deleteAuthorizer cfg s r with
  | error e =>
    have : exec s r.caller (noTransfers (.error e)) = ({ s with accts := bumpNonce s.accts r.caller }, .fail e) := rfl
    rw [this]
    exact ⟨rfl, fun j => bumpNonce_bal _ _ _⟩
  | ok s' =>
    have : exec s r.caller (noTransfers (.ok s')) = ({ s' with accts := bumpNonce s.accts r.caller }, .ok) := rfl
    rw [this]
    refine ⟨?_, fun j => bumpNonce_bal _ _ _⟩
    rw [stakeOfClient_accts]
    unfold deleteAuthorizer at hd
    cases hp : kvGet s.provs r.reqId with
    | none => simp [hp] at hd
    | some p =>
      simp only [hp] at hd
      split at hd
      · cases hd
      · cases hs : getSP s .authorizer r.reqId with
        | none => simp [hs] at hd
        | some sp =>
          simp only [hs] at hd
          split at hd
          · cases hd
          · injection hd with hd
            rw [← hd]
            show stakeOfClient (putSP s .authorizer r.reqId _) kk c = _
            exact (stakeOfClient_put s .authorizer r.reqId sp _ kk c hs (kvGet_map_deleted sp.pools c)).1

/-- **only_owner_unlocks.** (a) A client that owns no delegate pool in the record cannot unlock: the call fails and moves
nothing. (b) An unlock by `c` leaves every OTHER client's stake in every record, and every other client's balance,
exactly as it was — whether it succeeds or not. -/
theorem only_owner_unlocks (cfg : Cfg) (s : State) (k : Kind) (pid : Id) (t : Txn) (wall : Nat)
    (hsc : t.client ≠ k.sc) :
    ((∀ sp, loadSP s k pid = .ok sp → kvGet sp.pools t.client = none) → (unlockTxn cfg s k pid t wall).2 ≠ .ok) ∧
    (∀ j, j ≠ t.client → ∀ kk, stakeOfClient (unlockTxn cfg s k pid t wall).1 kk j = stakeOfClient s kk j) ∧
    (∀ j, j ≠ t.client → j ≠ k.sc →
      (Ledger.get (unlockTxn cfg s k pid t wall).1.accts j).balance = (Ledger.get s.accts j).balance) := by
  refine ⟨?_, fun j hj kk => unlock_other_preserves cfg s k pid t wall j (Ne.symm hj) kk, ?_⟩
  · intro hnone hok
    obtain ⟨sp, dp, _, hl, hd, _⟩ := unlock_returns_all cfg s k pid t wall hsc hok
    rw [hnone sp hl] at hd
    cases hd
  · intro j hj1 hj2
    by_cases hok : (unlockTxn cfg s k pid t wall).2 = .ok
    · obtain ⟨_, _, _, _, _, _, _, _, h6, _⟩ := unlock_returns_all cfg s k pid t wall hsc hok
      exact h6 j hj1 hj2
    · unfold unlockTxn at hok ⊢
      rcases exec_not_ok hok with h | h <;> rw [h]
      exact bumpNonce_bal _ _ _

/-! ## lock_unlock_roundtrip -/

/-- what other clients (and the reward-paying contract paths) may do in between. -/
inductive Op where
  | lock (k : Kind) (pid : Id) (t : Txn)
  | unlock (k : Kind) (pid : Id) (t : Txn) (wall : Nat)
  | collect (k : Kind) (pid : Id) (client : Id)
  | reward (k : Kind) (pid : Id) (v : Nat)
  | delauth (r : Req)          -- zcnsc delete-authorizer, by anybody (also by `c` itself)

def Op.actor : Op → Option Id
  | .lock _ _ t => some t.client
  | .unlock _ _ t _ => some t.client
  | .collect _ _ c => some c
  | .reward _ _ _ => none
  | .delauth _ => none

def Op.kind : Op → Kind
  | .lock k _ _ => k | .unlock k _ _ _ => k | .collect k _ _ => k | .reward k _ _ => k | .delauth _ => .authorizer

def step (cfg : Cfg) (s : State) : Op → State
  | .lock k pid t => (lockTxn cfg s k pid t).1
  | .unlock k pid t wall => (unlockTxn cfg s k pid t wall).1
  | .collect k pid c => (collectTxn s k pid c).1
  | .reward k pid v => match payReward s k pid v with
    | .ok s' => s'
    | .error _ => s
  | .delauth r => (deleteAuthorizerTxn cfg s r).1

def run (cfg : Cfg) (s : State) (ops : List Op) : State := ops.foldl (step cfg) s

/-- one step of somebody else (or a reward payment) leaves `c`'s stake in every record as it was. -/
theorem step_preserves (cfg : Cfg) (s : State) (op : Op) (c : Id) (ha : op.actor ≠ some c)
    (kk : Kind × Id) : stakeOfClient (step cfg s op) kk c = stakeOfClient s kk c := by
  cases op with
  | lock k pid t => exact lock_other_preserves cfg s k pid t c (fun h => ha (by simp [Op.actor, h])) kk
  | unlock k pid t wall => exact unlock_other_preserves cfg s k pid t wall c (fun h => ha (by simp [Op.actor, h])) kk
  | collect k pid cl => exact collect_other_preserves s k pid cl c kk
  | reward k pid v =>
    cases h : payReward s k pid v with
    | error e => simp only [step, h]
    | ok s' => simp only [step, h]; exact reward_preserves s s' k pid v c kk h
  | delauth r => exact (deleteAuthorizer_preserves_stake cfg s r c kk).1

/-- **others_preserve_stake**: over ANY interleaving of other clients' lock / unlock / collect operations, of reward
payments (on providers of all five kinds) and of `delete-authorizer` calls by anybody, `c`'s stake — balance and staking time — in every stake-pool
record is unchanged, and no delegate pool of `c` appears or disappears. (`collect` by `c` itself is allowed: it only
zeroes rewards.) -/
theorem others_preserve_stake (cfg : Cfg) (c : Id) (kk : Kind × Id) : ∀ (ops : List Op) (s : State),
    (∀ op ∈ ops, op.actor ≠ some c ∨ ∃ k pid, op = .collect k pid c) →
    stakeOfClient (run cfg s ops) kk c = stakeOfClient s kk c := by
  intro ops
  induction ops with
  | nil => intro s _; rfl
  | cons op rest ih =>
    intro s h
    have hop := h op (List.mem_cons_self ..)
    show stakeOfClient (run cfg (step cfg s op) rest) kk c = _
    rw [ih (step cfg s op) (fun o ho => h o (List.mem_cons_of_mem _ ho))]
    rcases hop with ha | ⟨k, pid, rfl⟩
    · exact step_preserves cfg s op c ha kk
    · exact collect_other_preserves s k pid c c kk

/-- **lock_unlock_roundtrip.** `c` locks `v` into a fresh delegate pool of provider `(k, pid)`; then ANY sequence of other
clients' locks / unlocks / collects (on any provider of any kind), reward payments, `delete-authorizer` calls (which
mark the pools Deleted without paying anything back) and `c`'s own collects; then `c` unlocks successfully. The pool it empties still holds exactly `v`, and `c` receives exactly `v` plus the reward then
accrued in its pool (plus the provider's service charge if `c` is the delegate wallet). Slashing (kill / shut-down, C23)
is the only other writer of a pool balance and is not part of `ops`. -/
theorem lock_unlock_roundtrip (cfg : Cfg) (s : State) (k : Kind) (pid : Id) (t t' : Txn) (wall : Nat) (ops : List Op)
    (hsc : t.client ≠ k.sc) (hc : t'.client = t.client)
    (hfresh : ∀ sp, loadSP s k pid = .ok sp → kvGet sp.pools t.client = none)
    (hlock : (lockTxn cfg s k pid t).2 = .ok)
    (hothers : ∀ op ∈ ops, op.actor ≠ some t.client ∨ ∃ k' pid', op = .collect k' pid' t.client)
    (hunlock : (unlockTxn cfg (run cfg (lockTxn cfg s k pid t).1 ops) k pid t' wall).2 = .ok) :
    ∃ sp dp, loadSP (run cfg (lockTxn cfg s k pid t).1 ops) k pid = .ok sp ∧ kvGet sp.pools t.client = some dp ∧
      dp.balance = t.value ∧
      (Ledger.get (unlockTxn cfg (run cfg (lockTxn cfg s k pid t).1 ops) k pid t' wall).1.accts t.client).balance =
        (Ledger.get (run cfg (lockTxn cfg s k pid t).1 ops).accts t.client).balance +
          (chargeOf sp t.client + dp.reward + t.value) := by
  have hsc' : t'.client ≠ k.sc := by rw [hc]; exact hsc
  obtain ⟨sp, dp, _, hl, hd, _, hpay, _⟩ := unlock_returns_all cfg _ k pid t' wall hsc' hunlock
  rw [hc] at hd hpay
  -- the stake of `c` in the record, after the lock
  obtain ⟨sp0, sp1, hl0, hs1, _, _, _, hb, _⟩ := lock_moves_value cfg s k pid t hsc hlock
  have hb0 : balanceOf (kvGet sp0.pools t.client) = 0 := by rw [hfresh sp0 hl0]; rfl
  have h1 : (stakeOfClient (lockTxn cfg s k pid t).1 (k, pid) t.client).map (·.1) = some t.value := by
    unfold stakeOfClient
    rw [hs1]
    simp only [Option.bind_some, Option.map_map]
    have : (kvGet sp1.pools t.client).map (·.balance) = some t.value := by rw [hb, hb0]; simp
    cases hq : kvGet sp1.pools t.client with
    | none => rw [hq] at this; cases this
    | some d => rw [hq] at this; simpa using this
  have h2 := others_preserve_stake cfg t.client (k, pid) ops (lockTxn cfg s k pid t).1 hothers
  have h3 : (stakeOfClient (run cfg (lockTxn cfg s k pid t).1 ops) (k, pid) t.client).map (·.1) = some dp.balance := by
    unfold stakeOfClient
    rw [loadSP_stored hl]
    simp [hd]
  rw [h2, h1] at h3
  injection h3 with h3
  refine ⟨sp, dp, hl, hd, h3.symm, ?_⟩
  rw [hpay, ← h3]

/-! ## non-vacuity -/

def tenthR : F64 := F64.ofBits 0x3fb999999999999a     -- 0.1

def cfgL : Cfg :=
  { owner := 3, killSlash := F64.ofBits 0x3fe0000000000000, demeter := true, minStake := fun _ => 0,
    maxStake := fun _ => 200000000000000, minLock := 3600, spMinStake := fun _ => 10000000000 }

def spEmpty (wallet : Id) : SP :=
  { pools := [], reward := 0, wallet := some wallet, maxDelegates := 5, minStake := 10000000000, ratio := tenthR,
    dead := false, offers := 0 }

/-- authorizer 40 (wallet 60) and blobber 30 (wallet 50), freshly registered; clients 41, 42 hold 10 tokens each. -/
def sL : State :=
  { accts := [(41, ⟨100000000000, 0⟩), (42, ⟨100000000000, 0⟩), (1, ⟨1000000, 0⟩), (2, ⟨1000000, 0⟩)],
    provs := [(40, ⟨.authorizer, false, false, false⟩), (30, ⟨.blobber, false, false, false⟩)],
    sps := [((.authorizer, 40), spEmpty 60), ((.blobber, 30), spEmpty 50)],
    vpart := [], order := [41, 42, 50, 60] }

/-- authorizers behave like every other kind (the defect repaired by fc9e9de made each conjunct false: the unlock was
refused with "no such delegate pool", the second lock with "max_delegates reached", and a reward erased the stake):
client 41 locks 5 tokens on authorizer 40, 42 locks too, a reward is paid, 41 unlocks and has its 5 tokens back plus
its share (450 of 900 after the 10 % service charge). -/
example :
    (lockTxn cfgL sL .authorizer 40 ⟨41, 50000000000, 1700000000⟩).2 = .ok ∧
    (lockTxn cfgL (lockTxn cfgL sL .authorizer 40 ⟨41, 50000000000, 1700000000⟩).1 .authorizer 40
      ⟨42, 50000000000, 1700000000⟩).2 = .ok ∧
    (Ledger.get (unlockTxn cfgL (run cfgL (lockTxn cfgL sL .authorizer 40 ⟨41, 50000000000, 1700000000⟩).1
      [.lock .authorizer 40 ⟨42, 50000000000, 1700000000⟩, .reward .authorizer 40 1000]) .authorizer 40 ⟨41, 0, 0⟩
      2000000000).1.accts 41).balance = 100000000450 := by
  decide +kernel

/-- the seeded sequence: lock 5 tokens on authorizer 40, a reward, `delete-authorizer` by the owner (the pool is now
Deleted, nothing was paid), then the staker's unlock: it succeeds and returns the 5 tokens plus the reward share (900);
a further lock into the Deleted pool is refused before that. -/
example :
    (deleteAuthorizerTxn cfgL (run cfgL (lockTxn cfgL sL .authorizer 40 ⟨41, 50000000000, 1700000000⟩).1
      [.reward .authorizer 40 1000]) ⟨3, 40⟩).2 = .ok ∧
    (lockTxn cfgL (run cfgL (lockTxn cfgL sL .authorizer 40 ⟨41, 50000000000, 1700000000⟩).1
      [.reward .authorizer 40 1000, .delauth ⟨3, 40⟩]) .authorizer 40 ⟨41, 10000000000, 1700000000⟩).2 = .fail .lockDeleted ∧
    (unlockTxn cfgL (run cfgL (lockTxn cfgL sL .authorizer 40 ⟨41, 50000000000, 1700000000⟩).1
      [.reward .authorizer 40 1000, .delauth ⟨3, 40⟩]) .authorizer 40 ⟨41, 0, 0⟩ 2000000000).2 = .ok ∧
    (Ledger.get (unlockTxn cfgL (run cfgL (lockTxn cfgL sL .authorizer 40 ⟨41, 50000000000, 1700000000⟩).1
      [.reward .authorizer 40 1000, .delauth ⟨3, 40⟩]) .authorizer 40 ⟨41, 0, 0⟩ 2000000000).1.accts 41).balance
      = 100000000900 := by
  decide +kernel

-- the hypotheses of the four theorems are met by concrete runs on a blobber
example : (lockTxn cfgL sL .blobber 30 ⟨41, 50000000000, 1700000000⟩).2 = .ok := by decide +kernel
example : (unlockTxn cfgL (run cfgL (lockTxn cfgL sL .blobber 30 ⟨41, 50000000000, 1700000000⟩).1
      [.lock .blobber 30 ⟨42, 70000000000, 1700000000⟩, .reward .blobber 30 1000000, .collect .blobber 30 42,
       .unlock .blobber 30 ⟨42, 0, 0⟩ 2000000000]) .blobber 30 ⟨41, 0, 0⟩ 2000000000).2 = .ok := by
  decide +kernel
/-- the whole round trip of that run: 41 ends with its 10 tokens plus its share of the reward (375 000 of 900 000). -/
example : (Ledger.get (unlockTxn cfgL (run cfgL (lockTxn cfgL sL .blobber 30 ⟨41, 50000000000, 1700000000⟩).1
      [.lock .blobber 30 ⟨42, 70000000000, 1700000000⟩, .reward .blobber 30 1000000, .collect .blobber 30 42,
       .unlock .blobber 30 ⟨42, 0, 0⟩ 2000000000]) .blobber 30 ⟨41, 0, 0⟩ 2000000000).1.accts 41).balance
    = 100000375000 := by
  decide +kernel
/-- too early: staked at 1 700 000 000 with a min lock period of 3600 s, the clock reads 1 700 003 000. -/
example : (unlockTxn cfgL (lockTxn cfgL sL .blobber 30 ⟨41, 50000000000, 1700000000⟩).1 .blobber 30 ⟨41, 0, 0⟩
    1700003000).2 = .fail .tooEarly := by decide +kernel

end ZChain.Provider
