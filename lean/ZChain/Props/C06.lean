import ZChain.Proofs.Det
import ZChain.Generated.C06
import ZChain.Props.C48
/-!
# C06 — Block execution is deterministic

In Lean every definition is a function, so the determinism of a *model* is not the claim. The claim is split into what
can vary between two executions of the same block by the Go code:

**(a) map iteration order.** `Generated/C06.lean` (translator `harness/cmd/xc06`, go/packages + go/types, regenerated
on every run) lists every `range` over a map in a function reachable from `smartcontract.ExecuteSmartContract`,
`Block.ComputeState`, `Chain.updateState` (call graph by class-hierarchy analysis; serialization callbacks included),
with the *shape* of its body. For the shapes S1–S3 the order-independence is proved once (`Proofs/Det.lean`, restated
below); every S4 site must be in the hand-written table `modelledS4` with its own theorem or recorded negation —
`all_s4_sites_accounted` is decided over the generated table, so a **new** S4 site (or one more in a listed function)
breaks the build. The generated msgp marshalling code of the 0chain fork sorts map keys (`keys_za…`, `msgp.Sort…`) before
writing: those sites classify as S3, the `Msgsize` loops as S2, the unmarshalling loops as S1.

**(b) clock, randomness.** Every `time.Now/Since`, timer and package-level `math/rand` call in the same functions is
in `others`; `clock_reads_accounted` pins the list to the hand-checked set (logging / metrics only) plus the one
result-affecting read (`StakePoolUnlock`, a finding) and the contract-execution timeout.

**(c) scheduling.** `getItems_order_independent`: `state.GetItemsByIDs` re-indexes what its goroutines deliver.

The tie to the real code for (b), (c) and for cache warmth is the multi-process replay harness `harness/cmd/c06`.
-/
namespace ZChain.Det

open ZChain.Gov

/-! ## shape lemmas (S1–S3) -/

/-- **S1** `for k, v := range src { dst[k] = g(k, v) }` -/
theorem shape_s1_keyed_writes {κ σ ν : Type} [DecidableEq κ] (g : κ → σ → ν) {o₁ o₂ : List (κ × σ)} (hp : o₁.Perm o₂)
    (hkeys : o₁.Pairwise (fun a b => a.1 ≠ b.1)) (dst : GMap κ ν) :
    o₁.foldl (fun m e => m.set e.1 (g e.1 e.2)) dst = o₂.foldl (fun m e => m.set e.1 (g e.1 e.2)) dst :=
  s1_keyed_writes g hp hkeys dst

/-- **S1** `for k := range src { delete(dst, k) }` -/
theorem shape_s1_deletes {κ ν : Type} [DecidableEq κ] {o₁ o₂ : List κ} (hp : o₁.Perm o₂) (dst : GMap κ ν) :
    o₁.foldl (fun m k => m.del k) dst = o₂.foldl (fun m k => m.del k) dst := s1_deletes hp dst

/-- **S1** `for _, v := range src { set[e(v)] = struct{}{} }` -/
theorem shape_s1_set_build {α κ : Type} [DecidableEq κ] (e : α → κ) {o₁ o₂ : List α} (hp : o₁.Perm o₂) (s : GMap κ Unit) :
    o₁.foldl (fun m x => m.set (e x) ()) s = o₂.foldl (fun m x => m.set (e x) ()) s := s1_set_build e hp s

/-- **S2** any accumulation whose step is right-commutative; the instances the translator accepts are
`s2_nat_add`, `s2_int_add`, `s2_wrapping_add`, `s2_or`, `s2_and`, `s2_max`, `s2_min`, `s2_checked_add`, `s2_exists`. -/
theorem shape_s2_fold {α β : Type} (f : β → α → β) (hcomm : ∀ b x y, f (f b x) y = f (f b y) x)
    {o₁ o₂ : List α} (hp : o₁.Perm o₂) (b : β) : o₁.foldl f b = o₂.foldl f b := fold_perm_invariant f hcomm hp b

/-- **S3** collect, then sort with a total order (`sort.Strings`, `sort.Slice`, msgp's `keys_za…` sort) -/
theorem shape_s3_sort {α : Type} (le : α → α → Bool) (htrans : ∀ a b c, le a b = true → le b c = true → le a c = true)
    (htotal : ∀ a b, (le a b || le b a) = true) (hanti : ∀ a b, le a b = true → le b a = true → a = b)
    {o₁ o₂ : List α} (hp : o₁.Perm o₂) : o₁.mergeSort le = o₂.mergeSort le := s3_sort_of_perm le htrans htotal hanti hp

/-! ## S4 sites, one by one -/

inductive Verdict where
  | independent              -- the result does not depend on the enumeration (own theorem)
  | errorChoice              -- error-first loop: fails or not independently of the order; *which* error is order-dependent
  | listOrder                -- the produced list is order-dependent, the multiset is not
  | stateChoice              -- the stored state depends on the enumeration (negation witness)
  | callersNormalise         -- returns a slice in map order; every reachable caller sorts it or builds a set from it
  | notExecution             -- reached only by the over-approximation of the call graph; not part of block execution
deriving DecidableEq, Repr

structure S4Entry where
  key : List Nat       -- bytes of "<file>:<function>"
  count : Nat          -- S4 loops in that function
  verdict : Verdict
  thms : List String   -- theorems / witnesses covering it

/-- The hand-written table of individually treated S4 sites. -/
def modelledS4 : List S4Entry := [
  -- governance update loops: fully modelled in Model/Governance.lean, tied by the C48 correspondence
  ⟨str% "smartcontract/minersc/settings.go:update", 1, .errorChoice, ["site_minersc_settings_update", "ZChain.Gov.order_independent_result_partial"]⟩,
  ⟨str% "smartcontract/minersc/globals.go:update", 1, .errorChoice, ["site_minersc_globals_update"]⟩,
  ⟨str% "smartcontract/storagesc/config_settigns.go:update", 1, .stateChoice, ["site_storagesc_config_update", "ZChain.Gov.order_dependent_state_alias_witness"]⟩,
  ⟨str% "smartcontract/faucetsc/models.go:updateConfig", 1, .stateChoice, ["site_faucetsc_updateConfig", "ZChain.Gov.order_dependent_early_return_witness"]⟩,
  ⟨str% "smartcontract/vestingsc/config.go:update", 1, .stateChoice, ["site_vestingsc_update"]⟩,
  ⟨str% "smartcontract/zcnsc/nodes.go:UpdateConfig", 1, .errorChoice, ["site_zcnsc_UpdateConfig", "ZChain.Gov.order_independent_result_partial"]⟩,
  -- the engine
  ⟨str% "chaincore/chain/state.go:updateState", 1, .listOrder, ["site_updateState_user_events_multiset", "site_updateState_user_events_order_dependent"]⟩,
  -- storage
  ⟨str% "smartcontract/storagesc/models.go:removeExpiredChallenges", 1, .independent, ["site_removeExpiredChallenges"]⟩,
  -- miner contract, view change / DKG
  ⟨str% "smartcontract/minersc/globals.go:getStringMapFromViper", 1, .independent, ["site_getStringMapFromViper"]⟩,
  ⟨str% "smartcontract/minersc/models.go:reduce", 1, .independent, ["C39: ZChain.Props.C39 (selection is by (stake, id) order)"]⟩,
  ⟨str% "smartcontract/minersc/models.go:simpleNodesKeys", 1, .listOrder, ["site_simpleNodesKeys"]⟩,
  ⟨str% "smartcontract/minersc/dkg.go:createMagicBlock", 1, .listOrder, ["site_createMagicBlock_events", "site_createMagicBlock_pool"]⟩,
  ⟨str% "chaincore/block/sos.go:Validate", 1, .errorChoice, ["site_sos_Validate"]⟩,
  -- node pool
  ⟨str% "chaincore/node/node_pool.go:Keys", 1, .callersNormalise, ["site_pool_Keys"]⟩,
  ⟨str% "chaincore/node/node_pool.go:Clone", 1, .independent, ["site_pool_Clone"]⟩,
  ⟨str% "chaincore/node/node_pool.go:UnmarshalJSON", 1, .errorChoice, ["site_pool_Unmarshal"]⟩,
  ⟨str% "chaincore/node/node_pool.go:UnmarshalMsg", 1, .errorChoice, ["site_pool_Unmarshal"]⟩,
  ⟨str% "chaincore/node/node_pool.go:ShuffleNodes", 1, .notExecution, ["networking only: n2n send/request, block fetcher"]⟩,
  -- collect-then-sort loops that are NOT shape S3 (S3 = the map keys themselves are collected and sorted by themselves):
  -- sorted by a measured send time, ties in map order — networking only
  ⟨str% "chaincore/node/node_pool.go:GetNodesByLargeMessageTime", 1, .notExecution, ["networking only: block / message dissemination order"]⟩,
  -- collects the delegate pools (values) and sorts them by DelegateID, which is the key they are stored under: a total order
  ⟨str% "smartcontract/stakepool/stakepool.go:getRandPools", 1, .independent, ["site_getRandPools"]⟩
]

/-- **every S4 site is individually treated**: a new `range` over a map with an unrecognised body shape in reachable code —
or a second one in a listed function — makes this false. -/
theorem all_s4_sites_accounted :
    (Generated.C06.sites.filter (fun s => s.shape == .s4)).all (fun s => modelledS4.any (fun m => m.key == s.key)) = true ∧
    modelledS4.all (fun m => (Generated.C06.sites.filter (fun s => s.shape == .s4 && s.key == m.key)).length == m.count) = true := by
  decide +kernel

/-- the classified sites: how many of each shape (for the record; not a pin) -/
def shapeCounts : Nat × Nat × Nat × Nat :=
  let c (sh : Shape) := (Generated.C06.sites.filter (fun s => s.shape == sh)).length
  (c .s1, c .s2, c .s3, c .s4)

/-! ### governance loops (model: `Model/Governance.lean`) -/

/-- minersc `GlobalNode.update`: the reported error — hence the transaction output — depends on the enumeration
(finding `C06:error-output:gov-miner`); result and state are order-independent under the hypotheses of
`ZChain.Gov.order_independent_result_partial`. -/
theorem site_minersc_settings_update :
    (update Parsers.go .miner true id (str% "aa") (some twoBad) minerCfg0).1 ≠
    (update Parsers.go .miner true List.reverse (str% "aa") (some twoBad) minerCfg0).1 := by decide +kernel

def globals0 : Globals := ⟨0, [(str% "server_chain.block.max_block_size", str% "1")]⟩
def twoBadGlobals : SMap Str := [(str% "nope1", str% "1"), (str% "server_chain.owner", str% "x")]

/-- minersc `GlobalSettings.update` (finding `C06:error-output:gov-globals`) -/
theorem site_minersc_globals_update :
    (updateGlobals Parsers.go id (str% "aa") (some twoBadGlobals) minerCfg0 globals0).1 = .key (str% "nope1") .unknown ∧
    (updateGlobals Parsers.go List.reverse (str% "aa") (some twoBadGlobals) minerCfg0 globals0).1 = .key (str% "server_chain.owner") .immutable := by
  decide +kernel

def twoBadStorage : SMap Str := [(str% "time_unit", str% "1.2.3"), (str% "zzz", str% "3")]

/-- storagesc `Config.update`: error choice (finding `C06:error-output:gov-storage`) and, with keys that differ only by
surrounding white space, state choice (`ZChain.Gov.order_dependent_state_alias_witness`, findings `C06:state:gov-storage-alias`,
`C06:state:commit`). -/
theorem site_storagesc_config_update :
    (storageUpdate Parsers.go true false id (str% "aa") (some twoBadStorage) storage0).1 = .key (str% "zzz") .unknown ∧
    (storageUpdate Parsers.go true false List.reverse (str% "aa") (some twoBadStorage) storage0).1 = .key (str% "time_unit") .unparsable := by
  decide +kernel

def twoBadFaucet : SMap Str := [(str% "pour_amount", str% "x"), (str% "max_pour_amount", str% "y")]

/-- faucetsc `updateConfig`: error choice (finding `C06:error-output:gov-faucet`); early loop exit on a cost key
(`ZChain.Gov.order_dependent_early_return_witness`, findings `C06:state:gov-faucet-early-return`, `C06:status:gov-faucet`) -/
theorem site_faucetsc_updateConfig :
    (update Parsers.go .faucet true id (str% "aa") (some twoBadFaucet) faucetCfg0).1 = .key (str% "pour_amount") .unparsable ∧
    (update Parsers.go .faucet true List.reverse (str% "aa") (some twoBadFaucet) faucetCfg0).1 = .key (str% "max_pour_amount") .unparsable := by
  decide +kernel

def costAndMoreVesting : SMap Str := [(str% "cost.add", str% "5"), (str% "max_destinations", str% "7")]

/-- vestingsc `config.update`: the loop ends on the first (accepted) cost key, so whether `max_destinations` is stored depends
on the enumeration (findings `C06:state:gov-vesting-early-return`, `C06:state:gov-vesting-alias`, `C06:error-output:gov-vesting`) -/
theorem site_vestingsc_update :
    ((update Parsers.go .vesting false id (str% "aa") (some costAndMoreVesting) vestingCfg0).2.int (str% "max_destinations") = 3) ∧
    ((update Parsers.go .vesting false List.reverse (str% "aa") (some costAndMoreVesting) vestingCfg0).2.int (str% "max_destinations") = 7) := by
  decide +kernel

def zcnCfg0 : Cfg := ⟨[(str% "owner_id", .str (str% "aa")), (str% "min_stake", .int 1), (str% "max_stake", .int 100), (str% "min_mint", .int 1),
  (str% "max_fee", .int 100), (str% "min_authorizers", .int 1), (str% "min_burn", .int 1), (str% "percent_authorizers", .dec ⟨false, 7, 1⟩),
  (str% "max_delegates", .int 10), (str% "health_check_period", .int 5400000000000)], []⟩
def twoBadZcn : SMap Str := [(str% "min_burn", str% "x"), (str% "nope", str% "0.5")]

/-- zcnsc `GlobalNode.UpdateConfig` (finding `C06:error-output:gov-zcn`) -/
theorem site_zcnsc_UpdateConfig :
    (update Parsers.go .zcn true id (str% "aa") (some twoBadZcn) zcnCfg0).1 = .key (str% "min_burn") .unparsable ∧
    (update Parsers.go .zcn true List.reverse (str% "aa") (some twoBadZcn) zcnCfg0).1 = .key (str% "nope") .unknown := by
  decide +kernel

/-! ### `Chain.updateState`: `for _, e := range ue { c.emitUserEvent(sctx, e) }` -/

/-- the user events of a transaction (sender, receivers, fee receiver) are emitted in map order: the same events in every
execution … -/
theorem site_updateState_user_events_multiset {α β : Type} (mk : α → β) {o₁ o₂ : List α} (hp : o₁.Perm o₂) :
    (emitAll mk o₁).Perm (emitAll mk o₂) := emitAll_perm mk hp

/-- … but not the same *list* (finding `C06:events-order:user-events`, reproduced with an event database configured) -/
theorem site_updateState_user_events_order_dependent :
    [1, 2].Perm [2, 1] ∧ emitAll (fun u : Nat => u) [1, 2] ≠ emitAll (fun u : Nat => u) [2, 1] := by
  exact ⟨List.Perm.swap 2 1 [], by decide⟩

/-! ### storagesc `removeExpiredChallenges`: collect the expired ids in map order, delete the node of each -/

/-- the set of deleted trie keys — hence the resulting state — does not depend on the order (the change *count* of the
MPT's change collector is outside this model; the replay harness compares it). -/
theorem site_removeExpiredChallenges {κ ν : Type} [DecidableEq κ] {o₁ o₂ : List κ} (hp : o₁.Perm o₂) (trie : GMap κ ν) :
    o₁.foldl (fun m k => m.del k) trie = o₂.foldl (fun m k => m.del k) trie := s1_deletes hp trie

/-! ### minersc -/

/-- `getStringMapFromViper`: `globals[key] = f(key)` for every key of a map: keyed writes whose value is a function of the key -/
theorem site_getStringMapFromViper {κ ν : Type} [DecidableEq κ] (f : κ → ν) {o₁ o₂ : List (κ × Unit)} (hp : o₁.Perm o₂)
    (hkeys : o₁.Pairwise (fun a b => a.1 ≠ b.1)) (dst : GMap κ ν) :
    o₁.foldl (fun m e => m.set e.1 (f e.1)) dst = o₂.foldl (fun m e => m.set e.1 (f e.1)) dst :=
  s1_keyed_writes (fun k _ => f k) hp hkeys dst

/-- `simpleNodesKeys` returns the keys in map order; its only caller puts them into an error message
(`reduceNodes`: "too few miners: %d, %v"), which becomes the transaction output: same multiset, order-dependent text.
Not replayed (needs a DKG with too few miners). -/
theorem site_simpleNodesKeys {α β : Type} (mk : α → β) {o₁ o₂ : List α} (hp : o₁.Perm o₂) :
    (emitAll mk o₁).Perm (emitAll mk o₂) := emitAll_perm mk hp

/-- `createMagicBlock`: per DKG miner, `magicBlock.Miners.AddNode(n)` and `emitAddMiner`: the emitted events are the same
multiset in every enumeration (list order: with an event database only) … -/
theorem site_createMagicBlock_events {α β : Type} (mk : α → β) {o₁ o₂ : List α} (hp : o₁.Perm o₂) :
    (emitAll mk o₁).Perm (emitAll mk o₂) := emitAll_perm mk hp

/-- … and the node map of the pool is a keyed write (`NodesMap[n.ID] = n`); the pool is marshalled from that map with sorted
keys (node_pool_gen.go, S3). The `Nodes` slice, filled in map order, is not marshalled. Not replayed (view change). -/
theorem site_createMagicBlock_pool {κ σ ν : Type} [DecidableEq κ] (g : κ → σ → ν) {o₁ o₂ : List (κ × σ)} (hp : o₁.Perm o₂)
    (hkeys : o₁.Pairwise (fun a b => a.1 ≠ b.1)) (dst : GMap κ ν) :
    o₁.foldl (fun m e => m.set e.1 (g e.1 e.2)) dst = o₂.foldl (fun m e => m.set e.1 (g e.1 e.2)) dst :=
  s1_keyed_writes g hp hkeys dst

/-- `ShareOrSigns.Validate` (and `bls.DKG` verification): an error-first loop: accepted or not independently of the
enumeration; with one offending share the same answer. (It returns `(nil, false)` without a message, so no error text depends
on the order.) -/
theorem site_sos_Validate {α ε : Type} (check : α → Option ε) {o₁ o₂ : List α} (hp : o₁.Perm o₂) :
    (firstError check o₁).isSome = (firstError check o₂).isSome := firstError_isSome_perm check hp

/-- stakepool `getRandPools`: the pools are collected in map order and sorted by `DelegateID`; every pool is stored under its
delegate id (`sp.Pools[dp.DelegateID]`), so the sort key is injective on the collected pools and the sorted slice is unique.
(A sort by a non-injective key — e.g. by balance — keeps map order among ties: the translator classifies such a loop S4.) -/
theorem site_getRandPools {α : Type} (key : α → Nat) (hinj : ∀ a b, key a = key b → a = b) {o₁ o₂ : List α} (hp : o₁.Perm o₂) :
    o₁.mergeSort (fun a b => decide (key a ≤ key b)) = o₂.mergeSort (fun a b => decide (key a ≤ key b)) :=
  s3_sort_of_perm _ (fun a b c h₁ h₂ => by simp only [decide_eq_true_eq] at *; omega)
    (fun a b => by simp only [Bool.or_eq_true, decide_eq_true_eq]; omega)
    (fun a b h₁ h₂ => hinj a b (by simp only [decide_eq_true_eq] at *; omega)) hp

/-! ### node pool -/

/-- `Pool.Keys`: keys in map order; the reachable callers sort (`MagicBlock.GetHashBytes`) or build a set
(`minersc viewChangePoolsWork`): after either, nothing depends on the order. -/
theorem site_pool_Keys {α : Type} (le : α → α → Bool) (htrans : ∀ a b c, le a b = true → le b c = true → le a c = true)
    (htotal : ∀ a b, (le a b || le b a) = true) (hanti : ∀ a b, le a b = true → le b a = true → a = b)
    {o₁ o₂ : List α} (hp : o₁.Perm o₂) : o₁.mergeSort le = o₂.mergeSort le := s3_sort_of_perm le htrans htotal hanti hp

/-- `Pool.Clone`: `clone.AddNode(v.Clone())` per entry: the node map of the clone is a keyed write -/
theorem site_pool_Clone {κ σ ν : Type} [DecidableEq κ] (g : κ → σ → ν) {o₁ o₂ : List (κ × σ)} (hp : o₁.Perm o₂)
    (hkeys : o₁.Pairwise (fun a b => a.1 ≠ b.1)) (dst : GMap κ ν) :
    o₁.foldl (fun m e => m.set e.1 (g e.1 e.2)) dst = o₂.foldl (fun m e => m.set e.1 (g e.1 e.2)) dst :=
  s1_keyed_writes g hp hkeys dst

/-- `Pool.UnmarshalMsg / UnmarshalJSON`: `SetPublicKey` per node with error return: fails or not independently of the order,
and with at most one bad key the same error -/
theorem site_pool_Unmarshal {α ε : Type} (check : α → Option ε) {o₁ o₂ : List α} (hp : o₁.Perm o₂)
    (huniq : ∀ x ∈ o₁, ∀ y ∈ o₁, (check x).isSome → (check y).isSome → check x = check y) :
    firstError check o₁ = firstError check o₂ := firstError_perm_of_unique check hp huniq

/-! ## error-first loops in general -/

/-- what all the update loops and validation loops have in common: the outcome is order-independent, the identity of the
reported error is not (witness with two offending elements) -/
theorem error_first_outcome_independent {α ε : Type} (check : α → Option ε) {o₁ o₂ : List α} (hp : o₁.Perm o₂) :
    (firstError check o₁).isSome = (firstError check o₂).isSome := firstError_isSome_perm check hp

theorem error_first_error_order_dependent :
    firstError (fun n : Nat => if n > 0 then some n else none) [1, 2] ≠ firstError (fun n : Nat => if n > 0 then some n else none) [2, 1] := by
  decide

/-! ## (b) clock reads, timers, unseeded randomness -/

/-- functions whose clock reads only feed logs / metrics (hand-checked): "<kind>@<file>:<function>" -/
def clockLoggingOnly : List (List Nat) := [
  str% "time.Now@chaincore/block/entity.go:ComputeState", str% "time.Now@chaincore/block/entity.go:ApplyBlockStateChange",
  str% "time.Now@chaincore/block/entity.go:SaveChanges", str% "time.Now@chaincore/chain/state.go:ExecuteSmartContract",
  str% "time.Now@chaincore/chain/state.go:updateState", str% "time.Now@chaincore/chain/state_sync.go:GetBlockStateChange",
  str% "time.Now@chaincore/smartcontract/handler.go:ExecuteWithStats", str% "time.Now@core/memorystore/connection.go:GetConnection",
  str% "time.Now@core/memorystore/connection.go:GetEntityConnection", str% "time.Now@smartcontract/multisigsc/sc.go:Execute",
  str% "time.Now@smartcontract/multisigsc/sc.go:printTimeTaken", str% "time.Now@smartcontract/storagesc/allocation.go:tick",
  str% "time.Now@smartcontract/storagesc/challenge.go:verifyChallenge"]

/-- clock / timer / random uses that can affect a result:
* `StakePoolUnlock` compares the stake time with `time.Now()` (finding `C06:status:unlock:wall-clock`);
* `Chain.ExecuteSmartContract` aborts the contract call when a wall-clock timer fires first (a slow node rejects what a fast
  one executes; not reproduced);
* the rest is not block execution (sync worker, database open, node shuffling for networking). -/
def clockResultAffecting : List (List Nat) := [
  str% "time.Now@smartcontract/stakepool/stakepool.go:StakePoolUnlock",
  str% "time.Timer@chaincore/chain/state.go:ExecuteSmartContract",
  str% "time.Timer@chaincore/chain/worker.go:SyncMissingNodes",
  str% "time.Timer@smartcontract/dbs/postgresql/postresql.go:Open",
  str% "math/rand@chaincore/node/node_pool.go:ShuffleNodes"]

/-- a **new** clock read, timer or unseeded random call in reachable code makes this false -/
theorem clock_reads_accounted :
    (Generated.C06.others.filter (fun o => o.kind == "time.Now" || o.kind == "time.Timer" || o.kind == "math/rand")).all
      (fun o => clockLoggingOnly.contains o.key || clockResultAffecting.contains o.key) = true := by
  decide +kernel

/-! ## (c) goroutines: every `go` statement of the reachable code, with what its closure shares

The translator lists, for each `go` statement, the variables the goroutine shares with the function that starts it and how it
uses each one. The expectation below is hand-written, with the reason why the *result* does not depend on the schedule;
`goroutine_sites_as_classified` is decided against the generated list, so a new goroutine, a new shared variable in a closure
(e.g. a shared `rejected` flag tested by every worker) or a changed use breaks the build. -/

/-- (site, shared variables and their uses) -/
def expectedGoSites : List (List Nat × List (List Nat)) := [
  -- block fetching (not block execution): hands the fetched block to a handler
  (str% "chaincore/chain/block_fetcher.go:GetNotarizedBlock",
    [str% "arg:ctx", str% "arg:nb", str% "call:c.fetchedNotarizedBlockHandler.NotarizedBlockFetched"]),
  -- the contract call runs in one goroutine; the caller waits for its single result or the timeout (see clockResultAffecting)
  (str% "chaincore/chain/state.go:ExecuteSmartContract", [str% "balances:read", str% "resultC:send", str% "txn:read"]),
  -- workers only send (index, item) / (index, notPresent) / internal error; reduction: getItems_order_independent
  (str% "chaincore/chain/state/state_context.go:GetItemsByIDs",
    [str% "balances:read", str% "errC:send", str% "getItem:read", str% "itemC:send", str% "stateErrC:send", str% "wg:call Done"]),
  -- state sync worker (not block execution)
  (str% "chaincore/chain/worker.go:SyncMissingNodes", [str% "c:send", str% "keys:read", str% "round:read", str% "wc:read"]),
  -- networking
  (str% "chaincore/node/n2n_request.go:sendRequestConcurrent", [str% "ctx:read", str% "handler:read", str% "nodeC:send", str% "wg:call Done"]),
  -- workers send (index, stake pool), re-indexed by the caller (keyed writes, S1); an *error* is taken in arrival order —
  -- all workers fail the same way only when a stake pool is missing (`value not present`, same text); not replayed
  (str% "smartcontract/storagesc/block_reward.go:blobberBlockRewards",
    [str% "balances:read", str% "errC:send", str% "spC:send", str% "ssc:call getStakePool", str% "wg:call Done"]),
  -- worker i reads ticket i, writes errors[i] and validators[i] only, adds to two atomic counters; the caller returns the first
  -- error in index order: verifyChallengeTickets_schedule_independent (counters: s2_int_add)
  (str% "smartcontract/storagesc/challenge.go:verifyChallengeTickets",
    [str% "balances:read", str% "challenge:read", str% "errors:index-write[i]", str% "failure:atomic.AddInt32",
     str% "success:atomic.AddInt32", str% "validators:index-write[i]", str% "wg:call Done"])]

theorem goroutine_sites_as_classified :
    Generated.C06.goSites.map (fun g => (g.key, g.ckeys)) = expectedGoSites := by
  decide +kernel

/-- **verifyChallengeTickets**: the error `challenge_response` returns — the transaction output — is the error of the
lowest-index bad ticket, for every completion order `π` of the per-ticket goroutines. -/
theorem verifyChallengeTickets_schedule_independent {ε : Type} (check : Nat → Option ε) (n : Nat) {π : List Nat}
    (hp : π.Perm (List.range n)) :
    pickFirst n (runWorkers check π) = pickFirst n (runWorkers check (List.range n)) := by
  rw [runWorkers_perm check hp]

/-- … and that error is a function of the tickets alone: the first `check i ≠ none` in index order -/
theorem verifyChallengeTickets_result {ε : Type} (check : Nat → Option ε) (n : Nat) {π : List Nat}
    (hp : π.Perm (List.range n)) : pickFirst n (runWorkers check π) = (List.range n).findSome? check := by
  rw [runWorkers_perm check hp]
  unfold pickFirst
  apply findSome?_congr'
  intro i hi
  rw [runWorkers_apply]
  cases h : check i <;> simp [hi]

def twoBadTickets : Nat → Option Nat := fun i => if i = 1 then some 1 else if i = 5 then some 5 else none

/-- recorded negation: with a shared early-out flag (worker skips its ticket once any ticket was rejected) the returned error
depends on the completion order — tickets #1 and #5 bad: in-order completion reports #1, reverse completion reports #5.
This is why a new shared variable in the closure must not pass unnoticed. -/
theorem early_out_flag_is_schedule_dependent :
    pickFirst 6 (runWorkersEarlyOut twoBadTickets [0, 1, 2, 3, 4, 5]).2 = some 1 ∧
    pickFirst 6 (runWorkersEarlyOut twoBadTickets [5, 4, 3, 2, 1, 0]).2 = some 5 ∧
    pickFirst 6 (runWorkers twoBadTickets [5, 4, 3, 2, 1, 0]) = some 1 := by
  decide

/-! ## (c) scheduling: goroutine results -/

/-- functions that start goroutines or `select` in reachable code (hand-checked):
`GetItemsByIDs` (`getItems_order_independent`), `blobberBlockRewards` (stake pools re-indexed; first *error* by arrival),
`verifyChallengeTickets` (results written at their index), `ExecuteSmartContract` (timeout, see above); the others are
block fetching / sync / networking. -/
def concurrencySites : List (List Nat) := [
  str% "go@chaincore/chain/state/state_context.go:GetItemsByIDs", str% "select@chaincore/chain/state/state_context.go:GetItemsByIDs",
  str% "go@smartcontract/storagesc/block_reward.go:blobberBlockRewards", str% "select@smartcontract/storagesc/block_reward.go:blobberBlockRewards",
  str% "go@smartcontract/storagesc/challenge.go:verifyChallengeTickets",
  str% "go@chaincore/chain/state.go:ExecuteSmartContract", str% "select@chaincore/chain/state.go:ExecuteSmartContract",
  str% "select@chaincore/block/entity.go:ComputeState",
  str% "go@chaincore/chain/block_fetcher.go:GetNotarizedBlock", str% "select@chaincore/chain/block_fetcher.go:GetNotarizedBlock",
  str% "select@chaincore/chain/block_fetcher.go:fetch", str% "select@chaincore/chain/entity.go:GetLatestFinalizedMagicBlock",
  str% "select@chaincore/chain/protocol_block.go:registerBlockSync", str% "select@chaincore/chain/protocol_block.go:syncBlocksWithCache",
  str% "select@chaincore/chain/state_sync.go:getBlockStateChange", str% "go@chaincore/chain/worker.go:SyncMissingNodes",
  str% "select@chaincore/chain/worker.go:SyncMissingNodes", str% "go@chaincore/node/n2n_request.go:sendRequestConcurrent",
  str% "select@chaincore/node/n2n_request.go:sendRequestConcurrent"]

theorem concurrency_sites_accounted :
    (Generated.C06.others.filter (fun o => o.kind == "go" || o.kind == "select")).all (fun o => concurrencySites.contains o.key) = true := by
  decide +kernel

/-- **getItems_order_independent**: whatever order the goroutines of `GetItemsByIDs` deliver in, the caller gets the same
answer — the "not present" error with the smallest index, else the items at their indices. -/
theorem getItems_order_independent {ι : Type} {a₁ a₂ : List (Arrival ι)} (hp : a₁.Perm a₂)
    (hidx : a₁.Pairwise (fun x y => x.idx ≠ y.idx)) : getItems a₁ = getItems a₂ := by
  unfold getItems
  rw [minNotPresent_perm hp, placeItems_perm hp hidx]

-- non-vacuity: two arrival orders of three goroutines, one reporting "not present"
example : (getItems [Arrival.item 0 7, .notPresent 2, .notPresent 1]).getLeft? = some 1 := by decide
example : (getItems [Arrival.notPresent 1, .item 0 (7 : Nat), .notPresent 2]).getLeft? = some 1 := by decide
example : [(1, 10), (2, 20)].Pairwise (fun (a b : Nat × Nat) => a.1 ≠ b.1) := by decide

end ZChain.Det
