import ZChain.Proofs.MultisigInv
/-!
# C21 — Multisig proposals execute once, after enough distinct votes

Statements are about `Model/Multisig.lean` (`register`, `vote` and its stages, run through the engine model by
`registerStep` / `voteStep`), which `harness/cmd/c21` ties to `smartcontract/multisigsc` + the real
`Chain.UpdateState` on every run (real threshold BLS keys; the contract is not registered under the repository's
configuration — `server_chain.smart_contract.multisig: false` — so the harness registers the contract object itself).

`Inv` (Proofs/MultisigInv) holds in every state reachable from an empty contract state (`inv_run`, `inv_empty`).

* `needs_distinct_valid_votes`  a vote that executes (queues the signed transfer) leaves a record with exactly `NumRequired`
                                (≥ 2) entries of pairwise distinct threshold ids, each entry cast by the registered signer owning
                                that id, validly signed over exactly the proposal's transfer, before the expiry; only an
                                executing vote queues a transfer, and it queues exactly the proposal's transfer.
* `executes_once`               over any history, every proposal incarnation (ref + ghost serial: a proposal re-created under
                                the same id after the previous one expired and was pruned is a NEW proposal — reading rule,
                                DESIGN §3.5) is executed at most once.
* `repeat_votes_dont_count`     a vote by a signer whose threshold id is already recorded changes no record and queues nothing;
                                a vote answered "already voted" leaves exactly the pruned state.
* `threshold_signature_valid`   if the wallet's signer keys are the shares of its key (a polynomial of degree < `NumRequired`
                                through the wallet key, evaluated at the non-zero, pairwise distinct `bls.ID`s of the threshold
                                ids), the reconstructed signature is the wallet key's signature on the transfer. **The contract
                                never checks that hypothesis at registration, and the engine never verifies the signed transfer
                                after the contract ran** (`sctx.Validate()` precedes the contract: chain/state.go:439) — for a
                                wallet whose signer keys are unrelated to its key the transfer executes with an invalid signature
                                (`unrelated_keys_execute_with_invalid_signature`, kernel-evaluated witness; recorded finding, same
                                root as C04:invalid-signed-transfer-applied).
* `expired_proposal_cannot_execute`  a record whose expiry is ≤ the BLOCK's creation date is never completed by a vote: the vote
                                fails (`expired`) whatever creation date the voter put on the transaction (`Call.date` is not read);
                                after the record was pruned the vote opens a NEW proposal with no entries.
* `vote_balances`               through the engine: a successful vote transaction moves the fee and, iff it executes, exactly
                                the transfer amount from the wallet to the recipient.
-/
set_option linter.unusedSectionVars false

namespace ZChain.Multisig
open ZChain ZChain.Ledger ZChain.Alg

section
variable {F : Type} [Add F] [Mul F] [Sub F] [Div F] [Zero F] [One F] [DecidableEq F]

/-- **needs_distinct_valid_votes.** -/
theorem needs_distinct_valid_votes (hm : Xfer → F) (s : MSt F) (sender : Id) (now : Int) (txn : Nat) (v : VoteIn F) (o : VoteOut F)
    (hinv : Inv hm s) (h : vote hm s sender now txn v = .ok o) (hx : o.res = .executed) :
    ∃ q w, q ∈ o.st.props ∧ q.executed = some txn ∧
      o.signed = [{ src := q.transfer.src, dst := q.transfer.dst, amount := q.transfer.amount }] ∧
      findWallet s.wallets q.wallet = some w ∧ q.transfer.src = q.wallet ∧
      (q.entries.length : Int) = w.numRequired ∧ 2 ≤ w.numRequired ∧ (q.entries.map (·.tid)).Nodup ∧
      (∀ e ∈ q.entries, EntryOk hm w q e) ∧ q.clientSig = reconstruct w q.entries ∧ q.clientSig.isSome = true := by
  obtain ⟨hinv', hws, p, hf⟩ := vote_spec hm s sender now txn v o hinv h
  obtain ⟨_, hsigned, q, hq, _, _, hqe, hqt, _⟩ := hf.executed hx
  have hpok := hinv'.props q hq
  obtain ⟨w, hw, hents, _, hsome⟩ := hpok.wallet
  obtain ⟨hlen, hcs, hcss⟩ := hsome (by rw [hqe]; rfl)
  rw [hws] at hw
  refine ⟨q, w, hq, hqe, by rw [hqt]; exact hsigned, hw, hpok.src, hlen, ?_, hpok.tids, hents, hcs, hcss⟩
  exact (hinv.wallets w (findWallet_mem _ _ _ hw).1).req2

/-- only an executing vote queues a signed transfer. -/
theorem only_execution_queues (hm : Xfer → F) (s : MSt F) (sender : Id) (now : Int) (txn : Nat) (v : VoteIn F) (o : VoteOut F)
    (hinv : Inv hm s) (h : vote hm s sender now txn v = .ok o) (hx : o.res ≠ .executed) : o.signed = [] := by
  obtain ⟨_, _, p, hf⟩ := vote_spec hm s sender now txn v o hinv h
  exact hf.notExecuted hx

/-! ## executes_once -/

def serialAt (st : MSt F) (r : Ref) : Nat := ((findProp st.props r).map (·.serial)).getD 0

/-- the proposal incarnation (ref, serial) an operation executes, if it is a vote whose transaction succeeds and
whose answer is "transfer executed". -/
def execOf (hm : Xfer → F) (feeOn : Bool) (s : MSt F) (op : Op F) : List (Ref × Nat) :=
  match op with
  | .vote c now txn (.vote name t sig tb) =>
    match vote hm s c.sender now txn (.vote name t sig tb) with
    | .ok o => if o.res = .executed ∧ (stepOp hm feeOn s op).2 = .success then [((t.src, name), serialAt o.st (t.src, name))] else []
    | .error _ => []
  | _ => []

def execLog (hm : Xfer → F) (feeOn : Bool) : MSt F → List (Op F) → List (Ref × Nat)
  | _, [] => []
  | s, op :: rest => execOf hm feeOn s op ++ execLog hm feeOn (stepOp hm feeOn s op).1 rest

/-- an incarnation that can no longer execute: its serial has been handed out and any record that still carries
it is marked executed. -/
def Spent (s : MSt F) (e : Ref × Nat) : Prop :=
  e.2 < s.nextSerial ∧ ∀ p ∈ s.props, p.ref = e.1 → p.serial = e.2 → p.executed.isSome = true

theorem spent_accts (s : MSt F) (a : Accts) (e : Ref × Nat) : Spent { s with accts := a } e ↔ Spent s e := Iff.rfl

theorem spent_vote (hm : Xfer → F) (s : MSt F) (sender : Id) (now : Int) (txn : Nat) (v : VoteIn F) (o : VoteOut F)
    (hinv : Inv hm s) (h : vote hm s sender now txn v = .ok o) (e : Ref × Nat) (hs : Spent s e) : Spent o.st e := by
  obtain ⟨_, _, p, hf⟩ := vote_spec hm s sender now txn v o hinv h
  refine ⟨Nat.lt_of_lt_of_le hs.1 hf.serialMono, ?_⟩
  intro q hq hr hsr
  rcases hf.records q hq with hold | ⟨hqr, hqs, hnone⟩
  · exact hs.2 q hold hr hsr
  · exfalso
    rcases hf.origin with hp | hp
    · have := hs.2 p hp (by rw [← hqr]; exact hr) (by rw [← hqs]; exact hsr)
      rw [hnone] at this; simp at this
    · have := hs.1
      rw [← hsr, hqs, hp] at this
      exact Nat.lt_irrefl _ this

theorem spent_register (s s' : MSt F) (sender : Id) (r : Option (RegIn F)) (h : register s sender r = .ok s')
    (e : Ref × Nat) (hs : Spent s e) : Spent s' e := by
  obtain ⟨w, hs', _⟩ := register_ok s s' sender r h
  subst hs'
  exact hs

/-- a spent incarnation stays spent. -/
theorem spent_step (hm : Xfer → F) (feeOn : Bool) (s : MSt F) (op : Op F) (hinv : Inv hm s) (e : Ref × Nat)
    (hs : Spent s e) : Spent (stepOp hm feeOn s op).1 e := by
  have key : ∀ (c : Call) (r : Option (MSt F × List Ledger.Transfer)),
      (∀ s' q, r = some (s', q) → Spent s' e) → Spent (settleMs feeOn s c r).1 e := by
    intro c r hr
    by_cases hst : (settleMs feeOn s c r).2 = .success
    · obtain ⟨s', q, a', hr', _, _, h⟩ := settleMs_success feeOn s c r hst
      rw [h]; exact (spent_accts s' a' e).mpr (hr s' q hr')
    · obtain ⟨a', h⟩ := settleMs_not_success feeOn s c r hst
      rw [h]; exact (spent_accts s a' e).mpr hs
  cases op with
  | register c r =>
    show Spent (registerStep feeOn s c r).1 e
    unfold registerStep
    apply key
    intro s' q hr
    cases hreg : register s c.sender r with
    | error x => simp [hreg] at hr
    | ok s2 =>
      simp only [hreg, Option.some.injEq, Prod.mk.injEq] at hr
      rw [← hr.1]; exact spent_register s s2 c.sender r hreg e hs
  | vote c now txn v =>
    show Spent (voteStep hm feeOn s c now txn v).1 e
    unfold voteStep
    apply key
    intro s' q hr
    cases hv : vote hm s c.sender now txn v with
    | error x => simp [hv] at hr
    | ok o =>
      simp only [hv, Option.some.injEq, Prod.mk.injEq] at hr
      rw [← hr.1]; exact spent_vote hm s c.sender now txn v o hinv hv e hs

/-- an execution is of an incarnation that was not spent before and is spent afterwards. -/
theorem exec_fresh (hm : Xfer → F) (feeOn : Bool) (s : MSt F) (op : Op F) (hinv : Inv hm s) (e : Ref × Nat)
    (he : e ∈ execOf hm feeOn s op) : ¬ Spent s e ∧ Spent (stepOp hm feeOn s op).1 e := by
  cases op with
  | register c r => simp [execOf] at he
  | vote c now txn v =>
    cases v with
    | malformed => simp [execOf] at he
    | vote name t sig tb =>
      simp only [execOf] at he
      cases hv : vote hm s c.sender now txn (.vote name t sig tb) with
      | error x => simp [hv] at he
      | ok o =>
        simp only [hv] at he
        by_cases hc : o.res = .executed ∧ (stepOp hm feeOn s (.vote c now txn (.vote name t sig tb))).2 = .success
        · simp only [hc, and_self, if_true, List.mem_cons, List.not_mem_nil, or_false] at he
          obtain ⟨hinv', _, p, hf⟩ := vote_spec hm s c.sender now txn _ o hinv hv
          obtain ⟨hnone, _, q, hq, hqr, hqs, hqe, _⟩ := hf.executed hc.1
          obtain ⟨name', sig', tb', hveq, hpref⟩ := hf.target
          injection hveq with hn ht _ _
          have href : p.ref = (t.src, name) := by rw [hpref, ← ht, ← hn]
          -- the record at the ref after the vote is `q`
          have hfind : findProp o.st.props (t.src, name) = some q := by
            have hqref : q.ref = (t.src, name) := by rw [hqr, href]
            unfold findProp
            cases hfd : o.st.props.find? (fun x => decide (x.ref = (t.src, name))) with
            | none =>
              have := List.find?_eq_none.mp hfd q hq
              simp [hqref] at this
            | some q' =>
              have hq'm := List.mem_of_find?_eq_some hfd
              have hq'r : q'.ref = (t.src, name) := by simpa using List.find?_some hfd
              exact congrArg some (List.inj_on_of_nodup_map hinv'.refs hq'm hq (by rw [hq'r, hqref]))
          have hser : serialAt o.st (t.src, name) = p.serial := by
            unfold serialAt; rw [hfind]; simp [hqs]
          have hstate : ∃ a', (stepOp hm feeOn s (.vote c now txn (.vote name t sig tb))).1 = { o.st with accts := a' } := by
            show ∃ a', (voteStep hm feeOn s c now txn (.vote name t sig tb)).1 = _
            have h2 : (voteStep hm feeOn s c now txn (.vote name t sig tb)).2 = .success := hc.2
            unfold voteStep at h2 ⊢
            obtain ⟨s', q0, a', hr, _, _, hst⟩ := settleMs_success feeOn s c _ h2
            simp only [hv, Option.some.injEq, Prod.mk.injEq] at hr
            exact ⟨a', by rw [hst, ← hr.1]⟩
          obtain ⟨a', hstate⟩ := hstate
          subst he
          constructor
          · intro hsp
            rw [hser] at hsp
            rcases hf.origin with hp | hp
            · have := hsp.2 p hp href rfl
              rw [hnone] at this; simp at this
            · have := hsp.1
              simp only at this
              rw [hp] at this
              exact Nat.lt_irrefl _ this
          · rw [hstate]
            apply (spent_accts _ _ _).mpr
            refine ⟨?_, ?_⟩
            · show serialAt o.st (t.src, name) < o.st.nextSerial
              rw [hser, ← hqs]; exact hinv'.serials q hq
            · intro q' hq' hr' _
              have : q' = q := List.inj_on_of_nodup_map hinv'.refs hq' hq (by rw [hr', hqr, href])
              rw [this, hqe]; rfl
        · simp [hc] at he

/-- **executes_once.** Over any history from a state satisfying the invariant, no proposal incarnation is
executed twice. -/
theorem executes_once_aux (hm : Xfer → F) (feeOn : Bool) (ops : List (Op F)) : ∀ (s : MSt F) (done : List (Ref × Nat)),
    Inv hm s → (∀ e ∈ done, Spent s e) → done.Nodup → (done ++ execLog hm feeOn s ops).Nodup := by
  induction ops with
  | nil => intro s done _ _ hnd; simpa [execLog] using hnd
  | cons op rest ih =>
    intro s done hinv hdone hnd
    simp only [execLog]
    rw [← List.append_assoc]
    apply ih (stepOp hm feeOn s op).1 (done ++ execOf hm feeOn s op) (inv_step hm feeOn s op hinv)
    · intro e he
      rcases List.mem_append.mp he with he | he
      · exact spent_step hm feeOn s op hinv e (hdone e he)
      · exact (exec_fresh hm feeOn s op hinv e he).2
    · rw [List.nodup_append]
      refine ⟨hnd, ?_, ?_⟩
      · -- `execOf` has at most one element
        unfold execOf
        repeat' split
        all_goals simp
      · intro a ha b hb hab
        subst hab
        exact (exec_fresh hm feeOn s op hinv a hb).1 (hdone a ha)

theorem executes_once (hm : Xfer → F) (feeOn : Bool) (ops : List (Op F)) (s : MSt F) (hinv : Inv hm s) :
    (execLog hm feeOn s ops).Nodup := by
  simpa using executes_once_aux hm feeOn ops s [] hinv (by intro e he; simp at he) List.nodup_nil

/-! ## repeat_votes_dont_count -/

/-- a signer whose threshold id is already recorded: the answer is "already voted", no record changes, nothing
is queued. -/
theorem castVote_repeat (s : MSt F) (w : Wallet F) (p : Proposal F) (sg : Signer F) (σ : F) (sender : Id) (now : Int) (txn : Nat)
    (h : p.entries.any (fun e => e.tid = sg.tid) = true) :
    castVote s w p sg σ sender now txn = .ok { st := s, res := .duplicate (w.numRequired - p.entries.length), signed := [] } := by
  unfold castVote
  simp [h]

/-- **repeat_votes_dont_count.** A vote answered "already voted" leaves exactly the state after the incremental
pruning — no entry is appended, no signature queued, nothing executed. -/
theorem repeat_votes_dont_count (hm : Xfer → F) (s : MSt F) (sender : Id) (now : Int) (txn : Nat) (v : VoteIn F) (o : VoteOut F)
    (h : vote hm s sender now txn v = .ok o) (n : Int) (hd : o.res = .duplicate n) :
    o.st = pruneHead now s ∧ o.signed = [] := by
  obtain ⟨name, t, sig, s1, p, _, h2, _, hcase⟩ := vote_ok hm s sender now txn v o h
  rcases hcase with ⟨_, ho⟩ | ⟨_, w, sg, σ, _, hcast⟩
  · rw [ho] at hd; cases hd
  · rcases castVote_ok s1 w p sg σ sender now txn o hcast with ⟨hany, ho⟩ | ⟨_, _, ho⟩ | ⟨_, _, cs, _, ho⟩
    · rcases findOrCreate_ok _ s1 now name t p h2 with ⟨_, _, hs⟩ | ⟨_, hp, _⟩
      · rw [ho]; exact ⟨hs, rfl⟩
      · rw [hp] at hany; simp at hany
    · rw [ho] at hd; cases hd
    · rw [ho] at hd; cases hd

/-- **expired_proposal_cannot_execute.** If the record stored for (wallet, name) — as it is after the incremental
pruning of this very vote — has `expires ≤ now` (the block's creation date), the vote is a chargeable failure:
nothing is appended, nothing executes. The transaction's own creation date is not an argument of `vote` at all. -/
theorem expired_proposal_cannot_execute (hm : Xfer → F) (s : MSt F) (sender : Id) (now : Int) (txn : Nat)
    (name : Nat) (t : Xfer) (sig : SigTok F) (tb : Bool) (p : Proposal F)
    (hp : findProp (pruneHead now s).props (t.src, name) = some p) (hexp : p.expires ≤ now) :
    ∀ o, vote hm s sender now txn (.vote name t sig tb) ≠ .ok o := by
  intro o h
  obtain ⟨name', t', sig', s1, p', hchk, h2, _, _⟩ := vote_ok hm s sender now txn _ o h
  obtain ⟨hv, _⟩ := voteChecks_ok _ name' t' sig' hchk
  injection hv with hn ht _ _
  subst hn ht
  rcases findOrCreate_ok _ s1 now name t p' h2 with ⟨hf, hlt, _⟩ | ⟨hf, _, _⟩
  · rw [hp] at hf; injection hf with hf; subst hf; omega
  · rw [hp] at hf; cases hf

/-! ## through the engine -/

theorem settle_nil_get' (feeOn : Bool) (a a' : Accts) (t : Txn) (h : settle feeOn a t [] [] = some a') (i : Id) :
    (get a' i).balance + (if i = t.sender then feeOf feeOn t else 0) =
      (get a i).balance + (if i = minerSC then feeOf feeOn t else 0) := by
  have := (settle_get feeOn a a' t [] [] h i).1
  rw [(feeQueue_nil feeOn t i).1, (feeQueue_nil feeOn t i).2] at this
  exact this

/-- **vote_balances.** A successful vote transaction: the fee moves from the sender to the miner contract and,
exactly when the vote executes the proposal, the proposal's amount moves from the wallet to the recipient. -/
theorem vote_balances (hm : Xfer → F) (feeOn : Bool) (s : MSt F) (c : Call) (now : Int) (txn : Nat) (v : VoteIn F)
    (hinv : Inv hm s) (hs : (voteStep hm feeOn s c now txn v).2 = .success) :
    ∃ o, vote hm s c.sender now txn v = .ok o ∧
      (o.res ≠ .executed → ∀ i, (get (voteStep hm feeOn s c now txn v).1.accts i).balance + (if i = c.sender then feeOf feeOn c.txn else 0) =
          (get s.accts i).balance + (if i = minerSC then feeOf feeOn c.txn else 0)) ∧
      (o.res = .executed → ∃ q ∈ o.st.props, q.executed = some txn ∧
        ∀ i, (get (voteStep hm feeOn s c now txn v).1.accts i).balance +
              ((if i = c.sender then feeOf feeOn c.txn else 0) + (if q.transfer.src = i then q.transfer.amount else 0)) =
            (get s.accts i).balance +
              ((if i = minerSC then feeOf feeOn c.txn else 0) + (if q.transfer.dst = i then q.transfer.amount else 0))) := by
  unfold voteStep at hs ⊢
  obtain ⟨s', q0, a', hr, _, hset, hst⟩ := settleMs_success feeOn s c _ hs
  cases hv : vote hm s c.sender now txn v with
  | error x => simp [hv] at hr
  | ok o =>
    simp only [hv, Option.some.injEq, Prod.mk.injEq] at hr
    obtain ⟨h1, h2⟩ := hr
    subst h1 h2
    simp only [hv] at hst
    rw [hst]
    refine ⟨o, rfl, ?_, ?_⟩
    · intro hne i
      have hsg := only_execution_queues hm s c.sender now txn v o hinv hv hne
      rw [hsg] at hset
      exact settle_nil_get' feeOn s.accts a' c.txn hset i
    · intro hx
      obtain ⟨q, w, hq, hqe, hsg, _⟩ := needs_distinct_valid_votes hm s c.sender now txn v o hinv hv hx
      refine ⟨q, hq, hqe, ?_⟩
      intro i
      rw [hsg] at hset
      have := (settle_get feeOn s.accts a' c.txn [] _ hset i).1
      rw [(feeQueue_signed_single feeOn c.txn _ i).1, (feeQueue_signed_single feeOn c.txn _ i).2] at this
      exact this

end

/-! ## threshold_signature_valid -/

section field
variable {F : Type} [Field F] [DecidableEq F]

/-- the wallet's signer keys are shares of its key: `cs` are the coefficients of a polynomial of degree
`< NumRequired` with constant term the wallet's secret; signer `sg` holds its value at the (non-zero) `bls.ID` of
its threshold id; different threshold ids have different `bls.ID`s. This is what `GenerateThresholdKeyShares`
produces — and what `register` never checks. -/
structure KeyShares (w : Wallet F) (cs : List F) : Prop where
  degree : (cs.length : Int) ≤ w.numRequired
  key : w.groupKey = polyEval cs 0
  share : ∀ sg ∈ w.signers, ∃ x, sg.x = some x ∧ x ≠ 0 ∧ sg.pk = polyEval cs x
  inj : ∀ a ∈ w.signers, ∀ b ∈ w.signers, a.x = b.x → a.tid = b.tid

/-- the point a recorded vote contributes to `Sign.Recover`. -/
def ptOf (w : Wallet F) (e : Entry F) : Option (F × F) :=
  match w.signers.find? (fun sg => sg.tid = e.tid) with
  | some sg => sg.x.map (fun x => (x, e.sig))
  | none => none

theorem reconstruct_eq (w : Wallet F) (es : List (Entry F)) :
    reconstruct w es = (match es.mapM (ptOf w) with | none => none | some pts => recoverLib pts) := rfl

theorem verifyLib_true (pk h σ : F) (hv : verifyLib pk h σ = true) : σ = pk * h := by
  unfold verifyLib at hv
  simp only [Bool.and_eq_true, decide_eq_true_eq] at hv
  exact hv.2

/-- what each valid entry contributes. -/
def Contributes (w : Wallet F) (cs : List F) (h : F) (e : Entry F) : Prop :=
  ∃ sg ∈ w.signers, sg.tid = e.tid ∧ ∃ x, sg.x = some x ∧ ptOf w e = some (x, e.sig) ∧ x ≠ 0 ∧ e.sig = polyEval cs x * h

theorem entry_contributes (hm : Xfer → F) (w : Wallet F) (q : Proposal F) (cs : List F) (hw : WOk w) (hk : KeyShares w cs)
    (e : Entry F) (he : EntryOk hm w q e) : Contributes w cs (hm q.transfer) e := by
  obtain ⟨sg, hsg, htid, _, hver, _⟩ := he
  obtain ⟨x, hx, hx0, hpk⟩ := hk.share sg hsg
  refine ⟨sg, hsg, htid, x, hx, ?_, hx0, ?_⟩
  · unfold ptOf
    cases hf : w.signers.find? (fun sg => decide (sg.tid = e.tid)) with
    | none =>
      have := List.find?_eq_none.mp hf sg hsg
      simp [htid] at this
    | some sg' =>
      have hm' := List.mem_of_find?_eq_some hf
      have ht' : sg'.tid = e.tid := by simpa using List.find?_some hf
      have : sg' = sg := List.inj_on_of_nodup_map hw.tids hm' hsg (by rw [ht', htid])
      rw [this]
      simp [hx]
  · rw [verifyLib_true _ _ _ hver, hpk]

theorem points_of_entries (w : Wallet F) (cs : List F) (h : F) (hk : KeyShares w cs) :
    ∀ es : List (Entry F), (∀ e ∈ es, Contributes w cs h e) → (es.map (·.tid)).Nodup →
      ∃ pts, es.mapM (ptOf w) = some pts ∧ pts.length = es.length ∧
        (∀ pt ∈ pts, ∃ e ∈ es, ptOf w e = some pt) ∧ (pts.map Prod.fst).Nodup := by
  intro es
  induction es with
  | nil => intro _ _; exact ⟨[], rfl, rfl, by intro pt hpt; simp at hpt, by simp⟩
  | cons e es ih =>
    intro hall hnd
    have hnd' : (e.tid :: es.map (·.tid)).Nodup := hnd
    obtain ⟨hnotin, hnd2⟩ := List.nodup_cons.mp hnd'
    obtain ⟨pts, hm', hlen, hsrc, hnodup⟩ := ih (fun x hx => hall x (List.mem_cons_of_mem _ hx)) hnd2
    obtain ⟨sg, hsg, htid, x, hx, hpt, _, _⟩ := hall e List.mem_cons_self
    refine ⟨(x, e.sig) :: pts, ?_, by simp [hlen], ?_, ?_⟩
    · rw [List.mapM_cons, hpt, hm']; rfl
    · intro pt hpt'
      rcases List.mem_cons.mp hpt' with hp | hp
      · exact ⟨e, List.mem_cons_self, by rw [hp]; exact hpt⟩
      · obtain ⟨e', he', hpe'⟩ := hsrc pt hp
        exact ⟨e', List.mem_cons_of_mem _ he', hpe'⟩
    · simp only [List.map_cons, List.nodup_cons]
      refine ⟨?_, hnodup⟩
      intro hin
      obtain ⟨pt, hptm, hpt1⟩ := List.mem_map.mp hin
      obtain ⟨e', he', hpe'⟩ := hsrc pt hptm
      obtain ⟨sg', hsg', htid', x', hx', hpt'', _, _⟩ := hall e' (List.mem_cons_of_mem _ he')
      rw [hpt''] at hpe'
      injection hpe' with hpe'
      have hxx : x' = x := by rw [← hpt1, ← hpe']
      have : sg'.tid = sg.tid := hk.inj sg' hsg' sg hsg (by rw [hx', hx, hxx])
      apply hnotin
      rw [← htid, ← this, htid']
      exact List.mem_map.mpr ⟨e', he', rfl⟩

/-- **threshold_signature_valid.** Under `KeyShares`, for a record whose entries are valid votes of pairwise
distinct signers and as many as `NumRequired`: `constructTransferSignature` succeeds and returns the wallet
key's own signature on the transfer. -/
theorem threshold_signature_valid (hm : Xfer → F) (w : Wallet F) (q : Proposal F) (cs : List F) (hw : WOk w) (hk : KeyShares w cs)
    (hents : ∀ e ∈ q.entries, EntryOk hm w q e) (htids : (q.entries.map (·.tid)).Nodup)
    (hlen : (q.entries.length : Int) = w.numRequired) :
    reconstruct w q.entries = some (sign w.groupKey (hm q.transfer)) := by
  have hall : ∀ e ∈ q.entries, Contributes w cs (hm q.transfer) e :=
    fun e he => entry_contributes hm w q cs hw hk e (hents e he)
  obtain ⟨pts, hm', hl, hsrc, hnodup⟩ := points_of_entries w cs (hm q.transfer) hk q.entries hall htids
  rw [reconstruct_eq, hm']
  simp only
  have hfacts : ∀ pt ∈ pts, pt.1 ≠ 0 ∧ pt.2 = polyEval cs pt.1 * hm q.transfer := by
    intro pt hpt
    obtain ⟨e, he, hpe⟩ := hsrc pt hpt
    obtain ⟨_, _, _, x, _, hpt', hx0, hsig⟩ := hall e he
    rw [hpt'] at hpe
    injection hpe with hpe
    rw [← hpe]; exact ⟨hx0, hsig⟩
  have h2 := hw.req2
  have hdeg := hk.degree
  have hne : pts ≠ [] := by
    intro e
    rw [e] at hl
    simp only [List.length_nil] at hl
    rw [← hl] at hlen
    simp at hlen
    omega
  have hcount : cs.length ≤ pts.length := by
    rw [hl]
    have : ((cs.length : Nat) : Int) ≤ (q.entries.length : Nat) := by rw [hlen]; exact hdeg
    exact_mod_cast this
  rw [recoverLib_of_poly cs (hm q.transfer) pts hnodup (fun p hp => (hfacts p hp).1) (fun p hp => (hfacts p hp).2) hcount hne]
  rw [hk.key]; rfl

/-- … hence it verifies under the wallet's key (`Sign.Verify` of the library also wants a non-zero key and a
non-zero signature: the wallet key and the message point are not zero). -/
theorem threshold_signature_verifies (hm : Xfer → F) (w : Wallet F) (q : Proposal F) (cs : List F) (hw : WOk w) (hk : KeyShares w cs)
    (hents : ∀ e ∈ q.entries, EntryOk hm w q e) (htids : (q.entries.map (·.tid)).Nodup)
    (hlen : (q.entries.length : Int) = w.numRequired) (hkey : w.groupKey ≠ 0) (hmsg : hm q.transfer ≠ 0) :
    ∃ σ, reconstruct w q.entries = some σ ∧ verifyLib w.groupKey (hm q.transfer) σ = true := by
  refine ⟨_, threshold_signature_valid hm w q cs hw hk hents htids hlen, ?_⟩
  unfold verifyLib sign
  simp [hkey, hmsg]

/-- the executed record of `needs_distinct_valid_votes` therefore carries a valid threshold signature — when the
wallet was registered with genuine key shares. -/
theorem executed_transfer_signature_valid (hm : Xfer → F) (s : MSt F) (sender : Id) (now : Int) (txn : Nat) (v : VoteIn F) (o : VoteOut F)
    (hinv : Inv hm s) (h : vote hm s sender now txn v = .ok o) (hx : o.res = .executed)
    (hshares : ∀ w ∈ s.wallets, ∃ cs, KeyShares w cs ∧ w.groupKey ≠ 0) (hmsg : ∀ t, hm t ≠ 0) :
    ∃ q w σ, q ∈ o.st.props ∧ q.executed = some txn ∧ findWallet s.wallets q.wallet = some w ∧
      q.clientSig = some σ ∧ verifyLib w.groupKey (hm q.transfer) σ = true := by
  obtain ⟨q, w, hq, hqe, _, hw, _, hlen, _, htids, hents, hcs, _⟩ := needs_distinct_valid_votes hm s sender now txn v o hinv h hx
  have hwm := (findWallet_mem _ _ _ hw).1
  obtain ⟨cs, hk, hkey⟩ := hshares w hwm
  obtain ⟨σ, hrec, hver⟩ := threshold_signature_verifies hm w q cs (hinv.wallets w hwm) hk hents htids hlen hkey (hmsg _)
  exact ⟨q, w, σ, hq, hqe, hw, by rw [hcs, hrec], hver⟩

end field

/-! ## witnesses (kernel-evaluated, `F := Alg.Fr`) -/

section witness
open ZChain.Alg

def wHm (t : Xfer) : Fr := Fr.ofNat (1000003 + 7919 * t.src + 104729 * t.dst + 1299709 * t.amount)

/-- wallet of client 2 (key 50), 2-of-3, polynomial `50 + 7·x`: the signers 3, 4, 5 hold `57, 64, 71` at the ids 1, 2, 3. -/
def wProper : RegIn Fr :=
  { clientId := 2, pkOwner := some 2, groupKey := 50, schemeOk := true, numRequired := 2,
    tids := [(1, some 1), (2, some 2), (3, some 3)], keys := [.good 3 57, .good 4 64, .good 5 71] }
/-- wallet of client 8 (key 90) whose signer keys (11, 12, 13) have nothing to do with its key. -/
def wUnrelated : RegIn Fr :=
  { clientId := 8, pkOwner := some 8, groupKey := 90, schemeOk := true, numRequired := 2,
    tids := [(1, some 1), (2, some 2), (3, some 3)], keys := [.good 9 11, .good 10 12, .good 11 13] }

def wInit : MSt Fr :=
  { accts := [(2, ⟨1000, 0⟩), (8, ⟨1000, 0⟩), (3, ⟨100, 0⟩), (4, ⟨100, 0⟩), (5, ⟨100, 0⟩), (9, ⟨100, 0⟩), (10, ⟨100, 0⟩)],
    wallets := [], props := [], queue := [], nextSerial := 0 }

def tA : Xfer := ⟨2, 6, 300⟩
def tB : Xfer := ⟨8, 6, 300⟩

/-- register both wallets; two signers vote on each proposal (with a repeated and a forged vote in between). -/
def cl (sender : Id) (nonce : Int) : Call := { sender := sender, value := 0, fee := 1, nonce := nonce }

def wOps : List (Op Fr) :=
  [.register (cl 2 1) (some wProper), .register (cl 8 1) (some wUnrelated),
   .vote (cl 3 1) 1000 1 (.vote 0 tA (.pt (sign 57 (wHm tA))) false),
   .vote (cl 3 2) 1001 2 (.vote 0 tA (.pt (sign 57 (wHm tA))) false),        -- repeat: does not count
   .vote (cl 4 1) 1002 3 (.vote 0 tA (.pt (sign 99 (wHm tA))) false),        -- forged: refused
   .vote (cl 5 1) 1003 4 (.vote 0 tA (.pt (sign 71 (wHm tA))) false),        -- second valid vote: executes
   .vote (cl 4 2) 1004 5 (.vote 0 tA (.pt (sign 64 (wHm tA))) false),        -- after execution: nothing more
   .vote (cl 9 1) 1005 6 (.vote 0 tB (.pt (sign 11 (wHm tB))) false),
   .vote (cl 10 1) 1006 7 (.vote 0 tB (.pt (sign 12 (wHm tB))) false)]

def sigOk (st : MSt Fr) (r : Ref) : Option Bool :=
  match findProp st.props r, findWallet st.wallets r.1 with
  | some p, some w => p.clientSig.map (fun cs => verifyLib w.groupKey (wHm p.transfer) cs)
  | _, _ => none

/-- non-vacuity: the history executes both proposals, each exactly once (`execLog` has the two incarnations), the
proper wallet's threshold signature verifies, and 300 moved from each wallet to client 6. -/
theorem witness_history :
    execLog wHm true wInit wOps = [((2, 0), 0), ((8, 0), 1)] ∧
    sigOk (runOps wHm true wInit wOps) (2, 0) = some true ∧
    (get (runOps wHm true wInit wOps).accts 6).balance = 600 ∧
    (get (runOps wHm true wInit wOps).accts 2).balance = 699 := by
  decide +kernel

/-- **the hypothesis of `threshold_signature_valid` is needed and nothing enforces it**: the wallet registered
with unrelated signer keys executes its transfer (the engine applies it without verifying) although the
reconstructed signature is NOT a signature of the wallet's key. -/
theorem unrelated_keys_execute_with_invalid_signature :
    sigOk (runOps wHm true wInit wOps) (8, 0) = some false ∧
    ((findProp (runOps wHm true wInit wOps).props (8, 0)).map (fun p => p.executed.isSome)) = some true ∧
    (get (runOps wHm true wInit wOps).accts 8).balance = 699 := by
  decide +kernel

end witness

end ZChain.Multisig
