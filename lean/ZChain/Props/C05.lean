import ZChain.Proofs.LedgerStep
/-!
# C05 — Balances never overdraw or wrap
Balances are natural numbers in the model, so "never negative" is by construction of `transfer`
(the subtraction is guarded by `balance < amount → error`, proved exact in `transfer_get` /
`applyTransfers_flow`); "never wraps" is the invariant `InRange` (< 2^64) below.
-/
namespace ZChain.Ledger

/-- **balances_in_range**: every balance stays below 2^64 across any transaction. -/
theorem step_inRange (feeOn : Bool) (s : St) (t : Txn) (r : CResult) (h : InRange s.accts) :
    InRange (step feeOn s t r).1.accts := by
  rw [step_eq]
  cases plan s t r with
  | none => exact h
  | some p =>
    simp only [finish]
    cases hs : settle feeOn s.accts t p.transfers p.signed with
    | none => exact h
    | some a => exact settle_inRange feeOn s.accts a t p.transfers p.signed h hs

theorem run_inRange (feeOn : Bool) (hist : List (Txn × CResult)) :
    ∀ s : St, InRange s.accts → InRange (run feeOn s hist).accts := by
  induction hist with
  | nil => intro s h; exact h
  | cons x rest ih =>
    intro s h
    obtain ⟨t, r⟩ := x
    exact ih _ (step_inRange feeOn s t r h)

/-- with the genesis total equal to the maximum supply, every balance is at most the supply. -/
theorem balance_le_supply (feeOn : Bool) (s0 : St) (hist : List (Txn × CResult))
    (hg : total s0.accts = maxTokenSupply) (i : Id) :
    (get (run feeOn s0 hist).accts i).balance ≤ maxTokenSupply := by
  have h1 := get_le_total (run feeOn s0 hist).accts i
  have h2 : total (run feeOn s0 hist).accts = total s0.accts := by
    induction hist generalizing s0 with
    | nil => rfl
    | cons x rest ih =>
      obtain ⟨t, r⟩ := x
      show total (run feeOn (step feeOn s0 t r).1 rest).accts = _
      have hstep : total (step feeOn s0 t r).1.accts = total s0.accts := by
        rw [step_eq]
        cases plan s0 t r with
        | none => rfl
        | some p =>
          simp only [finish]
          cases hs : settle feeOn s0.accts t p.transfers p.signed with
          | none => rfl
          | some a => exact settle_total feeOn s0.accts a t p.transfers p.signed hs
      rw [ih (step feeOn s0 t r).1 (by rw [hstep, hg]) (get_le_total _ i), hstep]
  omega

/-- **transfer_atomic**: a rejected transaction — for whatever reason, including a transfer that
fails at any position of the queue after any prefix already succeeded — leaves the whole state
(every balance, every nonce, contract storage) exactly as it was. -/
theorem rejected_unchanged (feeOn : Bool) (s : St) (t : Txn) (r : CResult)
    (h : (step feeOn s t r).2 = .rejected) : (step feeOn s t r).1 = s :=
  step_rejected feeOn s t r h (fun p hp => plan_status_ne_rejected s t r p hp)

/-- if any transfer of the settlement queue fails (insufficient source, destination overflow,
from = to with a non-zero amount) the transaction is rejected. -/
theorem failing_transfer_rejects (feeOn : Bool) (s : St) (t : Txn) (r : CResult) (p : Plan) (e : TErr)
    (hp : plan s t r = some p)
    (hq : applyTransfers s.accts (feeQueue feeOn t p.transfers p.signed) = .error e) :
    step feeOn s t r = (s, .rejected) := by
  rw [step_eq, hp]
  simp only [finish]
  have : settle feeOn s.accts t p.transfers p.signed = none := by
    unfold settle; unfold feeQueue at hq; simp only [hq]
  rw [this]

/-- `transferAmount` alone: the exact failure conditions. -/
theorem transferCore_error_iff (a : Accts) (t : Transfer) :
    (∃ e, transferCore a t = .error e) ↔
      (t.amount ≠ 0 ∧ (t.dstCanon = false ∨ t.src = t.dst ∨ (get a t.src).balance < t.amount ∨
        (get a t.dst).balance + t.amount ≥ u64)) := by
  unfold transferCore transferCore0
  by_cases h0 : t.amount = 0
  · simp [h0]
  · cases hd : t.dstCanon
    · simp [h0]
    · by_cases hsd : t.src = t.dst
      · simp [h0, hsd]
      · by_cases hins : (get a t.src).balance < t.amount
        · simp [h0, hsd, hins]
        · by_cases hov : (get a t.dst).balance + t.amount ≥ u64
          · simp [h0, hsd, hins, hov]
          · simp [h0, hsd, hins, hov]

/-- one transfer as the engine performs it (`transferAmountWithAssert`): the exact failure conditions. -/
theorem transfer_error_iff (a : Accts) (t : Transfer) :
    (∃ e, transfer a t = .error e) ↔
      (get a t.src).balance + (if t.dstReadable then (get a t.dst).balance else 0) ≥ u64 ∨
      (t.amount ≠ 0 ∧ (t.dstCanon = false ∨ t.src = t.dst ∨ (get a t.src).balance < t.amount ∨
        (get a t.dst).balance + t.amount ≥ u64)) := by
  unfold transfer
  by_cases hs : (get a t.src).balance + (if t.dstReadable then (get a t.dst).balance else 0) ≥ u64
  · rw [if_pos hs]; exact ⟨fun _ => Or.inl hs, fun _ => ⟨_, rfl⟩⟩
  · rw [if_neg hs, transferCore_error_iff]
    exact ⟨fun h => Or.inr h, fun h => h.elim (fun h' => absurd h' hs) id⟩

/-- under the genesis invariant (all balances sum to the supply, far below 2^64) the pre-transfer
sum check of `transferAmountWithAssert` can never fire. -/
theorem sum_check_vacuous_under_supply (a : Accts) (t : Transfer) (hne : t.src ≠ t.dst)
    (ht : total a ≤ maxTokenSupply) : (get a t.src).balance + (get a t.dst).balance < u64 := by
  have h1 := total_set a t.src ⟨0, (get a t.src).nonce⟩
  have h2 := get_le_total (set a t.src ⟨0, (get a t.src).nonce⟩) t.dst
  rw [get_set_ne _ _ _ _ hne] at h2
  simp only at h1
  have : maxTokenSupply < u64 := by decide
  omega

/-- **value_cap**: a transaction whose value exceeds the maximum supply is rejected. -/
theorem value_cap (feeOn : Bool) (s : St) (t : Txn) (r : CResult) (h : t.value > maxTokenSupply) :
    step feeOn s t r = (s, .rejected) := by
  unfold step; simp [h]

/-! ### histories: rejected transactions are invisible -/

/-- the sub-history of transactions that were applied (status `success` or `failed`), each judged in the state
it met. -/
def appliedOnly (feeOn : Bool) (s : St) : List (Txn × CResult) → List (Txn × CResult)
  | [] => []
  | (t, r) :: rest =>
    if (step feeOn s t r).2 = .rejected then appliedOnly feeOn s rest
    else (t, r) :: appliedOnly feeOn (step feeOn s t r).1 rest

/-- **rejected_invisible**: any history ends in exactly the state reached by its applied transactions alone —
rejected submissions (wrong nonce, over-cap value, a transfer failing at any queue position, an internal contract
failure) interleaved anywhere, in any number, leave no trace in any balance, nonce or storage cell. -/
theorem rejected_invisible (feeOn : Bool) (hist : List (Txn × CResult)) : ∀ s : St,
    run feeOn s hist = run feeOn s (appliedOnly feeOn s hist) := by
  induction hist with
  | nil => intro s; rfl
  | cons x rest ih =>
    intro s
    obtain ⟨t, r⟩ := x
    by_cases h : (step feeOn s t r).2 = .rejected
    · have hs := rejected_unchanged feeOn s t r h
      show run feeOn (step feeOn s t r).1 rest = run feeOn s (appliedOnly feeOn s ((t, r) :: rest))
      rw [hs]
      simp only [appliedOnly, h, if_true]
      exact ih s
    · show run feeOn (step feeOn s t r).1 rest = run feeOn s (appliedOnly feeOn s ((t, r) :: rest))
      simp only [appliedOnly, h, if_false]
      show _ = run feeOn (step feeOn s t r).1 (appliedOnly feeOn (step feeOn s t r).1 rest)
      exact ih _

/-- every transaction of the applied sub-history is again applied when replayed alone (nothing of it is rejected). -/
theorem appliedOnly_all_applied (feeOn : Bool) (hist : List (Txn × CResult)) : ∀ s : St,
    appliedOnly feeOn s (appliedOnly feeOn s hist) = appliedOnly feeOn s hist := by
  induction hist with
  | nil => intro s; rfl
  | cons x rest ih =>
    intro s
    obtain ⟨t, r⟩ := x
    by_cases h : (step feeOn s t r).2 = .rejected
    · simp only [appliedOnly, h, if_true]; exact ih s
    · simp only [appliedOnly, h, if_false]; rw [ih]

-- non-vacuity: a queue whose THIRD transfer overdraws is rejected although two succeeded
def exS5 : St := { accts := [(3, ⟨1000, 4⟩), (7, ⟨50, 0⟩)], store := [(1, 1)] }
def exT5 : Txn := { sender := 3, to := 7, toValid := true, value := 100, fee := 10, nonce := 5, typ := .sc }
example : step true exS5 exT5 (.ok [.put 1 2] [⟨3, 7, 100, true, false⟩, ⟨7, 9, 40, true, false⟩, ⟨9, 3, 41, true, false⟩] []) = (exS5, .rejected) := by decide
example : (step true exS5 exT5 (.ok [.put 1 2] [⟨3, 7, 100, true, false⟩, ⟨7, 9, 40, true, false⟩, ⟨9, 3, 40, true, false⟩] [])).2 = .success := by decide
example : InRange exS5.accts := by intro p hp; simp [exS5] at hp; rcases hp with rfl | rfl <;> simp [u64]

-- non-vacuity: a rejected overdraw between two applied transactions is dropped from the applied sub-history
example : (appliedOnly true exS5 [(exT5, .ok [] [] []), ({ exT5 with nonce := 6 }, .ok [] [⟨7, 9, 4000, true, false⟩] []),
    ({ exT5 with nonce := 6 }, .chargeable [] [] [])]).map (·.1.nonce) = [5, 6] := by decide

end ZChain.Ledger
