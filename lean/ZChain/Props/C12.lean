import ZChain.Proofs.Storage
/-!
# C12 — An allocation's challenge pool equals its blobbers' outstanding values

`Inv12 s := ∀ open allocation k, cps k = some (Σ cv)` over the model `Model/Storage.lean`.

Full statement (DESIGN §5 C12): `cp_eq_sum : Inv12 s → stepRel s op s' → Inv12 s'` for EVERY operation.
It is FALSE of the code and of the model: replacing a killed / shut-down blobber (`replaceBlobber`, models.go
1224-1255) calls `moveFromChallengePool` on a challenge pool object that this branch never saves. Proved here:

* `cp_eq_sum_partial` — every operation except that branch preserves the equality (all amounts that the pricing
  formulas produce are universally quantified, subject only to the model's admissibility checks);
* `cp_eq_sum_reachable_partial` — hence it holds in every state reachable without that branch;
* `killed_replace_breaks` — that branch breaks it whenever the removed blobber still has a positive challenge value,
  and `cp_eq_sum_false` — the full statement is false (negation witness, replayed on the real code by the fixed case
  `replace-killed` of `harness/cmd/storage`; known finding `C12:cp-ne-sum:replace-killed-blobber`);
* `close_empties` — finalize/cancel remove the allocation and its challenge pool node.
-/
namespace ZChain.Storage

attribute [local irreducible] offer

/-- the excluded branch: an update that removes a blobber which is killed or shut down -/
def replacesDead (s : State) : Op → Prop
  | .update _ _ _ _ _ (some _) (some ri) _ _ _ _ => isDead s ri = true
  | _ => False

theorem updLock_isDead {s s' : State} {k j v : Nat} (h : updLock s k j v = .ok s') (ri : Nat) :
    isDead s' ri = isDead s ri := by
  unfold updLock at h
  split at h
  · cases h
  · split at h
    · cases h
    · rename_i s1 h1
      cases h
      unfold payIn at h1
      split at h1
      · cases h1
      · cases h1; rfl

/-- second excluded situation: the extend phase of an update decrements a blobber's challenge value below zero
(`adjustChallengePool`, allocation.go 812: unchecked `uint64` subtraction), or increments a value that such a decrement
left just below 2^64 past 2^64 (allocation.go 803: unchecked `+=`) -/
def extendWraps (s : State) : Op → Prop
  | .update k c value size ext add rem rw cc dp ds =>
      ∃ s2 a, preExtend s k c value size ext add rem rw cc dp = .ok (s2, true) ∧ s2.allocs k = some a ∧ noWrap a.bas ds = false
  | _ => False

/-- third excluded situation: a passed challenge while `num_validators_rewarded = 0` and the validators' share is positive
(`moveToValidators` returns before debiting the pool, challengepool.go 101) -/
def passWithoutValidators (s : State) : Op → Prop
  | .respPass _ _ _ _ V _ _ => s.nvr0 = true ∧ 0 < V
  | _ => False

def excluded12 (s : State) (op : Op) : Prop := replacesDead s op ∨ extendWraps s op ∨ passWithoutValidators s op

theorem updBlobbers_inv12 {s s' : State} {k : Nat} {add rem : Option Nat} {rw cc dp : Nat}
    (h : updBlobbers s k add rem rw cc dp = .ok s')
    (hn : ∀ ri, rem = some ri → add ≠ none → isDead s ri = false) (hi : Inv12 s) : Inv12 s' := by
  unfold updBlobbers at h
  split at h
  · cases h; exact hi
  · cases h
  · exact updAdd_inv12 h hi
  · rename_i ai ri
    have := hn ri rfl (by simp)
    rw [this] at h
    simp only [Bool.false_eq_true, if_false] at h
    exact updReplaceAlive_inv12 h hi

theorem update_inv12_partial {s s' : State} {k : Nat} {c : Caller} {value size : Nat} {ext : Bool}
    {add rem : Option Nat} {rw cc dp : Nat} {ds : List Int}
    (h : update s k c value size ext add rem rw cc dp ds = .ok s')
    (hn : ¬ excluded12 s (.update k c value size ext add rem rw cc dp ds)) (hi : Inv12 s) : Inv12 s' := by
  have hn1 : ∀ ri, rem = some ri → add ≠ none → isDead s ri = false := by
    intro ri hr ha
    cases hd : isDead s ri with
    | false => rfl
    | true =>
      exfalso; apply hn; left
      subst hr
      cases add with
      | none => exact absurd rfl ha
      | some ai => exact hd
  have hn2 : ∀ s2 a, preExtend s k c value size ext add rem rw cc dp = .ok (s2, true) → s2.allocs k = some a → noWrap a.bas ds = true := by
    intro s2 a hp ha
    cases hw : noWrap a.bas ds with
    | true => rfl
    | false => exact absurd (Or.inr (Or.inl ⟨s2, a, hp, ha, hw⟩)) hn
  have hpre : ∀ s2 b, preExtend s k c value size ext add rem rw cc dp = .ok (s2, b) → Inv12 s2 := by
    intro s2 b hp
    unfold preExtend at hp
    split at hp
    · cases hp
    · split at hp
      · split at hp
        · cases hp
        · dsimp only at hp
          split at hp
          · split at hp
            · cases hp
            · split at hp
              · cases hp
              · rename_i s1 h1; cases hp; exact updLock_inv12 h1 hi
          · split at hp
            · cases hp
            · rename_i s1 h1
              split at hp
              · cases hp
              · rename_i s2' h2
                cases hp
                refine updBlobbers_inv12 h2 ?_ (updLock_inv12 h1 hi)
                intro ri hr ha
                rw [updLock_isDead h1]; exact hn1 ri hr ha
      · cases hp
  rw [update_eq] at h
  split at h
  · cases h
  · rename_i s2 hp
    exact updExtend_inv12 h (fun a ha => hn2 s2 a hp ha) (hpre s2 true hp)
  · rename_i s2 hp
    cases h; exact hpre _ false hp

/-- **C12, all operations outside the three excluded situations.** -/
theorem cp_eq_sum_partial {s s' : State} {op : Op} (hi : Inv12 s) (h : stepRel s op s') (hn : ¬ excluded12 s op) :
    Inv12 s' := by
  unfold stepRel at h
  cases op with
  | addBlobber i c p => exact inv12_frame (addBlobber_frame h) hi
  | addValidator i => exact inv12_frame (addValidator_frame h) hi
  | stake v i j amt => exact inv12_frame (stake_frame h) hi
  | unstake v i j amt rew => exact inv12_frame (unstake_frame h) hi
  | collect v i j rew => exact inv12_frame (collect_frame h) hi
  | updBlobber i c p => exact inv12_frame (updBlobber_frame h) hi
  | killBlobber i n d => exact inv12_frame (killBlobber_frame h) hi
  | shutBlobber i n d => exact inv12_frame (shutBlobber_frame h) hi
  | killValidator i n d => exact inv12_frame (killValidator_frame h) hi
  | newAlloc j data size value chosen => exact newAlloc_inv12 h hi
  | update k c value size ext add rem rw cc dp ds => exact update_inv12_partial h hn hi
  | commit k i size move => exact commit_inv12 h hi
  | respPass k i D m V dp cr =>
    refine respPass_inv12 h ?_ hi
    cases hv : s.nvr0 with
    | false => exact Or.inl rfl
    | true =>
      right
      cases V with
      | zero => rfl
      | succ v => exact absurd (Or.inr (Or.inr ⟨hv, Nat.succ_pos v⟩)) hn
  | close fin k c X per rates => exact close_inv12 h hi
  | wpLock k j v => exact wpLock_inv12 h hi
  | rpLock j v => exact inv12_frame (rpLock_frame h) hi
  | rpUnlock j v => exact inv12_frame (rpUnlock_frame h) hi
  | readRedeem k i j p => exact inv12_frame (readRedeem_frame h) hi
  | tick dt => simp only [step] at h; cases h; exact inv12_frame ⟨rfl, rfl⟩ hi
  | noop => simp only [step] at h; cases h; exact hi

/-- states reachable from the initial state by admissible operations outside the excluded situations -/
inductive ReachableNoDeadReplace : State → Prop
  | init : ReachableNoDeadReplace init
  | step {s s' : State} {op : Op} : ReachableNoDeadReplace s → stepRel s op s' → ¬ excluded12 s op →
      ReachableNoDeadReplace s'

theorem inv12_init : Inv12 init := by
  intro k a h; simp [init] at h

/-- **C12 over histories** (without the excluded branch). -/
theorem cp_eq_sum_reachable_partial {s : State} (h : ReachableNoDeadReplace s) : Inv12 s := by
  induction h with
  | init => exact inv12_init
  | step _ hs hn ih => exact cp_eq_sum_partial ih hs hn

/-- closing empties: allocation node and challenge pool node are both gone. -/
theorem close_empties {s s' : State} {fin : Bool} {k : Nat} {c : Caller} {X : Nat} {per : List (Nat × Nat)}
    {rates : List (Nat × Nat × Nat)} (h : stepRel s (.close fin k c X per rates) s') : s'.allocs k = none ∧ s'.cps k = none :=
  close_removes h

/-- The killed branch of `replaceBlobber` breaks the equality whenever the removed blobber's challenge value is
positive: the allocation loses that blobber's value, the stored pool keeps it. -/
theorem killed_replace_breaks {s s' : State} {k ai ri : Nat} {a : Alloc} {d : BA}
    (hi : Inv12 s) (ha : s.allocs k = some a) (hd : findBA a.bas ri = some d) (hpos : 0 < d.cv)
    (h : updReplaceKilled s k ai ri = .ok s') : ¬ Inv12 s' := by
  intro hi'
  unfold updReplaceKilled at h
  split at h
  · rename_i a0 cp nb spa ha0 hcp _ _
    rw [ha] at ha0; cases ha0
    rw [hd] at h
    dsimp only at h
    ok_branches h
    have h1 := hi' k _ (Map.set_same _ _ _)
    have h0 := hi k a ha
    simp only at h1
    rw [h0] at h1
    have := sumCv_setBA (d' := ⟨ai, bsize a.size a.data, nb.price, 0, 0⟩) hd
    simp only at this
    injection h1 with h1
    omega
  · cases h

/-! ### negation witness of the full statement -/

/-- one allocation (owner 3) on blobbers 0 and 1, 500 tokens of challenge value each; blobber 1 is killed; blobber 2 is
alive and free. -/
def witnessState : State :=
  { init with
    nallocs := 1, wallet := 3000,
    allocs := fun k => if k = 0 then some ⟨3, init.now + TU, 1000, 1000, 0, 2048, 1, [⟨0, 2048, 10, 500, 100⟩, ⟨1, 2048, 10, 500, 100⟩]⟩ else none,
    cps := fun k => if k = 0 then some 1000 else none,
    blobbers := fun i => if i = 0 then some ⟨100000, 2048, 100, false, 10⟩ else if i = 1 then some ⟨100000, 2048, 100, true, 10⟩
                         else if i = 2 then some ⟨100000, 0, 0, false, 10⟩ else none,
    sps := fun i => if i < 3 then some ⟨0, 20000000000, 0, decide (i = 1)⟩ else none }

def witnessOp : Op := .update 0 (.client 3) 0 0 false (some 2) (some 1) 0 0 0 []

theorem witness_inv : Inv12 witnessState := by
  intro k a h
  by_cases hk : k = 0
  · subst hk
    simp only [witnessState, if_true] at h ⊢
    cases h; rfl
  · simp [witnessState, hk] at h

/-- the state after the witness operation (the `match` only extracts the result; `witness_steps` shows it succeeds) -/
def witnessAfter : State :=
  match step witnessState witnessOp with
  | .ok s' => s'
  | .error _ => witnessState

theorem witness_steps : stepRel witnessState witnessOp witnessAfter := by
  have h : (match step witnessState witnessOp with | .ok _ => true | .error _ => false) = true := by decide +kernel
  unfold stepRel witnessAfter
  cases hr : step witnessState witnessOp with
  | ok s' => rfl
  | error e => rw [hr] at h; cases h

/-- after the operation the stored challenge pool still holds 1000 while the blobbers' values sum to 500 -/
theorem witness_after_pool : witnessAfter.cps 0 = some 1000 := by decide +kernel
theorem witness_after_sum : (witnessAfter.allocs 0).map (fun a => sumCv a.bas) = some 500 := by decide +kernel

/-- **The full C12 statement is false**: there is a state satisfying the equality and one admissible operation after
which an open allocation's challenge pool differs from the sum of its blobbers' challenge values. -/
theorem cp_eq_sum_false : ¬ (∀ (s s' : State) (op : Op), Inv12 s → stepRel s op s' → Inv12 s') := by
  intro hall
  have hbad := hall _ _ _ witness_inv witness_steps
  have h2 := witness_after_sum
  cases ha : witnessAfter.allocs 0 with
  | none => rw [ha] at h2; simp at h2
  | some a =>
    rw [ha] at h2
    simp only [Option.map_some, Option.some.injEq] at h2
    have h1 := hbad 0 a ha
    rw [witness_after_pool, h2] at h1
    simp at h1

/-- the witness operation is exactly the excluded branch -/
theorem witness_is_dead_replace : replacesDead witnessState witnessOp := by
  simp [replacesDead, witnessOp, isDead, witnessState]

/-! ### negation witnesses of the other two excluded situations -/

/-- extend with an adjustment of −600 for blobber 1 whose challenge value is 500: the value wraps to 2^64 − 100 -/
def opExtendWrap : Op := .update 0 (.client 3) 0 0 true none none 0 0 0 [0, -600]

theorem extend_wrap_breaks : stepRel witnessState opExtendWrap (after witnessState opExtendWrap) ∧
    ¬ Inv12 (after witnessState opExtendWrap) ∧ extendWraps witnessState opExtendWrap := by
  refine ⟨stepRel_after (by decide +kernel), ?_, ?_⟩
  · intro hbad
    have h1 : (after witnessState opExtendWrap).cps 0 = some 400 := by decide +kernel
    have h2 : ((after witnessState opExtendWrap).allocs 0).map (fun a => sumCv a.bas) = some (2 ^ 64 + 400) := by decide +kernel
    cases ha : (after witnessState opExtendWrap).allocs 0 with
    | none => rw [ha] at h2; simp at h2
    | some a =>
      rw [ha] at h2
      simp only [Option.map_some, Option.some.injEq] at h2
      have := hbad 0 a ha
      rw [h1, h2] at this
      simp at this
  · have hp : (match preExtend witnessState 0 (.client 3) 0 0 true none none 0 0 0 with
        | .ok (s2, true) => (match s2.allocs 0 with
            | some a => !noWrap a.bas [0, -600]
            | none => false)
        | _ => false) = true := by decide +kernel
    cases hpe : preExtend witnessState 0 (.client 3) 0 0 true none none 0 0 0 with
    | error e => rw [hpe] at hp; cases hp
    | ok r =>
      obtain ⟨s2, b⟩ := r
      rw [hpe] at hp
      cases b with
      | false => cases hp
      | true =>
        simp only at hp
        cases ha : s2.allocs 0 with
        | none => rw [ha] at hp; cases hp
        | some a =>
          rw [ha] at hp
          exact ⟨s2, a, hpe, ha, by simpa using hp⟩

/-- a passed challenge (value reduced by 100, validators' share 10) with `num_validators_rewarded = 0`: the pool keeps
the validators' 10 -/
def opPassNoValidators : Op := .respPass 0 0 100 0 10 0 []

theorem pass_without_validators_breaks :
    stepRel { witnessState with nvr0 := true } opPassNoValidators (after { witnessState with nvr0 := true } opPassNoValidators) ∧
    ¬ Inv12 (after { witnessState with nvr0 := true } opPassNoValidators) ∧
    passWithoutValidators { witnessState with nvr0 := true } opPassNoValidators := by
  refine ⟨stepRel_after (by decide +kernel), ?_, ⟨rfl, by decide⟩⟩
  intro hbad
  have h1 : (after { witnessState with nvr0 := true } opPassNoValidators).cps 0 = some 910 := by decide +kernel
  have h2 : ((after { witnessState with nvr0 := true } opPassNoValidators).allocs 0).map (fun a => sumCv a.bas) = some 900 := by decide +kernel
  cases ha : (after { witnessState with nvr0 := true } opPassNoValidators).allocs 0 with
  | none => rw [ha] at h2; simp at h2
  | some a =>
    rw [ha] at h2
    simp only [Option.map_some, Option.some.injEq] at h2
    have := hbad 0 a ha
    rw [h1, h2] at this
    simp at this

/-! ### non-vacuity -/

/-- the invariant's hypothesis is met by a state with a funded, partly used allocation, and a non-trivial operation
(an upload of 64 tokens' worth to blobber 0) is admissible in it -/
example : Inv12 witnessState ∧ ∃ s', stepRel witnessState (.commit 0 0 10 64) s' ∧ ¬ excluded12 witnessState (.commit 0 0 10 64) := by
  refine ⟨witness_inv, ?_⟩
  unfold stepRel step
  simp [commit, witnessState, init, findBA, replacesDead, excluded12, extendWraps, passWithoutValidators]

/-- a close is admissible in the witness state after expiry (owner finalizes; nothing paid to blobbers) -/
example : ∃ s', stepRel { witnessState with now := init.now + TU, sps := fun i => if i < 3 then some ⟨offer 2048 10, 20000000000, 0, false⟩ else none }
    (.close true 0 (.client 3) 0 [(0, 0), (0, 0)] [(1, 1, 0), (1, 1, 0)]) s' := by
  unfold stepRel step
  simp [close, witnessState, init, offersReleasable, BA.offer, sumCr, closeBlobbers, credit, minStake, payOut, Map.set, payBounded, sumCc, costOf]

end ZChain.Storage
