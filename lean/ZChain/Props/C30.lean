import ZChain.Proofs.TxnHash
import ZChain.Generated.C30
/-!
# C30 — Transaction signatures bind every field that affects execution

> A transaction is accepted only if its hash is the hash of its contents and its signature verifies under the
> public key whose hash is its client id. Altering any field that changes what the transaction does or costs (time,
> nonce, sender, recipient, value, data, fee, type) invalidates it.

All statements are about `Model/TxnHash.lean` interpreted over `Generated.C30.table`, which `harness/cmd/xc30`
re-extracts from `chaincore/transaction/entity.go` on every run (ordered hash-data terms of `HashData`, the checks of
`ValidateWrtTimeForBlock`, the steps of `ComputeProperties`/`ComputeClientID`, the arguments of `Verify`); side
conditions about the table are DECIDED on it. `harness/cmd/c30` ties the interpreter to the real code with real
ed25519 and BLS key pairs (bit-exact SHA3 hashes, rejection classes).

Acceptance = `accept` = what a received transaction goes through: `ComputeProperties` (run by every decoder, it
contains `ComputeClientID`) and then `ValidateWrtTimeForBlock`. `ValidateWrtTimeForBlock` ALONE does not establish
"public key whose hash is its client id": `validate_alone_accepts_foreign_key`.

`H` (= `encryption.Hash`) is an arbitrary function; `Function.Injective H` is a hypothesis, never an axiom.
Signatures are idealised (`Env.signed`): a signature verifies under a key iff the real `Sign` produced it for that
key and message; the harness compares this with the real `Verify` of both schemes.

FULL STATEMENT, not provable, of the second sentence: "for every accepted transaction and every field `f` in {time,
nonce, sender, recipient, value, data, fee, type}, changing `f` (hash and signature kept) makes `accept` reject".
It is FALSE of the code for `fee` and `type`: `fee_not_bound`, `type_not_bound` (negation witnesses, replayed on the
real code by `harness/cmd/c30`; findings `C30:fee-not-bound`, `C30:type-not-bound`). The proved part is
`tamper_invalidates_partial` (time, nonce, sender, recipient, value, data).
-/
namespace ZChain.C30
open ZChain.HashBind ZChain.TxnHash

abbrev T : Table := ZChain.Generated.C30.table

/-! ## facts decided on the generated table -/

theorem table_wellTyped : T.wellTyped = true := by decide
theorem terms_nodup : T.terms.Nodup := by decide
theorem fields_distinct : T.fieldsDistinct = true := by decide
theorem sep_is_colon : T.sep = colon := by decide
theorem verify_args : T.sigArg = .signature ∧ T.msgArg = .hash := by decide
theorem steps : T.propSteps = [.chainDefault, .scDataJson, .computeClientID] ∧
    T.idSteps = [.pkNonEmpty, .verifyIfSet, .deriveIfEmpty] := by decide
theorem checks : T.checks = [.toHashOrEmpty, .chainValid, .hashNonEmpty, .withinTime, .senderNotRecipient,
    .hashMatches, .sigIfRequested, .outputHashIfSet] := by decide

/-- the struct fields NO hash-data term reads — the complete list, decided on the generated table -/
theorem unread_fields_exact :
    (T.fields.map (·.1)).filter (fun f => !(T.terms.any (·.reads f))) =
      [.hash, .collectionMemberField, .version, .smartContractData, .publicKey, .chainID, .signature, .fee,
       .transactionType, .transactionOutput, .outputHash, .status] := by decide

/-! ## single-field tampering changes the hash (only `H` injective is used) -/

section tamper
variable (H : Str → Str) (hH : Function.Injective H)
include hH

theorem single_str (f : Field) (t0 : Term) (hr : t0.reads f = true) (hmem : t0 ∈ T.terms) (t : Txn) (v : Str)
    (h : computeHash T H (t.setStr f v) = computeHash T H t) : render H (t.setStr f v) t0 = render H t t0 :=
  hashData_single T H t (t.setStr f v) t0 hmem terms_nodup
    (fun x hx hne => render_setStr_of_not_reads H t f v x (other_not_reads T fields_distinct hmem hx hne hr)) (hH h)

theorem single_int (f : Field) (t0 : Term) (hr : t0.reads f = true) (hmem : t0 ∈ T.terms) (t : Txn) (v : Int)
    (h : computeHash T H (t.setInt f v) = computeHash T H t) : render H (t.setInt f v) t0 = render H t t0 :=
  hashData_single T H t (t.setInt f v) t0 hmem terms_nodup
    (fun x hx hne => render_setInt_of_not_reads H t f v x (other_not_reads T fields_distinct hmem hx hne hr)) (hH h)

/-- time -/
theorem tamper_creationDate (t : Txn) (v : Int) (hv : v ≠ t.int .creationDate) :
    computeHash T H (t.setInt .creationDate v) ≠ computeHash T H t := by
  intro h
  have := single_int H hH .creationDate (.dec .creationDate) (by decide) (by decide) t v h
  exact hv (renderInt_injective (by simpa [render, Txn.setInt] using this))

theorem tamper_nonce (t : Txn) (v : Int) (hv : v ≠ t.int .nonce) :
    computeHash T H (t.setInt .nonce v) ≠ computeHash T H t := by
  intro h
  have := single_int H hH .nonce (.dec .nonce) (by decide) (by decide) t v h
  exact hv (renderInt_injective (by simpa [render, Txn.setInt] using this))

/-- sender -/
theorem tamper_clientID (t : Txn) (v : Str) (hv : v ≠ t.str .clientID) :
    computeHash T H (t.setStr .clientID v) ≠ computeHash T H t := by
  intro h
  have := single_str H hH .clientID (.str .clientID) (by decide) (by decide) t v h
  exact hv (by simpa [render, Txn.setStr] using this)

/-- recipient -/
theorem tamper_toClientID (t : Txn) (v : Str) (hv : v ≠ t.str .toClientID) :
    computeHash T H (t.setStr .toClientID v) ≠ computeHash T H t := by
  intro h
  have := single_str H hH .toClientID (.str .toClientID) (by decide) (by decide) t v h
  exact hv (by simpa [render, Txn.setStr] using this)

/-- value (a `uint64`: both values non-negative) -/
theorem tamper_value (t : Txn) (v : Int) (h0 : 0 ≤ t.int .value) (h1 : 0 ≤ v) (hv : v ≠ t.int .value) :
    computeHash T H (t.setInt .value v) ≠ computeHash T H t := by
  intro h
  have := single_int H hH .value (.udec .value) (by decide) (by decide) t v h
  have := renderNat_injective (by simpa [render, Txn.setInt] using this)
  omega

/-- data (hashed before it is joined: `H` is used twice) -/
theorem tamper_data (t : Txn) (v : Str) (hv : v ≠ t.str .transactionData) :
    computeHash T H (t.setStr .transactionData v) ≠ computeHash T H t := by
  intro h
  have := single_str H hH .transactionData (.hashOf .transactionData) (by decide) (by decide) t v h
  exact hv (hH (by simpa [render, Txn.setStr] using this))

/-! `binds_<field>`: one name per field the property lists that IS bound, each resting on a membership fact decided
against the GENERATED term list (inside the `tamper_*` proofs); `fee` and `type` have negation witnesses below. -/
theorem binds_time (t : Txn) (v : Int) (hv : v ≠ t.int .creationDate) :
    computeHash T H (t.setInt .creationDate v) ≠ computeHash T H t := tamper_creationDate H hH t v hv
theorem binds_nonce (t : Txn) (v : Int) (hv : v ≠ t.int .nonce) :
    computeHash T H (t.setInt .nonce v) ≠ computeHash T H t := tamper_nonce H hH t v hv
theorem binds_sender (t : Txn) (v : Str) (hv : v ≠ t.str .clientID) :
    computeHash T H (t.setStr .clientID v) ≠ computeHash T H t := tamper_clientID H hH t v hv
theorem binds_recipient (t : Txn) (v : Str) (hv : v ≠ t.str .toClientID) :
    computeHash T H (t.setStr .toClientID v) ≠ computeHash T H t := tamper_toClientID H hH t v hv
theorem binds_value (t : Txn) (v : Int) (h0 : 0 ≤ t.int .value) (h1 : 0 ≤ v) (hv : v ≠ t.int .value) :
    computeHash T H (t.setInt .value v) ≠ computeHash T H t := tamper_value H hH t v h0 h1 hv
theorem binds_data (t : Txn) (v : Str) (hv : v ≠ t.str .transactionData) :
    computeHash T H (t.setStr .transactionData v) ≠ computeHash T H t := tamper_data H hH t v hv

end tamper

/-! ## what acceptance establishes -/

/-- `ComputeProperties` on the generated steps: what it leaves alone, what it checks, what it derives -/
theorem props_ok (H : Str → Str) (env : Env) (t t' : Txn) (h : computeProperties T H env t = .ok t') :
    t'.int = t.int ∧ (∀ f, f ≠ .clientID → f ≠ .chainID → t'.str f = t.str f) ∧
    (∃ b, hexDecode (t.str .publicKey) = some b ∧ t'.str .clientID = H b) ∧
    (t.str .clientID ≠ [] → t'.str .clientID = t.str .clientID) ∧
    (t.int .transactionType = T.scType → env.jsonOk.contains (t.str .transactionData) = true) ∧
    t.str .publicKey ≠ [] ∧ t'.str .publicKey = t.str .publicKey := by
  unfold computeProperties at h
  rw [steps.1] at h
  -- the chain default touches only ChainID
  have key : ∀ tc : Txn, tc.int = t.int → (∀ f, f ≠ .chainID → tc.str f = t.str f) →
      propGo T H env tc [.scDataJson, .computeClientID] = .ok t' →
      t'.int = t.int ∧ (∀ f, f ≠ .clientID → f ≠ .chainID → t'.str f = t.str f) ∧
      (∃ b, hexDecode (t.str .publicKey) = some b ∧ t'.str .clientID = H b) ∧
      (t.str .clientID ≠ [] → t'.str .clientID = t.str .clientID) ∧
      (t.int .transactionType = T.scType → env.jsonOk.contains (t.str .transactionData) = true) ∧
      t.str .publicKey ≠ [] ∧ t'.str .publicKey = t.str .publicKey := by
    intro tc hi hs hgo
    have epk : tc.str .publicKey = t.str .publicKey := hs _ (by decide)
    have ecl : tc.str .clientID = t.str .clientID := hs _ (by decide)
    have edt : tc.str .transactionData = t.str .transactionData := hs _ (by decide)
    simp only [propGo, computeClientID, steps.2, idGo, hi, epk, ecl, edt] at hgo
    split at hgo
    · cases hgo
    · rename_i hjson
      have hj : t.int .transactionType = T.scType → env.jsonOk.contains (t.str .transactionData) = true := by
        intro e
        cases hc : env.jsonOk.contains (t.str .transactionData) with
        | true => rfl
        | false => exact absurd (by simp_all) hjson
      split at hgo
      · cases hgo
      · rename_i hpk
        split at hgo
        · rename_i hcl
          split at hgo
          · cases hgo
          · rename_i b hb
            split at hgo
            · rename_i hid
              injection hgo with e
              subst e
              exact ⟨hi, fun f _ h2 => hs f h2, ⟨b, hb, by rw [ecl]; exact hid.symm⟩, fun _ => ecl, hj, hpk, epk⟩
            · cases hgo
        · rename_i hcl
          split at hgo
          · cases hgo
          · rename_i b hb
            injection hgo with e
            subst e
            refine ⟨hi, ?_, ⟨b, hb, by simp [Txn.setStr]⟩, fun hne => absurd (by simpa using hcl) hne, hj, hpk, ?_⟩
            · intro f h1 h2
              simp only [Txn.setStr, h1, ↓reduceIte]
              exact hs f h2
            · simp only [Txn.setStr]
              exact epk
  have h' : propGo T H env (if t.str .chainID = [] then t.setStr .chainID (serverChainOrMain env) else t)
      [.scDataJson, .computeClientID] = .ok t' := h
  split at h'
  · exact key (t.setStr .chainID (serverChainOrMain env)) rfl (fun f hf => by simp [Txn.setStr, hf]) h'
  · exact key t rfl (fun _ _ => rfl) h'

/-- the client cache only ever maps an id to a key whose hash it is -/
def CacheOK (H : Str → Str) (cache : List (Str × Str)) : Prop :=
  ∀ e ∈ cache, ∃ b, hexDecode e.2 = some b ∧ H b = e.1

theorem cacheOK_verifySignature (H : Str → Str) (env : Env) (t : Txn) (hc : CacheOK H env.cache) :
    CacheOK H (verifySignature T H env t).2 := by
  unfold verifySignature
  split
  · exact hc
  · split
    · exact hc
    · rename_i b hb
      simp only
      split
      · exact hc
      · intro e he
        rcases List.mem_cons.mp he with rfl | he
        · exact ⟨b, hb, rfl⟩
        · exact hc e he

/-- … so every cache reachable from the empty one by validations is well-formed (`CacheOK` of `accept_only_if`) -/
theorem cacheOK_after (H : Str → Str) (env : Env) (now : Int) (vs : Bool) (t : Txn) (hc : CacheOK H env.cache) :
    CacheOK H (cacheAfter T H env now vs t) ∧ CacheOK H (acceptCache T H env now vs t) := by
  have h1 : ∀ t : Txn, CacheOK H (cacheAfter T H env now vs t) := by
    intro t
    unfold cacheAfter
    simp only
    split
    · exact cacheOK_verifySignature H env t hc
    · exact hc
  refine ⟨h1 t, ?_⟩
  unfold acceptCache
  split
  · exact hc
  · exact h1 _

theorem cacheOK_empty (H : Str → Str) : CacheOK H [] := by intro e he; cases he

/-- **accept_only_if** — the first sentence of C30: an accepted transaction (signature check requested, cache
well-formed) has, after `ComputeProperties` filled in a missing client id / chain id:
hash = hash of its contents, client id = hash of the bytes of its public key, and a signature that verifies for
exactly this hash under exactly this key. -/
theorem accept_only_if (H : Str → Str) (hH : Function.Injective H) (env : Env) (hc : CacheOK H env.cache)
    (now : Int) (t : Txn) (h : accept T H env now true t = none) :
    ∃ t', computeProperties T H env t = .ok t' ∧
      t'.str .hash = computeHash T H t' ∧
      (∃ b, hexDecode (t'.str .publicKey) = some b ∧ H b = t'.str .clientID) ∧
      sigOk env (t'.str .publicKey) (t'.str .hash) (t'.str .signature) = true := by
  obtain ⟨t', hp, hv⟩ := (accept_none_iff T H env now true t).mp h
  have hall := (validate_none_iff T H env now true t').mp hv
  obtain ⟨_, _, ⟨b, hb, hid⟩, _, _, _, epk⟩ := props_ok H env t t' hp
  have hhash := hall .hashMatches (by decide)
  have hsig := hall .sigIfRequested (by decide)
  simp only [checkOk, decide_eq_true_eq] at hhash
  simp only [checkOk, Bool.not_true, Bool.false_or] at hsig
  have hb2 : hexDecode (t'.str .publicKey) = some b := by rw [epk]; exact hb
  refine ⟨t', hp, hhash, ⟨b, hb2, hid.symm⟩, ?_⟩
  -- the key that was used: the cached one for this id, or the transaction's own
  unfold verifySignature at hsig
  rw [verify_args.1, verify_args.2] at hsig
  split at hsig
  · rename_i id pk hfind
    have hmem := List.mem_of_find?_eq_some hfind
    have hkey := List.find?_some hfind
    simp only [decide_eq_true_eq] at hkey
    obtain ⟨b', hb', hid'⟩ := hc _ hmem
    simp only at hb' hid'
    -- same id, injective H: same key bytes
    have : b' = b := hH (by rw [hid', hkey, hid])
    subst this
    unfold sigOk at hsig ⊢
    rw [List.any_eq_true] at hsig ⊢
    obtain ⟨e, he, hcond⟩ := hsig
    refine ⟨e, he, ?_⟩
    simp only [Bool.and_eq_true, decide_eq_true_eq] at hcond ⊢
    rw [hb2]
    rw [hb'] at hcond
    exact ⟨⟨⟨hcond.1.1.1, by simp⟩, hcond.1.2⟩, hcond.2⟩
  · split at hsig
    · cases hsig
    · exact hsig

/-- **accepted transactions with the same hash agree on every bound field** (collision form; the separator
conditions are discharged by acceptance itself: the client id is an output of `H`, the recipient passed
`IsHash`-or-empty). In particular the two public keys are the same key. -/
theorem accepted_same_hash (H : Str → Str) (hH : Function.Injective H) (hHfree : ∀ x, colon ∉ H x)
    (env1 env2 : Env) (now1 now2 : Int) (vs1 vs2 : Bool) (t1 t2 : Txn)
    (v1 : 0 ≤ t1.int .value) (v2 : 0 ≤ t2.int .value)
    (a1 : accept T H env1 now1 vs1 t1 = none) (a2 : accept T H env2 now2 vs2 t2 = none)
    (hh : t1.str .hash = t2.str .hash) :
    t1.int .creationDate = t2.int .creationDate ∧ t1.int .nonce = t2.int .nonce ∧
    t1.str .toClientID = t2.str .toClientID ∧ t1.int .value = t2.int .value ∧
    t1.str .transactionData = t2.str .transactionData ∧
    hexDecode (t1.str .publicKey) = hexDecode (t2.str .publicKey) ∧
    (t1.str .clientID ≠ [] → t2.str .clientID ≠ [] → t1.str .clientID = t2.str .clientID) := by
  obtain ⟨t1', hp1, hv1⟩ := (accept_none_iff T H env1 now1 vs1 t1).mp a1
  obtain ⟨t2', hp2, hv2⟩ := (accept_none_iff T H env2 now2 vs2 t2).mp a2
  have c1 := (validate_none_iff T H env1 now1 vs1 t1').mp hv1
  have c2 := (validate_none_iff T H env2 now2 vs2 t2').mp hv2
  obtain ⟨i1, s1, ⟨b1, hb1, id1⟩, k1, _, _, _⟩ := props_ok H env1 t1 t1' hp1
  obtain ⟨i2, s2, ⟨b2, hb2, id2⟩, k2, _, _, _⟩ := props_ok H env2 t2 t2' hp2
  have hm1 := c1 .hashMatches (by decide)
  have hm2 := c2 .hashMatches (by decide)
  have to1 := c1 .toHashOrEmpty (by decide)
  have to2 := c2 .toHashOrEmpty (by decide)
  simp only [checkOk, decide_eq_true_eq] at hm1 hm2
  simp only [checkOk, Bool.or_eq_true, decide_eq_true_eq] at to1 to2
  have hhash : computeHash T H t1' = computeHash T H t2' := by
    rw [← hm1, ← hm2, s1 .hash (by decide) (by decide), s2 .hash (by decide) (by decide), hh]
  have free : ∀ (t' : Txn) (b : Str), t'.str .clientID = H b → (isHash (t'.str .toClientID) = true ∨ t'.str .toClientID = []) →
      ∀ f, Term.str f ∈ T.terms → colon ∉ t'.str f := by
    intro t' b hid hto f hf
    have : f = .clientID ∨ f = .toClientID := by revert hf; cases f <;> decide
    rcases this with rfl | rfl
    · rw [hid]; exact hHfree b
    · rcases hto with h | h
      · exact isHash_colon_free _ h
      · rw [h]; simp
  have hall := TxnHash.hashData_injective T H sep_is_colon hHfree (by decide) t1' t2'
    (free t1' b1 id1 to1) (free t2' b2 id2 to2) (hH hhash)
  have e1 := hall (.dec .creationDate) (by decide)
  have e2 := hall (.dec .nonce) (by decide)
  have e3 := hall (.str .clientID) (by decide)
  have e4 := hall (.str .toClientID) (by decide)
  have e5 := hall (.udec .value) (by decide)
  have e6 := hall (.hashOf .transactionData) (by decide)
  simp only [render] at e1 e2 e3 e4 e5 e6
  rw [i1, i2] at e1 e2 e5
  rw [s1 .toClientID (by decide) (by decide), s2 .toClientID (by decide) (by decide)] at e4
  rw [s1 .transactionData (by decide) (by decide), s2 .transactionData (by decide) (by decide)] at e6
  have hv := renderNat_injective e5
  refine ⟨renderInt_injective e1, renderInt_injective e2, e4, by omega, hH e6, ?_, ?_⟩
  · rw [hb1, hb2]
    congr 1
    exact hH (by rw [← id1, ← id2, e3])
  · intro n1 n2
    rw [← k1 n1, ← k2 n2, e3]

/-- **tamper_invalidates_partial** — the provable part of the second sentence of C30: starting from an accepted
transaction, altering the time, the nonce, the recipient, the value, the data, or the sender (client id or the
key bytes) while keeping hash and signature yields a transaction that is NOT accepted — whatever the cache, the
verification time and the signature flag of the second check. -/
theorem tamper_invalidates_partial (H : Str → Str) (hH : Function.Injective H) (hHfree : ∀ x, colon ∉ H x)
    (env env' : Env) (now now' : Int) (vs vs' : Bool) (t t' : Txn)
    (hv : 0 ≤ t.int .value) (hv' : 0 ≤ t'.int .value)
    (hacc : accept T H env now vs t = none) (hkeep : t'.str .hash = t.str .hash)
    (hchg : t'.int .creationDate ≠ t.int .creationDate ∨ t'.int .nonce ≠ t.int .nonce ∨
      t'.str .toClientID ≠ t.str .toClientID ∨ t'.int .value ≠ t.int .value ∨
      t'.str .transactionData ≠ t.str .transactionData ∨
      hexDecode (t'.str .publicKey) ≠ hexDecode (t.str .publicKey) ∨
      (t'.str .clientID ≠ [] ∧ t.str .clientID ≠ [] ∧ t'.str .clientID ≠ t.str .clientID)) :
    accept T H env' now' vs' t' ≠ none := by
  intro hacc'
  obtain ⟨e1, e2, e3, e4, e5, e6, e7⟩ := accepted_same_hash H hH hHfree env' env now' now vs' vs t' t hv' hv hacc' hacc hkeep
  rcases hchg with h | h | h | h | h | h | ⟨h1, h2, h3⟩
  · exact h e1
  · exact h e2
  · exact h e3
  · exact h e4
  · exact h e5
  · exact h e6
  · exact h3 (e7 h1 h2)

/-! ## negation witnesses -/

/-- **the fee is NOT bound**: `Fee` is read neither by `HashData` nor by any check of the acceptance path (decided on
the generated table), so changing it changes neither the hash nor the verdict, for every hash function, environment,
time and flag. Replayed on the real code with real keys (finding `C30:fee-not-bound`). -/
theorem fee_not_bound (H : Str → Str) (env : Env) (now : Int) (vs : Bool) (t : Txn) (v : Int) :
    computeHash T H (t.setInt .fee v) = computeHash T H t ∧
    accept T H env now vs (t.setInt .fee v) = accept T H env now vs t :=
  ⟨computeHash_setInt_unread T H .fee (by decide) t v,
   accept_setInt_unread T H env now vs .fee v (by decide) (by decide) t (by simp [Txn.setInt])⟩

/-- **the type is NOT bound**: `TransactionType` is not read by `HashData`; the acceptance path looks at it only to
decide whether the data must parse as smart-contract data. Changing the type between any two values other than
`TxnTypeSmartContract` — e.g. a token transfer (`0`) into a data transaction (`10`) that moves nothing — changes neither
hash nor verdict. Replayed on the real code (finding `C30:type-not-bound`). -/
theorem type_not_bound (H : Str → Str) (env : Env) (now : Int) (vs : Bool) (t : Txn) (v : Int)
    (h0 : t.int .transactionType ≠ T.scType) (h1 : v ≠ T.scType) :
    computeHash T H (t.setInt .transactionType v) = computeHash T H t ∧
    accept T H env now vs (t.setInt .transactionType v) = accept T H env now vs t :=
  ⟨computeHash_setInt_unread T H .transactionType (by decide) t v,
   accept_setInt_unread T H env now vs .transactionType v (by decide) (by decide) t (by simp [Txn.setInt, h0, h1])⟩

/-- `ValidateWrtTimeForBlock` ALONE accepts the victim's client id with the attacker's key and signature: the
"public key whose hash is its client id" part of C30 rests on `ComputeProperties` having run (it always has on a
decoded transaction). Concrete instance with the identity as hash function. -/
theorem validate_alone_accepts_foreign_key :
    let env : Env := ⟨[99], [], 10, [([55, 55], [49, 58, 49, 58, 118, 58, 58, 48, 58], [115])], [], []⟩
    let t : Txn := ⟨fun f => if f = .clientID then [118] else if f = .publicKey then [55, 55] else if f = .chainID then [99]
        else if f = .hash then [49, 58, 49, 58, 118, 58, 58, 48, 58] else if f = .signature then [115] else [],
      fun f => if f = .creationDate then 1 else if f = .nonce then 1 else 0⟩
    validate T id env 1 true t = none ∧ accept T id env 1 true t = some .pkClientID := by decide

/-! ## non-vacuity -/

/-- an accepted transaction (identity hash): client id `"w"` = `H(bytes of "77")` -/
def demoEnv : Env := ⟨[99], [], 10, [([55, 55], [49, 58, 49, 58, 119, 58, 58, 48, 58], [115])], [], []⟩
def demoTxn : Txn :=
  ⟨fun f => if f = .clientID then [119] else if f = .publicKey then [55, 55] else if f = .chainID then [99]
      else if f = .hash then [49, 58, 49, 58, 119, 58, 58, 48, 58] else if f = .signature then [115] else [],
   fun f => if f = .creationDate then 1 else if f = .nonce then 1 else 0⟩

example : accept T id demoEnv 1 true demoTxn = none := by decide
example : accept T id demoEnv 1 true (demoTxn.setInt .nonce 2) = some (.check .hashMatches) := by decide
example : accept T id demoEnv 1 true (demoTxn.setInt .fee 1000000) = none := by decide
example : accept T id demoEnv 1 true (demoTxn.setInt .transactionType 10) = none := by decide
example : accept T id demoEnv 1 true (demoTxn.setStr .signature [116]) = some (.check .sigIfRequested) := by decide
example : accept T id demoEnv 1 true (demoTxn.setStr .publicKey [56, 56]) = some .pkClientID := by decide
example : accept T id demoEnv 20 true demoTxn = some (.check .withinTime) := by decide
example : CacheOK id demoEnv.cache := by intro e he; cases he
example : 0 ≤ demoTxn.int .value := by decide

end ZChain.C30
