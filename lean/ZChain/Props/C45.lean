import ZChain.Proofs.BlockGen
/-!
# C45 — Blocks built by an honest generator pass honest verification

All theorems are about `generate` (the model of `generateBlock`) for ANY pool contents in ANY iteration order, any prior
state, any configuration, any set of built-in transactions, and any (deterministic) behaviour of the called contracts:
`res : St → CResult` is an arbitrary function of the state the contract runs on.

The property as worded is FALSE of the code in one place (confirmed on the real miner by the C45 harness and registered
in `known_findings.jsonl`); the affected theorems are stated `_partial` with the missing hypothesis spelled out and a
negation witness next to them:
* a function without a cost entry has the estimate `math.MaxInt` (nil error); added to a non-zero running cost it wraps
  negative in Go `int`, the transaction is included and the cost limit no longer binds (`cost_limit_bypassed`), or —
  when the built-in transaction that made the running cost non-zero fails to execute — the verifier, which sums only
  what is in the block, rejects the honest block (`maxint_estimate_fails_verification`).
A second place was REPAIRED in /repo (commit 3af329c) and the model follows the repaired code: a pool transaction from
any client whose function NAME equals a built-in name (`payFees`, …) used to be included next to the generator's own
transaction of that name, and the verifier (`isBuildInTxn` goes by name only) rejected the block. `txnIterHandler` now
skips such a transaction; `builtin_names_at_most_once` is unconditional and `generated_block_verifies_partial` no longer
needs a hypothesis about names. `pool_builtin_name_skipped` / `builtin_named_pool_txn_block_rejected` keep the history.
-/
namespace ZChain.BlockGen
open ZChain.Ledger

variable (cfg : Cfg) (now prevDate : Int) (prior : St) (pool : List PTxn) (bi : Builtins) (waitOver : Bool) (fuel : Nat) (g : GS)

/-- **generated_block_verifies** (state part, unconditional): re-executing the block's transactions in block order
from the same prior state — what `Block.ComputeState` does on the verifying node — applies every one of them (none is
rejected) and reproduces the generator's state after EVERY transaction (`g.trace`, recorded by the generator as it
went), hence the same final state, and the same status for every transaction. -/
theorem generated_block_verifies (h : generate cfg now prevDate prior pool bi waitOver fuel = .ok g) :
    reexec cfg.feeOn prior (blockOf (blockDate now prevDate) g).txns =
      some ((blockOf (blockDate now prevDate) g).final, (blockOf (blockDate now prevDate) g).txns.map (·.status), g.trace) :=
  (generate_spec cfg (blockDate now prevDate) prior pool bi waitOver fuel g h).reex

/-- the block's transactions taken from the pool. -/
def fromPool (e : Entry) : Prop := ∃ n, e.key = Key.pool n

/-- **time_tolerance_agrees**: every pool transaction of a generated block is within the time tolerance OF THE BLOCK'S
creation date — the date the verifier measures against (`ValidateWrtTimeForBlock(ctx, b.CreationDate, …)`), which is
`max(generator's clock, previous block's date)` and in general NOT the generator's clock. A generator that tested
against its own clock instead would put transactions into the block that the verifier must refuse. -/
theorem time_tolerance_agrees (h : generate cfg now prevDate prior pool bi waitOver fuel = .ok g) :
    ∀ e ∈ (blockOf (blockDate now prevDate) g).txns, fromPool e →
      lateAt cfg.tol (blockOf (blockDate now prevDate) g).date e.p = false := by
  obtain ⟨_, ⟨gp, ents, hi, he, hs, _⟩, _⟩ := generate_spec cfg (blockDate now prevDate) prior pool bi waitOver fuel g h
  intro e hm ⟨n, hn⟩
  change e ∈ g.incl at hm
  rw [he, List.mem_append] at hm
  rcases hm with hm | hm
  · exact (hi.good e hm).1
  · obtain ⟨b', _, hk, _⟩ := Sub_mem hs e hm
    rw [hk] at hn; cases hn

/-- the generator's own transactions carry the block's date. -/
theorem builtin_dated_as_block (h : generate cfg now prevDate prior pool bi waitOver fuel = .ok g) :
    ∀ e ∈ (blockOf (blockDate now prevDate) g).txns, (∃ k, e.key = Key.builtin k) →
      e.p.created = (blockOf (blockDate now prevDate) g).date := by
  obtain ⟨_, ⟨gp, ents, hi, he, hs, _⟩, _⟩ := generate_spec cfg (blockDate now prevDate) prior pool bi waitOver fuel g h
  intro e hm ⟨k, hk⟩
  change e ∈ g.incl at hm
  rw [he, List.mem_append] at hm
  rcases hm with hm | hm
  · rw [hi.keys e hm] at hk; cases hk
  · obtain ⟨b', _, _, _, hcr, _⟩ := Sub_mem hs e hm
    exact hcr

/-- **no_duplicate_txn**: no transaction (pool hash or built-in kind) occurs twice in a generated block. -/
theorem no_duplicate_txn (h : generate cfg now prevDate prior pool bi waitOver fuel = .ok g) :
    ((blockOf (blockDate now prevDate) g).txns.map (·.key)).Nodup := by
  obtain ⟨_, ⟨gp, ents, hi, he, hs, _⟩, _⟩ := generate_spec cfg (blockDate now prevDate) prior pool bi waitOver fuel g h
  show (g.incl.map (·.key)).Nodup
  rw [he, List.map_append, List.nodup_append]
  refine ⟨hi.nodup, Sub_keys_nodup hs (list_kinds_nodup bi), ?_⟩
  intro a ha b hb
  rw [List.mem_map] at ha hb
  obtain ⟨e1, he1, rfl⟩ := ha
  obtain ⟨e2, he2, rfl⟩ := hb
  obtain ⟨b', _, hk, _⟩ := Sub_mem hs e2 he2
  rw [hi.keys e1 he1, hk]
  intro hc; cases hc

/-- **builtin_at_most_once** (the generator's own transactions): each kind occurs at most once. -/
theorem builtin_at_most_once (h : generate cfg now prevDate prior pool bi waitOver fuel = .ok g) (k : BuiltinKind) :
    ((blockOf (blockDate now prevDate) g).txns.filter (fun e => e.key = Key.builtin k)).length ≤ 1 := by
  have hn := no_duplicate_txn cfg now prevDate prior pool bi waitOver fuel g h
  generalize (blockOf (blockDate now prevDate) g).txns = l at hn
  induction l with
  | nil => simp
  | cons x xs ih =>
    rw [List.map_cons, List.nodup_cons] at hn
    have := ih hn.2
    by_cases hx : x.key = Key.builtin k
    · have hnone : xs.filter (fun e => decide (e.key = Key.builtin k)) = [] := by
        rw [List.filter_eq_nil_iff]
        intro e he hk
        simp at hk
        exact hn.1 (List.mem_map.mpr ⟨e, he, by rw [hk, hx]⟩)
      simp [hx, hnone]
    · simp [hx]; exact this

/-- the nonces of the block's transactions sent by `i`, in block order. -/
def noncesOf (l : List Entry) (i : Id) : List Int :=
  (l.filter (fun e => e.p.txn.sender = i)).map (fun e => e.p.txn.nonce)

/-- the block as a history of the engine model (each transaction with the result its contract produced). -/
def histOf (feeOn : Bool) : St → List Entry → List (Txn × CResult)
  | _, [] => []
  | s, e :: es => (e.p.txn, e.p.res s) :: histOf feeOn (step feeOn s e.p.txn (e.p.res s)).1 es

theorem applied_eq_noncesOf (feeOn : Bool) (i : Id) : ∀ (l : List Entry) (s : St) (r : St × List Status × List St),
    reexec feeOn s l = some r → appliedNonces feeOn s (histOf feeOn s l) i = noncesOf l i := by
  intro l
  induction l with
  | nil => intro s r _; simp [histOf, appliedNonces, noncesOf]
  | cons x xs ih =>
    intro s r h
    simp only [reexec] at h
    by_cases hx : (step feeOn s x.p.txn (x.p.res s)).2 = Status.rejected
    · simp [hx] at h
    · simp only [hx, if_false] at h
      cases hr : reexec feeOn (step feeOn s x.p.txn (x.p.res s)).1 xs with
      | none => simp [hr] at h
      | some v =>
        have ih' := ih _ v hr
        have hunf : appliedNonces feeOn s (histOf feeOn s (x :: xs)) i =
          (if (step feeOn s x.p.txn (x.p.res s)).2 ≠ Status.rejected ∧ i = x.p.txn.sender then [x.p.txn.nonce] else []) ++
            appliedNonces feeOn (step feeOn s x.p.txn (x.p.res s)).1 (histOf feeOn (step feeOn s x.p.txn (x.p.res s)).1 xs) i := rfl
        rw [hunf, ih']
        unfold noncesOf
        by_cases hi : x.p.txn.sender = i
        · rw [if_pos ⟨hx, hi.symm⟩, List.filter_cons_of_pos (by simpa using hi)]; rfl
        · rw [if_neg (fun c => hi c.2.symm), List.filter_cons_of_neg (by simpa using hi)]; rfl

/-- **nonces_consecutive_per_sender** (via C03 `nonce_history`): in a generated block the transactions of every sender
`i` — pool transactions and, for the generator's own wallet, the built-in ones — carry the nonces
`n₀+1, n₀+2, …` in block order, `n₀` being the sender's nonce in the prior state; no gap, no repeat. -/
theorem nonces_consecutive_per_sender (h : generate cfg now prevDate prior pool bi waitOver fuel = .ok g) (i : Id) :
    noncesOf (blockOf (blockDate now prevDate) g).txns i = seqFrom (get prior.accts i).nonce (noncesOf (blockOf (blockDate now prevDate) g).txns i).length := by
  have hr := generated_block_verifies cfg now prevDate prior pool bi waitOver fuel g h
  have ha := applied_eq_noncesOf cfg.feeOn i _ _ _ hr
  have hh := (nonce_history cfg.feeOn (histOf cfg.feeOn prior (blockOf (blockDate now prevDate) g).txns) prior i).1
  rw [ha] at hh
  exact hh

/-- **builtin_names_at_most_once** (by NAME, which is what the verifier's `isBuildInTxn` looks at; unconditional since
the repair 3af329c): no built-in function name occurs twice in a generated block — the pool iteration skips every pool
transaction that carries such a name, and nothing reaches the future / promoted lists except through that iteration. -/
theorem builtin_names_at_most_once (h : generate cfg now prevDate prior pool bi waitOver fuel = .ok g) :
    ((blockOf (blockDate now prevDate) g).txns.filterMap (fun e => e.p.bname)).Nodup := by
  obtain ⟨_, ⟨gp, ents, hi, he, hs, _⟩, _⟩ := generate_spec cfg (blockDate now prevDate) prior pool bi waitOver fuel g h
  show (g.incl.filterMap (fun e => e.p.bname)).Nodup
  rw [he, List.filterMap_append]
  have hnil : gp.incl.filterMap (fun e => e.p.bname) = [] := by
    rw [List.filterMap_eq_nil_iff]
    intro e hm
    exact hi.names e hm
  rw [hnil, List.nil_append]
  exact Sub_names_nodup hs (list_kinds_nodup bi) (fun b hb => list_props bi b hb)

/-- no pool transaction of a generated block carries a built-in function name. -/
theorem pool_txns_not_builtin_named (h : generate cfg now prevDate prior pool bi waitOver fuel = .ok g) :
    ∀ e ∈ (blockOf (blockDate now prevDate) g).txns, fromPool e → e.p.bname = none := by
  obtain ⟨_, ⟨gp, ents, hi, he, hs, _⟩, _⟩ := generate_spec cfg (blockDate now prevDate) prior pool bi waitOver fuel g h
  intro e hm ⟨n, hn⟩
  change e ∈ g.incl at hm
  rw [he, List.mem_append] at hm
  rcases hm with hm | hm
  · exact hi.names e hm
  · obtain ⟨b', _, hk, _⟩ := Sub_mem hs e hm
    rw [hk] at hn; cases hn

theorem costSum_nonneg (l : List Entry) (hl : ∀ e ∈ l, small e) : 0 ≤ costSum l := by
  induction l with
  | nil => simp [costSum]
  | cons x xs ih =>
    obtain ⟨cx, hcx, hx0, _⟩ := hl x (List.mem_cons_self ..)
    have := ih (fun e he => hl e (List.mem_cons_of_mem _ he))
    simp only [costSum, hcx, Option.getD_some]; omega

/-- the exact (unbounded-integer) cost bound behind `cost_below_limit_partial` and the verifier's cost test. -/
theorem cost_bound (h : generate cfg now prevDate prior pool bi waitOver fuel = .ok g)
    (hmax : cfg.maxBlockCost < two62)
    (hsmall : ∀ e ∈ (blockOf (blockDate now prevDate) g).txns, fromPool e → small e)
    (hb0 : ∀ b ∈ bi.list, 0 ≤ b.2.cost.getD 0) (hbs : bsum bi.list ≤ cfg.maxBlockCost) :
    0 ≤ costSum (blockOf (blockDate now prevDate) g).txns ∧ costSum (blockOf (blockDate now prevDate) g).txns ≤ cfg.maxBlockCost ∧
    ((∃ e ∈ (blockOf (blockDate now prevDate) g).txns, fromPool e) → costSum (blockOf (blockDate now prevDate) g).txns < cfg.maxBlockCost) := by
  obtain ⟨_, ⟨gp, ents, hi, he, hs, _⟩, _⟩ := generate_spec cfg (blockDate now prevDate) prior pool bi waitOver fuel g h
  change ∀ e ∈ g.incl, fromPool e → small e at hsmall
  show 0 ≤ costSum g.incl ∧ costSum g.incl ≤ cfg.maxBlockCost ∧ ((∃ e ∈ g.incl, fromPool e) → costSum g.incl < cfg.maxBlockCost)
  have hgs : ∀ e ∈ gp.incl, small e := fun e hm => hsmall e (by rw [he]; exact List.mem_append_left _ hm) ⟨_, hi.keys e hm⟩
  obtain ⟨hE, hE0⟩ := Sub_cost_le hs hb0
  have hB0 : 0 ≤ bsum bi.list := by
    have : ∀ l : List (BuiltinKind × PTxn), (∀ b ∈ l, 0 ≤ b.2.cost.getD 0) → 0 ≤ bsum l := by
      intro l
      induction l with
      | nil => intro _; simp [bsum]
      | cons b bs ih =>
        intro hl
        have := hl b (List.mem_cons_self ..)
        have := ih (fun b' hb' => hl b' (List.mem_cons_of_mem _ hb'))
        simp only [bsum]; omega
    exact this _ hb0
  have hbc : builtinsCost bi.list = bsum bi.list := by
    rw [builtinsCost_eq, wrap64_id] <;> (unfold two62 at hmax; omega)
  have hcost := hi.costT (by rw [hbc]; exact hB0) (by rw [hbc]; exact hbs) hmax hgs
  have hS0 := costSum_nonneg gp.incl hgs
  rw [he, costSum_append']
  refine ⟨by omega, ?_, ?_⟩
  · by_cases hnil : gp.incl = []
    · rw [hnil]; simp only [costSum]; omega
    · have := hi.costLt hnil; rw [hbc] at hcost; omega
  · intro ⟨e, hm, hp⟩
    have hnil : gp.incl ≠ [] := by
      intro hnil
      rw [hnil, List.nil_append] at hm
      obtain ⟨b', _, hk, _⟩ := Sub_mem hs e hm
      obtain ⟨n, hn⟩ := hp
      rw [hk] at hn; cases hn
    have := hi.costLt hnil; rw [hbc] at hcost; omega

/-- **cost_below_limit_partial**. Full statement — "the exact sum of the cost estimates of a generated block is below
`max_block_cost`" — is false (`cost_limit_bypassed`). It holds when the estimates of the included pool transactions
are moderate non-negative numbers (in particular none is the `MaxInt` of an unknown function) and the built-in
transactions of the round alone do not exceed the limit (a configuration matter): then the sum is `< limit` as soon
as one pool transaction is in the block, and `≤ limit` for a block of built-in transactions only. -/
theorem cost_below_limit_partial (h : generate cfg now prevDate prior pool bi waitOver fuel = .ok g)
    (hmax : cfg.maxBlockCost < two62)
    (hsmall : ∀ e ∈ (blockOf (blockDate now prevDate) g).txns, fromPool e → small e)
    (hb0 : ∀ b ∈ bi.list, 0 ≤ b.2.cost.getD 0) (hbs : bsum bi.list ≤ cfg.maxBlockCost) :
    costSum (blockOf (blockDate now prevDate) g).txns ≤ cfg.maxBlockCost ∧
    ((∃ e ∈ (blockOf (blockDate now prevDate) g).txns, fromPool e) → costSum (blockOf (blockDate now prevDate) g).txns < cfg.maxBlockCost) :=
  (cost_bound cfg now prevDate prior pool bi waitOver fuel g h hmax hsmall hb0 hbs).2

/-- **generated_block_verifies_partial** (the whole `VerifyBlock` pipeline of the model: duplicate test, time
tolerance, duplicated built-in names, cost test, re-execution, state and status comparison). Full statement — "every
generated block verifies" — is false (`maxint_estimate_fails_verification`, `self_send_zero_value_fails_verification`).
It holds under the hypotheses the negation witnesses violate: no transaction of the block is addressed to its own
sender (`self_send_zero_value_fails_verification`), and the cost estimates are moderate (see `cost_below_limit_partial`). -/
theorem generated_block_verifies_partial (h : generate cfg now prevDate prior pool bi waitOver fuel = .ok g)
    (htol : 0 ≤ cfg.tol)
    (hself : ∀ e ∈ (blockOf (blockDate now prevDate) g).txns, e.p.txn.sender ≠ e.p.txn.to)
    (hmax : cfg.maxBlockCost < two62)
    (hsmall : ∀ e ∈ (blockOf (blockDate now prevDate) g).txns, fromPool e → small e)
    (hb0 : ∀ b ∈ bi.list, 0 ≤ b.2.cost.getD 0) (hbs : bsum bi.list ≤ cfg.maxBlockCost) :
    verify cfg prior (blockOf (blockDate now prevDate) g) = .ok () := by
  have hdup := no_duplicate_txn cfg now prevDate prior pool bi waitOver fuel g h
  have hnames := builtin_names_at_most_once cfg now prevDate prior pool bi waitOver fuel g h
  have hre := generated_block_verifies cfg now prevDate prior pool bi waitOver fuel g h
  obtain ⟨hc0, hc1, _⟩ := cost_bound cfg now prevDate prior pool bi waitOver fuel g h hmax hsmall hb0 hbs
  obtain ⟨_, ⟨gp, ents, hi, he, hs, _⟩, hbc⟩ := generate_spec cfg (blockDate now prevDate) prior pool bi waitOver fuel g h
  have hgood : ∀ e ∈ (blockOf (blockDate now prevDate) g).txns, lateAt cfg.tol (blockDate now prevDate) e.p = false ∧ e.p.cost.isSome := by
    intro e hm
    change e ∈ g.incl at hm
    rw [he, List.mem_append] at hm
    rcases hm with hm | hm
    · exact hi.good e hm
    · obtain ⟨b', hb', _, hcst, hcr, _⟩ := Sub_mem hs e hm
      exact ⟨by simp only [lateAt, within, hcr, Bool.not_eq_false', Bool.and_eq_true, decide_eq_true_eq]; omega,
        by rw [hcst]; exact hbc b' hb'⟩
  have hlate : (blockOf (blockDate now prevDate) g).txns.any (fun e => lateAt cfg.tol (blockOf (blockDate now prevDate) g).date e.p) = false := by
    rw [List.any_eq_false]
    intro e hm; have := (hgood e hm).1; simpa [blockOf] using this
  have hcost := blockCost_eq (blockOf (blockDate now prevDate) g).txns (fun e hm => (hgood e hm).2)
  have hselfb : (blockOf (blockDate now prevDate) g).txns.any (fun e => decide (e.p.txn.sender = e.p.txn.to)) = false := by
    rw [List.any_eq_false]
    intro e hm; simpa using hself e hm
  unfold verify
  rw [hasDup_false_of_nodup _ hdup, hlate, hselfb, hasDup_false_of_nodup _ hnames, hcost, hre]
  have hw : wrap64 (costSum (blockOf (blockDate now prevDate) g).txns) = costSum (blockOf (blockDate now prevDate) g).txns := by
    rw [wrap64_id] <;> (unfold two62 at hmax; omega)
  have hng : ¬ (wrap64 (costSum (blockOf (blockDate now prevDate) g).txns) > cfg.maxBlockCost) := by rw [hw]; omega
  simp [hng]

/-- **classify_sound**: `validateTransaction` answers "current" exactly when the transaction is inside the time
tolerance and carries the nonce the engine's test demands (`state nonce + 1`). (The nonce difference is computed in
int64 by the code; the range hypotheses — state nonces below 2^62, the transaction's nonce an int64 not below −2^62 —
exclude the wrap-around.) -/
theorem classify_sound (tol date : Int) (s : St) (p : PTxn)
    (hn0 : 0 ≤ (get s.accts p.txn.sender).nonce) (hn1 : (get s.accts p.txn.sender).nonce < two62)
    (ht0 : -two62 ≤ p.txn.nonce) (ht1 : p.txn.nonce < two63) :
    (classify tol date s p).1 = Cls.current ↔ lateAt tol date p = false ∧ (get s.accts p.txn.sender).nonce + 1 = p.txn.nonce := by
  unfold classify
  cases hl : lateAt tol date p
  · simp only [Bool.false_eq_true, if_false, true_and]
    by_cases hp : present s.accts p.txn.sender = true
    · simp only [hp, Bool.not_true, Bool.false_eq_true, if_false]
      have hw : wrap64 (p.txn.nonce - (get s.accts p.txn.sender).nonce) = p.txn.nonce - (get s.accts p.txn.sender).nonce := by
        rw [wrap64_id] <;> (unfold two62 two63 at *; omega)
      rw [hw]
      split
      · constructor
        · intro hc; cases hc
        · intro; omega
      · split
        · constructor
          · intro hc; cases hc
          · intro; omega
        · constructor
          · intro; omega
          · intro; rfl
    · have hp' : present s.accts p.txn.sender = false := by simpa using hp
      have hz : get s.accts p.txn.sender = Acct.zero := not_present_get s.accts p.txn.sender hp'
      simp only [hp', Bool.not_false, if_true, hz, Acct.zero]
      split
      · constructor
        · intro hc; cases hc
        · intro; omega
      · split
        · constructor
          · intro hc; cases hc
          · intro; omega
        · constructor
          · intro; omega
          · intro; rfl
  · simp

/-- the engine agrees: a transaction classified "current" passes the engine's nonce test, any other is rejected by
`step` whatever else holds (C03 `wrong_nonce_rejected`). -/
theorem not_current_rejected (feeOn : Bool) (tol date : Int) (s : St) (p : PTxn) (r : CResult)
    (hn0 : 0 ≤ (get s.accts p.txn.sender).nonce) (hn1 : (get s.accts p.txn.sender).nonce < two62)
    (ht0 : -two62 ≤ p.txn.nonce) (ht1 : p.txn.nonce < two63)
    (hl : lateAt tol date p = false) (hc : (classify tol date s p).1 ≠ Cls.current) :
    step feeOn s p.txn r = (s, Status.rejected) := by
  apply wrong_nonce_rejected
  intro he
  exact hc ((classify_sound tol date s p hn0 hn1 ht0 ht1).mpr ⟨hl, he.symm⟩)

/-! ## negation witnesses and non-vacuity (concrete pools, evaluated by the kernel) -/

def exCfg (fee : Bool) (maxCost : Int) : Cfg := ⟨fee, maxCost, 1638400, 1, 0, 3, 600⟩
def exPrior : St := { accts := [(3, ⟨5000000000000, 0⟩), (5, ⟨5000000000000, 0⟩), (6, ⟨5000000000000, 3⟩)], store := [] }
def exTxn (key : Nat) (typ : TxnType) (sender : Id) (fee : Nat) (nonce : Int) (cost : Int) (bn : Option BuiltinKind) : PTxn :=
  { key := key, txn := { sender := sender, to := 9, toValid := true, value := 0, fee := fee, nonce := nonce, typ := typ },
    res := fun _ => CResult.ok [] [] [], outLen := fun _ => 4, cost := some cost, estFee := 0, exempt := false, bytes := 50,
    created := 0, bname := bn }
def exPayFees (res : CResult) : Builtins :=
  ⟨some { (exTxn 0 .sc 3 0 0 100 none) with res := fun _ => res }, none, none, none⟩
def maxInt : Int := 9223372036854775807

def keysOf (r : Except GenErr GS) : List Key := match r with | .ok g => g.incl.map (·.key) | .error _ => []
/-- `none` = no block; `some none` = the block verifies; `some (some e)` = the verifier's error. -/
def verdict (cfg : Cfg) (date : Int) (s : St) (r : Except GenErr GS) : Option (Option VErr) :=
  match r with
  | .ok g => some (match verify cfg s (blockOf date g) with | .ok _ => none | .error e => some e)
  | .error _ => none
def exactCost (r : Except GenErr GS) : Int := match r with | .ok g => costSum g.incl | .error _ => 0

/-- non-vacuity: nonces 1, 3, 2 of one sender in this pool order — 3 waits in the future list and is promoted when 2
is in; the fee transaction closes the block; the block verifies. -/
def exPool1 : List PTxn := [exTxn 0 .data 5 0 1 10 none, exTxn 1 .data 5 0 3 10 none, exTxn 2 .sc 5 0 2 10 none]
example : keysOf (generate (exCfg true 10000) 0 0 exPrior exPool1 (exPayFees (.ok [] [] [])) true 20) =
    [Key.pool 0, Key.pool 2, Key.pool 1, Key.builtin .payFees] := by decide
example : verdict (exCfg true 10000) 0 exPrior (generate (exCfg true 10000) 0 0 exPrior exPool1 (exPayFees (.ok [] [] [])) true 20) =
    some none := by decide

/-- clock skew: the previous block is dated 300 s ahead of the generator's clock (`now = 0`), so the new block is dated
300 and the tolerance window is [−300, 900]. A transaction created at −301 is inside the window of the generator's own
clock ([−600, 600]) but outside the block's: it stays out; the one created at −300 goes in; the block verifies. -/
def exAt (key : Nat) (sender : Id) (nonce : Int) (created : Int) : PTxn := { (exTxn key .data sender 0 nonce 10 none) with created := created }
example : keysOf (generate (exCfg false 10000) 0 300 exPrior [exAt 0 5 1 (-301), exAt 1 6 4 (-300), exAt 2 3 1 900, exAt 3 3 2 901]
    ⟨none, none, none, none⟩ true 20) = [Key.pool 1, Key.pool 2] := by decide
example : verdict (exCfg false 10000) 300 exPrior (generate (exCfg false 10000) 0 300 exPrior
    [exAt 0 5 1 (-301), exAt 1 6 4 (-300), exAt 2 3 1 900, exAt 3 3 2 901] ⟨none, none, none, none⟩ true 20) = some none := by decide
/-- what the verifier says to a block that holds the −301 transaction (as a wall-clock generator would build it). -/
example : (match verify (exCfg false 10000) exPrior ⟨300, [⟨Key.pool 0, exAt 0 5 1 (-301), .success⟩], exPrior⟩ with
    | .ok _ => none | .error e => some e) = some VErr.txn := by decide

/-- the hypotheses of the `_partial` theorems as a computable test (for the non-vacuity example below). -/
def hypsHold (cfg : Cfg) (bi : Builtins) (r : Except GenErr GS) : Bool :=
  match r with
  | .ok g =>
    g.incl.all (fun e => match e.key with
      | .pool _ => (match e.p.cost with | some c => decide (0 ≤ c) && decide (c < two62) | none => false)
      | .builtin _ => true)
    && g.incl.all (fun e => decide (e.p.txn.sender ≠ e.p.txn.to)) && decide (0 ≤ cfg.tol) && decide (cfg.maxBlockCost < two62) && bi.list.all (fun b => decide (0 ≤ b.2.cost.getD 0)) && decide (bsum bi.list ≤ cfg.maxBlockCost)
  | .error _ => false

theorem hypsHold_sound (cfg : Cfg) (date : Int) (bi : Builtins) (g : GS) (h : hypsHold cfg bi (.ok g) = true) :
    (∀ e ∈ (blockOf date g).txns, e.p.txn.sender ≠ e.p.txn.to) ∧ 0 ≤ cfg.tol ∧ cfg.maxBlockCost < two62 ∧
    (∀ e ∈ (blockOf date g).txns, fromPool e → small e) ∧ (∀ b ∈ bi.list, 0 ≤ b.2.cost.getD 0) ∧ bsum bi.list ≤ cfg.maxBlockCost := by
  simp only [hypsHold, Bool.and_eq_true, List.all_eq_true, decide_eq_true_eq] at h
  obtain ⟨⟨⟨⟨⟨h1, hs⟩, h0⟩, h2⟩, h3⟩, h4⟩ := h
  refine ⟨fun e he => by simpa using hs e he, h0, h2, ?_, h3, h4⟩
  intro e he ⟨n, hn⟩
  have := h1 e he
  rw [hn] at this
  cases hc : e.p.cost with
  | none => simp [hc] at this
  | some c =>
    simp only [hc, Bool.and_eq_true, decide_eq_true_eq] at this
    exact ⟨c, hc, this.1, this.2⟩

/-- non-vacuity of `generated_block_verifies_partial` / `cost_below_limit_partial`:
the block generated from `exPool1` meets all their hypotheses. -/
example : hypsHold (exCfg true 10000) (exPayFees (.ok [] [] []))
    (generate (exCfg true 10000) 0 0 exPrior exPool1 (exPayFees (.ok [] [] [])) true 20) = true := by decide

/-- HISTORICAL (finding `C45:pool-transaction-with-builtin-name-fails-verification`, repaired by 3af329c): client 6
submits a contract call whose function is merely NAMED `payFees`. The generator now leaves it in the pool; the block is
the first transaction plus the generator's own fee transaction, and it verifies. -/
def exPool2 : List PTxn := [exTxn 0 .data 5 0 1 10 none, exTxn 1 .sc 6 0 4 100 (some .payFees)]
theorem pool_builtin_name_skipped :
    keysOf (generate (exCfg true 10000) 0 0 exPrior exPool2 (exPayFees (.ok [] [] [])) true 20) =
      [Key.pool 0, Key.builtin .payFees] ∧
    verdict (exCfg true 10000) 0 exPrior (generate (exCfg true 10000) 0 0 exPrior exPool2 (exPayFees (.ok [] [] [])) true 20) =
      some none := by decide
/-- HISTORICAL: the block the generator built before the repair — the client's `payFees`-named call next to the real
fee transaction — is still what the verifier refuses (its test goes by name); the repair is on the generator's side. -/
theorem builtin_named_pool_txn_block_rejected :
    (match verify (exCfg true 10000) exPrior
        ⟨0, [⟨Key.pool 1, exTxn 1 .sc 6 0 4 100 (some .payFees), .success⟩,
             ⟨Key.builtin .payFees, { (exTxn 0 .sc 3 0 1 100 (some .payFees)) with res := fun _ => CResult.ok [] [] [] }, .success⟩], exPrior⟩ with
      | .ok _ => none | .error e => some e) = some VErr.txn := by decide

/-- NEGATION WITNESS (finding `C45:self-addressed-transaction-included-but-rejected-by-verifier`): client 5 sends value 0
to itself (fees off, fee 0). The engine skips a zero amount before it compares source and destination, so the state
update succeeds and the generator includes the transaction; the verifier refuses a transaction whose recipient is its
sender. The same with a fee (fees on) and for a `data` transaction; a self-send of a positive value is rejected by the
engine and stays out. -/
def exSelf (typ : TxnType) (value fee : Nat) : PTxn :=
  { (exTxn 0 typ 5 fee 1 10 none) with txn := { sender := 5, to := 5, toValid := true, value := value, fee := fee, nonce := 1, typ := typ } }
theorem self_send_zero_value_fails_verification :
    keysOf (generate (exCfg false 10000) 0 0 exPrior [exSelf .send 0 0] ⟨none, none, none, none⟩ true 20) = [Key.pool 0] ∧
    verdict (exCfg false 10000) 0 exPrior (generate (exCfg false 10000) 0 0 exPrior [exSelf .send 0 0] ⟨none, none, none, none⟩ true 20) =
      some (some .txn) ∧
    verdict (exCfg true 10000) 0 exPrior (generate (exCfg true 10000) 0 0 exPrior [exSelf .send 0 100000000] (exPayFees (.ok [] [] [])) true 20) =
      some (some .txn) ∧
    verdict (exCfg false 10000) 0 exPrior (generate (exCfg false 10000) 0 0 exPrior [exSelf .data 0 0] ⟨none, none, none, none⟩ true 20) =
      some (some .txn) ∧
    keysOf (generate (exCfg false 10000) 0 0 exPrior [exSelf .send 7 0] ⟨none, none, none, none⟩ true 20) = [] := by decide

/-- NEGATION WITNESS (finding `C45:cost-limit-bypassed-by-maxint-estimate`): the first transaction calls a function
without a cost entry (estimate `MaxInt`); 100 + MaxInt wraps negative, it is included, and three transactions of cost
6000 each follow although the limit is 10000. The verifier's sum wraps the same way and the block verifies. -/
def exPool3 : List PTxn := [exTxn 0 .sc 6 0 4 maxInt none, exTxn 1 .sc 6 0 5 6000 none, exTxn 2 .sc 6 0 6 6000 none, exTxn 3 .sc 6 0 7 6000 none]
theorem cost_limit_bypassed :
    keysOf (generate (exCfg true 10000) 0 0 exPrior exPool3 (exPayFees (.ok [] [] [])) true 20) =
      [Key.pool 0, Key.pool 1, Key.pool 2, Key.pool 3, Key.builtin .payFees] ∧
    exactCost (generate (exCfg true 10000) 0 0 exPrior exPool3 (exPayFees (.ok [] [] [])) true 20) = maxInt + 18100 ∧
    verdict (exCfg true 10000) 0 exPrior (generate (exCfg true 10000) 0 0 exPrior exPool3 (exPayFees (.ok [] [] [])) true 20) =
      some none := by decide

/-- NEGATION WITNESS (same root cause): the fee transaction (cost 100) fails to execute and stays out of the block, the
`MaxInt` transaction got in behind it; the verifier sums only the block and answers `ErrCostTooBig`. -/
theorem maxint_estimate_fails_verification :
    keysOf (generate (exCfg true 10000) 0 0 exPrior [exTxn 0 .sc 6 0 4 maxInt none] (exPayFees .internal) true 20) = [Key.pool 0] ∧
    verdict (exCfg true 10000) 0 exPrior (generate (exCfg true 10000) 0 0 exPrior [exTxn 0 .sc 6 0 4 maxInt none] (exPayFees .internal) true 20) =
      some (some .costTooBig) := by decide

/-- without a running cost the same transaction is simply over the limit and skipped. -/
example : keysOf (generate (exCfg false 10000) 0 0 exPrior [exTxn 0 .sc 5 0 1 maxInt none, exTxn 1 .sc 6 0 4 6000 none]
    ⟨none, none, none, none⟩ true 20) = [Key.pool 1] := by decide

end ZChain.BlockGen
