import ZChain.Proofs.Notarize
import ZChain.Generated.C31
import Mathlib.Algebra.Field.ZMod
/-!
# C31 — A block counts as notarized only with enough verified tickets

FULL statement `NotarizedSound`: in every node state reachable by received messages, a block that is treated as
notarized carries at least `threshold` tickets of **distinct miners**, each a **valid** signature on the block hash.

It is **false** of the code (and of its model `Model/Notarize.lean`, tied to the real handlers on every run):
* `witness_proposal_forged`   — a received proposal carrying `threshold` forged tickets of non-miners is notarized at
  once (`processVerifyBlock`: "TODO: mc.MergeVerificationTickets does not verify block's own tickets");
* `witness_addBlock_merge`    — the tickets attached to a second object of a known block are merged unverified by
  `Chain.addBlock` and counted;
* `witness_cancelling`        — a notarized-block message whose tickets are `σ₁+δ, σ₂−δ` passes `VerifyNotarization`
  (C32's weakness of the aggregate check, inherited);
* `witness_reencoded_ticket`  — ONE miner's valid ticket, sent twice with its signature in two textual encodings while the
  block is not yet known, is stored twice (the round's ticket map is keyed by the signature *string*) and counted twice
  when the proposal arrives (`MergeVerificationTickets` returns the received list as it is for a block without tickets).
Proved (`notarized_sound_partial`): for message sequences made of verification tickets (any verifier, any signature, in
the canonical encoding), and proposals / block objects that carry **no attached tickets**, the statement holds — with
"miner" meaning a member of the pool of the magic block in force for the block's round (several magic blocks with
different miner sets may be installed) — every ticket of every chain block was verified
individually, verifiers are distinct, and the notarized flag and the round's notarized list imply the threshold.
-/
namespace ZChain.Notarize
open ZChain.Alg ZChain.Agg
variable {F : Type} [Field F] [DecidableEq F]

/-- the messages covered by the partial theorem. -/
inductive CleanMsg (F : Type) where
  /-- a verification ticket message for block `id`: any verifier, any signature (canonical encoding). -/
  | ticket (id : Nat) (verifier : Nat) (sig : F)
  /-- a block proposal (`processVerifyBlock`) carrying no tickets. -/
  | proposal (id gen : Nat)
  /-- a block object reaching `AddRoundBlock` carrying no tickets. -/
  | know (id gen : Nat)

/-- `hOf id` is the message point of block `id`, `slotOf id` its round (the slot decides the magic block in force). -/
def stepClean (hOf : Nat → F) (slotOf : Nat → Nat) (nd : Node F) : CleanMsg F → Node F
  | .ticket id v σ => handleTicket nd id (slotOf id) (hOf id) ⟨v, σ, 0⟩
  | .proposal id gen =>
    processVerifyBlock nd { id := id, gen := gen, slot := slotOf id, h := hOf id, tickets := [], notarized := false }
  | .know id gen => know nd { id := id, gen := gen, slot := slotOf id, h := hOf id, tickets := [], notarized := false }

def initNode (pks : List F) (mbs : List (Nat × List Nat)) (rounds : List Nat) (pct : Nat := 66) : Node F :=
  { pks := pks, mbs := mbs, rounds := rounds, pct := pct, blocks := [], store := [], roundNotarized := [], complete := [] }

/-- invariant of the reachable states. `pkOf s v` is the key of miner `v` in the pool of slot `s`'s magic block,
`thrOf s` that slot's threshold. -/
structure Good (pkOf : Nat → Nat → Option F) (thrOf : Nat → Nat) (hOf : Nat → F) (slotOf : Nat → Nat) (nd : Node F) : Prop where
  hpk : ∀ s v, nd.pk? s v = pkOf s v
  hthr : ∀ s, nd.threshold s = thrOf s
  ids : (nd.blocks.map (·.id)).Nodup
  bh : ∀ b ∈ nd.blocks, b.h = hOf b.id ∧ b.slot = slotOf b.id
  bvalid : ∀ b ∈ nd.blocks, ∀ t ∈ b.tickets, ValidT (pkOf (slotOf b.id)) (hOf b.id) t
  bnodup : ∀ b ∈ nd.blocks, (b.tickets.map (·.verifier)).Nodup
  bnot : ∀ b ∈ nd.blocks, b.notarized = true → thrOf (slotOf b.id) ≤ b.tickets.length
  svalid : ∀ e ∈ nd.store, ValidT (pkOf (slotOf e.1)) (hOf e.1) e.2
  senc : ∀ e ∈ nd.store, e.2.enc = 0
  ssig : (nd.store.map (fun e => e.2.sig)).Nodup
  rnot : ∀ id ∈ nd.roundNotarized, ∃ b ∈ nd.blocks, b.id = id ∧ b.notarized = true

/-! ### list-of-blocks lemmas -/

omit [Field F] [DecidableEq F] in
theorem block?_some {nd : Node F} {id : Nat} {b : Blk F} (h : nd.block? id = some b) : b ∈ nd.blocks ∧ b.id = id := by
  unfold Node.block? at h
  exact ⟨List.mem_of_find?_eq_some h, by simpa using List.find?_some h⟩

omit [Field F] [DecidableEq F] in
theorem block?_none {nd : Node F} {id : Nat} (h : nd.block? id = none) : ∀ b ∈ nd.blocks, b.id ≠ id := by
  unfold Node.block? at h
  intro b hb hid
  have := List.find?_eq_none.mp h b hb
  simp [hid] at this

omit [Field F] [DecidableEq F] in
theorem find?_of_mem_nodup (l : List (Blk F)) (hn : (l.map (·.id)).Nodup) {b : Blk F} (hb : b ∈ l) :
    l.find? (·.id == b.id) = some b := by
  induction l with
  | nil => cases hb
  | cons x xs ih =>
    rw [List.map_cons, List.nodup_cons] at hn
    rw [List.find?_cons]
    rcases List.mem_cons.mp hb with rfl | hx
    · simp
    · have : (x.id == b.id) = false := by
        rw [beq_eq_false_iff_ne]
        intro e
        exact hn.1 (List.mem_map.mpr ⟨b, hx, e.symm⟩)
      rw [this]
      exact ih hn.2 hx

omit [Field F] [DecidableEq F] in
theorem block?_of_mem {nd : Node F} (hn : (nd.blocks.map (·.id)).Nodup) {b : Blk F} (hb : b ∈ nd.blocks) :
    nd.block? b.id = some b := find?_of_mem_nodup nd.blocks hn hb

omit [Field F] [DecidableEq F] in
/-- membership after `setBlock`. -/
theorem mem_setBlock {nd : Node F} {b x : Blk F} (hx : x ∈ (nd.setBlock b).blocks) :
    x = b ∨ (x ∈ nd.blocks ∧ x.id ≠ b.id) := by
  unfold Node.setBlock at hx
  split at hx
  · simp only [List.mem_map] at hx
    obtain ⟨y, hy, hyx⟩ := hx
    by_cases e : (y.id == b.id) = true
    · rw [if_pos e] at hyx; exact Or.inl hyx.symm
    · rw [if_neg e] at hyx
      subst hyx
      exact Or.inr ⟨hy, by simpa using e⟩
  · rename_i hany
    simp only [List.mem_append, List.mem_singleton] at hx
    rcases hx with hx | hx
    · refine Or.inr ⟨hx, ?_⟩
      intro e
      apply hany
      rw [List.any_eq_true]
      exact ⟨x, hx, by simp [e]⟩
    · exact Or.inl hx

omit [Field F] [DecidableEq F] in
theorem setBlock_fields (nd : Node F) (b : Blk F) :
    ((nd.setBlock b).pk? = nd.pk?) ∧ ((nd.setBlock b).threshold = nd.threshold) ∧ (nd.setBlock b).store = nd.store ∧
    (nd.setBlock b).roundNotarized = nd.roundNotarized := by
  unfold Node.setBlock; split <;> refine ⟨?_, ?_, rfl, rfl⟩ <;> (funext; simp [Node.pk?, Node.threshold, Node.pool])

omit [Field F] [DecidableEq F] in
theorem setBlock_ids (nd : Node F) (b : Blk F) (hn : (nd.blocks.map (·.id)).Nodup) :
    ((nd.setBlock b).blocks.map (·.id)).Nodup ∧ b ∈ (nd.setBlock b).blocks ∧
    (∀ x ∈ nd.blocks, x.id ≠ b.id → x ∈ (nd.setBlock b).blocks) := by
  unfold Node.setBlock
  split
  · rename_i hany
    refine ⟨?_, ?_, ?_⟩
    · have : (nd.blocks.map (fun x => if (x.id == b.id) = true then b else x)).map (·.id) = nd.blocks.map (·.id) := by
        rw [List.map_map]
        apply List.map_congr_left
        intro x _
        by_cases e : x.id = b.id
        · simp [e]
        · simp [e]
      simp only [this]; exact hn
    · rw [List.any_eq_true] at hany
      obtain ⟨y, hy, hyb⟩ := hany
      exact List.mem_map.mpr ⟨y, hy, by simp [hyb]⟩
    · intro x hx hne
      exact List.mem_map.mpr ⟨x, hx, by simp [hne]⟩
  · rename_i hany
    refine ⟨?_, by simp, fun x hx _ => by simp [hx]⟩
    rw [List.map_append, List.nodup_append]
    refine ⟨hn, by simp, ?_⟩
    intro a ha c hc
    simp only [List.map_cons, List.map_nil, List.mem_singleton] at hc
    rw [hc]
    intro e
    apply hany
    rw [List.any_eq_true]
    obtain ⟨y, hy, hya⟩ := List.mem_map.mp ha
    exact ⟨y, hy, by simp [hya, e]⟩

/-- the per-block part of the invariant. -/
structure BlkOK (pkOf : Nat → Nat → Option F) (thrOf : Nat → Nat) (hOf : Nat → F) (slotOf : Nat → Nat) (b : Blk F) : Prop where
  h : b.h = hOf b.id ∧ b.slot = slotOf b.id
  valid : ∀ t ∈ b.tickets, ValidT (pkOf (slotOf b.id)) (hOf b.id) t
  nodup : (b.tickets.map (·.verifier)).Nodup
  flag : b.notarized = true → thrOf (slotOf b.id) ≤ b.tickets.length

omit [DecidableEq F] in
theorem Good.blk {pkOf : Nat → Nat → Option F} {thrOf : Nat → Nat} {hOf : Nat → F} {slotOf : Nat → Nat} {nd : Node F} (g : Good pkOf thrOf hOf slotOf nd) {b : Blk F}
    (hb : b ∈ nd.blocks) : BlkOK pkOf thrOf hOf slotOf b :=
  ⟨g.bh b hb, g.bvalid b hb, g.bnodup b hb, g.bnot b hb⟩

omit [DecidableEq F] in
/-- replacing / adding a block that is itself fine keeps the invariant (a block of the round's notarized list must keep
its flag). -/
theorem good_setBlock {pkOf : Nat → Nat → Option F} {thrOf : Nat → Nat} {hOf : Nat → F} {slotOf : Nat → Nat} {nd : Node F} (g : Good pkOf thrOf hOf slotOf nd)
    (b : Blk F) (ok : BlkOK pkOf thrOf hOf slotOf b) (hr : b.id ∈ nd.roundNotarized → b.notarized = true) :
    Good pkOf thrOf hOf slotOf (nd.setBlock b) := by
  obtain ⟨f1, f2, f3, f4⟩ := setBlock_fields nd b
  obtain ⟨i1, i2, i3⟩ := setBlock_ids nd b g.ids
  refine ⟨by rw [f1]; exact g.hpk, by rw [f2]; exact g.hthr, i1, ?_, ?_, ?_, ?_, by rw [f3]; exact g.svalid,
    by rw [f3]; exact g.senc, by rw [f3]; exact g.ssig, ?_⟩
  · intro x hx
    rcases mem_setBlock hx with rfl | ⟨hx, _⟩
    · exact ok.h
    · exact g.bh x hx
  · intro x hx
    rcases mem_setBlock hx with rfl | ⟨hx, _⟩
    · exact ok.valid
    · exact g.bvalid x hx
  · intro x hx
    rcases mem_setBlock hx with rfl | ⟨hx, _⟩
    · exact ok.nodup
    · exact g.bnodup x hx
  · intro x hx
    rcases mem_setBlock hx with rfl | ⟨hx, _⟩
    · exact ok.flag
    · exact g.bnot x hx
  · intro id hid
    rw [f4] at hid
    obtain ⟨x, hx, hxid, hxn⟩ := g.rnot id hid
    by_cases e : x.id = b.id
    · exact ⟨b, i2, by rw [← e, hxid], hr (by rw [← e, hxid]; exact hid)⟩
    · exact ⟨x, i3 x hx e, hxid, hxn⟩

omit [DecidableEq F] in
theorem updateNotarization_ok {pkOf : Nat → Nat → Option F} {thrOf : Nat → Nat} {hOf : Nat → F} {slotOf : Nat → Nat}
    {nd : Node F} (hthr : ∀ s, nd.threshold s = thrOf s)
    (b : Blk F) (h : b.h = hOf b.id ∧ b.slot = slotOf b.id) (valid : ∀ t ∈ b.tickets, ValidT (pkOf (slotOf b.id)) (hOf b.id) t)
    (nodup : (b.tickets.map (·.verifier)).Nodup) (flag : b.notarized = true → thrOf (slotOf b.id) ≤ b.tickets.length) :
    BlkOK pkOf thrOf hOf slotOf (updateNotarization nd b) ∧ (updateNotarization nd b).id = b.id ∧
      (b.notarized = true → (updateNotarization nd b).notarized = true) ∧
      (updateNotarization nd b).tickets = b.tickets := by
  unfold updateNotarization
  by_cases h1 : b.notarized = true
  · rw [if_pos h1]; exact ⟨⟨h, valid, nodup, flag⟩, rfl, fun x => x, rfl⟩
  · rw [if_neg h1]
    by_cases h2 : reached nd b.slot b.tickets = true
    · rw [if_pos h2]
      refine ⟨⟨h, valid, nodup, ?_⟩, rfl, fun _ => rfl, rfl⟩
      intro _
      have := h2
      simp only [reached, decide_eq_true_eq, hthr, h.2] at this
      exact this
    · rw [if_neg h2]; exact ⟨⟨h, valid, nodup, flag⟩, rfl, fun x => x, rfl⟩

omit [DecidableEq F] in
/-- the round's collected tickets for a block: valid, one per verifier. -/
theorem storeFor_ok {pkOf : Nat → Nat → Option F} {thrOf : Nat → Nat} {hOf : Nat → F} {slotOf : Nat → Nat} {nd : Node F} (g : Good pkOf thrOf hOf slotOf nd) (id : Nat) :
    (∀ t ∈ nd.storeFor id, ValidT (pkOf (slotOf id)) (hOf id) t) ∧ ((nd.storeFor id).map (·.verifier)).Nodup := by
  unfold Node.storeFor
  constructor
  · intro t ht
    obtain ⟨e, he, rfl⟩ := List.mem_map.mp ht
    obtain ⟨he1, he2⟩ := List.mem_filter.mp he
    have := g.svalid e he1
    rwa [show e.1 = id by simpa using he2] at this
  · rw [List.map_map]
    have hsub : ((nd.store.filter (·.1 == id)).map (fun e => e.2.sig)).Nodup :=
      List.Nodup.sublist (List.Sublist.map _ List.filter_sublist) g.ssig
    refine List.Nodup.map_on ?_ (List.Nodup.of_map _ hsub)
    intro x hx y hy hxy
    apply List.inj_on_of_nodup_map hsub hx hy
    obtain ⟨hx1, hx2⟩ := List.mem_filter.mp hx
    obtain ⟨hy1, hy2⟩ := List.mem_filter.mp hy
    obtain ⟨pk, hpk, hs⟩ := g.svalid x hx1
    obtain ⟨pk', hpk', hs'⟩ := g.svalid y hy1
    simp only [Function.comp] at hxy
    have ex : x.1 = id := by simpa using hx2
    have ey : y.1 = id := by simpa using hy2
    rw [ex] at hpk hs
    rw [ey] at hpk' hs'
    rw [hxy, hpk'] at hpk
    injection hpk with hpk
    rw [hs, hs', hpk]

omit [Field F] [DecidableEq F] in
theorem block?_setBlock {nd : Node F} (hn : (nd.blocks.map (·.id)).Nodup) (b : Blk F) :
    (nd.setBlock b).block? b.id = some b := by
  obtain ⟨i1, i2, _⟩ := setBlock_ids nd b hn
  exact block?_of_mem i1 i2

omit [DecidableEq F] in
/-- a block of the round's notarized list is the (unique) chain block of that id and carries the flag. -/
theorem Good.round_flag {pkOf : Nat → Nat → Option F} {thrOf : Nat → Nat} {hOf : Nat → F} {slotOf : Nat → Nat} {nd : Node F} (g : Good pkOf thrOf hOf slotOf nd)
    {b : Blk F} (hb : nd.block? b.id = some b) (hr : b.id ∈ nd.roundNotarized) : b.notarized = true := by
  obtain ⟨x, hx, hxid, hxn⟩ := g.rnot b.id hr
  have := block?_of_mem g.ids hx
  rw [hxid, hb] at this
  injection this with this
  rw [this]; exact hxn

omit [DecidableEq F] in
theorem good_addNotarizedToRound {pkOf : Nat → Nat → Option F} {thrOf : Nat → Nat} {hOf : Nat → F} {slotOf : Nat → Nat} {nd : Node F} (g : Good pkOf thrOf hOf slotOf nd)
    (id : Nat) (b : Blk F) (hb : nd.block? id = some b) (hflag : b.notarized = true) :
    Good pkOf thrOf hOf slotOf (nd.addNotarizedToRound id) := by
  unfold Node.addNotarizedToRound
  rw [hb]
  dsimp only
  obtain ⟨hbm, hbid⟩ := block?_some hb
  by_cases hc : nd.roundNotarized.contains id = true
  · rw [if_pos hc]; exact g
  · rw [if_neg hc]
    have ok : BlkOK pkOf thrOf hOf slotOf { b with notarized := true } := by
      have := g.blk hbm
      exact ⟨this.h, this.valid, this.nodup, fun _ => this.flag hflag⟩
    have g1 := good_setBlock g { b with notarized := true } ok (fun _ => rfl)
    obtain ⟨f1, f2, f3, f4⟩ := setBlock_fields nd { b with notarized := true }
    obtain ⟨_, i2, _⟩ := setBlock_ids nd { b with notarized := true } g.ids
    refine ⟨g1.hpk, g1.hthr, g1.ids, g1.bh, g1.bvalid, g1.bnodup, g1.bnot, g1.svalid, g1.senc, g1.ssig, ?_⟩
    intro id' hid'
    rcases List.mem_append.mp hid' with h | h
    · exact g1.rnot id' (by rw [f4]; exact (List.mem_filter.mp h).1)
    · rw [List.mem_singleton.mp h]
      exact ⟨_, i2, hbid, rfl⟩

omit [DecidableEq F] in
theorem good_noteNotarized {pkOf : Nat → Nat → Option F} {thrOf : Nat → Nat} {hOf : Nat → F} {slotOf : Nat → Nat} {nd : Node F} (g : Good pkOf thrOf hOf slotOf nd)
    (b : Blk F) (hb : nd.block? b.id = some b) : Good pkOf thrOf hOf slotOf (nd.noteNotarized b) := by
  unfold Node.noteNotarized
  by_cases h : b.notarized = true
  · rw [if_pos h]; exact good_addNotarizedToRound g b.id b hb h
  · rw [if_neg h]; exact g

omit [DecidableEq F] in
/-- `Chain.addBlock` with an object whose tickets are all valid and distinct (e.g. none). -/
theorem good_addBlock {pkOf : Nat → Nat → Option F} {thrOf : Nat → Nat} {hOf : Nat → F} {slotOf : Nat → Nat} {nd : Node F} (g : Good pkOf thrOf hOf slotOf nd)
    (b : Blk F) (ok : BlkOK pkOf thrOf hOf slotOf b) :
    Good pkOf thrOf hOf slotOf (nd.addBlock b).1 ∧ (nd.addBlock b).1.block? (nd.addBlock b).2.id = some (nd.addBlock b).2 := by
  unfold Node.addBlock
  cases hb : nd.block? b.id with
  | none =>
    dsimp only
    have hr : b.id ∈ nd.roundNotarized → b.notarized = true := by
      intro hin
      obtain ⟨x, hx, hxid, _⟩ := g.rnot b.id hin
      exact absurd hxid (block?_none hb x hx)
    exact ⟨good_setBlock g b ok hr, block?_setBlock g.ids b⟩
  | some eb =>
    dsimp only
    obtain ⟨hem, heid⟩ := block?_some hb
    have eok := g.blk hem
    obtain ⟨u1, u2, u3, u4⟩ := updateNotarization_ok (nd := nd) g.hthr
      { eb with tickets := mergeTickets eb.tickets b.tickets } eok.h
      (mergeTickets_spec _ _ _ eok.valid (by rw [heid]; exact ok.valid))
      (mergeTickets_nodup _ _ eok.nodup ok.nodup)
      (fun hf => Nat.le_trans (eok.flag hf) (mergeTickets_length _ _))
    have hr : (updateNotarization nd { eb with tickets := mergeTickets eb.tickets b.tickets }).id ∈ nd.roundNotarized →
        (updateNotarization nd { eb with tickets := mergeTickets eb.tickets b.tickets }).notarized = true := by
      intro hin
      rw [u2] at hin
      have hebk : nd.block? eb.id = some eb := by rw [heid]; exact hb
      have hin' : eb.id ∈ nd.roundNotarized := hin
      exact u3 (Good.round_flag g (b := eb) hebk hin')
    refine ⟨good_setBlock g _ u1 hr, block?_setBlock g.ids _⟩

/-! ### the handlers preserve the invariant -/

omit [DecidableEq F] in
theorem good_processVerifyBlock_clean {pkOf : Nat → Nat → Option F} {thrOf : Nat → Nat} {hOf : Nat → F} {slotOf : Nat → Nat}
    {nd : Node F} (g : Good pkOf thrOf hOf slotOf nd) (id gen : Nat) :
    Good pkOf thrOf hOf slotOf
      (processVerifyBlock nd { id := id, gen := gen, slot := slotOf id, h := hOf id, tickets := [], notarized := false }) := by
  unfold processVerifyBlock
  by_cases hc : nd.complete.contains (slotOf id) = true
  · rw [if_pos hc]; exact g
  · rw [if_neg hc]
    dsimp only
    obtain ⟨sv, sn⟩ := storeFor_ok g id
    have hm : mergeTickets ([] : List (Ticket F)) (nd.storeFor id) = nd.storeFor id := by simp [mergeTickets]
    rw [hm]
    obtain ⟨u1, u2, _, _⟩ := updateNotarization_ok (nd := nd) (hOf := hOf) (pkOf := pkOf) (slotOf := slotOf) g.hthr
      { id := id, gen := gen, slot := slotOf id, h := hOf id, tickets := nd.storeFor id, notarized := false } ⟨rfl, rfl⟩ sv sn
      (by intro h; cases h)
    obtain ⟨a1, a2⟩ := good_addBlock g _ u1
    split
    · exact good_noteNotarized a1 _ a2
    · exact a1

omit [DecidableEq F] in
theorem good_know_clean {pkOf : Nat → Nat → Option F} {thrOf : Nat → Nat} {hOf : Nat → F} {slotOf : Nat → Nat}
    {nd : Node F} (g : Good pkOf thrOf hOf slotOf nd) (id gen : Nat) :
    Good pkOf thrOf hOf slotOf
      (know nd { id := id, gen := gen, slot := slotOf id, h := hOf id, tickets := [], notarized := false }) := by
  unfold know
  exact (good_addBlock g _ ⟨⟨rfl, rfl⟩, by simp, by simp, by intro h; cases h⟩).1

theorem good_handleTicket {pkOf : Nat → Nat → Option F} {thrOf : Nat → Nat} {hOf : Nat → F} {slotOf : Nat → Nat}
    {nd : Node F} (g : Good pkOf thrOf hOf slotOf nd) (id : Nat) (v : Nat) (σ : F) :
    Good pkOf thrOf hOf slotOf (handleTicket nd id (slotOf id) (hOf id) ⟨v, σ, 0⟩) := by
  unfold handleTicket
  by_cases hv : (verifyTickets nd (slotOf id) (hOf id) [⟨v, σ, 0⟩]).getD false = true
  · rw [if_pos hv]
    have tv : ValidT (pkOf (slotOf id)) (hOf id) (⟨v, σ, 0⟩ : Ticket F) := by
      have := (verifyTickets_single nd (slotOf id) (hOf id) ⟨v, σ, 0⟩).mp hv
      have e : nd.pk? (slotOf id) = pkOf (slotOf id) := by funext x; exact g.hpk _ x
      rwa [e] at this
    cases hb : nd.block? id with
    | none =>
      dsimp only
      unfold Node.storeAdd
      refine ⟨g.hpk, g.hthr, g.ids, g.bh, g.bvalid, g.bnodup, g.bnot, ?_, ?_, ?_, g.rnot⟩
      · intro e he
        rcases List.mem_append.mp he with h | h
        · exact g.svalid e (List.mem_filter.mp h).1
        · rw [List.mem_singleton.mp h]; exact tv
      · intro e he
        rcases List.mem_append.mp he with h | h
        · exact g.senc e (List.mem_filter.mp h).1
        · rw [List.mem_singleton.mp h]
      · rw [List.map_append, List.nodup_append]
        refine ⟨List.Nodup.sublist (List.Sublist.map _ List.filter_sublist) g.ssig, by simp, ?_⟩
        intro a ha c hc
        simp only [List.map_cons, List.map_nil, List.mem_singleton] at hc
        rw [hc]
        obtain ⟨e, he, rfl⟩ := List.mem_map.mp ha
        obtain ⟨he1, he2⟩ := List.mem_filter.mp he
        have h0 := g.senc e he1
        intro hs
        simp [hs, h0] at he2
    | some b =>
      dsimp only
      obtain ⟨hbm, hbid⟩ := block?_some hb
      have bok := g.blk hbm
      unfold addTicket
      by_cases hd : b.tickets.any (·.verifier == v) = true
      · rw [if_pos hd]; exact g
      · rw [if_neg hd]
        dsimp only
        have hnew : v ∉ b.tickets.map (·.verifier) := by
          intro hin
          apply hd
          rw [List.any_eq_true]
          obtain ⟨x, hx, hxv⟩ := List.mem_map.mp hin
          exact ⟨x, hx, by simp [hxv]⟩
        obtain ⟨u1, u2, u3, _⟩ := updateNotarization_ok (nd := nd) (hOf := hOf) (pkOf := pkOf) (slotOf := slotOf) g.hthr
          { b with tickets := b.tickets ++ [⟨v, σ, 0⟩] } bok.h
          (by
            intro x hx
            rcases List.mem_append.mp hx with h | h
            · exact bok.valid x h
            · rw [List.mem_singleton.mp h]
              show ValidT (pkOf (slotOf b.id)) (hOf b.id) _
              rw [hbid]; exact tv)
          (by
            show ((b.tickets ++ [(⟨v, σ, 0⟩ : Ticket F)]).map (·.verifier)).Nodup
            rw [List.map_append, List.nodup_append]
            refine ⟨bok.nodup, by simp, ?_⟩
            intro a ha c hc
            simp only [List.map_cons, List.map_nil, List.mem_singleton] at hc
            rw [hc]; intro e; exact hnew (e ▸ ha))
          (by
            intro hf
            show thrOf (slotOf b.id) ≤ (b.tickets ++ [(⟨v, σ, 0⟩ : Ticket F)]).length
            have := bok.flag hf
            simp only [List.length_append, List.length_cons, List.length_nil]; omega)
        have hbk : nd.block? b.id = some b := by rw [hbid]; exact hb
        have hr : (updateNotarization nd { b with tickets := b.tickets ++ [⟨v, σ, 0⟩] }).id ∈ nd.roundNotarized →
            (updateNotarization nd { b with tickets := b.tickets ++ [⟨v, σ, 0⟩] }).notarized = true := by
          intro hin
          rw [u2] at hin
          have hin' : b.id ∈ nd.roundNotarized := hin
          exact u3 (Good.round_flag g (b := b) hbk hin')
        have g1 := good_setBlock g _ u1 hr
        split
        · exact g1
        · exact good_noteNotarized g1 _ (block?_setBlock g.ids _)
  · rw [if_neg hv]; exact g

/-- every state reachable by clean messages satisfies the invariant. -/
theorem reachable_good (pks : List F) (mbs : List (Nat × List Nat)) (rounds : List Nat) (hOf : Nat → F) (slotOf : Nat → Nat)
    (msgs : List (CleanMsg F)) :
    Good (initNode pks mbs rounds).pk? (initNode pks mbs rounds).threshold hOf slotOf
      (msgs.foldl (stepClean hOf slotOf) (initNode pks mbs rounds)) := by
  have h0 : Good (initNode pks mbs rounds).pk? (initNode pks mbs rounds).threshold hOf slotOf
      (initNode pks mbs rounds) := by
    refine ⟨fun _ _ => rfl, fun _ => rfl, by simp [initNode], ?_, ?_, ?_, ?_, ?_, ?_, by simp [initNode], ?_⟩ <;>
      simp [initNode]
  have : ∀ (l : List (CleanMsg F)) (nd : Node F),
      Good (initNode pks mbs rounds).pk? (initNode pks mbs rounds).threshold hOf slotOf nd →
      Good (initNode pks mbs rounds).pk? (initNode pks mbs rounds).threshold hOf slotOf
        (l.foldl (stepClean hOf slotOf) nd) := by
    intro l
    induction l with
    | nil => intro nd g; exact g
    | cons m l ih =>
      intro nd g
      apply ih
      cases m with
      | ticket id v σ => exact good_handleTicket g id v σ
      | proposal id gen => exact good_processVerifyBlock_clean g id gen
      | know id gen => exact good_know_clean g id gen
  exact this msgs _ h0

/-- **notarized_sound_partial**: after any sequence of verification-ticket messages (valid, forged, duplicated, from
non-miners or from miners of ANOTHER magic block, in any order) and of proposals / block objects that carry no attached
tickets, a block the node treats as notarized — by its flag or by the round's notarized list — holds at least the
threshold of its round's magic block many tickets, all of them valid signatures on the block's hash by members of the
miner pool of the magic block in force for the block's round, from pairwise distinct miners. -/
theorem notarized_sound_partial (pks : List F) (mbs : List (Nat × List Nat)) (rounds : List Nat) (hOf : Nat → F)
    (slotOf : Nat → Nat) (msgs : List (CleanMsg F)) :
    let nd0 := initNode pks mbs rounds
    let nd := msgs.foldl (stepClean hOf slotOf) nd0
    (∀ b ∈ nd.blocks, b.notarized = true →
      nd0.threshold (slotOf b.id) ≤ b.tickets.length ∧ (b.tickets.map (·.verifier)).Nodup ∧
      ∀ t ∈ b.tickets, ValidT (nd0.pk? (slotOf b.id)) (hOf b.id) t) ∧
    (∀ id ∈ nd.roundNotarized, ∃ b ∈ nd.blocks, b.id = id ∧
      nd0.threshold (slotOf b.id) ≤ b.tickets.length ∧ (b.tickets.map (·.verifier)).Nodup ∧
      ∀ t ∈ b.tickets, ValidT (nd0.pk? (slotOf b.id)) (hOf b.id) t) := by
  intro nd0 nd
  have g := reachable_good pks mbs rounds hOf slotOf msgs
  refine ⟨fun b hb hn => ⟨g.bnot b hb hn, g.bnodup b hb, g.bvalid b hb⟩, ?_⟩
  intro id hid
  obtain ⟨b, hb, hbid, hn⟩ := g.rnot id hid
  exact ⟨b, hb, hbid, g.bnot b hb hn, g.bnodup b hb, g.bvalid b hb⟩

omit [DecidableEq F] in
/-- membership in the pool is what `ValidT` asks: a ticket of a node that is no miner of the round's magic block is
never valid, whatever its signature. -/
theorem validT_member (nd : Node F) (slot : Nat) (h : F) (t : Ticket F) (hv : ValidT (nd.pk? slot) h t) :
    (nd.pool slot).contains t.verifier = true := by
  obtain ⟨pk, hpk, _⟩ := hv
  unfold Node.pk? at hpk
  by_contra hc
  rw [if_neg hc] at hpk
  cases hpk

/-- `VerifyNotarization` (notarized-block messages, previous-block tickets): what its acceptance does give — the
threshold many tickets, **pairwise distinct verifier ids** (whatever the signatures look like), every verifier a
miner of the round's magic block — and, by C32, the aggregate equation only (errors add up to zero). -/
theorem verifyNotarization_partial (nd : Node F) (slot : Nat) (h : F) (ts : List (Ticket F))
    (hv : verifyNotarization nd slot h ts = true) :
    nd.threshold slot ≤ ts.length ∧ (ts.map (·.verifier)).Nodup ∧
      (∀ t ∈ ts, (nd.pool slot).contains t.verifier = true) := by
  unfold verifyNotarization at hv
  split at hv
  · cases hv
  · rename_i hd
    split at hv
    · cases hv
    · rename_i hr
      refine ⟨by simpa [reached] using hr, hasDupNat_false _ (by simpa using hd), ?_⟩
      unfold verifyTickets at hv
      split at hv
      · simp at hv
      · split at hv
        · rename_i hall
          intro t ht
          have := List.all_eq_true.mp hall t ht
          unfold Node.pk? at this
          by_contra hc
          rw [if_neg hc] at this
          cases this
        · simp at hv

/-! ## the full statement is false: negation witnesses (kernel-evaluated over `ZMod 7`) -/
section Witness
instance : Fact (Nat.Prime 7) := ⟨by decide⟩
abbrev Z7 := ZMod 7

/-- three miners with keys 2, 3, 4: threshold ceil(66 % · 3) = 2; block 0 with message point 1. -/
def nd0 : Node Z7 := initNode [2, 3, 4] [(0, [0, 1, 2])] [1]

/-- FULL statement (false): after any sequence of received messages a block treated as notarized has at least
`threshold` valid tickets of distinct miners. Messages: the handlers of the model. -/
inductive Msg where
  | proposal (b : Blk Z7)
  | know (b : Blk Z7)
  | ticket (id : Nat) (h : Z7) (t : Ticket Z7)
  | notarizedBlock (b : Blk Z7)

def stepMsg (nd : Node Z7) : Msg → Node Z7
  | .proposal b => processVerifyBlock nd b
  | .know b => know nd b
  | .ticket id h t => handleTicket nd id 0 h t
  | .notarizedBlock b => handleNotarizedBlock nd b

def validCount (nd : Node Z7) (b : Blk Z7) : Nat :=
  ((b.tickets.filter (fun t => match nd.pk? b.slot t.verifier with
    | some pk => decide (t.sig = pk * b.h)
    | none => false)).map (·.verifier)).eraseDups.length

def NotarizedSound : Prop :=
  ∀ msgs : List Msg, let nd := msgs.foldl stepMsg nd0
    ∀ b ∈ nd.blocks, (b.notarized = true ∨ nd.roundNotarized.contains b.id = true) → nd.threshold b.slot ≤ validCount nd b

/-- a proposal of miner 1 carrying two tickets of the non-miners 1000 and 1001 with an arbitrary "signature". -/
def forgedProposal : Blk Z7 := { id := 0, gen := 1, h := 1, tickets := [⟨1000, 5, 0⟩, ⟨1001, 5, 0⟩], notarized := false }

theorem witness_proposal_forged :
    let nd := processVerifyBlock nd0 forgedProposal
    (nd.blocks.map (fun b => (b.id, b.notarized, validCount nd b))) = [(0, true, 0)] ∧ nd.roundNotarized = [0] := by
  decide

/-- the same through `Chain.addBlock`: the block is known without tickets; a second object carrying two forged tickets
reaches `AddRoundBlock`; its tickets are merged unverified and the flag is set. -/
theorem witness_addBlock_merge :
    let nd := know (know nd0 { forgedProposal with tickets := [] }) forgedProposal
    (nd.blocks.map (fun b => (b.id, b.notarized, validCount nd b))) = [(0, true, 0)] := by
  decide

/-- the valid tickets of miners 0 and 1 on the block are 2·1 = 2 and 3·1 = 3; perturbed by ±1 they are 3 and 2, both
invalid, and `VerifyNotarization` accepts the pair. -/
def cancellingBlock : Blk Z7 := { id := 0, gen := 1, h := 1, tickets := [⟨0, 3, 0⟩, ⟨1, 2, 0⟩], notarized := false }

theorem witness_cancelling :
    let nd := handleNotarizedBlock nd0 cancellingBlock
    (nd.blocks.map (fun b => (b.id, b.notarized, validCount nd b))) = [(0, true, 0)] ∧ nd.roundNotarized = [0] := by
  decide

/-- miner 2's valid ticket (4·1 = 4) arrives twice, in two encodings of the same signature, before the block is known;
the clean proposal then counts it twice: notarized with ONE valid miner (threshold 2). -/
theorem witness_reencoded_ticket :
    let nd := processVerifyBlock (handleTicket (handleTicket nd0 0 0 1 ⟨2, 4, 0⟩) 0 0 1 ⟨2, 4, 1⟩)
      { forgedProposal with tickets := [] }
    (nd.blocks.map (fun b => (b.id, b.notarized, b.tickets.length, validCount nd b))) = [(0, true, 2, 1)] ∧
      nd.roundNotarized = [0] := by
  decide

theorem notarized_sound_false : ¬ NotarizedSound := by
  intro h
  have := h [Msg.proposal forgedProposal]
  revert this
  decide

/-- two magic blocks: slot 0 has miners 0,1,2,3 and slot 1 has miners 0,1,4,5 (threshold 3 each). Tickets validly signed
by nodes 4 and 5 are refused for a block of slot 0 — the membership test is relative to the round's magic block. -/
def nd2 : Node Z7 := initNode [2, 3, 4, 5, 6, 1] [(0, [0, 1, 2, 3]), (100, [0, 1, 4, 5])] [50, 200]

example :
    let b : Blk Z7 := { id := 0, gen := 1, slot := 0, h := 1, tickets := [⟨0, 2, 0⟩, ⟨4, 6, 0⟩, ⟨5, 1, 0⟩], notarized := false }
    (handleNotarizedBlock nd2 b).roundNotarized = [] ∧
    (handleNotarizedBlock nd2 { b with slot := 1 }).roundNotarized = [0] ∧
    (handleTicket nd2 0 0 1 ⟨5, 1, 0⟩).store = [] ∧ (handleTicket nd2 0 1 1 ⟨5, 1, 0⟩).store.length = 1 := by
  decide

/-- `VerifyNotarization` refuses a verifier id that appears twice, whatever the two signatures are: the same ticket in
another encoding, or a signature split into `s+d`, `s−d` (4 miners, threshold 3). -/
example :
    let nd : Node Z7 := initNode [2, 3, 4, 5] [(0, [0, 1, 2, 3])] [1]
    verifyNotarization nd 0 1 [⟨0, 2, 0⟩, ⟨1, 3, 0⟩, ⟨1, 3, 1⟩] = false ∧
    verifyNotarization nd 0 1 [⟨0, 2, 0⟩, ⟨1, 4, 0⟩, ⟨1, 2, 0⟩] = false ∧
    verifyNotarization nd 0 1 [⟨0, 2, 0⟩, ⟨1, 3, 0⟩, ⟨2, 4, 0⟩] = true := by
  decide

/-- a SHRINKING view change: 7 miners from round 0, 4 miners (0..3) from round 100, in force from round 104
(`mbRoundOffset`). Slot 0 = round 101 still belongs to the old magic block — pool of 7, threshold 5 — slot 1 = round 104
to the new one — pool of 4, threshold 3. Pool and threshold come from the SAME `mbOf`. -/
def nd3 : Node Z7 := initNode [2, 3, 4, 5, 6, 1, 2] [(0, [0, 1, 2, 3, 4, 5, 6]), (100, [0, 1, 2, 3])] [101, 104]

example : [99, 100, 103, 104, 105].map (mbOf nd3.mbs) = [0, 0, 0, 1, 1] := by decide
example : (nd3.pool 0, nd3.threshold 0, nd3.pool 1, nd3.threshold 1) = ([0, 1, 2, 3, 4, 5, 6], 5, [0, 1, 2, 3], 3) := by decide
/-- three valid tickets of the old set (miners 4, 5, 6: 6·1, 1·1, 2·1) in round 101: the new block's threshold (3) is met,
the round's own (5) is not — refused; five valid tickets are accepted; in round 104 three of the new set suffice. -/
example :
    let b : Blk Z7 := { id := 0, gen := 5, slot := 0, h := 1, tickets := [⟨4, 6, 0⟩, ⟨5, 1, 0⟩, ⟨6, 2, 0⟩], notarized := false }
    (handleNotarizedBlock nd3 b).roundNotarized = [] ∧
    (handleNotarizedBlock nd3 { b with tickets := b.tickets ++ [⟨0, 2, 0⟩, ⟨1, 3, 0⟩] }).roundNotarized = [0] ∧
    (handleNotarizedBlock nd3 { b with slot := 1, gen := 1, tickets := [⟨0, 2, 0⟩, ⟨1, 3, 0⟩, ⟨2, 4, 0⟩] }).roundNotarized = [0] := by
  decide

/-- non-vacuity of the partial theorem: an honest run over `ZMod 7` reaches notarization with two valid tickets. -/
example :
    let nd := [CleanMsg.proposal 0 1, CleanMsg.ticket 0 0 2, CleanMsg.ticket 0 2 5, CleanMsg.ticket 0 1 3,
      CleanMsg.ticket 0 0 2].foldl (stepClean (fun _ => (1 : Z7)) (fun _ => 0)) (initNode [2, 3, 4] [(0, [0, 1, 2])] [1])
    (nd.blocks.map (fun b => (b.id, b.notarized, b.tickets.length))) = [(0, true, 2)] ∧ nd.roundNotarized = [0] := by
  decide
end Witness

/-! ## which magic-block accessor each site uses (table generated from the current source by `harness/cmd/xc31`)

The model has ONE function `mbOf` for "the magic block of a round". The code has two accessors, `GetMagicBlock(round)`
(applies the view-change offset) and `GetMagicBlockNoOffset(round)`; the threshold (`reachedNotarization`), the signer
lookup (`VerifyTickets` → `GetMiners(round)` → pool `GetNode`) and the magic-block presence test must all use the
former, or the sites disagree about the round's magic block during the four rounds after a view change. -/
section Accessors
open ZChain.Generated.C31

def accessorsOf (f : String) : Option (List String) := (accessors.find? (·.1 == f)).map (·.2)

theorem accessors_expected :
    accessorsOf "reachedNotarization" = some ["GetMagicBlock"] ∧
    accessorsOf "VerifyTickets" = some ["GetMiners", "pl.GetNode"] ∧
    accessorsOf "GetMiners" = some ["GetMagicBlock"] ∧
    accessorsOf "VerifyRelatedMagicBlockPresence" = some ["GetMagicBlock"] ∧
    accessorsOf "GetMagicBlock" = some ["mbRoundOffset", "MagicBlockStorage", "MagicBlockStorage"] ∧
    accessorsOf "VerifyNotarization" = some [] ∧
    accessorsOf "UpdateBlockNotarization" = some ["VerifyRelatedMagicBlockPresence"] ∧
    accessorsOf "VerifyBlockNotarization" = some ["VerifyRelatedMagicBlockPresence"] ∧
    accessorsOf "AddVerificationTicket" = some [] ∧ accessorsOf "MergeVerificationTickets" = some [] ∧
    accessorsOf "GetNotarizationThresholdCount" = some [] := by
  decide
end Accessors

end ZChain.Notarize
