import ZChain.Proofs.Governance
/-!
# C48 — Governance settings change only by the owner and stay valid

Property theorems about `Model/Governance.lean` (helper lemmas in `Proofs/Governance.lean`). The model is
instantiated with the tables of `Generated/C48.lean` (regenerated from the Go sources by `harness/cmd/xc48`
on every run) and tied to the real contracts by the correspondence run of `harness/cmd/c48`.

Every theorem that does not name `Parsers.go` holds for **every** value-parser record `P` — i.e. for whatever
`strconv`, `time.ParseDuration`, `hex` and `currency` actually do — and every statement about Go map iteration
quantifies over the enumeration order `ord` (only `MapOrder.Valid ord` is ever assumed).
-/
namespace ZChain.Gov

variable (P : Parsers)

/-! ## only_owner -/

/-- **only_owner** (minersc `update_settings`, faucetsc, vestingsc, zcnsc): a caller other than the stored
`owner_id` gets `unauthorized` and nothing changes. -/
theorem only_owner (ct : Contract) (vld : Bool) (ord : MapOrder) (caller : Str) (input : Input) (c : Cfg)
    (h : c.owner ≠ caller) : update P ct vld ord caller input c = (.unauthorized, c) := by
  unfold update; simp [h]

/-- minersc `update_globals`: the owner is the miner contract's `owner_id`. -/
theorem only_owner_globals (ord : MapOrder) (caller : Str) (input : Input) (mc : Cfg) (g : Globals)
    (h : mc.owner ≠ caller) : updateGlobals P ord caller input mc g = (.unauthorized, g) := by
  unfold updateGlobals; simp [h]

/-- storagesc `update_settings`: neither the configuration nor the staged changes move for a non-owner. -/
theorem only_owner_storage (sv vl : Bool) (ord : MapOrder) (caller : Str) (input : Input) (s : Storage)
    (h : s.conf.owner ≠ caller) : storageUpdate P sv vl ord caller input s = (.unauthorized, s) := by
  unfold storageUpdate; simp [h]

/-- storagesc `commit_settings_changes` has no caller check at all (the function ignores the transaction); what it
can do is bounded by the staged map, which only the owner writes (`only_owner_storage`): a successful commit
changes a field only if a staged key writes it, and never touches the staged map. -/
theorem commit_changes_only_staged (vl : Bool) (ord : MapOrder) (hv : ord.Valid) (s s' : Storage) (out : Bool)
    (h : storageCommit P vl ord s = (.ok out, s')) :
    s'.staged = s.staged ∧
    ∀ name, s'.conf.get.find name ≠ s.conf.get.find name →
      ∃ k v x, (k, v) ∈ s.staged ∧ storageKey P k v = .ok (.field name x) := by
  rcases storageCommit_ok_inv P h with ⟨_, rfl⟩ | ⟨_, c', hc, rfl, _⟩
  · exact ⟨rfl, fun _ hne => absurd rfl hne⟩
  · refine ⟨rfl, fun name hne => ?_⟩
    obtain ⟨k, v, x, hm, hx⟩ := applyAll_changed_field _ _ _ _ _ name hc hne
    exact ⟨k, v, x, (hv s.staged).mem_iff.mp hm, hx⟩

/-! ## rejected_changes_nothing -/

/-- **rejected_changes_nothing**: whatever the reason of the rejection (not the owner, undecodable input, an
offending key, validation), the configuration is left exactly as it was. -/
theorem rejected_changes_nothing (ct : Contract) (vld : Bool) (ord : MapOrder) (caller : Str) (input : Input) (c : Cfg)
    (h : (update P ct vld ord caller input c).1.isOk = false) : (update P ct vld ord caller input c).2 = c := by
  unfold update at h ⊢
  repeat' split
  all_goals first | rfl | (simp_all [Res.isOk])

theorem rejected_changes_nothing_globals (ord : MapOrder) (caller : Str) (input : Input) (mc : Cfg) (g : Globals)
    (h : (updateGlobals P ord caller input mc g).1.isOk = false) : (updateGlobals P ord caller input mc g).2 = g := by
  unfold updateGlobals at h ⊢
  repeat' split
  all_goals first | rfl | (simp_all [Res.isOk])

theorem rejected_changes_nothing_storage (sv vl : Bool) (ord : MapOrder) (caller : Str) (input : Input) (s : Storage)
    (h : (storageUpdate P sv vl ord caller input s).1.isOk = false) : (storageUpdate P sv vl ord caller input s).2 = s := by
  unfold storageUpdate at h ⊢
  repeat' split
  all_goals first | rfl | (simp_all [Res.isOk])

theorem rejected_changes_nothing_commit (vl : Bool) (ord : MapOrder) (s : Storage)
    (h : (storageCommit P vl ord s).1.isOk = false) : (storageCommit P vl ord s).2 = s := by
  unfold storageCommit at h ⊢
  repeat' split
  all_goals first | rfl | (simp_all [Res.isOk])

/-! ## only_mutable: a successful call changes only settings named (and accepted) in the submitted map -/

/-- **only_mutable / fields**: after a successful update a field differs from before only if a submitted key
resolves to a write of exactly that field (so: a known setting of the contract whose value parsed). -/
theorem only_submitted_fields_change (ct : Contract) (vld : Bool) (ord : MapOrder) (hv : ord.Valid) (caller : Str)
    (m : SMap Str) (c c' : Cfg) (out : Bool) (h : update P ct vld ord caller (some m) c = (.ok out, c')) (name : Str)
    (hne : c'.get.find name ≠ c.get.find name) :
    ∃ k v x, (k, v) ∈ m ∧ ct.keyf P k v = .ok (.field name x) := by
  obtain ⟨_, hc, _⟩ := update_ok_inv P h
  obtain ⟨k, v, x, hm, hx⟩ := applyAll_changed_field _ _ _ _ _ name hc hne
  exact ⟨k, v, x, (hv m).mem_iff.mp hm, hx⟩

theorem only_submitted_costs_change (ct : Contract) (vld : Bool) (ord : MapOrder) (hv : ord.Valid) (caller : Str)
    (m : SMap Str) (c c' : Cfg) (out : Bool) (h : update P ct vld ord caller (some m) c = (.ok out, c')) (name : Str)
    (hne : c'.cost.find name ≠ c.cost.find name) :
    ∃ k v x, (k, v) ∈ m ∧ ct.keyf P k v = .ok (.cost name x) := by
  obtain ⟨_, hc, _⟩ := update_ok_inv P h
  obtain ⟨k, v, x, hm, hx⟩ := applyAll_changed_cost _ _ _ _ _ name hc hne
  exact ⟨k, v, x, (hv m).mem_iff.mp hm, hx⟩

/-- a field write of minersc / storagesc `set` is to the submitted key itself, which is a row of the settings table whose
type has a `set` case, whose parsed value `x` is what that case's parser returned, and whose setter has a case for it -/
theorem setKey_field_in_table (tbl : List Entry) (disp : List Dispatch) (k v name : Str) (x : Val)
    (h : setKey P tbl disp k v = .ok (.field name x)) :
    name = k ∧ ∃ e ∈ tbl, e.key = k ∧ ∃ d ∈ disp, d.ct = e.ct ∧ d.setter = e.setter ∧ parseBy P d.parse v = some x := by
  unfold setKey at h
  split at h
  · split at h <;> simp at h
  · split at h
    · simp at h
    · rename_i e he
      split at h
      · simp at h
      · rename_i d hd
        split at h
        · simp at h
        · rename_i y hy
          split at h
          · rename_i hs
            injection h with h; injection h with h1 h2
            have hem := List.mem_of_find?_eq_some he
            have hek := List.find?_some he
            have hdm := List.mem_of_find?_eq_some hd
            have hdk := List.find?_some hd
            simp only [decide_eq_true_eq] at hek hdk
            exact ⟨h1.symm, e, hem, hek, d, hdm, hdk, hs, by rw [hy, h2]⟩
          · split at h <;> simp at h

/-- a field write of the faucetsc / vestingsc / zcnsc key switch is to the submitted key, one of the switch's cases -/
theorem switchKey_field_in_table (cases : List KeyCase) (deflt : List String) (pfx : Str) (fns : List String)
    (k v name : Str) (x : Val) (h : switchKey P cases deflt pfx fns k v = .ok (.field name x)) :
    name = k ∧ ∃ c ∈ cases, c.key = k ∧ parseBy P c.parse v = some x := by
  have hcost : ∀ pfx fns k v, costValue P pfx fns k v ≠ .ok (.field name x) := by
    intro pfx fns k v hc
    unfold costValue at hc
    repeat' split at hc
    all_goals simp at hc
  unfold switchKey at h
  split at h
  · rename_i c hc
    split at h
    · exact absurd h (hcost _ _ _ _)
    · split at h
      · simp at h
      · rename_i y hy
        injection h with h; injection h with h1 h2
        have hcm := List.mem_of_find?_eq_some hc
        have hck := List.find?_some hc
        simp only [decide_eq_true_eq] at hck
        exact ⟨h1.symm, c, hcm, hck, by rw [hy, h2]⟩
  · split at h
    · exact absurd h (hcost _ _ _ _)
    · simp at h

/-- **only_mutable / globals**: `update_globals` changes a global setting only if it was submitted, is a row of
`config.GlobalSettingInfo` marked `Mutable`, and its value passes `StringToInterface` for the row's type. -/
theorem globals_only_mutable_change (ord : MapOrder) (hv : ord.Valid) (caller : Str) (m : SMap Str) (mc : Cfg)
    (g g' : Globals) (out : Bool) (h : updateGlobals P ord caller (some m) mc g = (.ok out, g')) (k : Str)
    (hne : g'.fields.find k ≠ g.fields.find k) :
    g'.version = g.version + 1 ∧
    ∃ v, (k, v) ∈ m ∧ ∃ e ∈ Generated.C48.globals, e.key = k ∧ e.mutable = true ∧ stringToInterfaceOk P e.ct v = .ok () := by
  have aux : ∀ (o : SMap Str) (f f' : SMap Str), globalsAll P o f = .ok f' → f'.find k ≠ f.find k →
      ∃ v, (k, v) ∈ o ∧ globalsKey P k v = .ok () := by
    intro o
    induction o with
    | nil => intro f f' h hne; simp [globalsAll] at h; subst h; exact absurd rfl hne
    | cons p r ih =>
      intro f f' h hne
      obtain ⟨a, b⟩ := p
      unfold globalsAll at h
      split at h
      · simp at h
      · rename_i hk
        by_cases ha : a = k
        · subst ha; exact ⟨b, List.mem_cons_self, hk⟩
        · obtain ⟨v, hm, hx⟩ := ih _ _ h (by rw [SMap.find_insert_ne _ _ _ _ ha]; exact hne)
          exact ⟨v, List.mem_cons_of_mem _ hm, hx⟩
  obtain ⟨_, f, hf, rfl⟩ := updateGlobals_ok_inv P h
  obtain ⟨v, hm, hx⟩ := aux _ _ _ hf hne
  refine ⟨rfl, v, (hv m).mem_iff.mp hm, ?_⟩
  unfold globalsKey at hx
  split at hx
  · simp at hx
  · rename_i e he
    split at hx
    · simp at hx
    · rename_i hmut
      have hem := List.mem_of_find?_eq_some he
      have hek := List.find?_some he
      simp only [decide_eq_true_eq] at hek
      exact ⟨e, hem, hek, by simpa using hmut, hx⟩

/-- what `isCost` keys do in minersc / storagesc: *any* name after `cost.` is written — the settings table is not consulted. -/
theorem setKey_cost_any_name (tbl : List Entry) (disp : List Dispatch) (k v : Str) (i : Int)
    (hk : isCost k = true) (hv : P.atoi v = some i) : setKey P tbl disp k v = .ok (.cost (k.drop 5) i) := by
  unfold setKey; simp [hk, hv]

/-- negation witness for *only_mutable* read strictly ("only for settings marked mutable"): `cost.bogus` is not a row of
the minersc settings table, yet `update_settings` accepts it and stores a cost entry `bogus`
(finding `C48:miner-unknown-cost-key-accepted`, same for storagesc). -/
theorem unknown_cost_name_accepted :
    (findEntry Generated.C48.miner (str% "cost.bogus")).isNone = true ∧
    (minerKey Parsers.go (str% "cost.bogus") (str% "7")).toOption = some (.cost (str% "bogus") 7) ∧
    (findEntry Generated.C48.storage (str% "cost.bogus")).isNone = true ∧
    (storageKey Parsers.go (str% "cost.bogus") (str% "7")).toOption = some (.cost (str% "bogus") 7) := by
  decide +kernel

/-! ## only_parsable_and_valid -/

/-- **valid**: an entry point that calls `validate` before saving never stores a configuration that fails it. -/
theorem valid_after_update (ct : Contract) (ord : MapOrder) (caller : Str) (input : Input) (c c' : Cfg) (out : Bool)
    (h : update P ct true ord caller input c = (.ok out, c')) : ct.validate c' = none := by
  cases input with
  | none => unfold update at h; split at h <;> simp at h
  | some m => exact (update_ok_inv P h).2.2 rfl

/-- storagesc `commit_settings_changes` (which validates): same. -/
theorem valid_after_commit (ord : MapOrder) (s s' : Storage) (out : Bool) (hne : s.staged ≠ [])
    (h : storageCommit P true ord s = (.ok out, s')) : Contract.validate .storage s'.conf = none := by
  rcases storageCommit_ok_inv P h with ⟨he, _⟩ | ⟨_, c', _, rfl, hv⟩
  · exact absurd he hne
  · exact hv rfl

/-- storagesc `update_settings` in a branch that saves and validates (not today's code, see `storage_saves_unvalidated`) -/
theorem valid_after_storage_update (ord : MapOrder) (caller : Str) (m : SMap Str) (s s' : Storage) (out : Bool)
    (hm : m ≠ []) (h : storageUpdate P true true ord caller (some m) s = (.ok out, s')) :
    Contract.validate .storage s'.conf = none := by
  obtain ⟨_, c', _, _, hc, hv⟩ := storageUpdate_ok_inv P hm h
  rw [hc]; exact hv rfl rfl

/-- storagesc `update_settings` in a branch that does not save: the configuration is untouched (only staged). -/
theorem storage_update_without_save_keeps_conf (vl : Bool) (ord : MapOrder) (caller : Str) (input : Input) (s : Storage) :
    (storageUpdate P false vl ord caller input s).2.conf = s.conf := by
  unfold storageUpdate
  repeat' split
  all_goals first | rfl | simp_all

/-- **parsable**: a successful update of a contract whose loop has no early exit accepted every submitted key
(known name, value parses as the setting's type, setter exists). -/
theorem all_keys_accepted (ct : Contract) (hs : ct.stops = noStop) (vld : Bool) (ord : MapOrder) (hv : ord.Valid)
    (caller : Str) (m : SMap Str) (c c' : Cfg) (out : Bool)
    (h : update P ct vld ord caller (some m) c = (.ok out, c')) :
    ∀ k v, (k, v) ∈ m → ∃ w, ct.keyf P k v = .ok w := by
  obtain ⟨_, hc, _⟩ := update_ok_inv P h
  rw [hs] at hc
  have hb := applyAll_ok_all_accepted _ _ _ _ hc
  intro k v hm
  have hm' : (k, v) ∈ ord m := (hv m).mem_iff.mpr hm
  cases hk : ct.keyf P k v with
  | ok w => exact ⟨w, rfl⟩
  | error e =>
    exfalso
    have : (k, e) ∈ badKeys (ct.keyf P) (ord m) := by
      unfold badKeys
      rw [List.mem_filterMap]
      exact ⟨(k, v), hm', by simp [hk]⟩
    rw [hb] at this
    simp at this

/-- which entry points validate before they save — read off the call order extracted from the Go source -/
theorem validating_entry_points :
    Contract.validates .miner = true ∧ Contract.validates .faucet = true ∧ Contract.validates .zcn = true ∧
    Contract.validates .storage = true := by decide +kernel

theorem loops_without_early_exit :
    Contract.stops .miner = noStop ∧ Contract.stops .storage = noStop ∧ Contract.stops .zcn = noStop := by
  refine ⟨rfl, rfl, ?_⟩
  funext k
  simp only [Contract.stops, switchStops, noStop]
  have : Generated.C48.zcnDefault.head? ≠ some "return" := by decide
  simp [this]

def vestingCfg0 : Cfg := ⟨[(str% "owner_id", .str (str% "aa")), (str% "min_lock", .int 100000000),
  (str% "min_duration", .int 120000000000), (str% "max_duration", .int 7200000000000),
  (str% "max_destinations", .int 3), (str% "max_description_length", .int 20)], []⟩

/-- negation witness of *only valid values* for vestingsc: `updateConfig` does not call `validate` (unless the
generated call order says it does — then the general theorem `valid_after_update` applies): the owner's
`min_duration = 0s` is stored although `validate` rejects it (finding `C48:vesting-update-saved-invalid-config`). -/
theorem vesting_saves_unvalidated :
    Contract.validates .vesting = true ∨
    (Contract.validate .vesting vestingCfg0 = none ∧
     (update Parsers.go .vesting (Contract.validates .vesting) id (str% "aa") (some [(str% "min_duration", str% "0s")]) vestingCfg0).1 = .ok false ∧
     Contract.validate .vesting
       (update Parsers.go .vesting (Contract.validates .vesting) id (str% "aa") (some [(str% "min_duration", str% "0s")]) vestingCfg0).2 = some 0) := by
  decide +kernel

def storageCfg0 : Cfg := ⟨[(str% "owner_id", .str (str% "aa")), (str% "time_unit", .int 2592000000000000),
  (str% "validator_reward", .dec ⟨false, 25, 3⟩), (str% "blobber_slash", .dec ⟨false, 1, 1⟩), (str% "cancellation_charge", .dec ⟨false, 2, 1⟩),
  (str% "max_blobbers_per_allocation", .int 40), (str% "min_blobber_capacity", .int 10737418240), (str% "max_challenge_completion_rounds", .int 1200),
  (str% "health_check_period", .int 5400000000000), (str% "min_alloc_size", .int 1048576), (str% "max_write_price", .int 70000000000),
  (str% "min_write_price", .int 10000000), (str% "stakepool.kill_slash", .dec ⟨false, 5, 1⟩),
  (str% "free_allocation_settings.data_shards", .int 4), (str% "free_allocation_settings.parity_shards", .int 2),
  (str% "free_allocation_settings.size", .int 10000000), (str% "free_allocation_settings.read_price_range.min", .int 0),
  (str% "free_allocation_settings.read_price_range.max", .int 0), (str% "free_allocation_settings.write_price_range.min", .int 0),
  (str% "free_allocation_settings.write_price_range.max", .int 10000000000), (str% "free_allocation_settings.read_pool_fraction", .dec ⟨false, 0, 0⟩),
  (str% "validators_per_challenge", .int 3), (str% "num_validators_rewarded", .int 10), (str% "max_blobber_select_for_challenge", .int 5),
  (str% "max_stake", .int 200000000000000), (str% "min_stake", .int 100000000), (str% "max_delegates", .int 200),
  (str% "max_charge", .dec ⟨false, 5, 1⟩), (str% "block_reward.gamma.a", .dec ⟨false, 10, 0⟩), (str% "block_reward.gamma.b", .dec ⟨false, 9, 0⟩),
  (str% "block_reward.gamma.alpha", .dec ⟨false, 2, 1⟩), (str% "block_reward.zeta.mu", .dec ⟨false, 2, 1⟩),
  (str% "block_reward.zeta.i", .dec ⟨false, 1, 0⟩), (str% "block_reward.zeta.k", .dec ⟨false, 9, 1⟩)], []⟩

def storage0 : Storage := ⟨storageCfg0, []⟩
def badDelegates : SMap Str := [(str% "max_delegates", str% "0")]

/-- negation witness for storagesc after the `demeter` fork: `update_settings` saves the configuration in the
`after` branch without `validate` (unless the generated call order says otherwise): `max_delegates = 0` is stored.
`commit_settings_changes` does *not* cover it — it then fails validation on every call (the staged map still
holds the value) and the stored configuration stays invalid (finding `C48:storage-update-saved-invalid-config`). -/
theorem storage_saves_unvalidated :
    (storageBranch true).2 = true ∨
    (Contract.validate .storage storageCfg0 = none ∧ (storageBranch true).1 = true ∧
     let r := storageUpdate Parsers.go (storageBranch true).1 (storageBranch true).2 id (str% "aa") (some badDelegates) storage0
     r.1 = .ok false ∧ Contract.validate .storage r.2.conf = some 21 ∧
     let r' := storageCommit Parsers.go (Contract.validates .storage) id r.2
     r'.1 = .invalid 21 ∧ Contract.validate .storage r'.2.conf = some 21) := by
  decide +kernel

/-- before the fork the same call only stages the change; the configuration is untouched and the (validating)
commit refuses it: this part of the flow keeps the property. -/
theorem storage_prefork_commit_covers :
    (storageBranch false).1 = false ∧
    let r := storageUpdate Parsers.go (storageBranch false).1 (storageBranch false).2 id (str% "aa") (some badDelegates) storage0
    r.1 = .ok false ∧ Contract.validate .storage r.2.conf = none ∧
    (storageCommit Parsers.go (Contract.validates .storage) id r.2).1 = .invalid 21 := by
  decide +kernel

/-! ## order_independent_result — false as stated; what holds, and the witnesses -/

/-- The reported error is always one of the offending keys of the submitted map, whatever the enumeration. -/
theorem first_error_mem_badKeys (ct : Contract) (vld : Bool) (ord : MapOrder) (hv : ord.Valid) (caller : Str)
    (m : SMap Str) (c : Cfg) (k : Str) (e : KeyErr) (c' : Cfg)
    (h : update P ct vld ord caller (some m) c = (.key k e, c')) : (k, e) ∈ badKeys (ct.keyf P) m := by
  exact ((badKeys_perm _ (hv m)).mem_iff).mp (applyAll_error_mem _ _ _ _ _ (update_key_inv P h))

/-- … and every offending key *is* reported under some enumeration (contracts without early loop exit): the driver
therefore prints the whole set, and the harness computes the same set from the real code key by key. -/
theorem every_bad_key_reachable (keyf : Str → Str → Except KeyErr Write) (m : SMap Str) (c : Cfg) (k : Str) (e : KeyErr)
    (h : (k, e) ∈ badKeys keyf m) : ∃ o, o.Perm m ∧ applyAll keyf noStop o c = .error (k, e) := by
  unfold badKeys at h
  rw [List.mem_filterMap] at h
  obtain ⟨⟨k', v⟩, hm, hk⟩ := h
  cases hkv : keyf k' v with
  | ok w => simp [hkv] at hk
  | error e' =>
    simp only [hkv] at hk
    injection hk with hk; injection hk with h1 h2; subst h1; subst h2
    refine ⟨(k', v) :: m.erase (k', v), (List.perm_cons_erase hm).symm, ?_⟩
    unfold applyAll; simp [hkv]

theorem applyAll_noStop_of (keyf : Str → Str → Except KeyErr Write) (stops : Str → Bool) :
    ∀ (o : SMap Str) (c : Cfg), (∀ p ∈ o, stops p.1 = false) → applyAll keyf stops o c = applyAll keyf noStop o c := by
  intro o
  induction o with
  | nil => intro c _; rfl
  | cons p r ih =>
    intro c hs
    obtain ⟨k, v⟩ := p
    unfold applyAll
    cases keyf k v with
    | error e => rfl
    | ok w =>
      have h1 : stops k = false := hs (k, v) List.mem_cons_self
      simp only [h1, noStop, Bool.false_eq_true, if_false]
      exact ih _ fun p hp => hs p (List.mem_cons_of_mem _ hp)

theorem Cfg.val_congr {a b : Cfg} (h : Cfg.Equiv a b) (n : Str) : a.val n = b.val n := by
  unfold Cfg.val; rw [h.1 n]

theorem validate_congr (ct : Contract) {a b : Cfg} (h : Cfg.Equiv a b) : ct.validate a = ct.validate b := by
  have hv := Cfg.val_congr h
  unfold Contract.validate
  congr 1
  cases ct <;>
    (simp only [Contract.checks, minerChecks, storageChecks, faucetChecks, vestingChecks, zcnChecks, Cfg.int, Cfg.dec, Cfg.owner, hv]; try rfl)

/-- **order_independent_result_partial**. Full statement (false, see the three witnesses below):
`∀ ord₁ ord₂ valid, update … ord₁ … = update … ord₂ …`.
Proved: if no submitted key ends the loop early, no two submitted keys write the same place, and at most one key is
offending, then result and (observational) configuration do not depend on the enumeration. -/
theorem order_independent_result_partial (ct : Contract) (vld : Bool) (ord₁ ord₂ : MapOrder) (h₁ : ord₁.Valid) (h₂ : ord₂.Valid)
    (caller : Str) (m : SMap Str) (c : Cfg)
    (hstop : ∀ p ∈ m, ct.stops p.1 = false)
    (hind : (writesOf (ct.keyf P) m).Pairwise Write.Indep)
    (hbad : (badKeys (ct.keyf P) m).length ≤ 1) :
    (update P ct vld ord₁ caller (some m) c).1 = (update P ct vld ord₂ caller (some m) c).1 ∧
    Cfg.Equiv (update P ct vld ord₁ caller (some m) c).2 (update P ct vld ord₂ caller (some m) c).2 := by
  have hs₁ : ∀ p ∈ ord₁ m, ct.stops p.1 = false := fun p hp => hstop p ((h₁ m).mem_iff.mp hp)
  have hs₂ : ∀ p ∈ ord₂ m, ct.stops p.1 = false := fun p hp => hstop p ((h₂ m).mem_iff.mp hp)
  have hp12 : (ord₁ m).Perm (ord₂ m) := (h₁ m).trans (h₂ m).symm
  have hb : badKeys (ct.keyf P) (ord₁ m) = badKeys (ct.keyf P) (ord₂ m) := by
    have hp := badKeys_perm (ct.keyf P) hp12
    have hl : (badKeys (ct.keyf P) (ord₁ m)).length ≤ 1 := by
      rw [(badKeys_perm (ct.keyf P) (h₁ m)).length_eq]; exact hbad
    match hx : badKeys (ct.keyf P) (ord₁ m), hl with
    | [], _ => rw [hx] at hp; exact (List.perm_nil.mp hp.symm).symm ▸ rfl
    | [x], _ => rw [hx] at hp; exact (List.perm_singleton.mp hp.symm).symm
  have hind₁ : (writesOf (ct.keyf P) (ord₁ m)).Pairwise Write.Indep :=
    ((writesOf_perm (ct.keyf P) (h₁ m)).pairwise_iff (fun h => Write.Indep.symm h)).mpr hind
  have heq := applyWrites_perm (writesOf_perm (ct.keyf P) hp12) hind₁ c
  unfold update
  split
  · exact ⟨rfl, Cfg.Equiv.refl _⟩
  · simp only
    rw [applyAll_noStop_of _ _ _ _ hs₁, applyAll_noStop_of _ _ _ _ hs₂, applyAll_noStop, applyAll_noStop, hb]
    cases (badKeys (ct.keyf P) (ord₂ m)).head? with
    | some b => exact ⟨rfl, Cfg.Equiv.refl _⟩
    | none =>
      simp only
      cases vld with
      | false => exact ⟨rfl, heq⟩
      | true =>
        simp only [if_true]
        rw [validate_congr ct heq]
        cases ct.validate (applyWrites c (writesOf (ct.keyf P) (ord₂ m))) with
        | some i => exact ⟨rfl, Cfg.Equiv.refl _⟩
        | none => exact ⟨rfl, heq⟩

def minerCfg0 : Cfg := ⟨[(str% "owner_id", .str (str% "aa")), (str% "min_n", .int 3), (str% "max_n", .int 7), (str% "min_s", .int 1),
  (str% "max_s", .int 2), (str% "max_delegates", .int 200)], []⟩

def twoBad : SMap Str := [(str% "max_n", str% "x"), (str% "nope", str% "1")]

/-- **negation witness 1** (the design-phase suspect, confirmed on the real code): two offending keys — the error the
transaction reports, hence its output string, depends on the enumeration the Go runtime picks.
Same shape in all six entry points. The settings are untouched either way (`rejected_changes_nothing`), so this is not a
violation of C48's wording; the differing output is C06's subject (findings `C06:error-output:gov-<contract>`). -/
theorem order_dependent_error_witness :
    (update Parsers.go .miner true id (str% "aa") (some twoBad) minerCfg0).1 = .key (str% "max_n") .unparsable ∧
    (update Parsers.go .miner true List.reverse (str% "aa") (some twoBad) minerCfg0).1 = .key (str% "nope") .unknown := by
  decide +kernel

def aliasKeys : SMap Str := [(str% "max_delegates", str% "11"), (str% " max_delegates", str% "22")]

/-- **negation witness 2**: storagesc trims keys *after* they were merged into the staged map, so `"max_delegates"`
and `" max_delegates"` are two map entries that write the same field: the stored value — hence the state root —
depends on the enumeration (finding `C48:storage-state-depends-on-map-order-alias`; faucetsc and vestingsc do the same
with the letter case of `cost.<fn>` keys). -/
theorem order_dependent_state_alias_witness :
    ((storageUpdate Parsers.go true false id (str% "aa") (some aliasKeys) storage0).2.conf.int (str% "max_delegates") = 11 ∨
     (storageUpdate Parsers.go true false id (str% "aa") (some aliasKeys) storage0).2.conf.int (str% "max_delegates") = 22) ∧
    (storageUpdate Parsers.go true false id (str% "aa") (some aliasKeys) storage0).2.conf.int (str% "max_delegates") ≠
    (storageUpdate Parsers.go true false List.reverse (str% "aa") (some aliasKeys) storage0).2.conf.int (str% "max_delegates") := by
  decide +kernel

def faucetCfg0 : Cfg := ⟨[(str% "owner_id", .str (str% "aa")), (str% "pour_amount", .int 10000000000), (str% "max_pour_amount", .int 1000000000000),
  (str% "periodic_limit", .int 10000000000000), (str% "global_limit", .int 1000000000000000), (str% "individual_reset", .int 10800000000000),
  (str% "global_rest", .int 172800000000000)], [(str% "pour", 100)]⟩

def costAndMore : SMap Str := [(str% "cost.pour", str% "5"), (str% "pour_amount", str% "x")]

/-- **negation witness 3**: faucetsc / vestingsc end their loop on the first cost key (`default: return setCostValue(…)`),
also when it was accepted: whether the other submitted keys are applied — or their errors reported — depends on the
enumeration: one order succeeds, the other fails (findings `C48:faucet-…-early-return`, `C48:vesting-…-early-return`). -/
theorem order_dependent_early_return_witness :
    (update Parsers.go .faucet true id (str% "aa") (some costAndMore) faucetCfg0).1 = .ok true ∧
    (update Parsers.go .faucet true List.reverse (str% "aa") (some costAndMore) faucetCfg0).1 = .key (str% "pour_amount") .unparsable := by
  decide +kernel

/-! ## the settings in force are the same on every node -/

/-- `Chain.updateConfig` reads the global settings from the state of the latest finalized block; a field that is stored and
parses is used as stored — the node-local configuration (`viper`) is not consulted. -/
theorem in_force_independent_of_local (g : Globals) (name : Str) (ct : CT) (v loc₁ loc₂ : Str)
    (hf : g.fields.find name = some v) (hp : stringToInterfaceOk P ct v = .ok ()) :
    globalInForce P g name ct loc₁ = globalInForce P g name ct loc₂ := by
  unfold globalInForce; simp [hf, hp]

/-- after a successful `update_globals`, every submitted setting is stored and parses: its value in force does not
depend on the node (given the nodes agree on the state, which is C06's subject). -/
theorem updated_globals_in_force_everywhere (ord : MapOrder) (hv : ord.Valid) (caller : Str) (m : SMap Str) (mc : Cfg)
    (g g' : Globals) (out : Bool) (h : updateGlobals P ord caller (some m) mc g = (.ok out, g'))
    (k v : Str) (hm : (k, v) ∈ m) (hu : ∀ v', (k, v') ∈ m → v' = v) :
    g'.fields.find k = some v ∧ ∃ e ∈ Generated.C48.globals, e.key = k ∧ stringToInterfaceOk P e.ct v = .ok () := by
  have aux : ∀ (o : SMap Str) (f f' : SMap Str), globalsAll P o f = .ok f' →
      (∀ k v, (k, v) ∈ o → globalsKey P k v = .ok ()) ∧
      ∀ k, (∀ v, (k, v) ∉ o) → f'.find k = f.find k := by
    intro o
    induction o with
    | nil => intro f f' h; simp [globalsAll] at h; subst h; exact ⟨fun _ _ hm => by simp at hm, fun _ _ => rfl⟩
    | cons p r ih =>
      intro f f' h
      obtain ⟨a, b⟩ := p
      unfold globalsAll at h
      split at h
      · simp at h
      · rename_i hk
        obtain ⟨i1, i2⟩ := ih _ _ h
        refine ⟨fun k v hm => ?_, fun k hk' => ?_⟩
        · rcases List.mem_cons.mp hm with hm | hm
          · injection hm with h1 h2; subst h1; subst h2; exact hk
          · exact i1 k v hm
        · rw [i2 k fun v hm => hk' v (List.mem_cons_of_mem _ hm)]
          have : a ≠ k := fun e => hk' b (by subst e; exact List.mem_cons_self)
          exact SMap.find_insert_ne _ _ _ _ this
  have aux2 : ∀ (o : SMap Str) (f f' : SMap Str), globalsAll P o f = .ok f' → (k, v) ∈ o →
      (∀ v', (k, v') ∈ o → v' = v) → f'.find k = some v := by
    intro o
    induction o with
    | nil => intro f f' _ hm; simp at hm
    | cons p r ih =>
      intro f f' h hm hu
      obtain ⟨a, b⟩ := p
      unfold globalsAll at h
      split at h
      · simp at h
      · by_cases hr : ∃ v', (k, v') ∈ r
        · obtain ⟨v', hv'⟩ := hr
          have := hu v' (List.mem_cons_of_mem _ hv')
          subst this
          exact ih _ _ h hv' fun v'' hm'' => hu v'' (List.mem_cons_of_mem _ hm'')
        · have hn : ∀ v', (k, v') ∉ r := fun v' hm' => hr ⟨v', hm'⟩
          have hab : (a, b) = (k, v) := by
            rcases List.mem_cons.mp hm with hm | hm
            · exact hm.symm
            · exact absurd hm (hn v)
          injection hab with h1 h2; subst h1; subst h2
          rw [(aux r _ _ h).2 a hn]
          exact SMap.find_insert_self _ _ _
  obtain ⟨_, f, hf, rfl⟩ := updateGlobals_ok_inv P h
  have hm' : (k, v) ∈ ord m := (hv m).mem_iff.mpr hm
  have hu' : ∀ v', (k, v') ∈ ord m → v' = v := fun v' h' => hu v' ((hv m).mem_iff.mp h')
  refine ⟨aux2 _ _ _ hf hm' hu', ?_⟩
  have hx := (aux _ _ _ hf).1 k v hm'
  unfold globalsKey at hx
  split at hx
  · simp at hx
  · rename_i e he
    split at hx
    · simp at hx
    · have hem := List.mem_of_find?_eq_some he
      have hek := List.find?_some he
      simp only [decide_eq_true_eq] at hek
      exact ⟨e, hem, hek, hx⟩

/-! ### declared type versus the type the setting is read with -/

/-- **declared_type_matches_reader**: `GlobalSettings.update` accepts a value when it parses as the type *declared* in
`config.GlobalSettingInfo`; `ConfigImpl.Update` / `DbSettings.Update` read it back with their own typed accessor, which falls
back to the node-local yaml when the stored string does not parse. Decided over the two generated tables: every accessor
reads a declared setting with exactly the declared type (a row that is declared wider than it is read would let a value be
accepted that no node can read). -/
theorem declared_type_matches_reader :
    Generated.C48.globalReaders.all (fun r =>
      match findEntry Generated.C48.globals r.2.1 with
      | some e => e.ct == r.2.2.1
      | none => false) = true := by
  decide +kernel

theorem globals_keys_nodup : (Generated.C48.globals.map (·.key)).Nodup := by decide +kernel

theorem findEntry_of_mem_nodup : ∀ (tbl : List Entry) (e : Entry), e ∈ tbl → (tbl.map (·.key)).Nodup → findEntry tbl e.key = some e
  | [], _, h, _ => by simp at h
  | x :: r, e, h, hn => by
    unfold findEntry
    rw [List.find?_cons]
    by_cases hx : x.key = e.key
    · simp only [hx, decide_true]
      rcases List.mem_cons.mp h with h | h
      · rw [h]
      · exfalso
        have hn' : x.key ∉ r.map (·.key) := by
          have := hn; simp only [List.map_cons] at this; exact (List.nodup_cons.mp this).1
        exact hn' (by rw [hx]; exact List.mem_map.mpr ⟨e, h, rfl⟩)
    · simp only [hx, decide_false]
      rcases List.mem_cons.mp h with h | h
      · exact absurd (by rw [h]) hx
      · have hn2 : (r.map (·.key)).Nodup := by
          have := hn; simp only [List.map_cons] at this; exact (List.nodup_cons.mp this).2
        exact findEntry_of_mem_nodup r e h hn2

/-- **accepted values are read back**: given `declared_type_matches_reader`, a value accepted by `update_globals` is what the
code's own accessor for that setting returns on every node — no silent fallback to the local configuration. -/
theorem accepted_global_read_back (ord : MapOrder) (hv : ord.Valid) (caller : Str) (m : SMap Str) (mc : Cfg)
    (g g' : Globals) (out : Bool) (h : updateGlobals P ord caller (some m) mc g = (.ok out, g'))
    (k v : Str) (hm : (k, v) ∈ m) (hu : ∀ v', (k, v') ∈ m → v' = v) (rct : CT) (hr : globalReaderCT k = some rct) (loc : Str) :
    globalInForce P g' k rct loc = v := by
  obtain ⟨hf, e, hem, hek, hp⟩ := updated_globals_in_force_everywhere P ord hv caller m mc g g' out h k v hm hu
  have hfe : findEntry Generated.C48.globals k = some e := by
    rw [← hek]; exact findEntry_of_mem_nodup _ e hem globals_keys_nodup
  -- the reader row for k
  unfold globalReaderCT at hr
  cases hfr : Generated.C48.globalReaders.find? (fun r => r.2.1 = k) with
  | none => simp [hfr] at hr
  | some r =>
    simp only [hfr, Option.map_some, Option.some.injEq] at hr
    have hrm := List.mem_of_find?_eq_some hfr
    have hrk : r.2.1 = k := by simpa using List.find?_some hfr
    have hall := List.all_eq_true.mp declared_type_matches_reader r hrm
    rw [hrk, hfe] at hall
    have hct : e.ct = rct := by rw [← hr]; simpa using hall
    unfold globalInForce
    simp only [hf, ← hct, hp]

/-! ## ties to the generated file: what the hand-written part of the model relies on -/

/-- the call order of every entry point, `validate` calls taken out (the model takes those from the generated list):
any other change of an entry point's shape breaks this theorem and the model has to be revisited. -/
theorem flows_as_modelled :
    (Generated.C48.flows.filter (fun p => !(p.1.toList.take 4 = "src:".toList))).map (fun p => (p.1, p.2.filter (· ≠ "validate"))) =
    [("faucetsc.updateSettings", ["authorize", "decode", "update", "save(gn.GetKey())"]),
     ("minersc.GlobalSettings.update", ["info, found := config2.GlobalSettingInfo[key]", "if !found", "if !info.Mutable",
        "_, err = config2.StringToInterface(value, info.SettingType)", "if err != nil", "gl.Fields[key] = value"]),
     ("minersc.updateGlobals", ["authorize", "decode", "getGlobals", "update", "save"]),
     ("minersc.updateSettings", ["authorize", "decode", "update", "save"]),
     ("storagesc.commitSettingChanges", ["getConfig", "getStaged", "update", "save(scConfigKey(ADDRESS))"]),
     ("storagesc.updateSettings", ["getConfig", "authorize", "decode", "getStaged", "update", "save(settingChangesKey)",
        "fork:demeter", "before[", "]", "after[", "save", "]"]),
     ("vestingsc.updateConfig", ["getConfig", "authorize", "decode", "update", "save(scConfigKey(ADDRESS))"]),
     ("zcnsc.UpdateGlobalConfig", ["getConfig", "authorize", "decode", "update", "save(gn.GetKey())"])] := by
  decide +kernel

/-- the source text of the helpers the hand-written part of the model transcribes: the cost-key handling, the update loops,
`StringToInterface`, `WithActivation`, and the functions the `validate` conditions call (`toSeconds` — truncating division by
`time.Second` —, `PriceRange.isValid`); the translator refuses a validate condition that calls anything else. An edit of one
of them breaks this theorem and the model has to be revisited. -/
theorem helper_src_as_modelled :
    Generated.C48.flows.filter (fun p => p.1.toList.take 4 = "src:".toList) = [
     ("src:config.StringToInterface", ["{ switch iType { case Int: return strconv.Atoi(input) case Int32: v64, err := strconv.ParseInt(input, 10, 32) return int32(v64), err case Int64: return strconv.ParseInt(input, 10, 64) case Duration: return time.ParseDuration(input) case Float64: return strconv.ParseFloat(input, 64) case Boolean: return strconv.ParseBool(input) case String: return input, nil case CurrencyCoin: value, err := strconv.ParseInt(input, 10, 64) if err != nil { return nil, err } return currency.Int64ToCoin(value) case Strings: return strings.Split(input, \",\"), nil default: panic(fmt.Sprintf(\"StringToInterface input %s unsupported type %v\", input, iType)) } }"]),
     ("src:cstate.WithActivation", ["{ round, err := GetRoundByName(ctx, name) if err != nil && !errors.Is(util.ErrValueNotPresent, err) { logging.Logger.Error(\"with_activation\", zap.Error(err)) } if errors.Is(err, util.ErrNodeNotFound) { return err } if ctx.GetBlock().Round < round { err = before() } else { err = after() } return err }"]),
     ("src:faucetsc.setCostValue", ["{ if !strings.HasPrefix(key, Settings[Cost]) { return fmt.Errorf(\"key %s not recognised as setting\", key) } costKey := strings.ToLower(strings.TrimPrefix(key, Settings[Cost]+\".\")) for _, costFunction := range costFunctions { if costKey != strings.ToLower(costFunction) { continue } costValue, err := strconv.Atoi(value) if err != nil { return fmt.Errorf(\"key %s, unable to convert %v to integer\", key, value) } if costValue < 0 { return fmt.Errorf(\"cost.%s contains invalid value %s\", key, value) } gn.Cost[costKey] = costValue return nil } return fmt.Errorf(\"cost config setting %s not found\", costKey) }"]),
     ("src:faucetsc.toSeconds", ["{ return common.Timestamp(dur / time.Second) }"]),
     ("src:minersc.GlobalNode.update", ["{ for key, value := range changes.Fields { if err := gn.set(key, value); err != nil { return err } } return nil }"]),
     ("src:minersc.isCost", ["{ if len(key) <= len(costPrefix) { return false } return key[:len(costPrefix)] == costPrefix }"]),
     ("src:minersc.setCost", ["{ if !isCost(key) { return fmt.Errorf(\"key: %v is not a cost\", key) } if gn.Cost == nil { gn.Cost = make(map[string]int) } gn.Cost[strings.TrimPrefix(key, costPrefix)] = change return nil }"]),
     ("src:storagesc.Config.update", ["{ for key, value := range changes.Fields { trimmedKey := strings.TrimSpace(key) trimmedValue := strings.TrimSpace(value) if err := conf.set(trimmedKey, trimmedValue); err != nil { return err } } return nil }"]),
     ("src:storagesc.PriceRange.isValid", ["{ return pr.Min <= pr.Max }"]),
     ("src:storagesc.isCost", ["{ if len(key) <= len(costPrefix) { return false } return key[:len(costPrefix)] == costPrefix }"]),
     ("src:storagesc.setCost", ["{ if !isCost(key) { return fmt.Errorf(\"key: %v is not a cost\", key) } if conf.Cost == nil { conf.Cost = make(map[string]int) } conf.Cost[strings.TrimPrefix(key, costPrefix)] = change return nil }"]),
     ("src:vestingsc.setCostValue", ["{ if !strings.HasPrefix(key, Settings[Cost]) { return fmt.Errorf(\"config setting %s not found\", key) } costKey := strings.ToLower(strings.TrimPrefix(key, Settings[Cost]+\".\")) for _, costFunction := range costFunctions { if costKey != strings.ToLower(costFunction) { continue } costValue, err := strconv.Atoi(value) if err != nil { return fmt.Errorf(\"key %s, unable to convert %v to integer\", key, value) } if costValue < 0 { return fmt.Errorf(\"cost.%s contains invalid value %s\", key, value) } c.Cost[costKey] = costValue return nil } return fmt.Errorf(\"cost config setting %s not found\", costKey) }"]),
     ("src:vestingsc.toSeconds", ["{ return common.Timestamp(dur / time.Second) }"]),
     ("src:zcnsc.setCostValue", ["{ if !strings.HasPrefix(key, fmt.Sprintf(\"%s.\", Cost)) { return fmt.Errorf(\"key %s not recognised as setting\", key) } costKey := strings.ToLower(strings.TrimPrefix(key, fmt.Sprintf(\"%s.\", Cost))) for _, costFunction := range CostFunctions { if costKey != strings.ToLower(costFunction) { continue } costValue, err := strconv.Atoi(value) if err != nil { return fmt.Errorf(\"key %s, unable to convert %v to integer\", key, value) } if costValue < 0 { return fmt.Errorf(\"cost.%s contains invalid value %s\", key, value) } gn.Cost[costKey] = costValue return nil } return fmt.Errorf(\"cost config setting %s not found\", costKey) }"])] := by
  decide +kernel

/-- faucetsc: a configuration that passes `validate` has `individual_reset ≥ 1 s` (`toSeconds` truncates) -/
theorem faucet_valid_individual_reset_ge_1s (c : Cfg) (h : Contract.validate .faucet c = none) :
    c.int (str% "individual_reset") ≥ 1000000000 := by
  have hff : ∀ (l : List Bool) (i : Nat), firstFailing.go l i = none → ∀ b ∈ l, b = false := by
    intro l
    induction l with
    | nil => intro _ _ b hb; simp at hb
    | cons x r ih =>
      intro i hn b hb
      unfold firstFailing.go at hn
      cases x with
      | true => simp at hn
      | false =>
        simp only [Bool.false_eq_true, if_false] at hn
        rcases List.mem_cons.mp hb with hb | hb
        · exact hb
        · exact ih _ hn b hb
  have := hff (faucetChecks c) 0 h (decide (toSeconds (c.int (str% "individual_reset")) < 1)) (by simp [faucetChecks])
  have h2 : ¬ Int.tdiv (c.int (str% "individual_reset")) 1000000000 < 1 := of_decide_eq_false this
  apply Decidable.byContradiction
  intro hlt
  apply h2
  by_cases hneg : c.int (str% "individual_reset") < 0
  · have h3 : (- - c.int (str% "individual_reset")).tdiv 1000000000 = - (- c.int (str% "individual_reset")).tdiv 1000000000 :=
      Int.neg_tdiv (- c.int (str% "individual_reset")) 1000000000
    rw [Int.neg_neg] at h3
    have h4 : 0 ≤ Int.tdiv (- c.int (str% "individual_reset")) 1000000000 := Int.tdiv_nonneg (by omega) (by omega)
    omega
  · have : Int.tdiv (c.int (str% "individual_reset")) 1000000000 = 0 := Int.tdiv_eq_zero_of_lt (by omega) (by omega)
    omega

/-- every `validate` of the model has one check per condition of the Go function (the conditions themselves are pinned by
`validate_src_as_modelled`) -/
theorem validate_check_counts :
    Generated.C48.validateSrc.map (fun p => (p.1, p.2.length)) =
      [("faucetsc", (faucetChecks default).length), ("minersc", (minerChecks default).length),
       ("storagesc", (storageChecks default).length), ("vestingsc", (vestingChecks default).length),
       ("zcnsc", (zcnChecks default).length)] := by
  decide +kernel

/-- the conditions of every Go `validate`, as source text in order — the hand-transcribed `…Checks` of the model follow this
list line by line; an edit of a condition in the Go source breaks this theorem and the model has to be revisited. -/
theorem validate_src_as_modelled : Generated.C48.validateSrc = [
  ("faucetsc", ["gn.PourAmount < 1", "gn.PourAmount > gn.MaxPourAmount", "gn.MaxPourAmount > gn.PeriodicLimit", "gn.PeriodicLimit > gn.GlobalLimit", "toSeconds(gn.IndividualReset) < 1", "gn.GlobalReset < gn.IndividualReset"]),
  ("minersc", ["gn.MinN < 1", "gn.MaxN < gn.MinN", "gn.MinS < 1", "gn.MaxS < gn.MinS", "gn.MaxDelegates <= 0", "gn.NumSharderDelegatesRewarded < 0", "gn.NumMinerDelegatesRewarded < 0", "gn.NumShardersRewarded < 0"]),
  ("storagesc", ["conf.TimeUnit <= 1*time.Second", "conf.ValidatorReward < 0.0 || 1.0 < conf.ValidatorReward", "conf.BlobberSlash < 0.0 || 1.0 < conf.BlobberSlash", "conf.CancellationCharge < 0.0 || 1.0 < conf.CancellationCharge", "conf.MaxBlobbersPerAllocation <= 0", "conf.MinBlobberCapacity < 0", "conf.MaxChallengeCompletionRounds < 0", "conf.HealthCheckPeriod <= 0", "conf.MinAllocSize < 0", "conf.MaxWritePrice < conf.MinWritePrice", "conf.StakePool.KillSlash < 0 || conf.StakePool.KillSlash > 1", "conf.FreeAllocationSettings.DataShards < 0", "conf.FreeAllocationSettings.ParityShards < 0", "conf.FreeAllocationSettings.Size < 0", "!conf.FreeAllocationSettings.ReadPriceRange.isValid()", "!conf.FreeAllocationSettings.WritePriceRange.isValid()", "conf.FreeAllocationSettings.ReadPoolFraction < 0 || 1 < conf.FreeAllocationSettings.ReadPoolFraction", "conf.ValidatorsPerChallenge <= 0", "conf.NumValidatorsRewarded <= 0", "conf.MaxBlobberSelectForChallenge <= 0", "conf.MaxStake < conf.MinStake", "conf.MaxDelegates < 1", "conf.MaxCharge < 0", "conf.MaxCharge > 1.0", "len(conf.OwnerId) == 0", "conf.BlockReward.Gamma.A <= 0", "conf.BlockReward.Gamma.B <= 0", "conf.BlockReward.Gamma.Alpha <= 0", "conf.BlockReward.Zeta.Mu <= 0", "conf.BlockReward.Zeta.I <= 0", "conf.BlockReward.Zeta.K <= 0"]),
  ("vestingsc", ["toSeconds(c.MinDuration) < 1", "toSeconds(c.MaxDuration) <= toSeconds(c.MinDuration)", "c.MaxDestinations < 1", "c.MaxDescriptionLength < 1", "c.OwnerId == \"\""]),
  ("zcnsc", ["gn.MinStakeAmount < 1", "gn.MaxStakeAmount < 1", "gn.MinMintAmount < 1", "gn.MaxFee < 1", "gn.MinAuthorizers < 1", "gn.MinBurnAmount < 1", "gn.PercentAuthorizers < 0", "gn.OwnerId == \"\"", "gn.MaxDelegates <= 0", "gn.HealthCheckPeriod <= 0"])
] := by
  decide +kernel

end ZChain.Gov
