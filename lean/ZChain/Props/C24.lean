import ZChain.Proofs.FreeStorage
import ZChain.Proofs.ReadPrice
import Mathlib.Algebra.Field.Basic
/-!
# C24 — Free-storage grants stay within assigner limits and redeem once

Property theorems about `Model/FreeStorage.lean` (helper lemmas in `Proofs/FreeStorage.lean`). The model is tied to
`storagesc.freeAllocationRequest` / `addFreeStorageAssigner` on every run by `harness/cmd/c24` (real transactions through
the real `Chain.UpdateState`, real BLS keys); the marker string's format and argument list are regenerated from the Go
source by `harness/cmd/xc24` (`Generated/C24.lean`).

Readings adopted where the code leaves a choice (no finding):
* "the total redeemed amount never exceeds the total limit" is read at grant time: every successful grant leaves the
  granting assigner with `redeemed ≤ totalLimit` for the limit then in force (`grant_within_total_limit`, unconditional).
  The owner may afterwards *lower* the limit below what is already redeemed (`add_free_storage_assigner` on an existing
  name keeps `CurrentRedeemed`): as a state invariant the inequality holds over histories without such a lowering
  (`total_limit_invariant`) and fails with one (`total_limit_lowering_witness`); no further grant succeeds then.
* the signature covers the marker string `recipient:%f amount:nonce:blobber ids`; `%f` prints six decimals, so the
  signature binds the amount only up to 10⁻⁶ ZCN (`amount_bound_to_six_decimals`: 0.1000001 and 0.1000004 are the same
  string; replayed on the real code by the harness corpus). Limits are applied to the amount actually granted.
* the grant is funded from the contract owner's wallet for the write-pool share only; the read-pool share is credited to
  the recipient's read pool with the contract's `isMint` flag, without a transfer (`grant_funding`). With the shipped
  `read_pool_fraction: 0` the owner is debited exactly the grant (`grant_funding_zero_fraction`).
-/
namespace ZChain.FreeStorage
open ZChain ZChain.Generated.C24

section
variable {F : Type} [Mul F] [Zero F] [DecidableEq F]

/-! ## who, with whose signature -/

/-- **grant_requires_assigner_sig**: a grant happens only for a marker whose assigner is registered, and whose signature
verifies under *that record's* public key over the marker string (recipient, amount at six decimals, nonce, blobbers). -/
theorem grant_requires_assigner_sig {cr : Crypto F} {bok : List Nat → Bool} {s s' : St} {sender : Nat} {m : Marker F}
    (h : freeAlloc cr bok s sender m = .ok s') :
    ∃ a pk σ x, aGet s.assigners m.assigner = some a ∧ cr.pkOf a.pk = some pk ∧ m.sig = some σ ∧
      fmt6 m.amount.toF64 = some x ∧
      Alg.verify pk (cr.Hm ([(m.recipient : Int), x, m.nonce] ++ m.blobbers.map (fun b => Int.ofNat b))) σ = true := by
  obtain ⟨_, a, coin, _, _, ha, _, hval, _⟩ := freeAlloc_inv h
  have hs := (validate_ok hval).1
  unfold verifySig at hs
  rw [markerMsg_eq] at hs
  cases hpk : cr.pkOf a.pk with
  | none => rw [hpk] at hs; cases hs
  | some pk =>
    cases hsg : m.sig with
    | none => rw [hpk, hsg] at hs; cases hs
    | some σ =>
      cases hx : fmt6 m.amount.toF64 with
      | none => rw [hpk, hsg, hx] at hs; cases hs
      | some x =>
        rw [hpk, hsg, hx] at hs
        simp only [Option.map_some, Alg.verifyLib, Bool.and_eq_true] at hs
        exact ⟨a, pk, σ, x, ha, hpk, rfl, rfl, by simpa [Alg.verify] using of_decide_eq_true hs.2⟩

/-- a marker whose signature does not verify under the registered key is refused (state unchanged: `step`). -/
theorem forged_marker_refused (cr : Crypto F) (bok : List Nat → Bool) (s : St) (sender : Nat) (m : Marker F)
    (h : ∀ a, aGet s.assigners m.assigner = some a → verifySig cr a m = false) :
    ∃ e, freeAlloc cr bok s sender m = .error e := by
  cases hc : freeAlloc cr bok s sender m with
  | error e => exact ⟨e, rfl⟩
  | ok s' =>
    obtain ⟨_, a, _, _, _, ha, _, hval, _⟩ := freeAlloc_inv hc
    have := (validate_ok hval).1
    rw [h a ha] at this
    cases this

/-- **only_recipient**: a grant happens only when the transaction's sender is the marker's recipient; the allocation
created belongs to that recipient and the read-pool share goes to that recipient's pool, nobody else's. -/
theorem only_recipient {cr : Crypto F} {bok : List Nat → Bool} {s s' : St} {sender : Nat} {m : Marker F}
    (h : freeAlloc cr bok s sender m = .ok s') :
    sender = m.recipient ∧ (∃ w, s'.allocs = s.allocs ++ [(m.recipient, w)]) ∧
      ∀ c, c ≠ m.recipient → aGet s'.pools c = aGet s.pools c := by
  obtain ⟨hr, a, coin, readT, writeT, _, _, _, _, _, _, _, _, _, _, _, hs⟩ := freeAlloc_inv h
  subst hs
  exact ⟨hr, ⟨writeT, rfl⟩, fun c hc => aGet_aSet_other _ _ _ _ hc⟩

/-! ## once per nonce -/

/-- **nonce_once** (one grant): the nonce was not among the assigner's redeemed nonces, and is afterwards. -/
theorem nonce_once {cr : Crypto F} {bok : List Nat → Bool} {s s' : St} {sender : Nat} {m : Marker F}
    (h : freeAlloc cr bok s sender m = .ok s') :
    m.nonce ∉ noncesOf s m.assigner ∧ m.nonce ∈ noncesOf s' m.assigner := by
  obtain ⟨_, a, coin, readT, writeT, ha, _, hval, _, _, _, _, _, _, _, _, hs⟩ := freeAlloc_inv h
  subst hs
  refine ⟨?_, ?_⟩
  · simp only [noncesOf, ha, Option.map_some, Option.getD_some]
    exact (validate_ok hval).2.2.2.2
  · simp [noncesOf, aGet_aSet_same]

/-- redeemed nonces are never forgotten — not by grants, not by (re-)registrations, not by refused operations. -/
theorem nonces_kept (cr : Crypto F) (bok : List Nat → Bool) (s : St) (op : Op F) (k : Nat) :
    ∀ x ∈ noncesOf s k, x ∈ noncesOf (step cr bok s op).1 k := by
  intro x hx
  cases op with
  | free sender m =>
    cases hc : freeAlloc cr bok s sender m with
    | error e => rw [step_free_err hc]; exact hx
    | ok s' =>
      rw [step_free_ok hc]
      obtain ⟨_, a, coin, readT, writeT, ha, _, _, _, _, _, _, _, _, _, _, hs⟩ := freeAlloc_inv hc
      subst hs
      by_cases hk : k = m.assigner
      · subst hk
        simp only [noncesOf, ha, Option.map_some, Option.getD_some] at hx
        simp only [noncesOf, aGet_aSet_same, Option.map_some, Option.getD_some]
        exact List.mem_append_left _ hx
      · simp only [noncesOf, aGet_aSet_other _ _ _ _ hk]
        exact hx
  | add sender name pk ind tot =>
    cases hc : addAssigner s sender name pk ind tot with
    | error e => rw [step_add_err hc]; exact hx
    | ok s' =>
      rw [step_add_ok hc]
      obtain ⟨_, nt, ni, _, _, _, _, hs⟩ := addAssigner_inv hc
      subst hs
      by_cases hk : k = name
      · subst hk
        simp only [noncesOf, aGet_aSet_same, Option.map_some, Option.getD_some, baseRecord]
        unfold noncesOf at hx
        cases ha : aGet s.assigners k with
        | none => rw [ha] at hx; simp at hx
        | some a => rw [ha] at hx; simpa using hx
      · simp only [noncesOf, aGet_aSet_other _ _ _ _ hk]
        exact hx

/-- **nonce_once** (histories): over any sequence of requests and (re-)registrations — replayed, forged, interleaved
across assigners — no (assigner, nonce) pair is granted twice, and none that was already redeemed at the start is granted. -/
theorem nonce_once_history (cr : Crypto F) (bok : List Nat → Bool) (ops : List (Op F)) (s : St) :
    ((grants cr bok s ops).map (fun g => (g.1, g.2.1))).Nodup ∧
      ∀ g ∈ grants cr bok s ops, g.2.1 ∉ noncesOf s g.1 := by
  induction ops generalizing s with
  | nil => simp [grants]
  | cons op ops ih =>
    obtain ⟨ihn, ihm⟩ := ih (step cr bok s op).1
    have keep := nonces_kept cr bok s op
    have tail : ∀ g ∈ grants cr bok (step cr bok s op).1 ops, g.2.1 ∉ noncesOf s g.1 :=
      fun g hg hmem => ihm g hg (keep g.1 _ hmem)
    cases op with
    | add sender name pk ind tot =>
      have : grants cr bok s (Op.add sender name pk ind tot :: ops) = grants cr bok (step cr bok s (.add sender name pk ind tot)).1 ops := by
        simp [grants]
      rw [this]
      exact ⟨ihn, tail⟩
    | free sender m =>
      cases hc : freeAlloc cr bok s sender m with
      | error e =>
        have hst : step cr bok s (.free sender m) = (s, false) := step_free_err hc
        have : grants cr bok s (Op.free sender m :: ops) = grants cr bok (step cr bok s (.free sender m)).1 ops := by
          simp [grants, hst]
        rw [this]
        exact ⟨ihn, tail⟩
      | ok s' =>
        have hst : step cr bok s (.free sender m) = (s', true) := step_free_ok hc
        obtain ⟨_, a, coin, _, _, _, hcoin, _⟩ := freeAlloc_inv hc
        have hg : grants cr bok s (Op.free sender m :: ops) = (m.assigner, m.nonce, coin, m.recipient) :: grants cr bok s' ops := by
          simp [grants, hst, hcoin]
        rw [hst] at ihn ihm tail
        simp only at ihn ihm tail
        rw [hg]
        obtain ⟨hnot, hin⟩ := nonce_once hc
        refine ⟨?_, ?_⟩
        · simp only [List.map_cons, List.nodup_cons]
          refine ⟨?_, ihn⟩
          intro hmem
          obtain ⟨g, hgm, hge⟩ := List.mem_map.mp hmem
          have h1 : g.1 = m.assigner := congrArg Prod.fst hge
          have h2 : g.2.1 = m.nonce := congrArg Prod.snd hge
          have := ihm g hgm
          rw [h1, h2] at this
          exact this hin
        · intro g hgm
          rcases List.mem_cons.mp hgm with rfl | hgt
          · exact hnot
          · exact tail g hgt

/-! ## limits -/

/-- **individual_limit**: every grant is at most the assigner's individual limit. -/
theorem individual_limit {cr : Crypto F} {bok : List Nat → Bool} {s s' : St} {sender : Nat} {m : Marker F}
    (h : freeAlloc cr bok s sender m = .ok s') :
    ∃ a coin, aGet s.assigners m.assigner = some a ∧ parseZCN m.amount = .ok coin ∧ coin ≤ a.indLimit := by
  obtain ⟨_, a, coin, _, _, ha, hcoin, hval, _⟩ := freeAlloc_inv h
  exact ⟨a, coin, ha, hcoin, (validate_ok hval).2.2.2.1⟩

/-- **total_limit** at grant time (unconditional): after a grant the assigner's redeemed total is the old one plus the
grant and does not exceed its total limit; limits and key are untouched. -/
theorem grant_within_total_limit {cr : Crypto F} {bok : List Nat → Bool} {s s' : St} {sender : Nat} {m : Marker F}
    (h : freeAlloc cr bok s sender m = .ok s') :
    ∃ a a' coin, aGet s.assigners m.assigner = some a ∧ aGet s'.assigners m.assigner = some a' ∧
      parseZCN m.amount = .ok coin ∧ a'.redeemed = a.redeemed + coin ∧ a'.redeemed ≤ a'.totLimit ∧
      a'.totLimit = a.totLimit ∧ a'.indLimit = a.indLimit ∧ a'.pk = a.pk := by
  obtain ⟨_, a, coin, readT, writeT, ha, hcoin, hval, _, _, _, _, _, _, _, _, hs⟩ := freeAlloc_inv h
  subst hs
  exact ⟨a, _, coin, ha, aGet_aSet_same _ _ _, hcoin, rfl, (validate_ok hval).2.1, rfl, rfl, rfl⟩

/-- the state invariant: every registered assigner has redeemed at most its total limit. -/
def TotalInv (s : St) : Prop := ∀ k a, aGet s.assigners k = some a → a.redeemed ≤ a.totLimit

/-- a (re-)registration that does not put the total limit below what the assigner has already redeemed. -/
def OpSafe (s : St) : Op F → Prop
  | .add _ name _ _ tot => ∀ a v, aGet s.assigners name = some a → limitCoin tot = .ok v → a.redeemed ≤ v
  | .free _ _ => True

def Safe (cr : Crypto F) (bok : List Nat → Bool) : St → List (Op F) → Prop
  | _, [] => True
  | s, op :: ops => OpSafe s op ∧ Safe cr bok (step cr bok s op).1 ops

theorem step_totalInv (cr : Crypto F) (bok : List Nat → Bool) (s : St) (op : Op F) (hi : TotalInv s) (hsafe : OpSafe s op) :
    TotalInv (step cr bok s op).1 := by
  cases op with
  | free sender m =>
    cases hc : freeAlloc cr bok s sender m with
    | error e => rw [step_free_err hc]; exact hi
    | ok s' =>
      rw [step_free_ok hc]
      obtain ⟨_, a, coin, readT, writeT, ha, _, hval, _, _, _, _, _, _, _, _, hs⟩ := freeAlloc_inv hc
      subst hs
      intro k b hb
      by_cases hk : k = m.assigner
      · subst hk
        simp only [aGet_aSet_same, Option.some.injEq] at hb
        subst hb
        exact (validate_ok hval).2.1
      · simp only [aGet_aSet_other _ _ _ _ hk] at hb
        exact hi k b hb
  | add sender name pk ind tot =>
    cases hc : addAssigner s sender name pk ind tot with
    | error e => rw [step_add_err hc]; exact hi
    | ok s' =>
      rw [step_add_ok hc]
      obtain ⟨_, nt, ni, hnt, _, _, _, hs⟩ := addAssigner_inv hc
      subst hs
      intro k b hb
      by_cases hk : k = name
      · subst hk
        simp only [aGet_aSet_same, Option.some.injEq] at hb
        subst hb
        simp only [baseRecord]
        cases ha : aGet s.assigners k with
        | none => simp
        | some a => simp only [Option.getD_some]; exact hsafe a nt ha hnt
      · simp only [aGet_aSet_other _ _ _ _ hk] at hb
        exact hi k b hb

/-- **total_limit_invariant**: over any history of requests and registrations in which no registration lowers a total
limit below what that assigner has already redeemed, every assigner's redeemed total stays within its total limit. -/
theorem total_limit_invariant (cr : Crypto F) (bok : List Nat → Bool) (ops : List (Op F)) (s : St)
    (hi : TotalInv s) (hsafe : Safe cr bok s ops) : TotalInv (run cr bok s ops) := by
  induction ops generalizing s with
  | nil => exact hi
  | cons op ops ih =>
    obtain ⟨h1, h2⟩ := hsafe
    exact ih _ (step_totalInv cr bok s op hi h1) h2

/-- **total_limit_invariant_partial** (the general case, what holds without the hypothesis): whatever the history,
a grant is only ever made within the total limit in force at that moment — so once a limit has been lowered below the
redeemed total, that assigner grants nothing more until the limit is raised again.
FULL statement (false, see `total_limit_lowering_witness`): `TotalInv` after every history. -/
theorem total_limit_invariant_partial (cr : Crypto F) (bok : List Nat → Bool) (s : St) (sender : Nat) (m : Marker F)
    (a : Assigner) (ha : aGet s.assigners m.assigner = some a) (hover : a.totLimit ≤ a.redeemed) (coin : Nat)
    (hcoin : parseZCN m.amount = .ok coin) (hpos : 0 < coin) : ∃ e, freeAlloc cr bok s sender m = .error e := by
  cases hc : freeAlloc cr bok s sender m with
  | error e => exact ⟨e, rfl⟩
  | ok s' =>
    obtain ⟨_, a', coin', _, _, ha', hcoin', hval, _⟩ := freeAlloc_inv hc
    rw [ha] at ha'
    cases ha'
    rw [hcoin] at hcoin'
    cases hcoin'
    have := (validate_ok hval).2.1
    omega

/-! ## funding -/

/-- **grant_funding**: the grant `coin` is split into the read-pool share `⌊float(coin)·fraction⌋` and the write-pool
share (the rest). The contract owner's wallet is debited exactly the write-pool share, which arrives in the contract's
wallet and is the new allocation's write pool; the read-pool share is added to the recipient's read pool (no wallet is
debited for it); the assigner's redeemed total grows by the whole grant. -/
theorem grant_funding {cr : Crypto F} {bok : List Nat → Bool} {s s' : St} {sender : Nat} {m : Marker F}
    (h : freeAlloc cr bok s sender m = .ok s') :
    ∃ coin readT, parseZCN m.amount = .ok coin ∧
      Coin.float64ToCoin (F64.mul (Coin.toFloat64 coin) s.cfg.readFraction) = .ok readT ∧ readT ≤ coin ∧
      s'.scWallet = s.scWallet + (coin - readT) ∧
      s'.allocs = s.allocs ++ [(m.recipient, coin - readT)] ∧
      (coin - readT ≠ 0 → coin - readT ≤ (aGet s.wallets s.cfg.owner).getD 0 ∧
        aGet s'.wallets s.cfg.owner = some ((aGet s.wallets s.cfg.owner).getD 0 - (coin - readT)) ∧
        ∀ c, c ≠ s.cfg.owner → aGet s'.wallets c = aGet s.wallets c) ∧
      (coin - readT = 0 → s'.wallets = s.wallets) ∧
      aGet s'.pools m.recipient = some ((aGet s.pools m.recipient).getD 0 + readT) ∧
      redeemedOf s' m.assigner = redeemedOf s m.assigner + coin := by
  obtain ⟨_, a, coin, readT, writeT, ha, hcoin, _, _, hread, hle, hw, _, hown, _, _, hs⟩ := freeAlloc_inv h
  subst hs; subst hw
  refine ⟨coin, readT, hcoin, hread, hle, rfl, rfl, ?_, ?_, aGet_aSet_same _ _ _, ?_⟩
  · intro hne
    simp only [if_neg hne]
    rcases hown with h0 | ⟨_, hb⟩
    · exact absurd h0 hne
    · exact ⟨hb, aGet_aSet_same _ _ _, fun c hc => aGet_aSet_other _ _ _ _ hc⟩
  · intro h0
    simp only [if_pos h0]
  · simp [redeemedOf, ha, aGet_aSet_same]

end

/-- with a zero read-pool fraction (the shipped `sc.yaml`), the read share is 0. -/
theorem read_share_zero (coin r : Nat) (h : Coin.float64ToCoin (F64.mul (Coin.toFloat64 coin) F64.zero) = .ok r) : r = 0 := by
  unfold Coin.toFloat64 F64.ofNat at h
  rw [F64.roundDiv_eq] at h
  split at h
  · simp [F64.mul, F64.zero, Coin.float64ToCoin, F64.lt, F64.toNatTrunc] at h
  · simp only [F64.mul, F64.zero, Nat.mul_zero, Nat.zero_mul, Bool.bne_false] at h
    rw [F64.roundDiv_zero _ (F64.p2 _)] at h
    simp [Coin.float64ToCoin, F64.lt, F64.zero, F64.toNatTrunc, F64.sval] at h
    exact h.symm

section
variable {F : Type} [Mul F] [Zero F] [DecidableEq F]

/-- **grant_funding** with `read_pool_fraction = 0`: the owner's wallet is debited exactly the granted amount. -/
theorem grant_funding_zero_fraction {cr : Crypto F} {bok : List Nat → Bool} {s s' : St} {sender : Nat} {m : Marker F}
    (h : freeAlloc cr bok s sender m = .ok s') (hz : s.cfg.readFraction = F64.zero) :
    ∃ coin, parseZCN m.amount = .ok coin ∧ s'.scWallet = s.scWallet + coin ∧
      s'.allocs = s.allocs ++ [(m.recipient, coin)] ∧
      (coin ≠ 0 → aGet s'.wallets s.cfg.owner = some ((aGet s.wallets s.cfg.owner).getD 0 - coin) ∧
        coin ≤ (aGet s.wallets s.cfg.owner).getD 0) := by
  obtain ⟨coin, readT, hcoin, hread, _, hsc, hal, hw, _, _, _⟩ := grant_funding h
  rw [hz] at hread
  have := read_share_zero coin readT hread
  subst this
  simp only [Nat.sub_zero] at hsc hal hw
  exact ⟨coin, hcoin, hsc, hal, fun hne => ⟨(hw hne).2.1, (hw hne).1⟩⟩

/-! ## registration -/

/-- **addFreeStorageAssigner**: only the contract owner registers; the stored limits are within the configured caps;
a re-registration keeps what the assigner has already redeemed (total and nonces) — so it cannot be used to redeem a
nonce twice —, and touches no other assigner. -/
theorem registration_rules {s s' : St} {sender name pk : Nat} {ind tot : Dec}
    (h : addAssigner s sender name pk ind tot = .ok s') :
    sender = s.cfg.owner ∧
    (∃ a', aGet s'.assigners name = some a' ∧ a'.pk = pk ∧ a'.totLimit ≤ s.cfg.maxTot ∧ a'.indLimit ≤ s.cfg.maxInd ∧
      limitCoin tot = .ok a'.totLimit ∧ limitCoin ind = .ok a'.indLimit ∧
      a'.redeemed = redeemedOf s name ∧ a'.nonces = noncesOf s name) ∧
    (∀ k, k ≠ name → aGet s'.assigners k = aGet s.assigners k) ∧
    s'.wallets = s.wallets ∧ s'.pools = s.pools ∧ s'.allocs = s.allocs := by
  obtain ⟨ho, nt, ni, hnt, hmt, hni, hmi, hs⟩ := addAssigner_inv h
  subst hs
  refine ⟨ho, ⟨_, aGet_aSet_same _ _ _, rfl, hmt, hmi, hnt, hni, ?_, ?_⟩, fun k hk => aGet_aSet_other _ _ _ _ hk, rfl, rfl, rfl⟩
  · simp only [baseRecord, redeemedOf]; cases aGet s.assigners name <;> rfl
  · simp only [baseRecord, noncesOf]; cases aGet s.assigners name <;> rfl

end

/-! ## what the signature binds -/

/-- the marker string is built from recipient, amount, nonce and blobbers (the extracted argument list), the amount
with the verb `%f`; it is verified under the assigner's stored key. -/
theorem marker_fields_cover :
    (∀ f ∈ [MField.Recipient, .FreeTokens, .Nonce, .Blobbers], f ∈ markerArgs) ∧
    markerArgs.zip markerVerbs = [(.Recipient, .s), (.FreeTokens, .f), (.Nonce, .d), (.Blobbers, .s)] ∧
    verifiedUnderAssignerKey = true ∧ floatToBalance = 10000000000 := by decide

/-- **marker_fields_bind**: over a field, with an injective message map, a signature made by `sk` on the fields of `m₀`
verifies under the same key for `m` only if `m` agrees with `m₀` on the recipient, the nonce, the blobber list and the
amount *as printed with six decimals*. -/
theorem marker_fields_bind {K : Type} [Field K] [DecidableEq K] (cr : Crypto K) (hinj : Function.Injective cr.Hm)
    (sk : K) (a : Assigner) (m0 m : Marker K) (msg0 : List Int) (hm0 : markerMsg m0 = some msg0)
    (hs : m.sig = some (Alg.sign sk (cr.Hm msg0))) (hpk : cr.pkOf a.pk = some (Alg.pubKey sk))
    (hv : verifySig cr a m = true) :
    m.recipient = m0.recipient ∧ m.nonce = m0.nonce ∧ m.blobbers = m0.blobbers ∧
      fmt6 m.amount.toF64 = fmt6 m0.amount.toF64 := by
  unfold verifySig at hv
  rw [hpk, hs] at hv
  cases hm : markerMsg m with
  | none => rw [hm] at hv; cases hv
  | some msg =>
    rw [hm] at hv
    simp only [Alg.verifyLib, Alg.sign, Alg.pubKey, Bool.and_eq_true] at hv
    obtain ⟨⟨hsk, _⟩, he⟩ := hv
    have h1 := hinj (mul_left_cancel₀ (of_decide_eq_true hsk) (of_decide_eq_true he))
    subst h1
    rw [markerMsg_eq] at hm hm0
    cases hx : fmt6 m.amount.toF64 with
    | none => rw [hx] at hm; cases hm
    | some x =>
      cases hx0 : fmt6 m0.amount.toF64 with
      | none => rw [hx0] at hm0; cases hm0
      | some x0 =>
        rw [hx] at hm
        rw [hx0] at hm0
        simp only [Option.map_some, Option.some.injEq] at hm hm0
        rw [← hm] at hm0
        simp only [List.cons_append, List.nil_append, List.cons.injEq, Nat.cast_inj] at hm0
        obtain ⟨h1, h2, h3, h4⟩ := hm0
        have hb : m.blobbers = m0.blobbers := by
          exact ((List.map_inj_right (fun _ _ h => Int.ofNat.inj h)).mp h4).symm
        exact ⟨h1.symm, h3.symm, hb, by rw [h2]⟩

/-- **amount_bound_to_six_decimals**: the amounts 0.1000001 and 0.1000004 ZCN are different grants (1000001000 and
1000004000 coins) but print as the same `%f` string, hence have the same signed marker string. -/
theorem amount_bound_to_six_decimals :
    parseZCN ⟨false, 1000001, 7⟩ = .ok 1000001000 ∧ parseZCN ⟨false, 1000004, 7⟩ = .ok 1000004000 ∧
    fmt6 (Dec.toF64 ⟨false, 1000001, 7⟩) = some 100000 ∧ fmt6 (Dec.toF64 ⟨false, 1000004, 7⟩) = some 100000 ∧
    fmt6 (Dec.toF64 ⟨false, 1000006, 7⟩) = some 100001 ∧
    -- ties go to the even neighbour on the exact binary value: 0.0078125 = 2⁻⁷ prints as 0.007812
    fmt6 (Dec.toF64 ⟨false, 78125, 7⟩) = some 7812 := by decide +kernel

/-! ## the state invariant fails when a limit is lowered: witness; and non-vacuity -/

namespace Example
def cr : Crypto Int := { pkOf := fun k => if k < 100 then some ((k : Int) + 2) else none, Hm := fun l => l.sum + 1000003 }
def bok (l : List Nat) : Bool := decide (2 ≤ l.length)
def s0 : St :=
  { cfg := { owner := 99, maxInd := 1000000000000, maxTot := 100000000000000, readFraction := F64.div (F64.ofNat 100) (F64.ofNat 1000), allocCost := 18626450 }
    assigners := [], wallets := [(99, 1000000000000)], scWallet := 0, pools := [], allocs := [] }
/-- a marker for `amount` signed by the key with index `k`. -/
def mk (asg rec : Nat) (amount : Dec) (nonce : Int) (k : Nat) : Marker Int :=
  let m : Marker Int := { assigner := asg, recipient := rec, amount := amount, nonce := nonce, sig := none, blobbers := [101, 102] }
  { m with sig := (markerMsg m).map (fun l => Alg.sign ((k : Int) + 2) (cr.Hm l)) }
def view (s : St) : List (Nat × Nat × Nat × Nat × List Int) := s.assigners.map (fun (k, a) => (k, a.indLimit, a.totLimit, a.redeemed, a.nonces))

-- register (10 / 10 ZCN), grant 8 ZCN, replay it (refused), a second nonce over the remaining total (refused), lower the limit to 5
def hist : List (Op Int) :=
  [.add 99 51 7 ⟨false, 10, 0⟩ ⟨false, 10, 0⟩, .free 1 (mk 51 1 ⟨false, 8, 0⟩ 1 7), .free 1 (mk 51 1 ⟨false, 8, 0⟩ 1 7),
   .free 1 (mk 51 1 ⟨false, 8, 0⟩ 2 7), .add 99 51 7 ⟨false, 10, 0⟩ ⟨false, 5, 0⟩]

example : view (run cr bok s0 (hist.take 4)) = [(51, 100000000000, 100000000000, 80000000000, [1])] := by decide +kernel
example : (run cr bok s0 (hist.take 4)).wallets = [(99, 1000000000000 - 72000000000)] ∧ (run cr bok s0 (hist.take 4)).pools = [(1, 8000000000)] := by decide +kernel
example : grants cr bok s0 hist = [(51, 1, 80000000000, 1)] := by decide +kernel
-- signed by another key / sent by another client: refused
example : (step cr bok (run cr bok s0 (hist.take 1)) (.free 1 (mk 51 1 ⟨false, 1, 0⟩ 3 8))).2 = false := by decide +kernel
example : (step cr bok (run cr bok s0 (hist.take 1)) (.free 2 (mk 51 1 ⟨false, 1, 0⟩ 3 7))).2 = false := by decide +kernel
example : (step cr bok (run cr bok s0 (hist.take 1)) (.free 1 (mk 51 1 ⟨false, 1, 0⟩ 3 7))).2 = true := by decide +kernel
end Example

/-- **negation witness** of the unconditional state invariant: after registering with total limit 10 ZCN, granting
8 ZCN and re-registering with total limit 5 ZCN, the assigner's redeemed total (8·10¹⁰) exceeds its total limit (5·10¹⁰). -/
theorem total_limit_lowering_witness :
    Example.view (run Example.cr Example.bok Example.s0 Example.hist) = [(51, 100000000000, 50000000000, 80000000000, [1])] := by
  decide +kernel

end ZChain.FreeStorage
