import ZChain.Model.ViewChange
import ZChain.Props.C39
/-!
# C38 — The view-change phase machine follows its schedule

Theorems about `Model/ViewChange` (smartcontract/minersc dkg.go / fees.go / models.go), tied to the real contract by
`harness/cmd/c38` (real `Chain.UpdateState`, hooks `harness/hooks/minersc_c38.go`, `chain_c38.go`).
-/
namespace ZChain.ViewChange
open ZChain.Reduce

/-- successor in the cycle Start, Contribute, Share, Publish, Wait, Start. -/
def succPhase (p : Phase) : Phase := if p ≥ 4 then 0 else p + 1

/-- the current phase has run for its configured number of rounds. -/
def Elapsed (c : Cfg) (pn : PN) : Prop := pn.cur - pn.start ≥ phaseRounds c pn.phase

def Res.isOk {α : Type} : Res α → Bool
  | .ok _ => true
  | _ => false

/-! ## phase order -/

/-- **phase_order**: `setPhaseNode` either leaves the phase node as it is (the phase has not run its rounds), or —
after the rounds — moves `p → succ p` when the move function and the phase function of `p` accept (restarts reset to 0
on `Wait → Start`), or restarts the DKG at `Start` (restarts + 1) when one of them refuses. Nothing else is stored. -/
theorem phase_order (s : State) (pn : PN) (s' : State) (h : setPhaseNode s pn = some s') :
    (¬ Elapsed s.cfg pn ∧ s'.pn = some pn) ∨
    (Elapsed s.cfg pn ∧ moveFn pn.phase s = true ∧ (phaseFn pn.phase s).isOk = true ∧
      s'.pn = some { pn with phase := succPhase pn.phase, start := pn.cur,
                             restarts := if pn.phase ≥ 4 then 0 else pn.restarts }) ∨
    (Elapsed s.cfg pn ∧ (moveFn pn.phase s = false ∨ (phaseFn pn.phase s).isOk = false) ∧
      s'.pn = some { pn with phase := pStart, start := pn.cur, restarts := pn.restarts + 1 }) := by
  unfold setPhaseNode at h
  by_cases he : pn.cur - pn.start ≥ phaseRounds s.cfg pn.phase
  · simp only [he, ↓reduceIte] at h
    by_cases hm : moveFn pn.phase s = true
    · simp only [hm, ↓reduceIte] at h
      cases hp : phaseFn pn.phase s with
      | ok s1 =>
        simp only [hp] at h
        injection h with h; subst h
        right; left
        refine ⟨he, hm, by simp [Res.isOk], ?_⟩
        by_cases h4 : pn.phase ≥ 4 <;> simp [h4, succPhase]
      | err =>
        simp only [hp, restartDKG] at h
        injection h with h; subst h
        right; right
        exact ⟨he, Or.inr (by simp [Res.isOk]), rfl⟩
      | panic => simp [hp] at h
    · simp only [hm, restartDKG] at h
      injection h with h; subst h
      right; right
      exact ⟨he, Or.inl (by simpa using hm), rfl⟩
  · simp only [he, ↓reduceIte] at h
    injection h with h; subst h
    exact Or.inl ⟨he, rfl⟩

/-- the phase can only stay, step to its successor, or fall back to Start. -/
theorem phase_order_phases (s : State) (pn : PN) (s' : State) (h : setPhaseNode s pn = some s') :
    ∃ pn', s'.pn = some pn' ∧ (pn'.phase = pn.phase ∨ pn'.phase = succPhase pn.phase ∨ pn'.phase = pStart) := by
  rcases phase_order s pn s' h with ⟨_, h⟩ | ⟨_, _, _, h⟩ | ⟨_, _, h⟩
  · exact ⟨_, h, Or.inl rfl⟩
  · exact ⟨_, h, Or.inr (Or.inl rfl)⟩
  · exact ⟨_, h, Or.inr (Or.inr rfl)⟩

theorem succPhase_le : ∀ p : Nat, p ≤ 4 → succPhase p ≤ 4 := by decide

/-- the stored phase is always one of the five phases. -/
theorem phase_stays_in_range (s : State) (pn : PN) (s' : State) (h : setPhaseNode s pn = some s') (hr : pn.phase ≤ 4) :
    ∃ pn', s'.pn = some pn' ∧ pn'.phase ≤ 4 := by
  obtain ⟨pn', hp, hc⟩ := phase_order_phases s pn s' h
  refine ⟨pn', hp, ?_⟩
  rcases hc with h | h | h
  · rw [h]; exact hr
  · rw [h]; exact succPhase_le pn.phase hr
  · rw [h]; decide

theorem adjustViewChange_pn (s s' : State) (h : adjustViewChange s = some s') : s'.pn = s.pn := by
  unfold adjustViewChange at h
  split at h
  · injection h with h; subst h; rfl
  · simp only at h
    split at h
    · simp at h
    · split at h <;> (injection h with h; subst h; rfl)
    · injection h with h; subst h; rfl

/-- **phase order of a whole `payFees`**: the stored phase node after a successful `payFees` is the one `setPhaseNode`
computed from `GetPhaseNode` (`adjustViewChange` and `SetMagicBlock` do not touch it). -/
theorem payFees_phase_order (s s' : State) (h : payFees s = .ok s') :
    ∃ s1, setPhaseNode s (getPhaseNode s) = some s1 ∧ s'.pn = s1.pn := by
  unfold payFees at h
  cases h1 : setPhaseNode s (getPhaseNode s) with
  | none => simp [h1] at h
  | some s1 =>
    simp only [h1] at h
    cases h2 : adjustViewChange s1 with
    | none => simp [h2] at h
    | some s2 =>
      simp only [h2] at h
      have hp := adjustViewChange_pn s1 s2 h2
      refine ⟨s1, rfl, ?_⟩
      split at h
      · split at h
        · simp at h
        · injection h with h; subst h; exact hp
      · injection h with h; subst h; exact hp

/-- **Wait → Start**: once the Wait phase has run its rounds it always ends in Start with the restart counter cleared
(`moveToStart` accepts unconditionally and Wait has no phase function). -/
theorem wait_to_start (s : State) (pn : PN) (hp : pn.phase = pWait) (he : Elapsed s.cfg pn) :
    ∃ s', setPhaseNode s pn = some s' ∧ s'.pn = some { pn with phase := pStart, start := pn.cur, restarts := 0 } := by
  obtain ⟨ph, st, cu, re⟩ := pn
  simp only at hp
  subst hp
  have he' : phaseRounds s.cfg 4 ≤ cu - st := he
  unfold setPhaseNode
  have hmv : moveFn 4 s = true := rfl
  have hpf : phaseFn 4 s = .ok s := rfl
  simp only [pWait, hmv, hpf, pStart, ge_iff_le, Nat.le_refl, he', ↓reduceIte]
  exact ⟨_, rfl, rfl⟩

/-! ## acceptance of the DKG transactions -/

def Except.isOk {ε α : Type} : Except ε α → Bool
  | .ok _ => true
  | .error _ => false

/-- **mpk_once_in_phase** (full statement; the "per participating miner" part holds since commit 156160f): a contribution
is accepted only in the Contribute phase, only from a member of the DKG miners list, only with exactly `T` entries, and
only if that miner has no MPK stored yet; it is recorded under the sender's id whatever id the payload names, and from
then on no contribution of that sender — under any payload id — is accepted while the list is kept. -/
theorem mpk_once_in_phase (s : State) (sender size : Nat) (pid : Option Nat) (s' : State)
    (h : contributeMpk s sender size pid = .ok s') :
    (getPhaseNode s).phase = pContribute ∧ sender ∈ ids s.dkg.nodes ∧ (size : Int) = s.dkg.t ∧
    sender ∉ s.mpks.getD [] ∧ s'.mpks = some (s.mpks.getD [] ++ [sender]) ∧
    (∀ size2 pid2, Except.isOk (contributeMpk s' sender size2 pid2) = false) := by
  unfold contributeMpk at h
  split at h; · simp at h
  rename_i hph
  split at h; · simp at h
  rename_i hmem
  split at h; · simp at h
  rename_i hsz
  simp only at h
  split at h; · simp at h
  rename_i hdup
  injection h with h
  subst h
  refine ⟨by simpa using hph, by simpa using hmem, by simpa using hsz, by simpa using hdup, rfl, ?_⟩
  intro size2 pid2
  unfold contributeMpk
  simp only [Option.getD_some]
  have hc : (s.mpks.getD [] ++ [sender]).contains sender = true := by simp
  repeat' split
  all_goals first | rfl | (rename_i hn; exact absurd hc hn)

/-- the MPK list only ever grows by the sender of an accepted contribution: every stored key is a DKG member that
contributed itself (no key can be planted for another miner or for a stranger). -/
theorem mpk_keys_are_contributing_members (s : State) (sender size : Nat) (pid : Option Nat) (s' : State)
    (h : contributeMpk s sender size pid = .ok s')
    (hinv : ∀ k ∈ s.mpks.getD [], k ∈ ids s.dkg.nodes) :
    ∀ k ∈ s'.mpks.getD [], k ∈ ids s'.dkg.nodes := by
  obtain ⟨_, hmem, _, _, hm, _⟩ := mpk_once_in_phase s sender size pid s' h
  have hd : s'.dkg = s.dkg := by
    unfold contributeMpk at h
    split at h; · simp at h
    split at h; · simp at h
    split at h; · simp at h
    simp only at h
    split at h; · simp at h
    injection h with h; subst h; rfl
  intro k hk
  rw [hm] at hk
  simp only [Option.getD_some, List.mem_append, List.mem_singleton] at hk
  rw [hd]
  rcases hk with hk | hk
  · exact hinv k hk
  · rw [hk]; exact hmem

/-- **sos_once_in_phase** (full statement; membership and the sender's own key since commit 2f3cfcd): shares are accepted
only in the Publish phase, only from a member of the DKG miners list, only once per member, only with at least `K-1`
entries that validate against the MPK stored under the sender's id (which must exist when there is an entry); they are
recorded under the sender's id, and nothing more is accepted from that sender in the phase. -/
theorem sos_once_in_phase (s : State) (sender count : Nat) (valid : Bool) (s' : State)
    (h : shareSignsOrShares s sender count valid = .ok s') :
    (getPhaseNode s).phase = pPublish ∧ sender ∈ ids s.dkg.nodes ∧ sender ∉ s.gsos.getD [] ∧
    s.dkg.k - 1 ≤ (count : Int) ∧ valid = true ∧ (1 ≤ count → sender ∈ s.mpks.getD []) ∧
    s'.gsos = some (s.gsos.getD [] ++ [sender]) ∧
    (∀ count2 valid2, Except.isOk (shareSignsOrShares s' sender count2 valid2) = false) := by
  unfold shareSignsOrShares at h
  split at h; · simp at h
  rename_i hph
  simp only at h
  split at h; · simp at h
  rename_i hdup
  split at h; · simp at h
  rename_i hmem
  split at h; · simp at h
  rename_i hfew
  split at h
  · simp at h
  · rename_i mpks hm
    split at h; · simp at h
    rename_i hown
    split at h; · simp at h
    rename_i hv
    injection h with h
    subst h
    refine ⟨by simpa using hph, by simpa using hmem, by simpa using hdup, by omega, by simpa using hv, ?_, rfl, ?_⟩
    · intro hc
      rw [hm]
      simp only [Option.getD_some]
      by_cases hin : mpks.contains sender = true
      · simpa using hin
      · exact absurd ⟨hc, by simpa using hin⟩ hown
    · intro count2 valid2
      unfold shareSignsOrShares
      simp only [Option.getD_some]
      split; · rfl
      have : (s.gsos.getD [] ++ [sender]).contains sender = true := by simp
      simp [this, Except.isOk]

/-- **wait_once_in_phase** (full statement; membership since commit 0a444b0): a wait confirmation is accepted only in the
Wait phase, only from a member of the DKG miners list, and once per member. -/
theorem wait_once_in_phase (s : State) (sender : Nat) (s' : State) (h : wait s sender = .ok s') :
    (getPhaseNode s).phase = pWait ∧ sender ∈ ids s.dkg.nodes ∧ sender ∉ s.dkg.waited ∧
    s'.dkg.waited = s.dkg.waited ++ [sender] ∧ Except.isOk (wait s' sender) = false := by
  unfold wait at h
  split at h; · simp at h
  rename_i hph
  split at h; · simp at h
  rename_i hmem
  split at h; · simp at h
  rename_i hdup
  injection h with h
  subst h
  refine ⟨by simpa using hph, by simpa using hmem, by simpa using hdup, rfl, ?_⟩
  unfold wait
  have hc : (s.dkg.waited ++ [sender]).contains sender = true := by simp
  repeat' split
  all_goals first | rfl | (rename_i hn; exact absurd hc hn)

/-! ### the former negation witnesses ("once per participating miner"), now refused -/

/-- a state in the Contribute phase: DKG miners 0..3, T = 3, K = 3, no MPK yet. -/
def sContribute : State :=
  { cfg := ⟨3, 5, 1, 2, 0x3fe51eb851eb851f, 0x3fe8000000000000, 0x3fe6666666666666, [2, 3, 2, 3, 3]⟩,
    round := 4, pn := some ⟨pContribute, 3, 3, 0⟩,
    miners := [⟨0, 10⟩, ⟨1, 10⟩, ⟨2, 20⟩, ⟨3, 5⟩], sharders := [⟨100, 5⟩, ⟨101, 6⟩],
    dkg := ⟨[⟨0, 10⟩, ⟨1, 10⟩, ⟨2, 20⟩, ⟨3, 5⟩], 3, 3, 3, 4, [], 2⟩,
    mpks := some [], gsos := some [], keep := [], mb := none, viewChange := 0, lastRound := 3, gnPrev := none,
    lfmb := ⟨1, 0, 1, 1, 4, ⟨[0, 1, 2, 3], [0, 1, 2, 3]⟩, ⟨[100, 101], [100, 101]⟩⟩,
    perms := [[], [0], [1, 0], [2, 0, 1], [3, 2, 1, 0]] }

def errOf (r : Except Err State) : Option Err :=
  match r with
  | .ok _ => none
  | .error e => some e

def mpksOf (r : Except Err State) : List Nat :=
  match r with
  | .ok s => s.mpks.getD []
  | .error _ => []

/-- miner 3 names miner 1 in its payload: the key is recorded under 3, and its next contributions (naming the
stranger 201, or nobody) are refused as duplicates (before commit 156160f all three were accepted: keys 1, 201, 3). -/
theorem mpk_payload_id_ignored :
    mpksOf (contributeMpk sContribute 3 3 (some 1)) = [3] ∧
    errOf (do let s1 ← contributeMpk sContribute 3 3 (some 1); contributeMpk s1 3 3 (some 201)) = some .dup ∧
    errOf (do let s1 ← contributeMpk sContribute 3 3 (some 1); contributeMpk s1 3 3 none) = some .dup := by decide

def sPublish : State :=
  { sContribute with pn := some ⟨pPublish, 8, 8, 0⟩, round := 9, mpks := some [0, 1, 2] }

def gsosOf (r : Except Err State) : List Nat :=
  match r with
  | .ok s => s.gsos.getD []
  | .error _ => []

/-- client 200 is not in the DKG miners list: its shares are refused (before commit 2f3cfcd a replay of miner 0's
shares was accepted and stored under 200). -/
theorem sos_from_non_member_refused :
    200 ∉ ids sPublish.dkg.nodes ∧ errOf (shareSignsOrShares sPublish 200 3 true) = some .notMember := by decide

/-- miner 3 is a DKG member without an MPK: share entries cannot validate and are refused (before commit 2f3cfcd a
payload id without MPK was a nil dereference in `Validate` that ended the process); without entries there is nothing
to validate. -/
theorem sos_without_mpk_refused :
    errOf (shareSignsOrShares sPublish 3 3 true) = some .invalid ∧
    gsosOf (shareSignsOrShares { sPublish with dkg := { sPublish.dkg with k := 1 } } 3 0 true) = [3] := by decide

def sWait : State := { sContribute with pn := some ⟨pWait, 11, 11, 0⟩, round := 12 }

/-- `wait` from client 200 and from the unregistered miner 7 is refused (accepted before commit 0a444b0). -/
theorem wait_from_non_member_refused :
    errOf (wait sWait 200) = some .notMember ∧ errOf (wait sWait 7) = some .notMember ∧
    errOf (do let s1 ← wait sWait 1; wait s1 1) = some .dup := by decide

/-! ## the produced magic block -/

theorem mem_of_any_contains {l p : List Nat} (h : l.any (fun i => p.contains i) = true) : ∃ i ∈ l, i ∈ p := by
  rw [List.any_eq_true] at h
  obtain ⟨i, hi, hc⟩ := h
  exact ⟨i, hi, by simpa using hc⟩

/-- `reduce` keeps a previous-set member whenever one is among the candidates and the quota is at least one. -/
theorem reduceN_keeps_prev (cs : List Node) (limit q : Nat) (inPrev : Nat → Bool) (perms : Nat → List Nat)
    (hc : ∃ c ∈ cs, inPrev c.id = true) (hq : 1 ≤ q) :
    ∃ a ∈ (reduceN cs limit q inPrev perms).selected, inPrev a.id = true := by
  obtain ⟨hsub, hlen, hmem, _⟩ := reduce_prev_quota cs limit q inPrev perms
  obtain ⟨c, hcs, hcp⟩ := hc
  have hpos : 0 < (cs.filter fun n => inPrev n.id).length :=
    List.length_pos_of_mem (List.mem_filter.mpr ⟨hcs, hcp⟩)
  have hQ : 0 < (quotaNodes cs inPrev q).length := by rw [hlen]; omega
  obtain ⟨a, ha⟩ := List.exists_mem_of_length_pos hQ
  exact ⟨a, hsub a ha, (hmem a ha).2⟩

/-- final `reduceNodes`: the reduced DKG list still holds a miner of the previous set. -/
theorem reduceNodes_final_keeps_prev (s : State) (d : DKG) (l : List Node) (h : reduceNodes s d true = .ok l)
    (hpool : (prevMB s).miners.vis = s.lfmb.miners.vis)
    (hmaxN : 1 ≤ s.cfg.maxN)
    (hx : ∀ m, m ≤ s.cfg.maxN → 1 ≤ m → 1 ≤ ceilPct s.cfg.xbits m) :
    ∃ a ∈ l, a.id ∈ s.lfmb.miners.vis := by
  unfold reduceNodes at h
  split at h; · simp at h
  split at h; · simp at h
  rename_i hprev
  simp only [↓reduceIte] at h
  split at h; · simp at h
  rename_i sel hsel
  injection h with h
  subst h
  unfold reduceWith at hsel
  split at hsel; · simp at hsel
  rename_i r hr
  injection hsel with hsel
  subst hsel
  unfold reduceQ at hr
  split at hr; · simp at hr
  rename_i hq0
  injection hr with hr
  subst hr
  have hprev' : hasPrevMinerIn s (ids d.nodes) = true := by simpa using hprev
  unfold hasPrevMinerIn at hprev'
  rw [hpool] at hprev'
  obtain ⟨i, hi, hip⟩ := mem_of_any_contains hprev'
  unfold ids at hi
  obtain ⟨c, hc, rfl⟩ := List.mem_map.mp hi
  have hm1 : 1 ≤ min s.cfg.maxN d.nodes.length := by
    have : 0 < d.nodes.length := List.length_pos_of_mem hc
    omega
  have hq := hx (min s.cfg.maxN d.nodes.length) (Nat.min_le_left _ _) hm1
  have hq' : 1 ≤ (ceilPct s.cfg.xbits (min s.cfg.maxN d.nodes.length)).toNat := by omega
  obtain ⟨a, ha, hap⟩ := reduceN_keeps_prev d.nodes s.cfg.maxN _ (fun i => s.lfmb.miners.vis.contains i) (permOf s)
    ⟨c, hc, by simpa using hip⟩ hq'
  exact ⟨a, ha, by simpa using hap⟩

/-- `reduceShardersList` only returns a list that holds a sharder of the previous set (otherwise it panics). -/
theorem reduceShardersList_keeps_prev (s : State) (out : List Nat) (h : reduceShardersList s = .ok out) :
    ∃ j ∈ out, j ∈ s.lfmb.sharders.vis := by
  unfold reduceShardersList at h
  simp only at h
  split at h; · simp at h
  split at h; · simp at h
  split at h
  · simp at h
  · split at h
    · rename_i hany
      injection h with h
      subst h
      exact mem_of_any_contains hany
    · simp at h

/-- **magic_block_keeps_prev**: when `createMagicBlockForWait` produces a magic block, it contains a miner of the
previous set, and (when the keep list is used, i.e. non-empty — `moveToShareOrPublish` requires `len(keep) ≥ min_s ≥ 1`)
a sharder of the previous set. Hypotheses: the previous set the contract remembers (`gn.PrevMagicBlock`, else the latest
finalized magic block) has the same miners as the chain's latest finalized magic block, whose pool `reduce` uses
(`hpool`: true before the first view change and whenever the magic block in force has been finalized), and `x_percent`
is positive in the sense that the quota of previous members is at least one (`hx`). -/
theorem magic_block_keeps_prev (s s' : State) (h : createMagicBlockForWait s = .ok s')
    (hpool : (prevMB s).miners.vis = s.lfmb.miners.vis)
    (hmaxN : 1 ≤ s.cfg.maxN)
    (hx : ∀ m, m ≤ s.cfg.maxN → 1 ≤ m → 1 ≤ ceilPct s.cfg.xbits m)
    (hkeep : s.keep ≠ []) :
    ∃ mb, s'.mb = some mb ∧ s'.viewChange = mb.start ∧
      (∃ i ∈ mb.miners.nodes, i ∈ s.lfmb.miners.vis) ∧ (∃ j ∈ mb.sharders.nodes, j ∈ s.lfmb.sharders.vis) := by
  unfold createMagicBlockForWait at h
  split at h; · simp at h
  rename_i mpks hm
  simp only at h
  have hke : s.keep.isEmpty = false := by
    cases hk : s.keep with
    | nil => exact absurd hk hkeep
    | cons _ _ => rfl
  simp only [hke, Bool.false_eq_true, ↓reduceIte] at h
  split at h
  · simp at h
  · simp at h
  · rename_i shs hsh
    split at h
    · simp at h
    · simp at h
    · rename_i nodes2 hred
      split at h; · simp at h
      injection h with h
      subst h
      refine ⟨_, rfl, rfl, ?_, ?_⟩
      · obtain ⟨a, ha, hav⟩ := reduceNodes_final_keeps_prev s _ nodes2 hred hpool hmaxN hx
        exact ⟨a.id, List.mem_map.mpr ⟨a, ha, rfl⟩, hav⟩
      · exact reduceShardersList_keeps_prev s shs hsh

/-! ### without the hypothesis `x_percent > 0` (`x_percent` is not range-checked by `GlobalNode.validate`) -/

/-- Publish phase, `x_percent = 0`, `max_n = 1`: candidates are the previous miner 4 (stake 20) and the newcomer 1
(stake 30); keep list = the previous sharder 100. -/
def sX0 : State :=
  { cfg := ⟨1, 1, 1, 4, 0x3fe51eb851eb851f, 0x3fe0000000000000, 0, [1, 1, 1, 1, 3]⟩,
    round := 5, pn := some ⟨pPublish, 4, 4, 0⟩,
    miners := [⟨0, 30⟩, ⟨4, 20⟩, ⟨1, 30⟩], sharders := [⟨100, 20⟩, ⟨103, 5⟩],
    dkg := ⟨[⟨4, 20⟩, ⟨1, 30⟩], 1, 1, 1, 1, [], 1⟩,
    mpks := some [4, 1], gsos := some [1, 4], keep := [100], mb := none, viewChange := 0, lastRound := 4, gnPrev := none,
    lfmb := ⟨1, 0, 1, 1, 2, ⟨[4, 5], [4, 5]⟩, ⟨[100], [100]⟩⟩,
    perms := [[], [0], [1, 0], [2, 0, 1]] }

/-- negation witness for `magic_block_keeps_prev` without `hx`: the produced magic block's only miner is 1, which is
not in the previous set {4, 5} (`reduceNodes` looks for a previous miner before the reduction only). -/
theorem magic_block_without_prev_at_x0 :
    (match createMagicBlockForWait sX0 with
     | .ok s' => s'.mb.map fun mb => (mb.miners.nodes, mb.miners.nodes.any fun i => sX0.lfmb.miners.vis.contains i)
     | _ => none) = some ([1], false) := by decide

/-- `x_percent = 0`, `max_s = 1`, keep list = previous sharder 102 (stake 0) and newcomer 105 (stake 10): the reduced
list is [105]; the repair branch of `reduceShardersList` searches the same list and panics ("must not happen"). -/
theorem reduceShardersList_panics_at_x0 :
    (match reduceShardersList { sX0 with cfg := { sX0.cfg with maxS := 1 }, sharders := [⟨102, 0⟩, ⟨105, 10⟩],
                                         keep := [105, 102], lfmb := { sX0.lfmb with sharders := ⟨[102], [102]⟩ } } with
     | .panic => true
     | _ => false) = true := by decide

/-! ### the generated tables (regenerated from minersc.go / sc.yaml on every run) -/

/-- the schedule the property names: Start, Contribute, Share, Publish, Wait — numbered 0..4 in this order. -/
theorem generated_phase_order : ZChain.Generated.C38.phaseNames = ["Start", "Contribute", "Share", "Publish", "Wait"] := by
  decide

/-- every phase has a move function and a configured length; the phase functions are the three DKG steps. -/
theorem generated_tables :
    (List.range 5).all (fun p => (lookup ZChain.Generated.C38.moveFunctions p).isSome &&
      (lookup ZChain.Generated.C38.phaseRoundsKeys p).isSome) = true ∧
    ZChain.Generated.C38.phaseRounds.length = 5 ∧ (∀ r ∈ ZChain.Generated.C38.phaseRounds, 0 < r) ∧
    ZChain.Generated.C38.moveFunctions = [(0, "moveToContribute"), (1, "moveToShareOrPublish"), (2, "moveToShareOrPublish"),
      (3, "moveToWait"), (4, "moveToStart")] ∧
    ZChain.Generated.C38.phaseRoundsKeys = [(0, "start_rounds"), (1, "contribute_rounds"), (2, "share_rounds"),
      (3, "publish_rounds"), (4, "wait_rounds")] ∧
    lookup ZChain.Generated.C38.moveFunctions pWait = some "moveToStart" ∧
    lookup ZChain.Generated.C38.phaseFuncs pWait = none ∧
    lookup ZChain.Generated.C38.phaseFuncs pPublish = some "createMagicBlockForWait" ∧
    lookup ZChain.Generated.C38.phaseFuncs pStart = some "createDKGMinersForContribute" ∧
    lookup ZChain.Generated.C38.phaseFuncs pContribute = some "widdleDKGMinersForShare" := by
  decide

-- with the configured rounds a phase is left after exactly that many rounds, not one earlier
example : ¬ Elapsed { sContribute.cfg with rounds := ZChain.Generated.C38.phaseRounds } ⟨pContribute, 100, 149, 0⟩ := by
  unfold Elapsed; decide
example : Elapsed { sContribute.cfg with rounds := ZChain.Generated.C38.phaseRounds } ⟨pContribute, 100, 150, 0⟩ := by
  unfold Elapsed; decide

/-! ### non-vacuity -/

/-- a state at the end of the Publish phase of a first view change, with four contributions, four share sets and
the keep list [100, 102]. -/
def sPublishDone : State :=
  { sPublish with round := 11, gsos := some [0, 1, 2, 3], keep := [100, 102],
                  sharders := [⟨100, 5⟩, ⟨101, 6⟩, ⟨102, 7⟩] }

example : (createMagicBlockForWait sPublishDone).isOk = true := by decide
example : (prevMB sPublishDone).miners.vis = sPublishDone.lfmb.miners.vis := by decide
example : ∀ m, m ≤ sPublishDone.cfg.maxN → 1 ≤ m → 1 ≤ ceilPct sPublishDone.cfg.xbits m := by decide
-- the magic block it produces: miners 0,1,2,3 (all four fit max_n = 5), sharders 100, 102; view change at 11 + 3
example : (match createMagicBlockForWait sPublishDone with
    | .ok s' => s'.mb.map fun mb => (mb.start, mb.miners.nodes, mb.sharders.nodes)
    | _ => none) = some (14, [2, 0, 1, 3], [100, 102]) := by decide
-- phase_order: a concrete elapsed Publish phase that advances to Wait
example : Elapsed sPublishDone.cfg (getPhaseNode sPublishDone) := by unfold Elapsed; decide
example : ((setPhaseNode sPublishDone (getPhaseNode sPublishDone)).bind (·.pn)).map (·.phase) = some pWait := by decide
-- ... and one that restarts because too few shares were published
example : ((setPhaseNode { sPublishDone with gsos := some [0] } (getPhaseNode sPublishDone)).bind (·.pn)).map
    (fun p => (p.phase, p.restarts)) = some (pStart, 1) := by decide
-- the acceptance theorems' hypotheses are met
example : Except.isOk (contributeMpk sContribute 2 3 none) = true := by decide
example : Except.isOk (wait sWait 1) = true := by decide
example : gsosOf (shareSignsOrShares sPublish 1 3 true) = [1] := by decide

/-! ### after a view change: the next DKG can start

`SetMagicBlock` stores the magic block read back from the state in `gn.PrevMagicBlock`; since commit 964b895
(`Pool.UnmarshalMsg` restores `NodesMap`) its pools keep their members, so `hasPrevShader` / `hasPrevMiner` find the
members of the new set. (Before the repair the pools looked empty and `moveToContribute` failed for ever.) -/

/-- the state of `sPublishDone` one view change later: the magic block it produced is in force (stored, in
`gn.PrevMagicBlock`, finalized as the chain's latest magic block), the DKG lists are cleared, phase Start has run. -/
def sAfterVC : State :=
  match createMagicBlockForWait sPublishDone with
  | .ok s' =>
    { s' with round := 17, pn := some ⟨pStart, 14, 14, 0⟩, dkg := DKG.empty 0, gnPrev := s'.mb,
              lfmb := s'.mb.getD s'.lfmb, lastRound := 16 }
  | _ => sPublishDone

/-- the previous-set tests see the members of the magic block that came into force, and Start moves on to Contribute
with the DKG list of the second view change. -/
theorem next_view_change_starts :
    (prevMB sAfterVC).miners.vis = [2, 0, 1, 3] ∧ (prevMB sAfterVC).sharders.vis = [100, 102] ∧
    moveToContribute sAfterVC = true ∧
    ((setPhaseNode sAfterVC (getPhaseNode sAfterVC)).map fun s => (s.pn.map (·.phase), ids s.dkg.nodes, s.dkg.t, s.dkg.k))
      = some (some pContribute, [0, 1, 2, 3], 3, 3) := by decide

end ZChain.ViewChange
