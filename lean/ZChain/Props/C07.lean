import ZChain.Proofs.StateCache
/-!
# C07 — The state cache never disagrees with the state trie

Property theorems only. They are about `Model/StateCache.lean` (the three cache layers of
`github.com/0chain/common/core/statecache` — state cache per block hash, block cache, transaction cache — and
`StateContext.GetTrieNode / InsertTrieNode / DeleteTrieNode`, over one trie per computed block), which the
correspondence check `harness/cmd/c07` ties to the real code on every run.

The full statement — *every read through the caches equals the read from the trie, for every history of block
executions, transactions, commits, discards and reads* — is FALSE of the code: `StateCache.Get`, when it finds the
value at an ancestor block, replaces the whole per-key map by a single entry for the queried block and thereby drops
the entries of blocks computed later; a read at a block that already has a computed child (a sibling proposal of the
same round, or any query at an older block such as the LFB) makes the child's descendants read the ancestor's
value. `stale_after_read_at_older_block` is the witness (reproduced on the real code by the harness and recorded
in known_findings.jsonl). What is proved:

* `cache_refines_trie_linear_partial` — the code as it is (`keep = false`): on one chain of blocks that is only
  read at its tip, every read through the caches is the trie's;
* `cache_refines_trie_keep` — with the one-line change "add the entry instead of replacing the map"
  (`keep = true`) the full statement holds for every tree of blocks;
* `cache_subset_trie_keep`, `cache_subset_trie_linear_partial` — cache ⊆ trie in every reachable state, over an
  operation language with refused inserts (`insfail`), reads that cannot use a hit (`getn`, `getr`), interrupted
  (`babort`) and re-computed blocks;
* `failed_txn_leaves_no_trace` — both variants, every history;
* `lossy_clone_breaks`, `lossy_copyFrom_breaks` — the hypotheses on `Clone`/`CopyFrom` are necessary.
The aliasing half of the property (mutating a returned object) has no counterpart in a model with immutable values:
it is validated on the real types by the harness (`typecheck`), not proved.
-/
namespace ZChain.StateCache
open ZChain.Partitions (KV)

/-- every read of a history answers what the trie holds -/
def AllReadsOK (cfg : Cfg) : World → List Op → Prop
  | _, [] => True
  | w, op :: ops => ReadOK w op (step cfg w op).2 ∧ AllReadsOK cfg (step cfg w op).1 ops

/-- histories on one chain: blocks are begun on the tip with a fresh hash, queries read at the tip -/
def LinHist (cfg : Cfg) : World → Nat → List Op → Prop
  | _, _, [] => True
  | w, tip, op :: ops => LinOK w tip op ∧ LinHist cfg (step cfg w op).1 (nextTip w tip op) ops

theorem tree_init : TreeInv {} := by
  refine ⟨⟨?_, ?_⟩, ?_, ?_⟩
  · intro k m b e h; simp at h
  · intro b p h; simp at h
  · intro b T h
    simp only [KV.get_cons, KV.get_nil] at h
    split at h
    · exact Or.inl (by assumption |> Eq.symm)
    · cases h
  · intro e h; cases h

theorem lin_init : LinInv {} 0 := by
  refine ⟨⟨?_, ?_, ?_⟩, ?_, ⟨[], rfl⟩⟩
  · intro k m b h; simp at h
  · intro k m b e h; simp at h
  · intro b p h; simp at h
  · intro e h; cases h

/-- **cache_refines_trie** for the variant that keeps entries (`keep = true`): every tree of blocks, every
interleaving of executions, transactions, commits, discards and reads at any computed block. -/
theorem cache_refines_trie_keep {cfg : Cfg} (hf : Faithful cfg) (hk : cfg.keep = true) (ops : List Op)
    (hops : ∀ x p, Op.begin_ x p ∈ ops → x ≠ 0) : AllReadsOK cfg {} ops := by
  have : ∀ (ops : List Op) (w : World), TreeInv w → (∀ x p, Op.begin_ x p ∈ ops → x ≠ 0) → AllReadsOK cfg w ops := by
    intro ops
    induction ops with
    | nil => intro _ _ _; trivial
    | cons op ops ih =>
      intro w hw hops
      obtain ⟨h1, h2⟩ := step_tree hf hk hw op (fun x p he => hops x p (by simp [he]))
      exact ⟨h2, ih _ h1 (fun x p hm => hops x p (by simp [hm]))⟩
  exact this ops {} tree_init hops

/-- **cache_refines_trie**, partial: the code as it is, on one chain of blocks read only at its tip. -/
theorem cache_refines_trie_linear_partial {cfg : Cfg} (hf : Faithful cfg) (ops : List Op)
    (hlin : LinHist cfg {} 0 ops) : AllReadsOK cfg {} ops := by
  have : ∀ (ops : List Op) (w : World) (tip : Nat), LinInv w tip → LinHist cfg w tip ops → AllReadsOK cfg w ops := by
    intro ops
    induction ops with
    | nil => intro _ _ _ _; trivial
    | cons op ops ih =>
      intro w tip hw hl
      obtain ⟨h1, h2⟩ := step_lin hf hw op hl.1
      exact ⟨h2, ih _ _ h1 hl.2⟩
  exact this ops {} 0 lin_init hlin

/-! ### cache ⊆ trie at every reachable state

The operation language includes inserts the trie refuses (`insfail`: the cache must stay untouched, whatever the
caller does next — tolerate the error and commit included), reads that cannot use a hit (`getn`, `getr`), block
executions dropped after some of their transactions (`babort`) and computed again later under the same hash
(`begin_` with that hash). -/

/-- every node of every cache layer says what the corresponding trie holds -/
structure CacheAgrees (w : World) : Prop where
  state : ∀ k m b n, KV.get w.sc.cache k = some m → KV.get m b = some n →
    ∃ T, KV.get w.tries b = some T ∧ Agrees n (KV.get T k)
  block : ∀ e, w.cur = some e → ∀ k n, KV.get e.bc k = some n → Agrees n (KV.get e.trie k)
  txn : ∀ e t, w.cur = some e → e.txn = some t → ∀ k n, KV.get t.tc k = some n → Agrees n (KV.get t.trie k)

theorem Layer.entry {c : KV VNode} {hi lo : KV Nat} (h : Layer c hi lo) {k : Nat} {n : VNode}
    (hn : KV.get c k = some n) : Agrees n (KV.get hi k) := by
  have := h k; rw [hn] at this; exact this

theorem run_tree {cfg : Cfg} (hf : Faithful cfg) (hk : cfg.keep = true) (ops : List Op) :
    ∀ (w : World), TreeInv w → (∀ x p, Op.begin_ x p ∈ ops → x ≠ 0) → TreeInv (run cfg w ops) := by
  induction ops with
  | nil => intro w hw _; exact hw
  | cons op ops ih =>
    intro w hw hops
    exact ih _ (step_tree hf hk hw op (fun x p he => hops x p (by simp [he]))).1 (fun x p hm => hops x p (by simp [hm]))

/-- **cache ⊆ trie** (variant that keeps entries): in every state reachable by any history — any tree of blocks,
refused inserts, interrupted and re-computed blocks — every cache node agrees with its trie. -/
theorem cache_subset_trie_keep {cfg : Cfg} (hf : Faithful cfg) (hk : cfg.keep = true) (ops : List Op)
    (hops : ∀ x p, Op.begin_ x p ∈ ops → x ≠ 0) : CacheAgrees (run cfg {} ops) := by
  have h := run_tree hf hk ops {} tree_init hops
  refine ⟨h.sc.sound, ?_, ?_⟩
  · intro e he k n hn
    obtain ⟨_, Tp, _, hl, _, _⟩ := h.exec e he
    exact hl.entry hn
  · intro e t he ht k n hn
    obtain ⟨_, Tp, _, _, _, hx⟩ := h.exec e he
    exact (hx t ht).1.entry hn

theorem run_lin {cfg : Cfg} (hf : Faithful cfg) (ops : List Op) :
    ∀ (w : World) (tip : Nat), LinInv w tip → LinHist cfg w tip ops → ∃ tip', LinInv (run cfg w ops) tip' := by
  induction ops with
  | nil => intro w tip hw _; exact ⟨tip, hw⟩
  | cons op ops ih =>
    intro w tip hw hl
    exact ih _ _ (step_lin hf hw op hl.1).1 hl.2

/-- **cache ⊆ trie**, partial (the code as it is, one chain read at its tip, with refused inserts and interrupted /
re-computed blocks): the transaction and block caches agree with their tries, and so does every state-cache entry
that a read from the tip can reach. -/
theorem cache_subset_trie_linear_partial {cfg : Cfg} (hf : Faithful cfg) (ops : List Op)
    (hlin : LinHist cfg {} 0 ops) :
    ∃ tip, (∀ k m b n, KV.get (run cfg {} ops).sc.cache k = some m → Clear m (run cfg {} ops).sc.hashes tip b →
        KV.get m b = some n → ∃ T, KV.get (run cfg {} ops).tries b = some T ∧ Agrees n (KV.get T k)) ∧
      (∀ e, (run cfg {} ops).cur = some e → ∀ k n, KV.get e.bc k = some n → Agrees n (KV.get e.trie k)) ∧
      (∀ e t, (run cfg {} ops).cur = some e → e.txn = some t → ∀ k n, KV.get t.tc k = some n →
        Agrees n (KV.get t.trie k)) := by
  obtain ⟨tip, h⟩ := run_lin hf ops {} 0 lin_init hlin
  refine ⟨tip, ?_, ?_, ?_⟩
  · intro k m b n hm hc hn
    obtain ⟨Tb, _, h1, _, _, h4⟩ := h.sc.clear k m b hm hc
    exact ⟨Tb, h1, h4 n hn⟩
  · intro e he k n hn
    obtain ⟨_, _, Tp, _, hl, _, _⟩ := h.exec e he
    exact hl.entry hn
  · intro e t he ht k n hn
    obtain ⟨_, _, Tp, _, _, _, hx⟩ := h.exec e he
    exact (hx t ht).1.entry hn

/-- a refused insert that the caller tolerates, then a commit: what the next transaction reads through the caches is
the trie's (old) value — the instance of the theorems the round-2 change to `InsertTrieNode` falsifies -/
theorem refused_insert_not_cached :
    (step {} (run {} {} [.begin_ 1 0, .tx, .ins 1 10, .commit, .tx, .insfail 1, .commit, .tx]) (.get 1)).2 = .val 10 ∧
    (step {} (run {} {} [.begin_ 1 0, .tx, .ins 1 10, .commit, .tx, .insfail 1]) (.probe 1)).2 = .val 10 := by decide

/-- a block dropped after its first transaction and computed again: reads at it and at its child see the trie -/
theorem interrupted_block_recomputed :
    (step {} (run {} {} [.begin_ 1 0, .tx, .ins 1 10, .commit, .tx, .ins 2 20, .commit, .bcommit,
        .begin_ 2 1, .tx, .ins 1 11, .commit, .babort,
        .begin_ 2 1, .tx, .ins 1 11, .commit, .tx, .ins 2 21, .commit, .bcommit]) (.query 2 2)).2 = .val 21 := by decide

/-- **failed_txn_leaves_no_trace** (either variant, any `Clone`/`CopyFrom`): after `tx; …; discard` the block
execution — its block cache and its trie — and the computed blocks are exactly as before the transaction, and the
state cache holds no node it did not hold before. -/
theorem failed_txn_leaves_no_trace (cfg : Cfg) (w : World) (e : Exec) (hc : w.cur = some e) (ht : e.txn = none)
    (ops : List Op) (hops : ∀ op ∈ ops, TxnOp op) :
    (step cfg (run cfg (step cfg w .tx).1 ops) .discard).1.cur = some e ∧
    (step cfg (run cfg (step cfg w .tx).1 ops) .discard).1.tries = w.tries ∧
    SubNodes (step cfg (run cfg (step cfg w .tx).1 ops) .discard).1.sc w.sc :=
  failed_txn_no_trace cfg w e hc ht ops hops

/-! ## negation witnesses -/

/-- the history of the finding: block 1 writes key 7 := 10, block 2 (child of 1) leaves it alone, block 3 (child of
2) writes 7 := 11; then key 7 is read at block 2 (a query at an older block; a sibling of block 3 does the same);
block 5, a child of block 3, now reads 10 through the caches while its trie holds 11. -/
def staleHistory : List Op :=
  [.begin_ 1 0, .tx, .ins 7 10, .commit, .bcommit, .begin_ 2 1, .bcommit, .begin_ 3 2, .tx, .ins 7 11, .commit,
   .bcommit, .query 2 7, .begin_ 5 3, .tx]

/-- **the full statement is false of the code** (`keep = false`, faithful `Clone`/`CopyFrom`). -/
theorem stale_after_read_at_older_block :
    (step {} (run {} {} staleHistory) (.get 7)).2 = .val 10 ∧
    refRead (run {} {} staleHistory) (.get 7) = some (some 11) := by decide

/-- the same history is answered correctly by the variant that keeps entries -/
theorem keep_fixes_stale_history :
    (step { keep := true } (run { keep := true } {} staleHistory) (.get 7)).2 = .val 11 := by decide

/-- a `Clone` that loses information (here: the lowest bit) breaks the refinement even on a single block -/
theorem lossy_clone_breaks :
    (step { clone := fun v => v / 2 * 2 } (run { clone := fun v => v / 2 * 2 } {} [.begin_ 1 0, .tx, .ins 1 11]) (.get 1)).2 = .val 10 ∧
    refRead (run { clone := fun v => v / 2 * 2 } {} [.begin_ 1 0, .tx, .ins 1 11]) (.get 1) = some (some 11) := by decide

/-- … and so does a `CopyFrom` that does not copy everything -/
theorem lossy_copyFrom_breaks :
    (step { copyFrom := fun v => v / 2 * 2 } (run { copyFrom := fun v => v / 2 * 2 } {} [.begin_ 1 0, .tx, .ins 1 11]) (.get 1)).2 = .val 10 ∧
    refRead (run { copyFrom := fun v => v / 2 * 2 } {} [.begin_ 1 0, .tx, .ins 1 11]) (.get 1) = some (some 11) := by decide

/-! ## non-vacuity -/

/-- a linear history with overwrites, a delete, a failed transaction and reads at the tip meets `LinHist` -/
example : LinHist {} {} 0
    [.begin_ 1 0, .tx, .ins 1 10, .get 1, .commit, .tx, .ins 1 11, .discard, .tx, .get 1, .commit, .bcommit,
     .begin_ 2 1, .tx, .get 1, .del 1, .get 1, .commit, .bcommit, .query 2 1] := by
  simp [LinHist, LinOK, nextTip, step, getTrieNode, tcGet, bcGet, scGet, scWalk, tcCommit, scCommit, clNode, KV.get, KV.set, KV.del]

example : (step {} (run {} {} [.begin_ 1 0, .tx, .ins 1 10, .commit, .bcommit, .begin_ 2 1, .tx]) (.get 1)).2 = .val 10 := by
  decide

example : Faithful {} := ⟨fun _ => rfl, fun _ => rfl⟩
example : Faithful { keep := true } := ⟨fun _ => rfl, fun _ => rfl⟩

end ZChain.StateCache
