import ZChain.Proofs.OrderBuffer
import ZChain.Generated.C46
/-!
# C46 — The ordered block buffer yields blocks lowest round first

Property theorems only (helper lemmas live in `Proofs/OrderBuffer.lean`).
All statements are about `Model/OrderBuffer.lean`, which the correspondence check
(`harness/cmd/c46`) ties to `core/util/orderbuffer` on every run.
-/
namespace ZChain.OrderBuffer

/-- The invariant of every reachable buffer. -/
def Inv (b : OB) : Prop := Sorted b.buf ∧ b.buf.length ≤ b.max

/-- `Add` keeps the buffer sorted by round. -/
theorem add_sorted (b : OB) (r : Int) (d : Nat) (hs : Sorted b.buf) : Sorted (add b r d).buf := by
  unfold add
  simp only
  split
  · exact hs
  · simp only
    split
    · exact sorted_take (insertAt_sorted hs r d) _
    · exact insertAt_sorted hs r d

/-- `Add` never leaves more than `max` entries. -/
theorem add_length_le (b : OB) (r : Int) (d : Nat) (h : b.buf.length ≤ b.max) :
    (add b r d).buf.length ≤ b.max := by
  unfold add
  simp only
  split
  · exact h
  · simp only
    split
    · simp only [List.length_take]; omega
    · omega

theorem add_max (b : OB) (r : Int) (d : Nat) : (add b r d).max = b.max := by
  unfold add; simp only; split <;> rfl

theorem step_inv (b : OB) (op : Op) (h : Inv b) : Inv (step b op) ∧ (step b op).max = b.max := by
  cases op with
  | add r d =>
    refine ⟨⟨add_sorted b r d h.1, ?_⟩, add_max b r d⟩
    show (add b r d).buf.length ≤ (add b r d).max
    rw [add_max]; exact add_length_le b r d h.2
  | first => exact ⟨h, rfl⟩
  | pop =>
    obtain ⟨h1, h2⟩ := h
    show Inv (pop b).1 ∧ (pop b).1.max = b.max
    unfold pop Inv
    cases hb : b.buf with
    | nil => simp only; rw [hb]; rw [hb] at h1 h2; exact ⟨⟨h1, h2⟩, trivial⟩
    | cons x xs =>
      simp only
      rw [hb] at h1 h2
      refine ⟨⟨(List.pairwise_cons.mp h1).2, ?_⟩, trivial⟩
      simp only [List.length_cons] at h2; omega

/-- **sorted_invariant / length_le_max** for every operation sequence from an empty buffer. -/
theorem reachable_inv (m : Nat) (ops : List Op) : Inv (run (new m) ops) ∧ (run (new m) ops).max = m := by
  have : ∀ (b : OB), Inv b → Inv (run b ops) ∧ (run b ops).max = b.max := by
    induction ops with
    | nil => intro b h; exact ⟨h, rfl⟩
    | cons op ops ih =>
      intro b h
      have hs := step_inv b op h
      have := ih (step b op) hs.1
      exact ⟨this.1, by show (run (step b op) ops).max = b.max; rw [this.2, hs.2]⟩
  exact this (new m) ⟨List.Pairwise.nil, Nat.zero_le _⟩

/-- **pop_is_min**: `Pop` hands out an item whose round is ≤ every round still held, and
exactly that item is removed. `First` returns the same item without removing it. -/
theorem pop_is_min (b : OB) (hs : Sorted b.buf) (x : Item) (b' : OB) (h : pop b = (b', some x)) :
    b.buf = x :: b'.buf ∧ (∀ y ∈ b'.buf, x.round ≤ y.round) ∧ first b = some x := by
  unfold pop at h
  cases hb : b.buf with
  | nil => simp [hb] at h
  | cons z zs =>
    simp only [hb] at h
    injection h with h1 h2
    injection h2 with h2
    subst h2; subst h1
    rw [hb] at hs
    exact ⟨rfl, (List.pairwise_cons.mp hs).1, by simp [first, hb]⟩

theorem pop_none_iff_empty (b : OB) : (pop b).2 = none ↔ b.buf = [] := by
  unfold pop; cases b.buf <;> simp

/-- **full_drops_only_highest**: when an insertion overflows the capacity, the result is the
sorted insertion cut to `max`; every dropped entry has a round ≥ every retained entry, and
kept ++ dropped is exactly the old content plus the new item (nothing else is lost). -/
theorem full_drops_only_highest (b : OB) (r : Int) (d : Nat) (hs : Sorted b.buf)
    (hrep : isRepeat b.buf (search b.buf r) d = false) :
    let ins := insertAt b.buf (search b.buf r) ⟨r, d⟩
    (add b r d).buf = ins.take b.max ∧
    (∀ x ∈ ins.take b.max, ∀ y ∈ ins.drop b.max, x.round ≤ y.round) ∧
    List.Perm (ins.take b.max ++ ins.drop b.max) (⟨r, d⟩ :: b.buf) := by
  intro ins
  have hsi : Sorted ins := insertAt_sorted hs r d
  refine ⟨?_, ?_, ?_⟩
  · unfold add
    simp only [hrep, Bool.false_eq_true, ↓reduceIte]
    split
    · rfl
    · rename_i hgt
      have : ins.length ≤ b.max := by simp only [ins]; omega
      exact (List.take_of_length_le this).symm
  · have := hsi
    unfold Sorted at this
    rw [← List.take_append_drop b.max ins, List.pairwise_append] at this
    exact this.2.2
  · rw [List.take_append_drop]
    simp only [ins, insertAt]
    have : List.Perm (List.take (search b.buf r) b.buf ++ ⟨r, d⟩ :: List.drop (search b.buf r) b.buf)
        (⟨r, d⟩ :: (List.take (search b.buf r) b.buf ++ List.drop (search b.buf r) b.buf)) :=
      List.perm_middle
    rw [List.take_append_drop] at this
    exact this

/-- **repeat_ignored** (as coded): if the entry just before the insertion point carries the same
data, `Add` changes nothing. -/
theorem repeat_ignored (b : OB) (r : Int) (d : Nat)
    (h : isRepeat b.buf (search b.buf r) d = true) : add b r d = b := by
  unfold add; simp [h]

/-- **repeat_ignored**, stated on content: re-adding the block held at the insertion position
(the last entry with round ≤ r is `(r, d)`) is a no-op. -/
theorem repeat_of_last_le (b : OB) (r : Int) (d : Nat) (hs : Sorted b.buf)
    (i : Nat) (hi : i < b.buf.length) (hit : b.buf.getD i default = ⟨r, d⟩)
    (hnext : ∀ j, i < j → j < b.buf.length → r < (b.buf.getD j default).round) :
    add b r d = b := by
  apply repeat_ignored
  obtain ⟨hle, hlo, hhi⟩ := search_spec hs r
  have hp : search b.buf r = i + 1 := by
    rcases Nat.lt_trichotomy (search b.buf r) (i + 1) with h | h | h
    · have := hhi i (by omega) hi
      rw [hit] at this; simp at this
    · exact h
    · have h1 := hlo (i + 1) h
      have h2 := hnext (i + 1) (by omega) (by omega)
      omega
  unfold isRepeat
  rw [hp]
  have h3 : i + 1 - 1 = i := by omega
  rw [h3, hit]
  simp
  omega

/-! ### refinement to the abstract specification: a stable ordered insert, cut to the capacity -/

/-- The specification `Add` is held against: the new item goes **after every held item whose round is `≤ r`**
(so items of one round leave in arrival order) and before every item of a higher round. No binary search,
no index arithmetic. -/
def stableInsert (l : List Item) (it : Item) : List Item :=
  l.filter (fun x => decide (x.round ≤ it.round)) ++ it :: l.filter (fun x => !decide (x.round ≤ it.round))

/-- **add_refines_stable_insert**: on every sorted buffer the coded `Add` (binary search, shift, truncate) is the
stable ordered insert cut to `max`, unless the repeat test swallows the item. -/
theorem add_refines_stable_insert (b : OB) (r : Int) (d : Nat) (hs : Sorted b.buf)
    (hrep : isRepeat b.buf (search b.buf r) d = false) :
    (add b r d).buf = (stableInsert b.buf ⟨r, d⟩).take b.max := by
  have h := (full_drops_only_highest b r d hs hrep).1
  obtain ⟨h1, h2⟩ := search_split hs r
  rw [h]
  unfold stableInsert insertAt
  simp only
  rw [h1, h2]

/-- **fifo_within_round**: after a non-repeat `Add` that does not overflow, the buffer is `pre ++ new :: post` where
`pre` holds exactly the old items with round `≤ r` in their old order and `post` the old items with a higher round:
nothing held earlier with the same round is overtaken by the new item. -/
theorem fifo_within_round (b : OB) (r : Int) (d : Nat) (hs : Sorted b.buf)
    (hrep : isRepeat b.buf (search b.buf r) d = false) (hroom : b.buf.length < b.max) :
    ∃ pre post, (add b r d).buf = pre ++ ⟨r, d⟩ :: post ∧ b.buf = pre ++ post ∧
      (∀ x ∈ pre, x.round ≤ r) ∧ (∀ y ∈ post, r < y.round) := by
  obtain ⟨hle, hlo, hhi⟩ := search_spec hs r
  refine ⟨b.buf.take (search b.buf r), b.buf.drop (search b.buf r), ?_, (List.take_append_drop _ _).symm, ?_, ?_⟩
  · rw [(full_drops_only_highest b r d hs hrep).1]
    apply List.take_of_length_le
    have := insertAt_length b.buf (search b.buf r) ⟨r, d⟩ hle
    unfold insertAt at this ⊢
    omega
  · intro x hx
    obtain ⟨i, hip, _, rfl⟩ := mem_take_getD hx
    exact hlo i hip
  · intro y hy
    obtain ⟨i, hpi, hil, rfl⟩ := mem_drop_getD hy
    exact hhi i hpi hil

-- non-vacuity and a reading aid: two blocks of round 4 leave in arrival order
example : (run (new 4) [.add 4 1, .add 9 2, .add 4 3]).buf = [⟨4, 1⟩, ⟨4, 3⟩, ⟨9, 2⟩] := by decide
example : stableInsert [⟨4, 1⟩, ⟨9, 2⟩] ⟨4, 3⟩ = [⟨4, 1⟩, ⟨4, 3⟩, ⟨9, 2⟩] := by decide

/-! ### refinement, continued: whole arrival sequences — the buffer is a stable sort of what arrived -/
theorem stableInsert_perm (l : List Item) (it : Item) : (stableInsert l it).Perm (it :: l) := by
  unfold stableInsert
  refine List.perm_middle.trans (List.Perm.cons _ ?_)
  exact List.filter_append_perm _ l

theorem stableInsert_length (l : List Item) (it : Item) : (stableInsert l it).length = l.length + 1 := by
  simpa using (stableInsert_perm l it).length_eq

theorem mem_stableInsert {l : List Item} {it y : Item} : y ∈ stableInsert l it ↔ y = it ∨ y ∈ l := by
  rw [(stableInsert_perm l it).mem_iff]; simp

/-- a fresh data value is never swallowed by the repeat test. -/
theorem isRepeat_false_of_fresh (buf : List Item) (r : Int) (d : Nat) (hs : Sorted buf)
    (hf : ∀ y ∈ buf, y.data ≠ d) : isRepeat buf (search buf r) d = false := by
  obtain ⟨hle, _, _⟩ := search_spec hs r
  unfold isRepeat
  by_cases h0 : 0 < search buf r
  · have hi : search buf r - 1 < buf.length := by omega
    have hm : buf.getD (search buf r - 1) default ∈ buf := by
      rw [← List.getElem_eq_getD (h := hi)]; exact List.getElem_mem hi
    have hne := hf _ hm
    have : decide ((buf.getD (search buf r - 1) default).data = d) = false := decide_eq_false hne
    rw [this]; simp
  · have : decide (0 < search buf r) = false := decide_eq_false h0
    rw [this]; simp

/-- `Add` of each item in turn. -/
def addAll (b : OB) (items : List Item) : OB := items.foldl (fun b it => add b it.round it.data) b

/-- **adds_are_stable_sort**: adding items with pairwise distinct payloads (distinct blocks) that fit the capacity,
in ANY arrival order, leaves exactly the stable insertion sort of the arrivals by round. -/
theorem adds_are_stable_sort (items : List Item) : ∀ (b : OB), Sorted b.buf →
    b.buf.length + items.length ≤ b.max →
    (∀ x ∈ items, ∀ y ∈ b.buf, y.data ≠ x.data) →
    (items.map (·.data)).Nodup →
    (addAll b items).buf = items.foldl stableInsert b.buf := by
  induction items with
  | nil => intro b _ _ _ _; rfl
  | cons it rest ih =>
    intro b hs hlen hfresh hnd
    have hrep := isRepeat_false_of_fresh b.buf it.round it.data hs (hfresh it List.mem_cons_self)
    have hadd : (add b it.round it.data).buf = stableInsert b.buf it := by
      have h := add_refines_stable_insert b it.round it.data hs hrep
      rw [h]
      apply List.take_of_length_le
      have := stableInsert_length b.buf ⟨it.round, it.data⟩
      simp only [List.length_cons] at hlen
      omega
    show (addAll (add b it.round it.data) rest).buf = rest.foldl stableInsert (stableInsert b.buf it)
    rw [← hadd]
    simp only [List.map_cons, List.nodup_cons] at hnd
    apply ih
    · exact add_sorted b it.round it.data hs
    · rw [add_max, hadd, stableInsert_length]; simp only [List.length_cons] at hlen; omega
    · intro x hx y hy
      rw [hadd, mem_stableInsert] at hy
      rcases hy with rfl | hy
      · intro he
        exact hnd.1 (List.mem_map.mpr ⟨x, hx, he.symm⟩)
      · exact hfresh x (List.mem_cons_of_mem _ hx) y hy
    · exact hnd.2

/-- from an empty buffer: the content is the stable insertion sort of the arrivals. -/
theorem adds_from_empty (m : Nat) (items : List Item) (hlen : items.length ≤ m)
    (hnd : (items.map (·.data)).Nodup) :
    (addAll (new m) items).buf = items.foldl stableInsert [] ∧
    ((addAll (new m) items).buf).Perm items := by
  have h := adds_are_stable_sort items (new m) List.Pairwise.nil (by simpa [new] using hlen)
    (by intro x _ y hy; simp [new] at hy) hnd
  have h' : (addAll (new m) items).buf = items.foldl stableInsert [] := h
  refine ⟨h', ?_⟩
  rw [h']
  have : ∀ (l acc : List Item), (l.foldl stableInsert acc).Perm (l.reverse ++ acc) := by
    intro l
    induction l with
    | nil => intro acc; simp
    | cons x xs ih =>
      intro acc
      refine (ih (stableInsert acc x)).trans ?_
      simp only [List.reverse_cons, List.append_assoc, List.singleton_append]
      exact List.Perm.append_left _ (stableInsert_perm acc x)
  have h2 := this items []
  rw [List.append_nil] at h2
  exact h2.trans (List.reverse_perm items)

example : (addAll (new 5) [⟨4, 1⟩, ⟨9, 2⟩, ⟨4, 3⟩, ⟨1, 4⟩]).buf = [⟨1, 4⟩, ⟨4, 1⟩, ⟨4, 3⟩, ⟨9, 2⟩] := by decide



/-- `Pop` until the buffer reports empty (at most `n` times). -/
def drain : Nat → OB → List Item
  | 0, _ => []
  | n + 1, b =>
    match pop b with
    | (b', some x) => x :: drain n b'
    | (_, none) => []

/-- popping a buffer dry hands out its content front to back. -/
theorem drain_all : ∀ (l : List Item) (m : Nat), drain l.length { max := m, buf := l } = l := by
  intro l
  induction l with
  | nil => intro m; rfl
  | cons x xs ih => intro m; simp only [List.length_cons, drain, pop]; rw [ih]

/-- **pop_sequence_is_stable_sort**: distinct blocks arriving in any order (within the capacity) are handed out by
`Pop` in non-decreasing round order, blocks of one round in arrival order, each exactly once. -/
theorem pop_sequence_is_stable_sort (m : Nat) (items : List Item) (hlen : items.length ≤ m)
    (hnd : (items.map (·.data)).Nodup) :
    let out := drain items.length (addAll (new m) items)
    out = items.foldl stableInsert [] ∧ out.Perm items ∧ Sorted out := by
  obtain ⟨h1, h2⟩ := adds_from_empty m items hlen hnd
  have hb : addAll (new m) items = { max := (addAll (new m) items).max, buf := (addAll (new m) items).buf } := rfl
  have hl : items.length = (addAll (new m) items).buf.length := h2.length_eq.symm
  intro out
  have ho : out = (addAll (new m) items).buf := by
    show drain items.length (addAll (new m) items) = _
    rw [hb, hl]; exact drain_all _ _
  have hsorted : Sorted (addAll (new m) items).buf := by
    have : ∀ (l : List Item) (b : OB), Sorted b.buf → Sorted (addAll b l).buf := by
      intro l
      induction l with
      | nil => intro b h; exact h
      | cons x xs ih => intro b h; exact ih _ (add_sorted b x.round x.data h)
    exact this items (new m) List.Pairwise.nil
  rw [ho]
  exact ⟨h1, h2, hsorted⟩

example : drain 4 (addAll (new 5) [⟨4, 1⟩, ⟨9, 2⟩, ⟨4, 3⟩, ⟨1, 4⟩]) = [⟨1, 4⟩, ⟨4, 1⟩, ⟨4, 3⟩, ⟨9, 2⟩] := by decide

/-- What the code does for ill-formed input (same data, different round): the second add is
swallowed. Stated for information; blocks never produce it because a block's identity fixes its round. -/
theorem repeat_ignores_round_illformed :
    (add (add (new 5) 5 42) 7 42).buf = [⟨5, 42⟩] := by decide

/-- Popping until empty yields rounds in non-decreasing order (corollary of the invariant). -/
theorem drain_sorted (b : OB) (hs : Sorted b.buf) :
    b.buf.Pairwise (fun a c => a.round ≤ c.round) := hs

/-! ### concurrent use
The sequential theorems above describe every *schedule* only if each method call is one atomic step.
That is a fact about the Go source, regenerated on every run by `harness/cmd/xc46` into
`Generated/C46.lean`: the mutex is an exclusive `sync.Mutex`, every exported method runs its whole body
between `mu.Lock()` and the deferred `mu.Unlock()`, and the only other method (`search`) never touches the
mutex and is unexported (it is called from `Add` under the lock). Given that, any concurrent history is
equivalent to the sequential history in lock-acquisition order (linearizability by mutual exclusion), and
`reachable_inv`, `pop_is_min`, … apply to it. The harness additionally stress-runs concurrent producers and
consumers against the real buffer (a search, not a proof). -/
open ZChain.Generated.C46 in
theorem methods_atomic :
    mutexType = "sync.Mutex" ∧
    (∀ m ∈ methods, m.2.1 = true → m.2.2.1 = true) ∧
    (∀ m ∈ methods, m.2.1 = false → m.2.2.2 = false) ∧
    (methods.map (·.1)) = ["Add", "First", "Pop", "search"] := by decide

-- non-vacuity: a concrete non-trivial reachable state satisfies the hypotheses used above
example : Inv (run (new 3) [.add 5 1, .add 2 2, .add 9 3, .add 4 4, .pop]) := (reachable_inv 3 _).1
example : (run (new 3) [.add 5 1, .add 2 2, .add 9 3, .add 4 4]).buf = [⟨2, 2⟩, ⟨4, 4⟩, ⟨5, 1⟩] := by decide
example : isRepeat [⟨2, 2⟩, ⟨4, 4⟩] (search [⟨2, 2⟩, ⟨4, 4⟩] 4) 4 = true := by decide

end ZChain.OrderBuffer
