import ZChain.Proofs.Reduce
/-!
# C39 — View-change node selection is exact and stake-ordered

Property theorems about `Model/Reduce.reduceN` (= `SimpleNodes.reduce`, smartcontract/minersc/models.go:127),
tied to the real method on every run by `harness/cmd/c39` (hook `harness/hooks/minersc_c39.go`).

`q` stands for `int(math.Ceil(xPercent*float64(maxNodes)))`; for a percentage `0 ≤ xPercent ≤ 1` it lies in
`0..maxNodes` (hypothesis `q ≤ min limit cs.length`; `Model/Reduce.quota` computes it from the bit pattern and the
correspondence run compares it with Go's float arithmetic). `perms k` is `rand.Perm(k)` of the call's seed; the
theorems assume of it only that it is a permutation of `0..k-1` (`ValidPerms`).
-/
namespace ZChain.Reduce

/-- what is assumed of Go's `rand.Perm`: `perms k` is a permutation of `0, …, k-1`. -/
def ValidPerms (perms : Nat → List Nat) : Prop := ∀ k, (perms k).Perm (List.range k)

/-! ## the three branches of `reduce` -/

theorem reduceN_maxNodes (cs : List Node) (limit q : Nat) (inPrev : Nat → Bool) (perms : Nat → List Nat) :
    (reduceN cs limit q inPrev perms).maxNodes = min limit cs.length := by
  unfold reduceN; simp only; split
  · rfl
  · split <;> rfl

theorem quota_rest_length (cs : List Node) (inPrev : Nat → Bool) (q : Nat) :
    quotaSize cs inPrev q + (restSorted cs inPrev q).length = cs.length := by
  have := (quota_rest_perm cs inPrev q).length_eq
  rw [List.length_append, quotaNodes_length] at this
  exact this

/-- **exact size**: the selection has exactly `min(limit, #candidates)` members (and that number is returned). -/
theorem reduce_card (cs : List Node) (limit q : Nat) (inPrev : Nat → Bool) (perms : Nat → List Nat)
    (hq : q ≤ min limit cs.length) (hp : ValidPerms perms) :
    (reduceN cs limit q inPrev perms).selected.length = min limit cs.length ∧
    (reduceN cs limit q inPrev perms).maxNodes = min limit cs.length := by
  refine ⟨?_, reduceN_maxNodes ..⟩
  have hlen := quota_rest_length cs inPrev q
  have hxq : quotaSize cs inPrev q ≤ q := by unfold quotaSize; omega
  by_cases hA : quotaSize cs inPrev q ≤ min limit cs.length ∧
      (restSorted cs inPrev q).length ≤ min limit cs.length - quotaSize cs inPrev q
  · unfold reduceN; simp only [hA, and_self, ↓reduceIte, List.length_append, quotaNodes_length]; omega
  · by_cases hB : quotaSize cs inPrev q < min limit cs.length
    · have hR : min limit cs.length - quotaSize cs inPrev q < (restSorted cs inPrev q).length := by omega
      obtain ⟨hsel, h1, h2⟩ := reduceN_tie_closed cs limit q inPrev perms _ rfl _ rfl _ rfl _ rfl hB hR
      rw [hsel]
      simp only [List.length_append, List.length_map, List.length_take, quotaNodes_length]
      rw [(hp _).length_eq, List.length_range]
      omega
    · unfold reduceN; simp only [hA, hB, ↓reduceIte, quotaNodes_length]; omega

/-- the selection is a duplicate-free subset of the candidates. -/
theorem reduce_subset_nodup (cs : List Node) (limit q : Nat) (inPrev : Nat → Bool) (perms : Nat → List Nat)
    (hn : cs.Nodup) (hp : ValidPerms perms) :
    (reduceN cs limit q inPrev perms).selected.Nodup ∧
    ∀ a ∈ (reduceN cs limit q inPrev perms).selected, a ∈ cs := by
  have hperm := quota_rest_perm cs inPrev q
  have hnQR : (quotaNodes cs inPrev q ++ restSorted cs inPrev q).Nodup := hperm.symm.nodup hn
  obtain ⟨hnQ, hnR, hdis⟩ := List.nodup_append.mp hnQR
  by_cases hA : quotaSize cs inPrev q ≤ min limit cs.length ∧
      (restSorted cs inPrev q).length ≤ min limit cs.length - quotaSize cs inPrev q
  · have : (reduceN cs limit q inPrev perms).selected = quotaNodes cs inPrev q ++ restSorted cs inPrev q := by
      unfold reduceN; simp only [hA, and_self, ↓reduceIte]
    rw [this]; exact ⟨hnQR, fun a ha => hperm.subset ha⟩
  · by_cases hB : quotaSize cs inPrev q < min limit cs.length
    · have hR : min limit cs.length - quotaSize cs inPrev q < (restSorted cs inPrev q).length := by
        have := quota_rest_length cs inPrev q; omega
      obtain ⟨hsel, h1, h2⟩ := reduceN_tie_closed cs limit q inPrev perms _ rfl _ rfl _ rfl _ rfl hB hR
      rw [hsel]
      have hsorted : StakeSorted (restSorted cs inPrev q) := (restSorted_sorted cs inPrev q).stakeSorted
      generalize (restSorted cs inPrev q) = R at *
      generalize ((R.getD (min limit cs.length - quotaSize cs inPrev q - 1) default).stake) = t at *
      have hsplit := stakeSorted_split t R hsorted
      have hnS : (hiOf t R ++ eqOf t R ++ loOf t R).Nodup := by rw [← hsplit]; exact hnR
      obtain ⟨hnHE, _, _⟩ := List.nodup_append.mp hnS
      obtain ⟨hnH, hnE, hdisHE⟩ := List.nodup_append.mp hnHE
      have hpk := hp (eqOf t R).length
      have hpm := picks_mem _ _ hpk (min limit cs.length - quotaSize cs inPrev q - (hiOf t R).length)
      have hpn := picks_nodup _ _ hpk (min limit cs.length - quotaSize cs inPrev q - (hiOf t R).length) hnE
      generalize (List.map (fun j => (eqOf t R).getD j default)
        (List.take (min limit cs.length - quotaSize cs inPrev q - (hiOf t R).length)
          (perms (eqOf t R).length))) = picks at *
      have hHR : ∀ a ∈ hiOf t R, a ∈ R := fun a ha => (mem_hiOf.mp ha).1
      have hPR : ∀ a ∈ picks, a ∈ R := fun a ha => (mem_eqOf.mp (hpm a ha)).1
      constructor
      · rw [List.append_assoc]
        refine List.nodup_append.mpr ⟨hnQ, List.nodup_append.mpr ⟨hnH, hpn, ?_⟩, ?_⟩
        · intro a ha b hb; exact hdisHE a ha b (hpm b hb)
        · intro a ha b hb
          rcases List.mem_append.mp hb with hb | hb
          · exact hdis a ha b (hHR b hb)
          · exact hdis a ha b (hPR b hb)
      · intro a ha
        apply hperm.subset
        rcases List.mem_append.mp ha with ha | ha
        · rcases List.mem_append.mp ha with ha | ha
          · exact List.mem_append_left _ ha
          · exact List.mem_append_right _ (hHR a ha)
        · exact List.mem_append_right _ (hPR a ha)
    · have : (reduceN cs limit q inPrev perms).selected = quotaNodes cs inPrev q := by
        unfold reduceN; simp only [hA, hB, ↓reduceIte]
      rw [this]
      exact ⟨hnQ, fun a ha => hperm.subset (List.mem_append_left _ ha)⟩

/-- the quota (`pmbNodes[:x]`) is part of every selection. -/
theorem quota_subset_selected (cs : List Node) (limit q : Nat) (inPrev : Nat → Bool) (perms : Nat → List Nat) :
    ∀ a ∈ quotaNodes cs inPrev q, a ∈ (reduceN cs limit q inPrev perms).selected := by
  intro a ha
  unfold reduceN
  simp only
  split
  · exact List.mem_append_left _ ha
  · split
    · rw [pickLoop_eq]
      exact List.mem_append_left _ (List.mem_append_left _ ha)
    · exact ha

/-- **previous-set quota**: the selection contains `x = min(#previous members among the candidates, q)`
previous-set members, namely `x` of them with the highest stakes: no previous member outside the quota is
strictly before (higher stake, or equal stake and smaller id) one inside it. -/
theorem reduce_prev_quota (cs : List Node) (limit q : Nat) (inPrev : Nat → Bool) (perms : Nat → List Nat) :
    let Q := quotaNodes cs inPrev q
    (∀ a ∈ Q, a ∈ (reduceN cs limit q inPrev perms).selected) ∧
    Q.length = min (cs.filter fun n => inPrev n.id).length q ∧
    (∀ a ∈ Q, a ∈ cs ∧ inPrev a.id = true) ∧
    (∀ a ∈ Q, ∀ b ∈ cs, inPrev b.id = true → b ∉ Q → before b a = false ∧ b.stake ≤ a.stake) := by
  intro Q
  have hpm := pmbSorted_perm cs inPrev
  refine ⟨quota_subset_selected cs limit q inPrev perms, ?_, ?_, ?_⟩
  · show (quotaNodes cs inPrev q).length = _
    rw [quotaNodes_length]; unfold quotaSize; rw [hpm.length_eq]
  · intro a ha
    have : a ∈ pmbSorted cs inPrev := List.mem_of_mem_take ha
    have := hpm.subset this
    simpa using this
  · intro a ha b hb hbp hbQ
    have hbP : b ∈ pmbSorted cs inPrev := hpm.symm.subset (by simp [hb, hbp])
    have hs : Sorted (pmbSorted cs inPrev) := isort_sorted _
    rw [← List.take_append_drop (quotaSize cs inPrev q) (pmbSorted cs inPrev)] at hbP hs
    rcases List.mem_append.mp hbP with h | h
    · exact absurd h hbQ
    · have := (List.pairwise_append.mp hs).2.2 a ha b h
      exact ⟨this, not_before_stake this⟩

/-- **stake order**: a candidate left out never has more stake than a selected one outside the quota. -/
theorem reduce_stake_ordered (cs : List Node) (limit q : Nat) (inPrev : Nat → Bool) (perms : Nat → List Nat)
    (hp : ValidPerms perms)
    (c : Node) (hc : c ∈ cs) (hcs : c ∉ (reduceN cs limit q inPrev perms).selected)
    (d : Node) (hd : d ∈ (reduceN cs limit q inPrev perms).selected) (hdq : d ∉ quotaNodes cs inPrev q) :
    c.stake ≤ d.stake := by
  have hperm := quota_rest_perm cs inPrev q
  have hcQ : c ∉ quotaNodes cs inPrev q := fun h => hcs (quota_subset_selected cs limit q inPrev perms c h)
  have hcR : c ∈ restSorted cs inPrev q := by
    rcases List.mem_append.mp (hperm.symm.subset hc) with h | h
    · exact absurd h hcQ
    · exact h
  by_cases hA : quotaSize cs inPrev q ≤ min limit cs.length ∧
      (restSorted cs inPrev q).length ≤ min limit cs.length - quotaSize cs inPrev q
  · exfalso; apply hcs
    unfold reduceN; simp only [hA, and_self, ↓reduceIte]
    exact List.mem_append_right _ hcR
  · by_cases hB : quotaSize cs inPrev q < min limit cs.length
    · have hR : min limit cs.length - quotaSize cs inPrev q < (restSorted cs inPrev q).length := by
        have := quota_rest_length cs inPrev q; omega
      obtain ⟨hsel, h1, h2⟩ := reduceN_tie_closed cs limit q inPrev perms _ rfl _ rfl _ rfl _ rfl hB hR
      rw [hsel] at hd hcs
      generalize (restSorted cs inPrev q) = R at *
      generalize ((R.getD (min limit cs.length - quotaSize cs inPrev q - 1) default).stake) = t at *
      -- d is above or at the cut-off stake
      have hdt : t ≤ d.stake := by
        rcases List.mem_append.mp hd with hd | hd
        · rcases List.mem_append.mp hd with hd | hd
          · exact absurd hd hdq
          · have := (mem_hiOf.mp hd).2; omega
        · have := (mem_eqOf.mp (picks_mem _ _ (hp _) _ d hd)).2; omega
      -- c is not selected, hence not above the cut-off stake
      by_cases hct : c.stake ≤ t
      · omega
      · exfalso; apply hcs
        exact List.mem_append_left _ (List.mem_append_right _ (mem_hiOf.mpr ⟨hcR, by omega⟩))
    · exfalso; apply hdq
      have : (reduceN cs limit q inPrev perms).selected = quotaNodes cs inPrev q := by
        unfold reduceN; simp only [hA, hB, ↓reduceIte]
      rw [this] at hd; exact hd

/-- **deterministic**: `reduce` is a function of the candidate *set* — the order in which Go's map
iteration presents the candidates does not matter (and identical inputs give identical results). -/
theorem reduce_order_irrelevant (cs₁ cs₂ : List Node) (h : cs₁.Perm cs₂) (limit q : Nat) (inPrev : Nat → Bool)
    (perms : Nat → List Nat) :
    reduceN cs₁ limit q inPrev perms = reduceN cs₂ limit q inPrev perms := by
  have hp : pmbSorted cs₁ inPrev = pmbSorted cs₂ inPrev := isort_eq_of_perm (h.filter _)
  have hx : quotaSize cs₁ inPrev q = quotaSize cs₂ inPrev q := by unfold quotaSize; rw [hp]
  have hQ : quotaNodes cs₁ inPrev q = quotaNodes cs₂ inPrev q := by unfold quotaNodes; rw [hp, hx]
  have hR : restSorted cs₁ inPrev q = restSorted cs₂ inPrev q := by
    unfold restSorted
    rw [hp, hx]
    exact isort_eq_of_perm (List.Perm.append_right _ (h.filter _))
  unfold reduceN
  rw [hx, hQ, hR, h.length_eq]

/-! ## ties at the cut-off stake -/

/-- The selection the property describes when there are more remaining candidates than free places:
the quota, every remaining candidate with more than the cut-off stake, and — among ALL candidates tied at
the cut-off stake (in id order) — those at the first positions of the seed's permutation. -/
def seedOnlySelection (cs : List Node) (limit q : Nat) (inPrev : Nat → Bool) (perms : Nat → List Nat) : List Node :=
  let R := restSorted cs inPrev q
  let y := min limit cs.length - quotaSize cs inPrev q
  let t := (R.getD (y - 1) default).stake
  quotaNodes cs inPrev q ++ hiOf t R ++
    ((perms (eqOf t R).length).take (y - (hiOf t R).length)).map (fun j => (eqOf t R).getD j default)

/-- the condition of the tie branch: free places remain (`y > 0`) and do not suffice for all the rest. -/
def TieBranch (cs : List Node) (limit q : Nat) (inPrev : Nat → Bool) : Prop :=
  quotaSize cs inPrev q < min limit cs.length ∧
  min limit cs.length - quotaSize cs inPrev q < (restSorted cs inPrev q).length

instance (cs : List Node) (limit q : Nat) (inPrev : Nat → Bool) : Decidable (TieBranch cs limit q inPrev) := by
  unfold TieBranch; exact inferInstance

/-- **tie_choice_seed_only** (full statement; provable since commit 51a7e0c, before it the tie range was taken to start
at index 1 when it started at index 0 and the smallest id was always kept): whenever free places remain and do not
suffice for all remaining candidates, the selection is the quota, every remaining candidate above the cut-off stake,
and — among ALL candidates tied at the cut-off stake — those at the first positions of the seed's permutation. Which of
the tied candidates are chosen therefore depends on the seed only (through `perms`), never on their ids. -/
theorem tie_choice_seed_only (cs : List Node) (limit q : Nat) (inPrev : Nat → Bool) (perms : Nat → List Nat)
    (hb : TieBranch cs limit q inPrev) :
    (reduceN cs limit q inPrev perms).selected = seedOnlySelection cs limit q inPrev perms := by
  obtain ⟨hB, hR⟩ := hb
  exact (reduceN_tie_closed cs limit q inPrev perms _ rfl _ rfl _ rfl _ rfl hB hR).1

/-- the positions chosen among the tied candidates are the first `k` entries of the permutation, whatever the
candidates' ids are: relabelling the tied candidates (any list of the same length in their place) leaves the chosen
positions unchanged. -/
theorem tie_positions_from_seed_only (cs : List Node) (limit q : Nat) (inPrev : Nat → Bool) (perms : Nat → List Nat)
    (hb : TieBranch cs limit q inPrev) :
    let R := restSorted cs inPrev q
    let y := min limit cs.length - quotaSize cs inPrev q
    let t := (R.getD (y - 1) default).stake
    ∃ chosen : List Node,
      (reduceN cs limit q inPrev perms).selected = quotaNodes cs inPrev q ++ hiOf t R ++ chosen ∧
      chosen = ((perms (eqOf t R).length).take (y - (hiOf t R).length)).map (fun j => (eqOf t R).getD j default) ∧
      (hiOf t R).length < y ∧ y ≤ (hiOf t R).length + (eqOf t R).length := by
  obtain ⟨hB, hR⟩ := hb
  obtain ⟨hsel, h1, h2⟩ := reduceN_tie_closed cs limit q inPrev perms _ rfl _ rfl _ rfl _ rfl hB hR
  exact ⟨_, hsel, rfl, h1, h2⟩

/-! ### the former negation witness, now an instance of the theorem -/

/-- six candidates of equal stake, no previous set. -/
def eq6 : List Node := [⟨0, 10⟩, ⟨1, 10⟩, ⟨2, 10⟩, ⟨3, 10⟩, ⟨4, 10⟩, ⟨5, 10⟩]

/-- a legitimate permutation table: `perms k = [k-1, …, 1, 0]`. -/
def revPerms (k : Nat) : List Nat := (List.range k).reverse

theorem revPerms_valid : ValidPerms revPerms := fun k => List.reverse_perm _

/-- six equally staked candidates, three places, permutation `[5,4,3,2,1,0]` of all six: ids 5, 4, 3 are chosen
(before commit 51a7e0c the code returned 0, 5, 4: the tie range started at index 1). -/
theorem tie_range_at_index_0 :
    TieBranch eq6 3 0 (fun _ => false) ∧ ValidPerms revPerms ∧
    (reduceN eq6 3 0 (fun _ => false) revPerms).selected.map (·.id) = [5, 4, 3] ∧
    (reduce eq6 3 0x3fd6666666666666 (fun _ => false) revPerms).map (·.map fun r => r.selected.map (·.id))
      = some (some [5, 4, 3]) := by
  refine ⟨by decide, revPerms_valid, by decide, by decide⟩

/-! ### non-vacuity and samples -/

-- the theorem's hypothesis is met by concrete non-trivial calls (tie range at index 0 above; here at index 1)
example : TieBranch (⟨9, 20⟩ :: eq6) 3 0 (fun _ => false) := by decide
example : (reduceN (⟨9, 20⟩ :: eq6) 3 0 (fun _ => false) revPerms).selected.map (·.id) = [9, 5, 4] := by decide
-- a call with a previous set, a quota of 2 of its 3 members, ties inside and outside it
example : (reduceN [⟨1, 5⟩, ⟨2, 5⟩, ⟨3, 5⟩, ⟨4, 7⟩, ⟨5, 5⟩, ⟨6, 5⟩, ⟨7, 1⟩] 4 2 (fun i => i ≤ 3) revPerms).selected.map (·.id)
    = [1, 2, 4, 6] := by decide
-- 0.28 * 25 is 7.000000000000001 in binary64: the quota is 8, not 7; 0.7 * 10 = 7 exactly
example : quota 0x3fd1eb851eb851ec 25 = some 8 := by decide
example : quota 0x3fe6666666666666 10 = some 7 := by decide
-- a percentage above 1 breaks exactness: the quota exceeds maxNodes and all previous members are taken
example : (reduceN [⟨1, 5⟩, ⟨2, 5⟩, ⟨3, 5⟩] 2 3 (fun _ => true) revPerms).selected.length = 3 := by decide

end ZChain.Reduce
