import ZChain.Proofs.RoundBlocks
import ZChain.Proofs.NodePools
/-!
# C35 — Generator ranking and per-round notarized blocks are consistent

"All nodes with the same round seed and miner set compute the same ranking of miners, and it is a permutation independent
of the order miners were added. A round keeps at most one notarized block per rank, ordered from heaviest to lightest,
and updating a notarized block replaces it with the given block."

Statements about `Model/NodePool.lean` + `Model/RoundBlocks.lean`, tied to `chaincore/node/node_pool.go`,
`chaincore/round/entity.go`, `chain.SetRandomSeed/IsRoundGenerator/GetGenerators` by `harness/cmd/c35`.
The permutation `rand.New(rand.NewSource(seed)).Perm(n)` is an argument (`perm`); the harness passes (and checks) what
Go's seeded generator produces. Determinism of that generator w.r.t. the seed is Go's.

The last clause — after `UpdateNotarizedBlock(b)` the notarized entry with `b.Hash` IS `b` — is `update_replaces`; it was
false of the code before repo commit 1ab8ea2 (the loop stored the entry it had just read; finding
C35:update-does-not-replace, now fixed): `update_replaces_repaired` is the former failing history. With the replacement
in place, "one block per rank, heaviest first" survives an update because a block's hash determines its rank
(`HashRank`, an assumption on the block objects: `update_illformed_breaks_order` shows it is needed).
-/
namespace ZChain.RoundBlocks
open ZChain.NodePool

/-! ## ranking -/

/-- the rank vector of a pool of `n` miners (by `SetIndex`). -/
def rankVector (r : Ranks) (n : Nat) : List Int := (List.range n).map (getMinerRank r)

/-- **ranks_permutation**: once a seed is set for a pool of `n` miners, the rank vector IS the permutation drawn for
the seed — so every rank `0..n-1` is held by exactly one miner. -/
theorem ranks_permutation (r : Ranks) (p : List Int) (hp : r.perm = some p) :
    rankVector r p.length = p ∧
    ∀ (n : Nat), p.Perm ((List.range n).map Int.ofNat) →
      (rankVector r p.length).Perm ((List.range n).map Int.ofNat) ∧ (rankVector r p.length).Nodup := by
  have hv : rankVector r p.length = p := by
    unfold rankVector
    apply List.ext_getElem
    · simp
    · intro i h1 h2
      simp only [List.getElem_map, List.getElem_range]
      unfold getMinerRank
      rw [hp]
      have : ¬ i ≥ p.length := by omega
      simp only [this, if_false]
      rw [← List.getElem_eq_getD (h := h2)]
  refine ⟨hv, ?_⟩
  intro n hperm
  rw [hv]
  refine ⟨hperm, ?_⟩
  have hnd : ((List.range n).map Int.ofNat).Nodup := by
    unfold List.Nodup; rw [List.pairwise_map]
    exact (List.nodup_range (n := n)).imp (fun hab e => hab (Int.ofNat.inj e))
  exact hperm.nodup_iff.mpr hnd

/-- **same_inputs_same_ranks / positions_order_independent**: two nodes that added the same miners in any order (with
any repetitions) hold the same pool, give every miner the same `SetIndex`, and — with the same seed, i.e. the same
`Ranks` — the same rank and the same generator decision. -/
theorem same_inputs_same_ranks (l1 l2 : List Node) (hwf : WellFormed l1) (h : ∀ x, x ∈ l1 ↔ x ∈ l2)
    (r : Ranks) (key : Nat) (g : Int) :
    poolOf l1 = poolOf l2 ∧
    setIndexOf (poolOf l1) key = setIndexOf (poolOf l2) key ∧
    (setIndexOf (poolOf l1) key).map (getMinerRank r) = (setIndexOf (poolOf l2) key).map (getMinerRank r) ∧
    (setIndexOf (poolOf l1) key).map (fun i => isRoundGenerator r i g)
      = (setIndexOf (poolOf l2) key).map (fun i => isRoundGenerator r i g) ∧
    getMinersByRank r (poolOf l1).length = getMinersByRank r (poolOf l2).length := by
  rw [poolOf_order_independent l1 l2 hwf h]
  exact ⟨rfl, rfl, rfl, rfl, rfl⟩

/-- `SetRandomSeed` keeps the first seed (a second call is ignored); `SetRandomSeedForNotarizedBlock` always takes the
given one. -/
theorem setRandomSeed_once (r : Ranks) (s1 s2 : Int) (p1 p2 : List Int) (h1 : r.seed = 0) (h2 : s1 ≠ 0) :
    setRandomSeed (setRandomSeed r s1 p1) s2 p2 = setRandomSeed r s1 p1 ∧
    (setRandomSeed r s1 p1).perm = some p1 ∧
    (setRandomSeedNB (setRandomSeed r s1 p1) s2 p2).perm = some p2 := by
  simp [setRandomSeed, setRandomSeedNB, h1, h2]

/-! ## miners as shared node objects (`SetIndex` lives on the `*Node` object) -/

open ZChain.NodePools in
/-- right after an `AddNode` to pool `p` (distinct, existing objects), every node object of `p` carries its position in
`p` as `SetIndex` — so `ranks_permutation` applies to the pool as it is then. -/
theorem addNodeW_positions (w : World) (p o : Nat)
    (hnd : (poolNodes (addNodeW w p o) p).Nodup)
    (hk : ∀ x ∈ poolNodes (addNodeW w p o) p, (objGet w.objs x).isSome) :
    (poolNodes (addNodeW w p o) p).map (fun x => (getObj (addNodeW w p o) x).setIndex)
      = List.range (poolNodes (addNodeW w p o) p).length := by
  have hobjs : (addNodeW w p o).objs = assign (poolNodes (addNodeW w p o) p) 0 w.objs := by
    unfold addNodeW poolNodes
    simp only [poolGet_poolSet, if_true]
  have := assign_positions (poolNodes (addNodeW w p o) p) 0 w.objs hnd hk
  unfold getObj
  rw [hobjs]
  simpa using this

/-- **FULL statement "the ranking is a permutation" is false when a miner's node object is shared with another pool**
(finding `C35:stale-setindex-of-shared-node-object`): miners `a < b` as objects 1, 2 in pool 0; object 2 is then also
added to pool 2, which renumbers it to 0. Both miners now read rank `perm[0]`. Proved instead (`_partial`):
`ranks_permutation` for objects that carry their positions, which `addNodeW_positions` gives right after any `AddNode`
to the miner pool (in particular for node objects that belong to one pool only, as `minersc` builds them). -/
theorem ranks_shared_object_fails :
    let w0 := ZChain.NodePools.newObj (ZChain.NodePools.newObj ZChain.NodePools.emptyWorld 1 ⟨5, [5]⟩) 2 ⟨9, [9]⟩
    let w := [(0, 2), (0, 1), (2, 2)].foldl (fun w po => ZChain.NodePools.addNodeW w po.1 po.2) w0
    let r : Ranks := { perm := some [0, 1], seed := 7 }
    ZChain.NodePools.poolNodes w 0 = [1, 2] ∧
    (ZChain.NodePools.poolNodes w 0).map (fun o => getMinerRank r (ZChain.NodePools.getObj w o).setIndex) = [0, 0] ∧
    -- touching the miner pool again (any AddNode) puts the indices right
    (let w' := ZChain.NodePools.addNodeW w 0 1
     (ZChain.NodePools.poolNodes w' 0).map (fun o => getMinerRank r (ZChain.NodePools.getObj w' o).setIndex) = [0, 1]) := by
  decide

/-! ## notarized blocks -/

/-- at most one block per rank and heaviest first: ranks strictly ascending (weights strictly descending); no hash
twice. -/
def NInv (s : St) : Prop :=
  s.notarized.Pairwise (fun a b => (obj s a).rank < (obj s b).rank) ∧
  s.notarized.Pairwise (fun a b => (obj s a).hash ≠ (obj s b).hash)

/-- ranks for which float64 weights `2^-rank` are pairwise different. -/
def InDomain (s : St) : Prop := ∀ o, 0 ≤ (obj s o).rank ∧ (obj s o).rank ≤ 1074

theorem ninv_congr (s s' : St) (hn : s'.notarized = s.notarized) (hh : ∀ o, hr s' o = hr s o) (h : NInv s) :
    NInv s' := by
  have hr1 : ∀ o, (obj s' o).rank = (obj s o).rank := fun o => congrArg Prod.snd (hh o)
  have hh1 : ∀ o, (obj s' o).hash = (obj s o).hash := fun o => congrArg Prod.fst (hh o)
  unfold NInv
  rw [hn]
  exact ⟨h.1.imp (fun {a b} hab => by rw [hr1, hr1]; exact hab),
         h.2.imp (fun {a b} hab => by rw [hh1, hh1]; exact hab)⟩

theorem addProposed_frame (s : St) (o : Nat) :
    (addProposed s o).heap = s.heap ∧ (addProposed s o).notarized = s.notarized ∧
    (addProposed s o).block = s.block := by
  unfold addProposed
  split <;> exact ⟨rfl, rfl, rfl⟩

theorem obj_heap {s s' : St} (h : s'.heap = s.heap) (o : Nat) : obj s' o = obj s o := by
  unfold obj; rw [h]

theorem hr_heap2 (s1 : St) (p o : Nat) (t1 t2 : List Nat) (o' : Nat) :
    hr { s1 with heap := heapSetTickets (heapSetTickets s1.heap p t1) o t2 } o' = hr s1 o' := by
  have e1 := hr_setTickets s1 _ p t1 o' rfl
  have e2 := hr_setTickets { s1 with heap := heapSetTickets s1.heap p t1 } _ o t2 o' rfl
  rw [← e1, ← e2]

/-- hash and rank of every object are untouched by `AddNotarizedBlock` (only tickets are merged). -/
theorem addNotarized_hr (s : St) (o o' : Nat) : hr (addNotarized s o) o' = hr s o' := by
  obtain ⟨fh, _, _⟩ := addProposed_frame s o
  have h1 : ∀ x, hr (addProposed s o) x = hr s x := fun x => by unfold hr; rw [obj_heap fh]
  unfold addNotarized
  simp only
  cases hsc : scanN (addProposed s o) o (addProposed s o).notarized 0 none with
  | mk dup found =>
    cases dup with
    | none => simp only; rw [← h1]; unfold hr obj; rfl
    | some p =>
      simp only
      by_cases hp : p ≠ o
      · rw [if_pos hp, ← h1]
        exact hr_heap2 (addProposed s o) p o _ _ o'
      · rw [if_neg hp]; exact h1 o'

/-- **one_block_per_rank / sorted_by_weight** (one step): `AddNotarizedBlock` keeps "ranks strictly ascending, no hash
twice". -/
theorem addNotarized_inv (s : St) (o : Nat) (hd : InDomain s) (h : NInv s) : NInv (addNotarized s o) := by
  obtain ⟨fh, fn, _⟩ := addProposed_frame s o
  have ho : ∀ x, obj (addProposed s o) x = obj s x := obj_heap fh
  cases hsc : scanN (addProposed s o) o (addProposed s o).notarized 0 none with
  | mk dup found =>
    cases dup with
    | some p =>
      -- the hash is already there: the list is left alone (tickets are merged)
      apply ninv_congr s _ _ (fun x => addNotarized_hr s o x) h
      unfold addNotarized
      simp only [hsc]
      split <;> exact fn
    | none =>
      have hdist : RanksDistinct (addProposed s o) (addProposed s o).notarized := by
        unfold RanksDistinct; rw [fn]
        exact h.1.imp (fun {a b} hab => by rw [ho, ho]; exact Int.ne_of_lt hab)
      obtain ⟨hnh, hnone, hsome⟩ := scanN_none _ o _ 0 none found hsc hdist
      rw [fn] at hnh hnone hsome
      simp only [ho] at hnh hnone hsome
      -- the list before the append: nothing of o's rank, nothing of o's hash, still ascending
      have hnb : ∃ nb : List Nat, eraseFound (addProposed s o).notarized found = nb ∧ nb.Sublist s.notarized ∧
            ∀ x ∈ nb, (obj s x).rank ≠ (obj s o).rank := by
        rw [fn]
        by_cases hex : ∃ k, ∃ (hk : k < s.notarized.length), (obj s s.notarized[k]).rank = (obj s o).rank
        · obtain ⟨k, hk, hkr⟩ := hex
          have hf := hsome k hk hkr
          rw [hf]
          refine ⟨_, rfl, by simpa [eraseFound] using List.eraseIdx_sublist s.notarized k, ?_⟩
          intro x hx
          simp only [Nat.zero_add, eraseFound] at hx
          obtain ⟨j, hj, hjk, rfl⟩ := (List.mem_eraseIdx_iff_getElem).mp hx
          rw [← hkr]
          have hpw := List.pairwise_iff_getElem.mp h.1
          rcases Nat.lt_or_gt_of_ne hjk with hlt | hgt
          · exact Int.ne_of_lt (hpw j k hj hk hlt)
          · exact fun e => Int.ne_of_lt (hpw k j hk hj hgt) e.symm
        · have hall : ∀ x ∈ s.notarized, (obj s x).rank ≠ (obj s o).rank := by
            intro x hx e
            obtain ⟨k, hk, rfl⟩ := List.mem_iff_getElem.mp hx
            exact hex ⟨k, hk, e⟩
          rw [hnone hall]
          exact ⟨_, rfl, by simp [eraseFound], hall⟩
      obtain ⟨nb, hnbeq, hsub, hnr⟩ := hnb
      have hnhb : ∀ x ∈ nb, (obj s x).hash ≠ (obj s o).hash := fun x hx => hnh x (hsub.subset hx)
      -- the result
      have hres : (addNotarized s o).notarized
          = sortStable (fun a b => decide (weightKey (obj s a).rank < weightKey (obj s b).rank)) (nb ++ [o]) := by
        unfold addNotarized
        simp only [hsc, hnbeq]
        congr 1
        funext a b; rw [ho, ho]
      have hheap : ∀ x, obj (addNotarized s o) x = obj s x := by
        intro x
        apply obj_heap
        unfold addNotarized; simp only [hsc]; exact fh
      unfold NInv
      simp only [hheap]
      rw [hres]
      have hperm := sortStable_perm (fun a b => decide (weightKey (obj s a).rank < weightKey (obj s b).rank)) (nb ++ [o])
      have hrd : (nb ++ [o]).Pairwise (fun a b => (obj s a).rank ≠ (obj s b).rank) := by
        rw [List.pairwise_append]
        refine ⟨(List.Pairwise.sublist hsub h.1).imp (fun hab => Int.ne_of_lt hab), by simp, ?_⟩
        intro a ha b hb; simp only [List.mem_singleton] at hb; subst hb; exact hnr a ha
      have hhd : (nb ++ [o]).Pairwise (fun a b => (obj s a).hash ≠ (obj s b).hash) := by
        rw [List.pairwise_append]
        refine ⟨List.Pairwise.sublist hsub h.2, by simp, ?_⟩
        intro a ha b hb; simp only [List.mem_singleton] at hb; subst hb; exact hnhb a ha
      refine ⟨?_, hperm.symm.pairwise hhd (fun hab => fun e => hab e.symm)⟩
      have hsorted := sortStable_sorted_key (fun a => weightKey (obj s a).rank) (nb ++ [o])
      have hrd' := hperm.symm.pairwise hrd (fun hab => fun e => hab e.symm)
      apply (List.Pairwise.and hsorted hrd').imp
      intro a b ⟨h1, h2⟩
      rw [weightKey_dom (hd a).1 (hd a).2, weightKey_dom (hd b).1 (hd b).2] at h1
      have := (hd a).1; have := (hd b).1
      omega

/-- a block's hash determines its rank (two objects with the same hash are copies of the same block). -/
def HashRank (s : St) : Prop := ∀ a b, (obj s a).hash = (obj s b).hash → (obj s a).rank = (obj s b).rank

theorem update_heap (s : St) (o : Nat) : (updateNotarized s o).heap = s.heap := rfl

/-- **update_replaces** (full strength): after `UpdateNotarizedBlock b`, every notarized entry with `b`'s hash IS `b`
(the object handed in), every other entry is untouched, and the list keeps its length and positions. -/
theorem update_replaces (s : St) (o : Nat) :
    (∀ p ∈ (updateNotarized s o).notarized, (obj s p).hash = (obj s o).hash → p = o) ∧
    (updateNotarized s o).notarized = s.notarized.map (fun p => if (obj s p).hash = (obj s o).hash then o else p) ∧
    (∀ p ∈ s.notarized, (obj s p).hash ≠ (obj s o).hash → p ∈ (updateNotarized s o).notarized) ∧
    ((∃ p ∈ s.notarized, (obj s p).hash = (obj s o).hash) → o ∈ (updateNotarized s o).notarized) := by
  refine ⟨?_, rfl, ?_, ?_⟩
  · intro p hp hh
    unfold updateNotarized at hp
    simp only [List.mem_map] at hp
    obtain ⟨q, _, hq⟩ := hp
    by_cases hc : (obj s q).hash = (obj s o).hash
    · simp only [hc, if_true] at hq; exact hq.symm
    · simp only [hc, if_false] at hq; subst hq; exact absurd hh hc
  · intro p hp hne
    unfold updateNotarized
    simp only [List.mem_map]
    exact ⟨p, hp, by simp [hne]⟩
  · rintro ⟨p, hp, he⟩
    unfold updateNotarized
    simp only [List.mem_map]
    exact ⟨p, hp, by simp [he]⟩

/-- the invariants survive an update when a hash determines the rank. -/
theorem update_inv (s : St) (o : Nat) (hw : HashRank s) (h : NInv s) : NInv (updateNotarized s o) := by
  have ho : ∀ x, obj (updateNotarized s o) x = obj s x := obj_heap (update_heap s o)
  have hf : ∀ p, hr s (if (obj s p).hash = (obj s o).hash then o else p) = hr s p := by
    intro p
    by_cases hc : (obj s p).hash = (obj s o).hash
    · simp only [hc, if_true, hr]
      rw [hw o p hc.symm]
    · simp only [hc, if_false]
  have hfr : ∀ p, (obj s (if (obj s p).hash = (obj s o).hash then o else p)).rank = (obj s p).rank :=
    fun p => congrArg Prod.snd (hf p)
  have hfh : ∀ p, (obj s (if (obj s p).hash = (obj s o).hash then o else p)).hash = (obj s p).hash :=
    fun p => congrArg Prod.fst (hf p)
  unfold NInv
  simp only [ho]
  show List.Pairwise _ (s.notarized.map _) ∧ List.Pairwise _ (s.notarized.map _)
  rw [List.pairwise_map, List.pairwise_map]
  exact ⟨h.1.imp (fun {a b} hab => by rw [hfr, hfr]; exact hab),
         h.2.imp (fun {a b} hab => by rw [hfh, hfh]; exact hab)⟩

/-- **update_replaces_proposed**: also in the PROPOSED list every entry with the block's hash is the given block. -/
theorem update_replaces_proposed (s : St) (o : Nat) :
    ∀ p ∈ (updateNotarized s o).proposed, (obj s p).hash = (obj s o).hash → p = o := by
  intro p hp hh
  unfold updateNotarized at hp
  simp only [List.mem_map] at hp
  obtain ⟨q, _, hq⟩ := hp
  by_cases hc : (obj s q).hash = (obj s o).hash
  · simp only [hc, if_true] at hq; exact hq.symm
  · simp only [hc, if_false] at hq; subst hq; exact absurd hh hc

inductive Op where
  | addn (o : Nat)
  | upd (o : Nat)
  | addp (o : Nat)
deriving Repr

def step (s : St) : Op → St
  | .addn o => addNotarized s o
  | .upd o => updateNotarized s o
  | .addp o => addProposed s o

def run (s : St) (ops : List Op) : St := ops.foldl step s

theorem step_hr (s : St) (op : Op) (o' : Nat) : hr (step s op) o' = hr s o' := by
  cases op with
  | addn o => exact addNotarized_hr s o o'
  | upd o =>
    show hr (updateNotarized s o) o' = hr s o'
    unfold hr; rw [obj_heap (update_heap s o)]
  | addp o =>
    show hr (addProposed s o) o' = hr s o'
    unfold hr; rw [obj_heap (addProposed_frame s o).1]

theorem step_inv (s : St) (op : Op) (hd : InDomain s) (hw : HashRank s) (h : NInv s) :
    NInv (step s op) ∧ InDomain (step s op) ∧ HashRank (step s op) := by
  have hw' : HashRank (step s op) := by
    intro a b hab
    have e1 := step_hr s op a
    have e2 := step_hr s op b
    simp only [hr, Prod.mk.injEq] at e1 e2
    rw [e1.2, e2.2]; apply hw; rw [← e1.1, ← e2.1]; exact hab
  have hd' : InDomain (step s op) := by
    intro o
    have := congrArg Prod.snd (step_hr s op o)
    simp only [hr] at this
    rw [this]; exact hd o
  refine ⟨?_, hd', hw'⟩
  cases op with
  | addn o => exact addNotarized_inv s o hd h
  | upd o =>
    exact update_inv s o hw h
  | addp o =>
    exact ninv_congr s _ (addProposed_frame s o).2.1 (step_hr s (.addp o)) h

/-- **one_block_per_rank + sorted_by_weight** for every history: over any set of block objects with ranks in the
domain and ranks determined by the hash, any sequence of `AddNotarizedBlock` / `UpdateNotarizedBlock` / `AddProposedBlock` from a fresh round leaves the
notarized list with strictly ascending ranks (at most one block per rank, heaviest first) and pairwise different
hashes. -/
theorem reachable_ninv (heap : List (Nat × Blk)) (ops : List Op)
    (hd : InDomain { empty with heap := heap }) (hw : HashRank { empty with heap := heap }) :
    NInv (run { empty with heap := heap } ops) := by
  have : ∀ (ops : List Op) (s : St), InDomain s → HashRank s → NInv s → NInv (run s ops) := by
    intro ops
    induction ops with
    | nil => intro s _ _ h; exact h
    | cons op ops ih =>
      intro s hd hw h
      obtain ⟨h1, h2, h3⟩ := step_inv s op hd hw h
      exact ih _ h2 h3 h1
  exact this ops _ hd hw ⟨List.Pairwise.nil, List.Pairwise.nil⟩

/-- the heaviest notarized block is the one of the lowest rank. -/
theorem heaviest_lowest_rank (s : St) (h : NInv s) (o : Nat) (ho : heaviest s = some o) :
    ∀ p ∈ s.notarized, (obj s o).rank ≤ (obj s p).rank := by
  unfold heaviest at ho
  cases hn : s.notarized with
  | nil => rw [hn] at ho; cases ho
  | cons a t =>
    rw [hn] at ho
    simp only [List.head?_cons, Option.some.injEq] at ho
    subst ho
    intro p hp
    have h1 := h.1
    rw [hn] at h1
    rcases List.mem_cons.mp hp with rfl | hp
    · exact Int.le_refl _
    · exact Int.le_of_lt ((List.pairwise_cons.mp h1).1 p hp)

/-! ## the repaired history (finding `C35:update-does-not-replace`, fixed in 1ab8ea2), information-only witnesses -/

/-- the history on which the code failed before commit 1ab8ea2: block object 1 (hash 0, rank 0) is notarized,
`UpdateNotarizedBlock` is called with object 2 — another object with the same hash, carrying one more ticket. Now the
notarized list (and the proposed list) hold object 2. -/
theorem update_replaces_repaired :
    let s0 : St := { empty with heap := [(1, ⟨0, 0, [1]⟩), (2, ⟨0, 0, [1, 2]⟩)] }
    let s := run s0 [.addn 1, .upd 2]
    s.notarized = [2] ∧ s.proposed = [2] ∧ (obj s 1).tickets ≠ (obj s 2).tickets := by
  decide

/-- information: `HashRank` is needed. An update with an object that carries a notarized block's hash but ANOTHER rank
(ill-formed: a hash fixes the block) puts the list out of order — ranks `[5, 1]`. -/
theorem update_illformed_breaks_order :
    let s0 : St := { empty with heap := [(1, ⟨0, 0, []⟩), (2, ⟨1, 1, []⟩), (3, ⟨0, 5, []⟩)] }
    let s := run s0 [.addn 1, .addn 2, .upd 3]
    s.notarized = [3, 2] ∧ (s.notarized.map (fun o => (obj s o).rank)) = [5, 1] := by
  decide

/-- information: `GetGenerators` (used for statistics and wait times) takes the first `g` of `GetMinersByRank`, which
orders by permutation value DESCENDING — they are not the miners for which `IsRoundGenerator` holds (rank `< g`).
With the permutation `[2,0,1]` and one generator: `IsRoundGenerator` holds for the miner at index 1 (rank 0),
`GetGenerators` returns the miner at index 0 (rank 2). Not part of the property's wording; not flagged. -/
theorem getGenerators_vs_isRoundGenerator :
    let r : Ranks := { perm := some [2, 0, 1], seed := 7 }
    getGenerators r 3 1 = [0] ∧ isRoundGenerator r 0 1 = false ∧ isRoundGenerator r 1 1 = true := by
  decide

/-! ## non-vacuity -/
theorem heapGet_mem (h : List (Nat × Blk)) (o : Nat) (b : Blk) (hg : heapGet h o = some b) : (o, b) ∈ h := by
  induction h with
  | nil => simp [heapGet] at hg
  | cons p t ih =>
    obtain ⟨k, c⟩ := p
    unfold heapGet at hg
    by_cases hk : k = o
    · simp only [hk, if_true, Option.some.injEq] at hg; subst hg; subst hk; exact List.mem_cons_self ..
    · simp only [hk, if_false] at hg; exact List.mem_cons_of_mem _ (ih hg)

/-- a heap whose blocks all have ranks in `0..1074` is in the domain. -/
theorem inDomain_of_heap (s : St) (h : ∀ p ∈ s.heap, 0 ≤ p.2.rank ∧ p.2.rank ≤ 1074) : InDomain s := by
  intro o
  unfold obj
  cases hg : heapGet s.heap o with
  | none => exact ⟨by decide, by decide⟩
  | some b => exact h (o, b) (heapGet_mem _ _ _ hg)

/-- a heap in which equal hashes carry equal ranks (and hash 0, the hash of an absent object, carries rank 0). -/
theorem hashRank_of_heap (s : St)
    (h1 : ∀ p ∈ s.heap, ∀ q ∈ s.heap, p.2.hash = q.2.hash → p.2.rank = q.2.rank)
    (h0 : ∀ p ∈ s.heap, p.2.hash = 0 → p.2.rank = 0) : HashRank s := by
  intro a b hab
  unfold obj at *
  cases ha : heapGet s.heap a with
  | none =>
    cases hb : heapGet s.heap b with
    | none => rfl
    | some y =>
      rw [ha, hb] at hab
      have := h0 (b, y) (heapGet_mem _ _ _ hb) hab.symm
      simp only [Option.getD]; exact this.symm
  | some x =>
    cases hb : heapGet s.heap b with
    | none =>
      rw [ha, hb] at hab
      exact h0 (a, x) (heapGet_mem _ _ _ ha) hab
    | some y =>
      rw [ha, hb] at hab
      exact h1 (a, x) (heapGet_mem _ _ _ ha) (b, y) (heapGet_mem _ _ _ hb) hab

example : HashRank { empty with heap := [(1, ⟨4, 1, []⟩), (2, ⟨5, 1, []⟩), (3, ⟨0, 0, [7]⟩), (4, ⟨4, 1, [2]⟩)] } :=
  hashRank_of_heap _ (by decide) (by decide)
example : (run { empty with heap := [(1, ⟨4, 1, []⟩), (2, ⟨5, 1, []⟩), (3, ⟨0, 0, [7]⟩), (4, ⟨4, 1, [2]⟩)] }
    [.addn 1, .addn 3, .upd 4]).notarized = [3, 4] := by decide
example : InDomain { empty with heap := [(1, ⟨4, 1, []⟩), (2, ⟨5, 1, []⟩), (3, ⟨0, 0, [7]⟩)] } :=
  inDomain_of_heap _ (by decide)
example : (run { empty with heap := [(1, ⟨4, 1, []⟩), (2, ⟨5, 1, []⟩), (3, ⟨0, 0, [7]⟩)] }
    [.addn 1, .addn 2, .addn 3]).notarized = [3, 2] := by decide
example : (run { empty with heap := [(1, ⟨4, 1, []⟩), (2, ⟨5, 1, []⟩), (3, ⟨0, 0, [7]⟩)] }
    [.addn 1, .addn 2, .addn 3]).block = some 3 := by decide
example : rankVector { perm := some [2, 0, 1], seed := 7 } 3 = [2, 0, 1] := by decide

end ZChain.RoundBlocks
