import ZChain.Proofs.Finalize
import ZChain.Generated.C36
/-!
# C36 — Finalization picks the common ancestor and extends a single chain

"The block chosen for finalization is the most recent block that is an ancestor of every notarized block of the
latest round that has any, and lies in an earlier round. Each newly finalized block descends from the previous
finalized block, so finalized blocks form one chain."

Statements are about `Model/Finalize.lean` (`computeFinalizedBlock`, `finalizeDecision`), tied to
`Chain.ComputeFinalizedBlock` / `commonAncestor` by `harness/cmd/c36` on every run.

Hypotheses, named where they are used:
* `WF c` — a block's previous block lies in a strictly earlier round;
* `Level c` — it lies in the round immediately before (`SetPreviousBlock`: `b.Round = prev.Round + 1`, and the miner
  verifies the previous block's notarization for round `b.Round - 1`);
* `RoundsOK c` — a round object lists blocks of its own round;
* the PROTOCOL HYPOTHESIS of the chain theorem (`Honest`): every notarized block of the latest round that has any
  descends from the block finalized so far. `finalized_chain` needs exactly this; without it the code itself moves
  the finalized block BACK (`rollback_without_hypothesis`), which is its recovery path
  ("Recovering from incorrectly finalized block", protocol_round.go:436).
-/
namespace ZChain.Finalize

/-- a round object lists blocks of its own round -/
def RoundsOK (c : Chain) : Prop := ∀ n l, c.round? n = some l → ∀ b ∈ l, b.round = n

/-- the notarized blocks `computeFinalizedBlock` starts from, and their round -/
def found (c : Chain) (lfbr r : Nat) : List Blk × Nat := findNotarized c lfbr (r + 1) r

/-- **found_latest**: the set the computation starts from is the notarized set of the latest round in `(lfbr, r]`
that has any notarized block (all round objects above it exist and are empty). -/
theorem found_latest (c : Chain) (lfbr r : Nat) (h : (found c lfbr r).1 ≠ []) :
    lfbr < (found c lfbr r).2 ∧ (found c lfbr r).2 ≤ r ∧ c.round? (found c lfbr r).2 = some (found c lfbr r).1 ∧
    ∀ m, (found c lfbr r).2 < m → m ≤ r → c.round? m = some [] :=
  findNotarized_spec c lfbr (r + 1) r _ _ (by omega) rfl h

/-- unfolding the result -/
theorem cfb_some (c : Chain) (lfbr r : Nat) (fb : Blk) (h : computeFinalizedBlock c lfbr r = some fb) :
    (found c lfbr r).1 ≠ [] ∧ climb c (maxRound (found c lfbr r).1 + 1) (found c lfbr r).1 = .found fb ∧ fb.round ≠ r := by
  unfold computeFinalizedBlock at h
  unfold found
  generalize findNotarized c lfbr (r + 1) r = fr at h ⊢
  obtain ⟨nbs, rn⟩ := fr
  cases nbs with
  | nil => simp at h
  | cons x xs =>
    simp only at h
    cases hc : climb c (maxRound (x :: xs) + 1) (x :: xs) with
    | outOfFuel => simp [hc] at h
    | missingPrev => simp [hc] at h
    | found b =>
      simp only [hc] at h
      by_cases hr : b.round = r
      · simp [hr] at h
      · simp only [hr, if_false, Option.some.injEq] at h
        subst h
        exact ⟨by simp, rfl, hr⟩

/-- **cfb_is_common_ancestor**: the block returned is a proper ancestor — the same number `k+1` of steps back — of
every notarized block of the latest round that has any. (No hypothesis on the tree.) -/
theorem cfb_is_common_ancestor (c : Chain) (lfbr r : Nat) (fb : Blk) (h : computeFinalizedBlock c lfbr r = some fb) :
    ∃ k, ∀ b ∈ (found c lfbr r).1, Anc c (k + 1) b fb := by
  obtain ⟨_, hc, _⟩ := cfb_some c lfbr r fb h
  exact climb_common c _ _ fb hc

/-- **cfb_earlier_round**: it lies in an earlier round than those notarized blocks (hence earlier than `r`). -/
theorem cfb_earlier_round (c : Chain) (hw : WF c) (hr : RoundsOK c) (lfbr r : Nat) (fb : Blk)
    (h : computeFinalizedBlock c lfbr r = some fb) : fb.round < (found c lfbr r).2 ∧ fb.round < r := by
  obtain ⟨hne, _, _⟩ := cfb_some c lfbr r fb h
  obtain ⟨k, hk⟩ := cfb_is_common_ancestor c lfbr r fb h
  obtain ⟨_, h2, h3, _⟩ := found_latest c lfbr r hne
  obtain ⟨b, hb⟩ := List.exists_mem_of_ne_nil _ hne
  have hbr : b.round = (found c lfbr r).2 := hr _ _ h3 b hb
  have := Anc.round_wf hw (hk b hb)
  omega

/-- **cfb_is_deepest**: every block that is a common proper ancestor of all those notarized blocks is an
ancestor-or-equal of the block returned — the returned block is the most recent such block. -/
theorem cfb_is_deepest (c : Chain) (hl : Level c) (hr : RoundsOK c) (lfbr r : Nat) (fb : Blk)
    (h : computeFinalizedBlock c lfbr r = some fb) (a : Blk)
    (ha : ∀ b ∈ (found c lfbr r).1, ∃ j, Anc c (j + 1) b a) : ∃ i, Anc c i fb a := by
  obtain ⟨hne, hc, _⟩ := cfb_some c lfbr r fb h
  obtain ⟨_, _, h3, _⟩ := found_latest c lfbr r hne
  -- on a level tree all those blocks are in one round, so `a` is the same number of steps above each of them
  obtain ⟨b0, hb0⟩ := List.exists_mem_of_ne_nil _ hne
  obtain ⟨j0, hj0⟩ := ha b0 hb0
  have hsame : ∀ b ∈ (found c lfbr r).1, Anc c (j0 + 1) b a := by
    intro b hb
    obtain ⟨j, hj⟩ := ha b hb
    have e1 := Anc.round_level hl hj
    have e2 := Anc.round_level hl hj0
    have r1 : b.round = (found c lfbr r).2 := hr _ _ h3 b hb
    have r2 : b0.round = (found c lfbr r).2 := hr _ _ h3 b0 hb0
    have : j = j0 := by omega
    subst this; exact hj
  exact climb_deepest c _ _ fb j0 a hc hne hsame

/-- **cfb_total**: on stores whose parents lie in earlier rounds the transcribed loop ends for one of the coded
reasons — never because the model's fuel (`max round + 1` turns) ran out. -/
theorem cfb_total (c : Chain) (hw : WF c) (lfbr r : Nat) (h : (found c lfbr r).1 ≠ []) :
    climb c (maxRound (found c lfbr r).1 + 1) (found c lfbr r).1 ≠ .outOfFuel :=
  climb_total c hw _ _ h (by omega)

/-- it answers nothing when no round in `(lfbr, r]` (walking back over existing round objects) has a notarized block -/
theorem cfb_none_without_notarized (c : Chain) (lfbr r : Nat) (h : (found c lfbr r).1 = []) :
    computeFinalizedBlock c lfbr r = none := by
  unfold found at h
  unfold computeFinalizedBlock
  generalize findNotarized c lfbr (r + 1) r = fr at h ⊢
  obtain ⟨nbs, rn⟩ := fr
  simp only at h; subst h; rfl

/-! ## one chain -/

/-- THE PROTOCOL HYPOTHESIS: every notarized block of the latest round that has any descends from `lfb` -/
def Honest (c : Chain) (lfb : Blk) (r : Nat) : Prop :=
  ∀ b ∈ (found c lfb.round r).1, ∃ j, Anc c (j + 1) b lfb

/-- **finalized_extends**: under the protocol hypothesis the block computed next descends from (or is) the block
finalized so far. -/
theorem finalized_extends (c : Chain) (hl : Level c) (hr : RoundsOK c) (lfb : Blk) (r : Nat) (hh : Honest c lfb r)
    (fb : Blk) (h : computeFinalizedBlock c lfb.round r = some fb) : ∃ i, Anc c i fb lfb :=
  cfb_is_deepest c hl hr lfb.round r fb h lfb hh

/-- … so `finalizeRound` never takes its rollback branch, and what it finalizes next is a strict descendant. -/
theorem decision_honest (c : Chain) (hl : Level c) (hr : RoundsOK c) (lfb : Blk) (r : Nat) (hh : Honest c lfb r) :
    finalizeDecision c lfb r = .none ∨ ∃ fb i, finalizeDecision c lfb r = .forward fb ∧ Anc c (i + 1) fb lfb := by
  unfold finalizeDecision
  by_cases hle : r ≤ lfb.round
  · left; simp [hle]
  · simp only [hle, if_false]
    cases hc : computeFinalizedBlock c lfb.round r with
    | none => left; rfl
    | some fb =>
      simp only
      obtain ⟨i, hi⟩ := finalized_extends c hl hr lfb r hh fb hc
      cases i with
      | zero =>
        simp only [Anc] at hi; subst hi
        left; simp
      | succ i =>
        have := Anc.round_level hl hi
        by_cases hhash : fb.hash = lfb.hash
        · left; simp [hhash]
        · right
          refine ⟨fb, i, ?_, hi⟩
          simp only [hhash, if_false]
          have : fb.round > lfb.round := by omega
          simp [this]

/-- a history of finalization attempts over one block store: at each step the node holds some round objects and
runs `finalizeRound` for round `r`; the forward branch adopts the computed block -/
def follow (blocks : List Blk) (lfb : Blk) : List (List (Nat × List Blk) × Nat) → List Blk
  | [] => [lfb]
  | (rounds, r) :: rest =>
    lfb :: follow blocks (match finalizeDecision ⟨blocks, rounds⟩ lfb r with
      | .forward fb => fb
      | _ => lfb) rest

/-- the protocol hypothesis along a history -/
def HonestHistory (blocks : List Blk) (lfb : Blk) : List (List (Nat × List Blk) × Nat) → Prop
  | [] => True
  | (rounds, r) :: rest =>
    RoundsOK ⟨blocks, rounds⟩ ∧ Honest ⟨blocks, rounds⟩ lfb r ∧
    HonestHistory blocks (match finalizeDecision ⟨blocks, rounds⟩ lfb r with
      | .forward fb => fb
      | _ => lfb) rest

/-- the ancestor relation only depends on the block store -/
theorem Anc_store (blocks : List Blk) (r1 r2 : List (Nat × List Blk)) :
    ∀ (k : Nat) (b a : Blk), Anc ⟨blocks, r1⟩ k b a → Anc ⟨blocks, r2⟩ k b a
  | 0, _, _, h => h
  | k + 1, _, _, ⟨p, hp, h⟩ => ⟨p, hp, Anc_store blocks r1 r2 k _ _ h⟩

/-- **finalized_chain**: along any history over one block store in which the round objects change arbitrarily
(in particular: notarized sets only grow) and the protocol hypothesis holds at every step, the successive finalized
blocks form ONE chain: each is a descendant-or-equal of every earlier one. -/
theorem finalized_chain (blocks : List Blk) (hl : Level ⟨blocks, []⟩) :
    ∀ (hist : List (List (Nat × List Blk) × Nat)) (lfb : Blk), HonestHistory blocks lfb hist →
    (follow blocks lfb hist).Pairwise (fun earlier later => ∃ i, Anc ⟨blocks, []⟩ i later earlier)
  | [], lfb, _ => by simp [follow]
  | (rounds, r) :: rest, lfb, ⟨hr, hh, hrest⟩ => by
    have hl' : Level ⟨blocks, rounds⟩ := fun b p hp => hl b p hp
    simp only [follow, List.pairwise_cons]
    have hnext : ∃ i, Anc ⟨blocks, []⟩ i
        (match finalizeDecision ⟨blocks, rounds⟩ lfb r with | .forward fb => fb | _ => lfb) lfb := by
      rcases decision_honest ⟨blocks, rounds⟩ hl' hr lfb r hh with h | ⟨fb, i, h, hi⟩
      · rw [h]; exact ⟨0, rfl⟩
      · rw [h]; exact ⟨i + 1, Anc_store blocks rounds [] _ _ _ hi⟩
    have ih := finalized_chain blocks hl rest _ hrest
    refine ⟨?_, ih⟩
    -- everything later descends from the next finalized block, which descends from `lfb`
    intro later hlater
    obtain ⟨i, hi⟩ := hnext
    have hfirst : ∀ (h : List (List (Nat × List Blk) × Nat)) (x : Blk), ∃ t, follow blocks x h = x :: t := by
      intro h x; cases h with
      | nil => exact ⟨[], rfl⟩
      | cons s t => obtain ⟨rs, rr⟩ := s; exact ⟨_, rfl⟩
    obtain ⟨t, ht⟩ := hfirst rest (match finalizeDecision ⟨blocks, rounds⟩ lfb r with | .forward fb => fb | _ => lfb)
    rw [ht] at hlater ih
    rcases List.mem_cons.mp hlater with rfl | hl2
    · exact ⟨i, hi⟩
    · obtain ⟨i2, hi2⟩ := (List.pairwise_cons.mp ih).1 later hl2
      exact ⟨i2 + i, Anc.trans hi2 hi⟩

/-- **rollback_without_hypothesis** — what the code does when the hypothesis fails: the finalized block is block 2
(round 1), round 2 holds notarized blocks 4 (child of 2) and 5 (child of 3, the sibling of 2). The computed block is
the root 1, in an earlier round than the finalized block, and `finalizeRound` sets the finalized block BACK to the
common ancestor 1: the finalized blocks 2, 1 do not form a chain. -/
theorem rollback_without_hypothesis :
    finalizeDecision ⟨[⟨1, 0, 0⟩, ⟨2, 1, 1⟩, ⟨3, 1, 1⟩, ⟨4, 2, 2⟩, ⟨5, 2, 3⟩],
      [(0, [⟨1, 0, 0⟩]), (1, [⟨2, 1, 1⟩, ⟨3, 1, 1⟩]), (2, [⟨4, 2, 2⟩, ⟨5, 2, 3⟩])]⟩ ⟨2, 1, 1⟩ 2
      = .rollback (some ⟨1, 0, 0⟩) := by decide

/-- for trees that are not level the simultaneous climb can miss the common ancestor: blocks 4 and 5 of round 3 have
the common ancestor 2 (4 → 2, 5 → 3 → 2) but the two paths never meet at the same step; the code answers nil.
(Not reachable in the protocol: `Level` holds for every accepted block.) -/
theorem not_level_misses :
    computeFinalizedBlock ⟨[⟨1, 0, 0⟩, ⟨2, 1, 1⟩, ⟨3, 2, 2⟩, ⟨4, 3, 2⟩, ⟨5, 3, 3⟩], [(3, [⟨4, 3, 2⟩, ⟨5, 3, 3⟩])]⟩ 0 3 = none := by
  decide

/-! ## the guards of the source are the guards of the model (translator obligation)

`Generated/C36.lean` is rewritten from the current Go source on every run (harness/cmd/xc36). The model compares round
numbers exactly where the code does and its only arithmetic is `roundNumber--`. A rewritten guard or new arithmetic
(which could wrap on int64 for inputs no generator reaches) makes these equalities false: the check fails closed. -/

theorem cfb_guards_as_modelled :
    ZChain.Generated.C36.computeFinalizedBlockGuards =
      ["if b.Hash == hash", "for", "if roundNumber <= lfbr", "if len(notarizedBlocks) > 0", "if rd == nil",
       "if len(notarizedBlocks) == 0", "for", "if b.PrevBlock == nil", "if pb == nil",
       "if isIn(prevNotarizedBlocks, b.PrevHash)", "if len(notarizedBlocks) == 1", "if len(notarizedBlocks) != 1",
       "if fb.Round == r.GetRoundNumber()"] ∧
    ZChain.Generated.C36.computeFinalizedBlockArith = ["roundNumber--"] := by decide

theorem common_ancestor_guards_as_modelled :
    ZChain.Generated.C36.commonAncestorGuards =
      ["if b1 == nil || b2 == nil", "if b1 == b2 || b1.Hash == b2.Hash", "if b2.Round < b1.Round",
       "for b2.Round != b1.Round", "if b2 == nil", "for b1 != b2", "if b1 == nil", "if b2 == nil"] ∧
    ZChain.Generated.C36.commonAncestorArith = [] := by decide

/-! ## non-vacuity -/

def exTree : Chain :=
  ⟨[⟨1, 0, 0⟩, ⟨2, 1, 1⟩, ⟨3, 1, 1⟩, ⟨4, 2, 2⟩, ⟨5, 2, 2⟩, ⟨6, 3, 4⟩],
   [(0, [⟨1, 0, 0⟩]), (1, [⟨2, 1, 1⟩, ⟨3, 1, 1⟩]), (2, [⟨4, 2, 2⟩, ⟨5, 2, 2⟩]), (3, []), (4, [])]⟩

example : computeFinalizedBlock exTree 0 4 = some ⟨2, 1, 1⟩ := by decide
example : (found exTree 0 4) = ([⟨4, 2, 2⟩, ⟨5, 2, 2⟩], 2) := by decide
example : computeFinalizedBlock exTree 0 1 = some ⟨1, 0, 0⟩ := by decide
example : finalizeDecision exTree ⟨1, 0, 0⟩ 4 = .forward ⟨2, 1, 1⟩ := by decide
example : Honest exTree ⟨1, 0, 0⟩ 4 := by
  intro b hb
  have : b = ⟨4, 2, 2⟩ ∨ b = ⟨5, 2, 2⟩ := by
    have h : (found exTree 0 4).1 = [⟨4, 2, 2⟩, ⟨5, 2, 2⟩] := by decide
    have hb' : b ∈ (found exTree 0 4).1 := hb
    rw [h] at hb'; simpa using hb'
  rcases this with rfl | rfl
  · exact ⟨1, ⟨2, 1, 1⟩, by decide, ⟨1, 0, 0⟩, by decide, rfl⟩
  · exact ⟨1, ⟨2, 1, 1⟩, by decide, ⟨1, 0, 0⟩, by decide, rfl⟩

end ZChain.Finalize
