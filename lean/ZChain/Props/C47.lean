import ZChain.Model.Sig
import Mathlib.Algebra.Field.Basic
import Mathlib.Tactic.Ring
import Mathlib.Tactic.FieldSimp
import Mathlib.Tactic.NormNum
/-!
# C47 — Client signatures verify exactly for the signing key

BLS (`bls0chain`) over an arbitrary field, with the library's `Verify` (`Alg.verifyLib`); ed25519 as an abstract
scheme (correctness proved from its law; the negative half is the scheme's unforgeability **assumption**); the client
id is the hash of the public key.
-/
namespace ZChain.Sig
open ZChain.Alg
variable {F : Type} [Field F] [DecidableEq F]

/-- exact characterisation of the library's verification in the exponent. -/
theorem verifyLib_iff (pk h σ : F) : verifyLib pk h σ = true ↔ pk ≠ 0 ∧ σ ≠ 0 ∧ σ = pk * h := by
  simp [verifyLib, and_assoc]

/-- **sign_verify**: a signature verifies under the matching public key (non-zero key, message point `≠ 0`). -/
theorem sign_verify (s h : F) (hs : s ≠ 0) (hh : h ≠ 0) : verifyLib (pubKey s) h (sign s h) = true := by
  simp [verifyLib, pubKey, sign, hs, hh]

/-- **verify_wrong_key_false**: under ANY other public key the signature is rejected (given `Hm m ≠ 0`). -/
theorem verify_wrong_key_false (s h pk' : F) (hh : h ≠ 0) (hne : pk' ≠ pubKey s) :
    verifyLib pk' h (sign s h) = false := by
  rw [Bool.eq_false_iff]
  intro hv
  obtain ⟨_, _, heq⟩ := (verifyLib_iff pk' h (sign s h)).mp hv
  apply hne
  simp only [sign, pubKey] at heq ⊢
  exact (mul_right_cancel₀ hh heq).symm

/-- **verify_wrong_msg_false**: for another message (`Hm` injective on the pair, i.e. `h' ≠ h`) the signature is
rejected (non-zero key). -/
theorem verify_wrong_msg_false (s h h' : F) (hs : s ≠ 0) (hne : h' ≠ h) :
    verifyLib (pubKey s) h' (sign s h) = false := by
  rw [Bool.eq_false_iff]
  intro hv
  obtain ⟨_, _, heq⟩ := (verifyLib_iff (pubKey s) h' (sign s h)).mp hv
  apply hne
  simp only [sign, pubKey] at heq
  exact (mul_left_cancel₀ hs heq).symm

/-- a tampered signature is rejected: for a key and message exactly one signature verifies. -/
theorem verify_tampered_false (s h σ : F) (hne : σ ≠ sign s h) : verifyLib (pubKey s) h σ = false := by
  rw [Bool.eq_false_iff]
  intro hv
  exact hne ((verifyLib_iff _ _ _).mp hv).2.2

/-- another key AND another message: accepted exactly when the two message points satisfy the linear relation
`h' = (s/s')·h` fixed by the two keys. For hash-to-curve outputs nobody knows such a relation (the discrete-log
assumption recorded in the check config); algebraically it cannot be excluded. -/
theorem verify_other_key_other_msg (s s' h h' : F) (hs : s ≠ 0) (hs' : s' ≠ 0) (hh : h ≠ 0) :
    verifyLib (pubKey s') h' (sign s h) = true ↔ h' = (s / s') * h := by
  rw [verifyLib_iff]
  simp only [pubKey, sign]
  constructor
  · rintro ⟨_, _, heq⟩
    field_simp
    rw [heq]; ring
  · intro he
    refine ⟨hs', mul_ne_zero hs hh, ?_⟩
    rw [he]; field_simp

/-! ## ed25519 (abstract scheme) -/

/-- correctness of any scheme with the `EdScheme` law (ed25519: `ed25519.Verify(pub, m, ed25519.Sign(priv, m))`). -/
theorem ed_sign_verify {SK PK M S : Type} (E : EdScheme SK PK M S) (sk : SK) (m : M) :
    E.verify (E.pub sk) m (E.sign sk m) = true := E.correct sk m

/-- under the scheme's unforgeability ASSUMPTION a signature fails under any other key or hash. -/
theorem ed_verify_other_false {SK PK M S : Type} (E : EdScheme SK PK M S) (hu : E.Unforgeable)
    (sk sk' : SK) (m m' : M) (hne : E.pub sk' ≠ E.pub sk ∨ m' ≠ m) :
    E.verify (E.pub sk') m' (E.sign sk m) = false := hu sk sk' m m' hne

/-- the ideal scheme (what the driver computes with) is correct and unforgeable: the assumption is consistent. -/
theorem ideal_unforgeable (K M : Type) [DecidableEq K] [DecidableEq M] : (ideal K M).Unforgeable := by
  intro sk sk' m m' hne
  simp only [ideal, id, decide_eq_false_iff_not, Prod.mk.injEq, not_and]
  rcases hne with h | h
  · intro e; exact absurd e.symm h
  · intro _ e; exact absurd e.symm h

/-! ## client id -/

/-- **client_id_is_hash_of_pk**: the id `SetPublicKey` / `GetIDFromPublicKey` assign is the hash of the public key, and
such a record validates. -/
theorem client_id_is_hash_of_pk {PK ID : Type} [DecidableEq ID] (H : PK → ID) (pk : PK) :
    (Client.ofPublicKey H pk).id = H pk ∧ (Client.ofPublicKey H pk).validate H = true := by
  simp [Client.ofPublicKey, clientId, Client.validate]

/-- `Validate` / `VerifyPublicKeyClientID` accept exactly the records whose id is the hash of their public key;
with a collision-free hash (hypothesis) an id therefore names one public key. -/
theorem client_validate_iff {PK ID : Type} [DecidableEq ID] (H : PK → ID) (c : Client PK ID) :
    c.validate H = true ↔ c.id = H c.publicKey := by
  simp [Client.validate]

/-- the id follows the key through any sequence of key changes on ONE client object: after setting the keys `pks` one
after the other the id is the hash of the LAST key and the record validates. -/
theorem client_id_follows_key {PK ID : Type} [DecidableEq ID] (H : PK → ID) (c : Client PK ID) (pks : List PK) (pk : PK) :
    ((pks ++ [pk]).foldl (Client.setPublicKey H) c).id = H pk ∧
    ((pks ++ [pk]).foldl (Client.setPublicKey H) c).publicKey = pk ∧
    ((pks ++ [pk]).foldl (Client.setPublicKey H) c).validate H = true := by
  rw [List.foldl_append]
  simp [Client.setPublicKey, Client.ofPublicKey, clientId, Client.validate]

theorem client_id_names_one_key {PK ID : Type} [DecidableEq ID] (H : PK → ID) (hinj : Function.Injective H)
    (c c' : Client PK ID) (h : c.validate H = true) (h' : c'.validate H = true) (hid : c.id = c'.id) :
    c.publicKey = c'.publicKey := by
  rw [client_validate_iff] at h h'
  exact hinj (by rw [← h, ← h', hid])

/-! ## the id is the hash STRING -/

/-- **id_pair_exact**: a `(public key, client id)` pair is accepted exactly when the id is the hash string of the key —
no other spelling of the same 32 bytes. -/
theorem id_pair_exact {PK : Type} (hashHex : PK → String) (pk : PK) (id : String) :
    idOk hashHex pk id = true ↔ id = hashHex pk := by
  simp [idOk]

/-- acceptance ⇒ the id is the canonical lower-case 64-hex hash (the hash renders canonically: `hex.EncodeToString`). -/
theorem id_pair_canonical {PK : Type} (hashHex : PK → String) (hc : ∀ pk, CanonicalId (hashHex pk)) (pk : PK) (id : String)
    (h : idOk hashHex pk id = true) : CanonicalId id ∧ id = hashHex pk := by
  have := (id_pair_exact hashHex pk id).mp h
  exact ⟨this ▸ hc pk, this⟩

/-- any spelling that is not the string itself is refused, whatever it decodes to. -/
theorem id_other_spelling_rejected {PK : Type} (hashHex : PK → String) (pk : PK) (v : String) (id' : String)
    (_ : spelling v (hashHex pk) = some id') (hne : id' ≠ hashHex pk) : idOk hashHex pk id' = false := by
  simp [idOk, hne]

section IdExamples
/-- a hash string for the examples. -/
def exHash : Unit → String := fun _ => "ab12cdef00112233445566778899aabbccddeeff00112233445566778899aabb"
def exUpper : String := "AB12CDEF00112233445566778899AABBCCDDEEFF00112233445566778899AABB"

example : CanonicalId (exHash ()) := ⟨by decide, by decide⟩
example : spelling "upper" (exHash ()) = some exUpper := by decide
/-- the coded check refuses the upper-case spelling, a one-letter flip, a `0x` prefix, a trailing space, 63/65 digits … -/
example : idOk exHash () exUpper = false := by decide
example : (["upper", "flipfirst", "flipmid", "fliplast", "0x", "sptrail", "splead", "d63", "odd", "d65", "d65b", "d62"].map
    (fun v => (spelling v (exHash ())).map (idOk exHash ()))) = List.replicate 12 (some false) := by decide
example : (spelling "canon" (exHash ())).map (idOk exHash ()) = some true := by decide
/-- **the distinction**: "decode both sides, compare the bytes" would ACCEPT the upper-case and the mixed-case
spellings — an id that is not the string used as `Client.ID`, state key and cache key. -/
theorem decoded_compare_accepts_upper : idOkDecoded exHash () exUpper = true ∧ idOk exHash () exUpper = false := by decide
example : (["upper", "flipfirst", "flipmid", "fliplast"].map
    (fun v => (spelling v (exHash ())).map (idOkDecoded exHash ()))) = List.replicate 4 (some true) := by decide
end IdExamples

/-! ## non-vacuity -/
example : verifyLib (pubKey (3 : ℚ)) 5 (sign 3 5) = true := sign_verify 3 5 (by norm_num) (by norm_num)
example : verifyLib (pubKey (4 : ℚ)) 5 (sign 3 5) = false :=
  verify_wrong_key_false 3 5 (pubKey 4) (by norm_num) (by norm_num [pubKey])
example : verifyLib (pubKey (3 : ℚ)) 6 (sign 3 5) = false := verify_wrong_msg_false 3 5 6 (by norm_num) (by norm_num)
/-- the relation case is real: key 6 on point 5 is key 3 on point 10. -/
example : verifyLib (pubKey (3 : ℚ)) 10 (sign 6 5) = true :=
  (verify_other_key_other_msg 6 3 5 10 (by norm_num) (by norm_num) (by norm_num)).mpr (by norm_num)
example : (ideal Nat Nat).verify ((ideal Nat Nat).pub 7) 9 ((ideal Nat Nat).sign 7 9) = true := by decide

end ZChain.Sig
