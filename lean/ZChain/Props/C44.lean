import ZChain.Proofs.LockSet
import ZChain.Proofs.IndexOwn
import ZChain.Generated.C44
/-!
# C44 — shared protocol structures are free of data races

Property (properties.jsonl C44): *concurrent protocol work on shared rounds, blocks and transaction validation never
reads and writes the same memory without synchronisation*, over any interleaving of the exported round/block/chain
operations the miner and sharder workers use.

What is proved, and over what. `harness/cmd/xc44` extracts from the CURRENT Go source a lockset table
(`Generated/C44.lean`: every access of a field of `round.Round` / `block.Block`, of the elements of their slice/map
fields and of the closure variables of `miner.Chain.ValidateTransactions`, with the mutexes of the same object held
there; the call edges between those functions with the locks the callee inherits; the concurrently callable entry
points). `Model/LockSet.lean` says what a data race is in such a table (`NoConflictExcept`: over ALL call paths of any
length from two concurrently callable entries, inductively), `Proofs/LockSet.lean` proves that the executable check
`closedB` + `checkB` is sound for it, and this file decides the check over the generated table by kernel evaluation.

This is the weakest level of the framework (DESIGN.md §5 C44): the statement is about the TABLE. That the table is a
faithful abstraction of the code (every access found, every lock attributed to the right object, aliases, code of
other packages that touches the exported fields directly) is the extractor's word — checked only from the other side,
by the race-detector search of `harness/cmd/c44` (a race the detector shows on a pair the table calls synchronised is
a VIOLATION of the check).

The full statement `NoConflictExcept table []` is FALSE of the code at the pinned commit: see `knownRacy` — every
entry of `confirmedRacy` was reproduced on the real code under `go build -race` (known_findings.jsonl, signatures
`C44:race:<location>:<fnA>/<fnB>`); the entries of `unconfirmed` are pairs where the table is conservative and the
detector has nothing to report (reasons below). The proved theorem is therefore `_partial`: the table minus the
listed pairs. A repaired tree regenerates a table without the repaired pairs; the list may then be longer than
needed, which only weakens the statement (`NoConflictExcept.mono`), and with an empty list the same proof gives the
full property (`full_property_of_check`).
-/
namespace ZChain.LockSet
open ZChain.Generated.C44

/-- (location, function, function): data races the Go race detector reproduced on the real code (harness/cmd/c44). -/
def confirmedRacy : Known := [
  (nm! "Block.ClientState", nm! "Block.Clone", nm! "Block.CreateState"),
  (nm! "Block.ClientState", nm! "Block.ComputeState", nm! "Block.CreateState"),
  (nm! "Block.ClientState", nm! "Block.ComputeState", nm! "Block.setClientState"),
  (nm! "Block.ClientState", nm! "Block.CreateState", nm! "Block.CreateState"),
  (nm! "Block.ClientState", nm! "Block.CreateState", nm! "Block.SaveChanges"),
  (nm! "Block.ClientState", nm! "Block.CreateState", nm! "Block.setClientState"),
  (nm! "Block.ClientState", nm! "Block.CreateState", nm! "block.CreateStateWithPreviousBlock"),
  (nm! "Block.ClientState", nm! "Block.CreateState", nm! "block.NewBlockStateChange"),
  (nm! "Block.ClientState", nm! "Block.CreateState", nm! "block.StateSanityCheck"),
  (nm! "Block.ClientState", nm! "Block.CreateState", nm! "block.ValidateState"),
  (nm! "Block.ClientState", nm! "Block.setClientState", nm! "block.CreateStateWithPreviousBlock"),
  (nm! "Block.ClientState", nm! "Block.setClientState", nm! "block.NewBlockStateChange"),
  (nm! "Block.ClientState", nm! "Block.setClientState", nm! "block.StateSanityCheck"),
  (nm! "Block.ClientState", nm! "Block.setClientState", nm! "block.ValidateState"),
  (nm! "Block.ClientStateHash", nm! "Block.ApplyBlockStateChange", nm! "Block.setClientState"),
  (nm! "Block.ClientStateHash", nm! "Block.ComputeState", nm! "Block.setClientState"),
  (nm! "Block.ClientStateHash", nm! "Block.GetSummary", nm! "Block.setClientState"),
  (nm! "Block.ClientStateHash", nm! "Block.InitStateDB", nm! "Block.setClientState"),
  (nm! "Block.ClientStateHash", nm! "Block.setClientState", nm! "UnverifiedBlockBody.Clone"),
  (nm! "Block.ClientStateHash", nm! "Block.setClientState", nm! "block.CreateStateWithPreviousBlock"),
  (nm! "Block.ClientStateHash", nm! "Block.setClientState", nm! "block.StateSanityCheck"),
  (nm! "Block.ClientStateHash", nm! "Block.setClientState", nm! "block.blockToBlockEvent"),
  (nm! "Block.ClientStateHash", nm! "Block.setClientState", nm! "block.validateStateChangesRoot"),
  (nm! "Block.PrevBlock", nm! "Block.ApplyBlockStateChange", nm! "Block.Clear"),
  (nm! "Block.PrevBlock", nm! "Block.ApplyBlockStateChange", nm! "Block.SetPreviousBlock"),
  (nm! "Block.PrevBlock", nm! "Block.Clear", nm! "Block.Clear"),
  (nm! "Block.PrevBlock", nm! "Block.Clear", nm! "Block.Clone"),
  (nm! "Block.PrevBlock", nm! "Block.Clear", nm! "Block.ComputeState"),
  (nm! "Block.PrevBlock", nm! "Block.Clear", nm! "Block.SetPreviousBlock"),
  (nm! "Block.PrevBlock", nm! "Block.Clear", nm! "block.StateSanityCheck"),
  (nm! "Block.PrevBlock", nm! "Block.Clear", nm! "block.ValidateState"),
  (nm! "Block.PrevBlock", nm! "Block.Clone", nm! "Block.ComputeState"),
  (nm! "Block.PrevBlock", nm! "Block.Clone", nm! "Block.SetPreviousBlock"),
  (nm! "Block.PrevBlock", nm! "Block.ComputeState", nm! "Block.SetPreviousBlock"),
  (nm! "Block.PrevBlock", nm! "Block.ComputeState", nm! "block.StateSanityCheck"),
  (nm! "Block.PrevBlock", nm! "Block.ComputeState", nm! "block.ValidateState"),
  (nm! "Block.PrevBlock", nm! "Block.SetPreviousBlock", nm! "block.StateSanityCheck"),
  (nm! "Block.PrevBlock", nm! "Block.SetPreviousBlock", nm! "block.ValidateState"),
  (nm! "Block.PrevBlockVerificationTickets", nm! "Block.SetPrevBlockVerificationTickets", nm! "UnverifiedBlockBody.Clone"),
  (nm! "Block.PrevBlockVerificationTickets", nm! "Block.SetPreviousBlock", nm! "UnverifiedBlockBody.Clone"),
  (nm! "Block.PrevHash", nm! "Block.ComputeState", nm! "Block.SetPreviousBlock"),
  (nm! "Block.PrevHash", nm! "Block.SetPreviousBlock", nm! "Block.getHashData"),
  (nm! "Block.PrevHash", nm! "Block.SetPreviousBlock", nm! "UnverifiedBlockBody.Clone"),
  (nm! "Block.PrevHash", nm! "Block.SetPreviousBlock", nm! "block.blockToBlockEvent"),
  (nm! "Block.Round", nm! "Block.ApplyBlockStateChange", nm! "Block.SetPreviousBlock"),
  (nm! "Block.Round", nm! "Block.ComputeState", nm! "Block.SetPreviousBlock"),
  (nm! "Block.Round", nm! "Block.CreateState", nm! "Block.SetPreviousBlock"),
  (nm! "Block.Round", nm! "Block.GetScore", nm! "Block.SetPreviousBlock"),
  (nm! "Block.Round", nm! "Block.GetSummary", nm! "Block.SetPreviousBlock"),
  (nm! "Block.Round", nm! "Block.SaveChanges", nm! "Block.SetPreviousBlock"),
  (nm! "Block.Round", nm! "Block.SetPreviousBlock", nm! "Block.SetPreviousBlock"),
  (nm! "Block.Round", nm! "Block.SetPreviousBlock", nm! "Block.getHashData"),
  (nm! "Block.Round", nm! "Block.SetPreviousBlock", nm! "Round.AddNotarizedBlock"),
  (nm! "Block.Round", nm! "Block.SetPreviousBlock", nm! "UnverifiedBlockBody.Clone"),
  (nm! "Block.Round", nm! "Block.SetPreviousBlock", nm! "block.CreateFinalizeBlockEvent"),
  (nm! "Block.Round", nm! "Block.SetPreviousBlock", nm! "block.CreateStateWithPreviousBlock"),
  (nm! "Block.Round", nm! "Block.SetPreviousBlock", nm! "block.blockToBlockEvent"),
  (nm! "Block.Round", nm! "Block.SetPreviousBlock", nm! "block.validateStateChangesRoot"),
  (nm! "Block.VerificationTickets", nm! "Block.AddVerificationTicket", nm! "Block.Clone"),
  (nm! "Block.VerificationTickets", nm! "Block.Clone", nm! "Block.MergeVerificationTickets"),
  (nm! "Block.VerificationTickets[]", nm! "Block.AddVerificationTicket", nm! "Block.Clone"),
  (nm! "Block.blockState", nm! "Block.Clone", nm! "Block.SetBlockState"),
  (nm! "Block.blockState", nm! "Block.GetBlockState", nm! "Block.SetBlockState"),
  (nm! "Block.blockState", nm! "Block.SetBlockState", nm! "Block.SetBlockState"),
  (nm! "Block.isNotarized", nm! "Block.Clone", nm! "Block.SetBlockNotarized"),
  (nm! "Block.stateStatus", nm! "Block.ApplyBlockStateChange", nm! "Block.SetStateStatus"),
  (nm! "Block.stateStatus", nm! "Block.Clone", nm! "Block.SetStateStatus"),
  (nm! "Block.verificationStatus", nm! "Block.Clone", nm! "Block.SetVerificationStatus"),
  (nm! "Block.verificationStatus", nm! "Block.GetVerificationStatus", nm! "Block.SetVerificationStatus"),
  (nm! "Block.verificationStatus", nm! "Block.SetVerificationStatus", nm! "Block.SetVerificationStatus"),
  (nm! "Round.RandomSeed", nm! "Round.Clone", nm! "Round.setRandomSeed"),
  (nm! "Round.notarizedBlocks", nm! "Round.AddNotarizedBlock", nm! "Round.GetNotarizedBlocks"),
  (nm! "Round.notarizedBlocks", nm! "Round.GetNotarizedBlocks", nm! "Round.initialize"),
  (nm! "Round.notarizedBlocks[]", nm! "Round.AddNotarizedBlock", nm! "Round.GetNotarizedBlocks"),
  (nm! "Round.notarizedBlocks[]", nm! "Round.GetNotarizedBlocks", nm! "Round.UpdateNotarizedBlock"),
  (nm! "Round.phase", nm! "Round.Clone", nm! "Round.ResetPhase"),
  (nm! "Round.phase", nm! "Round.Clone", nm! "Round.setPhase"),
  (nm! "Round.proposedBlocks[]", nm! "Round.GetProposedBlocks", nm! "Round.UpdateNotarizedBlock"),
  (nm! "Round.proposedBlocks[]", nm! "Round.GetProposedBlocks", nm! "Round.addProposedBlock"),
  (nm! "Round.softTimeoutCount", nm! "Round.Clone", nm! "Round.IncSoftTimeoutCount"),
  (nm! "Round.timeoutCounter.count", nm! "Round.Clone", nm! "timeoutCounter.IncrementTimeoutCount"),
  (nm! "Round.timeoutCounter.count", nm! "Round.Clone", nm! "timeoutCounter.SetTimeoutCount"),
  (nm! "Round.timeoutCounter.count", nm! "Round.Clone", nm! "timeoutCounter.checkCap"),
  (nm! "Round.timeoutCounter.perm", nm! "Round.Clone", nm! "timeoutCounter.rankTimeoutCounters"),
  (nm! "Round.timeoutCounter.prrs", nm! "Round.Clone", nm! "timeoutCounter.rankTimeoutCounters"),
  (nm! "Round.timeoutCounter.votes", nm! "Round.Clone", nm! "timeoutCounter.resetVotes"),
  (nm! "Round.vrfStartTime", nm! "Round.Clone", nm! "Round.SetVrfStartTime"),
  (nm! "VT.cancel", nm! "VT.validate", nm! "VT.validate"),
  (nm! "VT.roundMismatch", nm! "VT.main", nm! "VT.validate"),
  (nm! "VT.roundMismatch", nm! "VT.validate", nm! "VT.validate")
]

/-- Pairs the table cannot rule out but that are NOT findings:
* `GetBestRanked{Notarized,Proposed}Block` stable-sort a view of the round's slice in place under the READ lock; the
  table counts a sort as a write of the elements, but the slices are kept ordered by rank by the only writers, so the
  sort never moves an element (nothing for the detector to see);
* `block.ValidateState` reads `b.Round` only on an error-logging path a consistent state trie never takes. -/
def unconfirmed : Known := [
  (nm! "Round.notarizedBlocks[]", nm! "Round.Clone", nm! "Round.GetBestRankedNotarizedBlock"),
  (nm! "Round.notarizedBlocks[]", nm! "Round.GetBestRankedNotarizedBlock", nm! "Round.GetBestRankedNotarizedBlock"),
  (nm! "Round.notarizedBlocks[]", nm! "Round.GetBestRankedNotarizedBlock", nm! "Round.GetHeaviestNotarizedBlock"),
  (nm! "Round.notarizedBlocks[]", nm! "Round.GetBestRankedNotarizedBlock", nm! "Round.GetNotarizedBlocks"),
  (nm! "Round.proposedBlocks[]", nm! "Round.Clone", nm! "Round.GetBestRankedProposedBlock"),
  (nm! "Round.proposedBlocks[]", nm! "Round.GetBestRankedProposedBlock", nm! "Round.GetBestRankedProposedBlock"),
  (nm! "Round.proposedBlocks[]", nm! "Round.GetBestRankedProposedBlock", nm! "Round.GetProposedBlocks"),
  (nm! "Block.Round", nm! "Block.SetPreviousBlock", nm! "block.ValidateState")
]

def knownRacy : Known := confirmedRacy ++ unconfirmed

/-- the extracted context list contains the entries and is closed under the call edges -/
theorem contexts_closed : closedB table contexts = true := by decide +kernel

/-- every access of every context is in the group of its location, and every concurrent conflicting pair inside the
groups is one of the listed pairs -/
theorem table_check : checkB table contexts groups knownRacy = true := by decide +kernel

/-- **C44 (partial: the table minus the listed pairs).** Whatever two concurrently callable entry points of
`round.Round` / `block.Block` (all exported methods and functions of the two packages that reach an access, minus the
set-up list of xc44) or two goroutines of `ValidateTransactions` do, along call paths of any length: every pair of
accesses to one location with at least one write holds a common mutex of that object, at least one side exclusively,
or consists of two atomic operations — or is one of `knownRacy`.

Full statement (false, see `knownRacy` and `full_statement_false_on_pinned_rows`): `NoConflictExcept table []`. -/
theorem no_unsynchronised_conflict_partial : NoConflictExcept table knownRacy :=
  check_sound contexts_closed table_check

/-- what a clean tree gives: when the check passes with the EMPTY list, the full property holds of the table -/
theorem full_property_of_check {t : Table} {cs : List Ctx} {gs : Groups}
    (h₁ : closedB t cs = true) (h₂ : checkB t cs gs [] = true) : NoConflictExcept t [] :=
  check_sound h₁ h₂

/-! ## Negation witness

The rows of `GetNotarizedBlocks` (round/entity.go:368: returns `r.notarizedBlocks` without the mutex) and of
`AddNotarizedBlock` (entity.go:343: assigns it under `r.mutex.Lock()`) as extracted at the pinned commit. Stated over
these pinned rows and not over the regenerated table, so that a repaired tree does not break this file. -/
def pinned : Table :=
  ⟨[⟨nm! "Round.GetNotarizedBlocks", nm! "Round.notarizedBlocks", false, [], false, true, 368⟩,
    ⟨nm! "Round.AddNotarizedBlock", nm! "Round.notarizedBlocks", true, [⟨nm! "Round.mutex", true⟩], false, true, 343⟩],
   [],
   [⟨nm! "Round.GetNotarizedBlocks", 0, true⟩, ⟨nm! "Round.AddNotarizedBlock", 0, true⟩]⟩

theorem full_statement_false_on_pinned_rows : ¬ NoConflictExcept pinned [] :=
  not_noConflict_of_witness (e₁ := ⟨nm! "Round.GetNotarizedBlocks", 0, true⟩) (e₂ := ⟨nm! "Round.AddNotarizedBlock", 0, true⟩)
    (by decide) (by decide) ⟨rfl, Or.inl (by decide)⟩
    (a₁ := ⟨nm! "Round.GetNotarizedBlocks", nm! "Round.notarizedBlocks", false, [], false, true, 368⟩)
    (a₂ := ⟨nm! "Round.AddNotarizedBlock", nm! "Round.notarizedBlocks", true, [⟨nm! "Round.mutex", true⟩], false, true, 343⟩)
    (by decide) (by decide) rfl rfl (by decide)

/-- … and with the mutex taken (`RLock`) in the reader the same two rows satisfy the full property -/
def pinnedRepaired : Table :=
  ⟨[⟨nm! "Round.GetNotarizedBlocks", nm! "Round.notarizedBlocks", false, [⟨nm! "Round.mutex", false⟩], false, true, 368⟩,
    ⟨nm! "Round.AddNotarizedBlock", nm! "Round.notarizedBlocks", true, [⟨nm! "Round.mutex", true⟩], false, true, 343⟩],
   [],
   [⟨nm! "Round.GetNotarizedBlocks", 0, true⟩, ⟨nm! "Round.AddNotarizedBlock", 0, true⟩]⟩

theorem pinned_repaired_clean : NoConflictExcept pinnedRepaired [] :=
  full_property_of_check
    (cs := [⟨0, none, nm! "Round.GetNotarizedBlocks", []⟩, ⟨0, none, nm! "Round.AddNotarizedBlock", []⟩])
    (gs := [(nm! "Round.notarizedBlocks",
      [⟨0, none, nm! "Round.GetNotarizedBlocks", nm! "Round.notarizedBlocks", false, false, [⟨nm! "Round.mutex", false⟩]⟩,
       ⟨0, none, nm! "Round.AddNotarizedBlock", nm! "Round.notarizedBlocks", true, false, [⟨nm! "Round.mutex", true⟩]⟩])])
    (by decide) (by decide)

/-! ## Non-vacuity: the generated table is not empty and contains the anchored structures -/

/-- the extraction did not collapse: the table has accesses, writes, call edges, entries, contexts -/
theorem table_nonempty :
    100 ≤ accesses.length ∧ 20 ≤ (accesses.filter (·.write)).length ∧ 20 ≤ calls.length ∧ 40 ≤ entries.length ∧
      entries.length ≤ contexts.length := by decide +kernel

/-- the anchors of the property are in the table: the notarized-block list and the phase of a round, the tickets and
the state status of a block, and the closure variables of ValidateTransactions -/
theorem anchors_present :
    ∀ l ∈ [nm! "Round.notarizedBlocks", nm! "Round.phase", nm! "Block.VerificationTickets", nm! "Block.stateStatus",
        nm! "VT.cancel", nm! "VT.roundMismatch"],
      anyB accesses (fun a => Nat.beq a.loc l && a.write) = true := by decide +kernel

-- a reachable nested context exists: some function runs with an inherited lock
example : anyB contexts (fun c => !c.locks.isEmpty) = true := by decide +kernel
-- the rules are used, not just absent: in the generated table Round.VRFOutput is written under `mutex.Lock` and read
-- under `mutex.RLock` (a synchronised pair), and some pair IS flagged (the check with the empty list fails)
example : anyB groups (fun g => Nat.beq g.1 (nm! "Round.VRFOutput") &&
    anyB g.2 (fun p => p.write && anyB p.locks (fun l => l.excl)) &&
    anyB g.2 (fun p => !p.write && anyB p.locks (fun l => !l.excl)) &&
    allB g.2 (fun p => allB g.2 (fun q => pairOK [] p q))) = true := by decide +kernel
example : groupsOKB [] groups = false := by decide +kernel

/-! ## Ownership by index: shared slices written WITHOUT a lock

The lockset rows above cannot express why `encryption.BLS0ChainAggregateSignatureScheme` (no mutex; `Aggregate` does an
unsynchronised check-then-set on `ASigs[idx / BatchSize]` and `AGt[idx / BatchSize]`) is safe inside
`ValidateTransactions`: only because worker `k` is the sole writer of slot `k`. `xc44` (own.go) extracts the arithmetic —
the stride and bound of the spawning loop, the index expression `start + i` handed to `Aggregate`, the slot expression
`idx / BatchSize` and the batch size the aggregator is constructed with — and fails closed on any other shape.
`Proofs/IndexOwn.lean` proves: stride = bound = batch size ⇒ no two workers ever share a slot (`disjoint_of_eq`; also when
the batch size divides the stride, `disjoint_of_dvd`), and conversely a batch size that does NOT divide the stride makes
the last index of worker 0 and the first of worker 1 share a slot (`shared_of_not_dvd`; `balanced_stride_shares_a_slot` is
the instance 5 transactions / batch 4 / "balanced" stride 3). Here the premise is decided for the EXTRACTED expressions:
they must be literally the same expression (`mc.ValidationBatchSize()` at the pinned commit). -/
section IndexOwnership
open ZChain.IndexOwn

/-- the translator recognised the site and its stride, bound and aggregator batch size are one expression, its loop limit
and the aggregator's total another -/
theorem aggregator_site_recognised :
    stridedSites.map (·.name) = [nm! "VT.aggregator"] ∧ ∀ s ∈ stridedSites, s.sameBatch = true := by decide

/-- **C44, ownership by index.** For every valuation of the extracted expressions (the same text has the same value
within one call) and every number of transactions: two different batch workers of `ValidateTransactions` never hand the
lock-free aggregator indices of the same slot. -/
theorem aggregator_slots_disjoint : ∀ s ∈ stridedSites, ∀ val : Nat → Nat, s.Disjoint val :=
  fun s hs val => StridedSite.disjoint_of_sameBatch s (aggregator_site_recognised.2 s hs) val

/-- the one-goroutine-per-index sites (each goroutine gets the loop index by value and writes the shared slices only
there — checked by the translator, which fails closed otherwise) are present and non-empty -/
theorem per_index_sites_recognised :
    perIndexSites.map (·.1) = [nm! "storagesc.verifyChallengeTickets"] ∧ ∀ p ∈ perIndexSites, 0 < p.2 := by decide

end IndexOwnership

end ZChain.LockSet
