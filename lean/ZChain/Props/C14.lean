import ZChain.Props.C13
/-!
# C14 — Closing an allocation refunds the rest exactly once

Over `Model/Storage.lean` (`close` = `finalizeAllocation` / `cancelAllocationRequest` with `finishAllocation`):

* `close_authorised` — a successful finalize is sent by the owner or one of the allocation's blobbers at or after the
  expiration; a successful cancel is sent by the owner at or before it;
* `close_payout` — with `cp` the challenge pool and `X` the tokens debited from the two pools for blobbers:
  `X ≤ WritePool + cp`, the amounts credited to blobbers sum to at most `X`, the owner receives exactly
  `WritePool + cp − X` from the contract wallet, nobody else's balance changes;
* `close_credits` — each blobber's stake pool gains exactly the credited amounts of its blobber allocations, and a
  killed or under-staked pool gains nothing;
* `close_once` — afterwards allocation node and challenge pool node are gone, and (`closed_ops_fail`) every
  finalize, cancel, write-pool lock, upload/delete, challenge response and update addressed to that allocation fails
  without touching the state; `closed_forever`: no later operation brings slot `k` back (ids are never reused);
* non-vacuity: `W1` of Props/C13 is closed by its owner (cancel) and by a blobber after expiry (finalize).

Limits: `X` and the credited amounts are observed parameters (the pricing of challenge rewards and of the
cancellation charge is not modelled); the bound "at most the earned challenge rewards plus the cancellation charge"
is checked on the real code by the harness oracle (`C14:blobbers-overpaid`), not proved.
-/
namespace ZChain.Storage

attribute [local irreducible] offer

/-- what a successful close consists of -/
theorem close_inversion {s s' : State} {fin : Bool} {k : Nat} {c : Caller} {X : Nat} {per : List (Nat × Nat)}
    {rates : List (Nat × Nat × Nat)} (h : close s fin k c X per rates = .ok s') :
    ∃ a cp s1, s.allocs k = some a ∧ s.cps k = some cp ∧
      (fin = true → (c = .client a.owner ∨ callerIsBlobber a.bas c = true) ∧ a.exp ≤ s.now) ∧
      (fin = false → c = .client a.owner ∧ s.now ≤ a.exp) ∧
      offersReleasable s a.bas = true ∧
      X ≤ a.wp + cp ∧ sumCr per ≤ X ∧
      payBounded a.bas per rates = true ∧ sumCc rates ≤ costOf a.bas / 5 + a.bas.length ∧
      closeBlobbers s a.bas per = some s1 ∧
      payOut s1 a.owner (a.wp + cp - X) = .ok { s' with allocs := s1.allocs, cps := s1.cps } ∧
      s'.allocs = s1.allocs.set k none ∧ s'.cps = s1.cps.set k none := by
  unfold close at h
  split at h
  · cases h
  · rename_i a ha
    dsimp only at h
    split at h
    · cases h
    · rename_i h1
      split at h
      · cases h
      · rename_i h2
        split at h
        · cases h
        · rename_i h3
          split at h
          · cases h
          · rename_i h4
            split at h
            · cases h
            · rename_i h5
              split at h
              · cases h
              · rename_i cp hcp
                split at h
                · cases h
                · rename_i h6
                  split at h
                  · cases h
                  · rename_i h7
                    split at h
                    · cases h
                    · rename_i s1 hs1
                      split at h
                      · cases h
                      · rename_i s2 hs2
                        cases h
                        have e2 := payOut_eq hs2
                        have ea : s2.allocs = s1.allocs := by rw [e2]
                        have ec : s2.cps = s1.cps := by rw [e2]
                        simp only [Bool.or_eq_true, Bool.not_eq_true', decide_eq_true_eq, not_or, Bool.not_eq_false, Nat.not_lt] at h7
                        refine ⟨a, cp, s1, ha, hcp, ?_, ?_, by simpa using h5, by omega, by omega, h7.1, h7.2, hs1, ?_, by simp only [ea], by simp only [ec]⟩
                        · intro hf; subst hf
                          simp only [Bool.true_and, Bool.not_eq_true', Bool.or_eq_false_iff, decide_eq_false_iff_not, not_and,
                            Bool.not_eq_false, decide_eq_true_eq, Nat.not_lt] at h1 h3
                          refine ⟨?_, h3⟩
                          by_cases ho : c = .client a.owner
                          · exact Or.inl ho
                          · exact Or.inr (h1 ho)
                        · intro hf; subst hf
                          simp only [Bool.not_false, Bool.true_and, Bool.not_eq_true', decide_eq_false_iff_not,
                            decide_eq_true_eq, Nat.not_lt] at h2 h4
                          exact ⟨Classical.not_not.mp h2, h4⟩
                        · rw [hs2]; congr 1; rw [e2]

/-- **close_authorised** -/
theorem close_authorised {s s' : State} {fin : Bool} {k : Nat} {c : Caller} {X : Nat} {per : List (Nat × Nat)}
    {rates : List (Nat × Nat × Nat)} (h : stepRel s (.close fin k c X per rates) s') :
    ∃ a, s.allocs k = some a ∧
      (fin = true → (c = .client a.owner ∨ callerIsBlobber a.bas c = true) ∧ a.exp ≤ s.now) ∧
      (fin = false → c = .client a.owner ∧ s.now ≤ a.exp) := by
  obtain ⟨a, cp, s1, ha, _, h1, h2, _⟩ := close_inversion h
  exact ⟨a, ha, h1, h2⟩

/-- **close_payout**: refund + debited-for-blobbers = write pool + challenge pool; the refund is paid to the owner out of
the contract wallet; no other client balance moves; what blobbers are credited is at most what was debited. -/
theorem close_payout {s s' : State} {fin : Bool} {k : Nat} {c : Caller} {X : Nat} {per : List (Nat × Nat)}
    {rates : List (Nat × Nat × Nat)} (h : stepRel s (.close fin k c X per rates) s') :
    ∃ a cp, s.allocs k = some a ∧ s.cps k = some cp ∧ X ≤ a.wp + cp ∧ sumCr per ≤ X ∧
      s'.wallet + (a.wp + cp - X) = s.wallet ∧
      s'.clients a.owner = s.clients a.owner + (a.wp + cp - X) ∧
      (∀ j, j ≠ a.owner → s'.clients j = s.clients j) ∧
      s'.allocs k = none ∧ s'.cps k = none := by
  obtain ⟨a, cp, s1, ha, hcp, _, _, _, hx, hcr, _, _, hs1, hpay, hal, hc⟩ := close_inversion h
  obtain ⟨fw, fc, _⟩ := closeBlobbers_frame14 hs1
  have e := payOut_eq hpay
  have hw : s1.wallet ≥ a.wp + cp - X := by
    unfold payOut at hpay
    split at hpay
    · cases hpay
    · omega
  have ew : s'.wallet = s1.wallet - (a.wp + cp - X) := by
    have := congrArg State.wallet e; simpa using this
  have ecl : s'.clients = setFn s1.clients a.owner (s1.clients a.owner + (a.wp + cp - X)) := by
    have := congrArg State.clients e; simpa using this
  refine ⟨a, cp, ha, hcp, hx, hcr, by rw [ew, ← fw]; omega, by rw [ecl, fc]; simp [setFn], fun j hj => by rw [ecl, fc]; simp [setFn, hj],
    by rw [hal, Map.set_same], by rw [hc, Map.set_same]⟩

/-- **close_payout_bounded**: what a close credits is bounded per blobber allocation by its earned challenge value — the
outstanding challenge value times the pass rate `succ/total` of the settle step — plus its share `cc` of the
cancellation charge, and the shares together by the charge cap (a fifth of the allocation's cost, i.e. of Σ offers):
for every position `n`: `cr_n · total_n ≤ cv_n · succ_n + (cc_n + 1) · total_n`, `0 < total_n`, and
`Σ cc ≤ cost/5 + #blobbers` (the `+1`s absorb the float64 truncations). The pass rates and charge shares are
observed parameters, so this is the model's ADMISSIBILITY condition: the real code is compared against it on every
close (a close that pays more is answered `inadmissible blobbers-overpaid` by the driver). -/
theorem close_payout_bounded {s s' : State} {fin : Bool} {k : Nat} {c : Caller} {X : Nat} {per : List (Nat × Nat)}
    {rates : List (Nat × Nat × Nat)} (h : stepRel s (.close fin k c X per rates) s') :
    ∃ a, s.allocs k = some a ∧ payBounded a.bas per rates = true ∧ sumCc rates ≤ costOf a.bas / 5 + a.bas.length ∧
      (∀ (n : Nat) (d : BA) (dp cr succ total cc : Nat), a.bas[n]? = some d → per[n]? = some (dp, cr) → rates[n]? = some (succ, total, cc) →
        0 < total ∧ cr * total ≤ d.cv * succ + (cc + 1) * total) := by
  obtain ⟨a, cp, s1, ha, _, _, _, _, _, _, hb, hc, _⟩ := close_inversion h
  refine ⟨a, ha, hb, hc, ?_⟩
  have gen : ∀ (l : List BA) (ps : List (Nat × Nat)) (rs : List (Nat × Nat × Nat)), payBounded l ps rs = true →
      ∀ (n : Nat) (d : BA) (dp cr succ total cc : Nat), l[n]? = some d → ps[n]? = some (dp, cr) → rs[n]? = some (succ, total, cc) →
        0 < total ∧ cr * total ≤ d.cv * succ + (cc + 1) * total := by
    intro l
    induction l with
    | nil => intro ps rs _ n d dp cr succ total cc hd; simp at hd
    | cons x xs ih =>
      intro ps rs hp n d dp cr succ total cc hd hpn hrn
      cases ps with
      | nil => simp [payBounded] at hp
      | cons p ps' =>
        cases rs with
        | nil => obtain ⟨_, _⟩ := p; simp [payBounded] at hp
        | cons r rs' =>
          obtain ⟨dp0, cr0⟩ := p
          obtain ⟨su0, to0, cc0⟩ := r
          simp only [payBounded, Bool.and_eq_true, decide_eq_true_eq] at hp
          cases n with
          | zero =>
            simp only [List.getElem?_cons_zero, Option.some.injEq, Prod.mk.injEq] at hd hpn hrn
            obtain ⟨rfl, rfl⟩ := hpn
            obtain ⟨rfl, rfl, rfl⟩ := hrn
            subst hd
            exact hp.1
          | succ m =>
            simp only [List.getElem?_cons_succ] at hd hpn hrn
            exact ih ps' rs' hp.2 m d dp cr succ total cc hd hpn hrn
  exact gen a.bas per rates hb

/-- sum of the credited amounts of the entries of blobber `i` -/
def crSum (i : Nat) : List BA → List (Nat × Nat) → Nat
  | d :: ds, (_, cr) :: rest => (if d.blobber = i then cr else 0) + crSum i ds rest
  | _, _ => 0

/-- **close_credits**: a stake pool's unpaid rewards grow by exactly the amounts credited for its blobber allocations;
pools that are killed or hold less than the minimum stake after the slash are credited nothing. -/
theorem close_credits : ∀ {l : List BA} {per : List (Nat × Nat)} {s s' : State},
    closeBlobbers s l per = some s' →
    (∀ i, (s'.sps i).map (·.rewards) = (s.sps i).map (fun sp => sp.rewards + crSum i l per)) := by
  intro l
  induction l with
  | nil =>
    intro per s s' h i
    cases per with
    | nil => simp only [closeBlobbers] at h; cases h; cases s.sps i <;> simp [crSum]
    | cons p ps => simp [closeBlobbers] at h
  | cons d ds ih =>
    intro per s s' h i
    cases per with
    | nil => simp [closeBlobbers] at h
    | cons p ps =>
      obtain ⟨dp, cr⟩ := p
      simp only [closeBlobbers] at h
      split at h
      · rename_i b sp hb hsp
        split at h
        · cases h
        · split at h
          · cases h
          · rw [ih h i]
            by_cases hi : i = d.blobber
            · subst hi
              rw [view_set_same, hsp]
              simp only [Option.map_some, crSum, if_true]
              congr 1; omega
            · have hdi : ¬ d.blobber = i := fun e => hi e.symm
              rw [view_set_other _ _ _ hi]
              simp only [crSum, hdi, if_false, Nat.zero_add]
      · cases h

/-- **close_once**, part 1: both nodes are removed. -/
theorem close_once {s s' : State} {fin : Bool} {k : Nat} {c : Caller} {X : Nat} {per : List (Nat × Nat)}
    {rates : List (Nat × Nat × Nat)} (h : stepRel s (.close fin k c X per rates) s') : s'.allocs k = none ∧ s'.cps k = none :=
  close_removes h

/-- **close_once**, part 2: every operation addressed to a closed (absent) allocation fails as `absent`, i.e. without
any state change — a second finalize or cancel by anybody, a write-pool lock, a write marker, a challenge response,
an update, a read marker. -/
theorem closed_ops_fail {s : State} {k : Nat} (hk : s.allocs k = none) :
    (∀ fin c X per rates, step s (.close fin k c X per rates) = .error (.fail "absent")) ∧
    (∀ j v, step s (.wpLock k j v) = .error (.fail "absent")) ∧
    (∀ i sz mv, step s (.commit k i sz mv) = .error (.fail "absent")) ∧
    (∀ i D m V dp cr, step s (.respPass k i D m V dp cr) = .error (.fail "absent")) ∧
    (∀ c v sz e ad rm rw cc dp ds, step s (.update k c v sz e ad rm rw cc dp ds) = .error (.fail "absent")) ∧
    (∀ i j p, step s (.readRedeem k i j p) = .error (.fail "absent")) := by
  refine ⟨?_, ?_, ?_, ?_, ?_, ?_⟩
  · intro fin c X per rates; simp only [step, close, hk]
  · intro j v; simp only [step, wpLock, hk]
  · intro i sz mv; simp only [step, commit, hk]
  · intro i D m V dp cr; simp only [step, respPass, hk]
  · intro c v sz e ad rm rw cc dp ds; simp only [step, update, hk]
  · intro i j p; simp only [step, readRedeem, hk]


/-! ### a closed slot stays closed -/

/-- `s'` differs from `s` in the allocation map at most at slots that were occupied; `nallocs` does not shrink -/
def KeepsNone (s s' : State) : Prop := (∀ k, k < s.nallocs → s.allocs k = none → s'.allocs k = none) ∧ s.nallocs ≤ s'.nallocs

theorem keepsNone_frame {s s' : State} (f : Frame s s') (hn : s'.nallocs = s.nallocs) : KeepsNone s s' :=
  ⟨fun k _ h => by rw [f.1]; exact h, by omega⟩

theorem keepsNone_set {s s' : State} {k' : Nat} {a : Alloc} {oa : Option Alloc} (h0 : s.allocs k' = some a)
    (ha : s'.allocs = s.allocs.set k' oa) (hn : s'.nallocs = s.nallocs) : KeepsNone s s' := by
  refine ⟨fun k _ h => ?_, by omega⟩
  rw [ha]
  by_cases hk : k = k'
  · subst hk; rw [h0] at h; cases h
  · rw [Map.set_other _ _ hk]; exact h

theorem KeepsNone.trans {a b c : State} (h1 : KeepsNone a b) (h2 : KeepsNone b c) : KeepsNone a c :=
  ⟨fun k hk h => h2.1 k (by have := h1.2; omega) (h1.1 k hk h), by have := h1.2; have := h2.2; omega⟩

theorem payIn_nallocs {s s' : State} {j v : Nat} (h : payIn s j v = .ok s') : s'.nallocs = s.nallocs := by
  rw [payIn_eq h]
theorem payOut_nallocs {s s' : State} {j v : Nat} (h : payOut s j v = .ok s') : s'.nallocs = s.nallocs := by
  rw [payOut_eq h]

theorem updLock_keeps {s s' : State} {k j v : Nat} (h : updLock s k j v = .ok s') : KeepsNone s s' := by
  unfold updLock at h
  split at h
  · cases h
  · rename_i a ha
    ok_branches h; subst_pay
    exact keepsNone_set ha rfl rfl

theorem updBlobbers_keeps {s s' : State} {k : Nat} {add rem : Option Nat} {rw cc dp : Nat}
    (h : updBlobbers s k add rem rw cc dp = .ok s') : KeepsNone s s' := by
  unfold updBlobbers at h
  split at h
  · cases h; exact keepsNone_frame (Frame.refl _) rfl
  · cases h
  · unfold updAdd at h
    split at h
    · rename_i a _ _ ha _ _
      ok_branches h
      exact keepsNone_set ha rfl rfl
    · cases h
  · split at h
    · unfold updReplaceKilled at h
      split at h
      · rename_i a _ _ _ ha _ _ _
        split at h
        · cases h
        · ok_branches h
          exact keepsNone_set ha rfl rfl
      · cases h
    · unfold updReplaceAlive at h
      split at h
      · rename_i a _ _ _ _ _ ha _ _ _ _ _
        split at h
        · cases h
        · ok_branches h
          exact keepsNone_set ha rfl rfl
      · cases h

theorem updExtend_keeps {s s' : State} {k size : Nat} {ds : List Int} (h : updExtend s k size ds = .ok s') : KeepsNone s s' := by
  unfold updExtend at h
  split at h
  · rename_i a cp ha hcp
    split at h
    · cases h
    · split at h
      · cases h
      · dsimp only at h
        split at h
        · cases h
        · rename_i s1 bas1 h1
          split at h
          · cases h
          · cases h
            obtain ⟨f1, f2, _⟩ := extendAll_effect h1
            exact keepsNone_set (s := s) ha (by simp only; rw [f1]) (by simp only; exact f2)
  · cases h

theorem step_keeps {s s' : State} {op : Op} (h : stepRel s op s') : KeepsNone s s' := by
  unfold stepRel at h
  cases op with
  | addBlobber i c p => exact keepsNone_frame (addBlobber_frame h) (by simp only [step] at h; unfold addBlobber at h; ok_branches h; rfl)
  | addValidator i => exact keepsNone_frame (addValidator_frame h) (by simp only [step] at h; unfold addValidator at h; ok_branches h; rfl)
  | stake v i j amt => exact keepsNone_frame (stake_frame h) (stake_frame13 h).2.1
  | unstake v i j amt rew => exact keepsNone_frame (unstake_frame h) (unstake_frame13 h).2.1
  | collect v i j rew => exact keepsNone_frame (collect_frame h) (collect_frame13 h).2.1
  | updBlobber i c p => exact keepsNone_frame (updBlobber_frame h) (updBlobber_frame13 h).2.1
  | killBlobber i n d => exact keepsNone_frame (killBlobber_frame h) (by simp only [step] at h; unfold killBlobber at h; ok_branches h <;> rfl)
  | shutBlobber i n d => exact keepsNone_frame (shutBlobber_frame h) (by simp only [step] at h; unfold shutBlobber at h; ok_branches h <;> rfl)
  | killValidator i n d => exact keepsNone_frame (killValidator_frame h) (killValidator_frame13 h).2.1
  | newAlloc j data size value chosen =>
    simp only [step] at h
    unfold newAlloc at h
    split at h
    · cases h
    · split at h
      · cases h
      · rename_i s1 bas h1
        split at h
        · cases h
        · rename_i s2 h2
          cases h
          have e := payIn_eq h2; subst e
          obtain ⟨f1, f2, _⟩ := assignAll_effect h1
          refine ⟨fun k hk hn => ?_, by simp only; omega⟩
          simp only
          rw [Map.set_other _ _ (by omega), f1]; exact hn
  | update k c value size ext add rem rw cc dp ds =>
    simp only [step] at h
    rw [update_eq] at h
    have hpre : ∀ s2 b, preExtend s k c value size ext add rem rw cc dp = .ok (s2, b) → KeepsNone s s2 := by
      intro s2 b hp
      unfold preExtend at hp
      split at hp
      · cases hp
      · split at hp
        · split at hp
          · cases hp
          · dsimp only at hp
            split at hp
            · split at hp
              · cases hp
              · split at hp
                · cases hp
                · rename_i s1 h1; cases hp; exact updLock_keeps h1
            · split at hp
              · cases hp
              · rename_i s1 h1
                split at hp
                · cases hp
                · rename_i s2' h2
                  cases hp
                  exact (updLock_keeps h1).trans (updBlobbers_keeps h2)
        · cases hp
    split at h
    · cases h
    · rename_i s2 hp; exact (hpre s2 true hp).trans (updExtend_keeps h)
    · rename_i s2 hp; cases h; exact hpre _ false hp
  | commit k i size move =>
    simp only [step] at h
    unfold commit at h
    split at h
    · cases h
    · rename_i a ha
      split at h
      · ok_branches h <;> exact keepsNone_set ha rfl rfl
      · cases h
  | respPass k i D m V dp cr =>
    simp only [step] at h
    unfold respPass at h
    split at h
    · cases h
    · rename_i a ha
      split at h
      · ok_branches h; exact keepsNone_set ha rfl rfl
      · cases h
  | close fin k c X per rates =>
    obtain ⟨a, cp, s1, ha, _, _, _, _, _, _, _, _, hs1, hpay, hal, _⟩ := close_inversion h
    obtain ⟨e1, e2, _⟩ := closeBlobbers_effect hs1
    have hn : s'.nallocs = s.nallocs := by
      have := congrArg State.nallocs (payOut_eq hpay)
      simp only at this
      rw [this, e2]
    exact keepsNone_set ha (by rw [hal, e1]) hn
  | wpLock k j v =>
    simp only [step] at h
    unfold wpLock at h
    split at h
    · cases h
    · rename_i a ha
      ok_branches h; subst_pay
      exact keepsNone_set ha rfl rfl
  | rpLock j v => exact keepsNone_frame (rpLock_frame h) (rpLock_frame13 h).2.1
  | rpUnlock j v => exact keepsNone_frame (rpUnlock_frame h) (rpUnlock_frame13 h).2.1
  | readRedeem k i j p => exact keepsNone_frame (readRedeem_frame h) (readRedeem_frame13 h).2.1
  | tick dt => simp only [step] at h; cases h; exact keepsNone_frame ⟨rfl, rfl⟩ rfl
  | noop => simp only [step] at h; cases h; exact keepsNone_frame (Frame.refl _) rfl

/-- **closed_forever**: once slot `k` (below `nallocs`) is empty, no history of admissible operations fills it again —
the model's counterpart of "the allocation id is the hash of its creating transaction". -/
theorem closed_forever {s : State} {k : Nat} (hk : k < s.nallocs) (hn : s.allocs k = none) :
    ∀ (ops : List Op) (s' : State), run s ops = .ok s' → s'.allocs k = none ∧ k < s'.nallocs := by
  intro ops
  induction ops generalizing s with
  | nil => intro s' h; simp only [run] at h; cases h; exact ⟨hn, hk⟩
  | cons op ops ih =>
    intro s' h
    simp only [run] at h
    split at h
    · rename_i s1 h1
      have kn := step_keeps (s := s) (s' := s1) h1
      exact ih (by have := kn.2; omega) (kn.1 k hk hn) s' h
    · exact ih hk hn s' h
    · cases h

/-! ### non-vacuity: the reachable state `W1` of Props/C13 is closed both ways -/

example : stepOk W1 (.close false 0 (.client 3) 0 [(0, 0), (0, 0)] [(1, 1, 0), (1, 1, 0)]) = true := by decide +kernel
example : stepOk { W1 with now := init.now + TU } (.close true 0 (.blobber 0) 0 [(0, 0), (0, 0)] [(1, 1, 0), (1, 1, 0)]) = true := by decide +kernel
/-- … and refused to a stranger, to the owner too early, and a second time -/
example : stepOk W1 (.close false 0 (.client 2) 0 [(0, 0), (0, 0)] [(1, 1, 0), (1, 1, 0)]) = false ∧
    stepOk W1 (.close true 0 (.client 3) 0 [(0, 0), (0, 0)] [(1, 1, 0), (1, 1, 0)]) = false ∧
    stepOk (after W1 (.close false 0 (.client 3) 0 [(0, 0), (0, 0)] [(1, 1, 0), (1, 1, 0)])) (.close false 0 (.client 3) 0 [] []) = false := by decide +kernel

end ZChain.Storage
