import ZChain.Model.LFB
import ZChain.Generated.C41
/-!
# C41 — LFB tickets are authentic and never move backwards

"The latest finalized-block ticket a node reports never has a lower round than one it reported before. It only
adopts received tickets signed by a sharder of the current magic block."

Statements are about `Model/LFB.lean` (handler `verifyLFBTicket` + `AddReceivedLFBTicket`, the worker's
`updateLFBTicket` / `broadcastLFBTicket` cases), tied to the real handler and worker by `harness/cmd/c41`.

The second sentence is FALSE of the code: `verifyLFBTicket` looks the signer up with `node.GetNode`, the global
registry of every node ever registered — miners, and sharders of earlier magic blocks, included
(`adopt_only_sharder_of_mb_false`, confirmed on the real code). What holds is `adopted_is_authentic_partial`: an
adopted received ticket is signed, over exactly its own three fields, by the key of the registered node it names.
`adopt_only_sharder_if_registry_is_mb` shows the full statement follows as soon as the lookup set is the sharder
pool of the current magic block (the repair: look the signer up there).
-/
namespace ZChain.LFB

/-! ## never backwards -/

theorem firstMaxT_ge (p : Ticket) (l : List Ticket) : p.round ≤ (firstMaxT p l).round := by
  induction l generalizing p with
  | nil => exact Int.le_refl _
  | cons t ts ih =>
    unfold firstMaxT
    split
    · have := ih t; omega
    · exact ih p

theorem firstMaxT_mem (p : Ticket) (l : List Ticket) : firstMaxT p l = p ∨ firstMaxT p l ∈ l := by
  induction l generalizing p with
  | nil => left; rfl
  | cons t ts ih =>
    unfold firstMaxT
    split
    · rcases ih t with h | h
      · right; rw [h]; exact List.mem_cons_self
      · right; exact List.mem_cons_of_mem _ h
    · rcases ih p with h | h
      · left; exact h
      · right; exact List.mem_cons_of_mem _ h

theorem adoptU_ge (latest : Ticket) (batch : List Ticket) : latest.round ≤ (adoptU latest batch).round := by
  cases batch with
  | nil => exact Int.le_refl _
  | cons t ts =>
    simp only [adoptU]
    split
    · exact Int.le_refl _
    · omega

theorem adoptB_ge (self : Nat) (latest : Ticket) (batch : List (Int × Nat)) :
    latest.round ≤ (adoptB self latest batch).round := by
  cases batch with
  | nil => exact Int.le_refl _
  | cons b bs =>
    simp only [adoptB]
    split
    · exact Int.le_refl _
    · split
      · simp only [newTicket] at *; omega
      · exact Int.le_refl _

/-- no event lowers the round of the ticket the node reports -/
theorem latest_monotone_step (w : W) (e : Ev) : w.latest.round ≤ (step w e).latest.round := by
  cases e <;> simp only [step]
  case handle t => split <;> exact Int.le_refl _
  case kick r => exact Int.le_refl _
  case bcast r h => split <;> exact Int.le_refl _
  case procU k => exact adoptU_ge _ _
  case procB k => exact adoptB_ge _ _ _
  case get => exact Int.le_refl _

theorem trace_ge (evs : List Ev) : ∀ (w : W), ∀ x ∈ trace w evs, w.latest.round ≤ x := by
  induction evs with
  | nil => intro w x hx; simp [trace] at hx; omega
  | cons e es ih =>
    intro w x hx
    simp only [trace, List.mem_cons] at hx
    rcases hx with rfl | hx
    · exact Int.le_refl _
    · exact Int.le_trans (latest_monotone_step w e) (ih _ x hx)

/-- **latest_monotone**: over ANY stream of events — received tickets (valid or not, any round, any signer), kicks,
local broadcasts, and the worker taking its two channels in any order and with any batch boundaries — the rounds
reported by `GetLatestLFBTicket` never decrease. -/
theorem latest_monotone (w : W) (evs : List Ev) : (trace w evs).Pairwise (· ≤ ·) := by
  induction evs generalizing w with
  | nil => simp [trace]
  | cons e es ih =>
    simp only [trace, List.pairwise_cons]
    exact ⟨fun x hx => Int.le_trans (latest_monotone_step w e) (trace_ge es _ x hx), ih _⟩

/-! ## the result does not depend on how the worker splits its input into batches -/

theorem firstMaxT_append (p : Ticket) (l1 l2 : List Ticket) :
    firstMaxT p (l1 ++ l2) = firstMaxT (firstMaxT p l1) l2 := by
  induction l1 generalizing p with
  | nil => rfl
  | cons t ts ih =>
    simp only [List.cons_append, firstMaxT]
    split <;> exact ih _

theorem firstMaxT_choice (p u : Ticket) (us : List Ticket) :
    firstMaxT p (u :: us) = if (firstMaxT u us).round > p.round then firstMaxT u us else p := by
  induction us generalizing p u with
  | nil => simp [firstMaxT]
  | cons v vs ih =>
    have e1 := ih p v
    have e2 := ih u v
    have hge := firstMaxT_ge v vs
    rw [show firstMaxT p (u :: v :: vs) = if u.round > p.round then firstMaxT u (v :: vs) else firstMaxT p (v :: vs) from rfl]
    rw [e1, e2]
    by_cases h1 : u.round > p.round <;> by_cases h2 : (firstMaxT v vs).round > u.round <;>
      by_cases h3 : (firstMaxT v vs).round > p.round <;> simp [h1, h2, h3] <;> omega

/-- **adoptU_append**: taking `b1 ++ b2` as one batch or as two successive batches leaves the same `latest`. -/
theorem adoptU_append (latest : Ticket) (b1 b2 : List Ticket) :
    adoptU latest (b1 ++ b2) = adoptU (adoptU latest b1) b2 := by
  cases b1 with
  | nil => rfl
  | cons t ts =>
    cases b2 with
    | nil => simp [adoptU]
    | cons u us =>
      simp only [List.cons_append, adoptU]
      rw [firstMaxT_append, firstMaxT_choice]
      have := firstMaxT_ge u us
      by_cases h1 : (firstMaxT t ts).round ≤ latest.round <;>
        by_cases h2 : (firstMaxT u us).round > (firstMaxT t ts).round <;>
        by_cases h3 : (firstMaxT u us).round ≤ latest.round <;> simp [h1, h2, h3] <;> omega

/-- a ticket is adopted exactly when it is the first of maximal round in its batch and newer than `latest` -/
theorem adoptU_spec (latest t : Ticket) (ts : List Ticket) :
    adoptU latest (t :: ts) = if (firstMaxT t ts).round > latest.round then firstMaxT t ts else latest := by
  simp only [adoptU]
  by_cases h : (firstMaxT t ts).round ≤ latest.round
  · have h' : ¬ (firstMaxT t ts).round > latest.round := by omega
    simp only [h, h', if_true, if_false]
  · have h' : (firstMaxT t ts).round > latest.round := by omega
    simp only [h, h', if_true, if_false]

/-! ## authenticity -/

/-- what `verifyLFBTicket` guarantees -/
theorem verify_sound (nodes : List Node) (t : Ticket) (h : verify nodes t = true) :
    ∃ n ∈ nodes, n.id = t.sharder ∧ t.sign = some ⟨n.id, t.round, t.sharder, t.lfbHash⟩ := by
  unfold verify at h
  cases hf : nodes.find? (fun n => n.id == t.sharder) with
  | none => simp [hf] at h
  | some n =>
    simp only [hf] at h
    cases hs : t.sign with
    | none => simp [hs] at h
    | some s =>
      simp only [hs, Bool.and_eq_true, beq_iff_eq] at h
      obtain ⟨⟨⟨h1, h2⟩, h3⟩, h4⟩ := h
      have hid : n.id = t.sharder := by simpa using List.find?_some hf
      refine ⟨n, List.mem_of_find?_eq_some hf, hid, ?_⟩
      cases s
      simp_all

/-- a ticket the node may hold: its own, an unsigned local kick, or one that passed `verifyLFBTicket` -/
def Authentic (nodes : List Node) (t : Ticket) : Prop :=
  t.own = true ∨ t.sign = none ∨ verify nodes t = true

def Inv (w : W) : Prop := Authentic w.nodes w.latest ∧ ∀ t ∈ w.uq, Authentic w.nodes t

theorem step_nodes (w : W) (e : Ev) : (step w e).nodes = w.nodes := by
  cases e <;> simp only [step] <;> (try split) <;> rfl

theorem step_inv (w : W) (e : Ev) (h : Inv w) : Inv (step w e) := by
  obtain ⟨h1, h2⟩ := h
  cases e <;> simp only [step]
  case handle t0 =>
    generalize ({ t0 with own := false } : Ticket) = t
    by_cases hv : verify w.nodes t = true
    · simp only [hv, if_true]
      refine ⟨h1, fun x hx => ?_⟩
      rcases List.mem_append.mp hx with hx | hx
      · exact h2 x hx
      · simp only [List.mem_singleton] at hx; subst hx; exact Or.inr (Or.inr hv)
    · simp only [hv, Bool.false_eq_true, if_false]; exact ⟨h1, h2⟩
  case kick r =>
    refine ⟨h1, fun x hx => ?_⟩
    rcases List.mem_append.mp hx with hx | hx
    · exact h2 x hx
    · simp only [List.mem_singleton] at hx; subst hx; exact Or.inr (Or.inl rfl)
  case bcast r hh => split <;> exact ⟨h1, h2⟩
  case procU k =>
    refine ⟨?_, fun x hx => h2 x (List.mem_of_mem_drop hx)⟩
    cases hb : w.uq.take (k + 1) with
    | nil => exact h1
    | cons t ts =>
      simp only [adoptU]
      split
      · exact h1
      · have hmem : ∀ x ∈ t :: ts, x ∈ w.uq := fun x hx => List.mem_of_mem_take (hb ▸ hx)
        rcases firstMaxT_mem t ts with hm | hm
        · rw [hm]; exact h2 t (hmem t List.mem_cons_self)
        · exact h2 _ (hmem _ (List.mem_cons_of_mem _ hm))
  case procB k =>
    refine ⟨?_, h2⟩
    cases hb : w.bq.take (k + 1) with
    | nil => exact h1
    | cons b bs =>
      simp only [adoptB]
      split
      · exact h1
      · split
        · exact Or.inl rfl
        · exact h1
  case get => exact ⟨h1, h2⟩

theorem init_inv (nodes : List Node) (self : Nat) (ss : Bool) (r : Int) (h : Nat) : Inv (init nodes self ss r h) :=
  ⟨Or.inl rfl, fun t ht => by simp [init] at ht⟩

theorem run_inv (w : W) (evs : List Ev) (h : Inv w) : Inv (run w evs) := by
  induction evs generalizing w with
  | nil => exact h
  | cons e es ih => exact ih _ (step_inv w e h)

theorem run_nodes (w : W) (evs : List Ev) : (run w evs).nodes = w.nodes := by
  induction evs generalizing w with
  | nil => rfl
  | cons e es ih => rw [show run w (e :: es) = run (step w e) es from rfl, ih, step_nodes]

/-- FULL STATEMENT (false of the code, see `adopt_only_sharder_of_mb_false`): after any event stream, a reported
ticket that is not the node's own and is signed was signed by a node `n` with `n.kind = .sharder ∧ n.inMB = true`.

**adopted_is_authentic_partial**: it was signed by the key of the REGISTERED node it names, over exactly its own
round, sender and block hash. -/
theorem adopted_is_authentic_partial (nodes : List Node) (self : Nat) (ss : Bool) (r : Int) (h : Nat) (evs : List Ev) :
    let t := (run (init nodes self ss r h) evs).latest
    t.own = false → t.sign ≠ none →
    ∃ n ∈ nodes, n.id = t.sharder ∧ t.sign = some ⟨n.id, t.round, t.sharder, t.lfbHash⟩ := by
  intro t hown hsign
  have hinv := (run_inv _ evs (init_inv nodes self ss r h)).1
  rw [run_nodes] at hinv
  rcases hinv with h1 | h1 | h1
  · rw [hown] at h1; cases h1
  · exact absurd h1 hsign
  · exact verify_sound nodes t h1

/-- **adopt_only_sharder_if_registry_is_mb**: the full statement holds as soon as the set in which the signer is
looked up consists of the sharders of the current magic block. -/
theorem adopt_only_sharder_if_registry_is_mb (nodes : List Node) (hreg : ∀ n ∈ nodes, n.kind = .sharder ∧ n.inMB = true)
    (self : Nat) (ss : Bool) (r : Int) (h : Nat) (evs : List Ev) :
    let t := (run (init nodes self ss r h) evs).latest
    t.own = false → t.sign ≠ none →
    ∃ n ∈ nodes, n.id = t.sharder ∧ n.kind = .sharder ∧ n.inMB = true ∧ t.sign = some ⟨n.id, t.round, t.sharder, t.lfbHash⟩ := by
  intro t hown hsign
  obtain ⟨n, hn, h1, h2⟩ := adopted_is_authentic_partial nodes self ss r h evs hown hsign
  exact ⟨n, hn, h1, (hreg n hn).1, (hreg n hn).2, h2⟩

/-- **adopt_only_sharder_of_mb_false** — negation witness: node 4 is a registered miner; its validly signed ticket
for round 9 passes `verifyLFBTicket` and becomes the node's latest ticket. -/
theorem adopt_only_sharder_of_mb_false :
    let nodes : List Node := [⟨1, .sharder, true⟩, ⟨2, .sharder, true⟩, ⟨3, .sharder, false⟩, ⟨4, .miner, false⟩]
    let w := run (init nodes 1 true 5 50) [.handle ⟨9, 4, 90, some ⟨4, 9, 4, 90⟩, false⟩, .procU 0]
    w.latest.round = 9 ∧ w.latest.own = false ∧ w.latest.sharder = 4 ∧
    ¬ ∃ n ∈ nodes, n.id = w.latest.sharder ∧ n.kind = .sharder ∧ n.inMB = true := by
  decide

/-- the same with a sharder that is registered but not in the current magic block -/
theorem adopt_stale_sharder :
    let nodes : List Node := [⟨1, .sharder, true⟩, ⟨2, .sharder, true⟩, ⟨3, .sharder, false⟩, ⟨4, .miner, false⟩]
    let w := run (init nodes 1 true 5 50) [.handle ⟨9, 3, 90, some ⟨3, 9, 3, 90⟩, false⟩, .procU 0]
    w.latest.sharder = 3 ∧ ¬ ∃ n ∈ nodes, n.id = w.latest.sharder ∧ n.kind = .sharder ∧ n.inMB = true := by
  decide

/-- forged tickets (signed with another key, or over other fields, or unsigned, or naming an unknown node) never
pass the handler -/
theorem forged_rejected (nodes : List Node) (t : Ticket)
    (h : t.sign = none ∨ (∀ n ∈ nodes, n.id ≠ t.sharder) ∨
      ∃ s, t.sign = some s ∧ (s.key ≠ t.sharder ∨ s.round ≠ t.round ∨ s.sharder ≠ t.sharder ∨ s.hash ≠ t.lfbHash)) :
    verify nodes t = false := by
  cases hv : verify nodes t with
  | false => rfl
  | true =>
    obtain ⟨n, hn, h1, h2⟩ := verify_sound nodes t hv
    rcases h with h | h | ⟨s, hs, h⟩
    · rw [h] at h2; cases h2
    · exact absurd h1 (h n hn)
    · rw [hs] at h2
      simp only [Option.some.injEq] at h2
      subst h2
      simp at h
      omega

/-! ## the guards of the source are the guards of the model (translator obligation)

`Generated/C41.lean` is rewritten from the current Go source on every run (harness/cmd/xc41). The model compares rounds
with `>` / `≤` / `<` on integers exactly where the worker does and performs no arithmetic on rounds. If a guard of the
worker is rewritten (say `ticket.Round <= latest.Round` into `ticket.Round - latest.Round <= 0`, which wraps on int64
for rounds more than 2^63 apart — an input no honest sharder sends) these equalities stop holding and the property
module no longer builds: the check fails closed even when no failing input is found. -/

/-- drain loop `firstMaxT`: `ticket.Round > prev.Round`; adoption `adoptU`: `ticket.Round <= latest.Round` → skip;
blank-signature kick; drain loop `firstMaxB`: `b.Round > prev.Round`; `adoptB`: `b.Round <= latest.Round` → skip, then
`latest.Round < ticket.Round` → adopt. -/
theorem worker_guards_as_modelled :
    ZChain.Generated.C41.startLFBTicketWorkerGuards =
      ["if !isSharder", "for", "if isSharder",
       "for len(c.updateLFBTicket) > 0", "if ticket.Round > prev.Round", "if ticket.Round <= latest.Round",
       "if ticket.Sign == \"\"",
       "for len(c.broadcastLFBTicket) > 0", "if b.Round > prev.Round", "if b.Round <= latest.Round",
       "if latest.Round < ticket.Round"] ∧
    ZChain.Generated.C41.startLFBTicketWorkerArith = [] := by decide

/-- `verifyLFBTicket`: the only guard is the registry lookup result -/
theorem verify_guards_as_modelled :
    ZChain.Generated.C41.verifyLFBTicketGuards = ["if sharder == nil"] ∧
    ZChain.Generated.C41.verifyLFBTicketArith = [] := by decide

/-! ## non-vacuity -/

example : (run (init [⟨1, .sharder, true⟩, ⟨2, .sharder, true⟩] 1 true 5 50)
    [.handle ⟨7, 2, 70, some ⟨2, 7, 2, 70⟩, false⟩, .handle ⟨9, 2, 90, some ⟨2, 9, 2, 90⟩, false⟩, .procU 1, .bcast 8 80, .procB 0]).latest
    = ⟨9, 2, 90, some ⟨2, 9, 2, 90⟩, false⟩ := by decide
example : trace (init [⟨2, .sharder, true⟩] 1 true 5 50)
    [.handle ⟨7, 2, 70, some ⟨2, 7, 2, 70⟩, false⟩, .procU 0, .kick 3, .procU 0, .bcast 8 80, .procB 0] = [5, 5, 7, 7, 7, 7, 8] := by decide
example : verify [⟨2, .sharder, true⟩] ⟨7, 2, 70, some ⟨2, 7, 2, 71⟩, false⟩ = false := by decide

end ZChain.LFB
