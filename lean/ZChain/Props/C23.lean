import ZChain.Proofs.Provider
import ZChain.Props.C10
/-!
# C23 — Killing or shutting down a provider disables exactly that provider

Property theorems about `Model/Provider.lean` (tied to `smartcontract/provider`, `storagesc`, `minersc`, `stakepool`
on every run by `harness/cmd/c23`). The model carries **the key under which `provider.Kill` / `provider.ShutDown` save
the stake pool as a parameter** (`SaveKey`); theorems named `…K…` hold for every key that names the provider's own
record (`SaveKey.Own`), the ones without `K` are about the code as it is: `killSaveKey = req.ID`,
`shutDownSaveKey = p.Id()` (repo commit d221d33; it was the caller's `clientId` before, and the `oldKey_…` witnesses
record what that key did — they are statements about `SaveKey.caller`, no longer about the code).

* `kill_disable_effect`, `shutdown_disable_effect` (+ `killed_pool_balances`, `slash_never_increases`): an authorised
  first kill / shut-down marks the provider's own pool dead and multiplies every delegate balance once by `1 − slash`
  (truncated); an empty provider is removed altogether; `oldKey_shutdown_disable_effect_false`;
* `killMiner_effect`: miners / sharders — both flags set, no slashing (minersc configures none);
* `second_attempt_keeps_stake`: once the provider record is flagged, no kill / shut-down by anybody changes any
  delegate balance or dead flag again;
* `no_more_rewards`, `kill_then_no_rewards`, `shutdown_then_no_rewards` (`oldKey_shutdown_still_rewarded_witness`);
* `kill_unauthorised_noop`, `shutdown_unauthorised_noop` (full strength since repo commit 40a4a9f: `ShutDown` authorises
  first), `storage_call_on_miner_id_noop` (since e59baf9 such a call decodes the record and fails instead of panicking);
* `kill_frame`, `shutdown_frame`, `shutdownK_frame` (`oldKey_shutdown_creates_node_witness`).
-/
namespace ZChain.Provider
open ZChain ZChain.Coin

/-- the save key names the provider's own record. -/
def SaveKey.Own (key : SaveKey) (r : Req) : Prop := key.eval r r.reqId = r.reqId

theorem killSaveKey_own (r : Req) : killSaveKey.Own r := rfl
theorem provId_own (r : Req) : SaveKey.provId.Own r := rfl
theorem shutDownSaveKey_own (r : Req) : shutDownSaveKey.Own r := rfl
theorem callerKey_own_iff (r : Req) : SaveKey.caller.Own r ↔ r.caller = r.reqId := Iff.rfl

/-- the state of a storage provider `i` of kind `k` after it was disabled: its record carries the flag and its own
pool is the killed pool `sp'` — or, when nothing was staked (and, for a blobber, nothing stored), both are gone. -/
def Disabled (s' : State) (k : Kind) (i : Id) (p' : Prov) (sp' : SP) (needNoData : Bool) : Prop :=
  if (!needNoData || !p'.hasData) && sp'.pools.isEmpty then
    kvGet s'.provs i = none ∧ kvGet s'.sps (k, i) = none
  else kvGet s'.provs i = some p' ∧ kvGet s'.sps (k, i) = some sp'

theorem finish_disabled (st : State) (k : Kind) (pid : Id) (p' : Prov) (sp' : SP) (flag : Bool)
    (hpk : p'.kind = k) :
    Disabled (finishStorage (putSP st k pid sp') pid p' sp' flag) k pid p' sp' flag := by
  unfold Disabled finishStorage
  split
  · rw [hpk]
    refine ⟨?_, ?_⟩
    · rw [provs_delSP]; unfold delProv; exact kvGet_kvDel_eq _ _
    · unfold delSP; exact kvGet_kvDel_eq _ _
  · refine ⟨?_, ?_⟩
    · unfold putProv; exact kvGet_kvSet_eq _ _ _
    · rw [sps_putProv]; exact getSP_putSP_eq st k pid sp'

theorem exec_ok (s s' : State) (c : Id) :
    exec s c (noTransfers (.ok s')) = ({ s' with accts := bumpNonce s.accts c }, .ok) := rfl

theorem exec_err (s : State) (c : Id) (e : Err) :
    exec s c (noTransfers (.error e)) = ({ s with accts := bumpNonce s.accts c }, .fail e) := rfl

theorem loadBlobber_of {s : State} {r : Req} {p : Prov} {sp : SP} (hp : kvGet s.provs r.reqId = some p)
    (hk : p.kind = .blobber) (hsp : kvGet s.sps (.blobber, r.reqId) = some sp) :
    loadBlobber s r = .ok ⟨r.reqId, p, sp, s⟩ := by
  unfold loadBlobber
  simp [hp, hk, getSP_eq, hsp]

/-- the state `loadValidator` leaves: the request's id has left the validators partition (when it is written back). -/
def afterVLoad (cfg : Cfg) (s : State) (r : Req) : State :=
  if cfg.demeter then { s with vpart := s.vpart.filter (· ≠ r.reqId) } else s

theorem loadValidator_of {cfg : Cfg} {s : State} {r : Req} {p : Prov} {sp : SP}
    (hp : kvGet s.provs r.reqId = some p) (hk : p.kind = .validator)
    (hsp : kvGet s.sps (.validator, r.reqId) = some sp) :
    loadValidator cfg s r = .ok ⟨r.reqId, p, sp, afterVLoad cfg s r⟩ := by
  have hg : ∀ s1 : State, s1.sps = s.sps → getSP s1 .validator r.reqId = some sp := by
    intro s1 h1
    rw [getSP_eq, h1, hsp]
  unfold loadValidator afterVLoad
  simp only [hp, hk]
  by_cases hd : cfg.demeter = true
  · simp only [hd, ↓reduceIte]
    rw [hg] <;> rfl
  · have hd' : cfg.demeter = false := by simpa using hd
    simp only [hd', Bool.false_eq_true, ↓reduceIte]
    rw [hg] <;> rfl

/-! ## disable_effect -/

/-- **disable_effect, kill of a blobber**, for every save key that names the provider's own record. -/
theorem killBlobberK_disable_effect (key : SaveKey) (cfg : Cfg) (s : State) (r : Req) (p : Prov) (sp sp' : SP)
    (hown : key.Own r) (hp : kvGet s.provs r.reqId = some p) (hk : p.kind = .blobber)
    (hl1 : p.killed = false) (hl2 : p.shutDown = false)
    (hsp : kvGet s.sps (.blobber, r.reqId) = some sp) (hauth : cfg.owner = r.caller)
    (hkill : spKill sp cfg.killSlash = .ok sp') :
    ∃ s', killBlobberK key cfg s r = .ok s' ∧ Disabled s' .blobber r.reqId { p with killed := true } sp' true := by
  refine ⟨finishStorage (putSP s .blobber r.reqId sp') r.reqId { p with killed := true } sp' true, ?_,
    finish_disabled s .blobber r.reqId _ sp' true hk⟩
  unfold killBlobberK provKill
  rw [loadBlobber_of hp hk hsp]
  simp only [hauth, ne_eq, not_true_eq_false, ↓reduceIte, hl1, hl2, Bool.or_self, Bool.false_eq_true, hkill, hk]
  rw [hown]

theorem shutdownBlobberK_disable_effect (key : SaveKey) (cfg : Cfg) (s : State) (r : Req) (p : Prov) (sp sp' : SP)
    (hown : key.Own r) (hp : kvGet s.provs r.reqId = some p) (hk : p.kind = .blobber)
    (hl1 : p.killed = false) (hl2 : p.shutDown = false)
    (hsp : kvGet s.sps (.blobber, r.reqId) = some sp)
    (hauth : cfg.owner = r.caller ∨ sp.wallet = some r.caller)
    (hkill : spKill sp (halfSlash cfg) = .ok sp') :
    ∃ s', shutdownBlobberK key cfg s r = .ok s' ∧ Disabled s' .blobber r.reqId { p with shutDown := true } sp' true := by
  refine ⟨finishStorage (putSP s .blobber r.reqId sp') r.reqId { p with shutDown := true } sp' true, ?_,
    finish_disabled s .blobber r.reqId _ sp' true hk⟩
  unfold shutdownBlobberK provShutDown
  rw [loadBlobber_of hp hk hsp]
  simp only [hauth, not_true_eq_false, hl1, hl2, Bool.or_self, Bool.false_eq_true, ↓reduceIte, hkill, hk]
  rw [hown]

theorem killValidatorK_disable_effect (key : SaveKey) (cfg : Cfg) (s : State) (r : Req) (p : Prov) (sp sp' : SP)
    (hown : key.Own r) (hp : kvGet s.provs r.reqId = some p) (hk : p.kind = .validator)
    (hl1 : p.killed = false) (hl2 : p.shutDown = false)
    (hsp : kvGet s.sps (.validator, r.reqId) = some sp) (hauth : cfg.owner = r.caller)
    (hkill : spKill sp cfg.killSlash = .ok sp') :
    ∃ s', killValidatorK key cfg s r = .ok s' ∧ Disabled s' .validator r.reqId { p with killed := true } sp' false := by
  refine ⟨finishStorage (putSP (afterVLoad cfg s r) .validator r.reqId sp') r.reqId { p with killed := true } sp' false, ?_,
    finish_disabled _ .validator r.reqId _ sp' false hk⟩
  unfold killValidatorK provKill
  rw [loadValidator_of hp hk hsp]
  simp only [hauth, ne_eq, not_true_eq_false, ↓reduceIte, hl1, hl2, Bool.or_self, Bool.false_eq_true, hkill, hk]
  rw [hown]

theorem shutdownValidatorK_disable_effect (key : SaveKey) (cfg : Cfg) (s : State) (r : Req) (p : Prov) (sp sp' : SP)
    (hown : key.Own r) (hp : kvGet s.provs r.reqId = some p) (hk : p.kind = .validator)
    (hl1 : p.killed = false) (hl2 : p.shutDown = false)
    (hsp : kvGet s.sps (.validator, r.reqId) = some sp)
    (hauth : cfg.owner = r.caller ∨ sp.wallet = some r.caller)
    (hkill : spKill sp (halfSlash cfg) = .ok sp') :
    ∃ s', shutdownValidatorK key cfg s r = .ok s' ∧
      Disabled s' .validator r.reqId { p with shutDown := true } sp' false := by
  refine ⟨finishStorage (putSP (afterVLoad cfg s r) .validator r.reqId sp') r.reqId { p with shutDown := true } sp' false, ?_,
    finish_disabled _ .validator r.reqId _ sp' false hk⟩
  unfold shutdownValidatorK provShutDown
  rw [loadValidator_of hp hk hsp]
  simp only [hauth, hl1, hl2, Bool.or_self, Bool.false_eq_true, ↓reduceIte, hkill, hk, ne_eq, not_true_eq_false]
  rw [hown]

/-- what the killed pool looks like: dead, and **every delegate balance is `trunc(balance · (1 − slash))`** (`MultFloat64`
with the clamped `reduction`), or unchanged when the slash setting is `0`; no delegate pool appears or disappears. -/
theorem killed_pool_balances {sp sp' : SP} {slash : F64} (h : spKill sp slash = .ok sp') :
    sp'.dead = true ∧
    (∀ j d, kvGet sp.pools j = some d → ∃ b, kvGet sp'.pools j = some { d with balance := b } ∧
      (if F64.eq slash F64.zero then b = d.balance else multFloat64 d.balance (reduction slash) = .ok b)) ∧
    (∀ j, kvGet sp.pools j = none → kvGet sp'.pools j = none) := by
  obtain ⟨hd, _, _, _, _, _, _, _, hp⟩ := spKill_spec h
  refine ⟨hd, ?_, ?_⟩
  · intro j d hj
    rcases hp with ⟨hz, he⟩ | ⟨hz, hs⟩
    · exact ⟨d.balance, by rw [he]; exact hj, by simp [hz]⟩
    · obtain ⟨b, hb, hg⟩ := slashPools_get hs j d hj
      exact ⟨b, hg, by simp [hz, hb]⟩
  · intro j hj
    rcases hp with ⟨_, he⟩ | ⟨_, hs⟩
    · rw [he]; exact hj
    · exact slashPools_none hs j hj

/-- **slashing never adds stake**: when the clamped factor `1 − slash` is a finite number in `[0, 1]` (true of every
valid setting: `example` below for 0.25 and 0.5) and the balances are below 2^53 (the token supply is 4·10^18 < 2^62, a
delegate's stake at most `max_stake` = 2·10^14 < 2^53), no delegate balance grows. -/
theorem slash_never_increases {sp sp' : SP} {slash : F64} (h : spKill sp slash = .ok sp') (m E : Nat)
    (hred : reduction slash = .fin false m E) (hle : m * 2 ^ E ≤ 2 ^ 1074)
    (hb : ∀ j d, kvGet sp.pools j = some d → d.balance < 2 ^ 53) :
    ∀ j d d', kvGet sp.pools j = some d → kvGet sp'.pools j = some d' → d'.balance ≤ d.balance := by
  intro j d d' hd hd'
  obtain ⟨_, hp, _⟩ := killed_pool_balances h
  obtain ⟨b, hb1, hb2⟩ := hp j d hd
  rw [hb1] at hd'
  injection hd' with hd'
  subst hd'
  simp only
  split at hb2
  · rw [hb2]
  · obtain ⟨n, hn, hle'⟩ := multFloat64_le d.balance (hb j d hd) m E hle
    rw [hred, hn] at hb2
    injection hb2 with hb2
    rw [← hb2]; exact hle'

theorem disabled_of_txn {s' : State} {a : Ledger.Accts} {k : Kind} {i : Id} {p' : Prov} {sp' : SP} {f : Bool}
    (h : Disabled s' k i p' sp' f) : Disabled { s' with accts := a } k i p' sp' f := h

/-- **disable_effect (kill, the code as it is)**: an authorised kill of a live blobber / validator succeeds, flags the
provider and leaves ITS OWN stake pool dead and slashed once (`killed_pool_balances`) — or removes an empty provider. -/
theorem kill_disable_effect (cfg : Cfg) (s : State) (r : Req) (k : Kind) (p : Prov) (sp sp' : SP)
    (hk : k = .blobber ∨ k = .validator)
    (hp : kvGet s.provs r.reqId = some p) (hpk : p.kind = k) (hl1 : p.killed = false) (hl2 : p.shutDown = false)
    (hsp : kvGet s.sps (k, r.reqId) = some sp) (hauth : cfg.owner = r.caller)
    (hkill : spKill sp cfg.killSlash = .ok sp') :
    (killTxn cfg k s r).2 = .ok ∧
    Disabled (killTxn cfg k s r).1 k r.reqId { p with killed := true } sp' (k == .blobber) := by
  rcases hk with rfl | rfl
  · obtain ⟨s', h1, h2⟩ := killBlobberK_disable_effect killSaveKey cfg s r p sp sp' (killSaveKey_own r) hp hpk hl1 hl2 hsp hauth hkill
    have : kill cfg .blobber s r = .ok s' := h1
    unfold killTxn; rw [this, exec_ok]
    exact ⟨rfl, disabled_of_txn h2⟩
  · obtain ⟨s', h1, h2⟩ := killValidatorK_disable_effect killSaveKey cfg s r p sp sp' (killSaveKey_own r) hp hpk hl1 hl2 hsp hauth hkill
    have : kill cfg .validator s r = .ok s' := h1
    unfold killTxn; rw [this, exec_ok]
    exact ⟨rfl, disabled_of_txn h2⟩

/-- **disable_effect (shut-down)** for every `ShutDown` whose save key names the provider's own record (`req.ID` or
`p.Id()`). It is false for the key `clientId` the code used before d221d33: `oldKey_shutdown_disable_effect_false`. -/
theorem shutdownK_disable_effect (key : SaveKey) (cfg : Cfg) (s : State) (r : Req) (k : Kind) (p : Prov) (sp sp' : SP)
    (hown : key.Own r) (hk : k = .blobber ∨ k = .validator)
    (hp : kvGet s.provs r.reqId = some p) (hpk : p.kind = k) (hl1 : p.killed = false) (hl2 : p.shutDown = false)
    (hsp : kvGet s.sps (k, r.reqId) = some sp) (hauth : cfg.owner = r.caller ∨ sp.wallet = some r.caller)
    (hkill : spKill sp (halfSlash cfg) = .ok sp') :
    ∃ s', (match k with
           | .blobber => shutdownBlobberK key cfg s r
           | _ => shutdownValidatorK key cfg s r) = .ok s' ∧
      Disabled s' k r.reqId { p with shutDown := true } sp' (k == .blobber) := by
  rcases hk with rfl | rfl
  · exact shutdownBlobberK_disable_effect key cfg s r p sp sp' hown hp hpk hl1 hl2 hsp hauth hkill
  · exact shutdownValidatorK_disable_effect key cfg s r p sp sp' hown hp hpk hl1 hl2 hsp hauth hkill

/-- **disable_effect (shut-down, the code as it is)** — full strength: an authorised shut-down (contract owner or the
provider's delegate wallet) of a live blobber / validator succeeds, flags the provider and leaves ITS OWN stake pool dead
and slashed once by `kill_slash / 2` (`killed_pool_balances`) — or removes an empty provider. -/
theorem shutdown_disable_effect (cfg : Cfg) (s : State) (r : Req) (k : Kind) (p : Prov) (sp sp' : SP)
    (hk : k = .blobber ∨ k = .validator)
    (hp : kvGet s.provs r.reqId = some p) (hpk : p.kind = k) (hl1 : p.killed = false) (hl2 : p.shutDown = false)
    (hsp : kvGet s.sps (k, r.reqId) = some sp) (hauth : cfg.owner = r.caller ∨ sp.wallet = some r.caller)
    (hkill : spKill sp (halfSlash cfg) = .ok sp') :
    (shutdownTxn cfg k s r).2 = .ok ∧
    Disabled (shutdownTxn cfg k s r).1 k r.reqId { p with shutDown := true } sp' (k == .blobber) := by
  obtain ⟨s', h1, h2⟩ := shutdownK_disable_effect shutDownSaveKey cfg s r k p sp sp' (shutDownSaveKey_own r)
    hk hp hpk hl1 hl2 hsp hauth hkill
  have : shutdown cfg k s r = .ok s' := by
    rcases hk with rfl | rfl <;> exact h1
  unfold shutdownTxn; rw [this, exec_ok]
  exact ⟨rfl, disabled_of_txn h2⟩

/-! ### the old save key (`clientId`, before d221d33): what the design-phase probe showed; kept as statements about
`SaveKey.caller` — a regression to that key is reported by the oracle as `C23:shutdown-saves-under-caller-id` -/

def half : F64 := F64.ofBits 0x3fe0000000000000      -- 0.5
def tenth : F64 := F64.ofBits 0x3fb999999999999a     -- 0.1

def cfg0 : Cfg :=
  { owner := 3, killSlash := half, demeter := true, minStake := fun _ => 0, maxStake := fun _ => 200000000000000,
    minLock := 0, spMinStake := fun _ => 10000000000 }

def sp0 : SP :=
  { pools := [(41, ⟨10000000000000, 0, 1700000000, false⟩), (42, ⟨3330000000007, 0, 1700000000, false⟩)], reward := 0,
    wallet := some 50, maxDelegates := 10, minStake := 10000000000, ratio := tenth, dead := false, offers := 0 }

/-- blobber 30 (delegate wallet 50, two delegates) and miner 10. -/
def s0 : State :=
  { accts := [(3, ⟨1000, 0⟩), (50, ⟨1000, 0⟩), (45, ⟨1000, 0⟩)],
    provs := [(30, ⟨.blobber, false, false, false⟩), (10, ⟨.miner, false, false, false⟩)],
    sps := [((.blobber, 30), sp0), ((.miner, 10), { sp0 with wallet := some 56 })],
    vpart := [], order := [41, 42, 50] }

/-- the dead, slashed (× 0.75) copy of `sp0`. -/
def sp0Dead : SP :=
  { sp0 with dead := true, pools := [(41, ⟨7500000000000, 0, 1700000000, false⟩), (42, ⟨2497500000005, 0, 1700000000, false⟩)] }

/-- `shutdown_blobber` with the OLD save key `clientId`. -/
def oldShutdownTxn (cfg : Cfg) (s : State) (r : Req) : State × Status :=
  exec s r.caller (noTransfers (shutdownBlobberK .caller cfg s r))

/-- **disable_effect was false with the old save key.** Blobber 30's delegate wallet (50) shuts it down: the call
succeeds, the provider is flagged — but `blobber:stakepool:30` is untouched (not dead, not slashed) and the dead,
slashed copy sits under `blobber:stakepool:50`. -/
theorem oldKey_shutdown_disable_effect_false :
    (oldShutdownTxn cfg0 s0 ⟨50, 30⟩).2 = .ok ∧
    kvGet (oldShutdownTxn cfg0 s0 ⟨50, 30⟩).1.provs 30 = some ⟨.blobber, true, false, false⟩ ∧
    kvGet (oldShutdownTxn cfg0 s0 ⟨50, 30⟩).1.sps (.blobber, 30) = some sp0 ∧
    kvGet s0.sps (.blobber, 50) = none ∧
    kvGet (oldShutdownTxn cfg0 s0 ⟨50, 30⟩).1.sps (.blobber, 50) = some sp0Dead := by
  decide +kernel

/-- the same call with the code as it is now: blobber 30's OWN pool is the dead, slashed one and nothing appears
under the caller's id (non-vacuity of `shutdown_disable_effect` / `shutdown_frame`). -/
example : (shutdownTxn cfg0 .blobber s0 ⟨50, 30⟩).2 = .ok ∧
    kvGet (shutdownTxn cfg0 .blobber s0 ⟨50, 30⟩).1.sps (.blobber, 30) = some sp0Dead ∧
    kvGet (shutdownTxn cfg0 .blobber s0 ⟨50, 30⟩).1.sps (.blobber, 50) = none := by
  decide +kernel

example : reduction half = .fin false (2 ^ 52) 1021 ∧ 2 ^ 52 * 2 ^ 1021 ≤ 2 ^ 1074 := by decide +kernel
example : ∃ m E, reduction (halfSlash cfg0) = .fin false m E ∧ m * 2 ^ E ≤ 2 ^ 1074 :=
  ⟨3 * 2 ^ 51, 1021, by decide +kernel⟩

/-- non-vacuity of `kill_disable_effect` / `shutdownK_disable_effect` on the same state. -/
example : spKill sp0 (halfSlash cfg0) = .ok sp0Dead := by decide +kernel
example : spKill sp0 cfg0.killSlash =
    .ok { sp0 with dead := true, pools := [(41, ⟨5000000000000, 0, 1700000000, false⟩), (42, ⟨1665000000003, 0, 1700000000, false⟩)] } := by
  decide +kernel
example : kvGet (killTxn cfg0 .blobber s0 ⟨3, 30⟩).1.sps (.blobber, 30) =
    some { sp0 with dead := true, pools := [(41, ⟨5000000000000, 0, 1700000000, false⟩), (42, ⟨1665000000003, 0, 1700000000, false⟩)] } := by
  decide +kernel

/-! ## miners and sharders -/

/-- **disable_effect (miner / sharder)**: `kill_miner` / `kill_sharder` by the owner set both flags — the provider's and
its pool's (inside the same node) — and leave every delegate balance as it is (minersc configures no slash). -/
theorem killMiner_effect (cfg : Cfg) (s : State) (r : Req) (k : Kind) (p : Prov) (sp : SP)
    (hk : k = .miner ∨ k = .sharder) (hp : kvGet s.provs r.reqId = some p) (hpk : p.kind = k)
    (hsp : kvGet s.sps (k, r.reqId) = some sp) (hauth : cfg.owner = r.caller)
    (hnot : ¬ (p.killed = true ∧ sp.dead = true)) :
    (killTxn cfg k s r).2 = .ok ∧
    kvGet (killTxn cfg k s r).1.provs r.reqId = some { p with killed := true } ∧
    kvGet (killTxn cfg k s r).1.sps (k, r.reqId) = some { sp with dead := true } := by
  have hkill : kill cfg k s r =
      .ok (putSP (putProv s r.reqId { p with killed := true }) k r.reqId { sp with dead := true }) := by
    have : kill cfg k s r = killMinerNode k cfg s r := by rcases hk with rfl | rfl <;> rfl
    rw [this]
    unfold killMinerNode
    have hn2 : (p.killed && sp.dead) = false := by
      cases h1 : p.killed <;> cases h2 : sp.dead <;> simp_all
    simp [hauth, hp, hpk, hsp, hn2]
  unfold killTxn
  rw [hkill, exec_ok]
  refine ⟨rfl, ?_, ?_⟩
  · show kvGet (putSP (putProv s r.reqId { p with killed := true }) k r.reqId { sp with dead := true }).provs r.reqId = _
    rw [provs_putSP]; unfold putProv; exact kvGet_kvSet_eq _ _ _
  · exact getSP_putSP_eq _ k r.reqId _

/-! ## second_attempt_noop -/

theorem txn_state_cases (s : State) (c : Id) (res : Except Err State) :
    (∃ s', res = .ok s' ∧ (exec s c (noTransfers res)).1 = { s' with accts := bumpNonce s.accts c }) ∨
    (∃ e, res = .error e ∧ ((exec s c (noTransfers res)).1 = s ∨
      (exec s c (noTransfers res)).1 = { s with accts := bumpNonce s.accts c })) := by
  cases res with
  | ok s' => exact Or.inl ⟨s', rfl, rfl⟩
  | error e =>
    exact Or.inr ⟨e, rfl, Or.inr (exec_err s c e ▸ rfl)⟩

/-- **second_attempt_noop** ("slashed exactly once"): once the provider record of a blobber / validator carries a flag,
a further `kill_*` or `shutdown_*` — by ANY caller — changes no delegate pool, no dead flag and no provider reward of
any stake pool, and no provider record. (What a repeated blobber call by an AUTHORISED caller still does is reset `TotalOffers`, the refresh the
storage contract wants.) -/
theorem second_attempt_keeps_stake (cfg : Cfg) (s : State) (r : Req) (k : Kind) (p : Prov)
    (hk : k = .blobber ∨ k = .validator)
    (hp : kvGet s.provs r.reqId = some p) (hf : p.killed = true ∨ p.shutDown = true) :
    (∀ kk, (kvGet (killTxn cfg k s r).1.sps kk).map stakeView = (kvGet s.sps kk).map stakeView) ∧
    (∀ kk, (kvGet (shutdownTxn cfg k s r).1.sps kk).map stakeView = (kvGet s.sps kk).map stakeView) ∧
    (killTxn cfg k s r).1.provs = s.provs ∧ (shutdownTxn cfg k s r).1.provs = s.provs := by
  have key : ∀ res : Except Err State, (∀ s', res = .ok s' → SameStake s s') → ∀ c,
      (∀ kk, (kvGet (exec s c (noTransfers res)).1.sps kk).map stakeView = (kvGet s.sps kk).map stakeView) ∧
      (exec s c (noTransfers res)).1.provs = s.provs := by
    intro res hres c
    rcases txn_state_cases s c res with ⟨s', h1, h2⟩ | ⟨e, _, h2 | h2⟩
    · rw [h2]; exact ⟨(hres s' h1).2.2.2, (hres s' h1).1⟩
    · rw [h2]; exact ⟨fun _ => rfl, rfl⟩
    · rw [h2]; exact ⟨fun _ => rfl, rfl⟩
  have hkill : ∀ s', kill cfg k s r = .ok s' → SameStake s s' := by
    intro s' h
    rcases hk with rfl | rfl
    · exact killBlobberK_flagged hp hf h
    · exact (killValidatorK_flagged hp hf h).elim
  have hshut : ∀ s', shutdown cfg k s r = .ok s' → SameStake s s' := by
    intro s' h
    rcases hk with rfl | rfl
    · exact shutdownBlobberK_flagged hp hf h
    · exact (shutdownValidatorK_flagged hp hf h).elim
  exact ⟨(key _ hkill r.caller).1, (key _ hshut r.caller).1, (key _ hkill r.caller).2, (key _ hshut r.caller).2⟩

/-! ## no_more_rewards -/

theorem loadSP_ok {s : State} {k : Kind} {i : Id} {sp : SP} (h : loadSP s k i = .ok sp) : getSP s k i = some sp := by
  unfold loadSP at h
  cases k with
  | miner =>
    simp only at h
    cases hp : kvGet s.provs i with
    | none => simp [hp] at h
    | some p =>
      simp only [hp] at h
      split at h
      · cases h
      · cases hg : getSP s .miner i with
        | none => simp [hg] at h
        | some x => simp only [hg] at h; injection h with h; rw [h]
  | sharder =>
    simp only at h
    cases hp : kvGet s.provs i with
    | none => simp [hp] at h
    | some p =>
      simp only [hp] at h
      split at h
      · cases h
      · cases hg : getSP s .sharder i with
        | none => simp [hg] at h
        | some x => simp only [hg] at h; injection h with h; rw [h]
  | blobber =>
    simp only at h
    cases hg : getSP s .blobber i with
    | none => simp [hg] at h
    | some x => simp only [hg] at h; injection h with h; rw [h]
  | validator =>
    simp only at h
    cases hg : getSP s .validator i with
    | none => simp [hg] at h
    | some x => simp only [hg] at h; injection h with h; rw [h]
  | authorizer =>
    simp only at h
    cases hg : getSP s .authorizer i with
    | none => simp [hg] at h
    | some x => simp only [hg] at h; injection h with h; rw [h]

/-- saving back a pool exactly as it was read changes nothing. -/
theorem saveSP_self {s : State} {k : Kind} {i : Id} {sp : SP} (hg : getSP s k i = some sp) : saveSP s k i sp = s := by
  unfold saveSP putSP
  rw [kvSet_self _ _ _ hg]

/-- **no_more_rewards**: a reward payment to a provider whose stake pool (the one the paying contract loads, under the
provider's id) is dead moves nothing: the state is unchanged — no service charge, no delegate reward. -/
theorem no_more_rewards (s s' : State) (k : Kind) (i : Id) (v : Nat) (sp : SP)
    (hsp : getSP s k i = some sp) (hdead : sp.dead = true) (h : payReward s k i v = .ok s') : s' = s := by
  unfold payReward at h
  cases hl : loadSP s k i with
  | error e => simp [hl] at h
  | ok x =>
    have hx : x = sp := by
      have := loadSP_ok hl
      rw [hsp] at this
      injection this with this
      exact this.symm
    subst hx
    simp only [hl] at h
    generalize hm : ({ pools := (orderedPools s.order x.pools).map (fun p => (⟨p.2.balance, p.2.reward⟩ : StakePool.DP)),
                       reward := x.reward, minStake := x.minStake, ratio := x.ratio, killed := x.dead } : StakePool.SP) = m at h
    have hk : m.killed = true := by rw [← hm]; exact hdead
    cases hst : StakePool.stakeOf m.pools with
    | error e =>
      have : StakePool.distributeRewards m v = .error e := by
        unfold StakePool.distributeRewards StakePool.prefixPart
        rw [hst]; rfl
      rw [this] at h
      cases h
    | ok total =>
      have := (StakePool.dead_or_understaked_gets_nothing m v total 0 [] hst (Or.inl hk)).1
      rw [this] at h
      simp only at h
      injection h with h
      rw [← h]
      exact saveSP_self hsp

/-- the provider's records survive the kill / shut-down: somebody has staked, or it is a blobber that stores data
(`SavedData > 0`) — then the record is kept **even with no delegate pool at all**. -/
def Survives (k : Kind) (p : Prov) (sp : SP) : Prop :=
  sp.pools.isEmpty = false ∨ (k = .blobber ∧ p.hasData = true)

/-- for a surviving provider `Disabled` is its second alternative: flagged record, its own pool is the killed pool — which
is DEAD also when there was nothing to slash (`spKill_spec`: the flag is set before `SlashFraction` looks at the pools). -/
theorem disabled_survives {s' : State} {k : Kind} {i : Id} {p p' : Prov} {sp sp' : SP} {slash : F64}
    (hkill : spKill sp slash = .ok sp') (hkeep : Survives k p sp) (hdata : p'.hasData = p.hasData)
    (hd : Disabled s' k i p' sp' (k == .blobber)) :
    kvGet s'.provs i = some p' ∧ kvGet s'.sps (k, i) = some sp' := by
  have he : sp'.pools.isEmpty = sp.pools.isEmpty := (spKill_spec hkill).2.2.2.2.2.2.2.1
  unfold Disabled at hd
  rcases hkeep with hne | ⟨hk, hh⟩
  · simp only [he, hne, Bool.and_false, Bool.false_eq_true, ↓reduceIte] at hd
    exact hd
  · subst hk
    simp only [beq_self_eq_true, hdata, hh, Bool.not_true, Bool.or_self, Bool.false_and, Bool.false_eq_true,
      ↓reduceIte] at hd
    exact hd

/-- with no delegate pool, `Kill` succeeds for every slash setting in `[0, 1]` and only sets the dead flag. -/
theorem spKill_empty (sp : SP) (slash : F64) (hempty : sp.pools = [])
    (hvalid : (F64.lt slash F64.zero || F64.gt slash F64.one) = false) :
    spKill sp slash = .ok { sp with dead := true } := by
  unfold spKill slashFraction
  split
  · rfl
  · simp only [hvalid, Bool.false_eq_true, ↓reduceIte, hempty, slashPools]

/-- **disable_effect with nothing to slash**: a blobber that stores data and has NO delegate pool when the owner kills it
(or the owner / its delegate wallet shuts it down) keeps its records, and its own stake pool is marked DEAD all the same
(`sp'` is `{ sp with dead := true }` by `spKill_empty`). -/
theorem disable_effect_empty_pool (cfg : Cfg) (s : State) (r : Req) (p : Prov) (sp sp' : SP)
    (hp : kvGet s.provs r.reqId = some p) (hpk : p.kind = .blobber) (hl1 : p.killed = false) (hl2 : p.shutDown = false)
    (hsp : kvGet s.sps (.blobber, r.reqId) = some sp) (hdata : p.hasData = true) :
    (cfg.owner = r.caller → spKill sp cfg.killSlash = .ok sp' →
      (killTxn cfg .blobber s r).2 = .ok ∧
      kvGet (killTxn cfg .blobber s r).1.provs r.reqId = some { p with killed := true } ∧
      kvGet (killTxn cfg .blobber s r).1.sps (.blobber, r.reqId) = some sp' ∧ sp'.dead = true) ∧
    ((cfg.owner = r.caller ∨ sp.wallet = some r.caller) → spKill sp (halfSlash cfg) = .ok sp' →
      (shutdownTxn cfg .blobber s r).2 = .ok ∧
      kvGet (shutdownTxn cfg .blobber s r).1.provs r.reqId = some { p with shutDown := true } ∧
      kvGet (shutdownTxn cfg .blobber s r).1.sps (.blobber, r.reqId) = some sp' ∧ sp'.dead = true) := by
  have hkeep : Survives .blobber p sp := Or.inr ⟨rfl, hdata⟩
  refine ⟨fun hauth hkill => ?_, fun hauth hkill => ?_⟩
  · obtain ⟨h1, hd⟩ := kill_disable_effect cfg s r .blobber p sp sp' (Or.inl rfl) hp hpk hl1 hl2 hsp hauth hkill
    have := disabled_survives (p' := { p with killed := true }) hkill hkeep rfl hd
    exact ⟨h1, this.1, this.2, (spKill_spec hkill).1⟩
  · obtain ⟨h1, hd⟩ := shutdown_disable_effect cfg s r .blobber p sp sp' (Or.inl rfl) hp hpk hl1 hl2 hsp hauth hkill
    have := disabled_survives (p' := { p with shutDown := true }) hkill hkeep rfl hd
    exact ⟨h1, this.1, this.2, (spKill_spec hkill).1⟩

/-- **no_more_rewards after a kill**: combine `kill_disable_effect` with `no_more_rewards`. -/
theorem kill_then_no_rewards (cfg : Cfg) (s : State) (r : Req) (k : Kind) (p : Prov) (sp sp' : SP) (v : Nat) (s'' : State)
    (hk : k = .blobber ∨ k = .validator)
    (hp : kvGet s.provs r.reqId = some p) (hpk : p.kind = k) (hl1 : p.killed = false) (hl2 : p.shutDown = false)
    (hsp : kvGet s.sps (k, r.reqId) = some sp) (hauth : cfg.owner = r.caller)
    (hkill : spKill sp cfg.killSlash = .ok sp') (hkeep : Survives k p sp)
    (h : payReward (killTxn cfg k s r).1 k r.reqId v = .ok s'') : s'' = (killTxn cfg k s r).1 := by
  obtain ⟨_, hd⟩ := kill_disable_effect cfg s r k p sp sp' hk hp hpk hl1 hl2 hsp hauth hkill
  have hd := disabled_survives (p' := { p with killed := true }) hkill hkeep rfl hd
  have hg : getSP (killTxn cfg k s r).1 k r.reqId = some sp' := by
    rw [getSP_eq]; exact hd.2
  exact no_more_rewards _ s'' k r.reqId v sp' hg (spKill_spec hkill).1 h

/-- **no_more_rewards after a shut-down** (the code as it is): combine `shutdown_disable_effect` with `no_more_rewards`. -/
theorem shutdown_then_no_rewards (cfg : Cfg) (s : State) (r : Req) (k : Kind) (p : Prov) (sp sp' : SP) (v : Nat) (s'' : State)
    (hk : k = .blobber ∨ k = .validator)
    (hp : kvGet s.provs r.reqId = some p) (hpk : p.kind = k) (hl1 : p.killed = false) (hl2 : p.shutDown = false)
    (hsp : kvGet s.sps (k, r.reqId) = some sp) (hauth : cfg.owner = r.caller ∨ sp.wallet = some r.caller)
    (hkill : spKill sp (halfSlash cfg) = .ok sp') (hkeep : Survives k p sp)
    (h : payReward (shutdownTxn cfg k s r).1 k r.reqId v = .ok s'') : s'' = (shutdownTxn cfg k s r).1 := by
  obtain ⟨_, hd⟩ := shutdown_disable_effect cfg s r k p sp sp' hk hp hpk hl1 hl2 hsp hauth hkill
  have hd := disabled_survives (p' := { p with shutDown := true }) hkill hkeep rfl hd
  have hg : getSP (shutdownTxn cfg k s r).1 k r.reqId = some sp' := by
    rw [getSP_eq]; exact hd.2
  exact no_more_rewards _ s'' k r.reqId v sp' hg (spKill_spec hkill).1 h

/-- blobber 30 stores data and has no delegate at all; `min_stake_per_delegate` is 0 (with the repo's setting of 1 token an
unstaked pool earns nothing anyway: `total < MinStake`). -/
def spNoDel : SP := { sp0 with pools := [], minStake := 0 }
def sData : State :=
  { s0 with provs := [(30, ⟨.blobber, false, false, true⟩)], sps := [((.blobber, 30), spNoDel)] }

/-- non-vacuity of `disable_effect_empty_pool` / `kill_then_no_rewards` / `shutdown_then_no_rewards` with NO delegates:
killed by the owner (shut down by the wallet) the record stays, the pool is dead, and a reward of 100 paid afterwards is
credited to nobody — a pool that is not dead gets the whole 100 as provider reward (`sp.Reward`, last conjunct). -/
example :
    kvGet (killTxn cfg0 .blobber sData ⟨3, 30⟩).1.sps (.blobber, 30) = some { spNoDel with dead := true } ∧
    (payReward (killTxn cfg0 .blobber sData ⟨3, 30⟩).1 .blobber 30 100).toOption.bind
      (fun s => kvGet s.sps (.blobber, 30)) = some { spNoDel with dead := true } ∧
    kvGet (shutdownTxn cfg0 .blobber sData ⟨50, 30⟩).1.sps (.blobber, 30) = some { spNoDel with dead := true } ∧
    (payReward sData .blobber 30 100).toOption.bind (fun s => kvGet s.sps (.blobber, 30)) =
      some { spNoDel with reward := 100 } := by
  decide +kernel

/-- **no_more_rewards was false with the old save key**: on the state of `oldKey_shutdown_disable_effect_false` a reward
of 1 000 000 to blobber 30 is still credited: 100 000 service charge and 675 169 + 224 831 to the two delegates. -/
theorem oldKey_shutdown_still_rewarded_witness :
    (payReward (oldShutdownTxn cfg0 s0 ⟨50, 30⟩).1 .blobber 30 1000000).toOption.bind
        (fun s => kvGet s.sps (.blobber, 30)) =
      some { sp0 with reward := 100000,
                      pools := [(41, ⟨10000000000000, 675169, 1700000000, false⟩), (42, ⟨3330000000007, 224831, 1700000000, false⟩)] } := by
  decide +kernel

/-! ## unauthorised_noop -/

/-- nothing but the caller's nonce may differ. -/
def OnlyNonce (s s' : State) (c : Id) : Prop := s' = s ∨ s' = { s with accts := bumpNonce s.accts c }

theorem onlyNonce_of_error {s : State} {c : Id} {res : Except Err State} (h : ∃ e, res = .error e) :
    OnlyNonce s (exec s c (noTransfers res)).1 c := by
  obtain ⟨e, rfl⟩ := h
  exact Or.inr (exec_err s c e ▸ rfl)

/-- **unauthorised_noop (kill)**: a `kill_*` sent by anybody but the contract owner changes nothing (the failed
transaction only consumes the caller's nonce) — for every provider kind, whatever `provider_id` names. -/
theorem kill_unauthorised_noop (cfg : Cfg) (k : Kind) (s : State) (r : Req) (h : cfg.owner ≠ r.caller) :
    OnlyNonce s (killTxn cfg k s r).1 r.caller := by
  unfold killTxn
  cases k with
  | blobber =>
    apply onlyNonce_of_error
    obtain ⟨e, he⟩ := provKill_unauth (load := loadBlobber) (refresh := some refreshBlobberOffers)
      (slash := cfg.killSlash) (key := killSaveKey) (s := s) h
    exact ⟨e, by show killBlobberK killSaveKey cfg s r = _; unfold killBlobberK; rw [he]⟩
  | validator =>
    apply onlyNonce_of_error
    obtain ⟨e, he⟩ := provKill_unauth (load := loadValidator cfg) (refresh := none)
      (slash := cfg.killSlash) (key := killSaveKey) (s := s) h
    exact ⟨e, by show killValidatorK killSaveKey cfg s r = _; unfold killValidatorK; rw [he]⟩
  | miner =>
    apply onlyNonce_of_error
    exact ⟨.unauthorized, by show killMinerNode .miner cfg s r = _; unfold killMinerNode; simp [h]⟩
  | sharder =>
    apply onlyNonce_of_error
    exact ⟨.unauthorized, by show killMinerNode .sharder cfg s r = _; unfold killMinerNode; simp [h]⟩
  | authorizer => exact Or.inr rfl

/-- **unauthorised_noop (shut-down)** — full strength (since repo commit 40a4a9f `ShutDown` authorises before anything
else): a `shutdown_*` by a caller who is neither the contract owner nor the delegate wallet of the pool the call loads
changes nothing, for every kind and whatever state the provider is in — in particular an already shut-down or killed
blobber (the case that used to run the refresh: `oldOrder` note below). -/
theorem shutdown_unauthorised_noop (cfg : Cfg) (k : Kind) (s : State) (r : Req) (h : cfg.owner ≠ r.caller)
    (hw : ∀ p sp, kvGet s.provs r.reqId = some p → getSP s p.kind r.reqId = some sp → sp.wallet ≠ some r.caller) :
    OnlyNonce s (shutdownTxn cfg k s r).1 r.caller := by
  unfold shutdownTxn
  cases k with
  | blobber =>
    apply onlyNonce_of_error
    obtain ⟨e, he⟩ := provShutDown_unauth (load := loadBlobber) (refresh := some refreshBlobberOffers)
      (slash := halfSlash cfg) (key := shutDownSaveKey) (s := s) h (by
        intro L hl
        obtain ⟨_, _, hp, hk, hs⟩ := loadBlobber_ok hl
        exact hw L.p L.sp hp (by rw [hk, getSP_eq]; exact hs))
    exact ⟨e, by show shutdownBlobberK shutDownSaveKey cfg s r = _; unfold shutdownBlobberK; rw [he]⟩
  | validator =>
    apply onlyNonce_of_error
    obtain ⟨e, he⟩ := provShutDown_unauth (load := loadValidator cfg) (refresh := some refreshBlobberOffers)
      (slash := halfSlash cfg) (key := shutDownSaveKey) (s := s) h (by
        intro L hl
        obtain ⟨_, hp, _, _, _, _, _, hs⟩ := loadValidator_ok hl
        exact hw L.p L.sp hp hs)
    exact ⟨e, by show shutdownValidatorK shutDownSaveKey cfg s r = _; unfold shutdownValidatorK; rw [he]⟩
  | miner => exact Or.inr rfl
  | sharder => exact Or.inr rfl
  | authorizer => exact Or.inr rfl

/-- blobber 30 already shut down, 1 000 000 000 of its stake backing open allocations (`TotalOffers`). -/
def sShut : State :=
  { s0 with provs := [(30, ⟨.blobber, true, false, false⟩)],
            sps := [((.blobber, 30), { sp0 with offers := 1000000000 })] }

/-- non-vacuity of `shutdown_unauthorised_noop` on the input that used to break it (before 40a4a9f stranger 45's call on
the already shut-down blobber 30 SUCCEEDED and reset `TotalOffers` to 0): it now fails "unauthorized" and the offers
stay; the owner's repeated call still performs the refresh. -/
example :
    cfg0.owner ≠ 45 ∧ sp0.wallet ≠ some 45 ∧
    (shutdownTxn cfg0 .blobber sShut ⟨45, 30⟩).2 = .fail .unauthorized ∧
    kvGet (shutdownTxn cfg0 .blobber sShut ⟨45, 30⟩).1.sps (.blobber, 30) = some { sp0 with offers := 1000000000 } ∧
    (shutdownTxn cfg0 .blobber sShut ⟨3, 30⟩).2 = .ok ∧
    kvGet (shutdownTxn cfg0 .blobber sShut ⟨3, 30⟩).1.sps (.blobber, 30) = some { sp0 with offers := 0 } := by
  decide +kernel

/-- **a storage-contract kill / shut-down that names a MINER's or SHARDER's id changes nothing, whoever sends it** (since
repo commit e59baf9 the record is decoded instead of panicking on the cached `MinerNode`; the call used to kill the node
process): the blobber entry points answer "provider is miner should be blobber", the validator entry points find no
stake pool for the empty provider they decode; only the caller's nonce moves. -/
theorem storage_call_on_miner_id_noop (cfg : Cfg) (k : Kind) (s : State) (r : Req) (p : Prov)
    (hk : k = .blobber ∨ k = .validator) (hp : kvGet s.provs r.reqId = some p)
    (hm : p.kind = .miner ∨ p.kind = .sharder) :
    killTxn cfg k s r = ({ s with accts := bumpNonce s.accts r.caller },
      .fail (if k = .blobber then .wrongKind else .notFound)) ∧
    shutdownTxn cfg k s r = ({ s with accts := bumpNonce s.accts r.caller },
      .fail (if k = .blobber then .wrongKind else .notFound)) := by
  have hnb : p.kind ≠ .blobber := by rcases hm with h | h <;> rw [h] <;> decide
  have hlb : loadBlobber s r = .error .wrongKind := by
    unfold loadBlobber; simp [hp, hnb]
  have hlv : loadValidator cfg s r = .error .notFound := by
    unfold loadValidator; simp [hp, hm]
  rcases hk with rfl | rfl
  · have h1 : kill cfg .blobber s r = .error .wrongKind := by
      show killBlobberK killSaveKey cfg s r = _
      unfold killBlobberK provKill; rw [hlb]
    have h2 : shutdown cfg .blobber s r = .error .wrongKind := by
      show shutdownBlobberK shutDownSaveKey cfg s r = _
      unfold shutdownBlobberK provShutDown; rw [hlb]
    unfold killTxn shutdownTxn
    rw [h1, h2, exec_err]
    exact ⟨rfl, rfl⟩
  · have h1 : kill cfg .validator s r = .error .notFound := by
      show killValidatorK killSaveKey cfg s r = _
      unfold killValidatorK provKill; rw [hlv]
    have h2 : shutdown cfg .validator s r = .error .notFound := by
      show shutdownValidatorK shutDownSaveKey cfg s r = _
      unfold shutdownValidatorK provShutDown; rw [hlv]
    unfold killTxn shutdownTxn
    rw [h1, h2, exec_err]
    exact ⟨rfl, rfl⟩

/-- non-vacuity: miner 10 of `s0`, stranger 45 and owner 3. -/
example : (killTxn cfg0 .validator s0 ⟨45, 10⟩).2 = .fail .notFound ∧
    (shutdownTxn cfg0 .blobber s0 ⟨3, 10⟩).2 = .fail .wrongKind ∧
    kvGet (shutdownTxn cfg0 .blobber s0 ⟨3, 10⟩).1.sps (.miner, 10) = kvGet s0.sps (.miner, 10) := by
  decide +kernel

/-! ## frame -/

/-- the transaction-level frame: balances untouched, only the caller's nonce moves, provider records other than
`req.ID`'s untouched, stake-pool records outside `ks` untouched — **in particular none is created** (a key that read
`none` still reads `none`) —, the validators partition at most loses `req.ID`. -/
structure TxnFrame (s s' : State) (r : Req) (ks : List (Kind × Id)) : Prop where
  balances : ∀ j, (Ledger.get s'.accts j).balance = (Ledger.get s.accts j).balance
  nonces   : ∀ j, j ≠ r.caller → (Ledger.get s'.accts j).nonce = (Ledger.get s.accts j).nonce
  provs    : ∀ j, j ≠ r.reqId → kvGet s'.provs j = kvGet s.provs j
  sps      : ∀ kk, kk ∉ ks → kvGet s'.sps kk = kvGet s.sps kk
  vpart    : s'.vpart = s.vpart ∨ s'.vpart = s.vpart.filter (· ≠ r.reqId)
  order    : s'.order = s.order

theorem bumpNonce_balance (a : Ledger.Accts) (c j : Id) :
    (Ledger.get (bumpNonce a c) j).balance = (Ledger.get a j).balance := by
  unfold bumpNonce
  by_cases h : c = j
  · subst h; rw [Ledger.get_set_eq]
  · rw [Ledger.get_set_ne _ _ _ _ h]

theorem bumpNonce_nonce (a : Ledger.Accts) (c j : Id) (h : j ≠ c) :
    (Ledger.get (bumpNonce a c) j).nonce = (Ledger.get a j).nonce := by
  unfold bumpNonce
  rw [Ledger.get_set_ne _ _ _ _ (Ne.symm h)]

theorem txnFrame_of {s : State} {r : Req} {ks : List (Kind × Id)} {res : Except Err State}
    (h : ∀ s', res = .ok s' → Frame s s' r.reqId ks) : TxnFrame s (exec s r.caller (noTransfers res)).1 r ks := by
  have hb : TxnFrame s { s with accts := bumpNonce s.accts r.caller } r ks :=
    ⟨fun j => bumpNonce_balance _ _ _, fun j hj => bumpNonce_nonce _ _ _ hj, fun _ _ => rfl, fun _ _ => rfl, Or.inl rfl, rfl⟩
  rcases txn_state_cases s r.caller res with ⟨s', h1, h2⟩ | ⟨e, _, h2 | h2⟩
  · rw [h2]
    have f := h s' h1
    exact ⟨fun j => by show (Ledger.get (bumpNonce s.accts r.caller) j).balance = _; exact bumpNonce_balance _ _ _,
      fun j hj => by show (Ledger.get (bumpNonce s.accts r.caller) j).nonce = _; exact bumpNonce_nonce _ _ _ hj,
      f.provs, f.sps, f.vpart, f.order⟩
  · rw [h2]; exact ⟨fun _ => rfl, fun _ _ => rfl, fun _ _ => rfl, fun _ _ => rfl, Or.inl rfl, rfl⟩
  · rw [h2]; exact hb

/-- the stake-pool record of the provider that `req.ID` names (none when it names nobody). -/
def ownKeys (s : State) (r : Req) : List (Kind × Id) :=
  match kvGet s.provs r.reqId with
  | some p => [(p.kind, r.reqId)]
  | none => []

theorem touched_own {key : SaveKey} {s : State} {r : Req} (h : key.Own r) :
    ∀ kk, kk ∈ touched key s r → kk ∈ ownKeys s r := by
  intro kk hk
  unfold touched at hk
  unfold ownKeys
  cases hp : kvGet s.provs r.reqId with
  | none => simp [hp] at hk
  | some p =>
    simp only [hp] at hk ⊢
    rw [h] at hk
    simpa using hk

/-- **frame (kill, the code as it is)**: whatever the kind, the caller and the `provider_id`, a `kill_*` transaction
leaves every record other than the named provider's own (its provider record, its stake pool) unchanged and creates
no stake-pool record. -/
theorem kill_frame (cfg : Cfg) (k : Kind) (s : State) (r : Req) :
    TxnFrame s (killTxn cfg k s r).1 r (ownKeys s r) := by
  unfold killTxn
  apply txnFrame_of
  intro s' h
  cases k with
  | blobber => exact (killBlobberK_frame h).mono (touched_own (killSaveKey_own r))
  | validator => exact (killValidatorK_frame h).mono (touched_own (killSaveKey_own r))
  | miner => exact (killMinerNode_frame (key := killSaveKey) h).mono (touched_own (killSaveKey_own r))
  | sharder => exact (killMinerNode_frame (key := killSaveKey) h).mono (touched_own (killSaveKey_own r))
  | authorizer => injection h with h; subst h; exact Frame.refl _ _ _

/-- **frame (shut-down)**, full strength, for a `ShutDown` whose save key names the provider's own record. -/
theorem shutdownK_frame (key : SaveKey) (cfg : Cfg) (s : State) (r : Req) (hown : key.Own r) :
    TxnFrame s (exec s r.caller (noTransfers (shutdownBlobberK key cfg s r))).1 r (ownKeys s r) ∧
    TxnFrame s (exec s r.caller (noTransfers (shutdownValidatorK key cfg s r))).1 r (ownKeys s r) :=
  ⟨txnFrame_of fun _ h => (shutdownBlobberK_frame h).mono (touched_own hown),
   txnFrame_of fun _ h => (shutdownValidatorK_frame h).mono (touched_own hown)⟩

/-- **frame (shut-down, the code as it is)** — full strength: whatever the kind, the caller and the `provider_id`, a
`shutdown_*` transaction leaves every record other than the named provider's own unchanged and creates no stake-pool
record. -/
theorem shutdown_frame (cfg : Cfg) (k : Kind) (s : State) (r : Req) :
    TxnFrame s (shutdownTxn cfg k s r).1 r (ownKeys s r) := by
  unfold shutdownTxn
  apply txnFrame_of
  intro s' h
  cases k with
  | blobber => exact (shutdownBlobberK_frame h).mono (touched_own (shutDownSaveKey_own r))
  | validator => exact (shutdownValidatorK_frame h).mono (touched_own (shutDownSaveKey_own r))
  | miner => injection h with h; subst h; exact Frame.refl _ _ _
  | sharder => injection h with h; subst h; exact Frame.refl _ _ _
  | authorizer => injection h with h; subst h; exact Frame.refl _ _ _

/-- **frame was false with the old save key**: the shut-down of blobber 30 by its delegate wallet 50 CREATED the record
`blobber:stakepool:50`, which is none of provider 30's keys. -/
theorem oldKey_shutdown_creates_node_witness :
    (Kind.blobber, 50) ∉ ownKeys s0 ⟨50, 30⟩ ∧ kvGet s0.sps (.blobber, 50) = none ∧
    (kvGet (oldShutdownTxn cfg0 s0 ⟨50, 30⟩).1.sps (.blobber, 50)).isSome = true := by
  decide +kernel

-- non-vacuity of the frame theorems: the kill of blobber 30 by the owner touches exactly its own two records
example : ownKeys s0 ⟨3, 30⟩ = [(.blobber, 30)] := by decide
example : kvGet (killTxn cfg0 .blobber s0 ⟨3, 30⟩).1.sps (.miner, 10) = kvGet s0.sps (.miner, 10) :=
  (kill_frame cfg0 .blobber s0 ⟨3, 30⟩).sps _ (by decide)
example : kvGet (shutdownTxn cfg0 .blobber s0 ⟨50, 30⟩).1.sps (.blobber, 50) = none :=
  (shutdown_frame cfg0 .blobber s0 ⟨50, 30⟩).sps (.blobber, 50) (by decide)

end ZChain.Provider
