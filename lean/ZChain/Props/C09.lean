import ZChain.Proofs.StorageC09
import ZChain.Props.C12
import ZChain.Props.C13
/-!
# C09 — Contract pool liabilities never grow without backing (storage contract)

`L N s` = Σ write pools + Σ challenge pools + Σ (delegate balances + unpaid rewards) of blobber and validator stake
pools + Σ read pools (indices below `N`); `W` = the contract wallet. `Backed N s s' := L s' + W s ≤ L s + W s'`,
i.e. `ΔL ≤ ΔW` (no operation of the model accrues block rewards: `accrued = 0`).

Full statement: every operation is backed. FALSE of the code and the model: the killed branch of `replaceBlobber`
credits the write pool with the removed blobber's challenge value without debiting the stored challenge pool. Proved:

* `liability_backed_partial` — every operation other than that branch is backed, for all observed amounts, and keeps the
  index bounds (`Good`);
* `liability_backed_history_partial` — hence over any history without that branch `L + W₀ ≤ L₀ + W`, in particular
  liabilities never exceed the wallet if they did not at the start (`solvent_partial`);
* `read_redeem_moves`, `read_redeem_overdraft`, `read_redeem_backed` — the read path: a redeemed marker of price `p`
  debits the reader's pool by exactly `p ≤ balance`, credits the blobber's stake pool with at most `p`, and a marker
  priced above the balance is refused outright (examples at the boundary: below, exactly at, one above, no pool);
* `killed_replace_unbacked` / `liability_backed_false` — the negation witness (`W1` of Props/C13: liabilities grow by 50
  with the wallet unchanged), replayed on the real code by the fixed case fx-replace-killed (known finding).

Not covered: miner, bridge, vesting and faucet contracts (other builders' models); within storagesc: block rewards
(`blobber_block_rewards`), free and enterprise allocations.
-/
namespace ZChain.Storage

attribute [local irreducible] offer

/-- indices an operation introduces are below `N` (only registrations, read-pool locks and read markers — which give a
reader without a pool an empty one — introduce indices) -/
def opBounded (N : Nat) : Op → Prop
  | .addBlobber i _ _ => i < N
  | .addValidator i => i < N
  | .rpLock j _ => j < N
  | .readRedeem _ _ j _ => j < N
  | _ => True

theorem updBlobbers_backed {N : Nat} {s s' : State} {k : Nat} {add rem : Option Nat} {rw cc dp : Nat}
    (h : updBlobbers s k add rem rw cc dp = .ok s')
    (hn : ∀ ri, rem = some ri → add ≠ none → isDead s ri = false) (g : Good N s) : Backed N s s' ∧ Good N s' := by
  unfold updBlobbers at h
  split at h
  · cases h; exact ⟨Backed.refl _ _, g⟩
  · cases h
  · exact updAdd_backed h g
  · rename_i ai ri
    have := hn ri rfl (by simp)
    rw [this] at h
    simp only [Bool.false_eq_true, if_false] at h
    exact updReplaceAlive_backed h g

theorem update_backed_partial {N : Nat} {s s' : State} {k : Nat} {c : Caller} {value size : Nat} {ext : Bool}
    {add rem : Option Nat} {rw cc dp : Nat} {ds : List Int}
    (h : update s k c value size ext add rem rw cc dp ds = .ok s')
    (hn : ¬ replacesDead s (.update k c value size ext add rem rw cc dp ds)) (g : Good N s) :
    Backed N s s' ∧ Good N s' := by
  have hn1 : ∀ ri, rem = some ri → add ≠ none → isDead s ri = false := by
    intro ri hr ha
    cases hd : isDead s ri with
    | false => rfl
    | true =>
      exfalso; apply hn
      subst hr
      cases add with
      | none => exact absurd rfl ha
      | some ai => exact hd
  have hpre : ∀ s2 b, preExtend s k c value size ext add rem rw cc dp = .ok (s2, b) → Backed N s s2 ∧ Good N s2 := by
    intro s2 b hp
    unfold preExtend at hp
    split at hp
    · cases hp
    · split at hp
      · split at hp
        · cases hp
        · dsimp only at hp
          split at hp
          · split at hp
            · cases hp
            · split at hp
              · cases hp
              · rename_i s1 h1; cases hp; exact updLock_backed h1 g
          · split at hp
            · cases hp
            · rename_i s1 h1
              split at hp
              · cases hp
              · rename_i s2' h2
                cases hp
                obtain ⟨b1, g1⟩ := updLock_backed h1 g
                obtain ⟨b2, g2⟩ := updBlobbers_backed h2 (by
                  intro ri hr ha
                  have := hn1 ri hr ha
                  unfold isDead at this ⊢
                  rw [updLock_blobbers h1]; exact this) g1
                exact ⟨b1.trans b2, g2⟩
      · cases hp
  rw [update_eq] at h
  split at h
  · cases h
  · rename_i s2 hp
    obtain ⟨b1, g1⟩ := hpre s2 true hp
    obtain ⟨b2, g2⟩ := updExtend_backed h g1
    exact ⟨b1.trans b2, g2⟩
  · rename_i s2 hp
    cases h; exact hpre _ false hp

/-- **C09 for the storage contract, every operation but the killed-blobber replacement.** -/
theorem liability_backed_partial {N : Nat} {s s' : State} {op : Op} (g : Good N s) (hb : opBounded N op)
    (h : stepRel s op s') (hn : ¬ replacesDead s op) : Backed N s s' ∧ Good N s' := by
  unfold stepRel at h
  cases op with
  | addBlobber i c p => exact addBlobber_backed h hb g
  | addValidator i => exact addValidator_backed h hb g
  | stake v i j amt => exact stake_backed h g
  | unstake v i j amt rew => exact unstake_backed h g
  | collect v i j rew => exact collect_backed h g
  | updBlobber i c p => exact updBlobber_backed h g
  | killBlobber i n d => exact killBlobber_backed h g
  | shutBlobber i n d => exact shutBlobber_backed h g
  | killValidator i n d => exact killValidator_backed h g
  | newAlloc j data size value chosen => exact newAlloc_backed h g
  | update k c value size ext add rem rw cc dp ds => exact update_backed_partial h hn g
  | commit k i size move => exact commit_backed h g
  | respPass k i D m V dp cr => exact respPass_backed h g
  | close fin k c X per rates => exact close_backed h g
  | wpLock k j v => exact wpLock_backed h g
  | rpLock j v => exact rpLock_backed h hb g
  | rpUnlock j v => exact rpUnlock_backed h g
  | readRedeem k i j p => exact readRedeem_backed h hb g
  | tick dt =>
    simp only [step] at h; cases h
    exact ⟨by unfold Backed L; simp only []; omega, g⟩
  | noop => simp only [step] at h; cases h; exact ⟨Backed.refl _ _, g⟩

/-- a history of admissible, bounded operations none of which replaces a dead blobber -/
inductive History09 (N : Nat) : State → State → Prop
  | nil (s : State) : History09 N s s
  | snoc {s s1 s2 : State} {op : Op} : History09 N s s1 → opBounded N op → stepRel s1 op s2 → ¬ replacesDead s1 op →
      History09 N s s2

/-- **C09 lifted to histories.** -/
theorem liability_backed_history_partial {N : Nat} {s s' : State} (g : Good N s) (h : History09 N s s') :
    Backed N s s' ∧ Good N s' := by
  induction h with
  | nil => exact ⟨Backed.refl _ _, g⟩
  | snoc _ hb hs hn ih =>
    obtain ⟨b1, g1⟩ := ih
    obtain ⟨b2, g2⟩ := liability_backed_partial g1 hb hs hn
    exact ⟨b1.trans b2, g2⟩

theorem good_init (N : Nat) : Good N init := ⟨fun _ _ => ⟨rfl, rfl, rfl⟩, fun _ _ => ⟨rfl, rfl⟩⟩

/-- from the initial state (nothing owed, empty wallet): what the contract owes never exceeds what it holds -/
theorem solvent_partial {N : Nat} {s : State} (h : History09 N init s) : L N s ≤ s.wallet := by
  have := (liability_backed_history_partial (good_init N) h).1
  unfold Backed at this
  have h0 : L N init = 0 := by
    unfold L sumMap
    have z : ∀ n, sumTo (fun _ => 0) n = 0 := by intro n; induction n <;> simp [sumTo, *]
    simp [init, sumTo, spVal, natOf, z]
  have hw : init.wallet = 0 := rfl
  omega

/-! ### negation witness -/

def safe09 (N : Nat) (s : State) : Op → Bool
  | .addBlobber i _ _ => decide (i < N)
  | .addValidator i => decide (i < N)
  | .rpLock j _ => decide (j < N)
  | .readRedeem _ _ j _ => decide (j < N)
  | .update _ _ _ _ _ (some _) (some ri) _ _ _ _ => !isDead s ri
  | _ => true

theorem safe09_sound {N : Nat} {s : State} {op : Op} (h : safe09 N s op = true) : opBounded N op ∧ ¬ replacesDead s op := by
  cases op with
  | addBlobber i c p => exact ⟨by simpa [safe09, opBounded] using h, fun x => x⟩
  | addValidator i => exact ⟨by simpa [safe09, opBounded] using h, fun x => x⟩
  | rpLock j v => exact ⟨by simpa [safe09, opBounded] using h, fun x => x⟩
  | readRedeem k i j p => exact ⟨by simpa [safe09, opBounded] using h, fun x => x⟩
  | update k c value size ext add rem rw cc dp ds =>
    refine ⟨trivial, ?_⟩
    cases add with
    | none => exact fun x => x
    | some ai =>
      cases rem with
      | none => exact fun x => x
      | some ri =>
        simp only [safe09, Bool.not_eq_true'] at h
        intro hd; simp only [replacesDead] at hd; rw [hd] at h; cases h
  | _ => exact ⟨trivial, fun x => x⟩

def runB (N : Nat) : State → List Op → Option State
  | s, [] => some s
  | s, op :: ops =>
    if safe09 N s op then
      match step s op with
      | .ok s1 => runB N s1 ops
      | .error _ => none
    else none

theorem runB_history {N : Nat} {ops : List Op} : ∀ {s0 s s' : State}, History09 N s0 s → runB N s ops = some s' → History09 N s0 s' := by
  induction ops with
  | nil => intro s0 s s' hh h; simp only [runB] at h; cases h; exact hh
  | cons op ops ih =>
    intro s0 s s' hh h
    simp only [runB] at h
    split at h
    · rename_i hs
      split at h
      · rename_i s1 h1
        exact ih (History09.snoc hh (safe09_sound hs).1 h1 (safe09_sound hs).2) h
      · cases h
    · cases h

/-- the state of Props/C13's `script1` (allocation 0 on blobbers 0 and 1, blobber 1 holds a challenge value of 50 and is
killed), reached through bounded operations -/
def W9 : State := (runB 6 init script1).getD init

theorem W9_run : runB 6 init script1 = some W9 := by
  have h : (runB 6 init script1).isSome = true := by decide +kernel
  unfold W9
  cases hr : runB 6 init script1 with
  | none => rw [hr] at h; cases h
  | some s => rfl

theorem W9_history : History09 6 init W9 := runB_history (History09.nil _) W9_run
theorem W9_good : Good 6 W9 := (liability_backed_history_partial (good_init 6) W9_history).2

/-- non-vacuity: the reachable state owes 1000 (write pool 950 + challenge pool 50) and holds 1000 -/
example : L 6 W9 = 1000 ∧ W9.wallet = 1000 := by decide +kernel

/-- the replacement of the killed blobber is admissible in `W9` and makes the liabilities grow by 50 while the wallet
does not move. -/
theorem killed_replace_unbacked :
    stepRel W9 opReplaceKilled (after W9 opReplaceKilled) ∧ L 6 (after W9 opReplaceKilled) = L 6 W9 + 50 ∧
    (after W9 opReplaceKilled).wallet = W9.wallet := by
  refine ⟨stepRel_after (by decide +kernel), by decide +kernel, by decide +kernel⟩

/-- **The full C09 statement is false for the storage contract.** -/
theorem liability_backed_false :
    ¬ (∀ (N : Nat) (s s' : State) (op : Op), Good N s → opBounded N op → stepRel s op s' → Backed N s s') := by
  intro hall
  have := hall 6 W9 _ opReplaceKilled W9_good trivial killed_replace_unbacked.1
  unfold Backed at this
  rw [killed_replace_unbacked.2.1, killed_replace_unbacked.2.2] at this
  omega

/-! ### the read path (`read_pool_lock`, `read_pool_unlock`, `commit_blobber_read`) -/

/-- **read_redeem_moves**: a redeemed read marker of price `p` takes exactly `p` out of the reader's pool (which held
at least `p`), credits the blobber's stake pool with `credit sp p ≤ p` and leaves the wallet alone. -/
theorem read_redeem_moves {s s' : State} {k i j p : Nat} (h : stepRel s (.readRedeem k i j p) s') :
    ∃ sp, s.sps i = some sp ∧ p ≤ (s.rps j).getD 0 ∧ s'.rps j = some ((s.rps j).getD 0 - p) ∧
      s'.sps i = some { sp with rewards := sp.rewards + credit sp p } ∧ credit sp p ≤ p ∧ s'.wallet = s.wallet := by
  unfold stepRel at h; simp only [step] at h
  unfold readRedeem at h
  ok_branches h
  rename_i sp hsp hlt
  exact ⟨sp, hsp, by omega, Map.set_same _ _ _, Map.set_same _ _ _, credit_le _ _, rfl⟩

/-- **read_redeem_overdraft**: a marker that costs more than the reader's pool holds (nothing, for a client without
a pool) is never redeemed — not even in part. -/
theorem read_redeem_overdraft {s s' : State} {k i j p : Nat} (hp : (s.rps j).getD 0 < p) : ¬ stepRel s (.readRedeem k i j p) s' := by
  intro h
  obtain ⟨_, _, hle, _⟩ := read_redeem_moves h
  omega

/-- **read_redeem_backed**: the liabilities do not grow at a redeemed marker (the wallet does not move). -/
theorem read_redeem_backed {N : Nat} {s s' : State} {k i j p : Nat} (g : Good N s) (hj : j < N)
    (h : stepRel s (.readRedeem k i j p) s') : L N s' ≤ L N s := by
  have hb := (liability_backed_partial g (op := .readRedeem k i j p) hj h (fun x => x)).1
  have hw := (read_redeem_moves h).choose_spec.2.2.2.2.2
  unfold Backed at hb; omega

/-- blobbers 0 and 1 (blobber 0 staked with the minimum), allocation 0 of client 3 on both, client 2 locks 300 into
its read pool -/
def scriptRead : List Op :=
  [.addBlobber 0 1000000000000 10, .addBlobber 1 1000000000000 10, .stake false 0 1 10000000000,
   .newAlloc 3 1 GBs 1000 [0, 1], .rpLock 2 300]

def WR : State := (runB 6 init scriptRead).getD init

/-- non-vacuity, the three regimes at the boundary: a marker priced below the balance (100 of 300) and one priced
exactly at it are redeemed — pool −price, rewards +price, liabilities unchanged —; one token more is refused; a client
without a pool redeems a free marker only (and gets an empty pool). -/
example : (runB 6 init scriptRead).isSome = true ∧ L 6 WR = 10000001300 ∧ WR.wallet = 10000001300 ∧ WR.rps 2 = some 300 := by
  decide +kernel
example : stepOk WR (.readRedeem 0 0 2 100) = true ∧ (after WR (.readRedeem 0 0 2 100)).rps 2 = some 200 ∧
    ((after WR (.readRedeem 0 0 2 100)).sps 0).map (·.rewards) = some 100 ∧ L 6 (after WR (.readRedeem 0 0 2 100)) = L 6 WR := by
  decide +kernel
example : stepOk WR (.readRedeem 0 0 2 300) = true ∧ (after WR (.readRedeem 0 0 2 300)).rps 2 = some 0 ∧
    ((after WR (.readRedeem 0 0 2 300)).sps 0).map (·.rewards) = some 300 ∧ L 6 (after WR (.readRedeem 0 0 2 300)) = L 6 WR := by
  decide +kernel
example : stepOk WR (.readRedeem 0 0 2 301) = false ∧ stepOk WR (.readRedeem 0 0 1 1) = false ∧
    stepOk WR (.readRedeem 0 0 1 0) = true ∧ (after WR (.readRedeem 0 0 1 0)).rps 1 = some 0 := by
  decide +kernel
/-- a blobber staked below the minimum is credited nothing: the price stays in the wallet, owed to nobody -/
example : stepOk WR (.readRedeem 0 1 2 300) = true ∧ L 6 (after WR (.readRedeem 0 1 2 300)) + 300 = L 6 WR := by
  decide +kernel

theorem killed_replace_is_excluded : replacesDead W9 opReplaceKilled := by
  show isDead W9 1 = true
  decide +kernel

end ZChain.Storage
