import ZChain.Proofs.Prune
/-!
# C27 — Pruning never deletes state that a retained block still needs

Property theorems over `Model/Prune.lean`, tied by `harness/cmd/c27` to the real trie, the real
`finalizeBlock` / `pruneClientState` and a real `PNodeDB` (rocksdb) on every run.
-/
namespace ZChain.Prune

inductive Op where
  | fin (f : Fin)
  | prune (v : Nat)
deriving Repr

def DB.stepOp (d : DB) : Op → DB
  | .fin f => d.finalize f
  | .prune v => (d.pruneBelow v).1

/-- run a history, NEWEST operation first -/
def runOps : List Op → DB
  | [] => {}
  | op :: older => (runOps older).stepOp op

/-- the finalized blocks of a history, newest first -/
def fins : List Op → List Fin
  | [] => []
  | .fin f :: older => f :: fins older
  | .prune _ :: older => fins older

/-- the highest version pruned below so far -/
def vmax : List Op → Nat
  | [] => 0
  | .fin _ :: older => vmax older
  | .prune v :: older => max v (vmax older)

/-- what the store holds: every node ever written, except those recorded dead by a block below the pruned version;
and the dead-node records are records of finalized blocks -/
theorem store_invariant (ops : List Op) :
    (∀ h, (∃ f ∈ fins ops, h ∈ f.new) → h ∈ (runOps ops).store ∨ ∃ f ∈ fins ops, f.round < vmax ops ∧ h ∈ f.dead) ∧
    (∀ e ∈ (runOps ops).deadRec, ∃ f ∈ fins ops, f.round = e.1 ∧ f.dead = e.2) := by
  induction ops with
  | nil => exact ⟨by simp [fins], by simp [runOps]⟩
  | cons op older ih =>
    cases op with
    | fin f =>
      simp only [runOps, DB.stepOp, fins, vmax, DB.finalize]
      constructor
      · rintro h ⟨g, hg, hgn⟩
        rcases List.mem_cons.mp hg with rfl | hg'
        · exact Or.inl ((mem_addAll _ _ _).2 (Or.inr hgn))
        · rcases ih.1 h ⟨g, hg', hgn⟩ with h1 | ⟨f', hf', h2⟩
          · exact Or.inl ((mem_addAll _ _ _).2 (Or.inl h1))
          · exact Or.inr ⟨f', by simp [hf'], h2⟩
      · intro e he
        rcases List.mem_cons.mp he with rfl | he'
        · exact ⟨f, by simp, rfl, rfl⟩
        · obtain ⟨f', hf', h2⟩ := ih.2 e (List.mem_filter.mp he').1
          exact ⟨f', by simp [hf'], h2⟩
    | prune v =>
      simp only [runOps, DB.stepOp, fins, vmax, DB.pruneBelow]
      constructor
      · rintro h hex
        rcases ih.1 h hex with h1 | ⟨f', hf', h2, h3⟩
        · by_cases hk : h ∈ ((runOps older).deadRec.filter (fun e => decide (e.1 < v))).flatMap (·.2)
          · right
            obtain ⟨e, he, hhe⟩ := List.mem_flatMap.mp hk
            have hem := List.mem_filter.mp he
            obtain ⟨f', hf', hr, hd⟩ := ih.2 e hem.1
            have hlt : e.1 < v := by simpa using hem.2
            exact ⟨f', hf', by rw [hr]; omega, by rw [hd]; exact hhe⟩
          · exact Or.inl ((mem_removeAll _ _ _).2 ⟨h1, hk⟩)
        · exact Or.inr ⟨f', hf', by omega, h3⟩
      · intro e he
        exact ih.2 e (List.mem_filter.mp he).1

/-- **prune_safe**. For every history of finalizations and prunes (any versions, interleaved in any way) in which
the finalized blocks form a chain and each block satisfies the three per-block facts of `BlockOK`
(new nodes carry the block's round as origin; dead nodes are not younger; no dead node is in the block's own
final state — this last one is where "delete and re-create an identical value within one block" is decided):
every retained block, i.e. every finalized block whose round is at or above every version pruned below, still has
ALL nodes of its state in the store. -/
theorem prune_safe (origin : Hash → Nat) (ops : List Op) (hchain : Chain (fins ops))
    (hok : ∀ f ∈ fins ops, BlockOK origin f) :
    ∀ g ∈ fins ops, vmax ops ≤ g.round → ∀ h ∈ g.nodes, h ∈ (runOps ops).store := by
  intro g hg hv h hh
  obtain ⟨f, hf, hfn⟩ := nodes_were_new (fins ops) hchain g hg h hh
  rcases (store_invariant ops).1 h ⟨f, hf, hfn⟩ with h1 | ⟨f', hf', hlt, hd⟩
  · exact h1
  · exact absurd hh (dead_not_in_later_state origin (fins ops) hchain hok f' hf' g hg (by omega) h hd)

/-- the read-back check of the model says so too -/
theorem prune_safe_check (origin : Hash → Nat) (ops : List Op) (hchain : Chain (fins ops))
    (hok : ∀ f ∈ fins ops, BlockOK origin f) (g : Fin) (hg : g ∈ fins ops) (hv : vmax ops ≤ g.round)
    (hblk : (runOps ops).blocks.find? (fun e => e.1 == g.round) = some (g.round, g.nodes)) :
    (runOps ops).check g.round = some true := by
  unfold DB.check
  rw [hblk]
  simp only [Option.some.injEq, List.all_eq_true, List.contains_iff_mem]
  intro h hh
  simpa using prune_safe origin ops hchain hok g hg hv h hh

/-- **version_choice_ok**: when `pruneClientState` prunes, the version it chose is at most `lfb.round − count`
(so the last `count` rounds are always retained), and what it does to the DB is `PruneBelowVersion(version)`. -/
theorem version_choice_ok (d : DB) (count v n : Nat) (d' : DB) (h : d.prune count = (d', .pruned v n)) :
    v + count ≤ d.lfb ∧ (d', n) = d.pruneBelow v := by
  unfold DB.prune at h
  by_cases hlfb : d.lfb ≤ count
  · simp [hlfb] at h
  · simp only [hlfb, if_false] at h
    generalize hver : (match slot d.ring (skipEmpty d.ring 10 (-(count : Int))) with
      | some r => some (walkTo100 d.ring d.ring.length (skipEmpty d.ring 10 (-(count : Int))) r)
      | none => none : Option Nat).getD d.lfb = version at h
    by_cases hab : d.lfb - count < version
    · simp [hab] at h
    · simp only [hab, if_false] at h
      injection h with h1 h2
      injection h2 with h2 h3
      subst h2
      refine ⟨by omega, ?_⟩
      rw [← h1, ← h3]

/-- **H_needed**: without the per-block fact "a dead node is not part of the block's own state" a retained state
loses a node. (Block 5 records `a` dead although its state still has a node with that hash — what a collector
that forgot a re-creation would do; pruning below 6 then breaks the retained block 7.) -/
theorem H_needed :
    let ops := [Op.prune 6, .fin ⟨7, ["c"], [], ["a", "c"]⟩, .fin ⟨5, ["a"], ["a"], ["a"]⟩]
    Chain (fins ops) ∧ vmax ops ≤ 7 ∧ (runOps ops).check 7 = some false := by
  refine ⟨?_, by decide, by decide⟩
  simp only [fins, Chain]
  decide

/-- **Negation witness for the finding `C27:aborted-delete-corrupts-pending-node`** (observed on the real trie:
`hist; b 4528; t; i pd; i pb; c; t; d pb; a; fin; check 4528` → `missing`). The block persists the node set `new`
its change collector holds, but its state contains a node `a` that is neither in the previous state nor in `new`
(the collector's pending copy was altered to `a'` by the Delete of a transaction whose trie was then discarded:
aborted, or committed without net change — delete + re-insert of the same value — so that `MergeMPTChanges` skips it). The chain hypothesis of
`prune_safe` fails for such a block, and its complete state cannot be read back — with no pruning at all. -/
theorem unpersisted_state_node_unreadable :
    let ops := [Op.fin ⟨5, ["r", "a'"], [], ["r", "a"]⟩]
    ¬ Chain (fins ops) ∧ vmax ops ≤ 5 ∧ (runOps ops).check 5 = some false := by
  refine ⟨?_, by decide, by decide⟩
  simp only [fins, Chain]
  decide

/-- non-vacuity of `prune_safe`: a history with a delete, a re-creation in a later round (another hash) and two
prunes meets its hypotheses (origin = the digit in the hash token) -/
def exOps : List Op :=
  [.prune 8, .fin ⟨9, ["r9", "a9"], ["r7"], ["r9", "a9", "b5"]⟩, .prune 6,
   .fin ⟨7, ["r7"], ["r5", "a5"], ["r7", "b5"]⟩, .fin ⟨5, ["r5", "a5", "b5"], [], ["r5", "a5", "b5"]⟩]
def exOrigin : Hash → Nat
  | "r9" => 9 | "a9" => 9 | "r7" => 7 | "r5" => 5 | "a5" => 5 | "b5" => 5 | _ => 0

example : Chain (fins exOps) := by simp only [exOps, fins, Chain]; decide
example : (runOps exOps).check 9 = some true ∧ (runOps exOps).check 7 = some true ∧ (runOps exOps).check 5 = some false := by decide
example : ∀ f ∈ fins exOps, BlockOK exOrigin f := by
  intro f hf
  simp only [exOps, fins, List.mem_cons, List.mem_nil_iff, or_false] at hf
  rcases hf with rfl | rfl | rfl <;> exact ⟨by decide, by decide, by decide⟩

/-- a second dead-node record for the same round replaces the first (`PutCF` under the round key): the first
block's dead nodes are then never pruned — a leak, never a loss -/
example : ((({} : DB).finalize ⟨5, [], ["x"], []⟩).finalize ⟨5, [], ["y"], []⟩).deadRec = [(5, ["y"])] := by decide

/-! ## forks: a finalized block is rolled back and its round is finalized again -/

inductive FOp where
  | fin (f : Fin)
  | prune (v : Nat)
  | rollback (r : Nat)
deriving Repr

def DB.stepF (d : DB) : FOp → DB
  | .fin f => d.finalize f
  | .prune v => (d.pruneBelow v).1
  | .rollback r => d.rollback r

/-- run a history with roll-backs, NEWEST operation first -/
def runF : List FOp → DB
  | [] => {}
  | op :: older => (runF older).stepF op

/-- the block finalized LAST for a round (newest-first history) -/
def lastFin : List FOp → Nat → Option Fin
  | [], _ => none
  | .fin f :: older, q => if f.round = q then some f else lastFin older q
  | _ :: older, q => lastFin older q

/-- **the dead-node record of a round is that of the block finalized LAST for the round** — for every history of
finalizations, prunes and roll-backs. In particular a re-finalization of a round OVERWRITES the record the
rolled-back block of that round left, also when the new block deleted nothing (its record is empty): the stale
record never survives. -/
theorem deadRec_is_last_finalized (ops : List FOp) :
    ∀ e ∈ (runF ops).deadRec, ∃ f, lastFin ops e.1 = some f ∧ f.dead = e.2 := by
  induction ops with
  | nil => intro e he; simp [runF] at he
  | cons op older ih =>
    intro e he
    cases op with
    | fin f =>
      simp only [runF, DB.stepF, DB.finalize] at he
      rcases List.mem_cons.mp he with rfl | he'
      · exact ⟨f, by simp [lastFin], rfl⟩
      · have hm := List.mem_filter.mp he'
        have hne : ¬ f.round = e.1 := by
          intro h; have := hm.2; simp [h] at this
        obtain ⟨g, hg, hd⟩ := ih e hm.1
        exact ⟨g, by simp [lastFin, hne, hg], hd⟩
    | prune v =>
      simp only [runF, DB.stepF, DB.pruneBelow] at he
      obtain ⟨g, hg, hd⟩ := ih e (List.mem_filter.mp he).1
      exact ⟨g, by simpa [lastFin] using hg, hd⟩
    | rollback r =>
      simp only [runF, DB.stepF, DB.rollback] at he
      obtain ⟨g, hg, hd⟩ := ih e he
      exact ⟨g, by simpa [lastFin] using hg, hd⟩

/-- one record per round: right after finalizing `f`, the records of its round are exactly `[(f.round, f.dead)]`,
whatever was recorded for that round before and also when `f.dead = []` -/
theorem finalize_overwrites_round_record (d : DB) (f : Fin) :
    (d.finalize f).deadRec.filter (fun e => e.1 == f.round) = [(f.round, f.dead)] := by
  simp only [DB.finalize, List.filter_cons, beq_self_eq_true, if_true, List.filter_filter]
  congr 1
  apply List.filter_eq_nil_iff.mpr
  intro e _ h
  simp only [Bool.and_eq_true, bne_iff_ne, ne_eq, beq_iff_eq] at h
  exact h.2 h.1

/-- the counterfactual `finalizeBlock` that skips `RecordDeadNodes` when the block deleted nothing -/
def DB.finalizeSkipEmpty (d : DB) (f : Fin) : DB :=
  if f.dead.isEmpty then { d.finalize f with deadRec := d.deadRec } else d.finalize f

/-- **why the overwrite must happen even for an empty block**. Round 7 holds `R7 → {a}`; block A8 rewrites `a`
(records `R7, a` dead at round 8) and is rolled back; the winning fork's B8 is EMPTY (state still `R7 → {a}`), B9
follows; prune below 9. With the real `finalize` the retained blocks 8 and 9 read back; if the empty B8 left A8's
record in place, the pruner deletes `R7` and `a`, which B8 and B9 still reference. -/
theorem stale_record_of_rolled_back_block_unsafe :
    let a8 : Fin := ⟨8, ["R8", "a'"], ["R7", "a"], ["R8", "a'"]⟩
    let b8 : Fin := ⟨8, [], [], ["R7", "a"]⟩
    let b9 : Fin := ⟨9, ["R9", "b"], ["R7"], ["R9", "a", "b"]⟩
    let start : DB := ({} : DB).finalize ⟨7, ["R7", "a"], [], ["R7", "a"]⟩
    (((((start.finalize a8).rollback 7).finalize b8).finalize b9).pruneBelow 9).1.check 9 = some true ∧
    (((((start.finalize a8).rollback 7).finalize b8).finalize b9).pruneBelow 9).1.check 8 = some true ∧
    (((((start.finalize a8).rollback 7).finalizeSkipEmpty b8).finalize b9).pruneBelow 9).1.check 9 = some false ∧
    (((((start.finalize a8).rollback 7).finalizeSkipEmpty b8).finalize b9).pruneBelow 9).1.check 8 = some false := by
  refine ⟨by decide, by decide, by decide, by decide⟩

/-! ## the change collector -/

/-- **AddChange clears a pending delete** of the node it (re-)creates: a value deleted and re-created identically
within one block (same round ⇒ same hash) is not recorded dead. -/
theorem addChange_clears_delete (c : Collector) (old : Option Hash) (new : Hash) (hne : old ≠ some new) :
    new ∉ (c.addChange old new).deletes := by
  unfold Collector.addChange
  cases old with
  | none => simp [Collector.setChange]
  | some o =>
    have hon : o ≠ new := fun e => hne (by rw [e])
    simp only
    split
    · split
      · simp [Collector.dropChange]
      · simp [Collector.setChange, Collector.dropChange]
    · simp [Collector.setChange, hon.symm]

/-- **the collector's `Validate()` invariant**: after any sequence of `AddChange` / `DeleteChange` calls (with
old ≠ new, as `insertNode` guarantees) no hash is both a recorded change (a node to persist) and a recorded
delete (a node to prune). -/
theorem collector_disjoint (calls : List CCall)
    (hne : ∀ o n, CCall.add (some o) n ∈ calls → o ≠ n) :
    (calls.foldl Collector.step {}).Disjoint := by
  suffices h : ∀ (c : Collector), c.Disjoint → (calls.foldl Collector.step c).Disjoint from
    h {} (by intro h hh; simp at hh)
  induction calls with
  | nil => intro c hc; exact hc
  | cons call rest ih =>
    intro c hc
    simp only [List.foldl_cons]
    apply ih (fun o n hm => hne o n (by simp [hm]))
    cases call with
    | del o =>
      simp only [Collector.step, Collector.deleteChange]
      cases hg : c.getChange o with
      | some ch =>
        simp only
        intro h hh
        rw [getChange_dropChange]
        split
        · rfl
        · exact hc h hh
      | none =>
        simp only
        intro h hh
        show c.getChange h = none
        rcases List.mem_cons.mp hh with rfl | h2
        · exact hg
        · exact hc h (List.mem_filter.mp h2).1
    | add old new =>
      simp only [Collector.step, Collector.addChange]
      have hc' : ∀ h, h ∈ c.deletes.filter (· != new) → c.getChange h = none ∧ h ≠ new := by
        intro h hh
        have := List.mem_filter.mp hh
        exact ⟨hc h this.1, by simpa using this.2⟩
      cases old with
      | none =>
        simp only
        intro h hh
        have := hc' h hh
        rw [getChange_setChange]
        simp only [Ne.symm this.2, if_false]
        exact this.1
      | some o =>
        have hon : o ≠ new := hne o new (by simp)
        simp only
        cases hg : ({ c with deletes := c.deletes.filter (· != new) } : Collector).getChange o with
        | some prev =>
          simp only
          split
          · intro h hh
            rw [getChange_dropChange]
            split
            · rfl
            · exact (hc' h hh).1
          · intro h hh
            have := hc' h hh
            rw [getChange_setChange, getChange_dropChange]
            simp only [Ne.symm this.2, if_false]
            split
            · rfl
            · exact this.1
        | none =>
          simp only
          intro h hh
          show (Collector.setChange { c with deletes := c.deletes.filter (· != new) } new ⟨some o, new⟩).getChange h = none
          rw [getChange_setChange]
          rcases List.mem_cons.mp hh with rfl | h2
          · simp only [Ne.symm hon, if_false]
            exact hg
          · have h3 := (List.mem_filter.mp h2).1
            have := hc' h h3
            simp only [Ne.symm this.2, if_false]
            exact this.1

/-- delete then re-create an identical node in the collector of one block: nothing is recorded dead, the node is
a change again (non-vacuity of the two theorems above) -/
example : let c := ([CCall.add none "a", .del "a", .add none "a"].foldl Collector.step {})
          c.deletes = [] ∧ c.getChange "a" = some ⟨none, "a"⟩ := by decide
/-- replace a persisted node `p` by `a`, then put a node with p's hash back: `p` is not dead, no change remains -/
example : let c := ([CCall.add (some "p") "a", .add (some "a") "p"].foldl Collector.step {})
          c.deletes = [] ∧ c.changes = [] := by decide

end ZChain.Prune
