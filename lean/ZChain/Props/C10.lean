import ZChain.Proofs.StakePool
/-!
# C10 — Reward distribution splits the amount exactly

Statements about `Model/StakePool.lean` (`DistributeRewards`, `DistributeRewardsRandN`,
`equallyDistributeRewards` of smartcontract/stakepool/stakepool.go), tied to the Go code by `harness/cmd/c10`.

`Upd` is what the Go code records in `spUpdate` (provider reward + per-delegate rewards): the increments.

* `serviceCharge_le_value`      — the service charge never exceeds the value (since repair 20328ad the code caps it)
* `distribute_exact`            — FULL: for every value < 2^64, every ratio, every pool set: provider + delegates = value (ℕ, no wrap)
* `distribute_state`            — and the stored delegate rewards (and the provider's) move by exactly those increments
* `serviceCharge_defined_partial` — for `ratio ∈ [0,1]`, `value < 2^53` the charge is defined (no error) and uncapped
* `serviceCharge_capped_witness`, `distribute_capped_witness` — at `value = 2^53+3`, `ratio = 1.0` (`float64(value)`
  rounds up to `value+1`; before 20328ad the provider was credited `value+1` and the delegates ~2^64, the built-in
  assertion passing because its sum wrapped too) the charge is now exactly `value`, nothing is left for the delegates
* `randN_exact` / `randN_at_most_N` — the RandN variant, when the selected delegates hold stake
* `randN_zero_stake_drops_witness` — and NOT when they hold none (`N = 0`, or only zero-balance pools selected)
* `dead_or_understaked_gets_nothing`
* “proportional to its stake up to a few units”: NOT proved (it needs a float error analysis of two roundings and a
  division); it is checked on the implementation by the harness oracle on every run (`C10:not-proportional`)
-/
namespace ZChain.StakePool
open ZChain ZChain.Coin

/-! ## the common prefix, case by case -/

theorem prefixPart_cases {sp : SP} {value : Nat} {pre : Pre} (h : prefixPart sp value = .ok pre) :
    ∃ total, stakeOf sp.pools = .ok total ∧
    (((value = 0 ∨ sp.killed = true ∨ total < sp.minStake) ∧ pre = .done sp none) ∨
     (¬(value = 0 ∨ sp.killed = true ∨ total < sp.minStake) ∧ sp.pools = [] ∧
        ∃ nr, addCoin sp.reward value = .ok nr ∧ pre = .done { sp with reward := nr } (some { reward := value, dr := [] })) ∨
     (¬(value = 0 ∨ sp.killed = true ∨ total < sp.minStake) ∧ sp.pools ≠ [] ∧
        ∃ sc sp1, serviceChargeOf sp value = .ok sc ∧ sp1.pools = sp.pools ∧ sp1.reward = sp.reward + sc ∧
          ((wrapSub value sc = 0 ∧ pre = .done sp1 (some { reward := sc, dr := sp.pools.map (fun _ => 0) })) ∨
           (wrapSub value sc ≠ 0 ∧ pre = .go sp1 sc (wrapSub value sc))))) := by
  unfold prefixPart at h
  obtain ⟨total, ht, h⟩ := bind_ok h
  refine ⟨total, ht, ?_⟩
  split at h
  · rename_i hc; left; injection h with h; exact ⟨hc, h.symm⟩
  · rename_i hc
    right
    split at h
    · rename_i he
      left
      obtain ⟨nr, hnr, h⟩ := bind_ok h
      injection h with h
      exact ⟨hc, he, nr, liftC_ok hnr, h.symm⟩
    · rename_i he
      right
      obtain ⟨sc, hsc, h⟩ := bind_ok h
      obtain ⟨sp1, hsp1, h⟩ := bind_ok h
      have hsp : sp1.pools = sp.pools ∧ sp1.reward = sp.reward + sc := by
        split at hsp1
        · obtain ⟨nr, hnr, hsp1⟩ := bind_ok hsp1
          injection hsp1 with hsp1
          obtain ⟨e, _⟩ := addCoin_ok (liftC_ok hnr)
          subst hsp1; exact ⟨rfl, e⟩
        · rename_i h0
          injection hsp1 with hsp1
          subst hsp1
          have : sc = 0 := by omega
          subst this; exact ⟨rfl, rfl⟩
      refine ⟨hc, he, sc, sp1, hsc, hsp.1, hsp.2, ?_⟩
      by_cases hz : wrapSub value sc = 0
      · left
        have h' : (Except.ok (Pre.done sp1 (some { reward := sc, dr := sp.pools.map (fun _ => 0) })) : Except Err Pre) = Except.ok pre := by
          simpa only [hz, if_true] using h
        injection h' with h'; exact ⟨hz, h'.symm⟩
      · right
        have h' : (Except.ok (Pre.go sp1 sc (wrapSub value sc)) : Except Err Pre) = Except.ok pre := by
          simpa only [hz, if_false] using h
        injection h' with h'; exact ⟨hz, h'.symm⟩

/-! ## exactness of `DistributeRewards` -/

/-- **serviceCharge_le_value** (the cap `if serviceCharge > value { serviceCharge = value }`). -/
theorem serviceCharge_le_value {sp : SP} {value sc : Nat} (h : serviceChargeOf sp value = .ok sc) : sc ≤ value := by
  unfold serviceChargeOf at h
  obtain ⟨sc0, _, h⟩ := bind_ok h
  injection h with h
  rw [← h]; split <;> omega

/-- **distribute_exact.** Whenever `DistributeRewards` succeeds and moves something, and the float-computed
something, the provider's reward plus the delegates' rewards recorded for the call
add up to **exactly** the value (as natural numbers: nothing wraps), for any number of pools, any balances
(zero stakes included), any ratio; the provider's stored reward grows by exactly its part. -/
theorem distribute_exact (sp : SP) (value : Nat) (sp' : SP) (u : Upd) (hv : value < U64)
    (h : distributeRewards sp value = .ok (sp', some u))
    :
    u.reward + u.dr.sum = value ∧ sp'.reward = sp.reward + u.reward := by
  unfold distributeRewards at h
  obtain ⟨pre, hpre, h⟩ := bind_ok h
  obtain ⟨total, _, hcases⟩ := prefixPart_cases hpre
  rcases hcases with ⟨_, rfl⟩ | ⟨_, _, nr, hnr, rfl⟩ | ⟨_, hne, sc, sp1, hsc1, hp1, hr1, hvl⟩
  · simp only at h; injection h with h; injection h with _ h; cases h
  · simp only at h; injection h with h; injection h with h1 h2
    injection h2 with h2; subst h1 h2
    obtain ⟨e, _⟩ := addCoin_ok hnr
    exact ⟨by simp, e⟩
  · have hle := serviceCharge_le_value hsc1
    have hws : wrapSub value sc = value - sc := wrapSub_of_le hv hle
    rcases hvl with ⟨hz, rfl⟩ | ⟨hz, rfl⟩
    · simp only at h; injection h with h; injection h with h1 h2
      injection h2 with h2; subst h1 h2
      simp only [sum_map_zero]
      rw [hws] at hz
      exact ⟨by omega, hr1⟩
    · simp only at h
      obtain ⟨stake, hstake, h⟩ := bind_ok h
      split at h
      · cases h
      · obtain ⟨⟨ps, ds, vb⟩, hloop, h⟩ := bind_ok h
        obtain ⟨⟨ps', ds'⟩, heq, h⟩ := bind_ok h
        obtain ⟨a, b, c⟩ := distLoop_sum _ _ _ _ ps ds vb hloop
        have hds' : ds'.sum = wrapSub value sc := by
          by_cases hpos : 0 < vb
          · rw [if_pos hpos] at heq
            have hlen : 0 < ps.length := by
              rw [c, hp1]; exact List.length_pos_iff.mpr hne
            obtain ⟨x, _, _⟩ := equally_sum vb ps ds ps' ds' (by rw [b, c]) hlen (by rw [a, hws]; omega) heq
            rw [x, a]
          · rw [if_neg hpos] at heq
            injection heq with heq; injection heq with _ h2
            have h2' : ds = ds' := h2
            rw [← h2', ← a]; omega
        split at h
        · cases h
        · injection h with h; injection h with h1 h2
          injection h2 with h2; subst h1 h2
          simp only [hds', hws]
          exact ⟨by omega, hr1⟩

/-- **distribute_state.** … and the STORED delegate rewards move by exactly the recorded increments (balances untouched),
as long as the accumulated rewards are not within `value` of `2^64` (they are bounded by the token supply). -/
theorem distribute_state (sp : SP) (value : Nat) (sp' : SP) (u : Upd) (hv : value < U64)
    (h : distributeRewards sp value = .ok (sp', some u))
    (hfar : ∀ p ∈ sp.pools, p.reward + value < U64) :
    R3 sp.pools sp'.pools u.dr := by
  unfold distributeRewards at h
  obtain ⟨pre, hpre, h⟩ := bind_ok h
  obtain ⟨total, _, hcases⟩ := prefixPart_cases hpre
  rcases hcases with ⟨_, rfl⟩ | ⟨_, he, nr, hnr, rfl⟩ | ⟨_, hne, sc, sp1, hsc1, hp1, hr1, hvl⟩
  · simp only at h; injection h with h; injection h with _ h; cases h
  · simp only at h; injection h with h; injection h with h1 h2
    injection h2 with h2; subst h1 h2
    simp only [he]; exact R3.nil
  · have hle := serviceCharge_le_value hsc1
    have hws : wrapSub value sc = value - sc := wrapSub_of_le hv hle
    rcases hvl with ⟨hz, rfl⟩ | ⟨hz, rfl⟩
    · simp only at h; injection h with h; injection h with h1 h2
      injection h2 with h2; subst h1 h2
      rw [hp1]; exact R3_refl_zero _
    · simp only at h
      obtain ⟨stake, hstake, h⟩ := bind_ok h
      split at h
      · cases h
      · obtain ⟨⟨ps, ds, vb⟩, hloop, h⟩ := bind_ok h
        obtain ⟨⟨ps', ds'⟩, heq, h⟩ := bind_ok h
        obtain ⟨a, b, c⟩ := distLoop_sum _ _ _ _ ps ds vb hloop
        have hr0 := distLoop_R3 _ _ _ _ ps ds vb hloop
        have hfin : R3 sp1.pools ps' ds' := by
          by_cases hpos : 0 < vb
          · rw [if_pos hpos] at heq
            have hlen : 0 < ps.length := by
              rw [c, hp1]; exact List.length_pos_iff.mpr hne
            exact equally_R3 vb sp1.pools ps ds ps' ds' value hr0 hlen (by rw [a, hws]; omega)
              (by rw [hp1]; exact hfar) hv heq
          · rw [if_neg hpos] at heq
            injection heq with heq; injection heq with h1 h2
            have h1' : ps = ps' := h1
            have h2' : ds = ds' := h2
            rw [← h1', ← h2']; exact hr0
        split at h
        · cases h
        · injection h with h; injection h with h1 h2
          injection h2 with h2; subst h1 h2
          simp only
          rw [← hp1]; exact hfin

/-- **serviceCharge_defined_partial.** For a finite ratio in `[0,1]` and `value < 2^53` the float-computed service
charge `uint64(ratio * float64(value))` is defined (no error class) and already `≤ value`: the cap is not needed. -/
theorem serviceCharge_defined_partial (sp : SP) (value m E : Nat) (hr : sp.ratio = .fin false m E)
    (hle : m * 2 ^ E ≤ 2 ^ 1074) (hv : value < 2 ^ 53) :
    ∃ sc, float64ToCoin (F64.mul sp.ratio (toFloat64 value)) = .ok sc ∧ sc ≤ value ∧ serviceChargeOf sp value = .ok sc := by
  obtain ⟨n, hn, hnle⟩ := F64.toNatTrunc_mul_le value hv m E hle
  have h1 : float64ToCoin (F64.mul sp.ratio (toFloat64 value)) = .ok n := by
    unfold float64ToCoin toFloat64
    rw [hr, F64.mul_comm, hn]
    have hnn : F64.lt (F64.mul (F64.ofNat value) (.fin false m E)) F64.zero = false := by
      obtain ⟨mc, Ec, hof, _, _⟩ := F64.ofNat_exact value hv
      rw [hof]
      show F64.lt (F64.roundDiv (false != false) _ _) F64.zero = false
      rw [F64.roundDiv_eq]
      split
      · rfl
      · simp only [F64.lt, F64.sval, F64.zero, bne_self_eq_false, Bool.false_eq_true, if_false]
        simp
    rw [hnn]
    rfl
  refine ⟨n, h1, hnle, ?_⟩
  unfold serviceChargeOf
  rw [h1]
  simp only [liftC, bind, Except.bind]
  rw [if_neg (by omega)]

/-! ## the repaired rounding case (historical negation witness) -/

def witnessSP : SP :=
  { pools := [⟨1000, 0⟩, ⟨1000, 0⟩], reward := 0, minStake := 0, ratio := F64.one, killed := false }

/-- at `value = 2^53 + 3`, ratio `1.0`, `float64(value)` is a tie and rounds up (`F64.toNatTrunc_mul_gt_witness`): the raw
charge would be `value + 1`; the cap makes it `value`. -/
theorem serviceCharge_capped_witness :
    float64ToCoin (F64.mul witnessSP.ratio (toFloat64 (2 ^ 53 + 3))) = .ok (2 ^ 53 + 4) ∧
    serviceChargeOf witnessSP (2 ^ 53 + 3) = .ok (2 ^ 53 + 3) := by decide +kernel

/-- the whole call: everything goes to the provider, the delegates get nothing, the sum is exact
(before 20328ad: provider `2^53+4`, delegates `2^63` and `2^63−1`, i.e. `2^64 + value` in total). -/
theorem distribute_capped_witness :
    distributeRewards witnessSP (2 ^ 53 + 3) =
      .ok ({ witnessSP with reward := 2 ^ 53 + 3 }, some { reward := 2 ^ 53 + 3, dr := [0, 0] }) := by decide +kernel

/-! ## killed / under-staked providers -/

/-- **dead_or_understaked_gets_nothing.** A killed provider, or one whose total stake is below `MinStake`,
is credited nothing by either function: state unchanged, no reward record. -/
theorem dead_or_understaked_gets_nothing (sp : SP) (value total : Nat) (n : Nat) (idxs : List Nat)
    (ht : stakeOf sp.pools = .ok total) (hd : sp.killed = true ∨ total < sp.minStake) :
    distributeRewards sp value = .ok (sp, none) ∧ distributeRewardsRandN sp value n idxs = .ok (sp, none) := by
  have hp : prefixPart sp value = .ok (.done sp none) := by
    unfold prefixPart
    rw [ht]
    show (if value = 0 ∨ sp.killed = true ∨ total < sp.minStake then _ else _) = _
    rw [if_pos (Or.inr hd)]
  unfold distributeRewards distributeRewardsRandN
  rw [hp]
  exact ⟨rfl, rfl⟩

example : distributeRewards { witnessSP with killed := true } 1000 = .ok ({ witnessSP with killed := true }, none) := by
  decide +kernel
example : distributeRewards { witnessSP with minStake := 2001 } 1000 = .ok ({ witnessSP with minStake := 2001 }, none) := by
  decide +kernel

/-! ## the RandN variant -/

/-- well-formed selection: what `rand.Perm` yields — distinct positions of the ordered pool list. -/
def GoodSel (sp : SP) (n : Nat) (idxs : List Nat) : Prop :=
  idxs.Nodup ∧ (∀ i ∈ idxs, i < sp.pools.length) ∧ (sp.pools.length ≤ n ∨ idxs.length = n)

theorem selectIdx_good {sp : SP} {n : Nat} {idxs : List Nat} (hg : GoodSel sp n idxs) :
    (selectIdx sp.pools n idxs).Nodup ∧ (∀ i ∈ selectIdx sp.pools n idxs, i < sp.pools.length) ∧
    (selectIdx sp.pools n idxs).length ≤ n ∧ (selectIdx sp.pools n idxs).length ≤ sp.pools.length := by
  unfold selectIdx
  split
  · rename_i h
    refine ⟨List.nodup_range, ?_, ?_, ?_⟩
    · intro i hi; exact List.mem_range.mp hi
    · simp; omega
    · simp
  · rename_i h
    obtain ⟨h1, h2, h3⟩ := hg
    have hn : idxs.length = n := by omega
    refine ⟨h1, h2, by omega, ?_⟩
    -- distinct naturals below `len`: at most `len` of them
    have hsub : idxs ⊆ List.range sp.pools.length := by
      intro i hi; exact List.mem_range.mpr (h2 i hi)
    have := List.Nodup.length_le_of_subset h1 hsub
    simpa using this

theorem getD_map_zero {α} (l : List α) (i : Nat) : (l.map (fun _ => 0)).getD i 0 = 0 := by
  simp [List.getD_eq_getElem?_getD]
  cases h : l[i]? <;> simp

/-- **randN_exact.** When the selected delegates hold stake and the service charge does not exceed the value,
`DistributeRewardsRandN` is exact as well (it has no run-time assertion: this theorem is its only guarantee). -/
theorem randN_exact (sp : SP) (value n : Nat) (idxs : List Nat) (sp' : SP) (u : Upd) (hv : value < U64)
    (hg : GoodSel sp n idxs)
    (h : distributeRewardsRandN sp value n idxs = .ok (sp', some u))
    (hst : stakeOf ((selectIdx sp.pools n idxs).map (fun i => sp.pools.getD i default)) ≠ .ok 0) :
    u.reward + u.dr.sum = value ∧ sp'.reward = sp.reward + u.reward := by
  unfold distributeRewardsRandN at h
  obtain ⟨pre, hpre, h⟩ := bind_ok h
  obtain ⟨total, _, hcases⟩ := prefixPart_cases hpre
  rcases hcases with ⟨_, rfl⟩ | ⟨_, _, nr, hnr, rfl⟩ | ⟨_, hne, sc, sp1, hsc1, hp1, hr1, hvl⟩
  · simp only at h; injection h with h; injection h with _ h; cases h
  · simp only at h; injection h with h; injection h with h1 h2
    injection h2 with h2; subst h1 h2
    obtain ⟨e, _⟩ := addCoin_ok hnr
    exact ⟨by simp, e⟩
  · have hle := serviceCharge_le_value hsc1
    have hws : wrapSub value sc = value - sc := wrapSub_of_le hv hle
    rcases hvl with ⟨hz, rfl⟩ | ⟨hz, rfl⟩
    · simp only at h; injection h with h; injection h with h1 h2
      injection h2 with h2; subst h1 h2
      simp only [sum_map_zero]
      rw [hws] at hz
      exact ⟨by omega, hr1⟩
    · simp only at h
      rw [hp1] at h
      obtain ⟨stake, hstake, h⟩ := bind_ok h
      by_cases hs0 : stake = 0
      · subst hs0; exact absurd hstake hst
      · rw [if_neg hs0] at h
        obtain ⟨⟨ps, ds, vb⟩, hloop, h⟩ := bind_ok h
        obtain ⟨⟨ps', ds'⟩, heq, h⟩ := bind_ok h
        obtain ⟨a, b, c⟩ := distLoop_sum _ _ _ _ ps ds vb hloop
        obtain ⟨g1, g2, _, _⟩ := selectIdx_good hg
        have hsel0 : 0 < (selectIdx sp.pools n idxs).length := by
          rcases Nat.eq_zero_or_pos (selectIdx sp.pools n idxs).length with h0 | h0
          · have : selectIdx sp.pools n idxs = [] := List.eq_nil_of_length_eq_zero h0
            rw [this] at hstake
            have e : (0 : Nat) = stake := by injection hstake
            exact absurd e.symm hs0
          · exact h0
        have hds' : ds'.sum = wrapSub value sc ∧ ds'.length = (selectIdx sp.pools n idxs).length := by
          by_cases hpos : 0 < vb
          · rw [if_pos hpos] at heq
            have hlen : 0 < ps.length := by rw [c]; simpa using hsel0
            obtain ⟨x, y, _⟩ := equally_sum vb ps ds ps' ds' (by rw [b, c]) hlen (by rw [a, hws]; omega) heq
            exact ⟨by rw [x, a], by rw [y, b]; simp⟩
          · rw [if_neg hpos] at heq
            injection heq with heq; injection heq with _ h2
            have h2' : ds = ds' := h2
            rw [← h2']
            exact ⟨by rw [← a]; omega, by rw [b]; simp⟩
        injection h with h; injection h with h1 h2
        injection h2 with h2; subst h1 h2
        simp only
        rw [writeBackN_sum _ _ _ hds'.2.symm g1 (by intro i hi; rw [List.length_map]; exact g2 i hi)
          (by intro i _; exact getD_map_zero _ _), sum_map_zero, hds'.1, hws]
        exact ⟨by omega, hr1⟩

/-- number of non-zero entries (credited delegates). -/
def nzCount : List Nat → Nat
  | [] => 0
  | d :: ds => (if d = 0 then 0 else 1) + nzCount ds

theorem nzCount_set_le : ∀ (ds : List Nat) (i d : Nat), nzCount (ds.set i d) ≤ nzCount ds + 1 := by
  intro ds
  induction ds with
  | nil => intro i d; simp [nzCount]
  | cons a ds ih =>
    intro i d
    cases i with
    | zero => simp only [List.set_cons_zero, nzCount]; split <;> split <;> omega
    | succ i => simp only [List.set_cons_succ, nzCount]; have := ih i d; omega

theorem nzCount_writeBackN : ∀ (is sel ds : List Nat), nzCount (writeBackN ds is sel) ≤ nzCount ds + is.length := by
  intro is
  induction is with
  | nil => intro sel ds; cases sel <;> simp [writeBackN]
  | cons i is ih =>
    intro sel ds
    cases sel with
    | nil => simp [writeBackN]
    | cons d sel =>
      simp only [writeBackN, List.length_cons]
      have h1 := ih sel (ds.set i d)
      have h2 := nzCount_set_le ds i d
      omega

theorem nzCount_zeros {α} (l : List α) : nzCount (l.map (fun _ => 0)) = 0 := by
  induction l with
  | nil => rfl
  | cons a l ih => simp only [List.map_cons, nzCount, ih]; rfl

/-- **randN_at_most_N.** At most `min N #pools` delegates are credited by `DistributeRewardsRandN`. -/
theorem randN_at_most_N (sp : SP) (value n : Nat) (idxs : List Nat) (sp' : SP) (u : Upd)
    (hg : GoodSel sp n idxs)
    (h : distributeRewardsRandN sp value n idxs = .ok (sp', some u)) :
    nzCount u.dr ≤ n ∧ nzCount u.dr ≤ sp.pools.length := by
  unfold distributeRewardsRandN at h
  obtain ⟨pre, hpre, h⟩ := bind_ok h
  obtain ⟨total, _, hcases⟩ := prefixPart_cases hpre
  rcases hcases with ⟨_, rfl⟩ | ⟨_, _, nr, hnr, rfl⟩ | ⟨_, hne, sc, sp1, hsc1, hp1, hr1, hvl⟩
  · simp only at h; injection h with h; injection h with _ h; cases h
  · simp only at h; injection h with h; injection h with h1 h2
    injection h2 with h2; subst h2; simp [nzCount]
  · rcases hvl with ⟨hz, rfl⟩ | ⟨hz, rfl⟩
    · simp only at h; injection h with h; injection h with h1 h2
      injection h2 with h2; subst h2
      simp only [nzCount_zeros]; omega
    · simp only at h
      rw [hp1] at h
      obtain ⟨stake, hstake, h⟩ := bind_ok h
      obtain ⟨_, _, g3, g4⟩ := selectIdx_good hg
      split at h
      · injection h with h; injection h with h1 h2
        injection h2 with h2; subst h2
        simp only [nzCount_zeros]; omega
      · obtain ⟨⟨ps, ds, vb⟩, hloop, h⟩ := bind_ok h
        obtain ⟨⟨ps', ds'⟩, heq, h⟩ := bind_ok h
        injection h with h; injection h with h1 h2
        injection h2 with h2; subst h2
        simp only
        have := nzCount_writeBackN (selectIdx sp.pools n idxs) ds' (sp.pools.map (fun _ => 0))
        rw [nzCount_zeros] at this
        omega

/-- **negation witness for RandN exactness without the stake hypothesis**: `N = 0` (a valid setting of
`num_*_delegates_rewarded`) — only the service charge is credited, the delegates' 750 of 1000 vanish, no error. -/
theorem randN_zero_stake_drops_witness :
    distributeRewardsRandN { witnessSP with ratio := F64.ofBits 0x3fd0000000000000 } 1000 0 [] =
      .ok ({ witnessSP with ratio := F64.ofBits 0x3fd0000000000000, reward := 250 }, some { reward := 250, dr := [0, 0] }) := by
  decide +kernel

/-- the same with `N = 1` selecting a delegate pool of balance 0 while another pool holds the stake. -/
theorem randN_zero_balance_selected_witness :
    distributeRewardsRandN { pools := [⟨0, 0⟩, ⟨5, 0⟩], reward := 0, minStake := 0, ratio := F64.ofBits 0x3fd0000000000000, killed := false } 1000 1 [0] =
      .ok ({ pools := [⟨0, 0⟩, ⟨5, 0⟩], reward := 250, minStake := 0, ratio := F64.ofBits 0x3fd0000000000000, killed := false },
           some { reward := 250, dr := [0, 0] }) := by
  decide +kernel

/-! ## non-vacuity -/

/-- a run that meets the hypotheses of `distribute_exact_partial` / `randN_exact` and moves tokens to everyone. -/
example : distributeRewards { pools := [⟨10, 0⟩, ⟨20, 0⟩, ⟨30, 5⟩], reward := 7, minStake := 1, ratio := F64.ofBits 0x3fb999999999999a, killed := false } 1000 =
    .ok ({ pools := [⟨10, 150⟩, ⟨20, 300⟩, ⟨30, 455⟩], reward := 107, minStake := 1, ratio := F64.ofBits 0x3fb999999999999a, killed := false },
         some { reward := 100, dr := [150, 300, 450] }) := by decide +kernel

example : distributeRewardsRandN { pools := [⟨10, 0⟩, ⟨20, 0⟩, ⟨30, 5⟩], reward := 7, minStake := 1, ratio := F64.ofBits 0x3fb999999999999a, killed := false } 1001 2 [2, 0] =
    .ok ({ pools := [⟨10, 225⟩, ⟨20, 0⟩, ⟨30, 681⟩], reward := 107, minStake := 1, ratio := F64.ofBits 0x3fb999999999999a, killed := false },
         some { reward := 100, dr := [225, 0, 676] }) := by decide +kernel

end ZChain.StakePool
