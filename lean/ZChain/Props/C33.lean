import ZChain.Proofs.DKG
import ZChain.Model.VRF
import ZChain.Generated.C33
import Mathlib.Algebra.Field.ZMod
/-!
# C33 — All miners derive the same round random seed

Theorems about `Model/VRF.lean` (the share collection **as coded**: `Chain.AddVRFShare`, the parked-share cache,
`round.Round.AddVRFShare` with its cap, `ThresholdNumBLSSigReceived`) over an arbitrary field, for every DKG size,
every threshold `t ≥ 1` and **every sequence of deliveries** (valid, invalid, repeated, for other timeout counts,
before or after the message is available).

The seed of the round is a fixed function of the recovered group signature
(`seed = first 16 hex digits of Hash(groupSig.GetHexString())`), so agreement on the group signature is
agreement on the seed; `Round.groupSig` stands for it.
-/
namespace ZChain.VRF
open ZChain.Alg ZChain.DKG
variable {F : Type} [Field F] [DecidableEq F]

/-- one delivery: the share message and whether the round's BLS message can be formed at that moment
(previous round present with a seed). -/
structure Delivery (F : Type) where
  share : VRFShare F
  msgAvailable : Bool

/-- the node's handling of one delivery (`handleVRFShare` → `AddVRFShare`), for the message point `h`. -/
def deliver (dkg : Party F) (h : F) (r : Round F) (d : Delivery F) : Round F :=
  (addVRFShare (some dkg) (if d.msgAvailable then some h else none) r d.share).1

/-- a node's round after any sequence of deliveries, starting from the empty round with timeout count `tc`. -/
def runDeliveries (dkg : Party F) (h : F) (tc : Nat) (ds : List (Delivery F)) : Round F :=
  ds.foldl (deliver dkg h) (Round.empty tc)

/-- the invariant of the share collection. -/
structure Inv (dkg : Party F) (h : F) (pidOf : Nat → F) (r : Round F) : Prop where
  verified : ∀ s ∈ r.shares, verifyVRFShare dkg h s = true
  tcs : ∀ s ∈ r.shares, s.tc = r.tc
  pids : ∀ s ∈ r.shares, s.pid = pidOf s.party
  cpids : ∀ s ∈ r.cache, s.pid = pidOf s.party
  nodup : (r.shares.map (·.party)).Nodup
  cap : r.shares.length ≤ dkg.t
  seed : ∀ g, r.groupSig = some g → dkg.t ≤ r.shares.length ∧
    g = (calBlsGpSign (r.shares.map (·.share)) (r.shares.map (·.pid))).getD 0

omit [Field F] [DecidableEq F] in
theorem hasShare_false_iff (r : Round F) (p : Nat) :
    r.hasShare p = false ↔ p ∉ r.shares.map (·.party) := by
  simp [Round.hasShare, List.any_eq_false]

theorem addShare_inv {dkg : Party F} {h : F} {pidOf : Nat → F} {r : Round F} (hi : Inv dkg h pidOf r)
    (s : VRFShare F) (hv : verifyVRFShare dkg h s = true) (htc : s.tc = r.tc) (hp : s.pid = pidOf s.party) :
    Inv dkg h pidOf (r.addShare s dkg.t) ∧ (r.addShare s dkg.t).tc = r.tc ∧
      (r.addShare s dkg.t).cache = r.cache := by
  by_cases h1 : r.shares.length ≥ dkg.t
  · have e : r.addShare s dkg.t = r := by unfold Round.addShare; rw [if_pos h1]
    rw [e]; exact ⟨hi, rfl, rfl⟩
  · by_cases h2 : r.hasShare s.party = true
    · have e : r.addShare s dkg.t = r := by unfold Round.addShare; rw [if_neg h1, if_pos h2]
      rw [e]; exact ⟨hi, rfl, rfl⟩
    · have e : r.addShare s dkg.t = { r with shares := r.shares ++ [s] } := by
        unfold Round.addShare; rw [if_neg h1, if_neg h2]
      rw [e]
      have h2' : s.party ∉ r.shares.map (·.party) := (hasShare_false_iff r s.party).mp (by simpa using h2)
      refine ⟨⟨?_, ?_, ?_, hi.cpids, ?_, ?_, ?_⟩, rfl, rfl⟩
      · intro x hx
        rcases List.mem_append.mp hx with hx | hx
        · exact hi.verified x hx
        · rw [List.mem_singleton.mp hx]; exact hv
      · intro x hx
        rcases List.mem_append.mp hx with hx | hx
        · exact hi.tcs x hx
        · rw [List.mem_singleton.mp hx]; exact htc
      · intro x hx
        rcases List.mem_append.mp hx with hx | hx
        · exact hi.pids x hx
        · rw [List.mem_singleton.mp hx]; exact hp
      · show ((r.shares ++ [s]).map (·.party)).Nodup
        rw [List.map_append, List.nodup_append]
        refine ⟨hi.nodup, List.nodup_singleton _, ?_⟩
        intro a ha b hb
        rw [List.map_cons, List.map_nil, List.mem_singleton] at hb
        rw [hb]
        intro hab; exact h2' (hab ▸ ha)
      · show (r.shares ++ [s]).length ≤ dkg.t
        rw [List.length_append]; simp only [List.length_cons, List.length_nil]; omega
      · intro g hg
        have := (hi.seed g hg).1
        omega

theorem verifyCached_inv {dkg : Party F} {h : F} {pidOf : Nat → F} {r : Round F} (hi : Inv dkg h pidOf r) :
    Inv dkg h pidOf (verifyCached dkg h r) ∧ (verifyCached dkg h r).tc = r.tc := by
  unfold verifyCached
  have key : ∀ (l : List (VRFShare F)) (acc : Round F), (∀ s ∈ l, s.pid = pidOf s.party) →
      Inv dkg h pidOf acc → acc.tc = r.tc →
      Inv dkg h pidOf (l.foldl (fun acc s =>
        if s.tc = r.tc ∧ verifyVRFShare dkg h s then acc.addShare s dkg.t else acc) acc) ∧
      (l.foldl (fun acc s =>
        if s.tc = r.tc ∧ verifyVRFShare dkg h s then acc.addShare s dkg.t else acc) acc).tc = r.tc := by
    intro l
    induction l with
    | nil => intro acc _ ha ht; exact ⟨ha, ht⟩
    | cons s l ih =>
      intro acc hl ha ht
      simp only [List.foldl_cons]
      by_cases hc : s.tc = r.tc ∧ verifyVRFShare dkg h s = true
      · rw [if_pos hc]
        have := addShare_inv ha s hc.2 (by rw [hc.1, ht]) (hl s List.mem_cons_self)
        exact ih _ (fun x hx => hl x (List.mem_cons_of_mem _ hx)) this.1 (by rw [this.2.1, ht])
      · rw [if_neg hc]
        exact ih _ (fun x hx => hl x (List.mem_cons_of_mem _ hx)) ha ht
  obtain ⟨k1, k2⟩ := key r.cache r hi.cpids hi rfl
  refine ⟨⟨k1.verified, ?_, k1.pids, ?_, k1.nodup, k1.cap, k1.seed⟩, k2⟩
  · intro s hs; rw [k1.tcs s hs]
  · intro s hs
    exact hi.cpids s (List.mem_filter.mp hs).1

theorem thresholdReceived_inv {dkg : Party F} {h : F} {pidOf : Nat → F} {r : Round F} (hi : Inv dkg h pidOf r) :
    Inv dkg h pidOf (thresholdReceived dkg r).1 := by
  unfold thresholdReceived
  by_cases h1 : r.groupSig.isSome = true
  · rw [if_pos h1]; exact hi
  · rw [if_neg h1]
    by_cases h2 : r.shares.length < dkg.t
    · rw [if_pos h2]; exact hi
    · rw [if_neg h2]
      refine ⟨hi.verified, hi.tcs, hi.pids, hi.cpids, hi.nodup, hi.cap, ?_⟩
      intro g hg
      simp only [Option.some.injEq] at hg
      exact ⟨by show dkg.t ≤ r.shares.length; omega, hg.symm⟩

omit [Field F] [DecidableEq F] in
theorem park_cache {pidOf : Nat → F} (r : Round F) (s : VRFShare F) (hp : s.pid = pidOf s.party)
    (hc : ∀ x ∈ r.cache, x.pid = pidOf x.party) : ∀ x ∈ (r.park s).cache, x.pid = pidOf x.party := by
  unfold Round.park
  split
  · exact hc
  · intro x hx
    rcases List.mem_append.mp hx with hx | hx
    · exact hc x hx
    · rw [List.mem_singleton.mp hx]; exact hp

theorem park_inv {dkg : Party F} {h : F} {pidOf : Nat → F} {r : Round F} (hi : Inv dkg h pidOf r)
    (s : VRFShare F) (hp : s.pid = pidOf s.party) : Inv dkg h pidOf (r.park s) := by
  have hc := park_cache (pidOf := pidOf) r s hp hi.cpids
  unfold Round.park at hc ⊢
  split
  · exact hi
  · rename_i hn
    simp only [hn] at hc
    exact ⟨hi.verified, hi.tcs, hi.pids, hc, hi.nodup, hi.cap, hi.seed⟩

/-- one delivery preserves the invariant, whatever is delivered. -/
theorem deliver_inv {dkg : Party F} {h : F} {pidOf : Nat → F} {r : Round F} (hi : Inv dkg h pidOf r)
    (d : Delivery F) (hp : d.share.pid = pidOf d.share.party) :
    Inv dkg h pidOf (deliver dkg h r d) := by
  unfold deliver addVRFShare
  dsimp only
  by_cases h1 : d.share.tc ≠ r.tc
  · rw [if_pos h1]
    by_cases h1' : d.share.tc > r.tc
    · rw [if_pos h1']; exact park_inv hi _ hp
    · rw [if_neg h1']; exact hi
  · rw [if_neg h1]
    by_cases h2 : r.hasShare d.share.party = true
    · rw [if_pos h2]; exact hi
    · rw [if_neg h2]
      by_cases h3 : r.shares.length ≥ dkg.t
      · rw [if_pos h3]; exact hi
      · rw [if_neg h3]
        cases hm : d.msgAvailable with
        | false => exact park_inv hi _ hp
        | true =>
          obtain ⟨k1, k2⟩ := verifyCached_inv hi
          rw [if_pos rfl]
          dsimp only
          by_cases hv : (!verifyVRFShare dkg h d.share) = true
          · rw [if_pos hv]; exact k1
          · rw [if_neg hv]
            have hv' : verifyVRFShare dkg h d.share = true := by simpa using hv
            have htc : d.share.tc = (verifyCached dkg h r).tc := by rw [k2]; exact not_not.mp h1
            exact thresholdReceived_inv (addShare_inv k1 d.share hv' htc hp).1

/-- **unverified_never_counted / below_threshold_no_seed** (as an invariant of every reachable round): after ANY
sequence of deliveries every stored share verifies under the sender's group-derived public key for the round's message
and carries the round's timeout count, there is at most one per party and at most `T` in all, and a seed exists only
if at least `T` shares are stored — it is then the Lagrange recovery over exactly these verified shares. -/
theorem reachable_inv (dkg : Party F) (h : F) (pidOf : Nat → F) (tc : Nat) (ds : List (Delivery F))
    (hp : ∀ d ∈ ds, d.share.pid = pidOf d.share.party) :
    Inv dkg h pidOf (runDeliveries dkg h tc ds) := by
  unfold runDeliveries
  have : ∀ (l : List (Delivery F)) (r : Round F), (∀ d ∈ l, d.share.pid = pidOf d.share.party) →
      Inv dkg h pidOf r → Inv dkg h pidOf (l.foldl (deliver dkg h) r) := by
    intro l
    induction l with
    | nil => intro r _ hr; exact hr
    | cons d l ih =>
      intro r hl hr
      exact ih _ (fun x hx => hl x (List.mem_cons_of_mem _ hx)) (deliver_inv hr d (hl d List.mem_cons_self))
  exact this ds _ hp
    ⟨by simp [Round.empty], by simp [Round.empty], by simp [Round.empty], by simp [Round.empty],
     by simp [Round.empty], by simp [Round.empty], by simp [Round.empty]⟩

theorem unverified_never_counted (dkg : Party F) (h : F) (pidOf : Nat → F) (tc : Nat) (ds : List (Delivery F))
    (hp : ∀ d ∈ ds, d.share.pid = pidOf d.share.party) :
    ∀ s ∈ (runDeliveries dkg h tc ds).shares, verifyVRFShare dkg h s = true :=
  (reachable_inv dkg h pidOf tc ds hp).verified

theorem below_threshold_no_seed (dkg : Party F) (h : F) (pidOf : Nat → F) (tc : Nat) (ds : List (Delivery F))
    (hp : ∀ d ∈ ds, d.share.pid = pidOf d.share.party)
    (hlt : (runDeliveries dkg h tc ds).shares.length < dkg.t) :
    (runDeliveries dkg h tc ds).groupSig = none := by
  cases hg : (runDeliveries dkg h tc ds).groupSig with
  | none => rfl
  | some g =>
    have := ((reachable_inv dkg h pidOf tc ds hp).seed g hg).1
    omega

/-! ## agreement -/

/-- the node's DKG object derived its group public keys from the published polynomials `mpks`
(`AggregatePublicKeyShares`), all of `t` coefficients, for pairwise distinct party ids. -/
structure DkgFrom (dkg : Party F) (t : Nat) (mpks : List (F × List F)) : Prop where
  t_eq : dkg.t = t
  gmpk : dkg.gmpk = mpks.map (fun e => (e.1, (mpks.map (fun e' => polyEval e'.2 e.1)).sum))
  len : ∀ e ∈ mpks, e.2.length = t
  nodup : (mpks.map Prod.fst).Nodup

/-- a share that passes `verifyVRFShare` lies on the group polynomial: `σ = (Σⱼ Fⱼ)(pid) · h`. -/
theorem verified_on_poly {dkg : Party F} {t : Nat} {mpks : List (F × List F)} (hd : DkgFrom dkg t mpks)
    (h : F) (s : VRFShare F) (hv : verifyVRFShare dkg h s = true) :
    s.share = polyEval (sumPolys t (mpks.map Prod.snd)) s.pid * h := by
  simp only [verifyVRFShare, verifySignature, verifyLib, Bool.and_eq_true, decide_eq_true_eq] at hv
  obtain ⟨⟨hpk, _⟩, hσ⟩ := hv
  -- the lookup succeeded (otherwise the key is the zero key, which the library refuses)
  have hlook : ∃ v, get? dkg.gmpk s.pid = some v := by
    cases hg : get? dkg.gmpk s.pid with
    | none => simp [publicKeyById, hg] at hpk
    | some v => exact ⟨v, rfl⟩
  obtain ⟨v, hv⟩ := hlook
  have hpkv : publicKeyById dkg s.pid = v := by simp [publicKeyById, hv]
  -- v is the entry of s.pid
  have hmem : (s.pid, v) ∈ dkg.gmpk := by
    unfold get? at hv
    rw [Option.map_eq_some_iff] at hv
    obtain ⟨e, he, hev⟩ := hv
    have h1 := List.mem_of_find?_eq_some he
    have h2 := List.find?_some he
    have : e.1 = s.pid := by simpa using h2
    rw [← this, ← hev]; exact h1
  rw [hd.gmpk] at hmem
  obtain ⟨e, he, hee⟩ := List.mem_map.mp hmem
  simp only [Prod.mk.injEq] at hee
  rw [hσ, hpkv, ← hee.2, hee.1]
  rw [polyEval_sumPolys t _ (by
    intro m hm
    obtain ⟨q, hq, rfl⟩ := List.mem_map.mp hm
    exact hd.len q hq)]
  simp [List.map_map, Function.comp_def]

/-- the group public polynomial's constant term (the group public key), as exponent. -/
def groupKey (mpks : List (F × List F)) : F := (mpks.map (fun e => e.2.headD 0)).sum

/-- the seed source of a completed round is the group signature `groupKey · h`, whatever the deliveries were. -/
theorem completed_groupSig (dkg : Party F) (t : Nat) (ht : 1 ≤ t) (mpks : List (F × List F)) (hd : DkgFrom dkg t mpks)
    (h : F) (pidOf : Nat → F) (hinj : Function.Injective pidOf) (h0 : ∀ k, pidOf k ≠ 0)
    (tc : Nat) (ds : List (Delivery F)) (hp : ∀ d ∈ ds, d.share.pid = pidOf d.share.party)
    (g : F) (hg : (runDeliveries dkg h tc ds).groupSig = some g) :
    g = groupKey mpks * h := by
  have inv := reachable_inv dkg h pidOf tc ds hp
  obtain ⟨hlen, hgeq⟩ := inv.seed g hg
  set r := runDeliveries dkg h tc ds with hr
  have hne : r.shares ≠ [] := by
    intro hc; rw [hc, hd.t_eq] at hlen; simp at hlen; omega
  have hemp : (r.shares.map (·.share)).isEmpty = false ∧ (r.shares.map (·.pid)).isEmpty = false := by
    cases hs : r.shares with
    | nil => exact absurd hs hne
    | cons a l => simp
  have hzip : (r.shares.map (·.pid)).zip (r.shares.map (·.share)) = r.shares.map (fun s => (s.pid, s.share)) := by
    rw [List.zip_map']
  have hpidnd : ((r.shares.map (fun s => (s.pid, s.share))).map Prod.fst).Nodup := by
    simp only [List.map_map, Function.comp_def]
    have : r.shares.map (fun s => s.pid) = (r.shares.map (·.party)).map pidOf := by
      rw [List.map_map]
      apply List.map_congr_left
      intro s hs; exact inv.pids s hs
    rw [this]
    exact List.Nodup.map hinj inv.nodup
  have hpoly := recoverLib_of_poly (sumPolys t (mpks.map Prod.snd)) h (r.shares.map (fun s => (s.pid, s.share)))
    hpidnd
    (by
      intro p hp'
      obtain ⟨s, hs, rfl⟩ := List.mem_map.mp hp'
      simp only
      rw [inv.pids s hs]; exact h0 _)
    (by
      intro p hp'
      obtain ⟨s, hs, rfl⟩ := List.mem_map.mp hp'
      exact verified_on_poly hd h s (inv.verified s hs))
    (by
      rw [sumPolys_length t _ (by
        intro m hm
        obtain ⟨q, hq, rfl⟩ := List.mem_map.mp hm
        exact hd.len q hq)]
      rw [hd.t_eq] at hlen
      simpa using hlen)
    (by simpa using hne)
  rw [hgeq]
  simp only [calBlsGpSign, hemp.1, hemp.2, List.length_map, bne_self_eq_false, Bool.or_self,
    Bool.false_eq_true, ↓reduceIte, hzip, hpoly, Option.getD_some]
  rw [polyEval_zero, headD_sumPolys t _ (by
        intro m hm
        obtain ⟨q, hq, rfl⟩ := List.mem_map.mp hm
        exact hd.len q hq)]
  simp [groupKey, List.map_map, Function.comp_def]

/-- **seed_agreement**: two nodes (each with its own DKG object built from the same published polynomials) that
both complete the VRF of a round — from ANY two sequences of deliveries, hence any two sets of ≥ `t` verified shares in
any arrival order, with any invalid shares mixed in — derive the same group signature, hence the same seed.
Premises: party ids (`ComputeIDdkg`) pairwise distinct and non-zero. -/
theorem seed_agreement (dkgA dkgB : Party F) (t : Nat) (ht : 1 ≤ t) (mpks : List (F × List F))
    (hA : DkgFrom dkgA t mpks) (hB : DkgFrom dkgB t mpks)
    (h : F) (pidOf : Nat → F) (hinj : Function.Injective pidOf) (h0 : ∀ k, pidOf k ≠ 0)
    (tcA tcB : Nat) (dsA dsB : List (Delivery F))
    (hpA : ∀ d ∈ dsA, d.share.pid = pidOf d.share.party) (hpB : ∀ d ∈ dsB, d.share.pid = pidOf d.share.party)
    (gA gB : F) (hgA : (runDeliveries dkgA h tcA dsA).groupSig = some gA)
    (hgB : (runDeliveries dkgB h tcB dsB).groupSig = some gB) : gA = gB := by
  rw [completed_groupSig dkgA t ht mpks hA h pidOf hinj h0 tcA dsA hpA gA hgA,
    completed_groupSig dkgB t ht mpks hB h pidOf hinj h0 tcB dsB hpB gB hgB]

/-! ## non-vacuity (over `ZMod 7`, evaluated by the kernel) -/
section Examples
instance : Fact (Nat.Prime 7) := ⟨by decide⟩
abbrev Z7 := ZMod 7
/-- 1-of-2 over ZMod 7 (no division is needed to recover from a single share, so the kernel can evaluate it):
published constant polynomials 3 and 5 for party ids 1 and 2; every party's key is 3+5 = 1. -/
def exMpks : List (Z7 × List Z7) := [(1, [3]), (2, [5])]
def exDkg : Party Z7 :=
  { t := 1, n := 2, id := 1, msk := [3], recv := [], si := 0,
    gmpk := exMpks.map (fun e => (e.1, (exMpks.map (fun e' => polyEval e'.2 e.1)).sum)) }
def exPid (k : Nat) : Z7 := (k : Z7) + 1
def exDel (k : Nat) (tc : Nat) (σ : Z7) (avail : Bool) : Delivery Z7 :=
  { share := { party := k, pid := exPid k, tc := tc, share := σ }, msgAvailable := avail }

example : DkgFrom exDkg 1 exMpks := ⟨rfl, rfl, by decide, by decide⟩
-- message point h = 2: the valid share of every party is 1·2 = 2; an invalid one (4) is refused, a valid one completes
example : (runDeliveries exDkg 2 0 [exDel 0 0 4 true, exDel 1 1 2 true, exDel 1 0 2 true]).groupSig = some 2 := by decide
example : (runDeliveries exDkg 2 0 [exDel 0 0 4 true, exDel 1 1 2 true]).groupSig = none := by decide
-- a share parked before the message is available is verified and counted on the next delivery
example : (runDeliveries exDkg 2 0 [exDel 1 0 2 false, exDel 0 0 4 true]).shares.length = 1 := by decide
/-- two SWAPPED shares (each the other party's valid share) parked in the cache are both refused when the cache is
flushed — although their sum is the sum of the two valid shares: shares are verified one by one.
2-of-2 over `ZMod 7`: polynomials 3+x and 4+x for ids 1, 2; group keys 2 and 4; message point 1. -/
def exDkg2 : Party Z7 :=
  { t := 2, n := 2, id := 1, msk := [3, 1], recv := [], si := 0, gmpk := [(1, 2), (2, 4)] }
example : DkgFrom exDkg2 2 [(1, [3, 1]), (2, [4, 1])] := ⟨rfl, by decide, by decide, by decide⟩
example :
    let r := runDeliveries exDkg2 1 0 [exDel 0 0 4 false, exDel 1 0 2 false, exDel 0 0 2 true]
    r.shares.map (·.party) = [0] ∧ r.cache.length = 2 ∧ r.groupSig = none := by decide
end Examples

/-! ## where the threshold comes from, how cached shares are verified (table generated by `harness/cmd/xc33`)

The model's threshold is `dkg.t` — the T of the DKG whose sharing polynomial has `t` coefficients: `seed_agreement` needs
at least that many verified shares. In the code the count must therefore be the T of the DKG in force (`dkg.T`), not
the T of whatever magic block is known for the round (a newer magic block may be known without a DKG). And every share
that leaves the cache must pass `verifyVRFShare` on its own: a single aggregate check over the cached shares would let
two shares with cancelling errors through (`Props/C32` `agg_cancellation`). -/
section Sites
open ZChain.Generated.C33

def thresholdsOf (f : String) : Option (List String) := (thresholds.find? (·.1 == f)).map (·.2)
def callsOf (f : String) : Option (List String) := (calls.find? (·.1 == f)).map (·.2)

theorem threshold_sites_expected :
    thresholdsOf "AddVRFShare" = some ["blsThreshold = dkg.T"] ∧
    thresholdsOf "verifyCachedVRFShares" = some ["blsThreshold = dkg.T"] ∧
    thresholdsOf "GetBlsThreshold" = some ["return mc.GetDKG(round).T"] ∧
    thresholdsOf "ThresholdNumBLSSigReceived" = some [] ∧
    callsOf "AddVRFShare" = some ["GetDKG", "verifyCachedVRFShares", "verifyVRFShare", "AddVRFShare", "ThresholdNumBLSSigReceived"] ∧
    callsOf "verifyCachedVRFShares" = some ["verifyVRFShare", "AddVRFShare"] ∧
    callsOf "verifyVRFShare" = some ["VerifySignature"] ∧
    callsOf "ThresholdNumBLSSigReceived" = some ["GetDKG", "CalBlsGpSign"] := by
  decide
end Sites

end ZChain.VRF
