import ZChain.Proofs.Replicators
import ZChain.Proofs.NodePools
/-!
# C42 — Replicating sharders are chosen deterministically

"For a block hash and a sharder set, every node computes the same set of sharders responsible for storing the block,
independent of the order the sharders were added. When enough sharders exist the set has at least the configured number
of replicators, and every sharder stores every block when replication is disabled."

Statements about `Model/NodePool.lean` + `Model/Replicators.lean`, tied to `chaincore/node/node_pool.go`,
`node_pool_scorer.go`, `core/encryption/hash_score.go` and `chain.IsBlockSharder*/CanShardBlockWithReplicators` by the
correspondence run of `harness/cmd/c42`.

The scoring function itself (`scoreBytes`, XOR popcount) enters the theorems only as "some function of the node and the
hash": the replicator set is characterised for ANY score, by counting — `x` replicates iff fewer than `n` sharders score
strictly above `x` — which mentions neither the insertion order nor the `SetIndex` tie-break.
-/
namespace ZChain.Replicators
open ZChain.NodePool

/-- **replicators_order_independent**: the same sharders added in any order (with any repetitions) give the same pool,
hence the same scores, the same yes/no answer for every sharder and the same replicator list. -/
theorem replicators_order_independent (l1 l2 : List Node) (hwf : WellFormed l1) (h : ∀ x, x ∈ l1 ↔ x ∈ l2)
    (n : Int) (hash : Option (List Nat)) (key : Nat) :
    poolOf l1 = poolOf l2 ∧
    scoreHashString (poolOf l1) hash = scoreHashString (poolOf l2) hash ∧
    isBlockSharder n (poolOf l1) hash key = isBlockSharder n (poolOf l2) hash key ∧
    canShardBlockWithReplicators n (poolOf l1) hash key = canShardBlockWithReplicators n (poolOf l2) hash key := by
  have := poolOf_order_independent l1 l2 hwf h
  rw [this]; exact ⟨rfl, rfl, rfl, rfl⟩

/-- **all_when_disabled**: with `NumReplicators() ≤ 0` every sharder stores every block, and the replicator list is the
whole pool — whatever the hash (even one that does not decode). -/
theorem all_when_disabled (n : Int) (hn : n ≤ 0) (pool : List Node) (hash : Option (List Nat)) (key : Nat) :
    isBlockSharder n pool hash key = some true ∧
    canShardBlockWithReplicators n pool hash key = some (true, pool) := by
  simp [isBlockSharder, canShardBlockWithReplicators, hn]

theorem getD_pred (sc : List Score) (n : Nat) (hn : 0 < n) (hl : n ≤ sc.length) :
    sc.getD ((n : Int).toNat - 1) default = sc[n - 1]'(by omega) := by
  rw [Int.toNat_natCast, List.getElem_eq_getD (h := by omega)]

/-- `IsInTop` on a list that is descending by score: true exactly for the keys of entries that reach the score of
entry `n-1`. It does not panic for `0 < n ≤ len`. -/
theorem isInTop_spec (sc : List Score) (hd : Desc sc) (n : Nat) (hn : 0 < n) (hl : n ≤ sc.length) (key : Nat) :
    ∃ b, isInTop sc n key = some b ∧
      (b = true ↔ ∃ x ∈ sc, x.node.key = key ∧ (sc[n - 1]'(by omega)).score ≤ x.score) := by
  unfold isInTop
  have h1 : (n : Int) ≤ (sc.length : Int) := by omega
  have h2 : ¬ (n : Int) ≤ 0 := by omega
  simp only [h1, h2, if_true, if_false]
  rw [getD_pred sc n hn hl]
  exact ⟨_, rfl, topLoop_iff _ key sc hd⟩

/-- `IsInTopWithNodes`: the node list is exactly the entries reaching the score of entry `n-1` (all ties at the cut-off
included), in list order; the flag agrees with `IsInTop`. -/
theorem isInTopWithNodes_spec (sc : List Score) (hd : Desc sc) (n : Nat) (hn : 0 < n) (hl : n ≤ sc.length) (key : Nat) :
    ∃ b, isInTop sc n key = some b ∧
      isInTopWithNodes sc n key =
        some (b, (sc.filter (fun x => decide ((sc[n - 1]'(by omega)).score ≤ x.score))).map (·.node)) := by
  unfold isInTop isInTopWithNodes
  have h1 : (n : Int) ≤ (sc.length : Int) := by omega
  have h2 : ¬ (n : Int) ≤ 0 := by omega
  simp only [h1, h2, if_true, if_false]
  rw [getD_pred sc n hn hl]
  obtain ⟨e1, e2⟩ := topNodesLoop_spec (sc[n - 1]'(by omega)).score key sc hd
  refine ⟨_, rfl, ?_⟩
  rw [← e2, ← e1]

/-- **at_least_n**: when at least `n > 0` sharders exist, the replicator list has at least `n` nodes. -/
theorem at_least_n (sc : List Score) (hd : Desc sc) (n : Nat) (hn : 0 < n) (hl : n ≤ sc.length) (key : Nat) :
    ∃ b nodes, isInTopWithNodes sc n key = some (b, nodes) ∧ n ≤ nodes.length := by
  obtain ⟨b, _, h⟩ := isInTopWithNodes_spec sc hd n hn hl key
  refine ⟨b, _, h, ?_⟩
  rw [List.length_map]
  exact filter_length_ge sc hd n hn hl

/-- keys are pairwise different (a pool never holds a key twice). -/
def KeysDistinct (l : List Score) : Prop := l.Pairwise (fun a b => a.node.key ≠ b.node.key)

theorem key_unique {l : List Score} (h : KeysDistinct l) {x y : Score} (hx : x ∈ l) (hy : y ∈ l)
    (hk : x.node.key = y.node.key) : x = y := by
  induction l with
  | nil => cases hx
  | cons a t ih =>
    have h' := List.pairwise_cons.mp h
    rcases List.mem_cons.mp hx with hxa | hxt
    · rcases List.mem_cons.mp hy with hya | hyt
      · rw [hxa, hya]
      · subst hxa; exact absurd hk (h'.1 y hyt)
    · rcases List.mem_cons.mp hy with hya | hyt
      · subst hya; exact absurd hk.symm (h'.1 x hxt)
      · exact ih h'.2 hxt hyt

/-- **isInTop_iff_member**: a sharder is told "you store this block" exactly when it is in the replicator list. -/
theorem isInTop_iff_member (sc : List Score) (hd : Desc sc) (hk : KeysDistinct sc) (n : Nat) (hn : 0 < n)
    (hl : n ≤ sc.length) (x : Score) (hx : x ∈ sc) :
    ∃ b nodes, isInTop sc n x.node.key = some b ∧ isInTopWithNodes sc n x.node.key = some (b, nodes) ∧
      (b = true ↔ x.node ∈ nodes) := by
  obtain ⟨b, h1, h2⟩ := isInTopWithNodes_spec sc hd n hn hl x.node.key
  obtain ⟨b', h1', h3⟩ := isInTop_spec sc hd n hn hl x.node.key
  rw [h1] at h1'; cases h1'
  refine ⟨b, _, h1, h2, ?_⟩
  rw [h3]
  constructor
  · rintro ⟨y, hy, hyk, hys⟩
    have : y = x := key_unique hk hy hx hyk
    subst this
    exact List.mem_map.mpr ⟨y, List.mem_filter.mpr ⟨hy, by simpa using hys⟩, rfl⟩
  · intro hm
    obtain ⟨y, hy, hyx⟩ := List.mem_map.mp hm
    obtain ⟨hy1, hy2⟩ := List.mem_filter.mp hy
    exact ⟨y, hy1, by rw [hyx], by simpa using hy2⟩

/-- **the replicator set, order-free** (`set_by_count`): for the scored pool `l` (any order), sharder `x` is told to
store the block iff fewer than `n` sharders score strictly higher than `x`. Neither the order of `l` nor the `SetIndex`
tie-break of the sort appears. -/
theorem top_iff_count (l : List Score) (hk : KeysDistinct l) (n : Nat) (hn : 0 < n) (hl : n ≤ l.length)
    (x : Score) (hx : x ∈ l) :
    isInTop (sortStable scoreLess l) n x.node.key
      = some (decide ((l.filter (fun y => decide (x.score < y.score))).length < n)) := by
  have hperm := sortStable_perm scoreLess l
  have hd := sorted_desc l
  have hl' : n ≤ (sortStable scoreLess l).length := by rw [length_sortStable]; exact hl
  have hk' : KeysDistinct (sortStable scoreLess l) := hperm.symm.pairwise hk (fun h => fun e => h e.symm)
  obtain ⟨b, hb, hiff⟩ := isInTop_spec _ hd n hn hl' x.node.key
  rw [hb]
  congr 1
  have hcount := reaches_iff_count _ hd n hn hl' x.score
  have hlen : ((sortStable scoreLess l).filter (fun y => decide (x.score < y.score))).length
      = (l.filter (fun y => decide (x.score < y.score))).length := (hperm.filter _).length_eq
  rw [hlen] at hcount
  have hx' : x ∈ sortStable scoreLess l := hperm.mem_iff.mpr hx
  have : b = true ↔ (l.filter (fun y => decide (x.score < y.score))).length < n := by
    rw [hiff, ← hcount]
    constructor
    · rintro ⟨y, hy, hyk, hys⟩
      have : y = x := key_unique hk' hy hx' hyk
      subst this; exact hys
    · intro h; exact ⟨x, hx', rfl, h⟩
  cases b <;> simp_all

theorem scoreAll_keysDistinct (hash : List Nat) (pool : List Node) (hp : KeyAsc pool) (l : List Score)
    (h : scoreAll hash pool 0 = some l) : KeysDistinct l := by
  obtain ⟨hm, _⟩ := scoreAll_nodes hash pool 0 l h
  unfold KeysDistinct
  have : (l.map (·.node)).Pairwise (fun a b => a.key ≠ b.key) := by
    rw [hm]; exact List.Pairwise.imp (fun h => Nat.ne_of_lt h) hp
  rw [List.pairwise_map] at this
  exact this

/-- **the chain-level statement** (`IsBlockSharder`/`IsBlockSharderFromHash`): for a pool (strictly ascending by key, as
every reachable pool is), a hash at least as long as the ids, and `0 < n ≤ #sharders`: the call does not panic, and a
sharder of the pool is told to store the block iff fewer than `n` sharders score strictly higher. The score of each
sharder is `scoreBytes idBytes hash`, a function of the sharder and the hash alone. -/
theorem isBlockSharder_spec (pool : List Node) (hp : KeyAsc pool) (hash : List Nat)
    (hlen : ∀ nd ∈ pool, nd.idBytes.length ≤ hash.length) (n : Nat) (hn : 0 < n) (hl : n ≤ pool.length) :
    ∃ l, scoreAll hash pool 0 = some l ∧ l.map (·.node) = pool ∧
      (∀ x ∈ l, scoreBytes x.node.idBytes hash = some x.score) ∧
      ∀ x ∈ l, isBlockSharder n pool (some hash) x.node.key
        = some (decide ((l.filter (fun y => decide (x.score < y.score))).length < n)) := by
  obtain ⟨l, hl1⟩ := scoreAll_some hash pool 0 hlen
  obtain ⟨hm, hs⟩ := scoreAll_nodes hash pool 0 l hl1
  refine ⟨l, hl1, hm, hs, ?_⟩
  intro x hx
  have hll : n ≤ l.length := by rw [← List.length_map (f := (·.node)), hm]; exact hl
  have := top_iff_count l (scoreAll_keysDistinct hash pool hp l hl1) n hn hll x hx
  unfold isBlockSharder scoreHashString scoreHash
  have h2 : ¬ (n : Int) ≤ 0 := by omega
  simp only [h2, if_false, hl1]
  exact this

/-- an outsider (a key that is not in the pool) is never told to store the block (`n > 0`). -/
theorem outsider_false (sc : List Score) (hd : Desc sc) (n : Nat) (hn : 0 < n) (hl : n ≤ sc.length) (key : Nat)
    (hout : ∀ x ∈ sc, x.node.key ≠ key) : isInTop sc n key = some false := by
  obtain ⟨b, hb, hiff⟩ := isInTop_spec sc hd n hn hl key
  rw [hb]
  cases b with
  | false => rfl
  | true =>
    obtain ⟨x, hx, hk, _⟩ := hiff.mp rfl
    exact absurd hk (hout x hx)

/-- information (outside the property's premise "when enough sharders exist"): with fewer sharders than the configured
count, NO sharder is told to store the block and the replicator list is empty. -/
theorem not_enough_sharders (sc : List Score) (n : Int) (hl : (sc.length : Int) < n) (key : Nat) :
    isInTop sc n key = some false ∧ isInTopWithNodes sc n key = some (false, []) := by
  unfold isInTop isInTopWithNodes
  have : ¬ n ≤ (sc.length : Int) := by omega
  simp [this]

/-! ## pools over SHARED node objects (the same `*Node` in several pools; `SetIndex` lives on the object) -/

open ZChain.NodePools in
/-- **the set does not depend on `SetIndex`, hence not on what other pools did to the shared objects**: for pool `p` of a
world of shared node objects whose node list is strictly ascending by key (every reachable pool: `addNodeW_nodes` +
`poolOf_spec`), a hash at least as long as the ids and `0 < n ≤ #sharders`, a member is told to store the block iff
fewer than `n` members score strictly higher — whatever `SetIndex` values the objects currently carry. -/
theorem isBlockSharderW_spec (w : World) (p : Nat) (hp : KeyAsc ((poolNodes w p).map (nodeOf w))) (hash : List Nat)
    (hlen : ∀ o ∈ poolNodes w p, (nodeOf w o).idBytes.length ≤ hash.length) (n : Nat) (hn : 0 < n)
    (hl : n ≤ (poolNodes w p).length) :
    ∃ sc, scoreObjs w hash (poolNodes w p) = some sc ∧ sc.map (·.node) = (poolNodes w p).map (nodeOf w) ∧
      (∀ x ∈ sc, scoreBytes x.node.idBytes hash = some x.score) ∧
      ∀ x ∈ sc, isBlockSharderW n w p (some hash) x.node.key
        = some (decide ((sc.filter (fun y => decide (x.score < y.score))).length < n)) := by
  obtain ⟨sc, hsc⟩ := scoreObjs_some w hash _ hlen
  obtain ⟨hm, hs⟩ := scoreObjs_spec w hash _ sc hsc
  refine ⟨sc, hsc, hm, hs, ?_⟩
  intro x hx
  have hkd : KeysDistinct sc := by
    unfold KeysDistinct
    have : (sc.map (·.node)).Pairwise (fun a b => a.key ≠ b.key) := by
      rw [hm]; exact List.Pairwise.imp (fun h => Nat.ne_of_lt h) hp
    rw [List.pairwise_map] at this
    exact this
  have hll : n ≤ sc.length := by
    have : sc.length = (poolNodes w p).length := by
      have := congrArg List.length hm; simpa using this
    omega
  have := top_iff_count sc hkd n hn hll x hx
  unfold isBlockSharderW scoreHashStringW scoreHashW
  have h2 : ¬ (n : Int) ≤ 0 := by omega
  simp only [h2, if_false, hsc]
  exact this

open ZChain.NodePools in
/-- **history independence**: building the members of a pool through ANY sequence of `AddNode` calls on shared objects
— interleaved with `AddNode` calls on other pools that renumber the same objects — gives the node list of the pure
pool of the same insertions (`NodePool.addNode`), to which `poolOf_order_independent` applies. One step: -/
theorem addNodeW_is_addNode (w : World) (p o : Nat) :
    (poolNodes (addNodeW w p o) p).map (nodeOf (addNodeW w p o)) = addNode ((poolNodes w p).map (nodeOf w)) (nodeOf w o) ∧
    ∀ q, q ≠ p → (poolNodes (addNodeW w p o) q).map (nodeOf (addNodeW w p o)) = (poolNodes w q).map (nodeOf w) :=
  addNodeW_nodes w p o

theorem isInTopWithNodes_flag (sc : List Score) (hd : Desc sc) (n : Int) (key : Nat) :
    (isInTopWithNodes sc n key).map Prod.fst = isInTop sc n key := by
  unfold isInTopWithNodes isInTop
  by_cases h1 : n ≤ (sc.length : Int)
  · by_cases h2 : n ≤ 0
    · simp [h1, h2]
    · simp only [h1, h2, if_true, if_false, Option.map_some]
      rw [(topNodesLoop_spec _ key sc hd).2]
  · simp [h1]

open ZChain.NodePools in
/-- **the three entry points name the same replicators** (`entry_points_agree`): `IsBlockSharder`,
`IsBlockSharderFromHash` and the flag of `CanShardBlockWithReplicators` coincide for every (round, hash, sharder), every
set of magic blocks and every replicator count — in the model by construction: all three read the sharders of ONE
lookup `mbOf round` (= `GetMagicBlock`, with the view-change offset). The correspondence run asks the real three about
the same inputs around every starting round and reports `C42:entry-points-disagree-on-replicators` otherwise. -/
theorem entry_points_agree (nrepl : Int) (w : World) (mbs : ZChain.MagicBlocks.Store) (round : Int)
    (hash : Option (List Nat)) (key p : Nat) (hmb : mbOf mbs round = some p) :
    chainIsBlockSharder nrepl w mbs round hash key = chainIsBlockSharderFromHash nrepl w mbs round hash key ∧
    (chainCanShard nrepl w mbs round hash key).map Prod.fst = chainIsBlockSharderFromHash nrepl w mbs round hash key ∧
    chainIsBlockSharderFromHash nrepl w mbs round hash key = isBlockSharderW nrepl w p hash key := by
  refine ⟨rfl, ?_, ?_⟩
  · unfold chainCanShard chainIsBlockSharderFromHash canShardW isBlockSharderW
    rw [hmb]
    by_cases hn : nrepl ≤ 0
    · simp [hn]
    · simp only [hn, if_false]
      cases hs : scoreHashStringW w p hash with
      | none => rfl
      | some sc =>
        simp only
        apply isInTopWithNodes_flag
        -- the scored list is the scorer's sorted output (or empty for a hash that does not decode)
        unfold scoreHashStringW scoreHashW at hs
        cases hash with
        | none => simp at hs; subst hs; exact List.Pairwise.nil
        | some h =>
          simp only at hs
          cases hso : scoreObjs w h (poolNodes w p) with
          | none => simp [hso] at hs
          | some l => simp only [hso, Option.some.injEq] at hs; subst hs; exact sorted_desc l
  · unfold chainIsBlockSharderFromHash isBlockSharderW
    rw [hmb]
    by_cases hn : nrepl ≤ 0 <;> simp [hn]

/-- the view-change window, concretely: first magic block (pool 0) from round 0, second (pool 1) starting at 100. Block
rounds 100..103 are still served by pool 0, round 104 is the first served by pool 1. -/
theorem view_change_window :
    let mbs := ZChain.MagicBlocks.put (ZChain.MagicBlocks.put ZChain.MagicBlocks.new 0 0) 1 100
    ZChain.NodePools.mbOf mbs 99 = some 0 ∧ ZChain.NodePools.mbOf mbs 100 = some 0 ∧
    ZChain.NodePools.mbOf mbs 103 = some 0 ∧ ZChain.NodePools.mbOf mbs 104 = some 1 := by
  decide

/-- shared objects, concretely: A,B,C,D as objects 1-4 into pool 0; C and D also into pool 1 (their `SetIndex` becomes
0 and 1); C re-added to pool 0 as a new object 5. Pool 0 still holds A,C,B,D once each, and the answers are those of the
freshly built pool (`nA nB nC nD` of the examples below). -/
theorem shared_objects_example :
    let w0 := ZChain.NodePools.newObj (ZChain.NodePools.newObj (ZChain.NodePools.newObj (ZChain.NodePools.newObj
      (ZChain.NodePools.newObj ZChain.NodePools.emptyWorld 1 ⟨0x0f, [0x0f]⟩) 2 ⟨0xf0, [0xf0]⟩) 3 ⟨0x3c, [0x3c]⟩) 4 ⟨0xff, [0xff]⟩)
      5 ⟨0x3c, [0x3c]⟩
    let w := [(0, 1), (0, 2), (0, 3), (0, 4), (1, 3), (1, 4), (0, 5)].foldl
      (fun w po => ZChain.NodePools.addNodeW w po.1 po.2) w0
    ZChain.NodePools.poolNodes w 0 = [1, 5, 2, 4] ∧
    (ZChain.NodePools.getObj w 4).setIndex = 3 ∧ (ZChain.NodePools.getObj w 3).setIndex = 0 ∧
    ZChain.NodePools.isBlockSharderW 2 w 0 (some [0]) 0x0f = some true ∧
    ZChain.NodePools.isBlockSharderW 1 w 0 (some [0]) 0x0f = some false ∧
    (ZChain.NodePools.canShardW 2 w 0 (some [0]) 0x0f).map (·.2.length) = some 4 := by
  decide

/-! ## non-vacuity: a concrete pool (1-byte ids), two insertion orders, a tie at the cut-off -/
def nA : Node := ⟨0x0f, [0x0f]⟩
def nB : Node := ⟨0xf0, [0xf0]⟩
def nC : Node := ⟨0x3c, [0x3c]⟩
def nD : Node := ⟨0xff, [0xff]⟩

example : poolOf [nA, nB, nC, nD] = [nA, nC, nB, nD] := by decide
example : poolOf [nD, nC, nB, nA, nC] = poolOf [nA, nB, nC, nD] := by decide
example : WellFormed [nA, nB, nC, nD] := by
  intro a ha b hb; revert a b; decide
-- hash 0x00: scores A=4 B=4 C=4 D=8; n=2 → D and the three tied nodes: 4 replicators
example : (scoreHash (poolOf [nA, nB, nC, nD]) [0]).map (·.map (fun s => (s.node.key, s.score)))
    = some [(0xff, 8), (0xf0, 4), (0x3c, 4), (0x0f, 4)] := by decide
example : canShardBlockWithReplicators 2 (poolOf [nA, nB, nC, nD]) (some [0]) 0x0f = some (true, [nD, nB, nC, nA]) := by
  decide
example : isBlockSharder 1 (poolOf [nA, nB, nC, nD]) (some [0]) 0x0f = some false := by decide
example : isBlockSharder 1 (poolOf [nA, nB, nC, nD]) (some []) 0x0f = none := by decide   -- short hash: Go panics

end ZChain.Replicators
