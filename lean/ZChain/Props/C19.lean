import ZChain.Proofs.Zcn
/-!
# C19 — Bridge burns lock the value and advance the burn nonce by one

Statements are about `Model/Zcn.lean` (`burn`, run through the engine model `Ledger.step` by `burnStep`), which
the correspondence check `harness/cmd/c19` ties to `smartcontract/zcnsc/burn.go` + the real `Chain.UpdateState`.

* `burn_effect`            a successful burn: burner −v (−fee), bridge wallet +v, `BurnNonce(addr)` + 1, every other
                           user node and all of the remaining contract state unchanged;
* `burn_effect_plain`      the same in "−v / +v" form for an ordinary burner;
* `burn_rejects`           `v < MinBurnAmount`, an empty address or an undecodable payload is a chargeable failure:
                           nothing but fee and nonce (or nothing at all when the engine rejects the transaction);
* `burn_nonce_sequence`    over ANY history (burns to any addresses by anyone in any order, interleaved with mints and
                           authorizer registrations/removals, successful or not) the nonces handed out for one address are
                           `n₀+1, n₀+2, …` without gaps or repeats, and the stored nonce is the last one handed out.
`BurnNonce` is a Go `int64`: `incI64` wraps at `2^63−1` (the statements that speak of `+ 1` carry the no-wrap guard).
-/
namespace ZChain.Zcn
open ZChain ZChain.Ledger

/-- what a successful contract-level burn is. -/
theorem burnRes_ok (s : ZSt) (c : Call) (inp : BurnIn) (o : BurnOut) (h : burnRes s c inp = .ok o) :
    ∃ a, inp = .addr a ∧ s.cfg.minBurn ≤ c.value ∧
      o.users = aSet s.users a (incI64 (unGet s.users a)) ∧
      o.transfer = { src := c.sender, dst := zcnSC, amount := c.value } ∧ o.nonce = incI64 (unGet s.users a) := by
  unfold burnRes burn at h
  by_cases hv : c.value < s.cfg.minBurn
  · simp [hv] at h
  · simp only [hv, if_false] at h
    cases inp with
    | malformed => simp at h
    | empty => simp at h
    | addr a =>
      simp only [Except.ok.injEq] at h
      subst h
      exact ⟨a, rfl, by omega, rfl, rfl, rfl⟩

/-- what makes the contract-level burn fail. -/
theorem burnRes_error_iff (s : ZSt) (c : Call) (inp : BurnIn) :
    (∃ e, burnRes s c inp = .error e) ↔ (c.value < s.cfg.minBurn ∨ inp = .empty ∨ inp = .malformed) := by
  unfold burnRes burn
  by_cases hv : c.value < s.cfg.minBurn
  · simp [hv]
  · cases inp <;> simp [hv]

/-- **burn_effect.** -/
theorem burn_effect (feeOn : Bool) (s : ZSt) (c : Call) (inp : BurnIn)
    (h : (burnStep feeOn s c inp).2 = .success) :
    ∃ a, inp = .addr a ∧ s.cfg.minBurn ≤ c.value ∧ Admissible s c ∧
      unGet (burnStep feeOn s c inp).1.users a = incI64 (unGet s.users a) ∧
      (∀ b, b ≠ a → unGet (burnStep feeOn s c inp).1.users b = unGet s.users b) ∧
      (∀ i, (get (burnStep feeOn s c inp).1.accts i).balance +
              ((if c.sender = i then c.value else 0) + (if i = c.sender then feeOf feeOn c.txn else 0)) =
            (get s.accts i).balance +
              ((if zcnSC = i then c.value else 0) + (if i = minerSC then feeOf feeOn c.txn else 0))) ∧
      (∀ i, (get (burnStep feeOn s c inp).1.accts i).nonce = (get s.accts i).nonce + (if i = c.sender then 1 else 0)) ∧
      (burnStep feeOn s c inp).1.auths = s.auths ∧ (burnStep feeOn s c inp).1.count = s.count ∧
      (burnStep feeOn s c inp).1.pools = s.pools ∧ (burnStep feeOn s c inp).1.minted = s.minted ∧
      (burnStep feeOn s c inp).1.cfg = s.cfg := by
  unfold burnStep at h ⊢
  obtain ⟨s', q, a', hr, hadm, hset, hst⟩ := settleCall_success feeOn s c _ h
  cases hb : burnRes s c inp with
  | error e => simp [hb] at hr
  | ok o =>
    simp only [hb, Option.some.injEq, Prod.mk.injEq] at hr
    obtain ⟨a, hinp, hmin, hu, ht, _⟩ := burnRes_ok s c inp o hb
    obtain ⟨hs', hq⟩ := hr
    subst hs' hq
    simp only [hb] at hst
    rw [hst]
    refine ⟨a, hinp, hmin, hadm, ?_, ?_, ?_, ?_, rfl, rfl, rfl, rfl, rfl⟩
    · simp only [hu]; exact unGet_aSet_eq _ _ _
    · intro b hb'; simp only [hu]; exact unGet_aSet_ne _ _ _ _ (Ne.symm hb')
    · intro i
      have := (settle_single_get feeOn s.accts a' c.txn o.transfer hset i).1
      rw [ht] at this
      exact this
    · intro i
      exact (settle_single_get feeOn s.accts a' c.txn o.transfer hset i).2

/-- **burn_effect** for an ordinary burner (neither the bridge wallet nor the miner contract): exactly the
transaction value leaves the burner (plus the fee) and exactly the value arrives in the bridge wallet. -/
theorem burn_effect_plain (feeOn : Bool) (s : ZSt) (c : Call) (inp : BurnIn)
    (h : (burnStep feeOn s c inp).2 = .success) (h1 : c.sender ≠ zcnSC) (h2 : c.sender ≠ minerSC) :
    (get (burnStep feeOn s c inp).1.accts c.sender).balance + c.value + feeOf feeOn c.txn = (get s.accts c.sender).balance ∧
    (get (burnStep feeOn s c inp).1.accts zcnSC).balance = (get s.accts zcnSC).balance + c.value ∧
    (get (burnStep feeOn s c inp).1.accts minerSC).balance = (get s.accts minerSC).balance + feeOf feeOn c.txn ∧
    (∀ i, i ≠ c.sender → i ≠ zcnSC → i ≠ minerSC →
      (get (burnStep feeOn s c inp).1.accts i).balance = (get s.accts i).balance) := by
  obtain ⟨a, _, _, _, _, _, hbal, _⟩ := burn_effect feeOn s c inp h
  have hz : zcnSC ≠ minerSC := by decide
  refine ⟨?_, ?_, ?_, ?_⟩
  · have := hbal c.sender
    simp only [if_true, Ne.symm h1, h2, if_false] at this
    omega
  · have := hbal zcnSC
    simp only [h1, Ne.symm h1, hz, if_true, if_false] at this
    omega
  · have := hbal minerSC
    simp only [h2, Ne.symm h2, hz, if_true, if_false] at this
    omega
  · intro i hi1 hi2 hi3
    have := hbal i
    simp only [Ne.symm hi1, hi1, Ne.symm hi2, hi3, if_false] at this
    omega

/-- **burn_rejects.** A burn below the minimum, without a target address, or with an undecodable payload
never succeeds; user nodes and all contract state are untouched; if the engine applies it at all (`failed`)
only the fee moves (burner → miner contract) and only the burner's nonce advances; if the engine rejects
it, nothing changes. -/
theorem burn_rejects (feeOn : Bool) (s : ZSt) (c : Call) (inp : BurnIn)
    (hbad : c.value < s.cfg.minBurn ∨ inp = .empty ∨ inp = .malformed) :
    (burnStep feeOn s c inp).2 ≠ .success ∧
    (burnStep feeOn s c inp).1.users = s.users ∧
    (burnStep feeOn s c inp).1.auths = s.auths ∧ (burnStep feeOn s c inp).1.count = s.count ∧
    (burnStep feeOn s c inp).1.pools = s.pools ∧ (burnStep feeOn s c inp).1.minted = s.minted ∧
    (burnStep feeOn s c inp).1.cfg = s.cfg ∧
    ((burnStep feeOn s c inp).2 = .rejected → (burnStep feeOn s c inp).1 = s) ∧
    ((burnStep feeOn s c inp).2 = .failed →
      (∀ i, (get (burnStep feeOn s c inp).1.accts i).balance + (if i = c.sender then feeOf feeOn c.txn else 0) =
            (get s.accts i).balance + (if i = minerSC then feeOf feeOn c.txn else 0)) ∧
      (∀ i, (get (burnStep feeOn s c inp).1.accts i).nonce = (get s.accts i).nonce + (if i = c.sender then 1 else 0))) := by
  obtain ⟨e, he⟩ := (burnRes_error_iff s c inp).mpr hbad
  have hstep : burnStep feeOn s c inp = settleCall feeOn s c none := by
    unfold burnStep; rw [he]
  rw [hstep]
  have hrej := settleCall_rejected feeOn s c none
  have hne := settleCall_none_ne_success feeOn s c
  have hcases : (settleCall feeOn s c none).2 = .rejected ∨ (settleCall feeOn s c none).2 = .failed := by
    cases hst : (settleCall feeOn s c none).2 with
    | rejected => exact Or.inl rfl
    | failed => exact Or.inr rfl
    | success => exact absurd hst hne
  have hfail : (settleCall feeOn s c none).2 = .failed →
      ∃ a', settle feeOn s.accts c.txn [] [] = some a' ∧ (settleCall feeOn s c none).1 = { s with accts := a' } := by
    intro hf
    obtain ⟨a', _, _, hs, hst⟩ := settleCall_failed feeOn s c none hf
    exact ⟨a', hs, hst⟩
  have hfield : ∀ {β : Type} (f : ZSt → β), (∀ (x : ZSt) (a : Accts), f { x with accts := a } = f x) →
      f (settleCall feeOn s c none).1 = f s := by
    intro β f hf
    rcases hcases with hr | hf'
    · rw [hrej hr]
    · obtain ⟨a', _, hst⟩ := hfail hf'
      rw [hst, hf]
  refine ⟨hne, hfield (·.users) (fun _ _ => rfl), hfield (·.auths) (fun _ _ => rfl), hfield (·.count) (fun _ _ => rfl),
    hfield (·.pools) (fun _ _ => rfl), hfield (·.minted) (fun _ _ => rfl), hfield (·.cfg) (fun _ _ => rfl), hrej, ?_⟩
  intro hf
  obtain ⟨a', hs, hst⟩ := hfail hf
  rw [hst]
  exact ⟨fun i => (settle_nil_get feeOn s.accts a' c.txn hs i).1, fun i => (settle_nil_get feeOn s.accts a' c.txn hs i).2⟩

/-! ## nonce sequences over histories -/

/-- the nonce a burn operation hands out for address `a` (`BurnPayloadResponse.Nonce`), if it is a burn to
`a` and the transaction succeeds. -/
def handedOut (strict feeOn : Bool) (a : Nat) (s : ZSt) (op : Op) : List Int :=
  match op with
  | .burn c (.addr b) =>
    if b = a ∧ (stepOp strict feeOn s op).2 = .success then
      (match burnRes s c (.addr b) with | .ok o => [o.nonce] | .error _ => [])
    else []
  | _ => []

/-- all nonces handed out for `a` along a history, in order. -/
def burnLog (strict feeOn : Bool) (a : Nat) : ZSt → List Op → List Int
  | _, [] => []
  | s, op :: rest => handedOut strict feeOn a s op ++ burnLog strict feeOn a (stepOp strict feeOn s op).1 rest

/-- `n+1, n+2, …` in `int64` arithmetic. -/
def seqFrom : Int → Nat → List Int
  | _, 0 => []
  | n, k + 1 => incI64 n :: seqFrom (incI64 n) k

def iterInc : Int → Nat → Int
  | n, 0 => n
  | n, k + 1 => iterInc (incI64 n) k

/-- operations other than burns never touch user nodes. -/
theorem settleCall_users (feeOn : Bool) (s : ZSt) (c : Call) (r : Option (ZSt × List Transfer))
    (hr : ∀ s' q, r = some (s', q) → s'.users = s.users) : (settleCall feeOn s c r).1.users = s.users := by
  cases hst : (settleCall feeOn s c r).2 with
  | rejected => rw [settleCall_rejected feeOn s c r hst]
  | failed =>
    obtain ⟨a', _, _, _, h⟩ := settleCall_failed feeOn s c r hst
    rw [h]
  | success =>
    obtain ⟨s', q, a', hr', _, _, h⟩ := settleCall_success feeOn s c r hst
    rw [h]; exact hr s' q hr'

theorem mint_users (strict : Bool) (s : ZSt) (sender : Id) (p : Option MintIn) (h : Alg.Fr) (pick : Nat → Nat)
    (o : MintOut) (hm : mint strict s sender p h pick = .ok o) : o.st.users = s.users := by
  unfold mint at hm
  repeat' split at hm
  all_goals first
    | (simp only [Except.ok.injEq] at hm; subst hm; rfl)
    | (exact absurd hm (by simp))

theorem addAuth_users (s : ZSt) (sender : Id) (a : Option AddIn) (s' : ZSt) (h : addAuth s sender a = .ok s') :
    s'.users = s.users := by
  unfold addAuth at h
  repeat' split at h
  all_goals first
    | (simp only [Except.ok.injEq] at h; subst h; rfl)
    | (exact absurd h (by simp))

theorem updCfg_users (s : ZSt) (sender : Id) (u : Option (List Upd)) (s' : ZSt) (h : updCfg s sender u = .ok s') :
    s'.users = s.users := by
  unfold updCfg at h
  repeat' split at h
  all_goals first
    | (simp only [Except.ok.injEq] at h; subst h; rfl)
    | (exact absurd h (by simp))

theorem delAuth_users (s : ZSt) (sender : Id) (k : Option Nat) (s' : ZSt) (h : delAuth s sender k = .ok s') :
    s'.users = s.users := by
  unfold delAuth at h
  repeat' split at h
  all_goals first
    | (simp only [Except.ok.injEq] at h; subst h; rfl)
    | (exact absurd h (by simp))

/-- one step: the stored nonce of `a` moves exactly when a nonce is handed out for `a`, and then to that nonce,
which is the old one + 1. -/
theorem step_nonce (strict feeOn : Bool) (a : Nat) (s : ZSt) (op : Op) :
    (handedOut strict feeOn a s op = [] ∧ unGet (stepOp strict feeOn s op).1.users a = unGet s.users a) ∨
    (handedOut strict feeOn a s op = [incI64 (unGet s.users a)] ∧
      unGet (stepOp strict feeOn s op).1.users a = incI64 (unGet s.users a)) := by
  cases op with
  | mint c p h pick =>
    left
    refine ⟨rfl, ?_⟩
    show unGet (mintStep strict feeOn s c p h pick).1.users a = _
    unfold mintStep
    rw [settleCall_users]
    intro s' q hr
    cases hm : mint strict s c.sender p h pick with
    | error e => simp [hm] at hr
    | ok o =>
      simp only [hm, Option.some.injEq, Prod.mk.injEq] at hr
      rw [← hr.1]; exact mint_users strict s c.sender p h pick o hm
  | addAuth c x =>
    left
    refine ⟨rfl, ?_⟩
    show unGet (addAuthStep feeOn s c x).1.users a = _
    unfold addAuthStep
    rw [settleCall_users]
    intro s' q hr
    cases hm : addAuth s c.sender x with
    | error e => simp [hm] at hr
    | ok o =>
      simp only [hm, Option.some.injEq, Prod.mk.injEq] at hr
      rw [← hr.1]; exact addAuth_users s c.sender x o hm
  | delAuth c x =>
    left
    refine ⟨rfl, ?_⟩
    show unGet (delAuthStep feeOn s c x).1.users a = _
    unfold delAuthStep
    rw [settleCall_users]
    intro s' q hr
    cases hm : delAuth s c.sender x with
    | error e => simp [hm] at hr
    | ok o =>
      simp only [hm, Option.some.injEq, Prod.mk.injEq] at hr
      rw [← hr.1]; exact delAuth_users s c.sender x o hm
  | updCfg c x =>
    left
    refine ⟨rfl, ?_⟩
    show unGet (updCfgStep feeOn s c x).1.users a = _
    unfold updCfgStep
    rw [settleCall_users]
    intro s' q hr
    cases hm : updCfg s c.sender x with
    | error e => simp [hm] at hr
    | ok o =>
      simp only [hm, Option.some.injEq, Prod.mk.injEq] at hr
      rw [← hr.1]; exact updCfg_users s c.sender x o hm
  | burn c inp =>
    show (handedOut strict feeOn a s (.burn c inp) = [] ∧ unGet (burnStep feeOn s c inp).1.users a = _) ∨
         (handedOut strict feeOn a s (.burn c inp) = _ ∧ unGet (burnStep feeOn s c inp).1.users a = _)
    by_cases hs : (burnStep feeOn s c inp).2 = .success
    · obtain ⟨b, hinp, _, _, hu, hothers, _⟩ := burn_effect feeOn s c inp hs
      subst hinp
      by_cases hba : b = a
      · subst hba
        right
        refine ⟨?_, hu⟩
        have hs' : (stepOp strict feeOn s (.burn c (.addr b))).2 = .success := hs
        simp only [handedOut, hs', and_self, if_true]
        cases hb : burnRes s c (.addr b) with
        | error e =>
          exfalso
          have : burnStep feeOn s c (.addr b) = settleCall feeOn s c none := by unfold burnStep; rw [hb]
          rw [this] at hs
          exact settleCall_none_ne_success feeOn s c hs
        | ok o =>
          obtain ⟨b', hb', _, _, _, hn⟩ := burnRes_ok s c _ o hb
          injection hb' with hb'
          subst hb'
          simp [hn]
      · left
        refine ⟨?_, hothers a (Ne.symm hba)⟩
        simp [handedOut, hba]
    · left
      constructor
      · cases inp with
        | addr b =>
          have hs' : ¬ (stepOp strict feeOn s (.burn c (.addr b))).2 = .success := hs
          simp [handedOut, hs']
        | empty => rfl
        | malformed => rfl
      · -- not successful: failed or rejected, user nodes untouched
        unfold burnStep at hs ⊢
        obtain ⟨a', h⟩ := settleCall_not_success feeOn s c _ hs
        rw [h]

/-- **burn_nonce_sequence.** For every address `a`, every initial state and every history of bridge
operations: the nonces handed out for `a` are the successive increments of the initial nonce — no gap, no
repeat — and the nonce stored at the end is the initial one incremented once per successful burn to `a`. -/
theorem burn_nonce_sequence (strict feeOn : Bool) (a : Nat) (ops : List Op) : ∀ (s : ZSt),
    burnLog strict feeOn a s ops = seqFrom (unGet s.users a) (burnLog strict feeOn a s ops).length ∧
    unGet (runOps strict feeOn s ops).users a = iterInc (unGet s.users a) (burnLog strict feeOn a s ops).length := by
  induction ops with
  | nil => intro s; exact ⟨rfl, rfl⟩
  | cons op rest ih =>
    intro s
    obtain ⟨ih1, ih2⟩ := ih (stepOp strict feeOn s op).1
    rcases step_nonce strict feeOn a s op with ⟨h1, h2⟩ | ⟨h1, h2⟩
    · simp only [burnLog, runOps, h1, List.nil_append]
      rw [h2] at ih1 ih2
      exact ⟨ih1, ih2⟩
    · simp only [burnLog, runOps, h1, List.singleton_append, List.length_cons, seqFrom, iterInc]
      rw [h2] at ih1 ih2
      exact ⟨by rw [← ih1], ih2⟩

/-- without `int64` wrap the sequence is literally `n₀+1, n₀+2, …, n₀+k`. -/
theorem seqFrom_nowrap (n : Int) (k : Nat) (h : n + k ≤ i64Max) :
    ∀ j, j < k → (seqFrom n k)[j]? = some (n + j + 1) := by
  induction k generalizing n with
  | zero => intro j hj; omega
  | succ k ih =>
    intro j hj
    have hn : incI64 n = n + 1 := by
      unfold incI64; split
      · rename_i h'; rw [h'] at h; push_cast at h; omega
      · rfl
    cases j with
    | zero => simp [seqFrom, hn]
    | succ j =>
      simp only [seqFrom, List.getElem?_cons_succ]
      rw [hn, ih (n + 1) (by push_cast at h ⊢; omega) j (by omega)]
      push_cast; congr 1; omega

/-- **burn_nonce_sequence**, literal form: if the counter cannot wrap, the `j`-th successful burn to `a`
is handed the nonce `n₀ + j + 1`. -/
theorem burn_nonce_sequence_nowrap (strict feeOn : Bool) (a : Nat) (ops : List Op) (s : ZSt)
    (h : unGet s.users a + (burnLog strict feeOn a s ops).length ≤ i64Max) (j : Nat)
    (hj : j < (burnLog strict feeOn a s ops).length) :
    (burnLog strict feeOn a s ops)[j]? = some (unGet s.users a + j + 1) := by
  rw [(burn_nonce_sequence strict feeOn a ops s).1]
  exact seqFrom_nowrap _ _ h j hj

/-! ## non-vacuity -/

def exCfg : Cfg := { minBurn := 100, minMint := 1, maxFee := 10, percent := F64.one, owner := 2, minStakePerDelegate := 1, maxDelegates := 5 }
def exS0 : ZSt := { accts := [(2, ⟨1000, 0⟩)], cfg := { minBurn := 100, minMint := 1, maxFee := 10, percent := F64.one, owner := 2, minStakePerDelegate := 1, maxDelegates := 5 }, users := [], auths := [], count := 0, pools := [], minted := [] }
def exS : ZSt := { accts := [(2, ⟨1000, 0⟩), (3, ⟨500, 2⟩)], cfg := exCfg, users := [(1, 7)], auths := [], count := 0, pools := [], minted := [] }

-- a rejected configuration update leaves the minimum alone: the burn below it still fails afterwards
example : (burnStep true (updCfgStep true exS0 ⟨2, 0, 1, 1⟩ (some [.minBurn 5, .maxFee 0])).1 ⟨2, 50, 5, 2⟩ (.addr 1)).2 = .failed := by decide +kernel
example : (burnStep true (updCfgStep true exS0 ⟨2, 0, 1, 1⟩ (some [.minBurn 5])).1 ⟨2, 50, 5, 2⟩ (.addr 1)).2 = .success := by decide +kernel
-- a successful burn exists (hypothesis of `burn_effect`), and it moves what the theorem says
example : (burnStep true exS ⟨2, 100, 5, 1⟩ (.addr 1)).2 = .success := by decide
example : (burnStep true exS ⟨2, 100, 5, 1⟩ (.addr 1)).1.users = [(1, 8)] := by decide
example : (burnStep true exS ⟨2, 100, 5, 1⟩ (.addr 1)).1.accts = [(2, ⟨895, 1⟩), (3, ⟨500, 2⟩), (1, ⟨100, 0⟩), (0, ⟨5, 0⟩)] := by decide
-- failing burns that the engine still applies (hypothesis of the `failed` clause of `burn_rejects`)
example : (burnStep true exS ⟨2, 99, 5, 1⟩ (.addr 1)).2 = .failed := by decide
example : (burnStep true exS ⟨2, 100, 5, 1⟩ .empty).2 = .failed := by decide
-- … and one the engine rejects (fee unpayable)
example : (burnStep true exS ⟨2, 99, 5000, 1⟩ (.addr 1)).2 = .rejected := by decide
-- a history with two addresses, two burners, a failing burn and a rejected one in between
def exOps : List Op :=
  [.burn ⟨2, 100, 5, 1⟩ (.addr 1), .burn ⟨3, 150, 5, 3⟩ (.addr 0), .burn ⟨2, 99, 5, 2⟩ (.addr 1),
   .burn ⟨3, 100, 5, 4⟩ (.addr 1), .burn ⟨2, 100, 5, 7⟩ (.addr 1), .burn ⟨2, 100, 5, 3⟩ (.addr 1)]
example : burnLog false true 1 exS exOps = [8, 9, 10] := by decide
example : burnLog false true 0 exS exOps = [1] := by decide
-- the wrap at the int64 boundary (why the literal form carries a guard)
example : incI64 i64Max = i64Min := by decide

end ZChain.Zcn
