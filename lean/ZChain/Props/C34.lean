import ZChain.Proofs.DKG
/-!
# C34 — Threshold key generation and signing are correct

Theorems about `Model/DKG.lean` over an arbitrary field `F` (the library's scalar field is the instance the
drivers use); `1 ≤ t ≤ n` and the number of parties are unbounded. Helper lemmas: `Proofs/Alg`, `Proofs/DKG`.
The library refuses the zero key / zero signature in `Verify`, hence the `≠ 0` premises of the
"verifies" statements (they hold except with probability ~ 2⁻²⁵⁴ for CSPRNG keys).
-/
namespace ZChain.DKG
open ZChain.Alg
variable {F : Type} [Field F] [DecidableEq F]

/-! ## shares validate against the sender's public polynomial -/

/-- **share_validates** (and nothing else does): with the sender's public polynomial `mpk p`, party `id`
accepts a share exactly when it is the share the sender derives for it (`ComputeDKGKeyShare`). -/
theorem share_validates_iff (p : Party F) (id s : F) (hne : p.msk ≠ []) :
    validateShare (mpk p) s id = true ↔ computeShare p id = some s := by
  have h1 : p.msk.isEmpty = false := by cases hm : p.msk with
    | nil => exact absurd hm hne
    | cons a l => rfl
  simp only [validateShare, computeShare, mpk, map_pubKey, h1, pubKey]
  simp

theorem share_validates (p : Party F) (id : F) (hne : p.msk ≠ []) :
    ∃ s, computeShare p id = some s ∧ validateShare (mpk p) s id = true := by
  refine ⟨polyEval p.msk id, ?_, ?_⟩
  · cases hm : p.msk with
    | nil => exact absurd hm hne
    | cons a l => simp [computeShare, hm]
  · rw [share_validates_iff p id _ hne]
    cases hm : p.msk with
    | nil => exact absurd hm hne
    | cons a l => simp [computeShare, hm]

/-! ## honest run: every party receives the shares of all qualified senders -/

/-- deliver the shares of all `senders` to `p` (no `force`), as the protocol does. -/
def receiveAll (p : Party F) : List (Party F) → Option (Party F)
  | [] => some p
  | q :: qs => match computeShare q p.id with
    | none => none
    | some s => match addSecretShare p q.id s false with
      | none => none
      | some p' => receiveAll p' qs

/-- what an honest run leaves in party `p`: one share per sender, in order. -/
theorem receiveAll_spec (senders : List (Party F)) (p : Party F)
    (hne : ∀ q ∈ senders, q.msk ≠ [])
    (hfresh : ∀ q ∈ senders, q.id ∉ p.recv.map Prod.fst)
    (hnd : (senders.map (·.id)).Nodup) :
    ∃ p', receiveAll p senders = some p' ∧ p'.id = p.id ∧ p'.gmpk = p.gmpk ∧
      p'.recv = p.recv ++ senders.map (fun q => (q.id, polyEval q.msk p.id)) := by
  induction senders generalizing p with
  | nil => exact ⟨p, rfl, rfl, rfl, by simp⟩
  | cons q qs ih =>
    have hq := hne q List.mem_cons_self
    have hcs : computeShare q p.id = some (polyEval q.msk p.id) := by
      cases hm : q.msk with
      | nil => exact absurd hm hq
      | cons a l => simp [computeShare, hm]
    obtain ⟨hg, hp⟩ := get?_append_of_not_mem p.recv q.id (polyEval q.msk p.id) (hfresh q List.mem_cons_self)
    rw [List.map_cons, List.nodup_cons] at hnd
    let p1 : Party F := { p with recv := p.recv ++ [(q.id, polyEval q.msk p.id)] }
    have hadd : addSecretShare p q.id (polyEval q.msk p.id) false = some p1 := by
      simp only [addSecretShare, hg, hp, p1]
    obtain ⟨p', h1, h2, h3, h4⟩ := ih p1 (fun x hx => hne x (List.mem_cons_of_mem _ hx))
      (by
        intro x hx
        simp only [p1, List.map_append, List.map_cons, List.map_nil, List.mem_append, List.mem_singleton, not_or]
        refine ⟨hfresh x (List.mem_cons_of_mem _ hx), ?_⟩
        intro hxq
        exact hnd.1 (List.mem_map.mpr ⟨x, hx, hxq⟩))
      hnd.2
    refine ⟨p', ?_, h2, h3, ?_⟩
    · simp only [receiveAll, hcs, hadd]; exact h1
    · rw [h4]; simp [p1]

/-- the aggregated secret of an honestly served party: `Sᵢ = Σⱼ fⱼ(idᵢ)`. -/
theorem aggregated_secret (senders : List (Party F)) (p : Party F) (hrecv : p.recv = [])
    (hne : ∀ q ∈ senders, q.msk ≠ []) (hnd : (senders.map (·.id)).Nodup) :
    ∃ p', receiveAll p senders = some p' ∧ p'.id = p.id ∧
      (aggregateSecretKeyShares p').si = (senders.map (fun q => polyEval q.msk p.id)).sum := by
  obtain ⟨p', h1, h2, _, h4⟩ := receiveAll_spec senders p hne (by simp [hrecv]) hnd
  refine ⟨p', h1, h2, ?_⟩
  simp [aggregateSecretKeyShares, h4, hrecv, List.map_map, Function.comp_def]

/-- **aggregated_key_matches**: after an honest run over the qualified set `senders`, the public key any
party `v` derives for party `p` from the published polynomials (`AggregatePublicKeyShares`,
`GetPublicKeyByID`) is the public key of `p`'s aggregated secret (`Pi = Si·g`). -/
theorem aggregated_key_matches (senders : List (Party F)) (p v : Party F) (hrecv : p.recv = [])
    (hne : ∀ q ∈ senders, q.msk ≠ []) (hnd : (senders.map (·.id)).Nodup)
    (hp : p.id ∈ senders.map (·.id)) :
    ∃ p' v', receiveAll p senders = some p' ∧
      aggregatePublicKeyShares v (senders.map (fun q => (q.id, mpk q))) = some v' ∧
      publicKeyById v' p.id = pi (aggregateSecretKeyShares p') ∧
      (aggregateSecretKeyShares p').si = (senders.map (fun q => polyEval q.msk p.id)).sum := by
  obtain ⟨p', h1, _, h3⟩ := aggregated_secret senders p hrecv hne hnd
  have hany : (senders.map (fun q => (q.id, mpk q))).any (fun e => e.2.isEmpty) = false := by
    rw [Bool.eq_false_iff]
    intro hc
    rw [List.any_eq_true] at hc
    obtain ⟨e, he, hee⟩ := hc
    obtain ⟨q, hq, rfl⟩ := List.mem_map.mp he
    have := hne q hq
    simp only [mpk, map_pubKey] at hee
    cases hm : q.msk with
    | nil => exact this hm
    | cons a l => simp [hm] at hee
  refine ⟨p', _, h1, by simp only [aggregatePublicKeyShares, hany]; rfl, ?_, h3⟩
  -- lookup of p.id in the list built from the senders
  obtain ⟨q0, hq0, hq0id⟩ := List.mem_map.mp hp
  simp only [publicKeyById, pi, pubKey, h3]
  have hmem : (p.id, (senders.map (fun q => polyEval q.msk p.id)).sum) ∈
      (senders.map (fun q => (q.id, mpk q))).map
        (fun e => (e.1, ((senders.map (fun q => (q.id, mpk q))).map (fun e' => polyEval e'.2 e.1)).sum)) := by
    rw [List.mem_map]
    refine ⟨(q0.id, mpk q0), List.mem_map.mpr ⟨q0, hq0, rfl⟩, ?_⟩
    simp only [hq0id, List.map_map, Function.comp_def, mpk, map_pubKey]
  have hnd' : (((senders.map (fun q => (q.id, mpk q))).map
      (fun e => (e.1, ((senders.map (fun q => (q.id, mpk q))).map (fun e' => polyEval e'.2 e.1)).sum))).map
      Prod.fst).Nodup := by
    simpa [List.map_map, Function.comp_def] using hnd
  rw [get?_of_mem_nodup _ hnd' _ _ hmem]
  rfl

/-- **party_sig_verifies**: the signature share of an honestly served party verifies under its
group-derived public key (`VerifySignature`), for every message point `h ≠ 0`, provided `Sᵢ ≠ 0`. -/
theorem party_sig_verifies (senders : List (Party F)) (p v : Party F) (h : F) (hrecv : p.recv = [])
    (hne : ∀ q ∈ senders, q.msk ≠ []) (hnd : (senders.map (·.id)).Nodup)
    (hp : p.id ∈ senders.map (·.id)) (hh : h ≠ 0)
    (hsi : (senders.map (fun q => polyEval q.msk p.id)).sum ≠ 0) :
    ∃ p' v', receiveAll p senders = some p' ∧
      aggregatePublicKeyShares v (senders.map (fun q => (q.id, mpk q))) = some v' ∧
      verifySignature v' (signShare (aggregateSecretKeyShares p') h) h p.id = true := by
  obtain ⟨p', v', h1, h2, h3, h4⟩ := aggregated_key_matches senders p v hrecv hne hnd hp
  refine ⟨p', v', h1, h2, ?_⟩
  simp only [verifySignature, h3, pi, pubKey, signShare, sign, verifyLib, h4]
  simp [hsi, hh]

/-! ## any t signature shares recover the same group signature -/

/-- the group secret: the sum of the qualified parties' constant coefficients. -/
def groupSecret (senders : List (Party F)) : F := (senders.map (fun q => q.msk.headD 0)).sum

/-- the group public key: the sum of the constant public coefficients (`mpk[0]`). -/
def groupPublicKey (senders : List (Party F)) : F := (senders.map (fun q => (mpk q).headD 0)).sum

/-- **any_t_recover_same** (strong form): Lagrange recovery (`CalBlsGpSign`) from the signature shares of ANY
list of signers — at least `t` of them, pairwise distinct non-zero ids, each holding the aggregated secret of the
honest run — yields the group signature `groupSecret · h`, whatever the subset and its order. -/
theorem recover_group_sig (t : Nat) (ht : 1 ≤ t) (senders : List (Party F)) (hlen : ∀ q ∈ senders, q.msk.length = t)
    (signers : List (Party F)) (h : F)
    (hsi : ∀ s ∈ signers, s.si = (senders.map (fun q => polyEval q.msk s.id)).sum)
    (hnd : (signers.map (·.id)).Nodup) (h0 : ∀ s ∈ signers, s.id ≠ 0) (hk : t ≤ signers.length) :
    calBlsGpSign (signers.map (fun s => signShare s h)) (signers.map (·.id)) = some (groupSecret senders * h) := by
  have hne : signers ≠ [] := by
    intro hc; rw [hc] at hk; simp at hk; omega
  have hemp : (signers.map (fun s => signShare s h)).isEmpty = false ∧ (signers.map (·.id)).isEmpty = false := by
    cases signers with
    | nil => exact absurd rfl hne
    | cons a l => simp
  simp only [calBlsGpSign, hemp.1, hemp.2, List.length_map, bne_self_eq_false, Bool.or_self,
    Bool.false_eq_true, ↓reduceIte]
  have hzip : (signers.map (·.id)).zip (signers.map (fun s => signShare s h)) =
      signers.map (fun s => (s.id, signShare s h)) := by
    rw [List.zip_map']
  rw [hzip]
  have hpoly := recoverLib_of_poly (sumPolys t (senders.map (·.msk))) h
    (signers.map (fun s => (s.id, signShare s h)))
    (by simpa [List.map_map, Function.comp_def] using hnd)
    (by
      intro p hp
      obtain ⟨s, hs, rfl⟩ := List.mem_map.mp hp
      exact h0 s hs)
    (by
      intro p hp
      obtain ⟨s, hs, rfl⟩ := List.mem_map.mp hp
      simp only [signShare, sign, hsi s hs]
      rw [polyEval_sumPolys t _ (by
        intro m hm
        obtain ⟨q, hq, rfl⟩ := List.mem_map.mp hm
        exact hlen q hq)]
      simp [List.map_map, Function.comp_def])
    (by
      rw [sumPolys_length t _ (by
        intro m hm
        obtain ⟨q, hq, rfl⟩ := List.mem_map.mp hm
        exact hlen q hq)]
      simpa using hk)
    (by simpa using hne)
  rw [hpoly, polyEval_zero, headD_sumPolys t _ (by
        intro m hm
        obtain ⟨q, hq, rfl⟩ := List.mem_map.mp hm
        exact hlen q hq)]
  simp [groupSecret, List.map_map, Function.comp_def]

/-- **any_t_recover_same**: two qualifying signer sets recover the same group signature. -/
theorem any_t_recover_same (t : Nat) (ht : 1 ≤ t) (senders : List (Party F)) (hlen : ∀ q ∈ senders, q.msk.length = t)
    (A B : List (Party F)) (h : F)
    (hA : ∀ s ∈ A, s.si = (senders.map (fun q => polyEval q.msk s.id)).sum)
    (hB : ∀ s ∈ B, s.si = (senders.map (fun q => polyEval q.msk s.id)).sum)
    (ndA : (A.map (·.id)).Nodup) (ndB : (B.map (·.id)).Nodup)
    (zA : ∀ s ∈ A, s.id ≠ 0) (zB : ∀ s ∈ B, s.id ≠ 0) (kA : t ≤ A.length) (kB : t ≤ B.length) :
    calBlsGpSign (A.map (fun s => signShare s h)) (A.map (·.id)) =
    calBlsGpSign (B.map (fun s => signShare s h)) (B.map (·.id)) := by
  rw [recover_group_sig t ht senders hlen A h hA ndA zA kA, recover_group_sig t ht senders hlen B h hB ndB zB kB]

/-- the recovered group signature verifies under the group public key. -/
theorem group_sig_verifies (senders : List (Party F)) (h : F) (hh : h ≠ 0) (hs : groupSecret senders ≠ 0) :
    verifyLib (groupPublicKey senders) h (groupSecret senders * h) = true := by
  have : groupPublicKey senders = groupSecret senders := by
    simp [groupPublicKey, groupSecret, mpk, map_pubKey]
  simp [verifyLib, this, hs, hh]

/-! ## split keys -/

omit [DecidableEq F] in
/-- **split_keys_sum**: the split secret keys add up to the primary key, … -/
theorem split_keys_sum (primary : F) (ks : List F) : (splitKeys primary ks).sum = primary := by
  simp [splitKeys]

omit [DecidableEq F] in
theorem sum_map_mul_right (l : List F) (h : F) : (l.map (fun k => k * h)).sum = l.sum * h := by
  induction l with
  | nil => simp
  | cons a l ih => simp [ih, add_mul]

omit [DecidableEq F] in
/-- … the split public keys add up to the primary public key, … -/
theorem split_pubkeys_sum (primary : F) (ks : List F) :
    ((splitKeys primary ks).map pubKey).sum = pubKey primary := by
  rw [map_pubKey, split_keys_sum]; rfl

omit [DecidableEq F] in
/-- … and the aggregate of the split keys' signatures is the primary key's signature and verifies under
the primary public key. -/
theorem split_sigs_aggregate (primary : F) (ks : List F) (h : F) :
    aggregateSignatures ((splitKeys primary ks).map (fun k => sign k h)) = sign primary h := by
  simp only [aggregateSignatures, sign]
  rw [sum_map_mul_right, split_keys_sum]

theorem split_sigs_verify (primary : F) (ks : List F) (h : F) (hp : primary ≠ 0) (hh : h ≠ 0) :
    verifyLib (pubKey primary) h (aggregateSignatures ((splitKeys primary ks).map (fun k => sign k h))) = true := by
  rw [split_sigs_aggregate]
  simp [verifyLib, pubKey, sign, hp, hh]

/-! ## client threshold keys -/

/-- **threshold_client_reconstruct_verifies**: signatures by ANY `≥ t` of the `n` threshold shares of `sk`
(polynomial `sk :: cs`, `t = cs.length + 1` coefficients, pairwise distinct non-zero ids) reconstruct the
signature of `sk` itself, which verifies under the original public key. -/
theorem threshold_client_reconstruct (n : Nat) (sk : F) (cs : List F) (idOf : Nat → F) (h : F)
    (pts : List (F × F))
    (hmem : ∀ p ∈ pts, ∃ sh ∈ thresholdShares n (sk :: cs) idOf, p = (sh.1, sign sh.2 h))
    (hnd : (pts.map Prod.fst).Nodup) (h0 : ∀ p ∈ pts, p.1 ≠ 0) (hk : cs.length + 1 ≤ pts.length) :
    reconstruct pts = some (sign sk h) := by
  have hne : pts ≠ [] := by
    intro hc; rw [hc] at hk; simp at hk
  have := recoverLib_of_poly (sk :: cs) h pts hnd h0
    (by
      intro p hp
      obtain ⟨sh, hsh, rfl⟩ := hmem p hp
      simp only [thresholdShares, List.mem_map] at hsh
      obtain ⟨i, _, rfl⟩ := hsh
      rfl)
    (by simpa using hk) hne
  rw [reconstruct, this, polyEval_zero]
  rfl

theorem threshold_client_reconstruct_verifies (n : Nat) (sk : F) (cs : List F) (idOf : Nat → F) (h : F)
    (pts : List (F × F))
    (hmem : ∀ p ∈ pts, ∃ sh ∈ thresholdShares n (sk :: cs) idOf, p = (sh.1, sign sh.2 h))
    (hnd : (pts.map Prod.fst).Nodup) (h0 : ∀ p ∈ pts, p.1 ≠ 0) (hk : cs.length + 1 ≤ pts.length)
    (hsk : sk ≠ 0) (hh : h ≠ 0) :
    ∃ σ, reconstruct pts = some σ ∧ verifyLib (pubKey sk) h σ = true := by
  refine ⟨sign sk h, threshold_client_reconstruct n sk cs idOf h pts hmem hnd h0 hk, ?_⟩
  simp [verifyLib, pubKey, sign, hsk, hh]

/-! ## inputs are values; ids as strings -/

/-- the group-key table a party derives depends only on the published polynomials it is GIVEN — not on the party, and
(the model being functional) the call cannot change them: every party aggregating from the same `mpks` gets the same
table, and whatever validated against a published polynomial before an aggregation validates after it. -/
theorem aggregatePublicKeyShares_gmpk_indep (p q : Party F) (mpks : List (F × List F)) :
    (aggregatePublicKeyShares p mpks).map (·.gmpk) = (aggregatePublicKeyShares q mpks).map (·.gmpk) := by
  unfold aggregatePublicKeyShares
  split <;> rfl

omit [Field F] [DecidableEq F] in
theorem parseDigits_append (b : Nat) (l : List Nat) (d : Nat) : parseDigits b (l ++ [d]) = parseDigits b l * b + d := by
  simp [parseDigits, List.foldl_append]

omit [Field F] [DecidableEq F] in
/-- rendering a number in base `b` and parsing it back in the SAME base is the identity. -/
theorem parse_digitsOf (b : Nat) (hb : 2 ≤ b) : ∀ (fuel n : Nat), n < b ^ fuel → parseDigits b (digitsOf b fuel n) = n := by
  intro fuel
  induction fuel with
  | zero => intro n hn; simp at hn; subst hn; simp [digitsOf, parseDigits]
  | succ fuel ih =>
    intro n hn
    unfold digitsOf
    by_cases h : n < b
    · simp [h, parseDigits]
    · rw [if_neg h, parseDigits_append]
      have hdiv : n / b < b ^ fuel := by
        rw [Nat.div_lt_iff_lt_mul (by omega)]
        rw [Nat.pow_succ] at hn
        exact hn
      rw [ih (n / b) hdiv]
      exact Nat.div_add_mod' n b

omit [Field F] [DecidableEq F] in
/-- **id_string_round_trip**: `SetID(GetID(share))` keeps the id (both hexadecimal) — for every id. -/
theorem id_string_round_trip (id : Nat) (h : id < 16 ^ 64) : idRoundTrip id = some id := by
  simp only [idRoundTrip, h, if_true, parseHex, showHex]
  rw [parse_digitsOf 16 (by omega) 64 id h]

/-- a decimal rendering read back as hexadecimal is another number from id 10 on: `"10"` is 16 — what a `GetID` in
decimal with a `SetID` in hexadecimal would do to the tenth share. -/
example : parseHex (showDec 9) = 9 ∧ parseHex (showDec 10) = 16 ∧ parseHex (showDec 20) = 32 := by decide

/-! ## ShareOrSigns.Validate -/

/-- an entry is honest w.r.t. the sender's polynomial `msk`. -/
def SosEntry.Honest (msk : List F) : SosEntry F → Prop
  | .nil _ => True
  | .share _ kid sij => sij = polyEval msk kid
  | .sign _ pk h σ => ∃ k, pk = some k ∧ verifyLib k h σ = true

def SosEntry.shareKey : SosEntry F → Option Nat
  | .share key _ _ => some key
  | _ => none

/-- `Validate` accepts exactly the honest `ShareOrSigns` (revealed shares lie on the sender's published polynomial,
signatures verify under the registered keys) and then returns the keys of the revealed shares. -/
theorem sos_validate_iff (msk : List F) (hne : msk ≠ []) (es : List (SosEntry F)) :
    (∃ keys, sosValidate (msk.map pubKey) es = some keys) ↔ ∀ e ∈ es, SosEntry.Honest msk e := by
  have hemp : (msk.map pubKey).isEmpty = false := by
    cases msk with
    | nil => exact absurd rfl hne
    | cons a l => rfl
  induction es with
  | nil => simp [sosValidate]
  | cons e es ih =>
    cases e with
    | nil k => simp [sosValidate, ih, SosEntry.Honest]
    | share k kid sij =>
      have hv : validateShare (msk.map pubKey) sij kid = decide (polyEval msk kid = sij) := by
        rw [map_pubKey] at hemp
        simp only [validateShare, map_pubKey, pubKey, hemp]; rfl
      simp only [sosValidate, hv, List.mem_cons, forall_eq_or_imp, SosEntry.Honest]
      by_cases hs : polyEval msk kid = sij
      · rw [decide_eq_true hs]
        simp only [if_true]
        constructor
        · rintro ⟨keys, hk⟩
          rw [Option.map_eq_some_iff] at hk
          obtain ⟨a, ha, _⟩ := hk
          exact ⟨hs.symm, ih.mp ⟨a, ha⟩⟩
        · rintro ⟨_, hall⟩
          obtain ⟨a, ha⟩ := ih.mpr hall
          exact ⟨k :: a, by rw [ha]; rfl⟩
      · rw [decide_eq_false hs]
        simp only [Bool.false_eq_true, if_false]
        constructor
        · rintro ⟨keys, hk⟩; cases hk
        · rintro ⟨hc, _⟩; exact absurd hc.symm hs
    | sign k pk h σ =>
      simp only [sosValidate, List.mem_cons, forall_eq_or_imp, SosEntry.Honest]
      cases pk with
      | none => simp
      | some pk =>
        by_cases hv : verifyLib pk h σ = true
        · simp only [hv, ↓reduceIte, Option.some.injEq, exists_eq_left', true_and]; exact ih
        · simp [hv]

/-- the keys returned are exactly the keys of the share entries, in order. -/
theorem sos_validate_keys (mpk : List F) (es : List (SosEntry F)) (keys : List Nat)
    (h : sosValidate mpk es = some keys) : keys = es.filterMap SosEntry.shareKey := by
  induction es generalizing keys with
  | nil => simp [sosValidate] at h; simp [h]
  | cons e es ih =>
    cases e with
    | nil k =>
      simp only [sosValidate] at h
      rw [List.filterMap_cons]; simp only [SosEntry.shareKey]; exact ih keys h
    | share k kid sij =>
      simp only [sosValidate] at h
      split at h
      · rw [Option.map_eq_some_iff] at h
        obtain ⟨ks, hks, rfl⟩ := h
        simp [SosEntry.shareKey, ih ks hks]
      · cases h
    | sign k pk hh σ =>
      simp only [sosValidate] at h
      cases pk with
      | none => cases h
      | some pk =>
        simp only at h
        split at h
        · rw [List.filterMap_cons]; simp only [SosEntry.shareKey]; exact ih keys h
        · cases h

/-! ## non-vacuity (over ℚ) -/

section Examples
/-- a 2-of-3 DKG over ℚ: three parties with polynomials 5+7x, 11+13x, 17+19x and ids 2, 3, 4. -/
def exParty (id : ℚ) (a b : ℚ) : Party ℚ := mkParty 2 3 id [a, b]
def exSenders : List (Party ℚ) := [exParty 2 5 7, exParty 3 11 13, exParty 4 17 19]

example : (exSenders.map (·.id)).Nodup := by decide
example : ∀ q ∈ exSenders, q.msk ≠ [] := by decide
example : ∀ q ∈ exSenders, q.msk.length = 2 := by decide
example : groupSecret exSenders = 33 := by norm_num [groupSecret, exSenders, exParty, mkParty]
example : validateShare (mpk (exParty 2 5 7)) (5 + 7 * 3) 3 = true := by
  norm_num [validateShare, mpk, exParty, mkParty, pubKey, polyEval]
example : validateShare (mpk (exParty 2 5 7)) (5 + 7 * 3 + 1) 3 = false := by
  norm_num [validateShare, mpk, exParty, mkParty, pubKey, polyEval]
/-- the signers of the example after the honest run (`Sᵢ = Σⱼ fⱼ(idᵢ)`): ids 2, 3, 4. -/
def exSigner (id : ℚ) : Party ℚ :=
  { exParty id 0 0 with si := (exSenders.map (fun q => polyEval q.msk id)).sum }

/-- the hypotheses of `recover_group_sig` are met by a concrete instance, and two different 2-subsets in
different orders give the group signature `33·h`. -/
example (h : ℚ) :
    calBlsGpSign ([exSigner 2, exSigner 3].map (fun s => signShare s h)) ([exSigner 2, exSigner 3].map (·.id))
      = some (33 * h) ∧
    calBlsGpSign ([exSigner 4, exSigner 2].map (fun s => signShare s h)) ([exSigner 4, exSigner 2].map (·.id))
      = some (33 * h) := by
  have hs : groupSecret exSenders = 33 := by norm_num [groupSecret, exSenders, exParty, mkParty]
  constructor
  · rw [← hs]
    exact recover_group_sig 2 (by omega) exSenders (by decide) _ h (by intro s hs; simp at hs; rcases hs with rfl | rfl <;> rfl)
      (by simp [exSigner, exParty, mkParty]) (by simp [exSigner, exParty, mkParty]) (by simp)
  · rw [← hs]
    exact recover_group_sig 2 (by omega) exSenders (by decide) _ h (by intro s hs; simp at hs; rcases hs with rfl | rfl <;> rfl)
      (by simp [exSigner, exParty, mkParty]) (by simp [exSigner, exParty, mkParty]) (by simp)
example : splitKeys (10 : ℚ) [3, 4] = [3, 4, 3] := by norm_num [splitKeys]
end Examples

end ZChain.DKG
