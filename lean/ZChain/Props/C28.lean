import ZChain.Proofs.StateChange
/-!
# C28 — Synced state changes reproduce the computed state

Property theorems over `Model/StateChange.lean` (tied to `ApplyBlockStateChange`, `NewBlockStateChange`,
`PartialState.ComputeProperties`, `MemoryNodeDB.ComputeRoot`, `MergeDB` by `harness/cmd/c28`: real blocks executed
by the real engine, every single tampering of their change sets applied through the real code).
-/
namespace ZChain.StateChange

/-- a change set "does not match" the block: wrong block hash, wrong root, or wrong node count -/
def Mismatch (b : Blk) (cs : ChangeSet) : Prop :=
  cs.block ≠ b.hash ∨ cs.root ≠ b.stateHash ∨ cs.nodes.length ≠ b.count

/-- **apply_rejects_tampered** (1): a change set whose block hash, root or node count does not match the block is
never applied — whatever `ComputeProperties` left as its root. -/
theorem apply_rejects_mismatch (b : Blk) (cs : ChangeSet) (ro : Option Node) (base : List Node) (hm : Mismatch b cs) :
    (apply b cs ro base).1 ≠ .applied := by
  unfold apply
  split
  · intro h; cases h
  · split
    · intro h; cases h
    · rename_i hb
      split
      · intro h; cases h
      · rename_i hs
        cases ro with
        | none => simp only; split <;> (intro h; cases h)
        | some r =>
          simp only
          split
          · intro h; cases h
          · rename_i hc
            exfalso
            have hb' : b.hash = cs.block := by simpa using hb
            have hs' : b.stateHash = cs.root := by simpa using hs
            have hc' : cs.nodes.length = b.count := by simpa using hc
            rcases hm with h | h | h
            · exact h hb'.symm
            · exact h hs'.symm
            · exact h hc'

/-- **apply_rejects_tampered** (2): whenever the answer is not `applied` (an error, or the already-computed /
unchanged-state short cuts) the block's client state is not set and its state status is what it was:
the local state is untouched. -/
theorem not_applied_untouched (b : Blk) (cs : ChangeSet) (ro : Option Node) (base : List Node)
    (h : (apply b cs ro base).1 ≠ .applied) : (apply b cs ro base).2 = (none, b.status) := by
  unfold apply at h ⊢
  split
  · rfl
  · split
    · rfl
    · split
      · rfl
      · cases ro with
        | none => simp only; split <;> rfl
        | some r =>
          simp only at h ⊢
          split
          · rfl
          · split
            · rfl
            · rename_i h1 h2 h3 h4 h5
              simp [h1, h2, h3, h4, h5] at h

/-- **applied ⇒ declared root**: an applied change set gives the block exactly the state root it declares,
status `StateSynched`, and block hash, root and count all matched. -/
theorem applied_root (b : Blk) (cs : ChangeSet) (ro : Option Node) (base : List Node) (h : (apply b cs ro base).1 = .applied) :
    ∃ r, ro = some r ∧ (apply b cs ro base).2 = (some { root := b.stateHash, overlay := cs.nodes ++ base }, 5) ∧
      cs.block = b.hash ∧ cs.root = b.stateHash ∧ cs.nodes.length = b.count ∧ b.status < 4 := by
  by_cases hst : b.status ≥ 4
  · simp [apply, hst] at h
  by_cases hb : b.hash ≠ cs.block
  · simp [apply, hst, hb] at h
  by_cases hs : b.stateHash ≠ cs.root
  · simp [apply, hst, hb, hs] at h
  cases ro with
  | none =>
    exfalso
    simp only [apply, hst, hb, hs, if_false] at h
    split at h <;> cases h
  | some r =>
    by_cases hc : cs.nodes.length ≠ b.count
    · simp [apply, hst, hb, hs, hc] at h
    by_cases hr : b.stateHash ≠ r.hash
    · simp [apply, hst, hb, hs, hc, hr] at h
    have hb' : b.hash = cs.block := by simpa using hb
    have hs' : b.stateHash = cs.root := by simpa using hs
    have hc' : cs.nodes.length = b.count := by simpa using hc
    have hr' : b.stateHash = r.hash := by simpa using hr
    refine ⟨r, rfl, ?_, hb'.symm, hs'.symm, hc', by omega⟩
    simp only [apply, hst, hb, hs, hc, hr, if_false]
    rw [← hr']

/-- **apply_honest**: a change set that passes `ComputeProperties` and matches the block (what
`NewBlockStateChange` of the executed block gives) is applied, and the block's state root is the declared =
executed root. -/
theorem apply_honest (b : Blk) (cs : ChangeSet) (r : Node) (base : List Node) (hcp : computeProperties cs = some r)
    (hst : b.status < 4) (hb : cs.block = b.hash) (hs : cs.root = b.stateHash) (hc : cs.nodes.length = b.count) :
    apply b cs (some r) base = (.applied, some { root := b.stateHash, overlay := cs.nodes ++ base }, 5) := by
  have hroot := (computeProperties_some cs r hcp).1
  unfold apply
  have h1 : ¬ b.status ≥ 4 := by omega
  have h2 : ¬ b.hash ≠ cs.block := by simp [hb]
  have h3 : ¬ b.stateHash ≠ cs.root := by simp [hs]
  have h4 : ¬ cs.nodes.length ≠ b.count := by simp [hc]
  have h5 : ¬ b.stateHash ≠ r.hash := by simp [hroot, hs]
  simp only [h1, h2, h3, h4, h5, if_false]
  rw [hroot, hs]

/-- **no junk**: every node of an accepted change set lies in the tree of the declared root. -/
theorem accepted_nodes_in_declared_tree (cs : ChangeSet) (r : Node) (hcp : computeProperties cs = some r) :
    r.hash = cs.root ∧ ∀ n ∈ cs.nodes, n.hash = cs.root ∨ reachable cs.nodes cs.nodes.length cs.root n.hash = true := by
  obtain ⟨h1, _, _, h4⟩ := computeProperties_some cs r hcp
  exact ⟨h1, fun n hn => by rw [← h1]; exact h4 n hn⟩

/-- **honest ⇒ complete**. `E` is the executed state: the nodes of the tree of the declared root (closed under
children). If every node of `E` is in the receiver's DB or among the merged nodes, and the merged nodes were
created in the block's own round (`rehash = hash`, which is what an executing node produces), and a hash
determines a node's children (content addressing), then every node of the executed state can be read from the
synced state — the whole tree down from the root (depth measured by `rank`). -/
theorem honest_complete (db : List Node) (st : BState) (E : List Node) (rank : Hash → Nat)
    (hclosed : ∀ n ∈ E, ∀ c ∈ n.children, ∃ m ∈ E, m.hash = c ∧ rank c < rank n.hash)
    (hcover : ∀ n ∈ E, (∃ m ∈ st.overlay, m.hash = n.hash) ∨ (∃ m ∈ db, m.hash = n.hash))
    (hstamp : ∀ m ∈ st.overlay, m.rehash = m.hash)
    (hcontent : ∀ n ∈ E, ∀ m, (m ∈ db ∨ m ∈ st.overlay) → m.hash = n.hash → m.children = n.children) :
    ∀ (fuel : Nat) (n : Node), n ∈ E → rank n.hash < fuel → readable db st fuel n.hash = true := by
  intro fuel
  induction fuel with
  | zero => intro n _ h; omega
  | succ f ih =>
    intro n hn hr
    simp only [readable]
    -- the node found under n.hash has n's children
    have hfound : ∃ m, getNode db st n.hash = some m ∧ m.children = n.children := by
      unfold getNode
      cases hf : st.overlay.find? (fun x => x.rehash == n.hash) with
      | some m =>
        have hm := List.mem_of_find?_eq_some hf
        have hmh : m.rehash = n.hash := by simpa using List.find?_some hf
        exact ⟨m, rfl, hcontent n hn m (Or.inr hm) (by rw [← hstamp m hm, hmh])⟩
      | none =>
        simp only
        rcases hcover n hn with ⟨m, hm, hmh⟩ | ⟨m, hm, hmh⟩
        · exfalso
          have := List.find?_eq_none.mp hf m hm
          simp [hstamp m hm, hmh] at this
        · unfold lookup
          cases hl : db.find? (fun x => x.hash == n.hash) with
          | none =>
            have := List.find?_eq_none.mp hl m hm
            simp [hmh] at this
          | some m' =>
            have hm' := List.mem_of_find?_eq_some hl
            have : m'.hash = n.hash := by simpa using List.find?_some hl
            exact ⟨m', rfl, hcontent n hn m' (Or.inl hm') this⟩
    obtain ⟨m, hg, hch⟩ := hfound
    rw [hg]
    simp only [hch, List.all_eq_true]
    intro c hc
    obtain ⟨k, hk, hkc, hrk⟩ := hclosed n hn c hc
    rw [← hkc]
    exact ih k hk (by rw [hkc]; omega)

/-! ### which state the new state is built on -/

/-- **base_state_choice**: a previous block whose state is COMPUTED — executed locally (`StateSuccessful`) or itself
synced (`StateSynched`) — contributes all nodes merged into its in-memory state; a previous block that is unknown,
not computed, or without client state contributes nothing (the persistent DB only). -/
theorem base_state_choice (st : BState) :
    baseOverlay (some 4) (some st) = st.overlay ∧ baseOverlay (some 5) (some st) = st.overlay ∧
    (∀ s, s < 4 → baseOverlay (some s) (some st) = []) ∧ baseOverlay none (some st) = [] ∧
    (∀ s, baseOverlay (some s) none = []) := by
  refine ⟨by simp [baseOverlay], by simp [baseOverlay], ?_, rfl, ?_⟩
  · intro s hs
    have : ¬ s ≥ 4 := by omega
    simp [baseOverlay, this]
  · intro s; simp only [baseOverlay]; split <;> rfl

/-- **honest ⇒ complete, previous block SYNCED**. Block N was synced (state `st1`: its change set merged in memory,
nothing saved), block N+1's honest change set `cs2` is applied on top. If every node of the executed state of
N+1 is among `cs2`'s nodes, among the nodes merged for N, or in the persistent DB, the whole state is readable. -/
theorem honest_complete_over_synced_prev (db : List Node) (b : Blk) (cs2 : ChangeSet) (r : Node) (st1 : BState)
    (E : List Node) (rank : Hash → Nat)
    (hcp : computeProperties cs2 = some r) (hst : b.status < 4) (hb : cs2.block = b.hash)
    (hs : cs2.root = b.stateHash) (hc : cs2.nodes.length = b.count)
    (hclosed : ∀ n ∈ E, ∀ c ∈ n.children, ∃ m ∈ E, m.hash = c ∧ rank c < rank n.hash)
    (hcover : ∀ n ∈ E, (∃ m ∈ cs2.nodes ++ st1.overlay, m.hash = n.hash) ∨ (∃ m ∈ db, m.hash = n.hash))
    (hstamp : ∀ m ∈ cs2.nodes ++ st1.overlay, m.rehash = m.hash)
    (hcontent : ∀ n ∈ E, ∀ m, (m ∈ db ∨ m ∈ cs2.nodes ++ st1.overlay) → m.hash = n.hash → m.children = n.children) :
    ∃ st2, apply b cs2 (some r) (baseOverlay (some 5) (some st1)) = (.applied, some st2, 5) ∧
      st2.root = b.stateHash ∧
      ∀ (fuel : Nat) (n : Node), n ∈ E → rank n.hash < fuel → readable db st2 fuel n.hash = true := by
  have hbase : baseOverlay (some 5) (some st1) = st1.overlay := (base_state_choice st1).2.1
  refine ⟨{ root := b.stateHash, overlay := cs2.nodes ++ st1.overlay }, ?_, rfl, ?_⟩
  · rw [hbase]; exact apply_honest b cs2 r st1.overlay hcp hst hb hs hc
  · exact honest_complete db _ E rank hclosed hcover hstamp hcontent

/-! ### `ComputeRoot` and Go's map order -/

/-- For an accepted change set whose nodes form an acyclic graph (they do: a node's hash covers its children's
hashes) and whose leaves have no children, `ComputeRoot` gives the same root for EVERY order in which Go may
enumerate the node map. -/
theorem accepted_root_any_order (cs : ChangeSet) (r : Node) (hcp : computeProperties cs = some r)
    (hrin : r ∈ cs.nodes)
    (hasym : ∀ a b, reachable cs.nodes cs.nodes.length a b = true → reachable cs.nodes cs.nodes.length b a = false)
    (hleaf : r.leaf = true → ∀ y ∈ cs.nodes, y = r)
    (order : List Node) (hperm : order.Perm cs.nodes) :
    computeRootWith (reachable cs.nodes cs.nodes.length) order = some r := by
  obtain ⟨_, hd, _, hall⟩ := computeProperties_some cs r hcp
  apply computeRoot_order_independent _ cs.nodes r hrin _ hasym (distinctHashes_inj cs.nodes hd) hleaf order hperm
  intro y hy hne
  rcases hall y hy with h | h
  · exact absurd h hne
  · exact h

/-! ### witnesses (replayed on the real code by the generator's tamperings 7 and 2) -/

/-- receiver's DB: the old tree `R0 → {A, B}`; the block changes leaf `A` to `A'` giving `R1 → {A', B}` -/
def exDB : List Node := [⟨"R0", false, "R0", ["A", "B"]⟩, ⟨"A", true, "A", []⟩, ⟨"B", true, "B", []⟩]
def exBlk : Blk := { hash := "blk", stateHash := "R1", count := 2, prev := some "R0", prevComputed := true, status := 0, round := 7 }
def exHonest : ChangeSet := { block := "blk", root := "R1", nodes := [⟨"R1", false, "R1", ["A'", "B"]⟩, ⟨"A'", true, "A'", []⟩] }
/-- the changed leaf `A'` swapped for the unchanged leaf `B`: right block, right root, right count -/
def exSubst : ChangeSet := { block := "blk", root := "R1", nodes := [⟨"R1", false, "R1", ["A'", "B"]⟩, ⟨"B", true, "B", []⟩] }
/-- the changed leaf dropped: the count no longer matches -/
def exDrop : ChangeSet := { block := "blk", root := "R1", nodes := [⟨"R1", false, "R1", ["A'", "B"]⟩] }

/-- non-vacuity of `apply_honest` / `honest_complete`: the honest set is accepted and the state is complete -/
example : ∃ r, computeProperties exHonest = some r ∧ (apply exBlk exHonest (some r)).1 = .applied ∧
    complete exDB ⟨"R1", exHonest.nodes⟩ = true := ⟨⟨"R1", false, "R1", ["A'", "B"]⟩, by decide, by decide, by decide⟩

/-- **Completeness is NOT guaranteed for a tampered set that keeps root, block hash and count**: the substituted
set passes `ComputeProperties`, is applied, the block gets the declared root — and a node of the state is missing.
(The property does not demand its rejection: nothing "does not match"; the missing node is fetched later by the
missing-node sync. Stated so that the proof answers the question instead of assuming it.) -/
theorem substituted_changeset_accepted_incomplete :
    ∃ r, computeProperties exSubst = some r ∧ (apply exBlk exSubst (some r)).1 = .applied ∧
      complete exDB ⟨"R1", exSubst.nodes⟩ = false := ⟨⟨"R1", false, "R1", ["A'", "B"]⟩, by decide, by decide, by decide⟩

/-- the dropped-node set is rejected by the count check and leaves the block untouched -/
example : ∃ r, computeProperties exDrop = some r ∧ (apply exBlk exDrop (some r)).1 = .err .count :=
  ⟨⟨"R1", false, "R1", ["A'", "B"]⟩, by decide, by decide⟩
example : Mismatch exBlk exDrop := Or.inr (Or.inr (by decide))

/-! ### two synced blocks in a row -/

/-- block 1 (round 7) changes leaf `A` to `A1`: `R1 → {A1, B}`; block 2 (round 8) changes `B` to `B2`: `R2 → {A1, B2}` -/
def exBlk2 : Blk := { hash := "blk2", stateHash := "R2", count := 2, prev := some "R1", prevComputed := true, status := 0, round := 8 }
def exCS1 : ChangeSet := { block := "blk", root := "R1", nodes := [⟨"R1", false, "R1", ["A1", "B"]⟩, ⟨"A1", true, "A1", []⟩] }
def exCS2 : ChangeSet := { block := "blk2", root := "R2", nodes := [⟨"R2", false, "R2", ["A1", "B2"]⟩, ⟨"B2", true, "B2", []⟩] }
def exSt1 : BState := { root := "R1", overlay := exCS1.nodes }

/-- **the base-state choice is needed**: built on the synced previous block's in-memory state, block 2's state is
complete; built on the persistent DB alone (what the code would do if "computed" excluded "synced") every check
still passes, the block is `StateSynched` with the declared root — and the node `A1`, changed only by the unsaved
previous block, is missing. -/
theorem synced_prev_base_needed :
    let r2 : Node := ⟨"R2", false, "R2", ["A1", "B2"]⟩
    computeProperties exCS2 = some r2 ∧
    (apply exBlk2 exCS2 (some r2) (baseOverlay (some 5) (some exSt1))).1 = .applied ∧
    complete exDB ⟨"R2", exCS2.nodes ++ baseOverlay (some 5) (some exSt1)⟩ = true ∧
    (apply exBlk2 exCS2 (some r2) []).1 = .applied ∧
    complete exDB ⟨"R2", exCS2.nodes ++ []⟩ = false := by
  refine ⟨by decide, by decide, by decide, by decide, by decide⟩

end ZChain.StateChange
