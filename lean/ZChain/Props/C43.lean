import ZChain.Model.HardFork
/-!
# C43 — Hard-fork behaviour switches exactly at the fork round

"Contract behaviour gated by a named hard fork uses the pre-fork rules for every block before the fork's recorded round
and the post-fork rules from that round on. A fork that was never recorded keeps the pre-fork rules."

Statements about `Model/HardFork.lean`, tied to `chaincore/chain/state/activator.go` by `harness/cmd/c43` (the real
`WithActivation` on a real `StateContext`).

FULL STATEMENT of the second sentence (false of the code at one point, `unrecorded_fails_at_maxInt64`):
  `∀ blockRound` (int64), `branch .absent blockRound = .before`.
An unrecorded fork is given the round `math.MaxInt64` and the test is `block.Round < round`, so a block whose round IS
`math.MaxInt64` takes the post-fork branch. PROVED (`_partial`): for every block round below `math.MaxInt64`.
(A chain reaches that round after 9.2·10^18 blocks; the finding is recorded because the property quantifies over any
block round.)
-/
namespace ZChain.HardFork

/-- **activation_exact**: for a fork recorded at `r`, `before` runs iff the block round is below `r`, `after` iff it
is `r` or later; exactly one of them runs, for every pair of int64 values. -/
theorem activation_exact (r blockRound : Int) :
    (branch (.present r) blockRound = .before ↔ blockRound < r) ∧
    (branch (.present r) blockRound = .after ↔ r ≤ blockRound) ∧
    branch (.present r) blockRound ≠ .neither := by
  unfold branch getRoundByName
  simp only
  by_cases h : blockRound < r
  · simp [h] <;> omega
  · simp [h] <;> omega

/-- the switch is sharp: the last pre-fork block is `r − 1`, the first post-fork block is `r`. -/
theorem activation_boundary (r : Int) :
    branch (.present r) (r - 1) = .before ∧ branch (.present r) r = .after ∧ branch (.present r) (r + 1) = .after := by
  refine ⟨(activation_exact r (r - 1)).1.mpr (by omega), (activation_exact r r).2.1.mpr (by omega),
    (activation_exact r (r + 1)).2.1.mpr (by omega)⟩

/-- once post-fork, always post-fork: the branch is monotone in the block round. -/
theorem activation_monotone (l : Lookup) (b1 b2 : Int) (h : b1 ≤ b2) (h1 : branch l b1 = .after) :
    branch l b2 = .after := by
  cases l with
  | present r =>
    have := (activation_exact r b1).2.1.mp h1
    exact (activation_exact r b2).2.1.mpr (by omega)
  | absent =>
    by_cases hb : b1 < maxInt64
    · simp [branch, getRoundByName, hb] at h1
    · have : ¬ b2 < maxInt64 := by omega
      simp [branch, getRoundByName, this]
  | otherErr =>
    by_cases hb : b1 < maxInt64
    · simp [branch, getRoundByName, hb] at h1
    · have : ¬ b2 < maxInt64 := by omega
      simp [branch, getRoundByName, this]
  | nodeNotFound => simp [branch, getRoundByName] at h1

/-- **unrecorded_before_partial**: a fork that was never recorded (`ErrValueNotPresent`) keeps the pre-fork rules for
every block round below `math.MaxInt64`. -/
theorem unrecorded_before_partial (blockRound : Int) (h : blockRound < maxInt64) :
    branch .absent blockRound = .before := by
  unfold branch getRoundByName
  simp [h]

/-- negation witness of the full second sentence (finding `C43:unrecorded-fork-at-maxint64-round`). -/
theorem unrecorded_fails_at_maxInt64 : branch .absent maxInt64 = .after := by decide

/-- a lookup that fails for another reason (e.g. the stored value does not decode) is treated like "never recorded". -/
theorem other_error_like_unrecorded (blockRound : Int) : branch .otherErr blockRound = branch .absent blockRound := by
  unfold branch getRoundByName; simp

/-- a missing trie node: neither closure runs and the error is returned. -/
theorem node_not_found_returned (blockRound : Int) (b a : Bool) :
    withActivation .nodeNotFound blockRound b a = (.neither, true) := by
  unfold withActivation branch getRoundByName; simp

/-- **error propagation**: `WithActivation` returns exactly what the closure it ran returned. -/
theorem result_is_branch_result (l : Lookup) (blockRound : Int) (b a : Bool) :
    (branch l blockRound = .before → withActivation l blockRound b a = (.before, b)) ∧
    (branch l blockRound = .after → withActivation l blockRound b a = (.after, a)) := by
  unfold withActivation
  constructor <;> intro h <;> rw [h]

theorem findFork_filter (name other : String) (hne : other ≠ name) (m : List (String × Lookup)) :
    findFork other (m.filter (fun p => p.1 ≠ name)) = findFork other m := by
  induction m with
  | nil => rfl
  | cons p t ih =>
    obtain ⟨k, v⟩ := p
    by_cases hk : k = name
    · have hko : ¬ k = other := fun e => hne (e.symm.trans hk)
      have hf : ((k, v) :: t).filter (fun p => decide (p.1 ≠ name)) = t.filter (fun p => decide (p.1 ≠ name)) := by
        simp [hk]
      rw [hf, ih]
      simp only [findFork, hko, if_false]
    · have hf : ((k, v) :: t).filter (fun p => decide (p.1 ≠ name))
          = (k, v) :: t.filter (fun p => decide (p.1 ≠ name)) := by
        simp [hk]
      rw [hf]
      simp only [findFork]
      by_cases hko : k = other
      · simp [hko]
      · simp only [hko, if_false]; exact ih

/-- recording a fork changes the answer for that name only; the last record wins. -/
theorem record_lookup (s : St) (hb : s.broken = false) (name other : String) (l : Lookup) :
    lookup (record s name l) name = l ∧ (other ≠ name → lookup (record s name l) other = lookup s other) := by
  unfold lookup record
  simp only [hb, Bool.false_eq_true, if_false, findFork]
  constructor
  · simp
  · intro hne
    have h1 : ¬ (name = other) := fun e => hne e.symm
    simp only [h1, if_false]
    rw [findFork_filter name other hne]

/-- **records are per name** (`record_other_name_activation_unchanged`): the record map is keyed by the exact name
string, so for ALL strings `a ≠ b` — letter-case variants, names with and without spaces, prefixes of one another, the
empty name — recording (or overwriting) fork `a` never changes which closure runs for fork `b`, at any block round. -/
theorem record_other_name_activation_unchanged (s : St) (hb : s.broken = false) (a b : String) (hab : a ≠ b)
    (l : Lookup) (blockRound : Int) (be ae : Bool) :
    branch (lookup (record s a l) b) blockRound = branch (lookup s b) blockRound ∧
    withActivation (lookup (record s a l) b) blockRound be ae = withActivation (lookup s b) blockRound be ae ∧
    getRoundByName (lookup (record s a l) b) = getRoundByName (lookup s b) := by
  rw [(record_lookup s hb a b l).2 (fun e => hab e.symm)]
  exact ⟨rfl, rfl, rfl⟩

/-- the two seeded scenarios, on the model: "Electra"@100 recorded leaves "electra" unrecorded; "Apollo"@50 then
"apollo"@500 leaves "Apollo" post-fork at round 100. -/
theorem case_variants_are_different_forks :
    let s0 : St := { broken := false, forks := [] }
    let s1 := record s0 "Electra" (.present 100)
    let s2 := record (record s0 "Apollo" (.present 50)) "apollo" (.present 500)
    branch (lookup s1 "electra") 150 = .before ∧ lookup s1 "electra" = .absent ∧
    branch (lookup s2 "Apollo") 100 = .after ∧ branch (lookup s2 "apollo") 100 = .before ∧
    branch (lookup (record s0 "" (.present 7)) "a b") 7 = .before := by
  decide

/-- a fork never recorded in a healthy state is `absent`. -/
theorem never_recorded_absent (name : String) : lookup { broken := false, forks := [] } name = .absent := by
  simp [lookup, findFork]

-- non-vacuity
example : branch (.present 100) 99 = .before ∧ branch (.present 100) 100 = .after := by decide
example : branch (lookup (record { broken := false, forks := [] } "demeter" (.present 5)) "demeter") 5 = .after := by decide
example : branch (lookup (record { broken := false, forks := [] } "demeter" (.present 5)) "electra") 5 = .before := by decide

end ZChain.HardFork
