import ZChain.Proofs.Codec
import ZChain.Generated.C08
/-!
# C08 — State entities serialize losslessly and canonically

Statements about `Model/Codec.lean` (tied to the real `MarshalMsg`/`UnmarshalMsg`/`MigrateFrom`/`State.Encode` by
`harness/cmd/c08` on every run: byte-exact) and about the schemas `Generated/C08.lean` that `harness/cmd/xc08` derives
from the Go struct definitions and `msg:` tags on every run.

* `decode_encode` — for EVERY schema that is `good` (distinct keys in every struct, no hand-written decoder that drops
  fields, wrappers with distinct version strings over struct versions) and every well-typed value, decoding the encoding gives the value back,
  with nothing left over, after any continuation (`dec_enc`).
* `encode_canonical` — on the image of `enc`, re-encoding the decoded value yields the same bytes. The converse for
  arbitrary accepted byte strings is FALSE for MessagePack (`noncanonical_accepted`), as the design says.
* `state_roundtrip` — the 56-byte layout of `state.State`.
* `migrate_preserves_common` + `gen_migrations_cover_common` — every field common to two consecutive versions of a
  versioned entity survives `MigrateFrom` (generic theorem + the extracted copy lists cover every common key).
* `gen_schemas_classified` — all 45 generated schemas are `good` (versioned entities and nested wrappers included:
  `decode_encode_wrapper`). Historical: until /repo 964b895 the three schemas containing `node.Pool` were not, because
  its hand-written `UnmarshalMsg` dropped `Type` and `NodesMap` (`historical_node_pool_decode_loses`).
-/
namespace ZChain.Codec

/-- **decode_encode**: ∀ schema (good), ∀ well-typed value. -/
theorem decode_encode (t : Ty) (v : Val) (hg : good t = true) (hw : wt t v = true) :
    decode t (enc t v) = some v := by
  have := dec_enc v t [] hw hg
  simp only [List.append_nil] at this
  simp [decode, this]

/-- **encode_canonical** (on the image): if a byte string is the encoding of some well-typed value, then decoding
it and encoding the result gives the same byte string back. -/
theorem encode_canonical (t : Ty) (bs : Bytes) (v v' : Val) (hg : good t = true) (hw : wt t v' = true)
    (himg : bs = enc t v') (hdec : decode t bs = some v) : enc t v = bs := by
  rw [himg, decode_encode t v' hg hw] at hdec
  simp only [Option.some.injEq] at hdec
  rw [himg, hdec]

/-- two well-typed values with the same encoding are the same value (no two states share bytes). -/
theorem enc_injective (t : Ty) (v v' : Val) (hg : good t = true) (hw : wt t v = true) (hw' : wt t v' = true)
    (h : enc t v = enc t v') : v = v' := by
  have h1 := decode_encode t v hg hw
  rw [h, decode_encode t v' hg hw'] at h1
  exact (Option.some.inj h1).symm

/-- the general converse of canonicity is false: MessagePack readers accept integers in every width. -/
theorem noncanonical_accepted :
    (decode .int [0xd0, 5]).map (enc .int) = some [5] ∧ (decode .int [5]).map (enc .int) = some [5] := by decide

/-- … and fields in any order, and unknown keys: both byte strings decode to the same struct value. -/
theorem field_order_not_canonical :
    (decode (mkStruct [([0x61], .uint), ([0x62], .bool)]) [0x82, 0xa1, 0x62, 0xc3, 0xa1, 0x61, 0x07]).map (enc (mkStruct [([0x61], .uint), ([0x62], .bool)])) =
      some [0x82, 0xa1, 0x61, 0x07, 0xa1, 0x62, 0xc3] ∧
    (decode (mkStruct [([0x61], .uint), ([0x62], .bool)]) [0x83, 0xa1, 0x7a, 0x91, 0xc0, 0xa1, 0x62, 0xc3, 0xa1, 0x61, 0x07]).map
        (enc (mkStruct [([0x61], .uint), ([0x62], .bool)])) =
      some [0x82, 0xa1, 0x61, 0x07, 0xa1, 0x62, 0xc3] := by decide

/-- **decode_encode for the entity wrappers** (`StorageNode`, `StorageAllocation`, `WriteMarker`, also nested, as
`BlobberAllocation.LastWriteMarker`): the instance of `decode_encode` for a wrapper schema, spelled out. A wrapper
encodes as its current version's struct; decoding first reads the `version` key off the bytes, skipping every other
field with `msgp.Skip` (`skip_enc_ok`: the skip lands exactly behind any encoded value), and then decodes the struct
registered under that version. -/
theorem decode_encode_wrapper (alts : Fields) (i : Nat) (v : Val) (hg : good (.union alts) = true)
    (hw : wt (.union alts) (.alt i v) = true) : decode (.union alts) (enc (.union alts) (.alt i v)) = some (.alt i v) :=
  decode_encode _ _ hg hw

/-! ## state.State -/

/-- **state_roundtrip**: `Decode(Encode(s)) = s` for a 32-byte hash and 64-bit fields, and the encoding has 56 bytes. -/
theorem state_roundtrip (s : State) (hh : s.txnHash.length = 32)
    (hr : -9223372036854775808 ≤ s.round ∧ s.round ≤ 9223372036854775807)
    (hb : s.balance < 18446744073709551616)
    (hn : -9223372036854775808 ≤ s.nonce ∧ s.nonce ≤ 9223372036854775807) :
    decState (encState s) = some s ∧ (encState s).length = 56 := by
  constructor
  · unfold decState encState
    have h32 := takeN_append s.txnHash (le 8 (twos 8 s.round) ++ le 8 s.balance ++ le 8 (twos 8 s.nonce))
    rw [hh] at h32
    simp only [List.append_assoc] at h32 ⊢
    rw [h32]
    simp only
    rw [takeN_le]
    simp only
    rw [takeN_le]
    simp only
    have h3 := takeN_le 8 (twos 8 s.nonce) []
    rw [List.append_nil] at h3
    rw [h3]
    simp only
    rw [ofLe_le8 _ (twos8_lt _), ofLe_le8 _ hb, ofLe_le8 _ (twos8_lt _), untwos_twos8 _ hr.1 hr.2, untwos_twos8 _ hn.1 hn.2]
  · simp [encState, le_length, hh]

/-- `Encode(Decode(b)) = b` on the first 56 bytes: `Decode` ignores what follows. -/
theorem state_decode_ignores_tail : decState (encState ⟨List.replicate 32 7, -1, 5, 9⟩ ++ [1, 2, 3]) =
    some ⟨List.replicate 32 7, -1, 5, 9⟩ := by decide

/-! ## migration -/

/-- **migrate_preserves_common** (generic): a field that `MigrateFrom` copies, other than `version`, has in the new
version exactly the value it had in the old one. -/
theorem migrate_preserves_common (fromFs toFs : Fields) (copied : List Bytes) (ver : Bytes) (old : Vals)
    (name : Bytes) (v : Val) (j : Nat)
    (hc : name ∈ copied) (hv : name ≠ kVersion)
    (hfrom : fieldOf fromFs old name = some v) (hto : toFs.index name = some j) :
    fieldOf toFs (migrate fromFs toFs copied ver old) name = some v := by
  have hbase := migFold_sets fromFs toFs old copied (zeroFields toFs) name v j hfrom hto (zeroFields_length toFs) hc
  unfold fieldOf
  rw [hto]
  simp only [Option.bind_some]
  rw [migrate_eq]
  cases hvi : toFs.index kVersion with
  | none => exact hbase
  | some i =>
    simp only
    rw [Vals.get_set]
    split
    · rename_i hij
      exact absurd (Fields.index_inj toFs kVersion name j (by rw [hvi, hij.1]) hto).symm hv
    · exact hbase

def fieldsAt (i : Nat) : Option Fields :=
  match Gen.schemas[i]? with
  | some (_, .struct fs) => some fs
  | _ => none

def keysOf : Fields → List Bytes
  | .nil => []
  | .cons n _ r => n :: keysOf r

/-- one registered migration copies every key both versions encode (other than `version`) and sets the version
string under which the new struct is registered -/
def migrationCovers (m : Nat × Nat × List Bytes × Bytes) : Bool :=
  match fieldsAt m.1, fieldsAt m.2.1 with
  | some ffs, some tfs =>
    (keysOf ffs).all (fun k => !(keysOf tfs).contains k || k == kVersion || m.2.2.1.contains k) &&
    Gen.versions.any (fun v => v.2.2 == m.2.1 && v.2.1 == m.2.2.2)
  | _, _ => false

/-- **gen_migrations_cover_common** (re-proved on every regeneration): every registered migration covers its common
keys. Dropping an assignment from `ApplyBaseChanges`, or adding a field to both versions without copying it, makes
this fail. Together with `migrate_preserves_common`: every common field survives every migration. -/
theorem gen_migrations_cover_common : Gen.migrations.all migrationCovers = true ∧ Gen.migrations.length = 4 := by
  decide

/-! ## the regenerated schemas -/

/-- **gen_schemas_classified** (re-proved on every regeneration): ALL 45 stored types' schemas are `good`, so
`decode_encode` applies to every one of them as it is — including the versioned entities `StorageNode`,
`StorageAllocation`, `WriteMarker`, the allocations that nest a `WriteMarker` wrapper, and (since /repo 964b895,
which made `Pool.UnmarshalMsg` restore `Type` and `NodesMap`) `node.Pool`, `block.MagicBlock` and
`minersc.GlobalNode`. A new struct with two fields under one key, a wrapper whose `version` key is not a string, or a
hand-written decoder that does not restore every encoded field makes this fail. -/
theorem gen_schemas_classified :
    Gen.schemas.length = 45 ∧ Gen.schemas.all (fun s => good s.2) = true := by
  decide

/-- instantiation of the generic theorem on the regenerated table -/
theorem all_schemas_roundtrip (name : String) (t : Ty) (v : Val) (_hm : (name, t) ∈ Gen.schemas)
    (hg : good t = true) (hw : wt t v = true) : decode t (enc t v) = some v :=
  decode_encode t v hg hw

/-! ### historical: `node.Pool` before /repo 964b895

Until 964b895 `Pool.UnmarshalMsg` (chaincore/node/node_pool.go) decoded into `poolDecode` and rebuilt `Nodes` but
copied neither `Type` nor `NodesMap` into the receiver; the translator read that as `pstruct []` and the schemas
`node.Pool`, `block.MagicBlock`, `minersc.GlobalNode` were not `good` (finding C08:decode-not-equal:node.Pool, fixed).
The witness is kept on a frozen copy of the schema shape as it was then. -/

/-- the shape of `node.Pool` as the translator read it before the repair: no field restored by the decoder -/
def poolAsFound : Ty := mkPStruct [] [([84, 121, 112, 101], .int), ([78, 111, 100, 101, 115, 77, 97, 112], .map .int)]

def tinyPool : Val := .arr (.cons (.int 1) (.cons (.map .nil) .nil))

/-- a decoder that restores no field loses the value: a sharder pool (`Type = 1`) decodes to `Type = 0` and re-encodes
to different bytes; and such a schema is not `good`. -/
theorem historical_node_pool_decode_loses :
    wt poolAsFound tinyPool = true ∧ good poolAsFound = false ∧
    (decode poolAsFound (enc poolAsFound tinyPool)).map (enc poolAsFound) =
      some (enc poolAsFound (.arr (.cons (.int 0) (.cons (.map .nil) .nil)))) ∧
    enc poolAsFound (.arr (.cons (.int 0) (.cons (.map .nil) .nil))) ≠ enc poolAsFound tinyPool := by
  decide

/-- the regenerated `node.Pool` schema now restores both fields and round-trips -/
theorem gen_node_pool_roundtrips :
    good Gen.node_Pool = true ∧
    (decode Gen.node_Pool (enc Gen.node_Pool tinyPool)).map (enc Gen.node_Pool) = some (enc Gen.node_Pool tinyPool) := by
  decide

/-! ## non-vacuity -/

example : good Gen.storagesc_storageNodeV2 = true := by decide
example : wt Gen.stakepool_DelegatePool
    (.arr (.cons (.uint 5) (.cons (.uint 300) (.cons (.int 1) (.cons (.int (-33)) (.cons (.str [97, 98]) (.cons (.int 70000) .nil))))))) = true := by
  decide
example : enc Gen.stakepool_DelegatePool
    (.arr (.cons (.uint 5) (.cons (.uint 300) (.cons (.int 1) (.cons (.int (-33)) (.cons (.str [97, 98]) (.cons (.int 70000) .nil))))))) =
    [0x86, 0xa7, 0x42, 0x61, 0x6c, 0x61, 0x6e, 0x63, 0x65, 0x05, 0xa6, 0x52, 0x65, 0x77, 0x61, 0x72, 0x64, 0xcd, 0x01, 0x2c,
     0xa6, 0x53, 0x74, 0x61, 0x74, 0x75, 0x73, 0x01, 0xac, 0x52, 0x6f, 0x75, 0x6e, 0x64, 0x43, 0x72, 0x65, 0x61, 0x74, 0x65, 0x64, 0xd0, 0xdf,
     0xaa, 0x44, 0x65, 0x6c, 0x65, 0x67, 0x61, 0x74, 0x65, 0x49, 0x44, 0xa2, 0x61, 0x62, 0xa8, 0x53, 0x74, 0x61, 0x6b, 0x65, 0x64, 0x41, 0x74,
     0xd2, 0x00, 0x01, 0x11, 0x70] := by decide
example : (⟨List.replicate 32 0, 5, 7, -1⟩ : State).txnHash.length = 32 := by decide
-- a version-2 write marker inside the wrapper: the peek finds "v2", the wrapper decodes and re-encodes to the same bytes
def wmV2 : Val := .alt 1 (.arr (.cons (.str [118, 50]) (.cons (.str [1]) (.cons (.str []) (.cons (.str []) (.cons (.str [2])
  (.cons (.int 7) (.cons (.int 9) (.cons (.str [3]) (.cons (.str [4]) (.cons (.int 5) (.cons (.str [6]) (.cons (.str [7]) .nil)))))))))))))
set_option maxRecDepth 8192 in
example : wt Gen.storagesc_WriteMarker wmV2 = true := by decide
set_option maxRecDepth 8192 in
example : peekVersion (enc Gen.storagesc_WriteMarker wmV2) = some [118, 50] := by decide
set_option maxRecDepth 8192 in
example : (decode Gen.storagesc_WriteMarker (enc Gen.storagesc_WriteMarker wmV2)).map (enc Gen.storagesc_WriteMarker) =
    some (enc Gen.storagesc_WriteMarker wmV2) := by decide

end ZChain.Codec
