import ZChain.Model.Faucet
import Mathlib.Tactic.Linarith
/-!
# C17 — Faucet pours respect the per-client and global limits

Statements about `Model/Faucet.lean` (smartcontract/faucetsc/sc.go), tied to the Go code by `harness/cmd/c17`
(the real contract through the real `Chain.UpdateState`).

The FULL statement — inside one reset window a client is never poured more than `periodic_limit`, all clients together
never more than `global_limit` — is **false of the code**: `validPourRequest` checks the limits with `PourAmount`, but
`pour` hands out `t.Value` whenever `0 < t.Value < MaxPourAmount`.
* `periodic_limit_exceeded_witness` — the shipped configuration (pour 1, max 100, periodic 1000 ZCN): eleven pours of
  99 ZCN by one client within 11 seconds all succeed: 1089 ZCN (replayed on the Go code: harness fixed case 1);
* `global_limit_exceeded_witness`.
What IS true (for every operation sequence, `reachable_inv`):
* `pour_overshoot_bounded` — the counters never exceed `limit − pour_amount + max(pour_amount, max_pour_amount − 1)`:
  the overshoot is less than `max_pour_amount − pour_amount`;
* `pour_within_limits_partial` — the limits hold exactly when a request can never be honoured above `PourAmount`
  (`max_pour_amount ≤ pour_amount + 1`);
* `pour_le_faucet_balance` — a successful pour never exceeds the faucet's balance (else the engine rejects the
  whole transaction) and the balance decreases by exactly the amount.
The counters are per-window sums by construction (`globalVars`/`userVars` reset them to 0 exactly when the window has
elapsed); the harness oracle checks the window sums on the implementation directly.
-/
namespace ZChain.Faucet
open ZChain ZChain.Coin

def maxReq (c : Conf) : Nat := Nat.max c.pour (c.maxPour - 1)
def uBound (c : Conf) : Nat := c.periodic - c.pour + maxReq c
def gBound (c : Conf) : Nat := c.global - c.pour + maxReq c

/-- the invariant of every reachable state. -/
def Inv (st : St) : Prop := (∀ p ∈ st.users, p.2.used ≤ uBound st.conf) ∧ st.gUsed ≤ gBound st.conf

theorem pourAmount_le (c : Conf) (v : Nat) : pourAmount c v ≤ maxReq c := by
  unfold pourAmount maxReq
  split
  · rename_i h; exact Nat.le_trans (by omega) (Nat.le_max_right _ _)
  · exact Nat.le_max_left _ _

theorem addCoin_ok {c b s : Nat} (h : addCoin c b = .ok s) : s = c + b := by
  unfold addCoin at h
  split at h
  · injection h with h; exact h.symm
  · cases h

theorem lookup_mem {α} (l : List (Nat × α)) (k : Nat) (v : α) (h : lookup l k = some v) : ∃ k', (k', v) ∈ l := by
  unfold lookup at h
  cases hf : l.find? (fun p => p.1 = k) with
  | none => rw [hf] at h; cases h
  | some p =>
    rw [hf] at h
    injection h with h
    exact ⟨p.1, by rw [← h]; exact List.mem_of_find?_eq_some hf⟩

theorem mem_upsert {α} (l : List (Nat × α)) (k : Nat) (v : α) (p : Nat × α) (h : p ∈ upsert l k v) : p = (k, v) ∨ p ∈ l := by
  induction l with
  | nil => simp [upsert] at h; left; exact h
  | cons a l ih =>
    obtain ⟨k', v'⟩ := a
    unfold upsert at h
    split at h
    · rcases List.mem_cons.mp h with h | h
      · left; exact h
      · right; exact List.mem_cons_of_mem _ h
    · rcases List.mem_cons.mp h with h | h
      · right; rw [h]; exact List.mem_cons_self
      · rcases ih h with h | h
        · left; exact h
        · right; exact List.mem_cons_of_mem _ h

theorem globalVars_le (st : St) (now : Int) : (globalVars st now).1 ≤ st.gUsed := by
  unfold globalVars
  split
  · exact Nat.zero_le _
  · split
    · exact Nat.zero_le _
    · exact Nat.le_refl _

theorem userVars_le (st : St) (c : Nat) (now : Int) (h : ∀ p ∈ st.users, p.2.used ≤ uBound st.conf) :
    (userVars st c now).used ≤ uBound st.conf := by
  unfold userVars
  cases hl : lookup st.users c with
  | none =>
    simp only
    split <;> exact Nat.zero_le _
  | some u =>
    simp only
    obtain ⟨k', hm⟩ := lookup_mem _ _ _ hl
    split
    · exact Nat.zero_le _
    · exact h _ hm

/-- what a successful `pour` did. -/
theorem pour_ok_spec {st st' : St} {c v a : Nat} {now : Int} (h : pour st c v now = .ok st' a) :
    st'.conf = st.conf ∧ a = pourAmount st.conf v ∧
    (∃ bal, st.faucet = some bal ∧ a ≤ bal ∧ st'.faucet = some (bal - a)) ∧
    st.conf.pour + (userVars st c now).used ≤ st.conf.periodic ∧
    st.conf.pour + (globalVars st now).1 ≤ st.conf.global ∧
    st'.gUsed = (globalVars st now).1 + a ∧
    st'.users = upsert st.users c { userVars st c now with used := (userVars st c now).used + a } := by
  unfold pour at h
  simp only at h
  split at h
  · cases h
  · rename_i bal hbal
    split at h
    · cases h
    · split at h
      · cases h
      · rename_i t ht
        split at h
        · cases h
        · rename_i hper
          split at h
          · cases h
          · rename_i tg htg
            split at h
            · cases h
            · rename_i hglob
              split at h
              · cases h
              · rename_i uu huu
                split at h
                · cases h
                · rename_i gg hgg
                  split at h
                  · cases h
                  · rename_i hb
                    injection h with h1 h2
                    subst h1 h2
                    have e1 := addCoin_ok ht
                    have e2 := addCoin_ok htg
                    have e3 := addCoin_ok huu
                    have e4 := addCoin_ok hgg
                    refine ⟨rfl, rfl, ⟨bal, hbal, by omega, rfl⟩, by omega, by omega, by simp only; omega, ?_⟩
                    simp only [e3]

/-- **pour_le_faucet_balance.** -/
theorem pour_le_faucet_balance {st st' : St} {c v a : Nat} {now : Int} (h : pour st c v now = .ok st' a) :
    ∃ bal, st.faucet = some bal ∧ a ≤ bal ∧ st'.faucet = some (bal - a) := (pour_ok_spec h).2.2.1

theorem pour_inv {st st' : St} {c v a : Nat} {now : Int} (hp : st.conf.pour ≤ st.conf.periodic ∧ st.conf.pour ≤ st.conf.global)
    (hi : Inv st) (h : pour st c v now = .ok st' a) : Inv st' := by
  obtain ⟨hc, ha, _, hper, hglob, hg, hu⟩ := pour_ok_spec h
  have hle := pourAmount_le st.conf v
  constructor
  · intro p hp'
    rw [hu] at hp'
    rw [hc]
    rcases mem_upsert _ _ _ _ hp' with rfl | hm
    · show (userVars st c now).used + a ≤ uBound st.conf
      unfold uBound; omega
    · exact hi.1 p hm
  · rw [hg, hc]; unfold gBound; omega

theorem refill_inv {st st' : St} {c v a : Nat} {now : Int} (hi : Inv st) (h : refill st c v now = .ok st' a) : Inv st' := by
  unfold refill at h
  simp only at h
  have hg := globalVars_le st now
  split at h
  · cases h
  · split at h
    · split at h
      · injection h with h1 _; subst h1
        exact ⟨hi.1, Nat.le_trans hg hi.2⟩
      · injection h with h1 _; subst h1
        exact ⟨hi.1, Nat.le_trans hg hi.2⟩
    · cases h

theorem apply_inv (st : St) (c : Nat) (r : Res) (hi : Inv st) (hr : ∀ st' a, r = .ok st' a → Inv st') : Inv (apply st c r) := by
  cases r with
  | ok st' a => exact hr st' a rfl
  | err e => exact hi
  | rejected => exact hi

theorem pour_conf {st st' : St} {c v a : Nat} {now : Int} (h : pour st c v now = .ok st' a) : st'.conf = st.conf := (pour_ok_spec h).1

theorem refill_conf {st st' : St} {c v a : Nat} {now : Int} (h : refill st c v now = .ok st' a) : st'.conf = st.conf := by
  unfold refill at h
  simp only at h
  split at h
  · cases h
  · split at h
    · split at h <;> (injection h with h1 _; subst h1; rfl)
    · cases h

theorem step_conf (st : St) (op : Op) : (step st op).conf = st.conf := by
  cases op with
  | pour c v now =>
    show (apply st c (pour st c v now)).conf = _
    cases h : pour st c v now with
    | ok st' a => show st'.conf = st.conf; exact pour_conf h
    | err e => rfl
    | rejected => rfl
  | refill c v now =>
    show (apply st c (refill st c v now)).conf = _
    cases h : refill st c v now with
    | ok st' a => show st'.conf = st.conf; exact refill_conf h
    | err e => rfl
    | rejected => rfl

theorem step_inv (st : St) (op : Op) (hp : st.conf.pour ≤ st.conf.periodic ∧ st.conf.pour ≤ st.conf.global) (hi : Inv st) :
    Inv (step st op) := by
  cases op with
  | pour c v now => exact apply_inv st c _ hi (fun st' a h => pour_inv hp hi h)
  | refill c v now => exact apply_inv st c _ hi (fun st' a h => refill_inv hi h)

/-- **reachable_inv / pour_overshoot_bounded.** From a fresh faucet, after ANY sequence of pour and refill
transactions (any clients, values, timestamps), every client's window counter is at most
`periodic − pour + max(pour, maxPour − 1)` and the global counter at most `global − pour + max(pour, maxPour − 1)`. -/
theorem pour_overshoot_bounded (conf : Conf) (hv : conf.valid = true) (faucet : Option Nat) (accounts : List (Nat × Nat))
    (ops : List Op) :
    let st := run (init conf faucet accounts) ops
    (∀ p ∈ st.users, p.2.used ≤ conf.periodic - conf.pour + Nat.max conf.pour (conf.maxPour - 1)) ∧
    st.gUsed ≤ conf.global - conf.pour + Nat.max conf.pour (conf.maxPour - 1) := by
  have hvv : conf.pour ≤ conf.periodic ∧ conf.pour ≤ conf.global := by
    unfold Conf.valid at hv
    simp only [Bool.and_eq_true, decide_eq_true_eq] at hv
    omega
  have key : ∀ (st : St), st.conf = conf → Inv st → Inv (run st ops) ∧ (run st ops).conf = conf := by
    induction ops with
    | nil => intro st hc hi; exact ⟨hi, hc⟩
    | cons op ops ih =>
      intro st hc hi
      have h1 := step_inv st op (by rw [hc]; exact hvv) hi
      have h2 := step_conf st op
      exact ih (step st op) (by rw [h2, hc]) h1
  obtain ⟨hi, hc⟩ := key (init conf faucet accounts) rfl ⟨(by intro p hp; cases hp), Nat.zero_le _⟩
  simp only
  unfold Inv uBound gBound maxReq at hi
  rw [hc] at hi
  exact hi

/-- **pour_within_limits_partial.** When no request can be honoured above `PourAmount`
(`max_pour_amount ≤ pour_amount + 1`) the property holds as worded: the counters never exceed the limits. -/
theorem pour_within_limits_partial (conf : Conf) (hv : conf.valid = true) (hm : conf.maxPour ≤ conf.pour + 1)
    (faucet : Option Nat) (accounts : List (Nat × Nat)) (ops : List Op) :
    let st := run (init conf faucet accounts) ops
    (∀ p ∈ st.users, p.2.used ≤ conf.periodic) ∧ st.gUsed ≤ conf.global := by
  have h := pour_overshoot_bounded conf hv faucet accounts ops
  have hvv : conf.pour ≤ conf.periodic ∧ conf.pour ≤ conf.global := by
    unfold Conf.valid at hv
    simp only [Bool.and_eq_true, decide_eq_true_eq] at hv
    omega
  have hmax : Nat.max conf.pour (conf.maxPour - 1) = conf.pour := Nat.max_eq_left (by omega)
  simp only at h ⊢
  rw [hmax] at h
  constructor
  · intro p hp; have := h.1 p hp; omega
  · have := h.2; omega

/-! ## negation witnesses of the full statement -/

/-- the configuration shipped in docker.local/config/sc.yaml (amounts in 10^-10 ZCN, resets 3 h / 48 h). -/
def shipped : Conf := ⟨10000000000, 1000000000000, 10000000000000, 1000000000000000, 10800000000000, 172800000000000⟩

example : shipped.valid = true := by decide

def elevenPours : List Op := (List.range 11).map fun k => Op.pour 1 990000000000 (1700000000 + Int.ofNat k)

/-- **negation witness** (DESIGN §7 #6): eleven pours of 99 ZCN by client 1 within 11 seconds — one 3-hour window —
all succeed; the client has received 1089 ZCN, the periodic limit is 1000 ZCN. -/
theorem periodic_limit_exceeded_witness :
    let st := run (init shipped (some 100000000000000000) []) elevenPours
    lookup st.users 1 = some { start := 1700000000, used := 10890000000000 } ∧
    lookup st.accounts 1 = some 10890000000000 ∧ shipped.periodic < 10890000000000 := by decide +kernel

/-- the global limit likewise: limit 9, three clients receive 2+2+2+2+2 = 10 in one window. -/
theorem global_limit_exceeded_witness :
    let conf : Conf := ⟨1, 3, 5, 9, 1000000000, 2000000000⟩
    conf.valid = true ∧
    (run (init conf (some 100) []) [.pour 0 2 100, .pour 0 2 100, .pour 1 2 100, .pour 1 2 100, .pour 2 2 100]).gUsed = 10 := by
  decide +kernel

/-! ## non-vacuity: the bound of `pour_overshoot_bounded` is attained -/

example : uBound shipped = 10989999999999 := by decide
example :
    let st := run (init shipped (some 100000000000000000) [])
      (((List.range 9).map fun k => Op.pour 1 999999999999 (1700000000 + Int.ofNat k)) ++
        [.pour 1 990000000009 1700000020, .pour 1 999999999999 1700000021, .pour 1 0 1700000022])
    lookup st.users 1 = some { start := 1700000000, used := 10989999999999 } := by decide +kernel

end ZChain.Faucet
