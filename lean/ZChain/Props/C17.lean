import ZChain.Model.Faucet
import Mathlib.Tactic.Linarith
/-!
# C17 — Faucet pours respect the per-client and global limits

Statements about `Model/Faucet.lean` (smartcontract/faucetsc/sc.go), tied to the Go code by `harness/cmd/c17`
(the real contract through the real `Chain.UpdateState`).

Since repair 4b549c9 (`pour` computes the amount first, `validPourRequest` checks balance and both limits against it) the
property holds in full:
* `pour_within_limits` — from a fresh faucet, under ANY configuration (validity is not even needed), after ANY sequence of
  pour and refill transactions (any clients, values, timestamps): every client's window counter `≤ periodic_limit`, the
  global counter `≤ global_limit`;
* `pour_le_faucet_balance` — a successful pour never exceeds the faucet's balance, which decreases by exactly the amount;
* `pour_ok_spec`, `step_inv` — the single step;
* `pour_respects_limits_in_force`, `updateSettings_spec` — with `update-settings` in play (the owner may lower a limit
  below what has already gone out; `Used` is kept): every pour that succeeds leaves `Used ≤` the limits in force at that
  pour, in ANY state; `lowered_limit_blocks_witness` shows the scenario.
The counters are per-window sums by construction (`globalVars`/`userVars` reset them to 0 exactly when the window has
elapsed); the harness oracle checks the window sums on the implementation directly and keeps the signatures
`periodic-limit-exceeded`, `global-limit-exceeded` and their `…-beyond-one-request` forms active.

Historical (before 4b549c9): the limits were checked with `PourAmount` while `t.Value` was poured, so the shipped
configuration let one client take 1089 ZCN in a window of 1000 (`eleven_pours_capped_witness` shows the same input now
stops at the limit); the bounded-overshoot and `_partial` theorems of that version are subsumed by `pour_within_limits`.
-/
namespace ZChain.Faucet
open ZChain ZChain.Coin

/-- the invariant of every reachable state. -/
def Inv (st : St) : Prop := (∀ p ∈ st.users, p.2.used ≤ st.conf.periodic) ∧ st.gUsed ≤ st.conf.global

theorem addCoin_ok {c b s : Nat} (h : addCoin c b = .ok s) : s = c + b := by
  unfold addCoin at h
  split at h
  · injection h with h; exact h.symm
  · cases h

theorem lookup_mem {α} (l : List (Nat × α)) (k : Nat) (v : α) (h : lookup l k = some v) : ∃ k', (k', v) ∈ l := by
  unfold lookup at h
  cases hf : l.find? (fun p => p.1 = k) with
  | none => rw [hf] at h; cases h
  | some p =>
    rw [hf] at h
    injection h with h
    exact ⟨p.1, by rw [← h]; exact List.mem_of_find?_eq_some hf⟩

theorem mem_upsert {α} (l : List (Nat × α)) (k : Nat) (v : α) (p : Nat × α) (h : p ∈ upsert l k v) : p = (k, v) ∨ p ∈ l := by
  induction l with
  | nil => simp [upsert] at h; left; exact h
  | cons a l ih =>
    obtain ⟨k', v'⟩ := a
    unfold upsert at h
    split at h
    · rcases List.mem_cons.mp h with h | h
      · left; exact h
      · right; exact List.mem_cons_of_mem _ h
    · rcases List.mem_cons.mp h with h | h
      · right; rw [h]; exact List.mem_cons_self
      · rcases ih h with h | h
        · left; exact h
        · right; exact List.mem_cons_of_mem _ h

theorem globalVars_le (st : St) (now : Int) : (globalVars st now).1 ≤ st.gUsed := by
  unfold globalVars
  split
  · exact Nat.zero_le _
  · split
    · exact Nat.zero_le _
    · exact Nat.le_refl _

/-- what a successful `pour` did. -/
theorem pour_ok_spec {st st' : St} {c v a : Nat} {now : Int} (h : pour st c v now = .ok st' a) :
    st'.conf = st.conf ∧ a = pourAmount st.conf v ∧
    (∃ bal, st.faucet = some bal ∧ a ≤ bal ∧ st'.faucet = some (bal - a)) ∧
    a + (userVars st c now).used ≤ st.conf.periodic ∧
    a + (globalVars st now).1 ≤ st.conf.global ∧
    st'.gUsed = a + (globalVars st now).1 ∧
    st'.users = upsert st.users c { userVars st c now with used := a + (userVars st c now).used } := by
  unfold pour at h
  simp only at h
  split at h
  · cases h
  · rename_i bal hbal
    split at h
    · cases h
    · rename_i hb
      split at h
      · cases h
      · rename_i t ht
        split at h
        · cases h
        · rename_i hper
          split at h
          · cases h
          · rename_i tg htg
            split at h
            · cases h
            · rename_i hglob
              injection h with h1 h2
              subst h1 h2
              have e1 := addCoin_ok ht
              have e2 := addCoin_ok htg
              refine ⟨rfl, rfl, ⟨bal, hbal, by omega, rfl⟩, by omega, by omega, by simp only; omega, ?_⟩
              simp only [e1]

theorem lookup_upsert {α} (l : List (Nat × α)) (k : Nat) (v : α) : lookup (upsert l k v) k = some v := by
  induction l with
  | nil => simp [upsert, lookup]
  | cons a l ih =>
    obtain ⟨k', v'⟩ := a
    unfold upsert
    split
    · simp [lookup]
    · rename_i hne
      unfold lookup at ih ⊢
      rw [List.find?_cons_of_neg (by simpa using hne)]
      exact ih

/-- **pour_respects_limits_in_force.** Whatever the state — in particular after the owner has LOWERED a limit below
what has already gone out in the running window (`update-settings` keeps `Used`) — a pour that succeeds leaves the
client's window counter `≤` the periodic limit in force at that pour and the global counter `≤` the global limit in
force: while `Used ≥ limit` no further (non-zero) pour can succeed. -/
theorem pour_respects_limits_in_force {st st' : St} {c v a : Nat} {now : Int} (h : pour st c v now = .ok st' a) :
    (∃ u, lookup st'.users c = some u ∧ u.used = a + (userVars st c now).used ∧ u.used ≤ st.conf.periodic) ∧
    st'.gUsed = a + (globalVars st now).1 ∧ st'.gUsed ≤ st.conf.global ∧ st'.conf = st.conf := by
  obtain ⟨hc, _, _, hper, hglob, hg, hu⟩ := pour_ok_spec h
  refine ⟨⟨_, by rw [hu]; exact lookup_upsert _ _ _, rfl, hper⟩, hg, by rw [hg]; exact hglob, hc⟩

/-- `update-settings` changes the configuration only for the owner and only to a valid one, and keeps `Used`. -/
theorem updateSettings_spec {st st' : St} {c a : Nat} {conf' : Conf} {now : Int} (h : updateSettings st c conf' now = .ok st' a) :
    c = ownerId ∧ conf'.valid = true ∧ st'.conf = conf' ∧ st'.users = st.users ∧ st'.gUsed = (globalVars st now).1 ∧
    st'.faucet = st.faucet ∧ a = 0 := by
  unfold updateSettings at h
  simp only at h
  split at h
  · cases h
  · rename_i hc
    split at h
    · rename_i hv
      injection h with h1 h2; subst h1 h2
      exact ⟨by simpa using hc, hv, rfl, rfl, rfl, rfl, rfl⟩
    · cases h

/-- **pour_le_faucet_balance.** -/
theorem pour_le_faucet_balance {st st' : St} {c v a : Nat} {now : Int} (h : pour st c v now = .ok st' a) :
    ∃ bal, st.faucet = some bal ∧ a ≤ bal ∧ st'.faucet = some (bal - a) := (pour_ok_spec h).2.2.1

theorem pour_inv {st st' : St} {c v a : Nat} {now : Int} (hi : Inv st) (h : pour st c v now = .ok st' a) : Inv st' := by
  obtain ⟨hc, _, _, hper, hglob, hg, hu⟩ := pour_ok_spec h
  constructor
  · intro p hp'
    rw [hu] at hp'
    rw [hc]
    rcases mem_upsert _ _ _ _ hp' with rfl | hm
    · exact hper
    · exact hi.1 p hm
  · rw [hg, hc]; exact hglob

theorem refill_inv {st st' : St} {c v a : Nat} {now : Int} (hi : Inv st) (h : refill st c v now = .ok st' a) : Inv st' := by
  unfold refill at h
  simp only at h
  have hg := globalVars_le st now
  split at h
  · cases h
  · split at h
    · split at h
      · injection h with h1 _; subst h1
        exact ⟨hi.1, Nat.le_trans hg hi.2⟩
      · injection h with h1 _; subst h1
        exact ⟨hi.1, Nat.le_trans hg hi.2⟩
    · cases h

theorem apply_inv (st : St) (c : Nat) (r : Res) (hi : Inv st) (hr : ∀ st' a, r = .ok st' a → Inv st') : Inv (apply st c r) := by
  cases r with
  | ok st' a => exact hr st' a rfl
  | err e => exact hi
  | rejected => exact hi

theorem pour_conf {st st' : St} {c v a : Nat} {now : Int} (h : pour st c v now = .ok st' a) : st'.conf = st.conf := (pour_ok_spec h).1

theorem refill_conf {st st' : St} {c v a : Nat} {now : Int} (h : refill st c v now = .ok st' a) : st'.conf = st.conf := by
  unfold refill at h
  simp only at h
  split at h
  · cases h
  · split at h
    · split at h <;> (injection h with h1 _; subst h1; rfl)
    · cases h

theorem step_conf (st : St) (op : Op) : (step st op).conf = st.conf := by
  cases op with
  | pour c v now =>
    show (apply st c (pour st c v now)).conf = _
    cases h : pour st c v now with
    | ok st' a => show st'.conf = st.conf; exact pour_conf h
    | err e => rfl
    | rejected => rfl
  | refill c v now =>
    show (apply st c (refill st c v now)).conf = _
    cases h : refill st c v now with
    | ok st' a => show st'.conf = st.conf; exact refill_conf h
    | err e => rfl
    | rejected => rfl

theorem step_inv (st : St) (op : Op) (hi : Inv st) :
    Inv (step st op) := by
  cases op with
  | pour c v now => exact apply_inv st c _ hi (fun st' a h => pour_inv hi h)
  | refill c v now => exact apply_inv st c _ hi (fun st' a h => refill_inv hi h)

/-- **pour_within_limits** (the property, in full). From a fresh faucet, under any configuration, after ANY sequence of
pour and refill transactions (any clients, requested values, timestamps — also going backwards): every client's window
counter is at most the periodic limit and the global window counter at most the global limit. -/
theorem pour_within_limits (conf : Conf) (faucet : Option Nat) (accounts : List (Nat × Nat)) (ops : List Op) :
    let st := run (init conf faucet accounts) ops
    (∀ p ∈ st.users, p.2.used ≤ conf.periodic) ∧ st.gUsed ≤ conf.global := by
  have key : ∀ (st : St), st.conf = conf → Inv st → Inv (run st ops) ∧ (run st ops).conf = conf := by
    induction ops with
    | nil => intro st hc hi; exact ⟨hi, hc⟩
    | cons op ops ih =>
      intro st hc hi
      have h1 := step_inv st op hi
      have h2 := step_conf st op
      exact ih (step st op) (by rw [h2, hc]) h1
  obtain ⟨hi, hc⟩ := key (init conf faucet accounts) rfl ⟨(by intro p hp; cases hp), Nat.zero_le _⟩
  simp only
  unfold Inv at hi
  rw [hc] at hi
  exact hi

/-! ## the repaired case (historical negation witness) and non-vacuity -/

/-- the configuration shipped in docker.local/config/sc.yaml (amounts in 10^-10 ZCN, resets 3 h / 48 h). -/
def shipped : Conf := ⟨10000000000, 1000000000000, 10000000000000, 1000000000000000, 10800000000000, 172800000000000⟩

example : shipped.valid = true := by decide

def elevenPours : List Op := (List.range 11).map fun k => Op.pour 1 990000000000 (1700000000 + Int.ofNat k)

/-- DESIGN §7 #6, repaired: eleven pours of 99 ZCN by client 1 within 11 seconds. Before 4b549c9 all eleven succeeded
(1089 ZCN against a periodic limit of 1000); now the first ten succeed (990 ZCN) and the eleventh is refused. -/
theorem eleven_pours_capped_witness :
    let st := run (init shipped (some 100000000000000000) []) elevenPours
    lookup st.users 1 = some { start := 1700000000, used := 9900000000000 } ∧
    lookup st.accounts 1 = some 9900000000000 ∧
    pour st 1 990000000000 1700000011 = .err .periodicLimit ∧
    (match pour st 1 100000000000 1700000011 with
      | .ok _ a => a == 100000000000
      | _ => false) = true := by decide +kernel

/-- the owner lowers the periodic and global limits to 100 ZCN after client 1 has received 990 ZCN: the window keeps
`Used = 990 ZCN`; every further pour in that window — by that client and, for the global limit, by any other — is refused;
after the individual window has elapsed client 1 can pour again (the global window still blocks until it elapses). -/
theorem lowered_limit_blocks_witness :
    let st := run (init shipped (some 100000000000000000) []) (elevenPours.take 10)
    let low : Conf := ⟨10000000000, 1000000000000, 1000000000000, 1000000000000, 10800000000000, 172800000000000⟩
    (match updateSettings st 7 low 1700000100 with
     | .ok st' _ =>
        st'.gUsed == 9900000000000 && lookup st'.users 1 == some { start := 1700000000, used := 9900000000000 } &&
        pour st' 1 1 1700000101 == .err .periodicLimit && pour st' 2 1 1700000101 == .err .globalLimit &&
        pour st' 1 1 (1700000000 + 10800) == .err .globalLimit &&
        (match pour st' 2 5 (1700000000 + 172800) with | .ok _ a => a == 5 | _ => false)
     | _ => false) = true ∧
    updateSettings st 3 low 1700000100 = .err .notOwner := by decide +kernel

/-- the limits are attainable exactly (the theorem is tight): 10 × 99 + 10 = 1000 ZCN. -/
example :
    let st := run (init shipped (some 100000000000000000) []) (elevenPours.take 10 ++ [.pour 1 100000000000 1700000020, .pour 1 1 1700000021])
    lookup st.users 1 = some { start := 1700000000, used := 10000000000000 } := by decide +kernel

/-- the global limit likewise: limit 9, pours of 2: the fifth is refused. -/
example :
    let conf : Conf := ⟨1, 3, 5, 9, 1000000000, 2000000000⟩
    (run (init conf (some 100) []) [.pour 0 2 100, .pour 0 2 100, .pour 1 2 100, .pour 1 2 100, .pour 2 2 100, .pour 2 1 100]).gUsed = 9 := by
  decide +kernel

end ZChain.Faucet
