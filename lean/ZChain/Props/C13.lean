import ZChain.Proofs.StorageC13
/-!
# C13 — Blobber capacity and offers track the open allocations

Over `Model/Storage.lean`: `InvAlloc` (every registered blobber's `Allocated` = Σ of its blobber-allocation sizes over
the open allocations) and `InvOffers` (every blobber stake pool's `TotalOffers` = Σ of its `Offer()`s), together with
`WF` (slots ≥ `nallocs` empty) as `Inv13`.

The full statement `∀ op, Inv13 s → stepRel s op s' → Inv13 s'` is FALSE of the code and of the model. Proved:

* `tracks_partial` — every operation preserves both equalities EXCEPT (`excluded13`):
  (a) replacing a killed / shut-down blobber (models.go 1251-1255: no `reduceOffer`, no `Allocated -= size`),
  (b) `kill_blobber` / `shutdown_blobber` on an already dead blobber (kill.go 58-67 / shutdown.go 56-65: `TotalOffers = 0`),
  (c) extending an allocation whose blobber allocations do not all have the first one's size (allocation.go 906, 966:
      every `Size` is set to `BlobberAllocs[0].Size + diff` while each blobber's `Allocated` grows by `diff`),
  (d) a kill/shutdown that deletes the blobber's nodes (no stake pools, no data) — excluded wholesale;
  `tracks_reachable_partial` lifts it to histories;
* `assign_within_capacity` — wherever the model assigns or grows a blobber allocation, `Allocated ≤ Capacity` after it;
* `close_can_release` — under `Inv13` every `reduceOffer` of a close succeeds (`offersReleasable`);
* negation witnesses, each replayed on the real code by a fixed case of `harness/cmd/storage` and recorded as a
  known finding: `replace_killed_breaks_alloc/offers` (a), `rekill_breaks_offers` + `rekill_blocks_close` (b),
  `extend_nonuniform_breaks_alloc` (c); `tracks_false` is the negation of the full statement.
-/
namespace ZChain.Storage

attribute [local irreducible] offer

/-- the operations outside the partial theorem -/
def excluded13 (s : State) : Op → Prop
  | .update k c value size ext add rem rw cc dp _ =>
      (match add, rem with
       | some _, some ri => isDead s ri = true
       | _, _ => False) ∨
      (∃ s2 a, preExtend s k c value size ext add rem rw cc dp = .ok (s2, true) ∧ s2.allocs k = some a ∧ ¬ Uniform a.bas)
  | .killBlobber i _ del => isDead s i = true ∨ del = true
  | .shutBlobber i _ del => isDead s i = true ∨ del = true
  | _ => False

theorem updLock_blobbers {s s' : State} {k j v : Nat} (h : updLock s k j v = .ok s') : s'.blobbers = s.blobbers := by
  unfold updLock at h
  ok_branches h; subst_pay; rfl

theorem updBlobbers_inv13 {s s' : State} {k : Nat} {add rem : Option Nat} {rw cc dp : Nat}
    (h : updBlobbers s k add rem rw cc dp = .ok s')
    (hn : ∀ ri, rem = some ri → add ≠ none → isDead s ri = false) (hi : Inv13 s) : Inv13 s' := by
  unfold updBlobbers at h
  split at h
  · cases h; exact hi
  · cases h
  · exact updAdd_inv13 h hi
  · rename_i ai ri
    have := hn ri rfl (by simp)
    rw [this] at h
    simp only [Bool.false_eq_true, if_false] at h
    exact updReplaceAlive_inv13 h hi

theorem update_inv13_partial {s s' : State} {k : Nat} {c : Caller} {value size : Nat} {ext : Bool}
    {add rem : Option Nat} {rw cc dp : Nat} {ds : List Int}
    (h : update s k c value size ext add rem rw cc dp ds = .ok s')
    (hn : ¬ excluded13 s (.update k c value size ext add rem rw cc dp ds)) (hi : Inv13 s) : Inv13 s' := by
  have hn1 : ∀ ri, rem = some ri → add ≠ none → isDead s ri = false := by
    intro ri hr ha
    cases hd : isDead s ri with
    | false => rfl
    | true =>
      exfalso; apply hn; left
      subst hr
      cases add with
      | none => exact absurd rfl ha
      | some ai => exact hd
  have hn2 : ∀ s2 a, preExtend s k c value size ext add rem rw cc dp = .ok (s2, true) → s2.allocs k = some a → Uniform a.bas := by
    intro s2 a hp ha
    apply Classical.byContradiction
    intro hnu
    exact hn (Or.inr ⟨s2, a, hp, ha, hnu⟩)
  -- Inv13 of the pre-extend state
  have hpre : ∀ s2 b, preExtend s k c value size ext add rem rw cc dp = .ok (s2, b) → Inv13 s2 := by
    intro s2 b hp
    unfold preExtend at hp
    split at hp
    · cases hp
    · split at hp
      · split at hp
        · cases hp
        · dsimp only at hp
          split at hp
          · split at hp
            · cases hp
            · split at hp
              · cases hp
              · rename_i s1 h1; cases hp; exact updLock_inv13 h1 hi
          · split at hp
            · cases hp
            · rename_i s1 h1
              split at hp
              · cases hp
              · rename_i s2' h2
                cases hp
                refine updBlobbers_inv13 h2 ?_ (updLock_inv13 h1 hi)
                intro ri hr ha
                have := hn1 ri hr ha
                unfold isDead at this ⊢
                rw [updLock_blobbers h1]; exact this
      · cases hp
  rw [update_eq] at h
  split at h
  · cases h
  · rename_i s2 hp
    exact updExtend_inv13 h (hpre s2 true hp) (fun a ha => hn2 s2 a hp ha)
  · rename_i s2 hp
    cases h; exact hpre _ false hp

/-- **C13, allocated sizes and offers, all operations outside `excluded13`.** -/
theorem tracks_partial {s s' : State} {op : Op} (hi : Inv13 s) (h : stepRel s op s') (hn : ¬ excluded13 s op) :
    Inv13 s' := by
  unfold stepRel at h
  cases op with
  | addBlobber i c p => exact addBlobber_inv13 h hi
  | addValidator i => exact inv13_frame (addValidator_frame13 h) hi
  | stake v i j amt => exact inv13_frame (stake_frame13 h) hi
  | unstake v i j amt rew => exact inv13_frame (unstake_frame13 h) hi
  | collect v i j rew => exact inv13_frame (collect_frame13 h) hi
  | updBlobber i c p => exact inv13_frame (updBlobber_frame13 h) hi
  | killBlobber i n d =>
    simp only [excluded13, not_or] at hn
    cases d with
    | true => exact absurd rfl hn.2
    | false => exact inv13_frame (killBlobber_frame13 h (by simpa using hn.1)) hi
  | shutBlobber i n d =>
    simp only [excluded13, not_or] at hn
    cases d with
    | true => exact absurd rfl hn.2
    | false => exact inv13_frame (shutBlobber_frame13 h (by simpa using hn.1)) hi
  | killValidator i n d => exact inv13_frame (killValidator_frame13 h) hi
  | newAlloc j data size value chosen => exact newAlloc_inv13 h hi
  | update k c value size ext add rem rw cc dp ds => exact update_inv13_partial h hn hi
  | commit k i size move => exact commit_inv13 h hi
  | respPass k i D m V dp cr => exact respPass_inv13 h hi
  | close fin k c X per rates => exact close_inv13 h hi
  | wpLock k j v => exact wpLock_inv13 h hi
  | rpLock j v => exact inv13_frame (rpLock_frame13 h) hi
  | rpUnlock j v => exact inv13_frame (rpUnlock_frame13 h) hi
  | readRedeem k i j p => exact inv13_frame (readRedeem_frame13 h) hi
  | tick dt => simp only [step] at h; cases h; exact inv13_frame ⟨rfl, rfl, fun _ => rfl, fun _ => rfl⟩ hi
  | noop => simp only [step] at h; cases h; exact hi

inductive Reachable13 : State → Prop
  | init : Reachable13 init
  | step {s s' : State} {op : Op} : Reachable13 s → stepRel s op s' → ¬ excluded13 s op → Reachable13 s'

theorem inv13_init : Inv13 init := by
  refine ⟨fun k _ => rfl, ⟨fun i b h => by simp [init] at h, fun i _ => ?_⟩, ⟨fun i sp h => by simp [init] at h, fun i _ => ?_⟩⟩ <;>
    simp [total, totalF, init, sumTo]

/-- **C13 over histories** (without the excluded operations): `allocated_eq_sum` and `offers_eq_sum`. -/
theorem tracks_reachable_partial {s : State} (h : Reachable13 s) : Inv13 s := by
  induction h with
  | init => exact inv13_init
  | step _ hs hn ih => exact tracks_partial ih hs hn

theorem allocated_eq_sum_partial {s : State} (h : Reachable13 s) {i : Nat} {b : Blobber} (hb : s.blobbers i = some b) :
    b.allocated = (total BA.size s i : Int) := (tracks_reachable_partial h).2.1.1 i b hb

theorem offers_eq_sum_partial {s : State} (h : Reachable13 s) {i : Nat} {sp : SP} (hsp : s.sps i = some sp) :
    sp.offers = total BA.offer s i := (tracks_reachable_partial h).2.2.1 i sp hsp

end ZChain.Storage

namespace ZChain.Storage
attribute [local irreducible] offer

/-! ## capacity at assignment -/

/-- **assign_within_capacity**, new allocation: every blobber of a created allocation fits its capacity afterwards
(`isActive`: `Capacity - Allocated < bSize` rejects). -/
theorem assign_within_capacity {bs : Nat} {s s' : State} {i : Nat} {ba : BA} (h : assign bs s i = .ok (s', ba)) :
    ∃ b', s'.blobbers i = some b' ∧ b'.allocated ≤ (b'.cap : Int) ∧ b'.dead = false := by
  obtain ⟨_, _, _, _, ⟨b, _, _, hc, hd, hb'⟩, _⟩ := assign_effect h
  exact ⟨{ b with allocated := b.allocated + bs }, by rw [hb', Map.set_same], hc, hd⟩

/-- … a blobber added by an update (`changeBlobbers`) -/
theorem assign_within_capacity_add {s s' : State} {k ai : Nat} (h : updAdd s k ai = .ok s') :
    ∃ b', s'.blobbers ai = some b' ∧ b'.allocated ≤ (b'.cap : Int) := by
  unfold updAdd at h
  split at h
  · ok_branches h
    exact ⟨_, Map.set_same _ _ _, by simp only; omega⟩
  · cases h

/-- … a blobber that replaces another one (live or killed branch) -/
theorem assign_within_capacity_replace {s s' : State} {k ai ri rw cc dp : Nat}
    (h : updReplaceAlive s k ai ri rw cc dp = .ok s' ∨ updReplaceKilled s k ai ri = .ok s') :
    ∃ b', s'.blobbers ai = some b' ∧ b'.allocated ≤ (b'.cap : Int) := by
  rcases h with h | h
  · unfold updReplaceAlive at h
    split at h
    · split at h
      · cases h
      · ok_branches h
        exact ⟨_, Map.set_same _ _ _, by simp only; omega⟩
    · cases h
  · unfold updReplaceKilled at h
    split at h
    · split at h
      · cases h
      · ok_branches h
        exact ⟨_, Map.set_same _ _ _, by simp only; omega⟩
    · cases h

/-- … every blobber of an allocation whose size grows (`extendAllocation`: `Capacity - Allocated - diff < 0` rejects) -/
theorem assign_within_capacity_extend {s s' : State} {diff ns : Nat} {d d' : BA}
    (h : extendOne s true diff ns d = .ok (s', d')) :
    ∃ b', s'.blobbers d.blobber = some b' ∧ b'.allocated ≤ (b'.cap : Int) ∧ b'.dead = false := by
  obtain ⟨_, _, _, _, b, sp, hb, _, hb', _, _, hg⟩ := extendOne_effect h
  have := hg rfl
  exact ⟨{ b with allocated := b.allocated + diff }, by rw [hb', Map.set_same]; rfl, this.1, this.2⟩

/-! ## closing can release the offers -/

theorem offersReleasable_of {s : State} {a : Alloc} {k : Nat} (h : Inv13 s) (ha : s.allocs k = some a)
    (hsp : ∀ d, d ∈ a.bas → (s.sps d.blobber).isSome) :
    ∀ l : List BA, (∀ d, d ∈ l → d ∈ a.bas) → offersReleasable s l = true := by
  intro l
  induction l with
  | nil => intro _; rfl
  | cons d ds ih =>
    intro hl
    have hd := hl d (List.mem_cons_self ..)
    simp only [offersReleasable, Bool.and_eq_true]
    refine ⟨?_, ih (fun x hx => hl x (List.mem_cons_of_mem _ hx))⟩
    cases hs : s.sps d.blobber with
    | none => have := hsp d hd; rw [hs] at this; cases this
    | some sp =>
      simp only [decide_eq_true_eq]
      have h1 := h.2.2.1 d.blobber sp hs
      have h2 := mem_le_baSum (m := BA.offer) hd
      have h3 := allocSum_le_total (m := BA.offer) (i := d.blobber) h.1 ha
      omega

/-- **close_can_release**: while both equalities hold, the `reduceOffer` of every blobber allocation of an open
allocation succeeds — a close never fails with an offer underflow. -/
theorem close_can_release {s : State} {a : Alloc} {k : Nat} (h : Inv13 s) (ha : s.allocs k = some a)
    (hsp : ∀ d, d ∈ a.bas → (s.sps d.blobber).isSome) : offersReleasable s a.bas = true :=
  offersReleasable_of h ha hsp a.bas (fun _ hd => hd)

/-! ## decidable sufficient condition for "not excluded", and scripted reachable states -/

def uniformB : List BA → Bool
  | [] => true
  | d0 :: ds => (d0 :: ds).all (fun d => d.size == d0.size)

theorem uniformB_sound {l : List BA} (h : uniformB l = true) : Uniform l := by
  intro d0 ds hl d hd
  subst hl
  simp only [uniformB, List.all_eq_true, beq_iff_eq] at h
  exact h d hd

def safe13 (s : State) : Op → Bool
  | .update k c value size ext add rem rw cc dp _ =>
      (match add, rem with
       | some _, some ri => !isDead s ri
       | _, _ => true) &&
      (match preExtend s k c value size ext add rem rw cc dp with
       | .ok (s2, true) => (match s2.allocs k with
          | some a => uniformB a.bas
          | none => true)
       | _ => true)
  | .killBlobber i _ del => !isDead s i && !del
  | .shutBlobber i _ del => !isDead s i && !del
  | _ => true

theorem safe13_sound {s : State} {op : Op} (h : safe13 s op = true) : ¬ excluded13 s op := by
  cases op with
  | update k c value size ext add rem rw cc dp ds =>
    simp only [safe13, Bool.and_eq_true] at h
    intro hex
    rcases hex with hex | ⟨s2, a, hp, ha, hnu⟩
    · cases add with
      | none => exact hex
      | some ai =>
        cases rem with
        | none => exact hex
        | some ri => simp only at hex; simp [hex] at h
    · have h2 := h.2
      rw [hp] at h2
      simp only [ha] at h2
      exact hnu (uniformB_sound h2)
  | killBlobber i n d =>
    simp only [safe13, Bool.and_eq_true, Bool.not_eq_true'] at h
    intro hex; rcases hex with hex | hex
    · rw [hex] at h; exact absurd h.1 (by decide)
    · rw [hex] at h; exact absurd h.2 (by decide)
  | shutBlobber i n d =>
    simp only [safe13, Bool.and_eq_true, Bool.not_eq_true'] at h
    intro hex; rcases hex with hex | hex
    · rw [hex] at h; exact absurd h.1 (by decide)
    · rw [hex] at h; exact absurd h.2 (by decide)
  | _ => intro hex; exact hex

/-- run a script: every operation must be admissible and safe -/
def runSafe : State → List Op → Option State
  | s, [] => some s
  | s, op :: ops =>
    if safe13 s op then
      match step s op with
      | .ok s1 => runSafe s1 ops
      | .error _ => none
    else none

theorem runSafe_reachable {ops : List Op} : ∀ {s s' : State}, Reachable13 s → runSafe s ops = some s' → Reachable13 s' := by
  induction ops with
  | nil => intro s s' hr h; simp only [runSafe] at h; cases h; exact hr
  | cons op ops ih =>
    intro s s' hr h
    simp only [runSafe] at h
    split at h
    · rename_i hs
      split at h
      · rename_i s1 h1
        exact ih (Reachable13.step hr h1 (safe13_sound hs)) h
      · cases h
    · cases h

end ZChain.Storage

namespace ZChain.Storage

/-! ## negation witnesses (each replayed on the real code by a fixed case of harness/cmd/storage) -/

theorem not_invAlloc_of {s : State} {i : Nat} {x : Int} {t : Nat} (h1 : (s.blobbers i).map (·.allocated) = some x)
    (h2 : total BA.size s i = t) (hne : x ≠ (t : Int)) : ¬ InvAlloc s := by
  intro h
  cases hb : s.blobbers i with
  | none => rw [hb] at h1; cases h1
  | some b =>
    rw [hb] at h1
    simp only [Option.map_some, Option.some.injEq] at h1
    have := h.1 i b hb
    rw [h2] at this
    omega

theorem not_invOffers_of {s : State} {i x t : Nat} (h1 : (s.sps i).map (·.offers) = some x)
    (h2 : total BA.offer s i = t) (hne : x ≠ t) : ¬ InvOffers s := by
  intro h
  cases hb : s.sps i with
  | none => rw [hb] at h1; cases h1
  | some sp =>
    rw [hb] at h1
    simp only [Option.map_some, Option.some.injEq] at h1
    have := h.1 i sp hb
    omega

def GBs : Nat := 1073741824

/-- four blobbers; allocation 0 of client 3 (1 GiB per blobber, price 10 ⇒ offer 10 each) on blobbers 0 and 1; an
upload to blobber 1; blobber 1 killed. -/
def script1 : List Op :=
  [.addBlobber 0 1000000000000 10, .addBlobber 1 1000000000000 10, .addBlobber 2 1000000000000 10, .addBlobber 3 1000000000000 10,
   .newAlloc 3 1 GBs 1000 [0, 1], .commit 0 1 100 50, .killBlobber 1 0 false]

def W1 : State := (runSafe init script1).getD init

theorem W1_run : runSafe init script1 = some W1 := by
  have h : (runSafe init script1).isSome = true := by decide +kernel
  unfold W1
  cases hr : runSafe init script1 with
  | none => rw [hr] at h; cases h
  | some s => rfl

/-- non-vacuity: a reachable state with an open, partly used allocation and a killed blobber; both equalities hold -/
theorem W1_reachable : Reachable13 W1 := runSafe_reachable Reachable13.init W1_run
theorem W1_inv : Inv13 W1 := tracks_reachable_partial W1_reachable
example : (W1.blobbers 1).map (·.allocated) = some (GBs : Int) ∧ (W1.sps 1).map (·.offers) = some 10 ∧ W1.nallocs = 1 := by
  decide +kernel

/-- (a) replace the killed blobber 1 by blobber 2 -/
def opReplaceKilled : Op := .update 0 (.client 3) 0 0 false (some 2) (some 1) 0 0 0 []

theorem replace_killed_breaks : stepRel W1 opReplaceKilled (after W1 opReplaceKilled) ∧
    ¬ InvAlloc (after W1 opReplaceKilled) ∧ ¬ InvOffers (after W1 opReplaceKilled) := by
  refine ⟨stepRel_after (by decide +kernel), ?_, ?_⟩
  · exact not_invAlloc_of (i := 1) (x := (GBs : Int)) (t := 0) (by decide +kernel) (by decide +kernel) (by decide)
  · exact not_invOffers_of (i := 1) (x := 10) (t := 0) (by decide +kernel) (by decide +kernel) (by decide)

/-- (b) a second kill of blobber 1: its total offers become 0 while allocation 0 still holds its offer of 10 -/
def opRekill : Op := .killBlobber 1 0 false

theorem rekill_breaks_offers : stepRel W1 opRekill (after W1 opRekill) ∧ ¬ InvOffers (after W1 opRekill) := by
  refine ⟨stepRel_after (by decide +kernel), ?_⟩
  exact not_invOffers_of (i := 1) (x := 0) (t := 10) (by decide +kernel) (by decide +kernel) (by decide)

/-- … after which the owner's cancel (and any finalize) is rejected with the offer underflow: `close_can_release`
fails without `InvOffers`. -/
theorem rekill_blocks_close :
    step (after W1 opRekill) (.close false 0 (.client 3) 0 [(0, 0), (0, 0)] [(1, 1, 0), (1, 1, 0)]) = .error (.fail "offer-underflow") ∧
    step { after W1 opRekill with now := init.now + TU + 1 } (.close true 0 (.client 3) 0 [(0, 0), (0, 0)] [(1, 1, 0), (1, 1, 0)]) = .error (.fail "offer-underflow") := by
  have h1 : (match step (after W1 opRekill) (.close false 0 (.client 3) 0 [(0, 0), (0, 0)] [(1, 1, 0), (1, 1, 0)]) with
      | .error (.fail r) => r == "offer-underflow" | _ => false) = true := by decide +kernel
  have h2 : (match step { after W1 opRekill with now := init.now + TU + 1 } (.close true 0 (.client 3) 0 [(0, 0), (0, 0)] [(1, 1, 0), (1, 1, 0)]) with
      | .error (.fail r) => r == "offer-underflow" | _ => false) = true := by decide +kernel
  constructor
  · revert h1
    cases step (after W1 opRekill) (.close false 0 (.client 3) 0 [(0, 0), (0, 0)] [(1, 1, 0), (1, 1, 0)]) with
    | ok s => intro h; cases h
    | error e => cases e with
      | fail r => intro h; simp only [beq_iff_eq] at h; rw [h]
      | inadm w => intro h; cases h
  · revert h2
    cases step { after W1 opRekill with now := init.now + TU + 1 } (.close true 0 (.client 3) 0 [(0, 0), (0, 0)] [(1, 1, 0), (1, 1, 0)]) with
    | ok s => intro h; cases h
    | error e => cases e with
      | fail r => intro h; simp only [beq_iff_eq] at h; rw [h]
      | inadm w => intro h; cases h

/-- (c) allocation of 1048577 bytes over 2 data shards (524289 per blobber) on blobbers 0,1,2; extended by 1 byte
(524290 each); blobber 3 added (gets ⌈1048578/2⌉ = 524289). -/
def script2 : List Op :=
  [.addBlobber 0 1000000000000 10, .addBlobber 1 1000000000000 10, .addBlobber 2 1000000000000 10, .addBlobber 3 1000000000000 10,
   .newAlloc 3 2 1048577 1000 [0, 1, 2],
   .update 0 (.client 3) 0 1 true none none 0 0 0 [0, 0, 0],
   .update 0 (.client 3) 0 0 false (some 3) none 0 0 0 []]

def W2 : State := (runSafe init script2).getD init

theorem W2_run : runSafe init script2 = some W2 := by
  have h : (runSafe init script2).isSome = true := by decide +kernel
  unfold W2
  cases hr : runSafe init script2 with
  | none => rw [hr] at h; cases h
  | some s => rfl

theorem W2_inv : Inv13 W2 := tracks_reachable_partial (runSafe_reachable Reachable13.init W2_run)

/-- extend (no size change): every blobber allocation's size becomes the first one's (524290); blobber 3 keeps
`Allocated` = 524289 -/
def opExtend : Op := .update 0 (.client 3) 0 0 true none none 0 0 0 [0, 0, 0, 0]

theorem extend_nonuniform_breaks_alloc : stepRel W2 opExtend (after W2 opExtend) ∧ ¬ InvAlloc (after W2 opExtend) := by
  refine ⟨stepRel_after (by decide +kernel), ?_⟩
  exact not_invAlloc_of (i := 3) (x := 524289) (t := 524290) (by decide +kernel) (by decide +kernel) (by decide)

/-- **The full C13 statement is false.** -/
theorem tracks_false : ¬ (∀ (s s' : State) (op : Op), Inv13 s → stepRel s op s' → Inv13 s') := by
  intro hall
  have := hall _ _ _ W1_inv rekill_breaks_offers.1
  exact rekill_breaks_offers.2 this.2.2

/-- each witness operation is one of the excluded ones -/
theorem witnesses_excluded : excluded13 W1 opReplaceKilled ∧ excluded13 W1 opRekill ∧ excluded13 W2 opExtend := by
  refine ⟨Or.inl (by decide +kernel), Or.inl (by decide +kernel), ?_⟩
  apply Classical.byContradiction
  intro hne
  exact extend_nonuniform_breaks_alloc.2 (tracks_partial W2_inv extend_nonuniform_breaks_alloc.1 hne).2.1

end ZChain.Storage
