import ZChain.Proofs.Events
import ZChain.Generated.C20
/-!
# C20 — The query database records every finalized bridge and pool event

Statements about `Model/Events.lean` (tied to `smartcontract/dbs/event` by `harness/cmd/c20` on every run) and about the
merger table `Generated/C20.lean` (regenerated from `process.go`, `merger.go`, the `merge…()` constructors, the
`addStat` cases and the zcnsc emit sites by `harness/cmd/xc20` on every run).

**Full-strength statement** (`NoAdditiveEventLost`): for every tag whose handler writes one row, or adds one amount, per
emitted event (burn ticket, authorizer burn, bridge mint, stake-pool penalty), the multiset of payloads that reaches the
handler equals the multiset emitted, in every block; and the handler's rows are those payloads. It is **false** of the
code as found: `gen_no_additive_event_lost_false` (from the regenerated table), with the general reason
`overwrite_loses` (any two events of one index under `withUniqueEventOverwrite`) and the handler part
`burn_ticket_rows_first_only`. What does hold:

* `no_additive_event_lost_partial` — at most one event per index per block ⇒ nothing is lost (any table);
* `append_delivers_all`, `summed_total_preserved` — tags with no middleware, and tags merged by `a.F += b.F`, lose
  nothing in any block (the latter: per-field totals mod 2^64, the payloads themselves are aggregated by design);
* `gen_additive_lossless_or_known` — on the regenerated table, every additive tag is lossless except the four listed.
-/
namespace ZChain.Events

/-- the middlewares of the merger that owns `tag` (`none`: no merger, the events pass through `others`). -/
def kindOf (t : Table) (tag : Nat) : Option (List Middleware) :=
  (t.mergers.find? (fun m => m.tag = tag)).map (·.mws)

/-- the routed events of one tag: what the tag's merger collects. -/
def eventsOf (t : Table) (evs : List Event) (tag : Nat) : List Event :=
  evs.filter (fun e => routed t e && e.tag = tag)

/-- what the contracts emit for a struct-typed merger: Data is `T` or `*T`, i.e. exactly one payload. -/
def Single (e : Event) : Prop := (e.dk = .val ∨ e.dk = .ptr) ∧ e.items.length = 1

instance (e : Event) : Decidable (Single e) := by unfold Single; infer_instance

theorem emitted_eq (t : Table) (evs : List Event) (tag : Nat) :
    emitted t evs tag = (eventsOf t evs tag).flatMap (·.items) := rfl

/-- `delivered` is the output of the tag's merger on `eventsOf`. -/
theorem delivered_spec (t : Table) (evs : List Event) (tag : Nat) (r : Result) (mws : List Middleware)
    (hk : kindOf t tag = some mws) (h : mergeEvents t evs = .ok r) :
    ∃ o, mergeOne ⟨tag, mws⟩ (eventsOf t evs tag) = .ok o ∧
      delivered r tag = (match o with | none => [] | some x => x.items) := by
  unfold mergeEvents at h
  split at h
  · simp at h
  · rename_i ms hms
    simp only [Except.ok.injEq] at h
    subst h
    unfold kindOf at hk
    cases hf : t.mergers.find? (fun m => m.tag = tag) with
    | none => simp [hf] at hk
    | some m =>
      simp only [hf, Option.map_some, Option.some.injEq] at hk
      have htag : m.tag = tag := by simpa using List.find?_some hf
      obtain ⟨o, h1, h2⟩ := mergeAll_delivered t evs t.mergers [] tag ms m (by simp) hf hms
      have : m = ⟨tag, mws⟩ := by cases m; simp_all
      subst this
      exact ⟨o, h1, h2⟩

/-! ## what holds -/

/-- **append_delivers_all**: a tag whose merger has no middleware delivers exactly the emitted payloads, in order. -/
theorem append_delivers_all (t : Table) (evs : List Event) (tag : Nat) (r : Result)
    (hk : kindOf t tag = some []) (h : mergeEvents t evs = .ok r) :
    delivered r tag = emitted t evs tag := by
  obtain ⟨o, h1, h2⟩ := delivered_spec t evs tag r [] hk h
  rw [h2, emitted_eq]
  unfold mergeOne at h1
  split at h1
  · rename_i hnil
    simp only [Except.ok.injEq] at h1
    subst h1
    simp [hnil]
  · simp only [applyMiddlewares] at h1
    split at h1
    · simp at h1
    · rename_i its hits
      simp only [Except.ok.injEq] at h1
      subst h1
      exact flatten_ok _ _ hits

/-- **no_additive_event_lost_partial**: under `withUniqueEventOverwrite`, a block with at most one event per index for
the tag delivers exactly the emitted payloads (the model's order; the real order is a permutation of it). -/
theorem no_additive_event_lost_partial (t : Table) (evs : List Event) (tag : Nat) (r : Result)
    (hk : kindOf t tag = some [.overwrite])
    (hidx : ((eventsOf t evs tag).map (·.index)).Nodup)
    (h : mergeEvents t evs = .ok r) :
    delivered r tag = emitted t evs tag := by
  obtain ⟨o, h1, h2⟩ := delivered_spec t evs tag r _ hk h
  rw [h2, emitted_eq]
  unfold mergeOne at h1
  split at h1
  · rename_i hnil
    simp only [Except.ok.injEq] at h1
    subst h1
    simp [hnil]
  · simp only [applyMiddlewares, applyMiddleware, uniqueOverwrite_nodup_id _ hidx] at h1
    split at h1
    · simp at h1
    · rename_i its hits
      simp only [Except.ok.injEq] at h1
      subst h1
      exact flatten_ok _ _ hits

/-- the same for a `withEventMerge` tag: with distinct indices nothing is merged. -/
theorem merge_distinct_indices_identity (t : Table) (evs : List Event) (tag : Nat) (r : Result) (f : MergeFn)
    (hk : kindOf t tag = some [.mergeBy f])
    (hidx : ((eventsOf t evs tag).map (·.index)).Nodup)
    (h : mergeEvents t evs = .ok r) :
    delivered r tag = emitted t evs tag := by
  obtain ⟨o, h1, h2⟩ := delivered_spec t evs tag r _ hk h
  rw [h2, emitted_eq]
  unfold mergeOne at h1
  split at h1
  · rename_i hnil
    simp only [Except.ok.injEq] at h1
    subst h1
    simp [hnil]
  · simp only [applyMiddlewares, applyMiddleware, eventMerge_nodup_id f _ hidx] at h1
    split at h1
    · simp at h1
    · rename_i its hits
      simp only [Except.ok.injEq] at h1
      subst h1
      exact flatten_ok _ _ hits

def sumNum (F : String) (its : List Item) : Nat := (its.map (fun it => numField it F)).sum

theorem sumNum_flat_wf (F : String) (m : List (String × Event)) (h : ∀ p ∈ m, WFnum F p.2) :
    sumNum F ((m.map (·.2)).flatMap (·.items)) = total F m := by
  induction m with
  | nil => rfl
  | cons p t ih =>
    have hp := h p (List.mem_cons_self ..)
    obtain ⟨-, x, n, hx1, hx2⟩ := hp
    have := ih (fun q hq => h q (List.mem_cons_of_mem _ hq))
    simp only [sumNum, total, List.map_cons, List.flatMap_cons, List.map_append, List.sum_append, List.sum_cons] at this ⊢
    rw [this, hx1]
    simp [numOf, hx1]

theorem sumNum_flat_events (F : String) (evs : List Event) (h : ∀ e ∈ evs, WFnum F e) :
    sumNum F (evs.flatMap (·.items)) = (evs.map (numOf F)).sum := by
  induction evs with
  | nil => rfl
  | cons e es ih =>
    obtain ⟨-, x, n, hx1, hx2⟩ := h e (List.mem_cons_self ..)
    have := ih (fun q hq => h q (List.mem_cons_of_mem _ hq))
    simp only [sumNum, List.map_cons, List.flatMap_cons, List.map_append, List.sum_append, List.sum_cons] at this ⊢
    rw [this, hx1]
    simp [numOf, hx1]

/-- **summed_total_preserved**: a tag merged by `a.F += b.F` (lock/unlock of stake, read and write pools, collected
rewards, paid fees, stake-pool rewards) keeps the block total of every summed field, mod 2^64 as Go's `+=` does, for
ANY number of events per index; and such a block never fails in that merger. -/
theorem summed_total_preserved (t : Table) (evs : List Event) (tag : Nat) (r : Result) (sums maps : List String) (F : String)
    (hk : kindOf t tag = some [.mergeBy (.fields sums maps)]) (hF : F ∈ sums) (hn : sums.Nodup)
    (hwf : ∀ e ∈ eventsOf t evs tag, WFnum F e)
    (h : mergeEvents t evs = .ok r) :
    sumNum F (delivered r tag) % U64 = sumNum F (emitted t evs tag) % U64 := by
  obtain ⟨o, h1, h2⟩ := delivered_spec t evs tag r _ hk h
  rw [h2, emitted_eq]
  obtain ⟨out, ho1, ho2, ho3⟩ := eventMergeFold_sum sums maps F hF hn (eventsOf t evs tag) [] (by simp) hwf
  unfold mergeOne at h1
  split at h1
  · rename_i hnil
    simp only [Except.ok.injEq] at h1
    subst h1
    simp [hnil]
  · have hem : eventMerge (.fields sums maps) (eventsOf t evs tag) = .ok (out.map (·.2)) := by
      unfold eventMerge
      rw [eventMergeMap_eq, ho1]
    simp only [applyMiddlewares, applyMiddleware, hem] at h1
    split at h1
    · simp at h1
    · rename_i its hits
      simp only [Except.ok.injEq] at h1
      subst h1
      have := flatten_ok _ _ hits
      subst this
      simp only
      rw [sumNum_flat_wf F out ho2, sumNum_flat_events F _ hwf, ho3]
      simp [total]

/-! ## what fails, and why -/

/-- under `withUniqueEventOverwrite` exactly the LAST event of every index survives (as a finite map: Go returns
the survivors in map order). -/
theorem overwrite_keeps_last (evs : List Event) (k : String) :
    lookup (overwriteMap evs) k = lastWith evs k := by
  rw [overwriteMap_eq, overwriteFold_lookup]
  cases lastWith evs k <;> simp [lookup]

theorem overwrite_survivor_iff (evs : List Event) (e : Event) :
    e ∈ uniqueOverwrite evs ↔ ∃ k, lastWith evs k = some e := by
  unfold uniqueOverwrite
  have hn : (keys (overwriteMap evs)).Nodup := by
    rw [overwriteMap_eq]; exact overwriteFold_nodup evs [] (by simp)
  constructor
  · intro h
    obtain ⟨p, hp, hpe⟩ := List.mem_map.mp h
    obtain ⟨k, v⟩ := p
    simp only at hpe
    subst hpe
    exact ⟨k, by rw [← overwrite_keeps_last]; exact (mem_iff_lookup _ hn k v).mp hp⟩
  · rintro ⟨k, hk⟩
    rw [← overwrite_keeps_last] at hk
    exact List.mem_map.mpr ⟨(k, e), (mem_iff_lookup _ hn k e).mpr hk, rfl⟩

/-- **overwrite_loses** — the general negation witness: whenever two events of a tag merged with
`withUniqueEventOverwrite` share an index in one block (two burns to one Ethereum address, two burns or two mints of
one client, two penalties of one provider), strictly fewer payloads reach the handler than were emitted. -/
theorem overwrite_loses (t : Table) (evs : List Event) (tag : Nat) (r : Result)
    (hk : kindOf t tag = some [.overwrite])
    (hs : ∀ e ∈ eventsOf t evs tag, Single e)
    (hdup : ¬ ((eventsOf t evs tag).map (·.index)).Nodup)
    (h : mergeEvents t evs = .ok r) :
    (delivered r tag).length < (emitted t evs tag).length := by
  obtain ⟨o, h1, h2⟩ := delivered_spec t evs tag r _ hk h
  rw [h2, emitted_eq]
  have hlen : ∀ l : List Event, (∀ e ∈ l, Single e) → (l.flatMap (·.items)).length = l.length := by
    intro l hl
    induction l with
    | nil => rfl
    | cons e es ih =>
      obtain ⟨-, hx⟩ := hl e (List.mem_cons_self ..)
      simp only [List.flatMap_cons, List.length_append, List.length_cons, hx]
      rw [ih (fun q hq => hl q (List.mem_cons_of_mem _ hq))]
      omega
  have hsub : ∀ e ∈ uniqueOverwrite (eventsOf t evs tag), Single e := by
    intro e he
    obtain ⟨k, hk'⟩ := (overwrite_survivor_iff _ e).mp he
    apply hs
    clear h1 h2 hdup hs he
    generalize eventsOf t evs tag = l at hk'
    induction l with
    | nil => simp [lastWith] at hk'
    | cons a as ih =>
      simp only [lastWith] at hk'
      cases hl : lastWith as k with
      | some x =>
        simp only [hl, Option.some.injEq] at hk'
        subst hk'
        exact List.mem_cons_of_mem _ (ih hl)
      | none =>
        simp only [hl] at hk'
        split at hk'
        · simp only [Option.some.injEq] at hk'
          subst hk'
          exact List.mem_cons_self ..
        · simp at hk'
  have hlt : (uniqueOverwrite (eventsOf t evs tag)).length < (eventsOf t evs tag).length := by
    unfold uniqueOverwrite
    rw [List.length_map, overwriteMap_eq]
    have := overwriteFold_length_lt (eventsOf t evs tag) [] (Or.inr hdup)
    simpa using this
  unfold mergeOne at h1
  split at h1
  · rename_i hnil
    rw [hnil] at hdup
    simp at hdup
  · simp only [applyMiddlewares, applyMiddleware] at h1
    split at h1
    · simp at h1
    · rename_i its hits
      simp only [Except.ok.injEq] at h1
      subst h1
      have := flatten_ok _ _ hits
      subst this
      simp only
      rw [hlen _ hsub, hlen _ hs]
      exact hlt

/-- the handler of `TagAddBurnTicket` as coded stores ONE ticket, whatever the merged event carries. -/
theorem burn_ticket_rows_first_only (t : Table) (data rows : List Item) (hs : t.ticketShape = .firstOnly)
    (h : burnTicketRows t data = .ok rows) : rows.length = 1 ∧ rows = data.take 1 := by
  unfold burnTicketRows at h
  cases data with
  | nil => simp at h
  | cons x rest =>
    simp only [hs, Except.ok.injEq] at h
    subst h
    simp

/-- … whichever order Go's map iteration produced: the stored ticket is SOME merged ticket, all others are dropped. -/
theorem burn_ticket_rows_any_order (t : Table) (data data' rows : List Item) (hs : t.ticketShape = .firstOnly)
    (hp : data'.Perm data) (h2 : 2 ≤ data.length) (h : burnTicketRows t data' = .ok rows) :
    rows.length < data.length ∧ ∀ x ∈ rows, x ∈ data := by
  obtain ⟨h1, h3⟩ := burn_ticket_rows_first_only t data' rows hs h
  refine ⟨by omega, fun x hx => ?_⟩
  rw [h3] at hx
  exact hp.subset (List.mem_of_mem_take hx)

/-- handler part of the partial theorem: a merged event with one ticket is stored as it is; and a handler that
loops (`.all`) stores every ticket. -/
theorem burn_ticket_rows_partial (t : Table) (x : Item) : burnTicketRows t [x] = .ok [x] := by
  unfold burnTicketRows; cases t.ticketShape <;> rfl

theorem burn_ticket_rows_all (t : Table) (data : List Item) (hs : t.ticketShape = .all) (hne : data ≠ []) :
    burnTicketRows t data = .ok data := by
  unfold burnTicketRows
  cases data with
  | nil => exact absurd rfl hne
  | cons x rest => simp [hs]

/-- `TagAuthorizerBurn`: one update row per delivered payload, carrying its burner and amount. -/
theorem authorizer_burn_rows (data : List Item) :
    authorizerBurnRows data = data.map (fun it => (strField it "Burner", numField it "Amount")) := rfl

/-- `TagAddBridgeMint`: when the handler fills one field of `state.Mint` with the authorizer id and the update reads
another, every update row is keyed by the empty id, i.e. no authorizer is credited. -/
theorem bridge_mint_rows_empty_id (t : Table) (data : List Item) (h : t.mintIdField ≠ t.mintSetField) :
    ∀ row ∈ (bridgeMintRows t data).2, row.1 = "" := by
  intro row hr
  simp only [bridgeMintRows, List.mem_map] at hr
  obtain ⟨p, -, hp⟩ := hr
  rw [← hp]
  simp [h]

theorem bridge_mint_rows_keyed (t : Table) (data : List Item) (h : t.mintIdField = t.mintSetField) :
    (bridgeMintRows t data).2 = authMint data := by
  simp only [bridgeMintRows, h, if_true]
  induction authMint data with
  | nil => rfl
  | cons p rest ih => simp [ih]

/-! ## the regenerated table -/

/-- tags whose handler writes one row / adds one amount per emitted event -/
def rowTags : List Nat := [Gen.TagAddBurnTicket, Gen.TagAuthorizerBurn, Gen.TagAddBridgeMint, Gen.TagStakePoolPenalty]

/-- tags the property calls additive or append-only: the bridge tags, stake rewards and penalties, pool locks and
unlocks, collected rewards and paid fees. -/
def additiveTags : List Nat := rowTags ++ [Gen.TagStakePoolReward, Gen.TagLockStakePool, Gen.TagUnlockStakePool,
  Gen.TagLockReadPool, Gen.TagUnlockReadPool, Gen.TagLockWritePool, Gen.TagUnlockWritePool,
  Gen.TagUpdateUserCollectedRewards, Gen.TagUpdateUserPayedFees]

/-- middleware lists that cannot lose an additive payload: none (append), or a single sum-merge with distinct field names -/
def lossless : Option (List Middleware) → Bool
  | some [] => true
  | some [.mergeBy (.fields sums _)] => decide sums.Nodup && !sums.isEmpty
  | _ => false

/-- the additive tags that are merged with `withUniqueEventOverwrite` in the source as found (findings) -/
def knownLossy : List Nat := rowTags

/-- **gen_additive_lossless_or_known** (re-proved on every regeneration): every additive tag has a merger, and it is
lossless unless it is one of the four recorded findings. Putting `withUniqueEventOverwrite` on a lock, reward or
fee tag, or dropping its merger's sum, makes this fail. -/
theorem gen_additive_lossless_or_known :
    ∀ tag ∈ additiveTags, (kindOf Gen.table tag).isSome ∧ (lossless (kindOf Gen.table tag) = true ∨ tag ∈ knownLossy) := by
  decide

/-- no merger is shadowed by an earlier merger for the same tag -/
theorem gen_merger_tags_distinct : (Gen.mergers.map (·.tag)).Nodup := by decide

/-- the summed field of every lock/unlock tag is `Amount` (so `summed_total_preserved` applies to it) -/
theorem gen_lock_tags_sum_amount :
    ∀ tag ∈ [Gen.TagLockStakePool, Gen.TagUnlockStakePool, Gen.TagLockReadPool, Gen.TagUnlockReadPool,
      Gen.TagLockWritePool, Gen.TagUnlockWritePool],
      kindOf Gen.table tag = some [.mergeBy (.fields ["Amount"] [])] := by decide

theorem gen_reward_tag_sums :
    kindOf Gen.table Gen.TagStakePoolReward = some [.mergeBy (.fields ["Reward"] ["DelegateRewards", "DelegatePenalties"])] ∧
    kindOf Gen.table Gen.TagUpdateUserCollectedRewards = some [.mergeBy (.fields ["CollectedReward"] [])] ∧
    kindOf Gen.table Gen.TagUpdateUserPayedFees = some [.mergeBy (.fields ["PayedFees"] [])] := by decide

/-- the payload type every bridge emit site in zcnsc constructs is the type parameter of that tag's merger
(a mismatch would make `mergeEvents` fail for every block carrying the event) -/
theorem gen_emit_types_match :
    ∀ s ∈ Gen.emitSites, (Gen.mergerTypes.find? (fun p => p.1 = s.1)).map (·.2) = some s.2.1 := by decide

/-- every bridge emit site uses as event index a value that is also a field of the payload (burn ticket: the Ethereum
address; burn: the burner; mint: the minting client) — so "same index" is "same address / same client". -/
theorem gen_emit_index_fields :
    Gen.emitSites.map (fun s => (s.1, s.2.2.2.2)) =
      [(Gen.TagAuthorizerBurn, "Burner"), (Gen.TagAddBurnTicket, "EthereumAddress"), (Gen.TagAddBridgeMint, "UserID")] := by
  decide

/-! ### the ORDER of the merger list: inserts of a row before its updates

`WorkEvents` applies the merged events to the query database in the order of the merger list, so for two tags that
address the same row the list order decides what the row holds after a block in which both occur. -/

/-- **update_after_insert_last_write** (any table, any block): if the row of `k` exists when the update of `k` is
applied (it was there before the block, or the block's insert of `k` is applied earlier in the list) and nothing later
touches `k`, the row ends the block with the updated value — the last value the block's events wrote. -/
theorem update_after_insert_last_write (tbl : List (String × Nat)) (pre post : List RowOp) (k : String) (y : Nat)
    (hrow : lookup (applyRows tbl pre) k ≠ none) (hpost : ∀ op ∈ post, op.key ≠ k) :
    lookup (applyRows tbl (pre ++ .update k y :: post)) k = some y := by
  rw [applyRows_append]
  show lookup (applyRows (applyRow (applyRows tbl pre) (.update k y)) post) k = some y
  rw [applyRows_untouched post _ k hpost]
  simp only [applyRow]
  cases h : lookup (applyRows tbl pre) k with
  | none => exact absurd h hrow
  | some _ => simp [lookup_upsert]

theorem insert_then_update (tbl : List (String × Nat)) (k : String) (x y : Nat) :
    lookup (applyRows tbl [.insert k x, .update k y]) k = some y := by
  have := update_after_insert_last_write tbl [.insert k x] [] k y (by simp [applyRows, applyRow, lookup_upsert]) (by simp)
  simpa using this

/-- **update_before_insert_stale** — the negation witness for any inverted pair: for a row that does not exist yet, an
update applied BEFORE the insert matches nothing and the insert then stores the older value. -/
theorem update_before_insert_stale (tbl : List (String × Nat)) (k : String) (x y : Nat) (h : lookup tbl k = none) :
    lookup (applyRows tbl [.update k y, .insert k x]) k = some x := by
  simp [applyRows, applyRow, h, lookup_upsert]

/-- … and an additive update (a reward) applied before the insert is lost altogether, while after it it counts. -/
theorem add_before_insert_lost (tbl : List (String × Nat)) (k : String) (x y : Nat) (h : lookup tbl k = none) :
    lookup (applyRows tbl [.add k y, .insert k x]) k = some x ∧
    lookup (applyRows tbl [.insert k x, .add k y]) k = some ((x + y) % U64) := by
  simp [applyRows, applyRow, h, lookup_upsert]

inductive Role where
  | ins | upd
deriving DecidableEq, Repr

/-- tables: 1 read_pools, 2 blobbers, 3 authorizers, 4 miners, 5 sharders, 6 validators, 7 allocations,
8 allocation_blobber_terms, 9 challenges, 10 delegate_pools, 11 provider_rewards, 12 users -/
def rolesOf : List (Nat × List (Nat × Role)) := [
  (Gen.TagAddOrOverwriteUser, [(12, .ins)]),
  (Gen.TagAddMiner, [(4, .ins), (11, .ins)]), (Gen.TagAddSharder, [(5, .ins), (11, .ins)]),
  (Gen.TagAddBlobber, [(2, .ins), (11, .ins)]), (Gen.TagUpdateBlobber, [(2, .upd)]),
  (Gen.TagAddAuthorizer, [(3, .ins), (11, .ins)]), (Gen.TagUpdateAuthorizer, [(3, .upd)]),
  (Gen.TagAddOrOverwiteValidator, [(6, .ins), (11, .ins)]),
  (Gen.TagShutdownProvider, [(2, .upd), (3, .upd), (4, .upd), (5, .upd), (6, .upd)]),
  (Gen.TagKillProvider, [(2, .upd), (3, .upd), (4, .upd), (5, .upd), (6, .upd)]),
  (Gen.TagAddAllocation, [(7, .ins)]), (Gen.TagUpdateAllocation, [(7, .upd)]), (Gen.TagUpdateAllocationStakes, [(7, .upd)]),
  -- TagUpdateAllocationBlobberTerm has a merger and a handler but no emit site (Gen.unemittedTags): no role
  (Gen.TagUpdateAllocationBlobberTerm, []),
  (Gen.TagAddOrOverwriteAllocationBlobberTerm, [(8, .ins)]), (Gen.TagDeleteAllocationBlobberTerm, []),
  (Gen.TagInsertReadpool, [(1, .ins)]), (Gen.TagUpdateReadpool, [(1, .upd)]),
  (Gen.TagAddChallenge, [(9, .ins)]), (Gen.TagAddChallengeToAllocation, [(7, .upd)]), (Gen.TagUpdateChallenge, [(9, .upd)]),
  (Gen.TagAddOrUpdateChallengePool, []),
  (Gen.TagUpdateBlobberChallenge, [(2, .upd)]), (Gen.TagUpdateAllocationChallenge, [(7, .upd)]),
  (Gen.TagUpdateBlobberAllocatedSavedHealth, [(2, .upd)]), (Gen.TagUpdateBlobberTotalStake, [(2, .upd)]),
  (Gen.TagUpdateBlobberTotalOffers, [(2, .upd)]),
  (Gen.TagStakePoolReward, [(11, .upd), (10, .upd)]), (Gen.TagStakePoolPenalty, [(11, .upd), (10, .upd)]),
  (Gen.TagAddDelegatePool, [(10, .ins)]),
  (Gen.TagUpdateMinerTotalStake, [(4, .upd)]), (Gen.TagUpdateSharderTotalStake, [(5, .upd)]),
  (Gen.TagUpdateAuthorizerTotalStake, [(3, .upd)]),
  (Gen.TagAddTransactions, []), (Gen.TagAddWriteMarker, []), (Gen.TagAddReadMarker, []),
  (Gen.TagUpdateAllocationStat, [(7, .upd)]), (Gen.TagUpdateBlobberStat, [(2, .upd)]),
  (Gen.TagUpdateValidator, [(6, .upd)]), (Gen.TagUpdateValidatorStakeTotal, [(6, .upd)]),
  (Gen.TagMinerHealthCheck, [(4, .upd)]), (Gen.TagSharderHealthCheck, [(5, .upd)]), (Gen.TagBlobberHealthCheck, [(2, .upd)]),
  (Gen.TagAuthorizerHealthCheck, [(3, .upd)]), (Gen.TagValidatorHealthCheck, [(6, .upd)]),
  (Gen.TagAddBurnTicket, []), (Gen.TagUpdateUserCollectedRewards, []),
  (Gen.TagLockStakePool, []), (Gen.TagUnlockStakePool, []), (Gen.TagLockReadPool, []), (Gen.TagUnlockReadPool, []),
  (Gen.TagLockWritePool, []), (Gen.TagUnlockWritePool, []), (Gen.TagUpdateUserPayedFees, []),
  (Gen.TagAuthorizerBurn, [(3, .upd)]), (Gen.TagAddBridgeMint, [(3, .upd), (12, .ins)])]

def rolesOfTag (tag : Nat) : Option (List (Nat × Role)) := (rolesOf.find? (·.1 = tag)).map (·.2)

/-- all (table, update tag, insert tag) triples whose update-kind merger stands BEFORE the insert-kind merger -/
def inversions : List Merger → List (Nat × Nat × Nat)
  | [] => []
  | m :: rest =>
    (rest.flatMap fun m' =>
      ((rolesOfTag m.tag).getD []).flatMap fun r =>
        if r.2 = .upd ∧ ((rolesOfTag m'.tag).getD []).contains (r.1, .ins) then [(r.1, m.tag, m'.tag)] else []) ++
    inversions rest

/-- inversions of the source as found (finding C20:update-applied-before-insert:delegate_pools): the rewards and
penalties of a block are applied before the delegate pools the block adds -/
def knownInversions : List (Nat × Nat × Nat) :=
  [(10, Gen.TagStakePoolReward, Gen.TagAddDelegatePool), (10, Gen.TagStakePoolPenalty, Gen.TagAddDelegatePool)]

/-- every merger's tag has a row role assigned (fail closed: a new merger must be classified here) -/
theorem gen_all_mergers_have_roles : Gen.mergers.all (fun m => (rolesOfTag m.tag).isSome) = true := by decide

/-- **insert_before_update_for_same_row** (re-proved on every regeneration): for every pair of tags that address the
same row, the insert-kind merger precedes the update-kind merger in the extracted list — except the recorded
delegate-pool inversions. Moving `mergeUpdateReadPoolEvents()` in front of `mergeInsertReadPoolEvents()` makes this
false. The one tag left without a role although it has an update handler, `TagUpdateAllocationBlobberTerm` (listed before
the add-or-overwrite merger), is never emitted (`Gen.unemittedTags`, checked by the translator). -/
theorem insert_before_update_for_same_row :
    (inversions Gen.mergers).all (fun i => knownInversions.contains i) = true ∧
    Gen.unemittedTags = [Gen.TagUpdateAllocationBlobberTerm] := by
  decide

/-- the source as found: a delegate pool added and rewarded in one block (stake lock, then a reward of that provider
in the same block) — the reward is applied before the pool row exists (negation of the full order statement;
meant to stop checking when the list is reordered). -/
theorem gen_delegate_pool_inversion_now :
    (inversions Gen.mergers).contains (10, Gen.TagStakePoolReward, Gen.TagAddDelegatePool) = true := by decide

/-! ### the commit path -/

/-- every link whose error must reach `ProcessEvents`' commit-or-rollback decision -/
def requiredFlows : List (String × String) := [
  ("addStat/TagAddBurnTicket", "addBurnTicket"), ("addStat/TagAuthorizerBurn", "updateAuthorizersTotalBurn"),
  ("addStat/TagAddBridgeMint", "updateUserMintNonce"), ("addStat/TagAddBridgeMint", "updateAuthorizersTotalMint"),
  ("processEvent/TypeStats", "addStat"), ("WorkEvents", "processEvent"), ("WorkEvents", "addEvents"),
  ("Work", "WorkEvents"), ("addEventsWorker", "Work"), ("ProcessEvents", "commit")]

/-- **stats_error_propagates** (re-proved on every regeneration): the error of every bridge handler, of `addStat` in
`processEvent`, of `processEvent`/`addEvents` in `WorkEvents`, of `WorkEvents` in `Work`, of `Work` in the worker and the
worker's verdict in `ProcessEvents` all reach the caller's error result — none is assigned to a shadowing variable or
dropped — so a handler failure makes the block's event processing fail and the transaction is rolled back, not
committed (finalization retries). Turning `err = edb.addStat(event)` into `if err := edb.addStat(event); …` makes the
extracted flow `.swallowed` and this theorem false. -/
theorem stats_error_propagates :
    errorsPropagate Gen.errorFlow = true ∧
    requiredFlows.all (fun r => Gen.errorFlow.any (fun e => e.1 == r.1 && e.2.1 == r.2)) = true := by
  decide

/-- what `errorsPropagate` means for one block: if some handler fails, the block commits iff some link swallows. -/
theorem commit_iff_swallowed (flows : List (String × String × ErrFlow)) :
    errorsPropagate flows = false ↔ ∃ f ∈ flows, f.2.2 ≠ .propagated := by
  unfold errorsPropagate
  simp [List.all_eq_false]

/-! ### the source as found: the full-strength statement is false

These are statements about the CURRENT `Generated/C20.lean`; after a repair of the source they are meant to stop
checking, and are then replaced by the positive statement. -/

/-- full strength, merge part, one tag, one block -/
def DeliversAll (t : Table) (evs : List Event) (tag : Nat) : Prop :=
  ∀ r, mergeEvents t evs = .ok r → (delivered r tag).length = (emitted t evs tag).length

/-- full strength: no row tag loses a payload in any block of single-payload events, and the burn-ticket handler
stores every delivered ticket. -/
def NoAdditiveEventLost (t : Table) : Prop :=
  (∀ tag ∈ rowTags, ∀ evs, (∀ e ∈ eventsOf t evs tag, Single e) → DeliversAll t evs tag) ∧
  (∀ data rows, data ≠ [] → burnTicketRows t data = .ok rows → rows = data)

def ticket (addr hash : String) (amount nonce : Nat) : Item :=
  [("EthereumAddress", .str addr), ("Hash", .str hash), ("Amount", .num amount), ("Nonce", .num nonce)]

def burnOf (client : String) (amount : Nat) : Item := [("Burner", .str client), ("Amount", .num amount)]

def mintOf (client : String) (nonce amount : Nat) (signers : List String) : Item :=
  [("UserID", .str client), ("MintNonce", .num nonce), ("Amount", .num amount), ("Signers", .strs signers)]

/-- the design-phase probe block: tickets (0xA,1),(0xA,2),(0xB,1), two burns of client c1 and one of c2 -/
def probeBlock : List Event := [
  ⟨Gen.TypeStats, Gen.TagAuthorizerBurn, "c1", .val, [burnOf "c1" 10]⟩,
  ⟨Gen.TypeStats, Gen.TagAddBurnTicket, "0xA", .ptr, [ticket "0xA" "h1" 10 1]⟩,
  ⟨Gen.TypeStats, Gen.TagAuthorizerBurn, "c1", .val, [burnOf "c1" 20]⟩,
  ⟨Gen.TypeStats, Gen.TagAddBurnTicket, "0xA", .ptr, [ticket "0xA" "h2" 20 2]⟩,
  ⟨Gen.TypeStats, Gen.TagAuthorizerBurn, "c2", .val, [burnOf "c2" 5]⟩,
  ⟨Gen.TypeStats, Gen.TagAddBurnTicket, "0xB", .ptr, [ticket "0xB" "h3" 5 1]⟩]

/-- what the model computes for the probe block on the regenerated table: ticket (0xA,1) and the first burn of c1 are
gone (the harness replays the same block on the real code: fixed case 1). -/
theorem gen_probe_block :
    mergeEvents Gen.table probeBlock = .ok ⟨[
      ⟨Gen.TagAddBurnTicket, [ticket "0xA" "h2" 20 2, ticket "0xB" "h3" 5 1]⟩,
      ⟨Gen.TagAuthorizerBurn, [burnOf "c1" 20, burnOf "c2" 5]⟩], []⟩ := by decide

/-- … and of the two tickets that are left the handler stores one. -/
theorem gen_probe_block_rows :
    burnTicketRows Gen.table [ticket "0xA" "h2" 20 2, ticket "0xB" "h3" 5 1] = .ok [ticket "0xA" "h2" 20 2] := by decide

/-- two mints of one client: the first is gone; and the totals update is keyed by the empty id. -/
theorem gen_two_mints :
    (mergeEvents Gen.table [
      ⟨Gen.TypeStats, Gen.TagAddBridgeMint, "u1", .ptr, [mintOf "u1" 1 100 ["a1", "a2"]]⟩,
      ⟨Gen.TypeStats, Gen.TagAddBridgeMint, "u1", .ptr, [mintOf "u1" 2 50 ["a1"]]⟩] =
        .ok ⟨[⟨Gen.TagAddBridgeMint, [mintOf "u1" 2 50 ["a1"]]⟩], []⟩) ∧
    bridgeMintRows Gen.table [mintOf "u1" 2 50 ["a1"]] = ([("u1", 2)], [("", 50)]) := by decide

theorem gen_row_tags_overwrite : ∀ tag ∈ rowTags, kindOf Gen.table tag = some [.overwrite] := by decide

theorem gen_mint_id_field_mismatch : Gen.table.mintIdField ≠ Gen.table.mintSetField := by decide

/-- **no_additive_event_lost is false of the source as found** (both halves: the merge and the burn-ticket handler). -/
theorem gen_no_additive_event_lost_false : ¬ NoAdditiveEventLost Gen.table := by
  intro ⟨h1, _⟩
  have := h1 Gen.TagAddBurnTicket (by decide) probeBlock (by decide) _ gen_probe_block
  revert this
  decide

theorem gen_burn_ticket_handler_false :
    ¬ (∀ data rows, data ≠ [] → burnTicketRows Gen.table data = .ok rows → rows = data) := by
  intro h
  have := h _ _ (by decide) gen_probe_block_rows
  revert this
  decide

/-! ## non-vacuity -/

-- a block that meets the hypotheses of the partial theorem and of `summed_total_preserved`, and what it delivers
example : ((eventsOf Gen.table probeBlock Gen.TagAddBurnTicket).map (·.index)).Nodup = False := by decide
example : ((eventsOf Gen.table (probeBlock.drop 3) Gen.TagAddBurnTicket).map (·.index)).Nodup := by decide
example : ∀ e ∈ eventsOf Gen.table probeBlock Gen.TagAddBurnTicket, Single e := by decide
example : mergeEvents Gen.table [
    ⟨Gen.TypeStats, Gen.TagLockStakePool, "p1", .val, [[("Client", .str "c"), ("Amount", .num 18446744073709551615)]]⟩,
    ⟨Gen.TypeStats, Gen.TagLockStakePool, "p1", .val, [[("Client", .str "d"), ("Amount", .num 2)]]⟩] =
    .ok ⟨[⟨Gen.TagLockStakePool, [[("Client", .str "c"), ("Amount", .num 1)]]⟩], []⟩ := by decide
example : WFnum "Amount" ⟨Gen.TypeStats, Gen.TagLockStakePool, "p1", .val, [[("Client", .str "c"), ("Amount", .num 7)]]⟩ :=
  ⟨Or.inl rfl, _, 7, rfl, by decide⟩
example : kindOf Gen.table Gen.TagAddAllocation = some [] := by decide

end ZChain.Events
