import ZChain.Proofs.Vesting
/-!
# C16 — Vesting pays each destination at most its amount, on schedule

Statements about `Model/Vesting.lean` (smartcontract/vestingsc/vesting.go), tied to the Go code by `harness/cmd/c16`
(the real contract through the real `Chain.UpdateState`).

Since repair 9976375 (`if amount > left { amount = left }` in `destination.unlock`) these hold for ALL amounts up to the
token supply (`PoolGood`: amounts `< 2^63`, so that `uint64(float64(left)·ratio)` is a defined conversion), for every
destination list, every time inside or after the vesting span: a trigger always succeeds, `Vested ≤ Amount` is kept
and `Vested` never decreases (`trigger_sound`), the pool keeps backing the unvested remainders and tokens are conserved,
the owner can always withdraw exactly the excess (`owner_can_withdraw_excess`) and delete the pool, every token leaving
it (`owner_can_delete`). The single step (`unlockDest_spec` in Proofs/Vesting) is what `unlock`-by-destination and `stop`
execute, too.

What is NOT true for all amounts, stated precisely:
* `by_expiry_exact_partial`: ONE trigger at/after expiry vests everything when every remainder is below `2^53`. For a
  larger remainder `float64(left)` may round DOWN; the trigger then leaves less than one float ulp, which the next
  trigger at expiry pays (`expiry_round_down_witness`: amount `2^53+1` is paid as `2^53`, then `1`). The destination
  can still receive exactly its amount by expiry — it needs a second call.
* the linear schedule before expiry (“never ahead of schedule”) is NOT proved: `amount = uint64(float64(left)·ratio)`
  with `ratio = float64(period)/float64(full)` goes through three roundings, so a step may be a few units above or
  below `left·period/full` (for `left ≥ 2^53`: a few ulps of `float64(left)`); the harness oracle checks
  `vested·(end−start) ≤ amount·(t−start) + 3·(end−start)` for amounts `< 2^53` on every run.

Historical (before 9976375): `MultFloat64(left, 1.0)` could exceed `left`; the four negation witnesses of that defect are
replaced by `capped_at_expiry_witness` (the same inputs now behave correctly); the harness keeps replaying them and
keeps all six `C16:large-amount:*` oracle signatures active.
-/
namespace ZChain.Vesting
open ZChain ZChain.Coin

/-- a pool whose destinations are in good standing at (clipped) time `now`, backed by its balance. -/
structure PoolGood (p : Pool) (now : Int) : Prop where
  dests   : ∀ d ∈ p.dests, Good d (clip p now) p.expire
  backed  : needN p.dests ≤ p.balance
  valid   : p.balance < U64

/-- **trigger_sound** (vested_le_amount, monotone, pool_holds_remainder, conservation) — every amount `< 2^63`. On a good pool with
funds `trigger` succeeds; every destination keeps its id and amount, `Vested` does not decrease and stays `≤ Amount`;
the new balance still covers the unvested remainders; balance + transfers is conserved; what the destinations receive
is exactly what their remainders shrink by; transfers go to destinations of the pool only. -/
theorem trigger_sound (p : Pool) (now : Int) (g : PoolGood p now) (hb : p.balance ≠ 0) :
    ∃ p' ts, triggerPool p now = .ok (p', ts) ∧
      List.Forall₂ (fun d d' => d'.id = d.id ∧ d'.amount = d.amount ∧ d.vested ≤ d'.vested ∧ d'.vested ≤ d'.amount ∧
        d'.move ≤ clip p now ∧ d.move ≤ d'.move ∧ (clip p now = p.expire → leftN d < 2 ^ 53 → d'.vested = d'.amount)) p.dests p'.dests ∧
      needN p'.dests ≤ p'.balance ∧ p'.balance + sumT ts = p.balance ∧ needN p'.dests + sumT ts = needN p.dests ∧
      (∀ t ∈ ts, ∃ d ∈ p.dests, t.1 = d.id) ∧ p'.expire = p.expire ∧ p'.start = p.start ∧ p'.owner = p.owner := by
  obtain ⟨ds', bal', ts, h, hf, h1, h2, h3, h4⟩ := triggerLoop_spec (clip p now) p.expire p.dests p.balance g.dests g.backed
  refine ⟨{ p with dests := ds', balance := bal' }, ts, ?_, hf, h1, h2, h3, h4, rfl, rfl, rfl⟩
  unfold triggerPool
  rw [if_neg hb]
  simp only [h, bind, Except.bind]

/-- **by_expiry_exact_partial.** At or after expiry one trigger vests every destination's full amount, provided every
unvested remainder is below `2^53` (see the header for larger remainders). -/
theorem by_expiry_exact_partial (p : Pool) (now : Int) (g : PoolGood p now) (hb : p.balance ≠ 0) (he : p.expire ≤ now)
    (hse : p.start ≤ p.expire) (hsmall : ∀ d ∈ p.dests, leftN d < 2 ^ 53) :
    ∃ p' ts, triggerPool p now = .ok (p', ts) ∧ (∀ d' ∈ p'.dests, d'.vested = d'.amount) ∧ needN p'.dests = 0 := by
  obtain ⟨p', ts, h, hf, _⟩ := trigger_sound p now g hb
  have hclip : clip p now = p.expire := by
    unfold clip
    split
    · rfl
    · split
      · omega
      · omega
  have hall : ∀ d' ∈ p'.dests, d'.vested = d'.amount := by
    have : ∀ (l1 l2 : List Dest), (∀ d ∈ l1, leftN d < 2 ^ 53) →
        List.Forall₂ (fun d d' => d'.id = d.id ∧ d'.amount = d.amount ∧ d.vested ≤ d'.vested ∧ d'.vested ≤ d'.amount ∧
        d'.move ≤ clip p now ∧ d.move ≤ d'.move ∧ (clip p now = p.expire → leftN d < 2 ^ 53 → d'.vested = d'.amount)) l1 l2 → ∀ d' ∈ l2, d'.vested = d'.amount := by
      intro l1 l2 hs hf
      induction hf with
      | nil => intro d' hd; cases hd
      | cons hh _ ih =>
        intro d' hd
        rcases List.mem_cons.mp hd with rfl | hd
        · exact hh.2.2.2.2.2.2 hclip (hs _ List.mem_cons_self)
        · exact ih (fun d hd => hs d (List.mem_cons_of_mem _ hd)) d' hd
    exact this _ _ hsmall hf
  refine ⟨p', ts, h, hall, ?_⟩
  unfold needN
  have : ∀ (l : List Dest), (∀ d ∈ l, d.vested = d.amount) → (l.map leftN).sum = 0 := by
    intro l
    induction l with
    | nil => intro _; rfl
    | cons a l ih =>
      intro hl
      have := hl a List.mem_cons_self
      simp only [List.map_cons, List.sum_cons, ih (fun d hd => hl d (List.mem_cons_of_mem _ hd))]
      unfold leftN; omega
  exact this _ hall

/-- **owner_can_withdraw_excess.** Whenever every `Vested ≤ Amount` and the balance covers the remainders, the owner's
`unlock` transfers exactly `balance − Σ remainders` to the owner and leaves exactly the remainders (it is refused only
when there is no excess). -/
theorem owner_can_withdraw_excess (p : Pool) (hv : ∀ d ∈ p.dests, d.vested ≤ d.amount)
    (hb : needN p.dests ≤ p.balance) (hval : p.balance < U64) :
    drain p p.owner = (if p.balance = needN p.dests then .error .noExcess
      else .ok ({ p with balance := needN p.dests }, [(p.owner, p.balance - needN p.dests)])) := by
  unfold drain excess
  have hneed := needOf_ok p.dests 0 hv (by omega)
  rw [Nat.zero_add] at hneed
  rw [if_neg (by simp), hneed]
  simp only [bind, Except.bind]
  rw [wrapSub_of_le' hval hb]
  by_cases he : p.balance = needN p.dests
  · rw [if_pos he, if_pos (by omega)]
  · rw [if_neg he, if_neg (by omega)]
    unfold drainPool
    rw [if_neg (by omega)]
    simp only
    congr 2
    · congr 1; omega

/-- **owner_can_delete.** On a good pool (any amounts) the owner's `delete` succeeds and every token leaves the pool
(destinations get what has vested by `now`, the owner the rest). -/
theorem owner_can_delete (p : Pool) (now : Int) (g : PoolGood p now) :
    ∃ ts, scDelete p p.owner now = .ok ts ∧ sumT ts = p.balance := by
  unfold scDelete
  rw [if_neg (by simp)]
  by_cases hb : p.balance = 0
  · refine ⟨[], ?_, by simp [sumT, hb]⟩
    have h1 : ¬ (0 < p.balance) := by omega
    simp only [h1, if_false, bind, Except.bind, List.append_nil]
  · obtain ⟨p', ts, h, _, _, h2, _, _, _, _, ho⟩ := trigger_sound p now g hb
    have h1 : 0 < p.balance := by omega
    have hv' : p'.balance < U64 := by have := g.valid; omega
    by_cases hb' : p'.balance = 0
    · refine ⟨ts, ?_, by omega⟩
      have : ¬ (0 < p'.balance) := by omega
      simp only [h1, if_true, h, bind, Except.bind, this, if_false, List.append_nil]
    · refine ⟨ts ++ [(p.owner, p'.balance)], ?_, ?_⟩
      · have hpos : 0 < p'.balance := by omega
        have hd : drain { p' with dests := [] } p.owner = .ok ({ p' with dests := [], balance := 0 }, [(p.owner, p'.balance)]) := by
          have := owner_can_withdraw_excess { p' with dests := [] } (by intro d hd; cases hd) (by simp [needN]) hv'
          simp only [ho] at this ⊢
          rw [this]
          simp only [needN, List.map_nil, List.sum_nil]
          rw [if_neg hb']
          simp
        simp only [h1, if_true, h, bind, Except.bind, hpos, hd]
      · simp only [sumT, List.map_append, List.sum_append, List.map_cons, List.map_nil, List.sum_cons, List.sum_nil] at h2 ⊢
        omega

/-! ## amounts ≥ 2^53: the repaired cases and what remains -/

/-- one destination of `2^53 + 3`, never triggered before expiry. -/
def bigPool (balance : Nat) : Pool :=
  { balance := balance, start := 1700000000, expire := 1700001000, owner := 0,
    dests := [{ id := 1, amount := 2 ^ 53 + 3, vested := 0, last := 1700000000, move := 1700000000 }] }

/-- `MultFloat64(2^53+3, 1.0) = 2^53+4` (the float rounds up); the cap pays exactly `2^53+3`: with an exactly funded pool
the trigger at expiry succeeds (before 9976375: `value exceeds balance`, for ever, and delete failed too), with a spare
token the destination still gets exactly its amount (before: `2^53+4`), and the owner can delete either pool. -/
theorem capped_at_expiry_witness :
    multFloat64 (2 ^ 53 + 3) F64.one = .ok (2 ^ 53 + 4) ∧
    scTrigger (bigPool (2 ^ 53 + 3)) 0 1700001000 =
      .ok ({ (bigPool 0) with dests := [{ id := 1, amount := 2 ^ 53 + 3, vested := 2 ^ 53 + 3, last := 1700001000, move := 1700001000 }] },
           [(1, 2 ^ 53 + 3)]) ∧
    scTrigger (bigPool (2 ^ 53 + 4)) 0 1700001000 =
      .ok ({ (bigPool 1) with dests := [{ id := 1, amount := 2 ^ 53 + 3, vested := 2 ^ 53 + 3, last := 1700001000, move := 1700001000 }] },
           [(1, 2 ^ 53 + 3)]) ∧
    scDelete (bigPool (2 ^ 53 + 3)) 0 1700001001 = .ok [(1, 2 ^ 53 + 3)] ∧
    scDelete (bigPool (2 ^ 53 + 4)) 0 1700001001 = .ok [(1, 2 ^ 53 + 3), (0, 1)] := by decide +kernel

/-- what remains: `float64(2^53+1) = 2^53` rounds DOWN, so one trigger at expiry pays `2^53` and leaves 1; a second
trigger pays it. (`by_expiry_exact_partial` therefore keeps its `< 2^53` hypothesis for the one-call statement.) -/
theorem expiry_round_down_witness :
    let p : Pool := { balance := 2 ^ 53 + 1, start := 1700000000, expire := 1700001000, owner := 0,
                      dests := [{ id := 1, amount := 2 ^ 53 + 1, vested := 0, last := 1700000000, move := 1700000000 }] }
    let p1 : Pool := { p with balance := 1, dests := [{ id := 1, amount := 2 ^ 53 + 1, vested := 2 ^ 53, last := 1700001000, move := 1700001000 }] }
    scTrigger p 0 1700001000 = .ok (p1, [(1, 2 ^ 53)]) ∧
    scTrigger p1 0 1700001005 =
      .ok ({ p1 with balance := 0, dests := [{ id := 1, amount := 2 ^ 53 + 1, vested := 2 ^ 53 + 1, last := 1700001000, move := 1700001000 }] }, [(1, 1)]) := by
  decide +kernel

/-! ## non-vacuity -/

def smallPool : Pool :=
  { balance := 30000000005, start := 1700000000, expire := 1700001000, owner := 0,
    dests := [{ id := 1, amount := 10000000000, vested := 0, last := 1700000000, move := 1700000000 },
              { id := 2, amount := 20000000000, vested := 0, last := 1700000000, move := 1700000000 }] }

example : PoolGood smallPool 1700000250 := by
  refine ⟨?_, by decide, by decide⟩
  intro d hd
  simp only [smallPool, List.mem_cons, List.not_mem_nil, or_false] at hd
  rcases hd with rfl | rfl <;> exact ⟨by decide, by decide, by decide, by decide, by decide⟩

example : scTrigger smallPool 0 1700000250 =
    .ok ({ balance := 22500000005, start := 1700000000, expire := 1700001000, owner := 0,
           dests := [{ id := 1, amount := 10000000000, vested := 2500000000, last := 1700000250, move := 1700000250 },
                     { id := 2, amount := 20000000000, vested := 5000000000, last := 1700000250, move := 1700000250 }] },
         [(1, 2500000000), (2, 5000000000)]) := by decide +kernel

example : scDelete smallPool 0 1700000250 = .ok [(1, 2500000000), (2, 5000000000), (0, 22500000005)] := by decide +kernel

end ZChain.Vesting
