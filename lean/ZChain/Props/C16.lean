import ZChain.Proofs.Vesting
/-!
# C16 — Vesting pays each destination at most its amount, on schedule

Statements about `Model/Vesting.lean` (smartcontract/vestingsc/vesting.go), tied to the Go code by `harness/cmd/c16`
(the real contract through the real `Chain.UpdateState`).

Since repair 9976375 (`if amount > left { amount = left }` in `destination.unlock`) these hold for ALL amounts up to the
token supply (`PoolGood`: amounts `< 2^63`, so that `uint64(float64(left)·ratio)` is a defined conversion), for every
destination list, every time inside or after the vesting span: a trigger always succeeds, `Vested ≤ Amount` is kept
and `Vested` never decreases (`trigger_sound`), the pool keeps backing the unvested remainders and tokens are conserved,
the owner can always withdraw exactly the excess (`owner_can_withdraw_excess`) and delete the pool, every token leaving
it (`owner_can_delete`). The single step (`unlockDest_spec` in Proofs/Vesting) is what `unlock`-by-destination and `stop`
execute, too.

What is NOT true for all amounts, stated precisely:
* `by_expiry_exact_partial`: ONE trigger at/after expiry vests everything when every remainder is below `2^53`. For a
  larger remainder `float64(left)` may round DOWN; the trigger then leaves less than one float ulp, which the next
  trigger at expiry pays (`expiry_round_down_witness`: amount `2^53+1` is paid as `2^53`, then `1`). The destination
  can still receive exactly its amount by expiry — it needs a second call.
* the linear schedule (“never ahead of schedule”) is proved EXACTLY, in integers, for `amount · duration ≤ 2^51`
  (`paid_on_schedule`: any sequence of trigger / unlock / stop transactions at non-decreasing times; `add_on_schedule` for
  the start): there the float step `uint64(float64(left)·(float64(period)/float64(full)))` is at most
  `⌊left·period/full⌋` (`Coin.multFloat64_floor`, via the rounding error bound `F64.roundDiv_upper`). Above `2^51` the two
  roundings can cross an integer: the unchanged code pays ONE unit (for amounts `≥ 2^53`: up to a few ulps) ahead — known
  finding `C16:paid-ahead-of-schedule:float-rounding`, input in known_findings.jsonl. The model keeps both `Last` and
  `Move` as the code does; `last_variant_pays_ahead_witness` shows that computing `full` from `Last` breaks the theorem.

Historical (before 9976375): `MultFloat64(left, 1.0)` could exceed `left`; the four negation witnesses of that defect are
replaced by `capped_at_expiry_witness` (the same inputs now behave correctly); the harness keeps replaying them and
keeps all six `C16:large-amount:*` oracle signatures active.
-/
namespace ZChain.Vesting
open ZChain ZChain.Coin

/-- a pool whose destinations are in good standing at (clipped) time `now`, backed by its balance. -/
structure PoolGood (p : Pool) (now : Int) : Prop where
  dests   : ∀ d ∈ p.dests, Good d (clip p now) p.expire
  backed  : needN p.dests ≤ p.balance
  valid   : p.balance < U64

/-- **trigger_sound** (vested_le_amount, monotone, pool_holds_remainder, conservation) — every amount `< 2^63`. On a good pool with
funds `trigger` succeeds; every destination keeps its id and amount, `Vested` does not decrease and stays `≤ Amount`;
the new balance still covers the unvested remainders; balance + transfers is conserved; what the destinations receive
is exactly what their remainders shrink by; transfers go to destinations of the pool only. -/
theorem trigger_sound (p : Pool) (now : Int) (g : PoolGood p now) (hb : p.balance ≠ 0) :
    ∃ p' ts, triggerPool p now = .ok (p', ts) ∧
      List.Forall₂ (fun d d' => d'.id = d.id ∧ d'.amount = d.amount ∧ d.vested ≤ d'.vested ∧ d'.vested ≤ d'.amount ∧
        d'.move ≤ clip p now ∧ d.move ≤ d'.move ∧ (clip p now = p.expire → leftN d < 2 ^ 53 → d'.vested = d'.amount)) p.dests p'.dests ∧
      needN p'.dests ≤ p'.balance ∧ p'.balance + sumT ts = p.balance ∧ needN p'.dests + sumT ts = needN p.dests ∧
      (∀ t ∈ ts, ∃ d ∈ p.dests, t.1 = d.id) ∧ p'.expire = p.expire ∧ p'.start = p.start ∧ p'.owner = p.owner := by
  obtain ⟨ds', bal', ts, h, hf, h1, h2, h3, h4⟩ := triggerLoop_spec (clip p now) p.expire p.dests p.balance g.dests g.backed
  refine ⟨{ p with dests := ds', balance := bal' }, ts, ?_, hf, h1, h2, h3, h4, rfl, rfl, rfl⟩
  unfold triggerPool
  rw [if_neg hb]
  simp only [h, bind, Except.bind]

/-- **by_expiry_exact_partial.** At or after expiry one trigger vests every destination's full amount, provided every
unvested remainder is below `2^53` (see the header for larger remainders). -/
theorem by_expiry_exact_partial (p : Pool) (now : Int) (g : PoolGood p now) (hb : p.balance ≠ 0) (he : p.expire ≤ now)
    (hse : p.start ≤ p.expire) (hsmall : ∀ d ∈ p.dests, leftN d < 2 ^ 53) :
    ∃ p' ts, triggerPool p now = .ok (p', ts) ∧ (∀ d' ∈ p'.dests, d'.vested = d'.amount) ∧ needN p'.dests = 0 := by
  obtain ⟨p', ts, h, hf, _⟩ := trigger_sound p now g hb
  have hclip : clip p now = p.expire := by
    unfold clip
    split
    · rfl
    · split
      · omega
      · omega
  have hall : ∀ d' ∈ p'.dests, d'.vested = d'.amount := by
    have : ∀ (l1 l2 : List Dest), (∀ d ∈ l1, leftN d < 2 ^ 53) →
        List.Forall₂ (fun d d' => d'.id = d.id ∧ d'.amount = d.amount ∧ d.vested ≤ d'.vested ∧ d'.vested ≤ d'.amount ∧
        d'.move ≤ clip p now ∧ d.move ≤ d'.move ∧ (clip p now = p.expire → leftN d < 2 ^ 53 → d'.vested = d'.amount)) l1 l2 → ∀ d' ∈ l2, d'.vested = d'.amount := by
      intro l1 l2 hs hf
      induction hf with
      | nil => intro d' hd; cases hd
      | cons hh _ ih =>
        intro d' hd
        rcases List.mem_cons.mp hd with rfl | hd
        · exact hh.2.2.2.2.2.2 hclip (hs _ List.mem_cons_self)
        · exact ih (fun d hd => hs d (List.mem_cons_of_mem _ hd)) d' hd
    exact this _ _ hsmall hf
  refine ⟨p', ts, h, hall, ?_⟩
  unfold needN
  have : ∀ (l : List Dest), (∀ d ∈ l, d.vested = d.amount) → (l.map leftN).sum = 0 := by
    intro l
    induction l with
    | nil => intro _; rfl
    | cons a l ih =>
      intro hl
      have := hl a List.mem_cons_self
      simp only [List.map_cons, List.sum_cons, ih (fun d hd => hl d (List.mem_cons_of_mem _ hd))]
      unfold leftN; omega
  exact this _ hall

/-- **owner_can_withdraw_excess.** Whenever every `Vested ≤ Amount` and the balance covers the remainders, the owner's
`unlock` transfers exactly `balance − Σ remainders` to the owner and leaves exactly the remainders (it is refused only
when there is no excess). -/
theorem owner_can_withdraw_excess (p : Pool) (hv : ∀ d ∈ p.dests, d.vested ≤ d.amount)
    (hb : needN p.dests ≤ p.balance) (hval : p.balance < U64) :
    drain p p.owner = (if p.balance = needN p.dests then .error .noExcess
      else .ok ({ p with balance := needN p.dests }, [(p.owner, p.balance - needN p.dests)])) := by
  unfold drain excess
  have hneed := needOf_ok p.dests 0 hv (by omega)
  rw [Nat.zero_add] at hneed
  rw [if_neg (by simp), hneed]
  simp only [bind, Except.bind]
  rw [wrapSub_of_le' hval hb]
  by_cases he : p.balance = needN p.dests
  · rw [if_pos he, if_pos (by omega)]
  · rw [if_neg he, if_neg (by omega)]
    unfold drainPool
    rw [if_neg (by omega)]
    simp only
    congr 2
    · congr 1; omega

/-- **owner_can_delete.** On a good pool (any amounts) the owner's `delete` succeeds and every token leaves the pool
(destinations get what has vested by `now`, the owner the rest). -/
theorem owner_can_delete (p : Pool) (now : Int) (g : PoolGood p now) :
    ∃ ts, scDelete p p.owner now = .ok ts ∧ sumT ts = p.balance := by
  unfold scDelete
  rw [if_neg (by simp)]
  by_cases hb : p.balance = 0
  · refine ⟨[], ?_, by simp [sumT, hb]⟩
    have h1 : ¬ (0 < p.balance) := by omega
    simp only [h1, if_false, bind, Except.bind, List.append_nil]
  · obtain ⟨p', ts, h, _, _, h2, _, _, _, _, ho⟩ := trigger_sound p now g hb
    have h1 : 0 < p.balance := by omega
    have hv' : p'.balance < U64 := by have := g.valid; omega
    by_cases hb' : p'.balance = 0
    · refine ⟨ts, ?_, by omega⟩
      have : ¬ (0 < p'.balance) := by omega
      simp only [h1, if_true, h, bind, Except.bind, this, if_false, List.append_nil]
    · refine ⟨ts ++ [(p.owner, p'.balance)], ?_, ?_⟩
      · have hpos : 0 < p'.balance := by omega
        have hd : drain { p' with dests := [] } p.owner = .ok ({ p' with dests := [], balance := 0 }, [(p.owner, p'.balance)]) := by
          have := owner_can_withdraw_excess { p' with dests := [] } (by intro d hd; cases hd) (by simp [needN]) hv'
          simp only [ho] at this ⊢
          rw [this]
          simp only [needN, List.map_nil, List.sum_nil]
          rw [if_neg hb']
          simp
        simp only [h1, if_true, h, bind, Except.bind, hpos, hd]
      · simp only [sumT, List.map_append, List.sum_append, List.map_cons, List.map_nil, List.sum_cons, List.sum_nil] at h2 ⊢
        omega

/-! ## amounts ≥ 2^53: the repaired cases and what remains -/

/-- one destination of `2^53 + 3`, never triggered before expiry. -/
def bigPool (balance : Nat) : Pool :=
  { balance := balance, start := 1700000000, expire := 1700001000, owner := 0,
    dests := [{ id := 1, amount := 2 ^ 53 + 3, vested := 0, last := 1700000000, move := 1700000000 }] }

/-- `MultFloat64(2^53+3, 1.0) = 2^53+4` (the float rounds up); the cap pays exactly `2^53+3`: with an exactly funded pool
the trigger at expiry succeeds (before 9976375: `value exceeds balance`, for ever, and delete failed too), with a spare
token the destination still gets exactly its amount (before: `2^53+4`), and the owner can delete either pool. -/
theorem capped_at_expiry_witness :
    multFloat64 (2 ^ 53 + 3) F64.one = .ok (2 ^ 53 + 4) ∧
    scTrigger (bigPool (2 ^ 53 + 3)) 0 1700001000 =
      .ok ({ (bigPool 0) with dests := [{ id := 1, amount := 2 ^ 53 + 3, vested := 2 ^ 53 + 3, last := 1700001000, move := 1700001000 }] },
           [(1, 2 ^ 53 + 3)]) ∧
    scTrigger (bigPool (2 ^ 53 + 4)) 0 1700001000 =
      .ok ({ (bigPool 1) with dests := [{ id := 1, amount := 2 ^ 53 + 3, vested := 2 ^ 53 + 3, last := 1700001000, move := 1700001000 }] },
           [(1, 2 ^ 53 + 3)]) ∧
    scDelete (bigPool (2 ^ 53 + 3)) 0 1700001001 = .ok [(1, 2 ^ 53 + 3)] ∧
    scDelete (bigPool (2 ^ 53 + 4)) 0 1700001001 = .ok [(1, 2 ^ 53 + 3), (0, 1)] := by decide +kernel

/-- what remains: `float64(2^53+1) = 2^53` rounds DOWN, so one trigger at expiry pays `2^53` and leaves 1; a second
trigger pays it. (`by_expiry_exact_partial` therefore keeps its `< 2^53` hypothesis for the one-call statement.) -/
theorem expiry_round_down_witness :
    let p : Pool := { balance := 2 ^ 53 + 1, start := 1700000000, expire := 1700001000, owner := 0,
                      dests := [{ id := 1, amount := 2 ^ 53 + 1, vested := 0, last := 1700000000, move := 1700000000 }] }
    let p1 : Pool := { p with balance := 1, dests := [{ id := 1, amount := 2 ^ 53 + 1, vested := 2 ^ 53, last := 1700001000, move := 1700001000 }] }
    scTrigger p 0 1700001000 = .ok (p1, [(1, 2 ^ 53)]) ∧
    scTrigger p1 0 1700001005 =
      .ok ({ p1 with balance := 0, dests := [{ id := 1, amount := 2 ^ 53 + 1, vested := 2 ^ 53 + 1, last := 1700001000, move := 1700001000 }] }, [(1, 1)]) := by
  decide +kernel

/-! ## the linear schedule, exactly -/

/-- a destination is ON SCHEDULE (w.r.t. the pool's start `s` and expiry `e`): what has vested by its last move is at most
the linear share, exactly in integers; `small` is the exact-float domain. -/
structure OnSched (s e : Int) (d : Dest) : Prop where
  vle   : d.vested ≤ d.amount
  ms    : s ≤ d.move
  me    : d.move ≤ e
  sched : (d.vested : Int) * (e - s) ≤ (d.amount : Int) * (d.move - s)
  small : d.amount * (e - s).toNat ≤ 2 ^ 51

theorem onSched_good {s e t : Int} {d : Dest} (h : OnSched s e d) (hse : s < e) (hspan : e - s < 2 ^ 53)
    (hmt : d.move ≤ t) (hte : t ≤ e) : Good d t e ∧ leftN d * (e - d.move).toNat ≤ 2 ^ 51 := by
  have h1 := h.ms; have h2 := h.me; have h3 := h.small; have h4 := h.vle
  have hdur : 1 ≤ (e - s).toNat := by omega
  have hA : d.amount ≤ 2 ^ 51 := Nat.le_trans (Nat.le_mul_of_pos_right _ hdur) h3
  refine ⟨⟨h4, Nat.lt_of_le_of_lt hA (by decide), hmt, hte, by omega⟩, ?_⟩
  calc leftN d * (e - d.move).toNat ≤ d.amount * (e - s).toNat :=
        Nat.mul_le_mul (by unfold leftN; omega) (by omega)
    _ ≤ 2 ^ 51 := h3

/-- one unlock step keeps a destination on schedule. -/
theorem onSched_step {s e t : Int} {d d' : Dest} {a : Nat} (h : OnSched s e d) (hse : s < e) (hspan : e - s < 2 ^ 53)
    (hmt : d.move ≤ t) (hte : t ≤ e) (hu : unlockDest d t e = .ok (d', a)) :
    OnSched s e d' ∧ d'.move ≤ t ∧ d'.id = d.id := by
  obtain ⟨g, hsm⟩ := onSched_good h hse hspan hmt hte
  obtain ⟨hin, hale⟩ := unlockDest_sched g hsm hu
  obtain ⟨d2, a2, hu2, _, hv, ham, hid, hmv, hmv2, _, hmove⟩ := unlockDest_spec g
  rw [hu] at hu2
  injection hu2 with hu2; injection hu2 with e1 e2; subst e1 e2
  have h1 := h.ms; have h2 := h.me; have h4 := h.vle
  refine ⟨⟨by unfold leftN at hale; omega, by omega, by omega, ?_, by rw [ham]; exact h.small⟩, hmv, hid⟩
  rw [hv, ham]
  rcases Nat.eq_zero_or_pos a with h0 | h0
  · subst h0
    simp only [Nat.add_zero]
    have : (d.amount : Int) * (d.move - s) ≤ (d.amount : Int) * (d'.move - s) :=
      Int.mul_le_mul_of_nonneg_left (by omega) (by omega)
    exact Int.le_trans h.sched this
  · rw [hmove h0]
    have := sched_step (d.vested : Int) (d.amount : Int) (a : Int) s d.move t e (by omega) (by exact_mod_cast h4) (by omega)
      (by unfold leftN at hale; omega) h1 hmt hte h.sched
      (by have : ((leftN d : Nat) : Int) = (d.amount : Int) - d.vested := by unfold leftN; omega
          rw [← this]; exact hin)
    exact_mod_cast this

/-- the trigger loop keeps every destination on schedule. -/
theorem triggerLoop_sched (s e t : Int) (hse : s < e) (hspan : e - s < 2 ^ 53) (hte : t ≤ e) :
    ∀ (ds : List Dest) (bal : Nat) (ds' : List Dest) (bal' : Nat) (ts : Transfers),
    (∀ d ∈ ds, OnSched s e d ∧ d.move ≤ t) → triggerLoop t e ds bal = .ok (ds', bal', ts) →
    ∀ d' ∈ ds', OnSched s e d' ∧ d'.move ≤ t := by
  intro ds
  induction ds with
  | nil =>
    intro bal ds' bal' ts _ h
    unfold triggerLoop at h
    injection h with h; injection h with h1 _; subst h1
    intro d' hd; cases hd
  | cons d rest ih =>
    intro bal ds' bal' ts hall h
    unfold triggerLoop at h
    obtain ⟨⟨d1, value⟩, hu, h⟩ := bind_ok h
    have hd := hall d List.mem_cons_self
    obtain ⟨hs1, hm1, _⟩ := onSched_step hd.1 hse hspan hd.2 hte hu
    have hrest : ∀ x ∈ rest, OnSched s e x ∧ x.move ≤ t := fun x hx => hall x (List.mem_cons_of_mem _ hx)
    simp only at h
    split at h
    · obtain ⟨⟨rest', bal1, ts1⟩, hrec, h⟩ := bind_ok h
      injection h with h; injection h with h1 _; subst h1
      intro d' hd'
      rcases List.mem_cons.mp hd' with rfl | hd'
      · exact ⟨hs1, hm1⟩
      · exact ih _ _ _ _ hrest hrec d' hd'
    · obtain ⟨bal1, _, h⟩ := bind_ok h
      obtain ⟨⟨rest', bal2, ts1⟩, hrec, h⟩ := bind_ok h
      injection h with h; injection h with h1 _; subst h1
      intro d' hd'
      rcases List.mem_cons.mp hd' with rfl | hd'
      · exact ⟨hs1, hm1⟩
      · exact ih _ _ _ _ hrest hrec d' hd'

theorem clip_bounds (p : Pool) (now : Int) (h : p.start ≤ p.expire) : p.start ≤ clip p now ∧ clip p now ≤ p.expire := by
  unfold clip; split
  · omega
  · split <;> omega

theorem clip_mono (p : Pool) {t1 t2 : Int} (h : t1 ≤ t2) (hse : p.start ≤ p.expire) : clip p t1 ≤ clip p t2 := by
  unfold clip
  split <;> split <;> (try split) <;> (try split) <;> omega

/-- every destination of the pool is on schedule, and none has moved after the (clipped) time `clock` of the latest
transaction. -/
structure PoolSched (p : Pool) (clock : Int) : Prop where
  span  : p.start < p.expire
  dur   : p.expire - p.start < 2 ^ 53
  dests : ∀ d ∈ p.dests, OnSched p.start p.expire d ∧ d.move ≤ clip p clock

theorem PoolSched.advance {p : Pool} {c1 c2 : Int} (h : PoolSched p c1) (hc : c1 ≤ c2) : PoolSched p c2 :=
  ⟨h.span, h.dur, fun d hd => ⟨(h.dests d hd).1, Int.le_trans (h.dests d hd).2 (clip_mono p hc (Int.le_of_lt h.span))⟩⟩

theorem triggerPool_sched {p p' : Pool} {ts : Transfers} {clock now : Int} (h : PoolSched p clock) (hc : clock ≤ now)
    (ht : triggerPool p now = .ok (p', ts)) : PoolSched p' now ∧ p'.start = p.start ∧ p'.expire = p.expire := by
  unfold triggerPool at ht
  split at ht
  · cases ht
  · obtain ⟨⟨ds, bal, ts'⟩, hl, ht⟩ := bind_ok ht
    injection ht with ht; injection ht with h1 _; subst h1
    have h2 := h.advance hc
    have hb := clip_bounds p now (Int.le_of_lt h.span)
    refine ⟨⟨h.span, h.dur, ?_⟩, rfl, rfl⟩
    exact triggerLoop_sched p.start p.expire (clip p now) h.span h.dur hb.2 p.dests p.balance ds bal ts' h2.dests hl

theorem mem_replaceFirst : ∀ (ds : List Dest) (id : Nat) (d' x : Dest), x ∈ replaceFirst ds id d' → x = d' ∨ x ∈ ds := by
  intro ds
  induction ds with
  | nil => intro id d' x h; cases h
  | cons a ds ih =>
    intro id d' x h
    unfold replaceFirst at h
    split at h
    · rcases List.mem_cons.mp h with h | h
      · left; exact h
      · right; exact List.mem_cons_of_mem _ h
    · rcases List.mem_cons.mp h with h | h
      · right; rw [h]; exact List.mem_cons_self
      · rcases ih id d' x h with h | h
        · left; exact h
        · right; exact List.mem_cons_of_mem _ h

theorem vest_sched {p p' : Pool} {ts : Transfers} {z : Bool} {dest : Nat} {clock now : Int} (h : PoolSched p clock) (hc : clock ≤ now)
    (hv : vest p dest now = .ok (p', ts, z)) : PoolSched p' now ∧ p'.start = p.start ∧ p'.expire = p.expire := by
  have h2 := h.advance hc
  have hb := clip_bounds p now (Int.le_of_lt h.span)
  unfold vest at hv
  simp only at hv
  split at hv
  · cases hv
  · rename_i d hfind
    have hmem : d ∈ p.dests := List.mem_of_find?_eq_some hfind
    obtain ⟨⟨d', value⟩, hu, hv⟩ := bind_ok hv
    obtain ⟨hs1, hm1, _⟩ := onSched_step (h2.dests d hmem).1 h.span h.dur (h2.dests d hmem).2 hb.2 hu
    have hall : ∀ x ∈ replaceFirst p.dests dest d', OnSched p.start p.expire x ∧ x.move ≤ clip p now := by
      intro x hx
      rcases mem_replaceFirst _ _ _ _ hx with rfl | hx
      · exact ⟨hs1, hm1⟩
      · exact h2.dests x hx
    simp only at hv
    split at hv
    · injection hv with hv; injection hv with h1 _; subst h1
      exact ⟨⟨h.span, h.dur, hall⟩, rfl, rfl⟩
    · obtain ⟨bal, _, hv⟩ := bind_ok hv
      injection hv with hv; injection hv with h1 _; subst h1
      exact ⟨⟨h.span, h.dur, hall⟩, rfl, rfl⟩

theorem drain_sched {p p' : Pool} {ts : Transfers} {c : Nat} {clock : Int} (h : PoolSched p clock)
    (hd : drain p c = .ok (p', ts)) : PoolSched p' clock ∧ p'.start = p.start ∧ p'.expire = p.expire := by
  unfold drain at hd
  split at hd
  · cases hd
  · obtain ⟨over, _, hd⟩ := bind_ok hd
    split at hd
    · cases hd
    · obtain ⟨bal, _, hd⟩ := bind_ok hd
      injection hd with hd; injection hd with h1 _; subst h1
      exact ⟨⟨h.span, h.dur, h.dests⟩, rfl, rfl⟩

/-- the vesting transactions that can change a pool (besides `delete`, which removes it). -/
inductive VOp where
  | trigger (c : Nat) (now : Int)
  | unlock (c : Nat) (now : Int)
  | stop (c d : Nat) (now : Int)

def VOp.time : VOp → Int
  | .trigger _ t => t
  | .unlock _ t => t
  | .stop _ _ t => t

/-- one transaction: a failing one leaves the pool unchanged. -/
def vstep (p : Pool) : VOp → Pool
  | .trigger c now => match scTrigger p c now with
    | .ok (p', _) => p'
    | .error _ => p
  | .unlock c now => match scUnlock p c now with
    | .ok (p', _) => p'
    | .error _ => p
  | .stop c d now => match scStop p c d now with
    | .ok (p', _) => p'
    | .error _ => p

def pick (p : Pool) : Except Err (Pool × Transfers) → Pool
  | .ok (p', _) => p'
  | .error _ => p

theorem vstep_eq (p : Pool) (op : VOp) : vstep p op = pick p (match op with
    | .trigger c now => scTrigger p c now
    | .unlock c now => scUnlock p c now
    | .stop c d now => scStop p c d now) := by
  cases op <;> (unfold vstep pick; rfl)

theorem scTrigger_sched {p p' : Pool} {ts : Transfers} {c : Nat} {clock now : Int} (h : PoolSched p clock) (hc : clock ≤ now)
    (hr : scTrigger p c now = .ok (p', ts)) : PoolSched p' now ∧ p'.start = p.start ∧ p'.expire = p.expire := by
  unfold scTrigger at hr
  split at hr
  · cases hr
  · split at hr
    · cases hr
    · exact triggerPool_sched h hc hr

theorem scUnlock_sched {p p' : Pool} {ts : Transfers} {c : Nat} {clock now : Int} (h : PoolSched p clock) (hc : clock ≤ now)
    (hr : scUnlock p c now = .ok (p', ts)) : PoolSched p' now ∧ p'.start = p.start ∧ p'.expire = p.expire := by
  unfold scUnlock at hr
  split at hr
  · have := drain_sched h hr; exact ⟨this.1.advance hc, this.2⟩
  · obtain ⟨⟨p1, ts1, z⟩, hv, hr⟩ := bind_ok hr
    simp only at hr
    split at hr
    · cases hr
    · injection hr with hr; injection hr with h1 _; subst h1
      exact vest_sched h hc hv

theorem scStop_sched {p p' : Pool} {ts : Transfers} {c d : Nat} {clock now : Int} (h : PoolSched p clock) (hc : clock ≤ now)
    (hr : scStop p c d now = .ok (p', ts)) : PoolSched p' now ∧ p'.start = p.start ∧ p'.expire = p.expire := by
  unfold scStop at hr
  split at hr
  · cases hr
  · split at hr
    · cases hr
    · obtain ⟨⟨p1, ts1, z⟩, hv, hr⟩ := bind_ok hr
      injection hr with hr; injection hr with h1 _; subst h1
      obtain ⟨h1, f1, f2⟩ := vest_sched h hc hv
      exact ⟨⟨h1.span, h1.dur, fun x hx => h1.dests x ((List.mem_filter.mp hx).1)⟩, f1, f2⟩

theorem pick_sched (p : Pool) (r : Except Err (Pool × Transfers)) (clock now : Int) (h : PoolSched p clock) (hc : clock ≤ now)
    (hok : ∀ p' ts, r = .ok (p', ts) → PoolSched p' now ∧ p'.start = p.start ∧ p'.expire = p.expire) :
    PoolSched (pick p r) now ∧ (pick p r).start = p.start ∧ (pick p r).expire = p.expire := by
  cases r with
  | error e => exact ⟨h.advance hc, rfl, rfl⟩
  | ok v => obtain ⟨p', ts⟩ := v; exact hok p' ts rfl

theorem vstep_sched (p : Pool) (op : VOp) (clock : Int) (h : PoolSched p clock) (hc : clock ≤ op.time) :
    PoolSched (vstep p op) op.time ∧ (vstep p op).start = p.start ∧ (vstep p op).expire = p.expire := by
  rw [vstep_eq]
  cases op with
  | trigger c now => exact pick_sched p _ clock now h hc (fun p' ts hr => scTrigger_sched h hc hr)
  | unlock c now => exact pick_sched p _ clock now h hc (fun p' ts hr => scUnlock_sched h hc hr)
  | stop c d now => exact pick_sched p _ clock now h hc (fun p' ts hr => scStop_sched h hc hr)

def vrun (p : Pool) (ops : List VOp) : Pool := ops.foldl vstep p

/-- transaction times do not go backwards (a transaction whose time is before a destination's last move fails in the
contract with `negative coin value`; this theorem is about the others). -/
def Mono : Int → List VOp → Prop
  | _, [] => True
  | c, op :: ops => c ≤ op.time ∧ Mono op.time ops

def lastTime : Int → List VOp → Int
  | c, [] => c
  | _, op :: ops => lastTime op.time ops

theorem vrun_sched : ∀ (ops : List VOp) (p : Pool) (clock : Int), PoolSched p clock → Mono clock ops →
    PoolSched (vrun p ops) (lastTime clock ops) ∧ (vrun p ops).start = p.start ∧ (vrun p ops).expire = p.expire := by
  intro ops
  induction ops with
  | nil => intro p clock h _; exact ⟨h, rfl, rfl⟩
  | cons op ops ih =>
    intro p clock h hm
    obtain ⟨h1, f1, f2⟩ := vstep_sched p op clock h hm.1
    obtain ⟨h2, g1, g2⟩ := ih (vstep p op) op.time h1 hm.2
    exact ⟨h2, g1.trans f1, g2.trans f2⟩

/-- **paid_on_schedule** (“never ahead of the linear schedule”, exactly, in integers). Start from a pool whose destinations
are on schedule (e.g. a freshly added pool: `add_on_schedule`) with `amount · duration ≤ 2^51` for every destination, and run
ANY sequence of trigger / unlock / stop transactions, by any senders, successful or not, at non-decreasing times. Afterwards,
for every destination: `vested · (expire − start) ≤ amount · (t − start)` where `t` is the (clipped) time of the latest
transaction, and `vested ≤ amount`. -/
theorem paid_on_schedule (p : Pool) (clock : Int) (h : PoolSched p clock) (ops : List VOp) (hm : Mono clock ops) :
    ∀ d ∈ (vrun p ops).dests,
      (d.vested : Int) * (p.expire - p.start) ≤ (d.amount : Int) * (clip p (lastTime clock ops) - p.start) ∧
      d.vested ≤ d.amount := by
  intro d hd
  obtain ⟨hs, f1, f2⟩ := vrun_sched ops p clock h hm
  obtain ⟨ho, hmv⟩ := hs.dests d hd
  have hclip : clip (vrun p ops) (lastTime clock ops) = clip p (lastTime clock ops) := by
    unfold clip; rw [f1, f2]
  rw [hclip] at hmv
  refine ⟨?_, ho.vle⟩
  have h1 := ho.sched
  rw [f1, f2] at h1
  have : (d.amount : Int) * (d.move - p.start) ≤ (d.amount : Int) * (clip p (lastTime clock ops) - p.start) :=
    Int.mul_le_mul_of_nonneg_left (by omega) (by omega)
  exact Int.le_trans h1 this

/-- a freshly added pool is on schedule (nothing vested, `Move = start`). -/
theorem add_on_schedule (conf : Conf) (client : Nat) (cb : Option Nat) (value : Nat) (now start0 dur : Int)
    (dests : List (Nat × Nat)) (p : Pool) (h : add conf client cb value now start0 dur dests = .ok p)
    (hmin : 1 ≤ conf.minDur) (hdur : dur < 2 ^ 53) (hsmall : ∀ x ∈ dests, x.2 * dur.toNat ≤ 2 ^ 51) :
    PoolSched p p.start := by
  unfold add at h
  simp only at h
  generalize (if start0 = 0 then now else start0) = st at h
  split at h
  · cases h
  split at h
  · cases h
  rename_i hd1
  split at h
  · cases h
  split at h
  · cases h
  split at h
  · cases h
  obtain ⟨want, _, h⟩ := bind_ok h
  split at h
  · cases h
  split at h
  · cases h
  split at h
  · cases h
  split at h
  · cases h
  split at h
  · cases h
  injection h with h; subst h
  have hd : 1 ≤ dur := by omega
  refine ⟨by simp only; omega, by simp only; omega, ?_⟩
  intro d hdm
  simp only [List.mem_map] at hdm
  obtain ⟨x, hx, rfl⟩ := hdm
  refine ⟨⟨Nat.zero_le _, Int.le_refl _, by simp only; omega, by simp, ?_⟩, (clip_bounds _ _ (by simp only; omega)).1⟩
  have : st + dur - st = dur := by omega
  simp only [this]
  exact hsmall x hx

/-! ## why `full()` must be computed from `Move`, not from `Last` (seeded change C16-r2-1) -/

/-- the unlock step with `full = end − d.Last` instead of `end − d.Move` (the seeded variant). `Last` is the time of the
last trigger, `Move` the time of the last transfer that moved tokens; they differ after a trigger that moved nothing. -/
def unlockDestLast (d : Dest) (now end_ : Int) : Except Err (Dest × Nat) := do
  let l ← left d
  let ratio := if now = end_ then F64.one else F64.div (F64.ofInt (now - d.move)) (F64.ofInt (end_ - d.last))
  let a0 ← liftC (multFloat64 l ratio)
  let amount := if l < a0 then l else a0
  let d' ← moveDest d now amount
  .ok (d', amount)

def tenOver1000 : Dest := { id := 1, amount := 10, vested := 0, last := 0, move := 0 }

/-- 10 tokens over 1000 s, calls at +50 s and +99 s. With `Move` (the code): nothing is paid (0.5 and 0.99 tokens are due,
`Last` advances, `Move` stays) — on schedule. With `Last`: the second call divides by 950 s instead of 1000 s and pays 1
token when 0.99 is due: `1·1000 > 10·99`, ahead of the schedule although `Vested ≤ Amount` still holds. -/
theorem last_variant_pays_ahead_witness :
    (match unlockDest tenOver1000 50 1000 with
     | .ok (d1, a1) => (match unlockDest d1 99 1000 with
        | .ok (d2, a2) => a1 == 0 && a2 == 0 && d1.last == 50 && d1.move == 0 && decide (d2.vested * 1000 ≤ 10 * 99)
        | _ => false)
     | _ => false) = true ∧
    (match unlockDestLast tenOver1000 50 1000 with
     | .ok (d1, a1) => (match unlockDestLast d1 99 1000 with
        | .ok (d2, a2) => a1 == 0 && a2 == 1 && d2.vested == 1 && decide (10 * 99 < d2.vested * 1000) && decide (d2.vested ≤ d2.amount)
        | _ => false)
     | _ => false) = true := by decide +kernel

/-- non-vacuity of `paid_on_schedule`: the pool of the example above is on schedule, and stays so through zero-moving and
moving triggers. -/
example : PoolSched { balance := 100000000, start := 0, expire := 1000, owner := 0, dests := [tenOver1000] } 0 := by
  refine ⟨by decide, by decide, ?_⟩
  intro d hd
  simp only [List.mem_cons, List.not_mem_nil, or_false] at hd
  subst hd
  exact ⟨⟨by decide, by decide, by decide, by decide, by decide⟩, by decide⟩

example : (vrun { balance := 100000000, start := 0, expire := 1000, owner := 0, dests := [tenOver1000] }
    [.trigger 0 50, .trigger 0 99, .unlock 1 150, .trigger 0 500, .trigger 7 600, .trigger 0 1000]).dests =
    [{ id := 1, amount := 10, vested := 10, last := 1000, move := 1000 }] := by decide +kernel

/-! ## non-vacuity -/

def smallPool : Pool :=
  { balance := 30000000005, start := 1700000000, expire := 1700001000, owner := 0,
    dests := [{ id := 1, amount := 10000000000, vested := 0, last := 1700000000, move := 1700000000 },
              { id := 2, amount := 20000000000, vested := 0, last := 1700000000, move := 1700000000 }] }

example : PoolGood smallPool 1700000250 := by
  refine ⟨?_, by decide, by decide⟩
  intro d hd
  simp only [smallPool, List.mem_cons, List.not_mem_nil, or_false] at hd
  rcases hd with rfl | rfl <;> exact ⟨by decide, by decide, by decide, by decide, by decide⟩

example : scTrigger smallPool 0 1700000250 =
    .ok ({ balance := 22500000005, start := 1700000000, expire := 1700001000, owner := 0,
           dests := [{ id := 1, amount := 10000000000, vested := 2500000000, last := 1700000250, move := 1700000250 },
                     { id := 2, amount := 20000000000, vested := 5000000000, last := 1700000250, move := 1700000250 }] },
         [(1, 2500000000), (2, 5000000000)]) := by decide +kernel

example : scDelete smallPool 0 1700000250 = .ok [(1, 2500000000), (2, 5000000000), (0, 22500000005)] := by decide +kernel

end ZChain.Vesting
